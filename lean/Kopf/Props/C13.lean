/-
  C13 — Peering: lower-priority operators pause, exactly the top one is active. Property theorems only.

  Model: `Kopf/Model/C13_Peering.lean`. `decideEv` is one call of `process_peering_event` on ANY status content (unknown
  keys, missing fields, garbled values, dead records, the own record); `step` is the shared peering object - status AND
  version - with any number of operators under any order of starts, keep-alives (landing late), graceful exits in the two
  steps the code has since 26a293c (`exitBegin`: handling and peering observer stop, the pinger goes on … `exitEnd`: the
  record is withdrawn; `exit` = both at once), exits with a lost withdrawal, kills, deliveries of the CURRENT status
  (`deliver`) or of a view of ANY age (`deliverStale i view vv`: the verdict comes from the view; its `clean()` names the
  view's version `vv` and is applied only if the object is still at `vv` - 054d47d), passing time and foreign writes.
  `u` = ticks per second, lifetimes are whole seconds, `dead r now ⇔ lastseen + lifetime·u ≤ now`.

  What is and is not claimed:
  * per call, for every status content: `paused_iff`, `turned_iff`, `dead_cleaned`, `wake_at_deadline`;
  * FULL, for every view and every label list: a clean from an older version changes nothing (`stale_clean_refused`), a
    clean that lands removes only records that are dead in the CURRENT status (`clean_removes_only_dead`), a live record
    stays until its owner (or a foreign writer under its name) replaces it (`live_record_kept`) - findings F4 (lasting
    half) and F5 were the negation; `withdraw_on_exit`, `withdrawn_stays(_from)` with no guard (F9 was the negation),
    `exit_two_phase`, `exiting_operator_still_blocks` (F7 was the negation);
  * for timely runs (`Timely`: API calls ≤ B ticks; views of ANY age, graceful stops in two steps): `own_record_fresh`;
  * what remains guarded (`…_partial`): a VERDICT taken from an old view is the old verdict. `exactly_top_partial`,
    `at_most_one_active_partial` hold in states where every running operator's last view had the verdict of the current
    status (`Stable.current`); `settle_partial`, `failover_exit_partial`, `failover_after_loss(_timely)_partial` let ANY
    views be processed in between and ask that the LAST view each operator processes be the current status. Outside:
    `stale_verdict_two_active_witness` (the residue of F4: a live peer judged dead from a view older than its keep-alive
    margin makes the reader resume until its next event; nothing is deleted), `restart_stale_view_record_kept` (F5's
    schedule: the fresh record survives);
  * progress / possibility: `resume_after_expiry`, `convergence_possible`, `cleanup_possible`; a dead record is NOT
    inevitably cleaned: `cleanup_starved_witness`.
  The pause EFFECTS (streams closed, daemons stopped, nothing handled beyond queued events, nothing handled twice) have
  no theorem here: they are checked by the simulation oracle only.
-/
import Kopf.Lemmas.C13_Failover
import Kopf.Model.C13_KaFlight
namespace Kopf.C13

/-! ## "its peering object": another peering object of the same kind is not observed at all -/

/-- An event of ANOTHER peering object of the same kind (`metadata.name ≠ settings.peering.name`: another peering
    neighbourhood, whatever its name looks like) is ignored whatever it holds: no verdict, no clean, no toggle, no
    sleep, no touch - also when its status would make `Peer()` raise or is not a mapping. Only the operator's own
    object is "its peering object" of the property. (Whether the NAMES are compared for equality is the harness' side of
    the tie: direct calls with names that begin / end / are spelled like the own one, and other peering objects with
    live top-priority records beside the own one in the histories - white-box mutant m1.) -/
theorem foreign_object_ignored (u : Int) (status : Option (List (Identity × RawEntry))) (me : Identity) (p : Int)
    (ac : Bool) (tg : Option Bool) (now now2 : Int) :
    processEvent u false status me p ac tg now now2 = .ok .ignored := by
  simp [processEvent]

-- ... and it is not vacuous the other way round: the same content in the own object pauses
example : processEvent 64 true (some [("boss", .record { priority := some (.num 99999), lifetime := some (.num 3600),
                                                          lastseen := .absent, identityKey := false })])
            "me" 0 true (some false) 0 0
        = .ok (.done { cleaned := [], turned := some true, paused := some true, delays := [3600 * 64], sleep := some (3600 * 64),
                       touch := true }) := by decide

/-! ## paused ⇔ a live peer of higher or equal priority -/

/-- One call of `process_peering_event` on any status content that does not make it raise: the toggle
    ends up ON exactly when the status holds a record of somebody else that is alive at `now`
    (`now < lastseen + lifetime`, defaults 60 s / "just seen") and whose priority (default 0) is ≥ mine.
    The own record, dead records and records of lower priority never pause. -/
theorem paused_iff {u : Int} {st : List (Identity × RawEntry)} {me : Identity} {p : Int} {ac t0 : Bool}
    {now now2 : Int} {d : Decision} (h : decideEv u st me p ac (some t0) now now2 = .ok d) :
    (d.paused = some true ∨ d.paused = some false) ∧
    (d.paused = some true ↔
      ∃ i e q, (i, e) ∈ st ∧ mkPeer u now i e = .ok q ∧ i ≠ me ∧ q.isDead u now = false ∧
        ∃ x, q.prio = some x ∧ x ≥ p) := by
  unfold decideEv at h
  cases hp : parseAll u now st with
  | error e => simp [hp] at h
  | ok ps =>
    simp only [hp] at h
    have h := decideP_ok h
    subst h
    · constructor
      · obtain ⟨b, hb⟩ := decideCore_paused_isSome (u := u) (ps := ps) (me := me) (myPrio := p) (ac := ac)
          (t0 := t0) (now := now) (now2 := now2)
        rw [hb]; cases b <;> simp
      · rw [decideCore_paused]
        constructor
        · rintro ⟨q, hq, hne, hd, hx⟩
          obtain ⟨i, e, hm, hmk⟩ := (parseAll_mem hp q).mp hq
          have hid := mkPeer_id hmk
          exact ⟨i, e, q, hm, hmk, by rw [← hid]; exact hne, hd, hx⟩
        · rintro ⟨i, e, q, hm, hmk, hne, hd, hx⟩
          have hid := mkPeer_id hmk
          exact ⟨q, (parseAll_mem hp q).mpr ⟨i, e, hm, hmk⟩, ⟨by rw [hid]; exact hne, hd, hx⟩⟩

/-- The real action and the verdict are linked both ways: `turn_to(b)` is called iff the verdict `b` differs from
    the toggle's state — never redundantly, never omitted. -/
theorem turned_iff {u : Int} {ps : List Peer} {me : Identity} {p : Int} {ac t0 : Bool} {now now2 : Int} (b : Bool) :
    (decideCore u ps me p ac (some t0) now now2).turned = some b ↔
      (b ≠ t0 ∧ (decideCore u ps me p ac (some t0) now now2).paused = some b) := by
  simp only [decideCore, Option.map_some]
  generalize (!(prioPeers p (livePeers u now me ps)).isEmpty || !(samePeers p (livePeers u now me ps)).isEmpty) = bl
  cases t0 <;> cases b <;> cases bl <;> simp

/-! ## exactly the top-priority running operator is active -/

/-- A stable state: every running operator has a fresh record carrying its priority, every fresh
    record belongs to a running operator, running priorities are distinct, and every running operator
    holds the verdict of the latest version of the status: it has processed it as its current view (`deliver`) or through
    an older view that gives the SAME VERDICT (`deliverStale` with `sameVerdict`; what the view would clean does not matter:
    `stale_clean_refused`), no record having expired since. `current` is the guard; what it excludes is exactly a last
    view whose verdict differs from the current status' (the residue of finding F4). -/
structure Stable (u : Int) (s : State) : Prop where
  good : Good u s
  current : ∀ i op, s.ops i = some op → op.alive = true →
    ∃ t, op.seen = some (s.ver, t) ∧ ∀ j r, (j, r) ∈ s.status → (r.dead u t = r.dead u s.now)

/- Full clause: "among running operators with distinct priorities that see each other, exactly the highest-priority one
   ends up active" — for every delivery timing. FALSE of the code while some operator's last view is an old one with
   another verdict (`stale_verdict_two_active_witness`: until its next event). -/
/-- PARTIAL (guard: `Stable`, i.e. every running operator's last processed view has the verdict of the current status). In every
    reachable stable state — whatever history led there, old views included —, a running operator is active iff its
    priority is the maximum of the running operators, for any number of operators. -/
theorem exactly_top_partial {u : Int} {s : State} (hr : Reachable u s) (hs : Stable u s) : ExactlyTop s := by
  apply top_of_good hs.good
  intro i op hi ha
  obtain ⟨t, hseen, hsame⟩ := hs.current i op hi ha
  rw [((inv_reachable hr) i op hi s.ver t hseen).2 rfl]
  apply blockedB_congr
  intro j r
  constructor
  · rintro ⟨hd, hm⟩; exact ⟨by rw [← hsame j r hm]; exact hd, hm⟩
  · rintro ⟨hd, hm⟩; exact ⟨by rw [hsame j r hm]; exact hd, hm⟩

/-- PARTIAL (same guard). Hence at most one running operator is active. Without the guard two running operators can both
    be active: for a moment, with the verdict of an old view (`stale_verdict_two_active_witness`), or when time passes with no
    keep-alive at all (excluded in timely runs by `own_record_fresh`). -/
theorem at_most_one_active_partial {u : Int} {s : State} (hr : Reachable u s) (hs : Stable u s)
    {i j : Identity} {oi oj : Op} (hi : s.ops i = some oi) (hj : s.ops j = some oj)
    (hai : oi.alive = true) (haj : oj.alive = true) (hpi : oi.paused = false) (hpj : oj.paused = false) : i = j := by
  have ht := exactly_top_partial hr hs
  have h1 := (ht i oi hi hai).mp hpi j oj hj haj
  have h2 := (ht j oj hj haj).mp hpj i oi hi hai
  exact hs.good.distinct i j oi oj hi hj hai haj (by omega)

/-- PARTIAL (guard: both process the current status, or a view with its verdict — `stale_same_verdict`). Equal priority is a
    conflict: two running operators with fresh records of the same priority that have both processed the status are both
    paused. -/
theorem equal_priority_both_paused_partial {u : Int} {s s1 s2 : State} {i j : Identity} {oi oj : Op} {ri rj : Rec}
    (hne : i ≠ j) (hi : s.ops i = some oi) (hj : s.ops j = some oj) (hp : oi.prio = oj.prio)
    (hri : (i, ri) ∈ s.status) (hrj : (j, rj) ∈ s.status) (hpi : ri.priority = oi.prio) (hpj : rj.priority = oj.prio)
    (hfi : ri.dead u s.now = false) (hfj : rj.dead u s.now = false)
    (h1 : step u s (.deliver i) = some s1) (h2 : step u s1 (.deliver j) = some s2) :
    ∃ oi' oj', s2.ops i = some oi' ∧ s2.ops j = some oj' ∧ oi'.paused = true ∧ oj'.paused = true := by
  obtain ⟨o1, ho1, _, hnow1, hst1, _, _, hops1⟩ := deliver_spec h1
  obtain ⟨o2, ho2, _, _, _, _, _, hops2⟩ := deliver_spec h2
  rw [hi] at ho1; injection ho1 with ho1; subst ho1
  have hj1 : s1.ops j = some oj := by rw [hops1, updOp_other _ _ (Ne.symm hne)]; exact hj
  rw [hj1] at ho2; injection ho2 with ho2; subst ho2
  refine ⟨{ oi with paused := blockedB u s.status i oi.prio s.now, seen := some (s.ver, s.now),
                    sleeping := willTouch u s i oi },
    { oj with paused := blockedB u s1.status j oj.prio s1.now, seen := some (s1.ver, s1.now),
              sleeping := willTouch u s1 j oj },
    by rw [hops2, updOp_other _ _ hne, hops1]; simp, by rw [hops2]; simp, ?_, ?_⟩
  · show blockedB u s.status i oi.prio s.now = true
    rw [blockedB_iff]
    exact ⟨j, rj, hrj, Ne.symm hne, hfj, by omega⟩
  · show blockedB u s1.status j oj.prio s1.now = true
    rw [hst1, hnow1, blockedB_filter, blockedB_iff]
    exact ⟨i, ri, hri, hne, hfi, by omega⟩


/-! ## views of any age: the peering object is safe from them (findings F4 - lasting half - and F5, repaired by 054d47d) -/

/-- FULL. A view taken at a version that is not the current one - however old, whatever it says - changes NOTHING in the
    peering object: its `clean()` names that version and is refused (409, ignored). Only the reader's own flags move. -/
theorem stale_clean_refused {u : Int} {s s' : State} {i : Identity} {view : Status} {vv : Nat}
    (h : step u s (.deliverStale i view vv) = some s') (hv : vv ≠ s.ver) :
    s'.status = s.status ∧ s'.ver = s.ver ∧ s'.now = s.now ∧ ∀ k, k ≠ i → s'.ops k = s.ops k := by
  obtain ⟨o, _, _, _, hnow, hst, hver, hops⟩ := stale_refused_spec h hv
  exact ⟨hst, hver, hnow, fun k hk => by rw [hops, updOp_other _ _ hk]⟩

/-- FULL. Whatever view an operator processes (the current status, or a view of any version): a record that disappears
    from the peering object was DEAD in the current status at that moment and belonged to somebody else. A live record -
    renewed since the view was taken, or written by a restarted process under the same identity - is never deleted. -/
theorem clean_removes_only_dead {u : Int} {s s' : State} {i : Identity} {view : Status} {vv : Nat}
    (h : step u s (.deliverStale i view vv) = some s' ∨ step u s (.deliver i) = some s')
    {j : Identity} {r : Rec} (hm : (j, r) ∈ s.status) (hgone : (j, r) ∉ s'.status) :
    r.dead u s.now = true ∧ j ≠ i := by
  have key : s'.status = s.status ∨ s'.status = s.status.filter (fun e => !(e.2.dead u s.now && e.1 != i)) := by
    rcases h with h | h
    · obtain ⟨_, _, _, _, _, _, hst, _⟩ := stale_spec h; exact hst
    · obtain ⟨_, _, _, _, hst, _⟩ := deliver_spec h; exact Or.inr hst
  rcases key with e | e
  · rw [e] at hgone; exact absurd hm hgone
  · rw [e, List.mem_filter] at hgone
    cases hd : r.dead u s.now with
    | false => exact absurd ⟨hm, by simp [hd]⟩ hgone
    | true =>
      refine ⟨rfl, ?_⟩
      intro hji
      exact hgone ⟨hm, by simp [hji]⟩

/-- the labels by which the records under identity `j` legitimately change: `j`'s own writes (keep-alive, self-touch,
    withdrawal) and anybody's write under `j`'s name -/
def Writes (j : Identity) : Label → Prop
  | .keepalive i _ | .wake i _ | .land i | .exit i | .exitEnd i | .foreign i _ | .keepaliveFail i _ => i = j
  | _ => False

/-- FULL, for ALL label lists: a record stays in the peering object for as long as it is alive, whatever the OTHER
    operators do - start, stop, get killed, process views of any age, clean -, until its owner replaces or withdraws it
    (or somebody writes under its name). "A reader's stale view deletes a peer's current record" (F4, F5) is not a run. -/
theorem live_record_kept {u : Int} {j : Identity} {r : Rec} : ∀ (ls : List Label) (s s' : State),
    run u s ls = some s' → (j, r) ∈ s.status → r.dead u s'.now = false → (∀ l ∈ ls, ¬ Writes j l) →
    (j, r) ∈ s'.status := by
  intro ls
  induction ls with
  | nil => intro s s' h hm _ _; simp only [run, Option.some.injEq] at h; subst h; exact hm
  | cons l rest ih =>
    intro s s' h hm hlive hw
    simp only [run] at h
    cases hs : step u s l with
    | none => simp [hs] at h
    | some s1 =>
      simp only [hs] at h
      have hle1 := now_mono_step hs
      have hle2 := now_mono_run rest s1 s' h
      have hl0 : r.dead u s.now = false := dead_anti (by omega) hlive
      have hnw := hw l List.mem_cons_self
      refine ih s1 s' h ?_ hlive (fun l' hl' => hw l' (List.mem_cons_of_mem _ hl'))
      have filt : ∀ i : Identity, (j, r) ∈ s.status.filter (fun e => !(e.2.dead u s.now && e.1 != i)) :=
        fun i => List.mem_filter.mpr ⟨hm, by simp [hl0]⟩
      cases l with
      | start i p L => obtain ⟨_, hst, _⟩ := start_spec hs; rw [hst]; exact hm
      | keepalive i lag =>
        obtain ⟨_, _, _, _, _, hst, _⟩ := keepalive_spec hs
        rw [hst]; exact (mem_patch_other (fun e => hnw e)).mpr hm
      | exit i =>
        obtain ⟨_, _, _, _, hst, _⟩ := exit_spec hs
        rw [hst]; exact mem_erase.mpr ⟨hm, fun e => hnw e.symm⟩
      | exitLost i => obtain ⟨_, _, _, _, hst, _⟩ := exitLost_spec hs; rw [hst]; exact hm
      | exitBegin i => obtain ⟨_, _, _, _, _, hst, _⟩ := exitBegin_spec hs; rw [hst]; exact hm
      | keepaliveFail i w =>
        obtain ⟨_, _, _, _, hst, _⟩ := keepaliveFail_spec hs
        rw [hst]
        cases w
        · exact hm
        · exact mem_erase.mpr ⟨hm, fun e => hnw e.symm⟩
      | exitEnd i =>
        obtain ⟨_, _, _, _, _, hst, _⟩ := exitEnd_spec hs
        rw [hst]; exact mem_erase.mpr ⟨hm, fun e => hnw e.symm⟩
      | kill i => obtain ⟨_, _, _, _, hst, _⟩ := kill_spec hs; rw [hst]; exact hm
      | deliver i => obtain ⟨_, _, _, _, hst, _⟩ := deliver_spec hs; rw [hst]; exact filt i
      | deliverStale i v vv =>
        obtain ⟨_, _, _, _, _, _, hst, _⟩ := stale_spec hs
        rcases hst with e | e
        · rw [e]; exact hm
        · rw [e]; exact filt i
      | tick d => simp only [step, Option.some.injEq] at hs; subst hs; exact hm
      | expire k => simp only [step, Option.some.injEq] at hs; subst hs; exact hm
      | foreign i v =>
        simp only [step, Option.some.injEq] at hs; subst hs
        exact (mem_patch_other (fun e => hnw e)).mpr hm
      | wake i lag =>
        obtain ⟨_, _, _, _, hst, _⟩ := wake_spec hs
        rw [hst]; exact (mem_patch_other (fun e => hnw e)).mpr hm
      | wakeIssue i => obtain ⟨_, _, _, _, _, hst, _⟩ := wakeIssue_spec hs; rw [hst]; exact hm
      | land i =>
        obtain ⟨_, _, _, _, _, hst, _⟩ := land_spec hs
        rw [hst]; exact (mem_patch_other (fun e => hnw e)).mpr hm

/-- An older view need not be harmful even for the reader's own verdict: if, judged at the operator's clock, it blocks the
    operator exactly as the current status does (`sameVerdict`), then processing it sets the operator's entry - verdict,
    sleep, `seen` - exactly as processing the current status would; the peering object stays as it is (the dead records it
    holds are cleaned by a later call that sees the current version). So `Stable.current` covers such views. -/
theorem stale_same_verdict {u : Int} {s s1 s2 : State} {i : Identity} {view : Status} {vv : Nat} {o : Op}
    (ho : s.ops i = some o) (hv : vv ≠ s.ver) (hb : sameVerdict u s i o.prio view = true)
    (h1 : step u s (.deliverStale i view vv) = some s1) (h2 : step u s (.deliver i) = some s2) :
    s1.ops = s2.ops ∧ s1.status = s.status := by
  obtain ⟨o1, ho1, _, _, _, hst, _, hops1⟩ := stale_refused_spec h1 hv
  obtain ⟨o2, ho2, _, _, _, _, _, hops2⟩ := deliver_spec h2
  rw [ho] at ho1 ho2; injection ho1 with e1; injection ho2 with e2; subst e1; subst e2
  refine ⟨?_, hst⟩
  have hbl : blockedB u view i o.prio s.now = blockedB u s.status i o.prio s.now := by simpa [sameVerdict] using hb
  rw [hops1, hops2]
  simp only [willTouchView, willTouch, decideCore_touch, staleSeen, hb, if_true, hbl]

set_option synthInstance.maxSize 2048 in
/-- The residue of F4 in Lean (a wrong VERDICT from an old view; inherent to judging an old `lastseen` against the own
    clock). A (priority 100, lifetime 2 s) and B (priority 10) run; A renews its record in time (stamped 64, fresh until
    192). At clock 128 B processes the view of BEFORE that renewal — a status that really existed, at version 2 (first
    conjunct), the object being at version 3 now —: there A's record (stamped 0) is dead at B's clock, so B finds no blocker
    and RESUMES: A and B are both running and both active (third conjunct). But nothing is deleted: B's clean names
    version 2 and is refused, A's current record is intact; the event of A's renewal, which is on its way, pauses B again
    (fourth conjunct). Replayed on the real code: corpus/C13/F4.json (delivery later than the keep-alive margin). -/
theorem stale_verdict_two_active_witness :
    (run 64 init [.start "A" 100 2, .start "B" 10 10, .keepalive "A" 0, .keepalive "B" 0, .deliver "A", .deliver "B"]).map
        (fun s => (s.ver, s.status)) = some (2, [("A", ⟨100, 2, 0⟩), ("B", ⟨10, 10, 0⟩)]) ∧
    (run 64 init [.start "A" 100 2, .start "B" 10 10, .keepalive "A" 0, .keepalive "B" 0, .deliver "A", .deliver "B",
                  .tick 64, .keepalive "A" 0, .tick 64]).map (fun s => (s.now, s.ver, s.status, (s.ops "B").map (·.paused)))
      = some (128, 3, [("A", ⟨100, 2, 64⟩), ("B", ⟨10, 10, 0⟩)], some true) ∧
    (run 64 init [.start "A" 100 2, .start "B" 10 10, .keepalive "A" 0, .keepalive "B" 0, .deliver "A", .deliver "B",
                  .tick 64, .keepalive "A" 0, .tick 64,
                  .deliverStale "B" [("A", ⟨100, 2, 0⟩), ("B", ⟨10, 10, 0⟩)] 2]).map
        (fun s => ((s.ops "A").map (fun o => (o.alive, o.paused)), (s.ops "B").map (fun o => (o.alive, o.paused)), s.status))
      = some (some (true, false), some (true, false), [("A", ⟨100, 2, 64⟩), ("B", ⟨10, 10, 0⟩)]) ∧
    (run 64 init [.start "A" 100 2, .start "B" 10 10, .keepalive "A" 0, .keepalive "B" 0, .deliver "A", .deliver "B",
                  .tick 64, .keepalive "A" 0, .tick 64,
                  .deliverStale "B" [("A", ⟨100, 2, 0⟩), ("B", ⟨10, 10, 0⟩)] 2, .deliver "B"]).map
        (fun s => ((s.ops "A").map (fun o => (o.alive, o.paused)), (s.ops "B").map (fun o => (o.alive, o.paused))))
      = some (some (true, false), some (true, true)) := by decide

set_option synthInstance.maxSize 2048 in
/-- F5's schedule in Lean (repaired by 054d47d). A (priority 100) is killed, its record expires, A is restarted UNDER THE
    SAME IDENTITY and announces itself (record stamped 128, version 3). B then processes the view from before all that
    (version 2): A's old record is dead at B's clock, B hands "A" to `clean()` - which names version 2 and is refused: the
    restarted A's fresh record STAYS (it used to be deleted: A invisible until its next keep-alive). B's verdict from that
    view is the old one (B resumes: the residue of F4) until the event of A's announcement arrives (third conjunct).
    Replayed on the real code: corpus/C13/F5.json (must pass). -/
theorem restart_stale_view_record_kept :
    (run 64 init [.start "A" 100 2, .start "B" 10 10, .keepalive "A" 0, .keepalive "B" 0, .deliver "A", .deliver "B",
                  .kill "A", .tick 128, .start "A" 100 2, .keepalive "A" 0, .deliver "A"]).map
        (fun s => (s.now, s.ver, s.status, (s.ops "A").map (fun o => (o.alive, o.paused)), (s.ops "B").map (fun o => (o.alive, o.paused))))
      = some (128, 3, [("A", ⟨100, 2, 128⟩), ("B", ⟨10, 10, 0⟩)], some (true, false), some (true, true)) ∧
    (run 64 init [.start "A" 100 2, .start "B" 10 10, .keepalive "A" 0, .keepalive "B" 0, .deliver "A", .deliver "B",
                  .kill "A", .tick 128, .start "A" 100 2, .keepalive "A" 0, .deliver "A",
                  .deliverStale "B" [("A", ⟨100, 2, 0⟩), ("B", ⟨10, 10, 0⟩)] 2]).map
        (fun s => ((s.ops "A").map (fun o => (o.alive, o.paused)), (s.ops "B").map (fun o => (o.alive, o.paused)), s.status))
      = some (some (true, false), some (true, false), [("A", ⟨100, 2, 128⟩), ("B", ⟨10, 10, 0⟩)]) ∧
    (run 64 init [.start "A" 100 2, .start "B" 10 10, .keepalive "A" 0, .keepalive "B" 0, .deliver "A", .deliver "B",
                  .kill "A", .tick 128, .start "A" 100 2, .keepalive "A" 0, .deliver "A",
                  .deliverStale "B" [("A", ⟨100, 2, 0⟩), ("B", ⟨10, 10, 0⟩)] 2, .deliver "B"]).map
        (fun s => ((s.ops "B").map (·.paused), s.status))
      = some (some true, [("A", ⟨100, 2, 128⟩), ("B", ⟨10, 10, 0⟩)]) := by decide

/-! ## the graceful stop (finding F7, repaired by 26a293c) -/

/-- The graceful stop in its two steps (`exitBegin`: the watchers and the peering observer are stopped, the pinger goes on;
    … ; `exitEnd`: the pinger's `finally` withdraws the record) is the one-step stop (`exit`) whenever nothing happens in
    between: the two steps compose to the one. -/
theorem exit_two_phase (u : Int) (s : State) (i : Identity) :
    (step u s (.exitBegin i)).bind (fun s1 => step u s1 (.exitEnd i)) = step u s (.exit i) := by
  simp only [step]
  cases ho : s.ops i with
  | none => rfl
  | some o =>
    by_cases hg : (o.alive && !o.exiting) = true
    · obtain ⟨ha, he⟩ := guard_iff.mp hg
      simp only [ha, he, Bool.not_false, Bool.and_self, if_true, Option.bind_some, updOp_same]
      congr 2
      funext k
      by_cases hk : k = i <;> simp [updOp, hk]
    · simp only [hg]; rfl

/-- FULL (timely runs, views of any age). While an operator finishes its handlers after it was asked to stop (between
    `exitBegin` and `exitEnd`) its pinger goes on: its record is there and alive (`own_record_fresh` covers exiting
    operators), so every operator it outranks that processes the status in that window is - stays - PAUSED: the successor
    takes over only after the withdrawal, which comes after the last handler. (F7 was the negation: record withdrawn first.) -/
theorem exiting_operator_still_blocks {u B : Int} {s s' : State} (hu : 0 < u) (hB : 0 ≤ B) (ht : Timely u B s)
    {a b : Identity} {oa ob : Op} {k : Int} (hab : a ≠ b)
    (ha : s.ops a = some oa) (haa : oa.alive = true) (_hae : oa.exiting = true) (hk : oa.nextKA = some k)
    (hb : s.ops b = some ob) (hp : ob.prio ≤ oa.prio) (h : step u s (.deliver b) = some s') :
    (∃ r, (a, r) ∈ s'.status ∧ r.dead u s'.now = false) ∧ ∃ ob', s'.ops b = some ob' ∧ ob'.paused = true := by
  obtain ⟨_, hinv⟩ := ownFresh_timely hu hB ht
  obtain ⟨h1, _, ⟨r, hr⟩, h4⟩ := hinv a oa k ha haa hk
  obtain ⟨hpr, hl, hd⟩ := h4 r hr
  have hlive : r.dead u s.now = false := by rw [dead_false_iff, hl]; omega
  obtain ⟨o, ho, _, hnow, hst, _, _, hops⟩ := deliver_spec h
  rw [hb] at ho; injection ho with e; subst e
  refine ⟨⟨r, by rw [hst]; exact List.mem_filter.mpr ⟨hr, by simp [hlive]⟩, by rw [hnow]; exact hlive⟩,
    { ob with paused := blockedB u s.status b ob.prio s.now, seen := some (s.ver, s.now), sleeping := willTouch u s b ob },
    by rw [hops]; simp, ?_⟩
  show blockedB u s.status b ob.prio s.now = true
  rw [blockedB_iff]
  exact ⟨a, r, hr, hab, hlive, by omega⟩

/-! ## the failed keep-alive: fail-stop (seeded change C13e was the negation) -/

/-- is stopping or gone: never again a running operator that is not on its way out -/
def StoppingOrGone (s : State) (i : Identity) : Prop := ∃ o, s.ops i = some o ∧ (o.alive = true → o.exiting = true)

theorem stoppingOrGone_upd {s s1 : State} {i j : Identity} {oj onew : Op} (hp : StoppingOrGone s i) (hj : s.ops j = some oj)
    (hops : s1.ops = updOp s.ops j onew)
    (hk : (oj.alive = true → oj.exiting = true) → onew.alive = true → onew.exiting = true) : StoppingOrGone s1 i := by
  obtain ⟨o, ho, hP⟩ := hp
  by_cases hij : i = j
  · subst hij
    rw [ho] at hj; injection hj with e; subst e
    exact ⟨onew, by rw [hops]; simp [updOp], hk hP⟩
  · exact ⟨o, by rw [hops, updOp_other _ _ hij]; exact ho, hP⟩

theorem stoppingOrGone_step {u : Int} {s s1 : State} {i : Identity} {l : Label} (hp : StoppingOrGone s i)
    (hl : ∀ p lt, l ≠ .start i p lt) (hs : step u s l = some s1) : StoppingOrGone s1 i := by
  cases l with
  | start j p lt =>
    obtain ⟨_, _, _, _, hops⟩ := start_spec hs
    have hij : i ≠ j := fun e => hl p lt (by rw [e])
    obtain ⟨o, ho, hP⟩ := hp
    exact ⟨o, by rw [hops, updOp_other _ _ hij]; exact ho, hP⟩
  | keepalive j lag =>
    obtain ⟨oj, hj, _, _, _, _, hops⟩ := keepalive_spec hs
    exact stoppingOrGone_upd hp hj hops (fun h ha => h ha)
  | keepaliveFail j w =>
    obtain ⟨oj, hj, _, _, _, _, hops⟩ := keepaliveFail_spec hs
    exact stoppingOrGone_upd hp hj hops (fun _ _ => rfl)
  | exit j =>
    obtain ⟨oj, hj, _, _, _, hops, _⟩ := exit_spec hs
    exact stoppingOrGone_upd hp hj hops (fun _ ha => by simp at ha)
  | exitLost j =>
    obtain ⟨oj, hj, _, _, _, hops, _⟩ := exitLost_spec hs
    exact stoppingOrGone_upd hp hj hops (fun _ ha => by simp at ha)
  | exitBegin j =>
    obtain ⟨oj, hj, _, _, _, _, _, hops⟩ := exitBegin_spec hs
    exact stoppingOrGone_upd hp hj hops (fun _ _ => rfl)
  | exitEnd j =>
    obtain ⟨oj, hj, _, _, _, _, _, hops⟩ := exitEnd_spec hs
    exact stoppingOrGone_upd hp hj hops (fun _ ha => by simp at ha)
  | kill j =>
    obtain ⟨oj, hj, _, _, _, hops, _⟩ := kill_spec hs
    exact stoppingOrGone_upd hp hj hops (fun _ ha => by simp at ha)
  | deliver j =>
    obtain ⟨oj, hj, _, _, _, _, _, hops⟩ := deliver_spec hs
    exact stoppingOrGone_upd hp hj hops (fun h ha => h ha)
  | deliverStale j view vv =>
    obtain ⟨oj, onew, hj, _, _, _, _, _, _, hops, _, _, hal, hex, _⟩ := stale_spec hs
    exact stoppingOrGone_upd hp hj hops (fun h ha => by rw [hex]; exact h (by rw [← hal]; exact ha))
  | wake j lag =>
    obtain ⟨oj, hj, _, _, _, hops, _⟩ := wake_spec hs
    exact stoppingOrGone_upd hp hj hops (fun h ha => h ha)
  | wakeIssue j =>
    obtain ⟨oj, hj, _, _, _, _, _, hops⟩ := wakeIssue_spec hs
    exact stoppingOrGone_upd hp hj hops (fun h ha => h ha)
  | land j =>
    obtain ⟨oj, t, hj, _, _, _, hops, _⟩ := land_spec hs
    exact stoppingOrGone_upd hp hj hops (fun h ha => h ha)
  | tick d => simp only [step, Option.some.injEq] at hs; subst hs; exact hp
  | expire j => simp only [step, Option.some.injEq] at hs; subst hs; exact hp
  | foreign j r => simp only [step, Option.some.injEq] at hs; subst hs; exact hp

theorem stoppingOrGone_run {u : Int} {i : Identity} : ∀ (ls : List Label) (s s' : State), StoppingOrGone s i →
    (∀ l ∈ ls, ∀ p lt, l ≠ .start i p lt) → run u s ls = some s' → StoppingOrGone s' i := by
  intro ls
  induction ls with
  | nil => intro s s' hp _ h; simp only [run, Option.some.injEq] at h; subst h; exact hp
  | cons l rest ih =>
    intro s s' hp hall h
    simp only [run] at h
    cases hs : step u s l with
    | none => simp [hs] at h
    | some s1 =>
      simp only [hs] at h
      exact ih s1 s' (stoppingOrGone_step hp (hall l List.mem_cons_self) hs)
        (fun l' hl' => hall l' (List.mem_cons_of_mem _ hl')) h

/- Full clause: "A running operator renews its record before it expires" - and when it CANNOT (the API refuses the keep-alive
   for good), it does not stay a running operator. -/
/-- FULL, for ALL label lists. An operator whose keep-alive has failed (`keepaliveFail`: `touch()` raised in `keepalive()`,
    the task ended, the orchestrator was cancelled) never again is a running operator that is not on its way out: through
    anything that happens afterwards - time, the others' keep-alives and views of any age, foreign writes, even further
    keep-alives under its name (the over-approximation of the model) - its entry is `exiting` or gone, until somebody
    starts a new process under that identity. It takes no more verdicts (`deliver`, `deliverStale` are not enabled for it:
    it never resumes or pauses again), and a graceful stop cannot begin (it is stopping already). What the seeded variant
    `stepSwallow` does instead: `swallowed_keepalive_two_active_witness`. -/
theorem failed_keepalive_stops {u : Int} {i : Identity} {w : Bool} {s s1 : State}
    (h1 : step u s (.keepaliveFail i w) = some s1) (ls : List Label) (s' : State)
    (hall : ∀ l ∈ ls, ∀ p lt, l ≠ .start i p lt) (h2 : run u s1 ls = some s') :
    (∃ o, s'.ops i = some o ∧ (o.alive = true → o.exiting = true)) ∧
    step u s' (.deliver i) = none ∧ (∀ view vv, step u s' (.deliverStale i view vv) = none) ∧
    step u s' (.exitBegin i) = none := by
  have h0 : StoppingOrGone s1 i := by
    obtain ⟨o, _, _, _, _, _, hops⟩ := keepaliveFail_spec h1
    exact ⟨{ o with exiting := true, sleeping := false, nextKA := none }, by rw [hops]; simp [updOp], fun _ => rfl⟩
  obtain ⟨o, ho, hP⟩ := stoppingOrGone_run ls s1 s' h0 hall h2
  have hg : (o.alive && !o.exiting) = false := by
    cases ha : o.alive with
    | false => simp
    | true => simp [hP ha]
  refine ⟨⟨o, ho, hP⟩, ?_, ?_, ?_⟩
  · simp only [step, ho, hg]; rfl
  · intro view vv; simp only [step, ho, hg]; rfl
  · simp only [step, ho, hg]; rfl

/-- FULL. What the failed keep-alive leaves behind: when the withdrawal of `keepalive()`'s `finally` lands (`w = true`) the
    record is gone at once - BEFORE the handling has stopped (finding F11: `failstop_withdraws_before_handling_stops_witness`);
    and the stop can complete (`exitEnd` is enabled: the operator task ends), after which the operator is gone without a
    record. When the withdrawal fails too (`w = false`) the record stays and expires like a killed operator's. -/
theorem failed_keepalive_withdraws {u : Int} {i : Identity} {s s1 : State}
    (h1 : step u s (.keepaliveFail i true) = some s1) :
    (∀ r, (i, r) ∉ s1.status) ∧
    ∃ s2, step u s1 (.exitEnd i) = some s2 ∧ (∀ r, (i, r) ∉ s2.status) ∧ ∃ o, s2.ops i = some o ∧ o.alive = false := by
  obtain ⟨o, ho, ha, _, hst, _, hops⟩ := keepaliveFail_spec h1
  have hgone : ∀ r, (i, r) ∉ s1.status := by
    intro r hm
    rw [hst] at hm
    exact (mem_erase.mp hm).2 rfl
  refine ⟨hgone, ?_⟩
  have ho1 : s1.ops i = some { o with exiting := true, sleeping := false, nextKA := none } := by rw [hops]; simp [updOp]
  cases hs2 : step u s1 (.exitEnd i) with
  | none => simp [step, ho1, ha] at hs2
  | some s2 =>
    obtain ⟨o2, ho2, _, _, _, hst2, _, hops2⟩ := exitEnd_spec hs2
    refine ⟨s2, rfl, ?_, { o2 with alive := false, exiting := false, sleeping := false, nextKA := none, inflight := none },
      by rw [hops2]; simp [updOp], rfl⟩
    intro r hm
    rw [hst2] at hm
    exact (mem_erase.mp hm).2 rfl

example : (run 64 init [.start "A" 100 60, .keepalive "A" 0, .tick 3392, .keepaliveFail "A" true, .tick 6400,
                        .keepalive "A" 0, .tick 64, .exitEnd "A"]).map
    (fun s => ((s.ops "A").map (fun o => (o.alive, o.exiting)), s.status)) = some (some (false, false), []) := by decide

set_option synthInstance.maxSize 2048 in
/-- The seeded change C13e in Lean (the variant `stepSwallow`: the error of a failed keep-alive is logged, "the record is
    renewed on the next round"). A (priority 100) and B (priority 0), lifetime 60 s both; A active, B paused, its call
    sleeping towards A's deadline. At 53 s A's keep-alive is refused. Under the VARIANT (first conjunct) A runs on - alive,
    not stopping, active -, its next attempt a whole period away; at 60 s its record (stamped 0) expires, B's sleeping call
    wakes at that deadline and touches itself, B sees A dead, cleans the record and RESUMES: A and B both running, both
    active, A without a record - "A running operator renews its record before it expires" and "exactly the highest-priority
    one ends up active" both broken (for every lifetime > 20 s: 2·(lifetime − 5…10) > lifetime). Under the CODE's step
    (second conjunct) the same labels leave A `exiting` - it stopped at 53 s and withdrew - and B the only active one once
    A's stop has completed (`exitEnd`). Replayed on the real code: corpus/C13/ka_refused_409_lifetime60.json (must pass;
    with the seeded change it fails clauses C and T of the oracle). -/
theorem swallowed_keepalive_two_active_witness :
    (runSwallow 64 init [.start "A" 100 60, .start "B" 0 60, .keepalive "A" 0, .keepalive "B" 0, .deliver "A", .deliver "B",
                         .tick 3392, .keepalive "B" 0, .keepaliveFail "A" true, .tick 448, .wake "B" 0, .deliver "B"]).map
        (fun s => (s.now, (s.ops "A").map (fun o => (o.alive, o.exiting, o.paused)),
                   (s.ops "B").map (fun o => (o.alive, o.exiting, o.paused)), s.status.map (·.1)))
      = some (3840, some (true, false, false), some (true, false, false), ["B"]) ∧
    (run 64 init [.start "A" 100 60, .start "B" 0 60, .keepalive "A" 0, .keepalive "B" 0, .deliver "A", .deliver "B",
                  .tick 3392, .keepalive "B" 0, .keepaliveFail "A" true, .tick 448, .wake "B" 0, .deliver "B", .exitEnd "A"]).map
        (fun s => ((s.ops "A").map (fun o => (o.alive, o.exiting)),
                   (s.ops "B").map (fun o => (o.alive, o.exiting, o.paused)), s.status.map (·.1)))
      = some (some (false, false), some (true, false, false), ["B"]) := by decide

set_option synthInstance.maxSize 2048 in
/-- Finding F11 in Lean: on the fail-stop way out the record is withdrawn BEFORE the handling has stopped. A's keep-alive is
    refused at 53 s: `keepalive()`'s `finally` withdraws the record at once; B processes that event and resumes - while A is
    still `exiting` (alive: its watchers' queues deplete, its handlers in flight finish). On the graceful stop the record
    stays, renewed, through that window and B stays paused (`exiting_operator_still_blocks`). Replayed on the real code:
    corpus/C13/F11.json. -/
theorem failstop_withdraws_before_handling_stops_witness :
    (run 64 init [.start "A" 100 60, .start "B" 0 60, .keepalive "A" 0, .keepalive "B" 0, .deliver "A", .deliver "B",
                  .tick 3392, .keepalive "B" 0, .keepaliveFail "A" true, .deliver "B"]).map
        (fun s => ((s.ops "A").map (fun o => (o.alive, o.exiting, o.paused)),
                   (s.ops "B").map (fun o => (o.alive, o.exiting, o.paused)), s.status.map (·.1)))
      = some (some (true, true, false), some (true, false, false), ["B"]) := by decide

/-! ## settling and failover -/

/- Full clause: "… also after the active one exits or is killed" — for every delivery timing. -/
/-- PARTIAL (guard: the LAST view every running operator processes is the current status — the batch `ls` —; what an
    operator concludes from an older view it holds until its next event: `stale_verdict_two_active_witness`. Second
    hypothesis `hown`: the running operators' own records are fresh at the end, which `own_record_fresh` provides for timely
    runs). From ANY state in which the operators see each other (`Good`) — e.g. right after the top one exited —, ANY
    interleaving `mid` of passing time, keep-alives, waking self-touches and deliveries OF VIEWS OF ANY AGE (`Quiet` contains
    `deliverStale` with every view and version: such a view cannot damage the peering object) may follow; once every running
    operator has then processed the current status (`ls`: in any order, any number of times), exactly the top one is
    active, and the operators still see each other. (`mid = []`: the batch alone.) -/
theorem settle_partial {u : Int} {s s2 s3 : State} (hg : Good u s) (hsa : SleepAlive s)
    (mid : List Label) (hq : ∀ l ∈ mid, Quiet l) (h2 : run u s mid = some s2)
    (hown : ∀ i o, s2.ops i = some o → o.alive = true →
      ∃ r, (i, r) ∈ s2.status ∧ r.priority = o.prio ∧ r.dead u s2.now = false)
    (ls : List Label) (hdel : ∀ l ∈ ls, ∃ i, l = Label.deliver i)
    (hcov : ∀ i op, s2.ops i = some op → op.alive = true → Label.deliver i ∈ ls)
    (h3 : run u s2 ls = some s3) : ExactlyTop s3 ∧ Good u s3 := by
  obtain ⟨hng2, _, hso⟩ := quiet_noGhost mid s s2 hq hg.noGhost hsa h2
  exact settle ⟨hown, hng2, distinct_sameOps hso hg.distinct⟩ ls hdel hcov h3

/- Full clause: "… also after the active one … is killed" — for every delivery timing. -/
/-- PARTIAL (guard: the last view every survivor processes is the current status — `ls` —; in between - `mid` - views of
    any age are processed; hypothesis `hown`: the survivors' own records are fresh at the end, which `own_record_fresh`
    provides for timely runs). An operator `a` is lost: killed,
    or exited with its withdrawal refused by the API (`exitLost`: `keepalive`'s `finally` logs and ignores the error — for the
    peers the same as a kill). Then ANY interleaving `mid` of passing time, keep-alives, self-touches and deliveries of the
    survivors may follow; as soon as `a`'s records have expired (`hexp`) and every running operator has processed the
    status once more (`ls`), exactly the top one of the survivors is active. `noGhost` and `distinct` are not assumed
    at the end but carried through `mid` from the `Good` state before the loss. -/
theorem failover_after_loss_partial {u : Int} {s s1 s2 s3 : State} {a : Identity} (hg : Good u s) (hsa : SleepAlive s)
    (h1 : step u s (.kill a) = some s1 ∨ step u s (.exitLost a) = some s1)
    (mid : List Label) (hq : ∀ l ∈ mid, Quiet l) (h2 : run u s1 mid = some s2)
    (hexp : ∀ r, (a, r) ∈ s2.status → r.dead u s2.now = true)
    (hown : ∀ i o, s2.ops i = some o → o.alive = true →
      ∃ r, (i, r) ∈ s2.status ∧ r.priority = o.prio ∧ r.dead u s2.now = false)
    (ls : List Label) (hdel : ∀ l ∈ ls, ∃ i, l = Label.deliver i)
    (hcov : ∀ i op, s2.ops i = some op → op.alive = true → Label.deliver i ∈ ls)
    (h3 : run u s2 ls = some s3) :
    ExactlyTop s3 ∧ (∃ o, s2.ops a = some o ∧ o.alive = false) := by
  obtain ⟨hgo1, ⟨oa, hoa, haa⟩, hdist1, hsa1⟩ := loss_spec hg h1
  obtain ⟨hgo2, _, hso⟩ := quiet_run mid s1 s2 hq hgo1 (hsa1 hsa) h2
  have ha2 : ∃ o, s2.ops a = some o ∧ o.alive = false := by
    rcases hso a with ⟨x, _⟩ | ⟨o, o', ho, ho', _, hal⟩
    · rw [x] at hoa; cases hoa
    · rw [hoa] at ho; injection ho with e; subst e
      exact ⟨o', ho', by rw [hal]; exact haa⟩
  have hg2 : Good u s2 := by
    refine ⟨hown, ?_, ?_⟩
    · intro j r hm hd
      rcases hgo2 j r hm hd with hja | h
      · subst hja; rw [hexp r hm] at hd; cases hd
      · exact h
    · intro i j oi oj hi hj hai haj hp
      have back : ∀ k ok, s2.ops k = some ok → ∃ o1, s1.ops k = some o1 ∧ ok.prio = o1.prio ∧ ok.alive = o1.alive := by
        intro k ok hk
        rcases hso k with ⟨_, y⟩ | ⟨o, o', ho, ho', hpp, hal⟩
        · rw [y] at hk; cases hk
        · rw [ho'] at hk; injection hk with e; subst e; exact ⟨o, ho, hpp, hal⟩
      obtain ⟨a1, h1', hp1, ha1⟩ := back i oi hi
      obtain ⟨b1, h2', hp2, ha2'⟩ := back j oj hj
      exact hdist1 i j a1 b1 h1' h2' (by rw [← ha1]; exact hai) (by rw [← ha2']; exact haj) (by omega)
  exact ⟨(settle hg2 ls hdel hcov h3).1, ha2⟩

/-- How the waiting operators get there: a paused operator sleeps exactly until the earliest deadline
    among the peers that block it — the moment that peer counts as dead — and then touches its own
    record (which makes everybody, itself included, process the status again: `resume_after_expiry`). -/
theorem wake_at_deadline {u : Int} {ps : List Peer} {me : Identity} {p : Int} {ac : Bool} {tg : Option Bool}
    {now now2 m : Int} (h : (decideCore u ps me p ac tg now now2).sleep = some m) :
    0 < m ∧ (decideCore u ps me p ac tg now now2).touch = true ∧
      (∃ q ∈ ps, Blocks u now me p q ∧ q.deadline u = now2 + m ∧ q.isDead u (now2 + m) = true) ∧
      ∀ q ∈ ps, Blocks u now me p q → now2 + m ≤ q.deadline u := by
  have hdel := decideCore_delays (u := u) (ps := ps) (me := me) (myPrio := p) (ac := ac) (tg := tg)
    (now := now) (now2 := now2)
  have hs : (decideCore u ps me p ac tg now now2).sleep =
      (match minList (decideCore u ps me p ac tg now now2).delays with
        | none => none | some m => if m ≤ 0 then none else some m) := rfl
  have ht : (decideCore u ps me p ac tg now now2).touch =
      !(decideCore u ps me p ac tg now now2).delays.isEmpty := rfl
  rw [hs] at h
  cases hm : minList (decideCore u ps me p ac tg now now2).delays with
  | none => simp [hm] at h
  | some m' =>
    simp only [hm] at h
    by_cases hle : m' ≤ 0
    · simp [hle] at h
    · simp only [hle, if_false, Option.some.injEq] at h
      subst h
      obtain ⟨hmem, hmin⟩ := minList_spec hm
      refine ⟨by omega, ?_, ?_, ?_⟩
      · rw [ht]
        cases hd : (decideCore u ps me p ac tg now now2).delays with
        | nil => rw [hd] at hmem; cases hmem
        | cons _ _ => rfl
      · obtain ⟨q, hq, hb, hx⟩ := (hdel m').mp hmem
        refine ⟨q, hq, hb, by omega, ?_⟩
        simp only [Peer.isDead, decide_eq_true_eq]
        omega
      · intro q hq hb
        have := hmin _ ((hdel (q.deadline u - now2)).mpr ⟨q, hq, hb, rfl⟩)
        omega

/-- Progress of the resume: operator `i` is paused and its call sleeps; every peer blocking it is a record of `a` (the
    killed or lost one). When time has passed up to `a`'s last deadline, the sleeping call CAN wake (the label is enabled),
    its self-touch lands, the event it causes is delivered to `i`, and `i` is then active. -/
theorem resume_after_expiry {u : Int} {s s1 : State} {i a : Identity} {o : Op} (lag : Nat)
    (ho : s.ops i = some o) (hal : o.alive = true) (hex : o.exiting = false) (hsl : o.sleeping = true)
    (honly : ∀ j r, (j, r) ∈ s.status → j ≠ i → r.dead u s.now = false → r.priority ≥ o.prio → j = a)
    (h1 : step u s (.expire a) = some s1) :
    ∃ s2 s3 o3, step u s1 (.wake i lag) = some s2 ∧ step u s2 (.deliver i) = some s3 ∧
      s3.ops i = some o3 ∧ o3.alive = true ∧ o3.paused = false := by
  obtain ⟨⟨d, htick⟩, hdead⟩ := expire_spec h1
  simp only [step, Option.some.injEq] at htick
  have hops1 : s1.ops = s.ops := by rw [← htick]
  have hst1 : s1.status = s.status := by rw [← htick]
  have hnow1 : s1.now = s.now + d := by rw [← htick]
  have ho1 : s1.ops i = some o := by rw [hops1]; exact ho
  -- the sleeping call wakes
  have hw : ∃ s2, step u s1 (.wake i lag) = some s2 := by
    simp only [step, ho1, hsl, if_true]; exact ⟨_, rfl⟩
  obtain ⟨s2, h2⟩ := hw
  obtain ⟨o', ho', _, hnow2, hst2, hops2, _⟩ := wake_spec h2
  rw [ho1] at ho'; injection ho' with ho'; subst ho'
  have ho2 : s2.ops i = some { o with sleeping := false } := by rw [hops2]; simp
  -- the event is delivered
  have hd : ∃ s3, step u s2 (.deliver i) = some s3 := by
    simp only [step, ho2, hal, hex]; exact ⟨_, rfl⟩
  obtain ⟨s3, h3⟩ := hd
  obtain ⟨o2, ho2', _, _, _, _, _, hops3⟩ := deliver_spec h3
  rw [ho2] at ho2'; injection ho2' with ho2'; subst ho2'
  let o2 : Op := { o with sleeping := false }
  let o3 : Op := { o2 with paused := blockedB u s2.status i o2.prio s2.now, seen := some (s2.ver, s2.now), sleeping := willTouch u s2 i o2 }
  refine ⟨s2, s3, o3, h2, h3, by rw [hops3]; simp [o3, o2], hal, ?_⟩
  show blockedB u s2.status i o.prio s2.now = false
  cases hb : blockedB u s2.status i o.prio s2.now with
  | false => rfl
  | true =>
    exfalso
    obtain ⟨j, r, hm, hji, hd, hge⟩ := blockedB_iff.mp hb
    rw [hst2] at hm
    have hm' : (j, r) ∈ s.status := by rw [← hst1]; exact (mem_patch_other (Ne.symm hji)).mp hm
    rw [hnow2, hnow1] at hd
    have hd0 : r.dead u s.now = false := by
      cases hc : r.dead u s.now with
      | false => rfl
      | true => rw [dead_mono d hc] at hd; cases hd
    have hja := honly j r hm' hji hd0 hge
    subst hja
    have := hdead r hm'
    rw [hnow1, hd] at this
    cases this

/-! ## renewal -/

/-- The keep-alive arithmetic: with `lifetime ≥ 2` and jitter in `[5, 10]` the pinger sleeps at most
    `lifetime − min(5, lifetime − 1)` seconds (and at least one). -/
theorem keepalive_period (L j : Int) (hL : 2 ≤ L) (h5 : 5 ≤ j) (_h10 : j ≤ 10) :
    1 ≤ kaSleep L j ∧ kaSleep L j ≤ L - margin L ∧ 1 ≤ margin L :=
  ⟨kaSleep_pos L j, kaSleep_le L j hL h5, by unfold margin; omega⟩

/-- While an operator runs, its record never expires: with `lifetime ≥ 1`, jitter in `[5, 10]` and every `touch()`
    call taking at most `B` ticks with `2·B <` the margin (`min(5, lifetime−1)` seconds for `lifetime ≥ 2`, the other
    half second for `lifetime = 1`), each new record reaches the server strictly before the deadline of the record
    it replaces — for any number of rounds, any latencies and jitters within the bounds. -/
theorem renewal (u L B : Int) (hu : 0 < u) (hL : 1 ≤ L) (hB : 2 * B < marginT u L)
    (rs : List Round) (t : Int)
    (h : ∀ r ∈ rs, 0 ≤ r.a ∧ r.a ≤ r.lat ∧ r.lat ≤ B ∧ 5 ≤ r.jitter ∧ r.jitter ≤ 10) :
    Renewed u L t rs :=
  renewed_of_bounds u L B hu hL hB rs t h

/-- The `lifetime = 1` corner (was finding F1, repaired by fad2571): the record built at `t` is still alive when its
    successor arrives, provided two API calls fit into the remaining half second. -/
theorem renewal_lifetime_one (u : Int) (t : Int) (r r' : Round) (hu : 0 < u)
    (hl : 0 ≤ r.lat) (ha : 0 ≤ r'.a) (hB : r.lat + r'.a < u - u / 2) :
    ({ priority := 0, lifetime := 1, lastseen := t } : Rec).dead u (nextTouch u 1 t r + r'.a) = false := by
  rw [dead_false_iff]
  unfold nextTouch
  rw [kaSleepT_one]
  show t + r.lat + u / 2 + r'.a < t + 1 * u
  omega

/-- In timely runs — every `touch()` call takes at most `B` ticks, `2·B <` the margin of every started operator
    (`renewal`'s bound: then the pinger's next record lands before `nextKA + B`, which time does not overtake), nobody
    writes under an operator's identity; views of ANY age are processed by anybody (no guard on `deliverStale` any more: a
    peer's clean from an old view is refused), graceful stops take their two steps with anything in between — a running operator
    (also one that is finishing its handlers after `exitBegin`: its pinger goes on)
    that has touched once ALWAYS has a live record
    carrying its priority: `Good.own` is an invariant, whatever else happens in whatever order. -/
theorem own_record_fresh {u B : Int} {s : State} (hu : 0 < u) (hB : 0 ≤ B) (ht : Timely u B s)
    {i : Identity} {o : Op} {k : Int} (ho : s.ops i = some o) (ha : o.alive = true) (hk : o.nextKA = some k) :
    ∃ r, (i, r) ∈ s.status ∧ r.priority = o.prio ∧ r.dead u s.now = false := by
  obtain ⟨_, hinv⟩ := ownFresh_timely hu hB ht
  obtain ⟨h1, _, ⟨r, hr⟩, h4⟩ := hinv i o k ho ha hk
  obtain ⟨hp, hl, hd⟩ := h4 r hr
  refine ⟨r, hr, hp, ?_⟩
  rw [dead_false_iff, hl]
  omega

/-- The hypotheses compose: when the state before the final batch was reached by a timely run (`Timely u B s2`: API calls
    ≤ B ticks with `2·B <` every margin; views of any age, graceful stops, kills and lost exits are allowed in it) and every
    running operator has touched at least once, `own_record_fresh` discharges `hown` of `failover_after_loss_partial`: an
    operator is lost, anything `Quiet` follows, the lost one's records have expired ⇒ after a covering delivery exactly the
    top survivor is active. What remains assumed is that the operators saw each other before the loss (`Good u s`). -/
theorem failover_after_loss_timely_partial {u B : Int} {s s1 s2 s3 : State} {a : Identity} (hu : 0 < u) (hB : 0 ≤ B)
    (hg : Good u s) (hsa : SleepAlive s)
    (h1 : step u s (.kill a) = some s1 ∨ step u s (.exitLost a) = some s1)
    (mid : List Label) (hq : ∀ l ∈ mid, Quiet l) (h2 : run u s1 mid = some s2)
    (ht2 : Timely u B s2) (hka : ∀ i o, s2.ops i = some o → o.alive = true → ∃ k, o.nextKA = some k)
    (hexp : ∀ r, (a, r) ∈ s2.status → r.dead u s2.now = true)
    (ls : List Label) (hdel : ∀ l ∈ ls, ∃ i, l = Label.deliver i)
    (hcov : ∀ i op, s2.ops i = some op → op.alive = true → Label.deliver i ∈ ls)
    (h3 : run u s2 ls = some s3) :
    ExactlyTop s3 ∧ (∃ o, s2.ops a = some o ∧ o.alive = false) :=
  failover_after_loss_partial hg hsa h1 mid hq h2 hexp
    (fun i o ho ha => by obtain ⟨k, hk⟩ := hka i o ho ha; exact own_record_fresh hu hB ht2 ho ha hk)
    ls hdel hcov h3

/-! ## withdrawal and cleanup -/

/-- an operator that has withdrawn: gone; no call of it sleeps towards a self-touch, no self-touch of it is in flight -/
def Withdrawn (o : Op) : Prop := o.alive = false ∧ o.sleeping = false ∧ o.inflight = none

/-- The withdrawal of a graceful stop — the LAST thing the stop does (`exitEnd`, or the one-step `exit`): the handling and
    the peering observer are over by then — removes the own record (all of it), leaves the records of others alone; the
    operator is then gone, no call of it sleeps towards a self-touch, and no self-touch of it is in flight (the observer's
    request was awaited or cancelled BEFORE the withdrawal). -/
theorem withdraw_on_exit {u : Int} {s s' : State} {i : Identity}
    (h : step u s (.exitEnd i) = some s' ∨ step u s (.exit i) = some s') :
    (∀ r, (i, r) ∉ s'.status) ∧ (∀ j r, j ≠ i → ((j, r) ∈ s'.status ↔ (j, r) ∈ s.status)) ∧
      ∃ o', s'.ops i = some o' ∧ Withdrawn o' := by
  have key : s'.status = s.status.erase i ∧ ∃ o', s'.ops i = some o' ∧ Withdrawn o' := by
    rcases h with h | h
    · obtain ⟨o, _, _, _, _, hst, _, hops⟩ := exitEnd_spec h
      exact ⟨hst, { o with alive := false, exiting := false, sleeping := false, nextKA := none, inflight := none },
        by rw [hops]; simp, rfl, rfl, rfl⟩
    · obtain ⟨o, _, _, _, hst, hops, _⟩ := exit_spec h
      exact ⟨hst, { o with alive := false, sleeping := false, nextKA := none, inflight := none },
        by rw [hops]; simp, rfl, rfl, rfl⟩
  obtain ⟨hst, hw⟩ := key
  refine ⟨?_, ?_, hw⟩
  · intro r hm
    rw [hst] at hm
    exact (mem_erase.mp hm).2 rfl
  · intro j r hj
    rw [hst, mem_erase]
    exact ⟨fun h => h.1, fun h => ⟨h, hj⟩⟩

/-- One call on any status content (autoclean on): `clean()` is handed exactly the identities OF OTHERS whose record
    is dead at `now` — never the own identity (repair abca199), and nobody alive. -/
theorem dead_cleaned {u : Int} {st : List (Identity × RawEntry)} {me : Identity} {p : Int} {tg : Option Bool}
    {now now2 : Int} {d : Decision} (h : decideEv u st me p true tg now now2 = .ok d) (i : Identity) :
    i ∈ d.cleaned ↔ i ≠ me ∧ ∃ e q, (i, e) ∈ st ∧ mkPeer u now i e = .ok q ∧ q.isDead u now = true := by
  unfold decideEv at h
  cases hp : parseAll u now st with
  | error e => simp [hp] at h
  | ok ps =>
    simp only [hp] at h
    have h := decideP_ok h
    subst h
    · simp only [decideCore, if_true, deadPeers, List.mem_map, List.mem_filter, Bool.and_eq_true, bne_iff_ne, ne_eq]
      constructor
      · rintro ⟨q, ⟨hq, hd, hne⟩, rfl⟩
        obtain ⟨j, e, hm, hmk⟩ := (parseAll_mem hp q).mp hq
        have hid := mkPeer_id hmk
        rw [hid]
        exact ⟨by rw [← hid]; exact hne, e, q, hm, hmk, hd⟩
      · rintro ⟨hne, e, q, hm, hmk, hd⟩
        have hid := mkPeer_id hmk
        exact ⟨q, ⟨(parseAll_mem hp q).mpr ⟨i, e, hm, hmk⟩, hd, by rw [hid]; exact hne⟩, hid⟩

/-- The own record is never cleaned, dead or not. -/
theorem own_record_not_cleaned {u : Int} {st : List (Identity × RawEntry)} {me : Identity} {p : Int} {tg : Option Bool}
    {now now2 : Int} {d : Decision} (h : decideEv u st me p true tg now now2 = .ok d) : me ∉ d.cleaned :=
  fun hm => ((dead_cleaned h me).mp hm).1 rfl

/-! ## the withdrawal is permanent (findings F2 - repaired by f370f06 - and F9 - repaired by 26a293c) -/

/-- One step: an operator that has withdrawn and has no record stays so through ANY label but its own restart or a foreign
    write under its name. -/
theorem withdrawn_step {u : Int} {i : Identity} {s s1 : State} {l : Label}
    (hw : ∃ o, s.ops i = some o ∧ Withdrawn o) (hn : ∀ r, (i, r) ∉ s.status)
    (hl1 : ∀ p lt, l ≠ .start i p lt) (hl2 : ∀ r, l ≠ .foreign i (some r))
    (hs : step u s l = some s1) : (∃ o, s1.ops i = some o ∧ Withdrawn o) ∧ ∀ r, (i, r) ∉ s1.status := by
  obtain ⟨o, ho, hoa, hos, hfl⟩ := hw
  -- an operator j ≠ i that acts leaves i's entry and i's (absent) records alone
  have other : ∀ {j : Identity} {onew : Op}, i ≠ j →
      s1.ops = updOp s.ops j onew → (∀ r, (i, r) ∈ s1.status → (i, r) ∈ s.status) →
      (∃ o, s1.ops i = some o ∧ Withdrawn o) ∧ ∀ r, (i, r) ∉ s1.status := by
    intro j onew hji hops hsub
    exact ⟨⟨o, by rw [hops, updOp_other _ _ hji]; exact ho, hoa, hos, hfl⟩, fun r hm => hn r (hsub r hm)⟩
  -- a label guarded by "running" is not i's
  have notme : ∀ {j : Identity} {oj : Op}, s.ops j = some oj → oj.alive = true → i ≠ j := by
    intro j oj hj hja e
    subst e
    rw [ho] at hj; injection hj with hj; subst hj
    rw [hja] at hoa; cases hoa
  have same : s1.ops = s.ops → (∀ r, (i, r) ∈ s1.status → (i, r) ∈ s.status) →
      (∃ o, s1.ops i = some o ∧ Withdrawn o) ∧ ∀ r, (i, r) ∉ s1.status := by
    intro hops hsub
    exact ⟨⟨o, by rw [hops]; exact ho, hoa, hos, hfl⟩, fun r hm => hn r (hsub r hm)⟩
  cases l with
  | start j p lt =>
    obtain ⟨_, hst, _, _, hops⟩ := start_spec hs
    have hji : i ≠ j := fun e => hl1 p lt (by rw [e])
    exact other hji hops (fun r hm => by rw [hst] at hm; exact hm)
  | keepalive j lag =>
    obtain ⟨oj, hj, hja, _, _, hst, hops⟩ := keepalive_spec hs
    have hji := notme hj hja
    exact other hji hops (fun r hm => by rw [hst] at hm; exact (mem_patch_other (Ne.symm hji)).mp hm)
  | exit j =>
    obtain ⟨oj, hj, hja, _, hst, hops, _⟩ := exit_spec hs
    exact other (notme hj hja) hops (fun r hm => by rw [hst] at hm; exact (mem_erase.mp hm).1)
  | exitLost j =>
    obtain ⟨oj, hj, hja, _, hst, hops, _⟩ := exitLost_spec hs
    exact other (notme hj hja) hops (fun r hm => by rw [hst] at hm; exact hm)
  | exitBegin j =>
    obtain ⟨oj, hj, hja, _, _, hst, _, hops⟩ := exitBegin_spec hs
    exact other (notme hj hja) hops (fun r hm => by rw [hst] at hm; exact hm)
  | keepaliveFail j w =>
    obtain ⟨oj, hj, hja, _, hst, _, hops⟩ := keepaliveFail_spec hs
    refine other (notme hj hja) hops (fun r hm => ?_)
    rw [hst] at hm
    cases w
    · exact hm
    · exact (mem_erase.mp hm).1
  | exitEnd j =>
    obtain ⟨oj, hj, hja, _, _, hst, _, hops⟩ := exitEnd_spec hs
    exact other (notme hj hja) hops (fun r hm => by rw [hst] at hm; exact (mem_erase.mp hm).1)
  | kill j =>
    obtain ⟨oj, hj, hja, _, hst, hops, _⟩ := kill_spec hs
    exact other (notme hj hja) hops (fun r hm => by rw [hst] at hm; exact hm)
  | deliver j =>
    obtain ⟨oj, hj, hja, _, hst, _, _, hops⟩ := deliver_spec hs
    exact other (notme hj hja) hops (fun r hm => by rw [hst] at hm; exact (List.mem_filter.mp hm).1)
  | deliverStale j view vv =>
    obtain ⟨oj, _, hj, hja, _, _, hst, _, _, hops, _⟩ := stale_spec hs
    refine other (notme hj hja) hops (fun r hm => ?_)
    rcases hst with e | e
    · rw [e] at hm; exact hm
    · rw [e] at hm; exact (List.mem_filter.mp hm).1
  | tick d =>
    simp only [step, Option.some.injEq] at hs; subst hs
    exact same rfl (fun r hm => hm)
  | expire j =>
    simp only [step, Option.some.injEq] at hs; subst hs
    exact same rfl (fun r hm => hm)
  | foreign j v =>
    simp only [step, Option.some.injEq] at hs; subst hs
    refine same rfl ?_
    intro r hm
    by_cases hji : j = i
    · subst hji
      cases v with
      | none => exact absurd rfl (mem_erase.mp hm).2
      | some r' => exact absurd rfl (hl2 r')
    · exact (mem_patch_other hji).mp hm
  | wake j lag =>
    obtain ⟨oj, hj, hjs, _, hst, hops, _⟩ := wake_spec hs
    have hji : i ≠ j := by
      intro e; subst e
      rw [ho] at hj; injection hj with hj; subst hj; rw [hos] at hjs; cases hjs
    exact other hji hops (fun r hm => by rw [hst] at hm; exact (mem_patch_other (Ne.symm hji)).mp hm)
  | wakeIssue j =>
    obtain ⟨oj, hj, hjs, _, _, hst, _, hops⟩ := wakeIssue_spec hs
    have hji : i ≠ j := by
      intro e; subst e
      rw [ho] at hj; injection hj with hj; subst hj; rw [hos] at hjs; cases hjs
    exact other hji hops (fun r hm => by rw [hst] at hm; exact hm)
  | land j =>
    obtain ⟨oj, t, hj, hjt, _, hst, hops, _⟩ := land_spec hs
    have hji : i ≠ j := by
      intro e; subst e
      rw [ho] at hj; injection hj with hj; subst hj
      rw [hfl] at hjt; cases hjt
    exact other hji hops (fun r hm => by rw [hst] at hm; exact (mem_patch_other (Ne.symm hji)).mp hm)

theorem withdrawn_stays_aux {u : Int} {i : Identity} : ∀ (ls : List Label) (s s' : State),
    (∃ o, s.ops i = some o ∧ Withdrawn o) → (∀ r, (i, r) ∉ s.status) →
    (∀ l ∈ ls, (∀ p lt, l ≠ .start i p lt) ∧ (∀ r, l ≠ .foreign i (some r))) →
    run u s ls = some s' → ∀ r, (i, r) ∉ s'.status := by
  intro ls
  induction ls with
  | nil => intro s s' _ hn _ h; simp only [run, Option.some.injEq] at h; subst h; exact hn
  | cons l rest ih =>
    intro s s' ⟨o, ho, hoa, hos, hfl⟩ hn hall h
    simp only [run] at h
    cases hs : step u s l with
    | none => simp [hs] at h
    | some s1 =>
      simp only [hs] at h
      obtain ⟨hl1, hl2⟩ := hall l List.mem_cons_self
      have key := withdrawn_step ⟨o, ho, hoa, hos, hfl⟩ hn hl1 hl2 hs
      exact ih s1 s' key.1 key.2 (fun l hl => hall l (List.mem_cons_of_mem _ hl)) h

/-- FULL. An operator that has withdrawn and has no record stays without a record, whatever else happens in any order —
    views of any age processed by anybody, lost exits, late landings of OTHERS' touches, kills — as long as nobody starts
    it again or writes a record under its name. -/
theorem withdrawn_stays_from {u : Int} {i : Identity} (ls : List Label) (s s' : State)
    (hw : ∃ o, s.ops i = some o ∧ Withdrawn o) (hn : ∀ r, (i, r) ∉ s.status)
    (hall : ∀ l ∈ ls, (∀ p lt, l ≠ .start i p lt) ∧ (∀ r, l ≠ .foreign i (some r)))
    (h : run u s ls = some s') : ∀ r, (i, r) ∉ s'.status :=
  withdrawn_stays_aux ls s s' hw hn hall h

/- Full clause: "removes it on graceful exit" — for good, whatever was in flight. -/
/-- FULL (no guard: the "no self-touch in flight" hypothesis of the former `withdrawn_stays_partial` is now what the
    stop order guarantees — F9 was its negation). The withdrawal of a graceful stop is permanent: from the withdrawal on
    (`exitEnd`, or the one-step `exit`), through anything the other operators and the clock do, the record never comes back. -/
theorem withdrawn_stays {u : Int} {i : Identity} {s s1 s' : State}
    (h1 : step u s (.exitEnd i) = some s1 ∨ step u s (.exit i) = some s1) (ls : List Label)
    (hall : ∀ l ∈ ls, (∀ p lt, l ≠ .start i p lt) ∧ (∀ r, l ≠ .foreign i (some r)))
    (h2 : run u s1 ls = some s') : ∀ r, (i, r) ∉ s'.status := by
  obtain ⟨hn, _, hw⟩ := withdraw_on_exit h1
  exact withdrawn_stays_from ls s1 s' hw hn hall h2

set_option synthInstance.maxSize 2048 in
/-- F9's schedule in Lean (repaired by 26a293c). B (paused by A) sleeps towards the deadline of the killed A's record. At
    that tick the sleep ends and the call ISSUES its self-touch (`wakeIssue`); in the same tick B is asked to stop
    (`exitBegin`): the observer is stopped FIRST, its request is awaited - it lands (`land`) - and only then the pinger
    withdraws (`exitEnd`): B is gone and has no record (first conjunct; it used to have one, live for a whole lifetime).
    If the request is cancelled instead, it is dropped with the observer (`exitEnd` with the self-touch still in flight:
    second conjunct); it cannot land after the withdrawal (third: not a run; nor with the one-step `exit`: fourth).
    Replayed on the real code: corpus/C13/F9.json (must pass). -/
theorem selftouch_before_withdrawal :
    (run 64 init [.start "A" 100 2, .start "B" 10 10, .keepalive "A" 0, .keepalive "B" 0, .deliver "B", .kill "A", .expire "A",
                  .wakeIssue "B", .exitBegin "B", .land "B", .exitEnd "B"]).map
        (fun s => (s.now, (s.ops "B").map (fun o => (o.alive, o.exiting, o.inflight)), s.status))
      = some (128, some (false, false, none), [("A", ⟨100, 2, 0⟩)]) ∧
    (run 64 init [.start "A" 100 2, .start "B" 10 10, .keepalive "A" 0, .keepalive "B" 0, .deliver "B", .kill "A", .expire "A",
                  .wakeIssue "B", .exitBegin "B", .exitEnd "B"]).map
        (fun s => ((s.ops "B").map (fun o => (o.alive, o.inflight)), s.status))
      = some (some (false, none), [("A", ⟨100, 2, 0⟩)]) ∧
    (run 64 init [.start "A" 100 2, .start "B" 10 10, .keepalive "A" 0, .keepalive "B" 0, .deliver "B", .kill "A", .expire "A",
                  .wakeIssue "B", .exitBegin "B", .exitEnd "B", .land "B"]).isSome = false ∧
    (run 64 init [.start "A" 100 2, .start "B" 10 10, .keepalive "A" 0, .keepalive "B" 0, .deliver "B", .kill "A", .expire "A",
                  .wakeIssue "B", .exit "B", .land "B"]).isSome = false := by decide

/-! ## the regular keep-alive in flight when the operator stops (seeded change C13f was the negation) -/

/- Full clause: "removes it on graceful exit" — also when the stop comes while a regular keep-alive PATCH is on its way. -/
theorem kwithdrawn_aux {u : Int} {i : Identity} : ∀ (ls : List KLabel) (ks ks' : KState),
    (∃ o, ks.s.ops i = some o ∧ Withdrawn o) → ks.flight i = none → (∀ r, (i, r) ∉ ks.s.status) →
    (∀ l ∈ ls, (∀ p lt, l ≠ .base (.start i p lt)) ∧ (∀ r, l ≠ .base (.foreign i (some r)))) →
    krun u ks ls = some ks' → ∀ r, (i, r) ∉ ks'.s.status := by
  intro ls
  induction ls with
  | nil => intro ks ks' _ _ hn _ h; simp only [krun, Option.some.injEq] at h; subst h; exact hn
  | cons l rest ih =>
    intro ks ks' hw hf hn hall h
    simp only [krun] at h
    cases hs : kstep u ks l with
    | none => simp [hs] at h
    | some k1 =>
      simp only [hs] at h
      obtain ⟨hl1, hl2⟩ := hall l List.mem_cons_self
      have hrest := fun l hl => hall l (List.mem_cons_of_mem _ hl)
      cases l with
      | base bl =>
        simp only [kstep] at hs
        cases hst : step u ks.s bl with
        | none => simp [hst] at hs
        | some s' =>
          simp only [hst, Option.some.injEq] at hs
          subst hs
          have key := withdrawn_step hw hn (fun p lt e => hl1 p lt (by rw [e])) (fun r e => hl2 r (by rw [e])) hst
          refine ih _ ks' key.1 ?_ key.2 hrest h
          show (match stopsPinger bl with | some j => setFlight ks.flight j none | none => ks.flight) i = none
          cases stopsPinger bl with
          | none => exact hf
          | some j => simp only [setFlight]; split; rfl; exact hf
      | kaIssue j =>
        simp only [kstep, kaIssueStep] at hs
        cases hj : ks.s.ops j with
        | none => simp [hj] at hs
        | some oj =>
          simp only [hj] at hs
          by_cases hg : (oj.alive && (ks.flight j).isNone) = true
          · simp only [hg, if_true, Option.some.injEq] at hs
            subst hs
            have hji : i ≠ j := by
              intro e; subst e
              obtain ⟨o, ho, hoa, _, _⟩ := hw
              rw [ho] at hj; injection hj with hj; subst hj
              rw [hoa] at hg; simp at hg
            refine ih _ ks' ?_ ?_ ?_ hrest h
            · exact hw
            · show setFlight ks.flight j (some ks.s.now) i = none
              simp only [setFlight, if_neg hji]; exact hf
            · exact hn
          · simp [hg] at hs
      | kaLand j =>
        simp only [kstep, kaLandStep] at hs
        cases hj : ks.s.ops j with
        | none => simp [hj] at hs
        | some oj =>
          cases hfj : ks.flight j with
          | none => simp [hj, hfj] at hs
          | some t =>
            simp only [hj, hfj, Option.some.injEq] at hs
            subst hs
            have hji : i ≠ j := by
              intro e; subst e; rw [hf] at hfj; cases hfj
            obtain ⟨o, ho, hwd⟩ := hw
            refine ih _ ks' ?_ ?_ ?_ hrest h
            · exact ⟨o, ho, hwd⟩
            · show setFlight ks.flight j none i = none
              simp only [setFlight, if_neg hji]; exact hf
            · intro r hm
              exact hn r ((mem_patch_other (Ne.symm hji)).mp hm)

/-- FULL (no guard; seeded change C13f was the negation). The regular keep-alive as a request IN FLIGHT (`kaIssue` … `kaLand`,
    layer `C13_KaFlight` over `step`): the graceful stop of the pinger (`exitEnd`, or the one-step `exit`) cancels the request
    the pinger is awaiting BEFORE it sends the withdrawal - whatever was on its way is not applied. So from the withdrawal on,
    through anything anybody does in any order - other operators' keep-alives sent and landing at any time, views of any age,
    kills, time - the record never comes back (until the operator is started again or a foreign writer uses its name). -/
theorem withdrawn_stays_keepalive_in_flight {u : Int} {i : Identity} {ks k1 ks' : KState}
    (h1 : kstep u ks (.base (.exitEnd i)) = some k1 ∨ kstep u ks (.base (.exit i)) = some k1) (ls : List KLabel)
    (hall : ∀ l ∈ ls, (∀ p lt, l ≠ .base (.start i p lt)) ∧ (∀ r, l ≠ .base (.foreign i (some r))))
    (h2 : krun u k1 ls = some ks') : ∀ r, (i, r) ∉ ks'.s.status := by
  have key : (∃ s1, (step u ks.s (.exitEnd i) = some s1 ∨ step u ks.s (.exit i) = some s1) ∧ k1.s = s1) ∧ k1.flight i = none := by
    rcases h1 with h | h
    · simp only [kstep] at h
      cases hst : step u ks.s (.exitEnd i) with
      | none => simp [hst] at h
      | some s' =>
        simp only [hst, Option.some.injEq] at h
        subst h
        exact ⟨⟨s', Or.inl rfl, rfl⟩, by simp [stopsPinger, setFlight]⟩
    · simp only [kstep] at h
      cases hst : step u ks.s (.exit i) with
      | none => simp [hst] at h
      | some s' =>
        simp only [hst, Option.some.injEq] at h
        subst h
        exact ⟨⟨s', Or.inr rfl, rfl⟩, by simp [stopsPinger, setFlight]⟩
  obtain ⟨⟨s1, hs1, he⟩, hf⟩ := key
  obtain ⟨hn, _, hw⟩ := withdraw_on_exit hs1
  exact kwithdrawn_aux ls k1 ks' (by rw [he]; exact hw) hf (by rw [he]; exact hn) hall h2

/-- the hypotheses are met with a keep-alive in flight at the stop: A's second keep-alive was sent at tick 3520, the stop's
    last step comes 8 ticks later and takes the request back -/
example : ((krun 64 kinit [.base (.start "A" 100 60), .base (.start "B" 10 10), .kaIssue "A", .kaLand "A", .base (.deliver "B"),
                           .base (.tick 3520), .kaIssue "A", .base (.tick 8), .base (.exitBegin "A")]).bind
            (fun ks => (kstep 64 ks (.base (.exitEnd "A"))).map (fun k1 => (ks.flight "A", k1.flight "A", k1.s.status)))) =
          some (some 3520, none, []) := by decide

set_option synthInstance.maxSize 2048 in
/-- Seed C13f's schedule in Lean (lifetime 60 s, 64 ticks per second). A (priority 100) sends its second keep-alive at tick
    3520 (55 s); 8 ticks later it is stopped gracefully: `exitBegin`, `exitEnd` - the withdrawal lands; 26 ticks later the
    keep-alive arrives. With what the code does (`kstep`: cancelled with the pinger) that is not a run (first conjunct); B,
    processing the status, resumes: nobody's record but its own concern it (second). With the seeded variant (`kstepShield`:
    the request survives the stop) the same labels ARE a run: A is gone and its record is back, stamped 3520, live until
    tick 7360 - B, processing that status, stays paused: nobody is active for a whole lifetime (third). Replayed on the real
    code: corpus/C13/stop_during_slow_keepalive_lifetime60.json (must pass). -/
theorem shielded_keepalive_returns_witness :
    (krun 64 kinit [.base (.start "A" 100 60), .base (.start "B" 10 10), .kaIssue "A", .kaLand "A", .base (.deliver "B"),
                    .base (.tick 3520), .kaIssue "A", .base (.tick 8), .base (.exitBegin "A"), .base (.exitEnd "A"),
                    .base (.tick 26), .kaLand "A"]).isSome = false ∧
    (krun 64 kinit [.base (.start "A" 100 60), .base (.start "B" 10 10), .kaIssue "A", .kaLand "A", .base (.deliver "B"),
                    .base (.tick 3520), .kaIssue "A", .base (.tick 8), .base (.exitBegin "A"), .base (.exitEnd "A"),
                    .base (.tick 26), .base (.deliver "B")]).map
        (fun ks => (ks.s.status, (ks.s.ops "A").map (·.alive), (ks.s.ops "B").map (fun o => (o.alive, o.paused))))
      = some ([], some false, some (true, false)) ∧
    (krunShield 64 kinit [.base (.start "A" 100 60), .base (.start "B" 10 10), .kaIssue "A", .kaLand "A", .base (.deliver "B"),
                    .base (.tick 3520), .kaIssue "A", .base (.tick 8), .base (.exitBegin "A"), .base (.exitEnd "A"),
                    .base (.tick 26), .kaLand "A", .base (.deliver "B")]).map
        (fun ks => (ks.s.now, ks.s.status, (ks.s.ops "A").map (·.alive), (ks.s.ops "B").map (fun o => (o.alive, o.paused))))
      = some (3554, [("A", ⟨100, 60, 3520⟩)], some false, some (true, true)) := by decide

/-! ## failover after a graceful exit -/

/- Full clause: "… also after the active one exits" — for every delivery timing. -/
/-- PARTIAL (guard: the last view every remaining operator processes is the current status — `ls` —; hypothesis `hown`:
    their own records are fresh at the end). The active (or any other) operator `a` is asked to stop (`exitBegin`); during
    the exit window `win` — `a` finishing its handlers, its pinger renewing the record — and after the withdrawal
    (`exitEnd`) — `mid` — ANY interleaving of passing time, keep-alives, waking self-touches and deliveries of views of ANY
    age may happen; once every remaining running operator has then processed the current status, exactly the top one of
    them is active, `a` is gone and has no record. (`win = []`: the one-step `exit`, by `exit_two_phase`.) -/
theorem failover_exit_partial {u : Int} {s s0 sw s1 s2 s3 : State} {a : Identity} (hg : Good u s) (hsa : SleepAlive s)
    (h0 : step u s (.exitBegin a) = some s0)
    (win : List Label) (hqw : ∀ l ∈ win, Quiet l) (hw : run u s0 win = some sw)
    (h1 : step u sw (.exitEnd a) = some s1)
    (mid : List Label) (hq : ∀ l ∈ mid, Quiet l) (h2 : run u s1 mid = some s2)
    (hown : ∀ i o, s2.ops i = some o → o.alive = true →
      ∃ r, (i, r) ∈ s2.status ∧ r.priority = o.prio ∧ r.dead u s2.now = false)
    (ls : List Label) (hdel : ∀ l ∈ ls, ∃ i, l = Label.deliver i)
    (hcov : ∀ i op, s2.ops i = some op → op.alive = true → Label.deliver i ∈ ls)
    (h3 : run u s2 ls = some s3) :
    ExactlyTop s3 ∧ (∀ op, s3.ops a = some op → op.alive = false) ∧ ∀ r, (a, r) ∉ s3.status := by
  -- the stop is requested: nothing changes but a's flags
  obtain ⟨o, ho, _, _, hnow0, hst0, _, hops0⟩ := exitBegin_spec h0
  have hso0 : SameOps s s0 := sameOps_upd ho hops0 rfl rfl
  have hng0 := noGhost_transfer hg.noGhost hnow0 (fun j r hm => by rw [hst0] at hm; exact hm) (by
    intro j op hj hja _
    rcases hso0 j with ⟨x, _⟩ | ⟨x, x', hx, hx', hp, hal⟩
    · rw [x] at hj; cases hj
    · rw [hx] at hj; injection hj with e; subst e; exact ⟨x', hx', by rw [hal]; exact hja, hp⟩)
  have hsa0 := sleepAlive_step hsa h0
  -- the exit window
  obtain ⟨hngw, hsaw, hsow⟩ := quiet_noGhost win s0 sw hqw hng0 hsa0 hw
  have hdistw := distinct_sameOps (sameOps_trans hso0 hsow) hg.distinct
  -- the withdrawal
  obtain ⟨ow, how, _, _, hnow1, hst1, _, hops1⟩ := exitEnd_spec h1
  have hng1 := noGhost_transfer hngw hnow1 (fun j r hm => by rw [hst1] at hm; exact (mem_erase.mp hm).1) (by
    intro j op hj hja ⟨r, hm⟩
    have hja' : j ≠ a := by rw [hst1] at hm; exact (mem_erase.mp hm).2
    exact ⟨op, by rw [hops1, updOp_other _ _ hja']; exact hj, hja, rfl⟩)
  have hsa1 := sleepAlive_step hsaw h1
  have hdist1 : ∀ i j oi oj, s1.ops i = some oi → s1.ops j = some oj → oi.alive = true → oj.alive = true →
      oi.prio = oj.prio → i = j := by
    intro i j oi oj hi hj hai haj hp
    rw [hops1] at hi hj
    have hia : i ≠ a := by intro e; subst e; simp at hi; subst hi; simp at hai
    have hja : j ≠ a := by intro e; subst e; simp at hj; subst hj; simp at haj
    rw [updOp_other _ _ hia] at hi
    rw [updOp_other _ _ hja] at hj
    exact hdistw i j oi oj hi hj hai haj hp
  -- after it
  obtain ⟨hng2, _, hso12⟩ := quiet_noGhost mid s1 s2 hq hng1 hsa1 h2
  obtain ⟨htop, _⟩ := settle ⟨hown, hng2, distinct_sameOps hso12 hdist1⟩ ls hdel hcov h3
  obtain ⟨_, _, hso23, _⟩ := run_delivers ls s2 s3 hdel h3
  refine ⟨htop, ?_, ?_⟩
  · intro op hop
    rcases sameOps_trans hso12 hso23 a with ⟨_, h⟩ | ⟨x, x', hx, hx', _, hal⟩
    · rw [h] at hop; cases hop
    · rw [hx'] at hop; injection hop with hop; subst hop
      rw [hops1] at hx; simp at hx; subst hx
      rw [hal]
  · refine withdrawn_stays (Or.inl h1) (mid ++ ls) ?_ (by rw [run_append, h2]; exact h3)
    intro l hl
    rcases List.mem_append.mp hl with hm | hm
    · have := hq l hm
      cases l <;> simp [Quiet] at this <;> exact ⟨fun _ _ => by simp, fun _ => by simp⟩
    · obtain ⟨i, rfl⟩ := hdel l hm
      exact ⟨fun _ _ => by simp, fun _ => by simp⟩

/-! ## cleanup of dead records: always possible, not inevitable -/

/-- "Expired records of others are cleaned up": whenever a running operator processes the CURRENT version of the peering
    object, every dead record of anybody else is gone afterwards (its own expired one is for its own pinger to overwrite). -/
theorem cleanup_possible {u : Int} {s : State} {i : Identity} {o : Op} (ho : s.ops i = some o) (ha : o.alive = true)
    (he : o.exiting = false) :
    ∃ s', step u s (.deliver i) = some s' ∧ ∀ j r, (j, r) ∈ s'.status → r.dead u s'.now = false ∨ j = i := by
  have hstep : ∃ s', step u s (.deliver i) = some s' := by simp only [step, ho, ha, he]; exact ⟨_, rfl⟩
  obtain ⟨s', h⟩ := hstep
  refine ⟨s', h, ?_⟩
  obtain ⟨_, _, _, hnow, _⟩ := deliver_spec h
  intro j r hm
  rw [hnow]
  exact ((deliver_cleans h j r).mp hm).2

set_option synthInstance.maxSize 2048 in
/-- … but since 054d47d only then: a reader that never gets to see the current version never cleans. G's record (a ghost,
    lifetime 1 s) is dead from clock 64 on. A is alone and renews every second; every event reaches A one version late
    (it processes version n when the object is already at n+1 - e.g. its own renewal is on its way): each of its cleans is
    refused, the dead record is still there after any number of rounds (here three: clock 256). One delivery of the current
    version removes it (second conjunct). With the unconditional clean of before 054d47d the first round would have
    removed it. Whether the real code can be kept in that regime: see finding F10 / `cleanup` in harness/props/c13.py. -/
theorem cleanup_starved_witness :
    (run 64 init [.start "A" 100 3, .foreign "G" (some ⟨500, 1, 0⟩), .keepalive "A" 0, .tick 64,
                  .keepalive "A" 0, .deliverStale "A" [("G", ⟨500, 1, 0⟩), ("A", ⟨100, 3, 0⟩)] 2, .tick 64,
                  .keepalive "A" 0, .deliverStale "A" [("G", ⟨500, 1, 0⟩), ("A", ⟨100, 3, 64⟩)] 3, .tick 64,
                  .keepalive "A" 0, .deliverStale "A" [("G", ⟨500, 1, 0⟩), ("A", ⟨100, 3, 128⟩)] 4]).map
        (fun s => (s.now, s.ver, s.status.map (·.1), (s.ops "A").map (·.paused)))
      = some (192, 5, ["G", "A"], some false) ∧
    (run 64 init [.start "A" 100 3, .foreign "G" (some ⟨500, 1, 0⟩), .keepalive "A" 0, .tick 64,
                  .keepalive "A" 0, .deliverStale "A" [("G", ⟨500, 1, 0⟩), ("A", ⟨100, 3, 0⟩)] 2, .tick 64,
                  .keepalive "A" 0, .deliverStale "A" [("G", ⟨500, 1, 0⟩), ("A", ⟨100, 3, 64⟩)] 3, .tick 64,
                  .keepalive "A" 0, .deliverStale "A" [("G", ⟨500, 1, 0⟩), ("A", ⟨100, 3, 128⟩)] 4, .deliver "A"]).map
        (fun s => s.status.map (·.1)) = some ["A"] := by decide

/-! ## convergence is always possible -/

/-- From ANY state — reachable or not, whatever old views, ghosts, lost exits and expired records it contains — with the
    running operators configured with `lifetime ≥ 1` and distinct priorities (`ids` merely names them), there is a
    schedule after which the operators see each other and exactly the top one is active: let every record that is there
    expire, let every running operator touch, let every running operator process the status. (Possibility, not
    inevitability: nothing forces the environment to be that kind — see `stale_verdict_two_active_witness`.) -/
theorem convergence_possible {u : Int} {s : State} (hu : 0 < u) (ids : List Identity)
    (hcov : ∀ i o, s.ops i = some o → o.alive = true → i ∈ ids)
    (hL : ∀ i o, s.ops i = some o → o.alive = true → 1 ≤ o.lifetime ∧ o.exiting = false)
    (hdist : ∀ i j oi oj, s.ops i = some oi → s.ops j = some oj → oi.alive = true → oj.alive = true →
      oi.prio = oj.prio → i = j) :
    ∃ ls s', run u s ls = some s' ∧ ExactlyTop s' ∧ Good u s' := by
  let js := ids.filter (fun i => match s.ops i with | some o => o.alive | none => false)
  have hjs : ∀ j, j ∈ js ↔ j ∈ ids ∧ ∃ o, s.ops j = some o ∧ o.alive = true := by
    intro j
    simp only [js, List.mem_filter]
    constructor
    · rintro ⟨h1, h2⟩
      cases ho : s.ops j with
      | none => simp [ho] at h2
      | some o => simp [ho] at h2; exact ⟨h1, o, rfl, h2⟩
    · rintro ⟨h1, o, ho, ha⟩
      exact ⟨h1, by simp [ho, ha]⟩
  obtain ⟨d, hd⟩ := exists_tick_all_dead u s.now s.status
  let s1 : State := { s with now := s.now + d }
  have h1 : step u s (.tick d) = some s1 := rfl
  have hall1 : ∀ j ∈ js, ∃ o, s1.ops j = some o ∧ o.alive = true ∧ o.exiting = false ∧ 1 ≤ o.lifetime := by
    intro j hj
    obtain ⟨_, o, ho, ha⟩ := (hjs j).mp hj
    exact ⟨o, ho, ha, (hL j o ho ha).2, (hL j o ho ha).1⟩
  obtain ⟨s2, h2, hnow2, heq2, hrec2⟩ := run_keepalives hu js s1 hall1
  -- who runs in s2 runs in s, same priority and lifetime
  have back : ∀ i o2, s2.ops i = some o2 → ∃ o, s.ops i = some o ∧ o2.prio = o.prio ∧ o2.lifetime = o.lifetime ∧ o2.alive = o.alive ∧ o2.exiting = o.exiting := by
    intro i o2 h
    rcases heq2 i with ⟨_, y⟩ | ⟨a, a', ha, ha', hp, hl, hal, hex⟩
    · rw [y] at h; cases h
    · rw [ha'] at h; injection h with e; subst e
      exact ⟨a, ha, hp, hl, hal, hex⟩
  have fwd : ∀ i o, s.ops i = some o → ∃ o2, s2.ops i = some o2 ∧ o2.prio = o.prio ∧ o2.lifetime = o.lifetime ∧ o2.alive = o.alive ∧ o2.exiting = o.exiting := by
    intro i o h
    rcases heq2 i with ⟨x, _⟩ | ⟨a, a', ha, ha', hp, hl, hal, hex⟩
    · have : s.ops i = none := x
      rw [this] at h; cases h
    · have ha0 : s.ops i = some a := ha
      rw [ha0] at h; injection h with e; subst e
      exact ⟨a', ha', hp, hl, hal, hex⟩
  have hg2 : Good u s2 := by
    constructor
    · intro i o2 hi ha
      obtain ⟨o, ho, hp, hl, hal, _⟩ := back i o2 hi
      have hoa : o.alive = true := by rw [← hal]; exact ha
      have hij : i ∈ js := (hjs i).mpr ⟨hcov i o ho hoa, o, ho, hoa⟩
      refine ⟨{ priority := o.prio, lifetime := o.lifetime, lastseen := s1.now }, (hrec2 i _).mpr (Or.inl ⟨hij, o, ho, rfl⟩), hp.symm, ?_⟩
      rw [dead_false_iff, hnow2]
      have : 0 < o.lifetime * u := Int.mul_pos (by have := (hL i o ho hoa).1; omega) hu
      show s1.now < s1.now + o.lifetime * u
      omega
    · intro j r hm hlive
      rcases (hrec2 j r).mp hm with ⟨hj, o, ho, hr⟩ | ⟨hm1, _⟩
      · obtain ⟨_, o', ho', ha'⟩ := (hjs j).mp hj
        have ho0 : s.ops j = some o := ho
        rw [ho0] at ho'; injection ho' with e; subst e
        obtain ⟨o2, ho2, hp, _, hal, _⟩ := fwd j o ho0
        exact ⟨o2, ho2, by rw [hal]; exact ha', by rw [hr, hp]⟩
      · have := hd (j, r) hm1
        rw [hnow2] at hlive
        have e : s1.now = s.now + d := rfl
        rw [e, this] at hlive
        cases hlive
    · intro i j oi oj hi hj hai haj hp
      obtain ⟨a, ha, hpa, _, hala, _⟩ := back i oi hi
      obtain ⟨b, hb, hpb, _, halb, _⟩ := back j oj hj
      exact hdist i j a b ha hb (by rw [← hala]; exact hai) (by rw [← halb]; exact haj) (by omega)
  have hall2 : ∀ j ∈ js, ∃ o, s2.ops j = some o ∧ o.alive = true ∧ o.exiting = false := by
    intro j hj
    obtain ⟨_, o, ho, ha⟩ := (hjs j).mp hj
    obtain ⟨o2, ho2, _, _, hal, hex⟩ := fwd j o ho
    exact ⟨o2, ho2, by rw [hal]; exact ha, by rw [hex]; exact (hL j o ho ha).2⟩
  obtain ⟨s3, h3⟩ := run_delivers_enabled js s2 hall2
  have hres := settle hg2 (js.map Label.deliver)
    (fun l hl => by obtain ⟨j, _, rfl⟩ := List.mem_map.mp hl; exact ⟨j, rfl⟩)
    (fun i o2 hi ha => by
      obtain ⟨o, ho, _, _, hal, _⟩ := back i o2 hi
      have hoa : o.alive = true := by rw [← hal]; exact ha
      exact List.mem_map.mpr ⟨i, (hjs i).mpr ⟨hcov i o ho hoa, o, ho, hoa⟩, rfl⟩) h3
  refine ⟨[.tick d] ++ js.map (fun j => Label.keepalive j 0) ++ js.map Label.deliver, s3, ?_, hres.1, hres.2⟩
  rw [run_append, run_append]
  simp only [List.singleton_append, run, h1, Option.bind]
  rw [h2]
  exact h3

/-! ## non-vacuity: every theorem with hypotheses is instantiated on a concrete, non-trivial, reachable state -/

def exA : Rec := { priority := 100, lifetime := 10, lastseen := 0 }
def exB : Rec := { priority := 10, lifetime := 8, lastseen := 0 }

/-- two operators, both started, touched and delivered: a reachable stable state with A active, B paused. -/
def exRun : List Label :=
  [.start "A" 100 10, .start "B" 10 8, .keepalive "A" 0, .keepalive "B" 0, .deliver "A", .deliver "B"]
def exStable : Option State := run 64 init exRun

example : (exStable.map (fun s => (s.status, (s.ops "A").map (·.paused), (s.ops "B").map (·.paused)))) =
    some ([("A", exA), ("B", exB)], some false, some true) := by decide

private def opA : Op := { prio := 100, lifetime := 10, alive := true, paused := false, seen := some (2, 0), nextKA := some 320 }
private def opB : Op := { prio := 10, lifetime := 8, alive := true, paused := true, seen := some (2, 0), sleeping := true, nextKA := some 192 }

/-- unfold a concrete run into its explicit end state -/
local macro "unfold_run" h:ident : tactic => `(tactic|
  simp [exStable, exRun, run, step, deliverNow, init, updOp, touchVal, Rec.dead, Rec.deadline, Status.patch, Status.set, Status.erase,
    Status.eraseAll, marginT, margin, decideCore, Status.peers, Rec.toPeer, livePeers, deadPeers, prioPeers, samePeers,
    Peer.isDead, Peer.deadline, minList] at $h:ident)

private theorem exStable_shape : ∀ s, exStable = some s →
    s.now = 0 ∧ s.ver = 2 ∧ s.status = [("A", exA), ("B", exB)] ∧ s.ops "A" = some opA ∧ s.ops "B" = some opB ∧
    ∀ i o, s.ops i = some o → (i = "A" ∧ o = opA) ∨ (i = "B" ∧ o = opB) := by
  intro s h
  unfold_run h
  subst h
  refine ⟨rfl, rfl, rfl, ?_, ?_, ?_⟩
  · simp [updOp, opA]; decide
  · simp [updOp, opB]; decide
  · refine ops_of_two (a := "A") (b := "B") (by simp [updOp, opA]; decide) (by simp [updOp, opB]; decide) ?_
    intro i h1 h2
    simp [updOp, h1, h2]

private theorem exStable_stable : ∀ s, exStable = some s → Stable 64 s := by
  intro s h
  obtain ⟨hnow, hver, hst, hA, hB, hops⟩ := exStable_shape s h
  refine ⟨⟨?_, ?_, ?_⟩, ?_⟩
  · intro i op hi _
    rcases hops i op hi with ⟨rfl, rfl⟩ | ⟨rfl, rfl⟩
    · exact ⟨exA, by rw [hst]; simp, rfl, by rw [hnow]; decide⟩
    · exact ⟨exB, by rw [hst]; simp, rfl, by rw [hnow]; decide⟩
  · intro j r hm _
    rw [hst] at hm
    simp only [List.mem_cons, Prod.mk.injEq, List.mem_nil_iff, or_false] at hm
    rcases hm with ⟨rfl, rfl⟩ | ⟨rfl, rfl⟩
    · exact ⟨opA, hA, rfl, rfl⟩
    · exact ⟨opB, hB, rfl, rfl⟩
  · intro i j oi oj hi hj _ _ hp
    rcases hops i oi hi with ⟨rfl, rfl⟩ | ⟨rfl, rfl⟩ <;> rcases hops j oj hj with ⟨rfl, rfl⟩ | ⟨rfl, rfl⟩ <;>
      first | rfl | (exfalso; revert hp; decide)
  · intro i op hi _
    rcases hops i op hi with ⟨rfl, rfl⟩ | ⟨rfl, rfl⟩ <;> exact ⟨0, by rw [hver]; rfl, fun _ _ _ => by rw [hnow]⟩

/-- `exactly_top_partial`, `at_most_one_active_partial`, `own_record_fresh` are not vacuous: the state reached by two
    starts, two keep-alives and two deliveries is reachable, timely (API calls ≤ 2 ticks), stable; there A (priority 100)
    is active while B (priority 10) is paused, and both have a live own record. -/
example : ∃ s, exStable = some s ∧ Reachable 64 s ∧ Timely 64 2 s ∧ Stable 64 s ∧ ExactlyTop s ∧
    (∀ i o k, s.ops i = some o → o.alive = true → o.nextKA = some k →
      ∃ r, (i, r) ∈ s.status ∧ r.priority = o.prio ∧ r.dead 64 s.now = false) := by
  cases h : exStable with
  | none => exact absurd h (by decide)
  | some s =>
    have ht : Timely 64 2 s := timely_run_static exRun init s Timely.init (by decide) h
    have hr := timely_reachable ht
    exact ⟨s, rfl, hr, ht, exStable_stable s h, exactly_top_partial hr (exStable_stable s h),
      fun i o k ho ha hk => own_record_fresh (by decide) (by decide) ht ho ha hk⟩

private def exWin : List Label := [.keepalive "A" 1, .deliver "B", .tick 64]
private def exMid : List Label := [.deliver "B", .tick 128, .keepalive "B" 1, .tick 64]

set_option synthInstance.maxSize 2048 in
/-- `failover_exit_partial` (hence `settle_partial`) instantiated with a window and a `mid` that are not empty: from the
    stable state A is asked to stop; while it finishes, its pinger renews its record, B processes the status and STAYS paused
    (the successor does not resume in the exit window: F7 is gone), a second passes; A withdraws; B processes the status (and
    resumes), 2 s pass, B renews, another second passes; B's own record is fresh; B processes the status once more: exactly B
    is active, A is gone without a record. -/
example : ∃ s s0 sw s1 s2 s3, exStable = some s ∧ step 64 s (.exitBegin "A") = some s0 ∧ run 64 s0 exWin = some sw ∧
    (sw.ops "B").map (·.paused) = some true ∧ step 64 sw (.exitEnd "A") = some s1 ∧
    run 64 s1 exMid = some s2 ∧ run 64 s2 [.deliver "B"] = some s3 ∧
    ExactlyTop s3 ∧ (s3.ops "B").map (·.paused) = some false ∧ (∀ op, s3.ops "A" = some op → op.alive = false) ∧
    ∀ r, ("A", r) ∉ s3.status := by
  have hall : (run 64 init (exRun ++ ([.exitBegin "A"] ++ (exWin ++ ([.exitEnd "A"] ++ (exMid ++ [.deliver "B"])))))).isSome = true := by decide
  have fw : (run 64 init (exRun ++ ([.exitBegin "A"] ++ exWin))).map (fun s => (s.ops "B").map (·.paused)) = some (some true) := by decide
  have f2 : (run 64 init (exRun ++ ([.exitBegin "A"] ++ (exWin ++ ([.exitEnd "A"] ++ exMid))))).map (fun s2 =>
      (s2.now, s2.status, (s2.ops "A").map (·.alive), (s2.ops "B").map (fun o => (o.alive, o.prio)))) =
      some (256, [("B", ⟨10, 8, 191⟩)], some false, some (true, 10)) := by decide
  have f3 : (run 64 init (exRun ++ ([.exitBegin "A"] ++ (exWin ++ ([.exitEnd "A"] ++ (exMid ++ [.deliver "B"])))))).map
      (fun s => (s.ops "B").map (·.paused)) = some (some false) := by decide
  cases hT : run 64 init (exRun ++ ([.exitBegin "A"] ++ (exWin ++ ([.exitEnd "A"] ++ (exMid ++ [.deliver "B"]))))) with
  | none => rw [hT] at hall; cases hall
  | some s3 =>
    obtain ⟨s, hs, r1⟩ := run_append_some hT
    obtain ⟨s0, h0, r2⟩ := run_append_some r1
    obtain ⟨sw, hw, r3⟩ := run_append_some r2
    obtain ⟨s1, h1, r4⟩ := run_append_some r3
    obtain ⟨s2, h2, h3⟩ := run_append_some r4
    have h0' := run_single h0
    have h1' := run_single h1
    have hsw : run 64 init (exRun ++ ([.exitBegin "A"] ++ exWin)) = some sw := by
      rw [run_append, hs]; simp only [Option.bind_some]; rw [run_append, h0]; exact hw
    have hs2 : run 64 init (exRun ++ ([.exitBegin "A"] ++ (exWin ++ ([.exitEnd "A"] ++ exMid)))) = some s2 := by
      rw [run_append, hs]; simp only [Option.bind_some]; rw [run_append, h0]; simp only [Option.bind_some]
      rw [run_append, hw]; simp only [Option.bind_some]; rw [run_append, h1]; exact h2
    rw [hsw] at fw; rw [hs2] at f2; rw [hT] at f3
    simp only [Option.map_some, Option.some.injEq, Prod.mk.injEq] at fw f2 f3
    obtain ⟨hnow, hstat, hA2, hB2⟩ := f2
    have hst := exStable_stable s hs
    have hr : Reachable 64 s := reachable_run exRun init s Reachable.init hs
    have hn2 : ∀ i, i ≠ "A" → i ≠ "B" → s2.ops i = none := by
      intro i hA hB
      refine ops_none_of_not_started _ init s2 rfl ?_ hs2
      intro l hl p L e
      rw [e] at hl
      simp [exRun, exWin, exMid] at hl
      rcases hl with ⟨rfl, _⟩ | ⟨rfl, _⟩ <;> contradiction
    have res := failover_exit_partial (a := "A") hst.good (sleepAlive_reachable hr) h0' exWin
      (by intro l hl; simp only [exWin, List.mem_cons, List.mem_nil_iff, or_false] at hl
          rcases hl with rfl | rfl | rfl <;> simp [Quiet])
      hw h1' exMid
      (by intro l hl; simp only [exMid, List.mem_cons, List.mem_nil_iff, or_false] at hl
          rcases hl with rfl | rfl | rfl | rfl <;> simp [Quiet])
      h2
      (by
        intro i o hi ha
        by_cases hiA : i = "A"
        · subst hiA; rw [hi] at hA2; simp at hA2; rw [hA2] at ha; cases ha
        · by_cases hiB : i = "B"
          · subst hiB; rw [hi] at hB2; simp at hB2
            exact ⟨⟨10, 8, 191⟩, by rw [hstat]; simp, by simp [hB2.2], by rw [hnow]; decide⟩
          · rw [hn2 i hiA hiB] at hi; cases hi)
      [.deliver "B"] (fun l hl => by simp at hl; exact ⟨"B", hl⟩)
      (by
        intro i o hi ha
        by_cases hiA : i = "A"
        · subst hiA; rw [hi] at hA2; simp at hA2; rw [hA2] at ha; cases ha
        · by_cases hiB : i = "B"
          · subst hiB; simp
          · rw [hn2 i hiA hiB] at hi; cases hi)
      h3
    exact ⟨s, s0, sw, s1, s2, s3, hs, h0', hw, fw, h1', h2, h3, res.1, f3, res.2.1, res.2.2⟩

/-- `resume_after_expiry` instantiated: A (top) is killed while B's call sleeps towards A's deadline; every peer blocking B
    is a record of A; after `expire "A"` the call wakes, its touch lands one tick late, the event is delivered, B is active. -/
example : ∃ s s1 s2 s3 o3, run 64 init [.start "A" 100 2, .start "B" 10 10, .keepalive "A" 0, .keepalive "B" 0, .deliver "B", .kill "A"] = some s ∧
    step 64 s (.expire "A") = some s1 ∧ step 64 s1 (.wake "B" 1) = some s2 ∧ step 64 s2 (.deliver "B") = some s3 ∧
    s3.ops "B" = some o3 ∧ o3.alive = true ∧ o3.paused = false := by
  cases h : run 64 init [.start "A" 100 2, .start "B" 10 10, .keepalive "A" 0, .keepalive "B" 0, .deliver "B", .kill "A"] with
  | none => exact absurd h (by decide)
  | some s =>
    have fB : (run 64 init [.start "A" 100 2, .start "B" 10 10, .keepalive "A" 0, .keepalive "B" 0, .deliver "B", .kill "A"]).map
        (fun s => (s.ops "B").map (fun o => (o.alive, o.exiting, o.sleeping, o.prio))) = some (some (true, false, true, 10)) := by decide
    have fS : (run 64 init [.start "A" 100 2, .start "B" 10 10, .keepalive "A" 0, .keepalive "B" 0, .deliver "B", .kill "A"]).map
        (·.status) = some [("A", ⟨100, 2, 0⟩), ("B", ⟨10, 10, 0⟩)] := by decide
    rw [h] at fB fS
    simp only [Option.map_some, Option.some.injEq] at fB fS
    cases hB : s.ops "B" with
    | none => simp [hB] at fB
    | some o =>
      simp only [hB, Option.map_some, Option.some.injEq, Prod.mk.injEq] at fB
      obtain ⟨hal, hex, hsl, hp⟩ := fB
      have h1 : ∃ s1, step 64 s (.expire "A") = some s1 := ⟨_, rfl⟩
      obtain ⟨s1, h1⟩ := h1
      obtain ⟨s2, s3, o3, h2, h3, h4, h5, h6⟩ := resume_after_expiry (a := "A") 1 hB hal hex hsl (by
        intro j r hm hj _ _
        rw [fS] at hm
        simp only [List.mem_cons, Prod.mk.injEq, List.mem_nil_iff, or_false] at hm
        rcases hm with ⟨rfl, _⟩ | ⟨rfl, _⟩
        · rfl
        · exact absurd rfl hj) h1
      exact ⟨s, s1, s2, s3, o3, rfl, h1, h2, h3, h4, h5, h6⟩

/-- `convergence_possible` instantiated on the bad end state of `stale_verdict_two_active_witness` (A and B both active): its
    hypotheses hold there, so a schedule exists after which exactly the top one is active. -/
example : ∃ s, run 64 init [.start "A" 100 2, .start "B" 10 10, .keepalive "A" 0, .keepalive "B" 0, .deliver "A", .deliver "B",
      .tick 64, .keepalive "A" 0, .tick 64, .deliverStale "B" [("A", ⟨100, 2, 0⟩), ("B", ⟨10, 10, 0⟩)] 2] = some s ∧
    ∃ ls s', run 64 s ls = some s' ∧ ExactlyTop s' ∧ Good 64 s' := by
  cases h : run 64 init [.start "A" 100 2, .start "B" 10 10, .keepalive "A" 0, .keepalive "B" 0, .deliver "A", .deliver "B",
      .tick 64, .keepalive "A" 0, .tick 64, .deliverStale "B" [("A", ⟨100, 2, 0⟩), ("B", ⟨10, 10, 0⟩)] 2] with
  | none => exact absurd h (by decide)
  | some s =>
    refine ⟨s, rfl, ?_⟩
    have f : (run 64 init [.start "A" 100 2, .start "B" 10 10, .keepalive "A" 0, .keepalive "B" 0, .deliver "A", .deliver "B",
        .tick 64, .keepalive "A" 0, .tick 64, .deliverStale "B" [("A", ⟨100, 2, 0⟩), ("B", ⟨10, 10, 0⟩)] 2]).map
        (fun s => ((s.ops "A").map (fun o => (o.prio, o.lifetime, o.exiting)), (s.ops "B").map (fun o => (o.prio, o.lifetime, o.exiting)))) =
        some (some (100, 2, false), some (10, 10, false)) := by decide
    rw [h] at f
    simp only [Option.map_some, Option.some.injEq, Prod.mk.injEq] at f
    have hn : ∀ i, i ≠ "A" → i ≠ "B" → s.ops i = none := by
      intro i h1 h2
      refine ops_none_of_not_started _ init s rfl ?_ h
      intro l hl p L e
      rw [e] at hl
      simp at hl
      rcases hl with ⟨rfl, _⟩ | ⟨rfl, _⟩ <;> contradiction
    cases hA : s.ops "A" with
    | none => simp [hA] at f
    | some oa =>
      cases hB : s.ops "B" with
      | none => simp [hB] at f
      | some ob =>
        simp only [hA, hB, Option.map_some, Option.some.injEq, Prod.mk.injEq] at f
        obtain ⟨⟨hpa, hla, hea⟩, hpb, hlb, heb⟩ := f
        have hops := ops_of_two hA hB hn
        refine convergence_possible (by decide) ["A", "B"] ?_ ?_ ?_
        · intro i o hi _
          rcases hops i o hi with ⟨rfl, _⟩ | ⟨rfl, _⟩ <;> simp
        · intro i o hi _
          rcases hops i o hi with ⟨rfl, rfl⟩ | ⟨rfl, rfl⟩
          · exact ⟨by omega, hea⟩
          · exact ⟨by omega, heb⟩
        · intro i j oi oj hi hj _ _ hp
          rcases hops i oi hi with ⟨rfl, rfl⟩ | ⟨rfl, rfl⟩ <;> rcases hops j oj hj with ⟨rfl, rfl⟩ | ⟨rfl, rfl⟩ <;>
            first | rfl | (exfalso; omega)

set_option synthInstance.maxSize 2048 in
/-- `stale_same_verdict` instantiated with a view that is NOT the current status: B's keep-alive has landed since the view
    was taken (B's record stamped 64 now, version 3; stamped 0 in the view of version 2); for A the view gives the verdict of
    the current status, and processing it sets A's entry exactly as processing the current status does, the peering
    object untouched. The view of `stale_verdict_two_active_witness` does not give the current verdict. -/
example : ∃ s o s1 s2, run 64 init [.start "A" 100 10, .start "B" 10 8, .keepalive "A" 0, .keepalive "B" 0, .tick 64, .keepalive "B" 0] = some s ∧
    s.ops "A" = some o ∧ s.status ≠ [("A", ⟨100, 10, 0⟩), ("B", ⟨10, 8, 0⟩)] ∧
    sameVerdict 64 s "A" o.prio [("A", ⟨100, 10, 0⟩), ("B", ⟨10, 8, 0⟩)] = true ∧
    step 64 s (.deliverStale "A" [("A", ⟨100, 10, 0⟩), ("B", ⟨10, 8, 0⟩)] 2) = some s1 ∧ step 64 s (.deliver "A") = some s2 ∧
    s1.ops = s2.ops ∧ s1.status = s.status := by
  cases h : run 64 init [.start "A" 100 10, .start "B" 10 8, .keepalive "A" 0, .keepalive "B" 0, .tick 64, .keepalive "B" 0] with
  | none => exact absurd h (by decide)
  | some s =>
    have f : (run 64 init [.start "A" 100 10, .start "B" 10 8, .keepalive "A" 0, .keepalive "B" 0, .tick 64, .keepalive "B" 0]).map
        (fun s => (decide (s.status ≠ [("A", ⟨100, 10, 0⟩), ("B", ⟨10, 8, 0⟩)]), s.ver,
                   (s.ops "A").map (fun o => sameVerdict 64 s "A" o.prio [("A", ⟨100, 10, 0⟩), ("B", ⟨10, 8, 0⟩)]),
                   (step 64 s (.deliverStale "A" [("A", ⟨100, 10, 0⟩), ("B", ⟨10, 8, 0⟩)] 2)).isSome,
                   (step 64 s (.deliver "A")).isSome)) =
        some (true, 3, some true, true, true) := by decide
    rw [h] at f
    simp only [Option.map_some, Option.some.injEq, Prod.mk.injEq, decide_eq_true_eq] at f
    obtain ⟨f1, fv, f2, f3, f4⟩ := f
    cases hA : s.ops "A" with
    | none => simp [hA] at f2
    | some o =>
      simp only [hA, Option.map_some, Option.some.injEq] at f2
      cases h1 : step 64 s (.deliverStale "A" [("A", ⟨100, 10, 0⟩), ("B", ⟨10, 8, 0⟩)] 2) with
      | none => simp [h1] at f3
      | some s1 =>
        cases h2 : step 64 s (.deliver "A") with
        | none => simp [h2] at f4
        | some s2 =>
          obtain ⟨e1, e2⟩ := stale_same_verdict hA (by omega) f2 h1 h2
          exact ⟨s, o, s1, s2, rfl, hA, f1, f2, h1, h2, e1, e2⟩

set_option synthInstance.maxSize 2048 in
example : (run 64 init [.start "A" 100 2, .start "B" 10 10, .keepalive "A" 0, .keepalive "B" 0, .deliver "A", .deliver "B",
                  .tick 64, .keepalive "A" 0, .tick 64]).map
    (fun s => sameVerdict 64 s "B" 10 [("A", ⟨100, 2, 0⟩), ("B", ⟨10, 10, 0⟩)]) = some false := by decide

/-- a view that claims the CURRENT version but is not the current status is not a view the API ever handed out: the label
    is not enabled (a version identifies a content); with the current status it is `deliver` -/
example : (run 64 init [.start "A" 100 10, .start "B" 10 8, .keepalive "A" 0, .keepalive "B" 0,
                        .deliverStale "A" [("A", ⟨100, 10, 0⟩)] 2]).isSome = false ∧
    run 64 init [.start "A" 100 10, .start "B" 10 8, .keepalive "A" 0, .keepalive "B" 0,
                 .deliverStale "A" [("A", ⟨100, 10, 0⟩), ("B", ⟨10, 8, 0⟩)] 2] =
    run 64 init [.start "A" 100 10, .start "B" 10 8, .keepalive "A" 0, .keepalive "B" 0, .deliver "A"] := by
  constructor
  · decide
  · rfl

/-- `live_record_kept` / `clean_removes_only_dead` instantiated on F4's schedule: whatever B concludes from its old view,
    A's current record (stamped 64) is in the peering object afterwards -/
example : ∀ s s', run 64 init [.start "A" 100 2, .start "B" 10 10, .keepalive "A" 0, .keepalive "B" 0, .deliver "A", .deliver "B",
                  .tick 64, .keepalive "A" 0, .tick 64] = some s →
    run 64 s [.deliverStale "B" [("A", ⟨100, 2, 0⟩), ("B", ⟨10, 10, 0⟩)] 2, .kill "B", .deliver "A", .tick 63] = some s' →
    ("A", ⟨100, 2, 64⟩) ∈ s.status → s'.now = 191 → ("A", ⟨100, 2, 64⟩) ∈ s'.status := by
  intro s s' _ h2 hm hnow
  refine live_record_kept _ s s' h2 hm (by rw [hnow]; decide) ?_
  intro l hl
  simp only [List.mem_cons, List.mem_nil_iff, or_false] at hl
  rcases hl with rfl | rfl | rfl | rfl <;> simp [Writes]

set_option synthInstance.maxSize 2048 in
/-- `failover_after_loss_partial` instantiated, with a `mid` that is not empty, not only ticks, and contains an OLD view: A
    (top) is killed in the stable state; B keeps renewing and processes a view of version 2 (still paused: A's record is
    alive; the object is at version 3 by then) while 11 s pass;
    A's record has expired by then, B's own is fresh; B processes the status once more and is the active one. -/
example : ∃ s s1 s2 s3, exStable = some s ∧ step 64 s (.kill "A") = some s1 ∧
    run 64 s1 [.tick 256, .keepalive "B" 1, .deliverStale "B" [("A", exA), ("B", exB)] 2, .tick 256, .keepalive "B" 0, .tick 192] = some s2 ∧
    run 64 s2 [.deliver "B"] = some s3 ∧ (s1.ops "B").map (·.paused) = some true ∧ (s2.ops "B").map (·.paused) = some true ∧
    ExactlyTop s3 ∧ (s3.ops "B").map (·.paused) = some false := by
  cases h : exStable with
  | none => exact absurd h (by decide)
  | some s =>
    obtain ⟨_, _, _, _, _, hops⟩ := exStable_shape s h
    have hst := exStable_stable s h
    have hr : Reachable 64 s := reachable_run exRun init s Reachable.init h
    let mid : List Label := [.tick 256, .keepalive "B" 1, .deliverStale "B" [("A", exA), ("B", exB)] 2, .tick 256, .keepalive "B" 0, .tick 192]
    have tot : (exStable.bind (fun s => (step 64 s (.kill "A")).bind (fun s1 => (run 64 s1 mid).bind (fun s2 =>
        (run 64 s2 [.deliver "B"]).map (fun s3 =>
          ((s1.ops "B").map (·.paused), (s2.ops "B").map (·.paused), (s3.ops "B").map (·.paused))))))) =
        some (some true, some true, some false) := by decide
    have tot2 : (exStable.bind (fun s => (step 64 s (.kill "A")).bind (fun s1 => (run 64 s1 mid).map (fun s2 =>
          (s2.now, s2.status, (s2.ops "A").map (·.alive), (s2.ops "B").map (fun o => (o.alive, o.prio))))))) =
        some (704, [("A", ⟨100, 10, 0⟩), ("B", ⟨10, 8, 512⟩)], some false, some (true, 10)) := by decide
    rw [h] at tot tot2
    simp only [Option.bind_some] at tot tot2
    cases h1 : step 64 s (.kill "A") with
    | none => simp [h1] at tot
    | some s1 =>
      simp only [h1, Option.bind_some] at tot tot2
      cases h2 : run 64 s1 mid with
      | none => simp [h2] at tot
      | some s2 =>
        simp only [h2, Option.bind_some, Option.map_some, Option.some.injEq, Prod.mk.injEq] at tot tot2
        cases h3 : run 64 s2 [.deliver "B"] with
        | none => simp [h3] at tot
        | some s3 =>
          simp only [h3, Option.map_some, Option.some.injEq, Prod.mk.injEq] at tot
          obtain ⟨p1, p2, p3⟩ := tot
          obtain ⟨hnow, hstat, hA2, hB2⟩ := tot2
          have hn2 : ∀ i, i ≠ "A" → i ≠ "B" → s2.ops i = none := by
            intro i hA hB
            have : s.ops i = none := by
              cases hi : s.ops i with
              | none => rfl
              | some o => rcases hops i o hi with ⟨e, _⟩ | ⟨e, _⟩ <;> contradiction
            have h12 : run 64 s (.kill "A" :: mid) = some s2 := by simp only [run, h1]; exact h2
            exact ops_none_of_not_started _ s s2 this (by intro l hl p L e; rw [e] at hl; simp [mid] at hl) h12
          have res := failover_after_loss_partial (a := "A") hst.good (sleepAlive_reachable hr) (Or.inl h1) mid
            (by intro l hl; simp only [mid, List.mem_cons, List.mem_nil_iff, or_false] at hl
                rcases hl with rfl | rfl | rfl | rfl | rfl | rfl <;> simp [Quiet])
            h2
            (by intro r hm; rw [hstat] at hm; simp at hm; rw [hm, hnow]; decide)
            (by
              intro i o hi ha
              by_cases hiA : i = "A"
              · subst hiA; rw [hi] at hA2; simp at hA2; rw [hA2] at ha; cases ha
              · by_cases hiB : i = "B"
                · subst hiB; rw [hi] at hB2; simp at hB2
                  exact ⟨⟨10, 8, 512⟩, by rw [hstat]; simp, by simp [hB2.2], by rw [hnow]; decide⟩
                · rw [hn2 i hiA hiB] at hi; cases hi)
            [.deliver "B"] (fun l hl => by simp at hl; exact ⟨"B", hl⟩)
            (by
              intro i o hi ha
              by_cases hiA : i = "A"
              · subst hiA; rw [hi] at hA2; simp at hA2; rw [hA2] at ha; cases ha
              · by_cases hiB : i = "B"
                · subst hiB; simp
                · rw [hn2 i hiA hiB] at hi; cases hi)
            h3
          exact ⟨s, s1, s2, s3, rfl, h1, h2, h3, p1, p2, res.1, p3⟩

set_option synthInstance.maxSize 2048 in
/-- `failover_after_loss_timely_partial` (and `own_record_fresh` on a run in which time passes) instantiated: A (top) is killed
    in the stable state; B renews every 3 s, each record landing one tick after it was stamped, and processes the status
    once; after 10 s A's record has expired. The WHOLE run from `init` passes the decidable check of `Allowed` with B = 2
    ticks (`timely_run_on`), so the state is `Timely`; B processes the status once more and is the active one. -/
example : ∃ s s1 s2 s3, exStable = some s ∧ step 64 s (.kill "A") = some s1 ∧
    run 64 s1 [.tick 192, .keepalive "B" 1, .deliver "B", .tick 192, .keepalive "B" 1, .tick 192, .keepalive "B" 1, .tick 64] = some s2 ∧
    run 64 s2 [.deliver "B"] = some s3 ∧ Timely 64 2 s2 ∧ (s2.ops "B").map (·.paused) = some true ∧
    ExactlyTop s3 ∧ (s3.ops "B").map (·.paused) = some false := by
  cases h : exStable with
  | none => exact absurd h (by decide)
  | some s =>
    obtain ⟨_, _, _, _, _, hops⟩ := exStable_shape s h
    have hst := exStable_stable s h
    have hr : Reachable 64 s := reachable_run exRun init s Reachable.init h
    let mid : List Label := [.tick 192, .keepalive "B" 1, .deliver "B", .tick 192, .keepalive "B" 1, .tick 192, .keepalive "B" 1, .tick 64]
    have tot : (exStable.bind (fun s => (step 64 s (.kill "A")).bind (fun s1 => (run 64 s1 mid).bind (fun s2 =>
        (run 64 s2 [.deliver "B"]).map (fun s3 => ((s2.ops "B").map (·.paused), (s3.ops "B").map (·.paused))))))) =
        some (some true, some false) := by decide
    have tot2 : (exStable.bind (fun s => (step 64 s (.kill "A")).bind (fun s1 => (run 64 s1 mid).map (fun s2 =>
          (s2.now, s2.status, (s2.ops "A").map (·.alive), (s2.ops "B").map (fun o => (o.alive, o.nextKA))))))) =
        some (640, [("A", ⟨100, 10, 0⟩), ("B", ⟨10, 8, 575⟩)], some false, some (true, some 768)) := by decide
    have hchk : timelyRunOn 64 2 ["A", "B"] init (exRun ++ .kill "A" :: mid) = true := by decide
    rw [h] at tot tot2
    simp only [Option.bind_some] at tot tot2
    cases h1 : step 64 s (.kill "A") with
    | none => simp [h1] at tot
    | some s1 =>
      simp only [h1, Option.bind_some] at tot tot2
      cases h2 : run 64 s1 mid with
      | none => simp [h2] at tot
      | some s2 =>
        simp only [h2, Option.bind_some, Option.map_some, Option.some.injEq, Prod.mk.injEq] at tot tot2
        cases h3 : run 64 s2 [.deliver "B"] with
        | none => simp [h3] at tot
        | some s3 =>
          simp only [h3, Option.map_some, Option.some.injEq, Prod.mk.injEq] at tot
          obtain ⟨p2, p3⟩ := tot
          obtain ⟨hnow, hstat, hA2, hB2⟩ := tot2
          have hwhole : run 64 init (exRun ++ .kill "A" :: mid) = some s2 := by
            have h' : run 64 init exRun = some s := h
            rw [run_append, h']
            simp only [Option.bind_some, run, h1]
            exact h2
          have ht2 : Timely 64 2 s2 :=
            timely_run_on ["A", "B"] _ init s2 Timely.init (fun _ _ => rfl) hchk hwhole
          have hn2 : ∀ i, i ≠ "A" → i ≠ "B" → s2.ops i = none := by
            intro i hA hB
            exact ops_none_of_not_started _ init s2 rfl
              (by intro l hl p L e; rw [e] at hl; simp [exRun, mid] at hl; rcases hl with ⟨rfl, _⟩ | ⟨rfl, _⟩ <;> contradiction) hwhole
          have res := failover_after_loss_timely_partial (a := "A") (B := 2) (by decide) (by decide) hst.good
            (sleepAlive_reachable hr) (Or.inl h1) mid
            (by intro l hl; simp only [mid, List.mem_cons, List.mem_nil_iff, or_false] at hl
                rcases hl with rfl | rfl | rfl | rfl | rfl | rfl | rfl | rfl <;> simp [Quiet])
            h2 ht2
            (by
              intro i o hi ha
              by_cases hiA : i = "A"
              · subst hiA; rw [hi] at hA2; simp at hA2; rw [hA2] at ha; cases ha
              · by_cases hiB : i = "B"
                · subst hiB; rw [hi] at hB2; simp at hB2; exact ⟨768, hB2.2⟩
                · rw [hn2 i hiA hiB] at hi; cases hi)
            (by intro r hm; rw [hstat] at hm; simp at hm; rw [hm, hnow]; decide)
            [.deliver "B"] (fun l hl => by simp at hl; exact ⟨"B", hl⟩)
            (by
              intro i o hi ha
              by_cases hiA : i = "A"
              · subst hiA; rw [hi] at hA2; simp at hA2; rw [hA2] at ha; cases ha
              · by_cases hiB : i = "B"
                · subst hiB; simp
                · rw [hn2 i hiA hiB] at hi; cases hi)
            h3
          exact ⟨s, s1, s2, s3, rfl, h1, h2, h3, ht2, p2, res.1, p3⟩

/-- `withdrawn_stays` instantiated: A is asked to stop, B processes the status in the exit window (stays paused), A renews,
    then withdraws (`exitEnd`); B resumes, renews, processes an OLD view naming A, time passes: A has no record at the end. -/
example : ∀ s s1 s', (exStable.bind (fun s0 => (step 64 s0 (.exitBegin "A")).bind (fun sb =>
      run 64 sb [.deliver "B", .keepalive "A" 1]))) = some s →
    step 64 s (.exitEnd "A") = some s1 →
    run 64 s1 [.deliver "B", .keepalive "B" 1, .deliverStale "B" [("A", exA), ("B", exB)] 2, .tick 640, .deliver "B"] = some s' →
    ∀ r, ("A", r) ∉ s'.status := by
  intro s s1 s' _ h1 h2
  exact withdrawn_stays (Or.inl h1) _
    (by intro l hl; simp at hl; rcases hl with rfl | rfl | rfl | rfl | rfl <;> simp) h2

set_option synthInstance.maxSize 2048 in
example : (exStable.bind (fun s0 => (step 64 s0 (.exitBegin "A")).bind (fun sb =>
    (run 64 sb [.deliver "B", .keepalive "A" 1]).bind (fun s => (step 64 s (.exitEnd "A")).bind (fun s1 =>
    run 64 s1 [.deliver "B", .keepalive "B" 1, .deliverStale "B" [("A", exA), ("B", exB)] 2, .tick 640, .deliver "B"]))))).map
    (fun s => (s.status.map (·.1), (s.ops "A").map (·.alive), (s.ops "B").map (·.paused))) = some (["B"], some false, some false) := by decide

-- `equal_priority_both_paused_partial`: two operators of priority 10, both delivered, both paused (concretely)
example : ((run 64 init [.start "A" 10 10, .start "B" 10 10, .keepalive "A" 0, .keepalive "B" 0, .deliver "A", .deliver "B"]).map
    (fun s => ((s.ops "A").map (·.paused), (s.ops "B").map (·.paused)))) = some (some true, some true) := by decide

example : decideEv 64 [("A", .record { priority := some (.num 100), lifetime := none, lastseen := .at 0, identityKey := false }),
                      ("G", .record { priority := some (.num 500), lifetime := some (.num 1), lastseen := .at 0, identityKey := false }),
                      ("B", .record { priority := some (.num 10), lifetime := some (.num 8), lastseen := .at 64, identityKey := false })]
          "B" 10 true (some false) 128 129
        = .ok { cleaned := ["G"], turned := some true, paused := some true, delays := [60 * 64 - 129],
                sleep := some (60 * 64 - 129), touch := true } := by decide

-- garbled records make the call raise (and `paused_iff` is then silent)
example : decideEv 64 [("X", .record { priority := none, lifetime := some (.str "soon"), lastseen := .absent, identityKey := false })]
          "B" 10 true (some false) 128 128 = .error .valueError := by decide
example : decideEv 64 [("X", .record { priority := some (.str "high"), lifetime := none, lastseen := .absent, identityKey := false })]
          "B" 10 true (some false) 128 128 = .error .typeError := by decide
-- … and so does a lifetime `timedelta` cannot hold, or a deadline beyond year 9999 (OverflowError); the last representable one is fine
example : decideEv 64 [("X", .record { priority := some (.num 5), lifetime := some (.num 86400000000000), lastseen := .at 0, identityKey := false })]
          "B" 10 true (some false) 128 128 = .error .overflowError := by decide
example : decideEv 64 [("X", .record { priority := some (.num 5), lifetime := some (.num 251508844800), lastseen := .at 0, identityKey := false })]
          "B" 10 true (some false) 128 128 = .error .overflowError := by decide
example : decideEv 64 [("X", .record { priority := some (.num 5), lifetime := some (.num 251508844799), lastseen := .at 63, identityKey := false })]
          "B" 10 true (some true) 128 128
        = .ok { cleaned := [], turned := some false, paused := some false, delays := [], sleep := none, touch := false } := by decide


-- failover by kill + expiry + self-touch + delivery, concretely (an instance of the LTS; its last two steps are an instance of
-- `resume_after_expiry` with a := "A", i := "B")
example : ((run 64 init [.start "A" 100 10, .start "B" 10 8, .keepalive "A" 0, .keepalive "B" 0, .deliver "A", .deliver "B",
                         .kill "A", .tick 400, .keepalive "B" 0, .expire "A", .wake "B" 1, .deliver "B"]).map
            (fun s => (s.now, s.status.map (·.1), (s.ops "B").map (·.paused)))) = some (640, ["B"], some false) := by decide

-- an exit whose withdrawal is lost leaves the record (what `kill` does); the peers are freed by its expiry only
example : ((run 64 init [.start "A" 100 2, .start "B" 10 10, .keepalive "A" 0, .keepalive "B" 0, .deliver "B", .exitLost "A", .deliver "B"]).map
    (fun s => ((s.ops "A").map (·.alive), s.status.map (·.1), (s.ops "B").map (·.paused)))) = some (some false, ["A", "B"], some true) := by decide
example : ((run 64 init [.start "A" 100 2, .start "B" 10 10, .keepalive "A" 0, .keepalive "B" 0, .deliver "B", .exitLost "A",
                         .expire "A", .wake "B" 0, .deliver "B"]).map
    (fun s => (s.status.map (·.1), (s.ops "B").map (·.paused)))) = some (["B"], some false) := by decide

-- the schedule that used to put B's record back after B's exit (finding F2) is not a run of the system any more
example : (run 64 init [.start "A" 100 2, .start "B" 10 10, .keepalive "A" 0, .keepalive "B" 0, .deliver "B", .exit "B",
                        .tick 64, .wake "B" 0]).isSome = false := by decide

-- `withdrawn_stays` applies to an operator that exits WHILE its call sleeps towards a blocker's deadline
example : ((run 64 init [.start "A" 100 2, .start "B" 10 10, .keepalive "A" 0, .keepalive "B" 0, .deliver "B"]).map
    (fun s => (s.ops "B").map (fun o => (o.alive, o.sleeping)))) = some (some (true, true)) := by decide
example : ((run 64 init [.start "A" 100 2, .start "B" 10 10, .keepalive "A" 0, .keepalive "B" 0, .deliver "B", .exit "B", .tick 64]).map
    (fun s => ((s.ops "B").map (fun o => (o.alive, o.sleeping)), s.status.map (·.1)))) = some (some (false, false), ["A"]) := by decide

-- renewal hypotheses are satisfiable: lifetime 2, API calls of one tick (1/64 s)
example : Renewed 64 2 0 [⟨2, 1, 5⟩, ⟨2, 1, 10⟩, ⟨2, 1, 7⟩] :=
  renewal 64 2 2 (by decide) (by decide) (by decide) _ 0 (by
    intro r hr
    simp only [List.mem_cons, List.mem_nil_iff, or_false] at hr
    rcases hr with rfl | rfl | rfl <;> decide)

-- the lifetime = 1 corner, concretely: half-second periods, API calls of one tick: renewed, three rounds
example : Renewed 64 1 0 [⟨2, 1, 5⟩, ⟨2, 1, 10⟩, ⟨2, 1, 7⟩] :=
  renewal 64 1 2 (by decide) (by decide) (by decide) _ 0 (by
    intro r hr
    simp only [List.mem_cons, List.mem_nil_iff, or_false] at hr
    rcases hr with rfl | rfl | rfl <;> decide)

-- the own dead record stays, a dead record of somebody else goes
example : decideEv 64 [("B", .record { priority := some (.num 10), lifetime := some (.num 1), lastseen := .at 0, identityKey := false }),
                      ("G", .record { priority := some (.num 500), lifetime := some (.num 1), lastseen := .at 0, identityKey := false })]
          "B" 10 true (some true) 128 129
        = .ok { cleaned := ["G"], turned := some false, paused := some false, delays := [], sleep := none, touch := false } := by decide

end Kopf.C13
