/-
  C17 — property theorems only.
  "After processing any event, each index equals what the documented rules give for the objects seen
  so far … Change handlers, daemons and timers do not start until every indexed resource kind has
  been listed and indexed once."

  Part I  (index): for every configuration of index handlers with distinct ids, every event list
          (any objects, colliding keys, any result/error script, any times) —
          `run_total` (no `KeyError` inside the index), `fwd_rev_consistent`, `no_empty_collections`,
          `keys_unique`, `mirror` (index = groupBy of the documented per-object reference, exactly;
          unconditional since kopf 5068b98 repaired finding C17-F1), and the keep/remove table as
          one-step lemmas; `memory_others_untouched`, `keyed_follows`, `mirror_keyed` (one retry /
          exclusion memory per object whenever the memories' key tells the objects apart: also for
          objects without a uid since kopf 8c8cff5 repaired finding C17-F5; `shared_memory_witness`
          is the old key, kept as a regression).
  Part II (gate): for every interleaving of the labelled transition system of the gate, with any
          number of `spawn_missing_watchers` batches — `gate_safe`, `pass_safe`, `detach_safe`,
          `ungated_only_after_ready`, `late_kind_witness` (by design, F4); beyond the property:
          `gate_can_open_iff` (the gate can open from a reachable state iff no toggle is stranded),
          `gate_stuck_of_leak`, `gate_stuck_dead_watcher_witness`; and witnesses that three broken
          variants of the transition system violate safety.
  Part III (the producer of LISTED, `watching.infinite_watch`/`streaming_block`/`continuous_watch`): what the
          gate's input label `listed r` stands for — for every interleaving of pauses, LIST answers,
          failures and abandoned LIST requests: `listed_means_listed` (every LISTED the stream yields comes
          after an ANSWERED LIST request of the same round and after every item of that answer),
          `abandoned_round_is_silent`, `nothing_listed_while_paused`; three broken variants refuted
          (`abandonedReportsListed_witness`, `listedBeforeItems_witness`, `listWhilePaused_witness`).
-/
import Kopf.Base.J
import Kopf.Lemmas.C17_Mirror
import Kopf.Lemmas.C17_Keyed
import Kopf.Lemmas.C17_GateLive
import Kopf.Lemmas.C17_Nodup
import Kopf.Lemmas.C17_Listing
namespace Kopf.C17

section Index
variable {Id Res L K V O : Type} [DecidableEq Id] [DecidableEq Res] [DecidableEq L]
  [DecidableEq K] [DecidableEq O]

/-- **No `KeyError`**: the forward/reverse bookkeeping never reaches the `self.__items[obj_key]`
    lookup with a key the forward map lacks — processing is total for every history. -/
theorem run_total (cfg : List (Indexer Id Res L)) (bk : Nat) (hnd : (cfg.map (·.id)).Nodup)
    (evs : List (Event Id Res L K V O)) : ∃ s, run cfg bk (State.init : State Id K V O) evs = some s := by
  obtain ⟨s, h, _⟩ := mirror_gen cfg bk hnd evs State.init _ State.invAll_init (link_init cfg)
  exact ⟨s, h⟩

/-- **Forward and reverse maps agree** after any history: `k ∈ rev[o] ↔ o ∈ fwd[k]`, for every
    indexer (configured or not). -/
theorem fwd_rev_consistent (cfg : List (Indexer Id Res L)) (bk : Nat) (hnd : (cfg.map (·.id)).Nodup)
    (evs : List (Event Id Res L K V O)) (s : State Id K V O)
    (h : run cfg bk State.init evs = some s) (i : Id) (k : Option K) (o : O) :
    k ∈ (s.ixs i).rkeys o ↔ ((s.ixs i).val k o).isSome := by
  obtain ⟨s', h', hi, _⟩ := mirror_gen cfg bk hnd evs State.init _ State.invAll_init (link_init cfg)
  rw [h] at h'; cases h'
  exact (hi i).cons k o

/-- **No empty collections are left behind** ("Collections are never empty: they are removed when
    their last item is removed"), in the forward and in the reverse map. -/
theorem no_empty_collections (cfg : List (Indexer Id Res L)) (bk : Nat) (hnd : (cfg.map (·.id)).Nodup)
    (evs : List (Event Id Res L K V O)) (s : State Id K V O)
    (h : run cfg bk State.init evs = some s) (i : Id) :
    (∀ k st, aget k (s.ixs i).items = some st → st ≠ []) ∧
    (∀ o ks, aget o (s.ixs i).reverse = some ks → ks ≠ []) := by
  obtain ⟨s', h', hi, _⟩ := mirror_gen cfg bk hnd evs State.init _ State.invAll_init (link_init cfg)
  rw [h] at h'; cases h'
  exact ⟨(hi i).storeNe, (hi i).revNe⟩

/-- **Mirror.** After any history, every index equals `groupBy` of the reference: under key `k`,
    object `o` contributes exactly the value its *latest documented contribution* has under `k`
    (nothing when it was deleted, stopped matching, failed temporarily/permanently, used up its
    retries/timeout or is excluded; the previous values when the function returned `None` or its
    error was ignored; `{None: v}` for a non-mapping result).
    Unconditional since kopf 5068b98 (`Store._replace` assigns always); before it the statement was
    false for `==`-twins such as `1`/`True` (repaired finding C17-F1; regression example below).
    The model runs events one after another: `OperatorIndexers.replace/discard` are synchronous and
    touch only the event's own object key (`others_untouched`), so concurrent workers of different
    objects commute on the indices. -/
theorem mirror (cfg : List (Indexer Id Res L)) (bk : Nat) (hnd : (cfg.map (·.id)).Nodup)
    (evs : List (Event Id Res L K V O)) (s : State Id K V O)
    (h : run cfg bk State.init evs = some s) (c : Indexer Id Res L) (hc : c ∈ cfg) (k : Option K) (o : O) :
    (s.ixs c.id).val k o = groupBy (fun o => (refRun cfg bk c o RefSt.init evs).contrib) k o := by
  obtain ⟨s', h', _, hl⟩ := mirror_gen cfg bk hnd evs State.init _ State.invAll_init (link_init cfg)
  rw [h] at h'; cases h'
  exact (hl c hc o).2 k

/-- **Keys are unique** in `Index.__items`, in every `Store.__items` and in `Index.__reverse` after
    any history: the association lists of the model denote Python dicts (so the first-match lookups
    `Index.val`/`aget` used by the other theorems see everything the real views iterate over). -/
theorem keys_unique (cfg : List (Indexer Id Res L)) (bk : Nat)
    (evs : List (Event Id Res L K V O)) (s : State Id K V O)
    (h : run cfg bk State.init evs = some s) (i : Id) : (s.ixs i).ND :=
  run_nd cfg bk evs State.init s (fun _ => Index.nd_empty) h i

/-- … and the in-memory exclusion record is the reference's. -/
theorem mirror_exclusions (cfg : List (Indexer Id Res L)) (bk : Nat) (hnd : (cfg.map (·.id)).Nodup)
    (evs : List (Event Id Res L K V O)) (s : State Id K V O)
    (h : run cfg bk State.init evs = some s) (c : Indexer Id Res L) (hc : c ∈ cfg) (o : O) :
    s.mem o c.id = (refRun cfg bk c o RefSt.init evs).excl := by
  obtain ⟨s', h', _, hl⟩ := mirror_gen cfg bk hnd evs State.init _ State.invAll_init (link_init cfg)
  rw [h] at h'; cases h'
  exact (hl c hc o).1

/-! #### the memories' key (`inventory.ResourceMemories._build_key`) -/

/-- **Frame for the memories**: an event touches the retry/exclusion memory of its own object only
    (`memories.recall(raw_body)` / `memories.forget(raw_body)` address one key). With
    `others_untouched` this is the whole independence of objects: what happens to one object — a
    failure, an exclusion, a deletion — never decides for another. (No invariant is needed.) -/
theorem memory_others_untouched (cfg : List (Indexer Id Res L)) (bk : Nat) (s s' : State Id K V O)
    (e : Event Id Res L K V O) (hs : step cfg bk s e = some s') (o : O) (ho : o ≠ e.obj) :
    s'.mem o = s.mem o :=
  step_mem_other cfg bk s s' e hs o ho

/-- **Any key that tells the objects apart is as good as one memory per object.** The mechanism
    with the memories kept under `mk obj` (`stepKeyed`: `memories._items[_build_key(body)]`) shows, for
    every history, exactly what `run` shows — indices and, through the key, memories. The real key
    is the uid, or for an object without a uid the surrogate kind/apiVersion/name/namespace/
    creationTimestamp (kopf 8c8cff5): injective on the objects of a cluster (a uid is unique; two
    live objects without one differ in kind, name or namespace). That the key of the code under
    test tells the generated objects apart is checked by the D tie (the real memories are compared
    per object through `_build_key`). -/
theorem keyed_follows {M : Type} [DecidableEq M] (mk : O → M) (hmk : ∀ a b, mk a = mk b → a = b)
    (cfg : List (Indexer Id Res L)) (bk : Nat) (evs : List (Event Id Res L K V O)) :
    (runKeyed mk cfg bk (KState.init : KState Id K V O M) evs).map (KState.view mk) =
      run cfg bk State.init evs :=
  runKeyed_view mk hmk cfg bk evs KState.init

/-- **Mirror, with the memories under a key** (was `_partial` in effect before kopf 8c8cff5: the
    D tie and the statement excluded histories with several objects without a uid — finding C17-F5):
    for every injective key — objects with or without a uid alike — every index equals `groupBy` of
    the documented reference and the memory found under an object's key is the reference's
    exclusion record of that object. -/
theorem mirror_keyed {M : Type} [DecidableEq M] (mk : O → M) (hmk : ∀ a b, mk a = mk b → a = b)
    (cfg : List (Indexer Id Res L)) (bk : Nat) (hnd : (cfg.map (·.id)).Nodup)
    (evs : List (Event Id Res L K V O)) (s : KState Id K V O M)
    (h : runKeyed mk cfg bk KState.init evs = some s) (c : Indexer Id Res L) (hc : c ∈ cfg) (o : O) :
    (∀ k, (s.ixs c.id).val k o = groupBy (fun o => (refRun cfg bk c o RefSt.init evs).contrib) k o) ∧
    s.mem (mk o) c.id = (refRun cfg bk c o RefSt.init evs).excl := by
  have hv := keyed_follows mk hmk cfg bk evs
  rw [h] at hv
  simp only [Option.map] at hv
  exact ⟨fun k => mirror cfg bk hnd evs (s.view mk) hv.symm c hc k o,
         mirror_exclusions cfg bk hnd evs (s.view mk) hv.symm c hc o⟩

/-- every state reached by `run` satisfies the per-index invariant (used by the table below) -/
theorem invAll_of_run (cfg : List (Indexer Id Res L)) (bk : Nat) (hnd : (cfg.map (·.id)).Nodup)
    (evs : List (Event Id Res L K V O)) (s : State Id K V O)
    (h : run cfg bk State.init evs = some s) : s.InvAll := by
  obtain ⟨s', h', hi, _⟩ := mirror_gen cfg bk hnd evs State.init _ State.invAll_init (link_init cfg)
  rw [h] at h'; cases h'
  exact hi

/-- **The other read-only methods agree with the content.** What a handler's `key in index`,
    `len(index)`, `bool(index)` and `for key in index` see is the key set of `Index.__items`; after any
    history, a key is present there exactly when some object's latest documented contribution has a
    value under it (`Store`s are never left empty, `no_empty_collections`, and hold exactly the
    reference's values, `mirror`). So `key in index` can be used as "does any live, matching, not
    excluded object map to this key". (The real `__contains__`/`__len__`/`__bool__` of `Index` and
    `Store` are compared with the documented reference by the Python oracle after every event.) -/
theorem key_present_iff (cfg : List (Indexer Id Res L)) (bk : Nat) (hnd : (cfg.map (·.id)).Nodup)
    (evs : List (Event Id Res L K V O)) (s : State Id K V O)
    (h : run cfg bk State.init evs = some s) (c : Indexer Id Res L) (hc : c ∈ cfg) (k : Option K) :
    (aget k (s.ixs c.id).items).isSome ↔
      ∃ o, (groupBy (fun o => (refRun cfg bk c o RefSt.init evs).contrib) k o).isSome := by
  have hi := invAll_of_run cfg bk hnd evs s h
  constructor
  · intro hk
    cases hst : aget k (s.ixs c.id).items with
    | none => simp [hst] at hk
    | some st =>
      cases st with
      | nil => exact absurd rfl ((hi c.id).storeNe k [] hst)
      | cons p rest =>
        refine ⟨p.1, ?_⟩
        rw [← mirror cfg bk hnd evs s h c hc k p.1]
        simp [Index.val, hst, aget]
  · rintro ⟨o, ho⟩
    rw [← mirror cfg bk hnd evs s h c hc k o] at ho
    cases hst : aget k (s.ixs c.id).items with
    | none => simp [Index.val, hst] at ho
    | some st => simp

/-! #### the keep/remove table, one processed event at a time -/

section Table
variable (cfg : List (Indexer Id Res L)) (bk : Nat) (hnd : (cfg.map (·.id)).Nodup)
  (s s' : State Id K V O) (e : Event Id Res L K V O) (hi : s.InvAll)
  (hs : step cfg bk s e = some s') (c : Indexer Id Res L) (hc : c ∈ cfg)
include hnd hi hs hc

/-- **Frame**: an event touches the index entries of its own object only. This is what justifies
    modelling the concurrent per-object workers as one sequence of events: index updates of
    different objects commute. -/
theorem others_untouched (k : Option K) (o : O) (ho : o ≠ e.obj) :
    (s'.ixs c.id).val k o = (s.ixs c.id).val k o := by
  rw [view_of_step cfg bk hnd s s' e hi hs c hc, view_other _ _ _ _ _ ho]

/-- `DELETED`: the object's values are removed (when its kind is indexed at all). -/
theorem deleted_discards (hk : cfg.any (fun c' => decide (c'.res = e.res)) = true)
    (hd : e.deleted = true) (k : Option K) : (s'.ixs c.id).val k e.obj = none := by
  rw [view_of_step cfg bk hnd s s' e hi hs c hc]
  simp [actOf, hk, hd, Act.view]

/-- filter (or kind) mismatch: the object's values are removed. -/
theorem mismatch_discards (hk : cfg.any (fun c' => decide (c'.res = e.res)) = true)
    (hm : c.selects e = false) (k : Option K) : (s'.ixs c.id).val k e.obj = none := by
  rw [view_of_step cfg bk hnd s s' e hi hs c hc]
  by_cases hd : e.deleted = true <;> simp [actOf, hk, hd, invoked, hm, Act.view]

/-- excluded (failed permanently, or failed temporarily and the delay has not passed):
    the function is not called and the object stays out of the index. -/
theorem excluded_stays_out (hk : cfg.any (fun c' => decide (c'.res = e.res)) = true)
    (hx : (hOf s e c).awake e.t = false) (k : Option K) : (s'.ixs c.id).val k e.obj = none := by
  rw [view_of_step cfg bk hnd s s' e hi hs c hc]
  by_cases hd : e.deleted = true <;> simp [actOf, hk, hd, invoked, hx, Act.view]

/-- a `None` result keeps the existing values (budget of `retries=`/`timeout=` not used up) -/
theorem none_keeps (hv : invoked s e c = true) (hd : e.deleted = false)
    (hl : c.exhausted (hOf s e c) e.t = false)
    (hr : e.script c.id = .none) (k : Option K) :
    (s'.ixs c.id).val k e.obj = (s.ixs c.id).val k e.obj := by
  rw [view_of_step cfg bk hnd s s' e hi hs c hc]
  unfold actOf execOne
  by_cases hk : cfg.any (fun c' => decide (c'.res = e.res)) = true <;>
    simp [hk, hd, hv, hr, hl, Act.view]

/-- an arbitrary exception under `errors=IGNORED` (the default) keeps the existing values -/
theorem ignored_error_keeps (hv : invoked s e c = true) (hd : e.deleted = false)
    (hl : c.exhausted (hOf s e c) e.t = false)
    (hr : e.script c.id = .otherErr) (hmode : c.errors = none ∨ c.errors = some .ignored) (k : Option K) :
    (s'.ixs c.id).val k e.obj = (s.ixs c.id).val k e.obj := by
  rw [view_of_step cfg bk hnd s s' e hi hs c hc]
  unfold actOf execOne
  by_cases hk : cfg.any (fun c' => decide (c'.res = e.res)) = true <;>
    rcases hmode with hm | hm <;> simp [hk, hd, hv, hr, hm, hl, Act.view]

/-- `TemporaryError`, `PermanentError`, and arbitrary exceptions under `errors=TEMPORARY/PERMANENT`
    remove the object's values -/
theorem error_discards (hk : cfg.any (fun c' => decide (c'.res = e.res)) = true)
    (hr : (∃ d, e.script c.id = .tempErr d) ∨ e.script c.id = .permErr ∨
          (e.script c.id = .otherErr ∧ (c.errors = some .temporary ∨ c.errors = some .permanent)))
    (k : Option K) : (s'.ixs c.id).val k e.obj = none := by
  rw [view_of_step cfg bk hnd s s' e hi hs c hc]
  have hx : (execOne c bk e.t (hOf s e c) (e.script c.id)).exception = true := by
    unfold execOne
    rcases hr with ⟨d, hr⟩ | hr | ⟨hr, hm | hm⟩ <;> rw [hr] <;> (try rw [hm]) <;>
      simp <;> (split <;> try rfl) <;> (split <;> rfl)
  by_cases hd : e.deleted = true
  · simp [actOf, hk, hd, Act.view]
  · by_cases hv : invoked s e c = true
    · simp [actOf, hk, hd, hv, hx, Act.view]
    · simp [actOf, hk, hd, hv, Act.view]

/-- a used-up budget (`retries=` attempts made, or `timeout=` seconds since the first failure of the
    series passed) removes the values without calling the function -/
theorem exhausted_discards (hk : cfg.any (fun c' => decide (c'.res = e.res)) = true)
    (hl : c.exhausted (hOf s e c) e.t = true) (k : Option K) : (s'.ixs c.id).val k e.obj = none := by
  rw [view_of_step cfg bk hnd s s' e hi hs c hc]
  by_cases hd : e.deleted = true
  · simp [actOf, hk, hd, Act.view]
  · by_cases hv : invoked s e c = true
    · simp [actOf, execOne, hk, hd, hv, hl, Act.view]
    · simp [actOf, hk, hd, hv, Act.view]

/-- a mapping result replaces the object's values by exactly its items -/
theorem dict_replaces (hv : invoked s e c = true) (hd : e.deleted = false)
    (hk : cfg.any (fun c' => decide (c'.res = e.res)) = true)
    (hl : c.exhausted (hOf s e c) e.t = false)
    (m : List (Option K × V)) (hr : e.script c.id = .dict m) (k : Option K) :
    (s'.ixs c.id).val k e.obj = lastval k m := by
  rw [view_of_step cfg bk hnd s s' e hi hs c hc]
  unfold actOf execOne
  simp [hk, hd, hv, hr, hl, Act.view]

/-- any other non-`None` result `v` is stored as `{None: v}` -/
theorem scalar_under_none_key (hv : invoked s e c = true) (hd : e.deleted = false)
    (hk : cfg.any (fun c' => decide (c'.res = e.res)) = true)
    (hl : c.exhausted (hOf s e c) e.t = false)
    (v : V) (hr : e.script c.id = .scalar v) (k : Option K) :
    (s'.ixs c.id).val k e.obj = if k = none then some v else none := by
  rw [view_of_step cfg bk hnd s s' e hi hs c hc]
  unfold actOf execOne
  simp only [hk, hd, hv, hr, hl, Act.view]
  by_cases hkn : k = none
  · simp [hkn, lastval]
  · simp [hkn, lastval]
    exact fun h => hkn h.symm

end Table
end Index

/-! ### non-vacuity of Part I: a concrete history with colliding keys, re-keying, `None`, errors -/
section Examples
open Kopf.C17

private def cfgEx : List (Indexer Nat Nat Nat) :=
  [⟨1, 0, some 7, some .temporary, some 2, some 3, none⟩, ⟨2, 0, none, none, none, none, none⟩,
   ⟨3, 0, none, some .temporary, none, some 1, some 4⟩]

private def ev (t : Nat) (o : Nat) (del : Bool) (lab : Option Nat) (s1 s2 : Script Nat Nat) :
    Event Nat Nat Nat Nat Nat Nat :=
  ⟨t, 0, o, del, lab, fun i => if i = 1 then s1 else if i = 2 then s2 else .otherErr⟩

private def hist : List (Event Nat Nat Nat Nat Nat Nat) :=
  [ ev 0 10 false (some 7) (.dict [(some 1, 100), (none, 101)]) (.scalar 5),
    ev 1 11 false (some 7) (.dict [(some 1, 110)]) .none,
    ev 2 10 false (some 7) .otherErr .otherErr,              -- idx 1: temporary mode → removed; idx 2: ignored → kept
    ev 3 10 false (some 7) (.dict [(some 2, 102)]) (.dict [(some 1, 55)]),  -- idx 1 still sleeping (backoff 3)
    ev 5 10 false (some 8) (.dict [(some 2, 103)]) .permErr, -- idx 1: label mismatch; idx 2: permanent
    ev 6 10 false (some 7) (.dict [(some 2, 104)]) (.scalar 6),             -- idx 2 excluded forever
    ev 7 11 true (some 7) .none .none ]

example : (cfgEx.map (·.id)).Nodup := by decide

-- the hypotheses of the table lemmas are met along this history, and the final views are as documented
example : (run cfgEx 60 (State.init : State Nat Nat Nat Nat) hist).map
    (fun s => ((s.ixs 1).val (some 2) 10, (s.ixs 1).val (some 1) 10, (s.ixs 1).val (some 1) 11,
               (s.ixs 2).val none 10, (s.ixs 2).val (some 1) 10))
    = some (some 104, none, none, none, none) := by decide

-- hypotheses of the table lemmas are satisfiable: after two events, the third one calls both
-- functions (`invoked`), and after it index 1 is excluded at t = 3 (`awake = false`, backoff 3)
example : (run cfgEx 60 (State.init : State Nat Nat Nat Nat) (hist.take 2)).map
    (fun s => (invoked s (ev 2 10 false (some 7) .otherErr .otherErr) ⟨2, 0, none, none, none, none, none⟩,
               invoked s (ev 2 10 false (some 7) .otherErr .otherErr) ⟨1, 0, some 7, some .temporary, some 2, some 3, none⟩))
    = some (true, true) := by decide

example : (run cfgEx 60 (State.init : State Nat Nat Nat Nat) (hist.take 3)).map
    (fun s => (hOf s (ev 3 10 false (some 7) .none .none) ⟨1, 0, some 7, some .temporary, some 2, some 3, none⟩).awake 3)
    = some false := by decide

example : (refRun cfgEx 60 ⟨2, 0, none, none, none, none, none⟩ 10 (RefSt.init : RefSt Nat Nat) hist).excl
    = some ⟨1, none, true, 5⟩ := by decide

-- `timeout=4`, `backoff=1`, `errors=TEMPORARY`: failures at t = 0 and 2 are retried; at t = 3 the
-- look-ahead (3 + 1 ≥ 4 seconds since the first failure) makes the failure final
example : (refRun cfgEx 60 ⟨3, 0, none, some .temporary, none, some 1, some 4⟩ 10 (RefSt.init : RefSt Nat Nat) hist).excl
    = some ⟨3, none, true, 0⟩ := by decide

example : (run cfgEx 60 (State.init : State Nat Nat Nat Nat) (hist.take 4)).map
    (fun s => (⟨3, 0, none, some .temporary, none, some 1, some 4⟩ : Indexer Nat Nat Nat).exhausted
                (hOf s (ev 5 10 false (some 8) .none .none) ⟨3, 0, none, some .temporary, none, some 1, some 4⟩) 5)
    = some true := by decide

/-! #### regression for the repaired finding C17-F1 (kopf 5068b98) -/

private def cW : Indexer Nat Nat Nat := ⟨1, 0, none, none, none, none, none⟩

private def evW (t : Nat) (v : J) : Event Nat Nat Nat Nat J Nat :=
  ⟨t, 0, 10, false, none, fun _ => .dict [(some 1, v)]⟩

/-- One object returns `{1: 1}` and then `{1: True}` from the same index function: the index holds
    `True`, the latest result (before 5068b98 `Store._replace` skipped the update because
    `1 != True` is `False`, and the index kept `1`). -/
example : (run [cW] 60 (State.init : State Nat Nat J Nat) [evW 0 (J.num 1), evW 1 (J.bool true)]).map
    (fun s => match (s.ixs 1).val (some 1) 10 with | some (J.bool true) => true | _ => false) = some true := rfl

/-! #### regression for the repaired finding C17-F5 (kopf 8c8cff5): objects without a uid -/

private def cS : Indexer Nat Nat Nat := ⟨1, 0, none, some .temporary, none, none, none⟩

private def evS (t o : Nat) (sc : Script Nat Nat) : Event Nat Nat Nat Nat Nat Nat :=
  ⟨t, 0, o, false, none, fun _ => sc⟩

/-- corpus/C17/F5_uidless_objects_share_memory.json: the index function of object 10 fails with a
    `TemporaryError(delay=60)`; one and two seconds later the unrelated object 11 arrives -/
private def histS : List (Event Nat Nat Nat Nat Nat Nat) :=
  [evS 0 10 (.tempErr (some 60)), evS 1 11 (.dict [(some 1, 1)]), evS 2 11 (.dict [(some 1, 2)])]

-- one memory per object (the code since 8c8cff5, whatever the injective key is): 11 is indexed
example : (run [cS] 60 (State.init : State Nat Nat Nat Nat) histS).map
    (fun s => ((s.ixs 1).val (some 1) 11, s.mem 10 1, s.mem 11 1))
    = some (some 2, some ⟨1, some 60, false, 0⟩, none) := by decide

example : (runKeyed (fun o : Nat => (o, "surrogate")) [cS] 60 (KState.init : KState Nat Nat Nat Nat (Nat × String)) histS).map
    (fun s => ((s.ixs 1).val (some 1) 11, s.mem (10, "surrogate") 1, s.mem (11, "surrogate") 1))
    = some (some 2, some ⟨1, some 60, false, 0⟩, none) := by decide

/-- **The old key** (`uid or ''`: ONE memory for all objects without a uid — a constant `mk`), kept
    as a named variant: object 10's sleeping retry record decides for object 11, whose index
    function is not called, and 11 never enters the index although the documented rules put its
    latest result there. So `mirror_keyed` is false without the injectivity of the key (finding
    C17-F5, repaired in kopf 8c8cff5; the D tie and the oracle replay this history on the real
    code). -/
theorem shared_memory_witness : ∃ (evs : List (Event Nat Nat Nat Nat Nat Nat)) (s : KState Nat Nat Nat Nat Unit),
    runKeyed (fun _ => ()) [cS] 60 KState.init evs = some s ∧
    (s.ixs cS.id).val (some 1) 11 = none ∧
    groupBy (fun o => (refRun [cS] 60 cS o (RefSt.init : RefSt Nat Nat) evs).contrib) (some 1) 11 = some 2 := by
  refine ⟨histS, _, rfl, ?_, ?_⟩ <;> decide

/-! #### the index key of objects without a uid (open finding C17-F6) -/

private def cK0 : Indexer Nat Nat Nat := ⟨1, 0, none, none, none, none, none⟩   -- the index of kind 0
private def cK1 : Indexer Nat Nat Nat := ⟨2, 1, none, none, none, none, none⟩   -- the index of kind 1

/-- **The model's object is the index key** (`OperatorIndexers.make_key`: namespace, name, uid). For
    objects with a uid that is the object. Two objects WITHOUT a uid of two kinds under one
    namespace/name are ONE key (10 below): the event of the second — a kind mismatch for the first
    index, `mismatch_discards` — removes the first one's values, although that object is live and
    matching (open finding C17-F6; corpus/C17/F6_*: the D tie holds, the oracle, which tells the two
    objects apart, reports it). `mirror` is about index keys; it is about objects wherever
    `make_key` is injective: on objects with uids. -/
theorem namesakes_share_entry_witness :
    (run [cK0, cK1] 60 (State.init : State Nat Nat Nat Nat)
      [ ⟨0, 0, 10, false, none, fun _ => .dict [(some 1, 100)]⟩,       -- kind 0, key 10: indexed under 1
        ⟨1, 1, 10, false, none, fun _ => .dict [(some 1, 200)]⟩ ]).map  -- kind 1, the SAME key
      (fun s => ((s.ixs 1).val (some 1) 10, (s.ixs 2).val (some 1) 10)) = some (none, some 200) := by
  decide

end Examples

/-! ### Part II — the start-up gate -/
namespace Gate
section
variable {R O : Type} [DecidableEq R] [DecidableEq O]

theorem inv_of_reach {s : GState R O} (h : Reach s) : Inv s := by
  obtain ⟨ls, hls⟩ := h
  exact run_inv ls inv_init hls

/-- **Gate safety (start-up kinds).** In every reachable state — i.e. for every interleaving of the
    orchestrator (any number of `spawn_missing_watchers` batches, also empty ones: a namespaced
    operator starts with an empty batch), the watchers' listings and deaths, and the workers — if
    some worker has reached the handlers (`process_resource_causes`: change handlers, daemons,
    timers), then every START-UP kind (every indexed kind spawned before anybody had seen the set
    on — `first`; in both real start-ups: every kind of the first non-empty batch) has delivered
    `LISTED`, and every object of those initial listings has been through `index_resource`.

    Full clause "… until EVERY indexed resource kind has been listed and indexed once", read for
    every kind spawned so far (`∀ reachable s, step s (.handle r o) = some s' → Ready s`), is FALSE
    of the code by design — see `late_kind_witness` (finding C17-F4). -/
theorem gate_safe {s : GState R O} (h : Reach s) (hh : s.handled = true) : Ready1 s := by
  have hi := inv_of_reach h
  cases he : s.everOn with
  | true => exact hi.b he
  | false => have := (hi.a he).1; simp [hh] at this

/-- At the very moment `wait_for(True)` returns to any waiter, *every* kind spawned so far (also
    those of later batches) is listed, no batch is in progress, and every object that arrived
    before its kind's LISTED is indexed. -/
theorem pass_safe {s s' : GState R O} (h : Reach s) (r : R) (o : O)
    (hp : step .none s (.pass r o) = some s') : Ready s := by
  have hi := inv_of_reach h
  simp only [step] at hp
  cases hw : s.workers (r, o) with
  | none => simp [hw] at hp
  | some w =>
    simp only [hw] at hp
    split at hp
    · rename_i hg; exact ready_of_isOn hi hg.2
    · cases hp

/-- … and at the moment a watcher stops gating its workers (`operator_indexed = None`). -/
theorem detach_safe {s s' : GState R O} (h : Reach s) (r : R) (o : O)
    (hp : step .none s (.check r o true) = some s') : Ready s := by
  have hi := inv_of_reach h
  simp only [step] at hp
  cases hsp : aget r s.spawned with
  | none => simp [hsp] at hp
  | some ind =>
    simp only [hsp] at hp
    split at hp
    · rename_i hg
      exact ready_of_isOn hi (by rw [← hg.2.1])
    · cases hp

/-- Workers that run ungated exist only after the start-up index was complete. -/
theorem ungated_only_after_ready {s : GState R O} (h : Reach s) (ro : R × O) (w : Worker)
    (hw : s.workers ro = some w) (hg : w.gated = false) : Ready1 s := by
  have hi := inv_of_reach h
  cases he : s.everOn with
  | true => exact hi.b he
  | false => have := ((hi.a he).2 ro w hw).1; simp [hg] at this

/- Full statement of "the gate can always open" (FALSE of the code and of the model, see
   `gate_stuck_dead_watcher_witness`):
     ∀ s, Reach s → ∃ ls s', run .none s ls = some s' ∧ Open s'
   This is a liveness statement BEYOND property C17 (whose gate clause is pure safety); it is kept
   here because a safety theorem about a gate that could never open would be hollow. -/
/-- **The gate can open — exactly when no toggle is stranded.** From a reachable state there is a
    continuation (the pending spawns, the toggles of watchers caught between `is_on()` and
    `make_toggle`, the outstanding LISTEDs, each started indexing cycle ending — returning or, since
    kopf 58a504d, failing: the toggle is dropped either way) after which the set is on and every
    worker is past the gate, IF AND ONLY IF the state is `Healthy`: no per-kind toggle has outlived
    its watcher and no per-object toggle its worker. Possibility, not fairness. The only way out of
    `Healthy` is a watcher task that ends (`die`) while its kind toggle, or a toggle of a worker
    that has not yet entered its cycle, is still in the set (AUDIT_B2 §D #8; not repaired in kopf:
    `proposals/fix-C17N1`). -/
theorem gate_can_open_iff {s : GState R O} (h : Reach s) :
    (∃ ls s', run .none s ls = some s' ∧ Open s') ↔ Healthy s := by
  constructor
  · rintro ⟨ls, s', hr, ho⟩
    cases hl : s.leaked with
    | cons x r =>
      have := stuck_of_leak (Or.inl (by simp [hl])) ls s' hr
      simp [ho.1] at this
    | nil =>
      cases hk : s.leakedK with
      | cons x r =>
        have := stuck_of_leak (Or.inr (by simp [hk])) ls s' hr
        simp [ho.1] at this
      | nil => exact ⟨hl, hk⟩
  · intro hh
    obtain ⟨ls0, hls0⟩ := h
    exact can_open_aux (mu s) s (Nat.le_refl _) (run_inv ls0 inv_init hls0)
      (PInv.ofU (run_pinvU ls0 inv_init pinvU_init hls0) hh)

/-- **A stranded toggle closes the gate for good**: once a per-object toggle has leaked (its worker
    exited without `drop_toggle`) or a per-kind toggle has (its watcher ended before `LISTED`), the
    set is never on again, on any continuation. (Observation beyond the property; proposal
    `fix-C17N1`.) -/
theorem gate_stuck_of_leak {s : GState R O} (hl : s.leaked ≠ [] ∨ s.leakedK ≠ []) (ls : List (Label R O))
    (s' : GState R O) (h : run .none s ls = some s') : s'.isOn = false :=
  stuck_of_leak hl ls s' h

end

/-! #### non-vacuity: both real start-ups, later batches, watcher death; broken variants -/

/-- CLUSTER-WIDE start-up (one batch): two indexed kinds and one plain kind; objects 7, 8 of kind 1
    and 9 of kind 2; staggered LISTED; a late toggle re-closes the gate; then a second batch with
    kind 4 while the detached watcher of kind 1 keeps handling -/
private def goodTrace : List (Label Nat Nat) :=
  [ .spawnBegin [(1, true), (2, true), (3, false)], .spawn 1, .check 1 7 false, .arrive 1 7 true true,
    .spawn 2, .listed 1, .spawn 3, .spawnEnd, .index 1 7, .drop 1 7, .check 3 5 false, .arrive 3 5 true false,
    .check 2 9 false, .arrive 2 9 true true, .index 3 5, .drop 3 5, .index 2 9, .listed 2,
    .check 2 6 false,                                 -- a late object of kind 2: sees the set off …
    .drop 2 9, .pass 1 7, .handle 1 7, .pass 3 5,      -- … the gate opens meanwhile, handlers start …
    .arrive 2 6 true true,                            -- … and only now is its toggle added (closes again)
    .check 1 4 false, .arrive 1 4 true true, .index 1 4, .drop 1 4,
    .index 2 6, .drop 2 6, .pass 1 4,
    .check 1 8 true, .arrive 1 8 false false, .index 1 8, .skip 1 8, .handle 1 8,
    .finish 1 7, .again 1 7, .index 1 7, .drop 1 7, .pass 1 7, .handle 1 7, .finish 1 7,
    .spawnBegin [(4, true)], .spawn 4,                -- a kind discovered later: a second batch
    .finish 1 8, .again 1 8, .index 1 8, .skip 1 8, .handle 1 8,   -- the detached watcher's worker goes on
    .check 2 3 false, .arrive 2 3 true true, .index 2 3, .drop 2 3, -- kind 2 (still gating) waits for kind 4
    .spawnEnd, .check 4 1 false, .arrive 4 1 true true, .listed 4, .index 4 1, .drop 4 1, .pass 2 3, .pass 4 1 ]

example : (run .none GState.init goodTrace).map (fun s => (s.handled, s.first, readyB s, ready1B s, healthyB s))
    = some (true, [1, 2], true, true, true) := by decide

/-- NAMESPACED start-up: the orchestrator's first batch is EMPTY (no namespaces known yet), the
    kinds — (resource, namespace) pairs 11, 12, 21 — come with the second one. `first` is exactly
    these kinds (not `[]`), so `gate_safe` says what the property asks. -/
private def nsTrace : List (Label Nat Nat) :=
  [ .spawnBegin [], .spawnEnd,
    .spawnBegin [(11, true), (12, true), (21, true)], .spawn 11, .check 11 7 false, .arrive 11 7 true true,
    .listed 11, .index 11 7, .drop 11 7, .spawn 12, .spawn 21, .spawnEnd,
    .listed 21, .check 12 9 false, .arrive 12 9 true true, .index 12 9, .listed 12, .drop 12 9,
    .pass 11 7, .handle 11 7, .pass 12 9, .handle 12 9 ]

example : (run .none GState.init nsTrace).map (fun s => (s.handled, s.first, ready1B s))
    = some (true, [11, 12, 21], true) := by decide

/-- before the last LISTED of the namespaced start-up nobody can pass -/
example : (run .none GState.init (nsTrace.take 16 ++ [.drop 12 9, .pass 11 7]) : Option (GState Nat Nat)).isNone = true := by
  decide

/-- **By design (finding C17-F4): a kind discovered after the gate was seen open is not awaited.**
    Reachable: handlers of kind 1 (detached watcher) start while the later kind 4 is spawned, its
    toggle in the set, its listing not delivered — `Ready` (every kind spawned so far is listed) is
    false at that `handle`. So the unrestricted clause is false of the code; `gate_safe` is the
    clause for the start-up kinds. -/
theorem late_kind_witness : ∃ (ls : List (Label Nat Nat)) (s s' : GState Nat Nat),
    run .none GState.init ls = some s ∧ step .none s (.handle 1 8) = some s' ∧
    aget 4 s.spawned = some true ∧ 4 ∉ s.listed ∧ ¬ Ready s := by
  refine ⟨goodTrace.take 49, _, _, rfl, rfl, by decide, by decide, ?_⟩
  intro h
  have := h.2.2.2.1 4 (by decide)
  revert this
  decide

-- `Healthy` holds in the middle of a start-up (gate closed, toggles held by live workers)
example : (run .none GState.init (nsTrace.take 15)).map (fun s => (healthyB s, s.isOn)) = some (true, false) := by
  decide

-- REGRESSION for kopf 58a504d (was the stuck state of the withdrawn C17-F3): the indexing cycle of
-- a listed object fails (a `when=` filter raises), its worker idles out — the toggle was dropped in
-- the `finally:`, the set is on, the other object's handlers start, nothing leaked
example : (run .none GState.init
    [ .spawnBegin [(1, true)], .spawn 1, .spawnEnd, .check 1 7 false, .arrive 1 7 true true,
      .check 1 8 false, .arrive 1 8 true true, .listed 1, .indexFail 1 7, .exit 1 7,
      .index 1 8, .drop 1 8, .pass 1 8, .handle 1 8 ] : Option (GState Nat Nat)).map
    (fun s => (healthyB s, s.isOn, s.handled, ready1B s)) = some (true, true, true, true) := by decide

/-- the gate refuses to let a waiter pass while a kind is still listing -/
example : (run .none GState.init
    [ .spawnBegin [(1, true), (2, true)], .spawn 1, .spawn 2, .spawnEnd, .listed 1,
      .check 2 9 false, .arrive 2 9 true true, .index 2 9, .drop 2 9, .pass 2 9 ] : Option (GState Nat Nat)).isNone = true := by
  decide

/-! The next three are about MUTATED variants of the transition system (`Bug`), not about the code:
    they show that `gate_safe` is not vacuous and that each mechanism is load-bearing — also with
    the namespaced start-up's empty batch in front. -/

/-- Without the orchestration blocker a worker reaches the handlers while kind 2 has no toggle yet. -/
theorem noBlocker_witness : ∃ (ls : List (Label Nat Nat)) (s : GState Nat Nat),
    run .noBlocker GState.init ls = some s ∧ s.handled = true ∧ ¬ Ready1 s := by
  refine ⟨[ .spawnBegin [], .spawnEnd,
            .spawnBegin [(1, true), (2, true)], .spawn 1, .check 1 7 false, .arrive 1 7 true true, .listed 1,
            .index 1 7, .drop 1 7, .pass 1 7, .handle 1 7, .spawn 2 ], _, rfl, by decide, ?_⟩
  intro h
  have := h.1 2 (by decide)
  revert this
  decide

/-- If the per-kind toggle is not held until LISTED, handlers start before the kind is listed
    (namespaced start-up: empty batch first). -/
theorem noKindToggle_witness : ∃ (ls : List (Label Nat Nat)) (s : GState Nat Nat),
    run .noKindToggle GState.init ls = some s ∧ s.handled = true ∧ ¬ Ready1 s := by
  refine ⟨[ .spawnBegin [], .spawnEnd, .spawnBegin [(1, true), (2, true)], .spawn 1, .spawn 2, .spawnEnd,
            .check 1 7 true, .arrive 1 7 false false, .index 1 7, .skip 1 7, .handle 1 7 ], _, rfl, by decide, ?_⟩
  intro h
  have := h.1 2 (by decide)
  revert this
  decide

/-- If the per-object toggle is dropped before `index_resource`, handlers of another object start
    while a listed object is not indexed yet. -/
theorem dropBeforeIndex_witness : ∃ (ls : List (Label Nat Nat)) (s : GState Nat Nat),
    run .dropBeforeIndex GState.init ls = some s ∧ s.handled = true ∧ ¬ Ready1 s := by
  refine ⟨[ .spawnBegin [(1, true)], .spawn 1, .spawnEnd, .check 1 7 false, .arrive 1 7 true true,
            .check 1 8 false, .arrive 1 8 true true,
            .listed 1, .drop 1 7, .index 1 8, .drop 1 8, .pass 1 8, .handle 1 8 ], _, rfl, by decide, ?_⟩
  intro h
  have := h.2 (1, 7) (by decide) (by decide)
  revert this
  decide

/-- **The dying watcher** (observation beyond the property, AUDIT_B2 §D #8; proposal
    `proposals/fix-C17N1`): the watcher of an indexed kind ends before its LISTED (its first LIST
    answered 404, or its namespace was deleted during the listing) — its kind toggle stays in the
    set; even when the kind is spawned again and lists fine, the set is never on again. -/
theorem gate_stuck_dead_watcher_witness : ∃ s : GState Nat Nat, Reach s ∧ s.leakedK ≠ [] ∧
    ∀ ls s', run .none s ls = some s' → s'.isOn = false := by
  refine ⟨_, ⟨[ .spawnBegin [(1, true), (2, true)], .spawn 1, .spawn 2, .spawnEnd, .listed 1, .die 2,
                .spawnBegin [(2, true)], .spawn 2, .spawnEnd, .listed 2 ], rfl⟩, by decide, ?_⟩
  intro ls s' h
  exact stuck_of_leak (Or.inr (by decide)) ls s' h

end Gate
namespace Listing

/-- **LISTED means listed**: for every interleaving of pauses/un-pausings with the rounds of one
    watch-stream (LIST answered with any number of items, failed, or abandoned because of a pause),
    every `Bookmark.LISTED` the stream has yielded was yielded in a round whose LIST request had been
    ANSWERED (`a = some n`), after exactly all `n` items of that answer (`y = n`). This is what
    `queueing.watcher` takes LISTED for when it drops the kind's readiness toggle (the gate's label
    `listed r`): "listed … once" in the property's sense. -/
theorem listed_means_listed {s : LState} (h : Reach s) (a : Option Nat) (y : Nat)
    (hm : Out.listed a y ∈ s.out) : a = some y := by
  obtain ⟨ls, hr⟩ := h
  exact (inv_run inv_init hr).1 _ hm

/-- An abandoned LIST request ends its round without a word: nothing is yielded (in particular no
    LISTED), and the stream is back between rounds, where `streaming_block` holds it while paused. -/
theorem abandoned_round_is_silent {s s' : LState} (h : step .none s .abandon = some s') :
    s'.out = s.out ∧ s'.phase = .blocked ∧ s'.paused = true := by
  simp only [step] at h
  split at h
  · rename_i hg
    split at h
    · rename_i hb; cases hb
    · simp only [Option.some.injEq] at h; subst h; exact ⟨rfl, rfl, hg.2⟩
  · cases h

/-- "Nothing must be listed while paused": no LIST request is ever started while the operator is paused. -/
theorem nothing_listed_while_paused {s : LState} (h : Reach s) : s.startedPaused = false := by
  obtain ⟨ls, hr⟩ := h
  exact (inv_run inv_init hr).2.2.2

/-- non-vacuity: a start-up whose first LIST is abandoned because of a pause; after the un-pausing the
    kind is listed afresh (2 items) and only then LISTED is yielded. -/
example : (run .none LState.init
    [.begin, .pause, .abandon, .unpause, .begin, .answer 2, .yieldItem, .yieldItem, .yieldListed, .event]).map (·.out)
    = some [.item, .item, .listed (some 2) 2, .event] := by decide

/-- non-vacuity: the answer and the pause at the same moment — a finished listing is not abandoned -/
example : (run .none LState.init [.begin, .pause, .answer 0, .yieldListed, .endWatch]).map (fun s => (s.out, s.phase))
    = some ([.listed (some 0) 0], .blocked) := by decide

/-- non-vacuity of the guards: `abandon` needs a pause; LISTED needs all items out; no round begins while paused -/
example : (run .none LState.init [.begin, .abandon]).isNone = true := by decide
example : (run .none LState.init [.begin, .answer 1, .yieldListed]).isNone = true := by decide
example : (run .none LState.init [.pause, .begin]).isNone = true := by decide

/-- The variant in which an abandoned LIST falls through to `yield Bookmark.LISTED` (the pause-helper
    returning an empty listing instead of ending the round) violates `listed_means_listed`: LISTED for a
    kind that was never listed. -/
theorem abandonedReportsListed_witness : ∃ (ls : List Label) (s : LState),
    run .abandonedReportsListed LState.init ls = some s ∧ Out.listed none 0 ∈ s.out :=
  ⟨[.begin, .pause, .abandon], _, rfl, by decide⟩

/-- The variant that yields LISTED before the items of the answer violates it as well. -/
theorem listedBeforeItems_witness : ∃ (ls : List Label) (s : LState),
    run .listedBeforeItems LState.init ls = some s ∧ Out.listed (some 2) 0 ∈ s.out :=
  ⟨[.begin, .answer 2, .yieldListed], _, rfl, by decide⟩

/-- The variant whose `streaming_block` does not hold the round lists while paused. -/
theorem listWhilePaused_witness : ∃ (ls : List Label) (s : LState),
    run .listWhilePaused LState.init ls = some s ∧ s.startedPaused = true :=
  ⟨[.pause, .begin], _, rfl, rfl⟩

end Listing
end Kopf.C17
