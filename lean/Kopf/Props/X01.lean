/-
  X01 — the composed reactor of one object (C03's loop + C07's barrier + versions and views in flight).
  Property theorems and non-vacuity examples only. Model: Kopf/Model/X01_Reactor.lean (the glue is listed there).
-/
import Kopf.Lemmas.X01_Refine
import Kopf.Props.C03
namespace Kopf.X01
open Kopf
variable {E : Type} [DecidableEq E]

/-! ## 1. In time, the composed step IS C03's turn -/

/-- the clock never runs backwards: C03's turn with its `now` not before the turn began -/
def fwd (s s' : C03.State E) : C03.State E := { s' with now := if s'.now < s.now then s.now else s'.now }

/-- **reactor_refines_loop.** When every event is delivered in time — the one event in flight shows the object as the
    server holds it, the worker expects nothing or exactly that version, nothing is carried (`InTime`) — one
    iteration of the composed worker (C07's `arrive`/`process`/`feedback` around C03's turn on the view, version
    bump, echo, write-back) IS C03's `loopStep` on the object/memory component, and leaves the system in time again.
    (`fwd`: the processor cannot return before it began; the identity when C03's turn does not set the clock back.) -/
theorem reactor_refines_loop (T : Int) (env : C03.Env) (r : RState E) (h : InTime r) :
    InTime (work T env 0 r) ∧ absS (work T env 0 r) = fwd (absS r) (C03.loopStep env (absS r)) := by
  obtain ⟨hc, hq | ⟨ev, hq, hv, hs, hw⟩⟩ := h
  · have hwk : work T env 0 r = r := by simp [work, hq]
    rw [hwk]
    refine ⟨⟨hc, Or.inl hq⟩, ?_⟩
    have hp : (absS r).pending = false := by simp [absS, hq]
    rw [C03.loopStep_quiescent env _ hp]
    simp [fwd]
  · have habs : absS r = viewOf r r.srv (if r.clock < ev.at_ then ev.at_ else r.clock) := by
      simp [absS, hq, viewOf]
    obtain ⟨h1, h2, h3, h4, h5, h6, h7, h8, h9⟩ := work_fresh T env r ev hc hw hq hv hs _ rfl _ rfl _ rfl
    rw [habs]
    generalize hsv' : C03.loopStep env (viewOf r r.srv (if r.clock < ev.at_ then ev.at_ else r.clock)) = sv' at *
    constructor
    · refine ⟨h6, ?_⟩
      cases hp : sv'.pending
      · left; rw [h2, hp]; rfl
      · right
        obtain ⟨hrv, hw'⟩ := h9 hp
        refine ⟨_, by rw [h2, hp]; rfl, ?_, ?_, ?_⟩
        · exact hrv.symm
        · exact h1.symm
        · rw [hrv]; exact hw'
    · simp only [absS, viewOf, h1, h2, h3, h4, h5, h7, h8, fwd]
      cases hp : sv'.pending <;> simp [objOf]
      all_goals first | rfl | omega | (split <;> split <;> omega)

/-- GUARD of the lifted theorems: a turn of C03's loop does not set the clock back. (True of every well-formed
    environment — latencies ≥ 0, the delays of a pass are ≥ 0: `C03.delays_nonneg` — but not proved here.) -/
def ClockFwd (env : C03.Env) (E : Type) [DecidableEq E] : Prop := ∀ s : C03.State E, s.now ≤ (C03.loopStep env s).now

theorem fwd_id (s s' : C03.State E) (h : s.now ≤ s'.now) : fwd s s' = s' := by
  unfold fwd
  have : ¬ s'.now < s.now := Int.not_lt.mpr h
  simp [this]

/-- … and so do its iterates: with every event delivered in time, `n` iterations of the composed worker are `n`
    turns of C03's loop on the object/memory component. EVERY theorem of C03 about `iter` lifts through this. -/
theorem reactor_iter_refines (T : Int) (env : C03.Env) (hf : ClockFwd env E) :
    ∀ (n : Nat) (r : RState E), InTime r →
      InTime (witer T env n r) ∧ absS (witer T env n r) = C03.iter env n (absS r) := by
  intro n
  induction n with
  | zero => intro r h; exact ⟨h, rfl⟩
  | succ n ih =>
    intro r h
    obtain ⟨h1, h2⟩ := reactor_refines_loop T env r h
    obtain ⟨h3, h4⟩ := ih _ h1
    refine ⟨h3, ?_⟩
    show absS (witer T env n (work T env 0 r)) = C03.iter env n (C03.loopStep env (absS r))
    rw [h4, h2, fwd_id _ _ (hf _)]

/-- C03's CONVERGENCE (`converges_finitely_failing`) lifted to the composed system: in time, with handlers whose scripts
    have finitely many failures, the composed worker empties its queue; the object, if it still exists then, carries no
    progress record (if the framework sees it) and its last-handled state is its essence (seen, not in deletion). -/
theorem reactor_converges (T : Int) (env : C03.Env) (wf : C03.WF env) (hfin : C03.FinitelyFailing env)
    (hf : ClockFwd env E) (r : RState E) (hin : InTime r) (hu : C03.Uniform env (absS r))
    (hq : r.queue ≠ []) (hg : r.srv.gone = false) :
    ∃ m, (witer T env m r).queue = [] ∧
      (r.srv.marked = false → (witer T env m r).srv.gone = false) ∧
      ((witer T env m r).srv.gone = false →
        (env.prematch = true → ∀ i ∈ env.owned, (witer T env m r).srv.P i = none) ∧
        (env.prematch = true → r.srv.marked = false → (witer T env m r).srv.base = some r.srv.ess)) := by
  have hp : (absS r).pending = true := by
    cases h : r.queue with
    | nil => exact absurd h hq
    | cons a l => simp [absS, h]
  obtain ⟨m, h1, h2, h3⟩ := C03.converges_finitely_failing env wf hfin (absS r) hu hp hg
  obtain ⟨_, he⟩ := reactor_iter_refines T env hf m r hin
  rw [← he] at h1 h2 h3
  refine ⟨m, ?_, h2, fun hgq => ⟨(h3 hgq).1, (h3 hgq).2.1⟩⟩
  have : (!(witer T env m r).queue.isEmpty) = false := h1
  cases hq' : (witer T env m r).queue with
  | nil => rfl
  | cons a l => rw [hq'] at this; simp at this

-- non-vacuity: a freshly created object is in time; its first iteration is C03's first turn
example (e : E) (t : Int) : InTime (created e t) :=
  ⟨rfl, Or.inr ⟨_, rfl, rfl, rfl, Or.inl rfl⟩⟩

/-! ## 2. C07 in composition (versions internal) — PARTIAL: the step, not yet the invariant over histories

  FULL STATEMENT (not proved here): for every `acts : List (Act E)` and every `run ∈ (runActs T idle env (created e t) acts).ran`:
  `(∀ p ∈ run.owns, p.1 ≤ run.ver) ∨ (∃ p tp rest, run.owns = (p, tp) :: rest ∧ tp + T ≤ run.t)` — whenever the changing stage
  runs on view version `v`, `v` is not below any own write issued before, or the consistency timeout has elapsed since the last
  one. The ghosts it is stated over (`RState.owns`, `RState.seen`, `RState.ran`) are in the model and driven by the tie. Planned
  invariant (not carried out): queue versions strictly increasing, above `seen`, at most `rv`; `owns` decreasing, at most `rv`,
  times at most `clock`; `w.expected = some e → e.n = head of owns`; cover: head of `owns` is `≤ seen`, or armed with
  `tp + T ≤ deadline`, or `tp + T ≤ clock`.
  PROVED: the one step the invariant turns on — an iteration on a view that is NOT the awaited version runs the changing stage
  only once the deadline is reached (C07's `process_handlers_deadline` through the composed `work`, whatever turn of C03 follows). -/

/-- **no_stale_handling_step_partial.** The worker awaits version `e` till `dl`; it dequeues another version. If this
    iteration of the composed step logs a run of the changing stage, that run is on the dequeued version and not before `dl`. -/
theorem no_stale_handling_step_partial (T : Int) (env : C03.Env) (d : Nat) (r : RState E) (ev : Ev E) (rest : List (Ev E))
    (e : C07.Ver) (dl : Int) (run : Ran)
    (hq : r.queue = ev :: rest) (he : r.w.expected = some e) (hd : r.w.deadline = some dl)
    (hne : e ≠ ⟨ev.ver, false⟩)
    (hran : (work T env d r).ran = run :: r.ran) :
    run.ver = ev.ver ∧ dl ≤ run.t := by
  have harr : C07.arrive r.w (some ⟨ev.ver, false⟩) = r.w := by
    unfold C07.arrive; rw [he]
    have : ¬ (some (⟨ev.ver, false⟩ : C07.Ver) = some e) := fun h => hne (Option.some.inj h).symm
    simp [this]
  simp only [work, hq, iter0_ver, harr, hd] at hran
  generalize hh : (C07.process (some dl) (iter0 env r ev rest (if r.clock < ev.at_ then ev.at_ else r.clock))).handlers = h at hran
  cases h with
  | none =>
    simp only at hran
    have := congrArg List.length hran
    simp at this
  | some t =>
    simp only at hran
    have h1 := (List.cons.inj hran).1
    rw [← h1]
    exact ⟨rfl, C07.process_handlers_deadline hh⟩


-- non-vacuity: the worker of `exStale` awaits version 2 till 100 and dequeues version 1 at 10 with nothing else in flight: the
-- barrier sleeps the deadline out and the changing stage runs at 100, not before
def exStale : RState Nat :=
  { ofLoop C03.stateN 1 with rv := 2, w := { expected := some ⟨2, false⟩, deadline := some 100 }, clock := 10 }
def exEnv : C03.Env :=
  { owned := ["c0"], subs := [], sel := fun c => if c.reason = .create then ["c0"] else [], initialH := fun _ => false,
    boundH := fun _ _ => true, limits := fun _ => ⟨none, none⟩, lifecycle := .asap, exec := fun _ _ => C03.okOutcome,
    prematch := true, changeReq := false, foreignFins := false, constPatch := false, lat := 1, rtt := 1, cap := 38400 }
example : ((work 64 exEnv 0 exStale).ran.map (fun x => (x.ver, x.t))) = [(1, 100)] := by decide

end Kopf.X01
