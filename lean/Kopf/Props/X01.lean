/-
  X01 — the composed reactor of one object (C03's loop + C07's barrier + versions and views in flight).
  Property theorems and non-vacuity examples only. Model: Kopf/Model/X01_Reactor.lean (the glue is listed there).
-/
import Kopf.Lemmas.X01_Refine
import Kopf.Lemmas.X01_Clock
import Kopf.Lemmas.X01_Barrier
import Kopf.Props.C03
namespace Kopf.X01
open Kopf
variable {E : Type} [DecidableEq E]

/-! ## 1. In time, the composed step IS C03's turn -/

/-- the clock never runs backwards: C03's turn with its `now` not before the turn began -/
def fwd (s s' : C03.State E) : C03.State E := { s' with now := if s'.now < s.now then s.now else s'.now }

/-- **reactor_refines_loop.** When every event is delivered in time — the one event in flight shows the object as the
    server holds it, the worker expects nothing or exactly that version, nothing is carried (`InTime`) — one
    iteration of the composed worker (C07's `arrive`/`process`/`feedback` around C03's turn on the view, version
    bump, echo, write-back) IS C03's `loopStep` on the object/memory component, and leaves the system in time again.
    (`fwd`: the processor cannot return before it began; the identity when C03's turn does not set the clock back.) -/
theorem reactor_refines_loop (T : Int) (env : C03.Env) (r : RState E) (h : InTime r) :
    InTime (work T env 0 r) ∧ absS (work T env 0 r) = fwd (absS r) (C03.loopStep env (absS r)) := by
  obtain ⟨hc, hq | ⟨ev, hq, hv, hs, hw⟩⟩ := h
  · have hwk : work T env 0 r = r := by simp [work, hq]
    rw [hwk]
    refine ⟨⟨hc, Or.inl hq⟩, ?_⟩
    have hp : (absS r).pending = false := by simp [absS, hq]
    rw [C03.loopStep_quiescent env _ hp]
    simp [fwd]
  · have habs : absS r = viewOf r r.srv (if r.clock < ev.at_ then ev.at_ else r.clock) := by
      simp [absS, hq, viewOf]
    obtain ⟨h1, h2, h3, h4, h5, h6, h7, h8, h9⟩ := work_fresh T env r ev hc hw hq hv hs _ rfl _ rfl _ rfl
    rw [habs]
    generalize hsv' : C03.loopStep env (viewOf r r.srv (if r.clock < ev.at_ then ev.at_ else r.clock)) = sv' at *
    constructor
    · refine ⟨h6, ?_⟩
      cases hp : sv'.pending
      · left; rw [h2, hp]; rfl
      · right
        obtain ⟨hrv, hw'⟩ := h9 hp
        refine ⟨_, by rw [h2, hp]; rfl, ?_, ?_, ?_⟩
        · exact hrv.symm
        · exact h1.symm
        · rw [hrv]; exact hw'
    · simp only [absS, viewOf, h1, h2, h3, h4, h5, h7, h8, fwd]
      cases hp : sv'.pending <;> simp [objOfS]
      all_goals first | rfl | omega | (split <;> split <;> omega)

/-- A turn of C03's loop does not set the clock back. -/
def ClockFwd (env : C03.Env) (E : Type) [DecidableEq E] : Prop := ∀ s : C03.State E, s.now ≤ (C03.loopStep env s).now

/-- … which every well-formed environment satisfies (latencies ≥ 0, keepalive cap > 0; the delays of a pass are ≥ 0:
    `C03.delays_nonneg`): the lifted theorems below need no guard beyond `C03.WF`. -/
theorem clockFwd_of_wf (env : C03.Env) (wf : C03.WF env) : ClockFwd env E := fun s => loopStep_now_le env wf s

theorem fwd_id (s s' : C03.State E) (h : s.now ≤ s'.now) : fwd s s' = s' := by
  unfold fwd
  have : ¬ s'.now < s.now := Int.not_lt.mpr h
  simp [this]

/-- … and so do its iterates: with every event delivered in time, `n` iterations of the composed worker are `n`
    turns of C03's loop on the object/memory component. EVERY theorem of C03 about `iter` lifts through this. -/
theorem reactor_iter_refines (T : Int) (env : C03.Env) (wf : C03.WF env) :
    ∀ (n : Nat) (r : RState E), InTime r →
      InTime (witer T env n r) ∧ absS (witer T env n r) = C03.iter env n (absS r) := by
  intro n
  induction n with
  | zero => intro r h; exact ⟨h, rfl⟩
  | succ n ih =>
    intro r h
    obtain ⟨h1, h2⟩ := reactor_refines_loop T env r h
    obtain ⟨h3, h4⟩ := ih _ h1
    refine ⟨h3, ?_⟩
    show absS (witer T env n (work T env 0 r)) = C03.iter env n (C03.loopStep env (absS r))
    rw [h4, h2, fwd_id _ _ (loopStep_now_le env wf _)]

/-- C03's CONVERGENCE (`converges_finitely_failing`) lifted to the composed system: in time, with handlers whose scripts
    have finitely many failures, the composed worker empties its queue; the object, if it still exists then, carries no
    progress record (if the framework sees it) and its last-handled state is its essence (seen, not in deletion). -/
theorem reactor_converges (T : Int) (env : C03.Env) (wf : C03.WF env) (hfin : C03.FinitelyFailing env)
    (r : RState E) (hin : InTime r) (hu : C03.Uniform env (absS r))
    (hq : r.queue ≠ []) (hg : r.srv.gone = false) :
    ∃ m, (witer T env m r).queue = [] ∧
      (r.srv.marked = false → (witer T env m r).srv.gone = false) ∧
      ((witer T env m r).srv.gone = false →
        (env.prematch = true → ∀ i ∈ env.owned, (witer T env m r).srv.P i = none) ∧
        (env.prematch = true → r.srv.marked = false → (witer T env m r).srv.base = some r.srv.ess)) := by
  have hp : (absS r).pending = true := by
    cases h : r.queue with
    | nil => exact absurd h hq
    | cons a l => simp [absS, h]
  obtain ⟨m, h1, h2, h3⟩ := C03.converges_finitely_failing env wf hfin (absS r) hu hp hg
  obtain ⟨_, he⟩ := reactor_iter_refines T env wf m r hin
  rw [← he] at h1 h2 h3
  refine ⟨m, ?_, h2, fun hgq => ⟨(h3 hgq).1, (h3 hgq).2.1⟩⟩
  have : (!(witer T env m r).queue.isEmpty) = false := h1
  cases hq' : (witer T env m r).queue with
  | nil => rfl
  | cons a l => rw [hq'] at this; simp at this

-- non-vacuity: a freshly created object is in time; its first iteration is C03's first turn
example (e : E) (t : Int) : InTime (created e t) :=
  ⟨rfl, Or.inr ⟨_, rfl, rfl, rfl, Or.inl rfl⟩⟩

/-! ## 2. C07 in composition, the versions generated by the model: `no_stale_handling` over EVERY history

  `Good T run` (Lemmas/X01_Barrier): the view the changing stage ran on is not older than ANY own write issued before
  (`∀ p ∈ run.owns, p.1 ≤ run.ver`), or the consistency timeout has elapsed since the last one
  (`run.owns = (p, tp) :: _ ∧ tp + T ≤ run.t`). Invariant `Inv` (8 clauses: queue versions increasing, above everything dequeued, at
  most the counter; own writes decreasing, at most the counter, not after the clock; what the worker awaits is not below any own
  write; the last own write is covered — dequeued, or a deadline `≥ tp + T` is set, or `tp + T` is over; every logged run is good);
  preserved by `work` (through C07's `arrive_cases`, `process_handlers_deadline`, `process_handlers_ge_now` and `feedback`),
  by foreign writes and deletions, by `carry`, and by a retirement of the idle worker (C07's `idleTimeout_deadline`). -/

/-- **no_stale_handling.** For EVERY history of worker iterations, foreign writes, deletions, carried patches, late deliveries and
    worker retirements from any state satisfying the invariant: whenever the changing stage ran on view version `v`, `v` is not
    below the version of any own write issued before, or the consistency timeout has elapsed since the last own write. -/
theorem no_stale_handling (T idle : Int) (env : C03.Env) (r0 : RState E) (h0 : Inv T r0) (acts : List (Act E)) :
    ∀ run ∈ (runActs T idle env r0 acts).ran,
      (∀ p ∈ run.owns, p.1 ≤ run.ver) ∨ (∃ p tp rest, run.owns = (p, tp) :: rest ∧ tp + T ≤ run.t) :=
  (inv_runActs T idle env acts r0 h0).good

/-- … in particular from a freshly created object. -/
theorem no_stale_handling_created (T idle : Int) (env : C03.Env) (e : E) (t : Int) (acts : List (Act E)) :
    ∀ run ∈ (runActs T idle env (created e t) acts).ran,
      (∀ p ∈ run.owns, p.1 ≤ run.ver) ∨ (∃ p tp rest, run.owns = (p, tp) :: rest ∧ tp + T ≤ run.t) :=
  no_stale_handling T idle env _ (inv_ofLoop T _ 1 (by decide)) acts

/-- The one step the invariant turns on (kept from phase 1). The worker awaits version `e` till `dl`; it dequeues another version. If this
    iteration of the composed step logs a run of the changing stage, that run is on the dequeued version and not before `dl`. -/
theorem no_stale_handling_step_partial (T : Int) (env : C03.Env) (d : Nat) (r : RState E) (ev : Ev E) (rest : List (Ev E))
    (e : C07.Ver) (dl : Int) (run : Ran)
    (hq : r.queue = ev :: rest) (he : r.w.expected = some e) (hd : r.w.deadline = some dl)
    (hne : e ≠ ⟨ev.ver, false⟩)
    (hran : (work T env d r).ran = run :: r.ran) :
    run.ver = ev.ver ∧ dl ≤ run.t := by
  have harr : C07.arrive r.w (some ⟨ev.ver, false⟩) = r.w := by
    unfold C07.arrive; rw [he]
    have : ¬ (some (⟨ev.ver, false⟩ : C07.Ver) = some e) := fun h => hne (Option.some.inj h).symm
    simp [this]
  simp only [work, turn, patchedOf, hq, iter0_ver, harr, hd] at hran
  generalize hh : (C07.process (some dl) (iter0 env r ev rest (if r.clock < ev.at_ then ev.at_ else r.clock))).handlers = h at hran
  cases h with
  | none =>
    simp only at hran
    have := congrArg List.length hran
    simp at this
  | some t =>
    simp only at hran
    have h1 := (List.cons.inj hran).1
    rw [← h1]
    exact ⟨rfl, C07.process_handlers_deadline hh⟩


-- non-vacuity: the worker of `exStale` awaits version 2 till 100 and dequeues version 1 at 10 with nothing else in flight: the
-- barrier sleeps the deadline out and the changing stage runs at 100, not before
def exStale : RState Nat :=
  { ofLoop C03.stateN 1 with rv := 2, w := { expected := some ⟨2, false⟩, deadline := some 100 }, clock := 10 }
def exEnv : C03.Env :=
  { owned := ["c0"], subs := [], sel := fun c => if c.reason = .create then ["c0"] else [], initialH := fun _ => false,
    boundH := fun _ _ => true, limits := fun _ => ⟨none, none⟩, lifecycle := .asap, exec := fun _ _ => C03.okOutcome,
    prematch := true, changeReq := false, foreignFins := false, constPatch := false, lat := 1, rtt := 1, cap := 38400 }
example : ((work 64 exEnv 0 exStale).ran.map (fun x => (x.ver, x.t))) = [(1, 100)] := by decide

-- non-vacuity of `no_stale_handling`: T = 64, a history with a foreign write and a LATE echo. Somebody else writes (v2, event at 5)
-- while the ADDED event (v1) is being handled at 0: `c0` runs, the own write makes v3 at 1, its echo is 200 ticks late. The worker
-- dequeues v2 at 5 awaiting v3 till 65 — a view OLDER than its own write: the barrier sleeps the deadline out, the changing stage
-- runs on v2 at 65 (second disjunct: 1 + 64 ≤ 65) and writes v4 at 66. The late echo v3 is dequeued at 201 while v4 is awaited:
-- older than the own write v4, but 66 + 64 ≤ 201 (second disjunct). v4 at 202: not older than any own write (first disjunct).
def exHist : List (Act Nat) := [.foreign 7 5, .work 200, .work 0, .work 0, .work 0]
example : (runActs 64 64 exEnv (created 0 0) exHist).ran.map (fun x => (x.ver, x.t)) = [(4, 202), (3, 201), (2, 65), (1, 0)] := by
  decide
example : (runActs 64 64 exEnv (created 0 0) exHist).owns = [(4, 66), (3, 1)] := by decide

end Kopf.X01
