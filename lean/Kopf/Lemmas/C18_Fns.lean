/-
  C18 helper lemmas, part 6: what the two transformation functions (`finalizers.block_deletion`,
  `finalizers.allow_deletion`) do to the leaf function of a body — whenever they return.
-/
import Kopf.Lemmas.C18_Spec
namespace Kopf.C18
open Kopf Kopf.J
set_option linter.unusedSimpArgs false

def FP : List String := ["metadata", "finalizers"]

/-- the finalizer list as the leaf function shows it -/
def curFins (M : LeafMap) : List J :=
  match M FP with
  | some (.arr xs) => xs
  | _ => []

/-- `some (.arr [])`, as a Boolean test (there is no decidable equality on `J`) -/
def isEmptyArr : Option J → Bool
  | some (.arr []) => true
  | _ => false

/-- the two functions on leaf functions -/
def absFn : Fn → LeafMap → LeafMap
  | .addFinalizer f, M =>
      if (curFins M).any (isStr f) then M else setA M FP (.arr (curFins M ++ [.str f]))
  | .removeFinalizer f, M =>
      let M1 := if (curFins M).any (isStr f)
                then setA M FP (.arr ((curFins M).filter (fun x => !isStr f x))) else M
      if isEmptyArr (M1 FP) then delA M1 FP else M1
  | .mergeWith q, M => absKvs M [] q

def absFns : List Fn → LeafMap → LeafMap
  | [], M => M
  | f :: rest, M => absFns rest (absFn f M)

/-- when `metaOf`/`finsOf` succeed, the leaf at `metadata.finalizers` is exactly the list (or absent) -/
theorem fins_leaf (a : J) (m : Option (List (String × J))) (fs : Option (List J))
    (hm : metaOf a = .ok m) (hf : finsOf m = .ok fs) :
    leafAt a FP = fs.map J.arr := by
  cases a with
  | obj kvs =>
    simp only [metaOf] at hm
    cases hl : lookup "metadata" kvs with
    | none =>
      simp [hl] at hm; subst hm
      simp [finsOf] at hf; subst hf
      simp [FP, leafAt_obj_cons, hl]
    | some mv =>
      cases mv with
      | obj mm =>
        simp [hl] at hm; subst hm
        simp only [finsOf] at hf
        cases hl2 : lookup "finalizers" mm with
        | none =>
          simp [hl2] at hf; subst hf
          simp [FP, leafAt_obj_cons, hl, hl2]
        | some fv =>
          cases fv with
          | arr xs =>
            simp [hl2] at hf; subst hf
            simp [FP, leafAt_obj_cons, hl, hl2, leafAt]
          | _ => simp [hl2] at hf
      | _ => simp [hl] at hm
  | _ => simp [metaOf] at hm

theorem curFins_eq (a : J) (m : Option (List (String × J))) (fs : Option (List J))
    (hm : metaOf a = .ok m) (hf : finsOf m = .ok fs) : curFins (leafAt a) = fs.getD [] := by
  unfold curFins
  rw [fins_leaf a m fs hm hf]
  cases fs <;> rfl

theorem leafAt_insert_gen (k : String) (c : J) (kvs : List (String × J)) (q : List String) :
    leafAt (.obj (J.insert k c kvs)) q =
      match q with
      | [] => none
      | k' :: qs => if k' = k then leafAt c qs else leafAt (.obj kvs) (k' :: qs) := by
  cases q with
  | nil => rfl
  | cons k' qs =>
    by_cases e : k' = k
    · subst e; simp [leafAt_obj_cons, lookup_insert_same]
    · simp [leafAt_obj_cons, lookup_insert_other _ _ _ _ e, e]

theorem dropEmptyFins_sem (a a' : J) (h : dropEmptyFins a = .ok a') :
    leafAt a' = (if isEmptyArr (leafAt a FP) then delA (leafAt a) FP else leafAt a) := by
  unfold dropEmptyFins at h
  cases hm : metaOf a with
  | error e => simp [hm] at h
  | ok m =>
    simp only [hm] at h
    cases a with
    | obj kvs =>
      cases m with
      | none =>
        simp at h; subst h
        have : leafAt (.obj kvs) FP = none := by
          simpa using fins_leaf (.obj kvs) none none hm rfl
        simp [this, isEmptyArr]
      | some mm =>
        have hlk : lookup "metadata" kvs = some (.obj mm) := by
          simp only [metaOf] at hm
          cases hl : lookup "metadata" kvs with
          | none => simp [hl] at hm
          | some mv => cases mv <;> simp_all
        simp only at h
        cases hl2 : lookup "finalizers" mm with
        | none =>
          have hleaf : leafAt (.obj kvs) FP = none := by simp [FP, leafAt_obj_cons, hlk, hl2]
          simp [hl2] at h; subst h
          simp [hleaf, isEmptyArr]
        | some fv =>
          have hleaf : leafAt (.obj kvs) FP = leafAt fv [] := by simp [FP, leafAt_obj_cons, hlk, hl2]
          rw [hl2] at h
          rw [hleaf]
          cases fv with
          | arr xs =>
            cases xs with
            | nil =>
              simp at h; subst h
              simp only [leafAt, isEmptyArr, if_true]
              funext q
              rw [leafAt_insert_gen]
              cases q with
              | nil => simp [delA, FP, leafAt]
              | cons k' qs =>
                by_cases e : k' = "metadata"
                · subst e
                  simp only [if_true, leafAt_erase, delA, FP, pre_cons_same, leafAt_obj_cons, hlk]
                  try (cases qs with
                    | nil => simp [leafAt]
                    | cons k2 qs2 => simp [pre_cons_cons, leafAt_obj_cons])
                · simp [e, delA, FP, pre_cons_cons, Ne.symm e]
            | cons x xs => simp at h; subst h; simp [leafAt, isEmptyArr]
          | obj _ => simp at h; subst h; simp [leafAt, isEmptyArr]
          | null => simp at h; subst h; simp [leafAt, isEmptyArr]
          | bool _ => simp at h; subst h; simp [leafAt, isEmptyArr]
          | num _ => simp at h; subst h; simp [leafAt, isEmptyArr]
          | str _ => simp at h; subst h; simp [leafAt, isEmptyArr]
    | _ => simp [metaOf] at hm

theorem dropEmptyMeta_sem (a a' : J) (h : dropEmptyMeta a = .ok a') : leafAt a' = leafAt a := by
  unfold dropEmptyMeta at h
  cases hm : metaOf a with
  | error e => simp [hm] at h
  | ok m =>
    simp only [hm] at h
    cases a with
    | obj kvs =>
      cases m with
      | none => simp at h; subst h; rfl
      | some mm =>
        cases mm with
        | nil =>
          simp at h; subst h
          have hlk : lookup "metadata" kvs = some (.obj []) := by
            simp only [metaOf] at hm
            cases hl : lookup "metadata" kvs with
            | none => simp [hl] at hm
            | some mv => cases mv <;> simp_all
          rw [leafAt_erase]
          funext q
          cases q with
          | nil => simp [delA, leafAt]
          | cons k' qs =>
            by_cases e : k' = "metadata"
            · subst e; simp [delA, leafAt_obj_cons, hlk, leafAt_empty]
            · simp [delA, pre_cons_cons, Ne.symm e]
        | cons _ _ => simp at h; subst h; rfl
    | _ => simp [metaOf] at hm

theorem stripFinalizer_sem (f : String) (a a' : J) (h : stripFinalizer f a = .ok a') :
    leafAt a' = (if (curFins (leafAt a)).any (isStr f)
                 then setA (leafAt a) FP (.arr ((curFins (leafAt a)).filter (fun x => !isStr f x)))
                 else leafAt a) := by
  unfold stripFinalizer at h
  cases hm : metaOf a with
  | error e => simp [hm] at h
  | ok m =>
    simp only [hm] at h
    cases hf : finsOf m with
    | error e => simp [hf] at h
    | ok fs =>
      simp only [hf] at h
      rw [curFins_eq a m fs hm hf]
      cases fs with
      | none => simp at h; subst h; simp
      | some cur =>
        simp only [Option.getD] at h ⊢
        by_cases hc : cur.any (isStr f) = true
        · simp only [hc, if_true] at h ⊢
          funext q
          exact ensure_leaf _ rfl _ a a' h q
        · simp only [hc] at h ⊢
          simp at h; subst h; simp

theorem applyFn_sem (a a' : J) (f : Fn) (h : applyFn a f = .ok a') : leafAt a' = absFn f (leafAt a) := by
  cases f with
  | addFinalizer f =>
    simp only [applyFn] at h
    cases hm : metaOf a with
    | error e => simp [hm] at h
    | ok m =>
      simp only [hm] at h
      cases hf : finsOf m with
      | error e => simp [hf] at h
      | ok fs =>
        simp only [hf] at h
        simp only [absFn, curFins_eq a m fs hm hf]
        by_cases hc : (fs.getD []).any (isStr f) = true
        · simp only [hc, if_true] at h ⊢
          simp at h; subst h; rfl
        · simp only [hc] at h ⊢
          funext q
          exact ensure_leaf _ rfl _ a a' h q
  | removeFinalizer f =>
    simp only [applyFn] at h
    cases h1 : stripFinalizer f a with
    | error e => simp [h1] at h
    | ok b1 =>
      simp only [h1] at h
      cases h2 : dropEmptyFins b1 with
      | error e => simp [h2] at h
      | ok b2 =>
        simp only [h2] at h
        rw [dropEmptyMeta_sem b2 a' h, dropEmptyFins_sem b1 b2 h2, stripFinalizer_sem f a b1 h1]
        rfl
  | mergeWith q =>
    cases a with
    | obj tk =>
      simp only [applyFn] at h
      cases h
      exact mergeKvs_sem q tk
    | _ => simp [applyFn] at h

theorem applyFns_sem : ∀ (fns : List Fn) (a a' : J), applyFns a fns = .ok a' →
    leafAt a' = absFns fns (leafAt a)
  | [], a, a', h => by simp [applyFns] at h; subst h; rfl
  | f :: rest, a, a', h => by
      simp only [applyFns] at h
      cases h1 : applyFn a f with
      | error e => simp [h1] at h
      | ok b =>
        simp only [h1] at h
        rw [absFns, ← applyFn_sem a b f h1]
        exact applyFns_sem rest b a' h

end Kopf.C18
