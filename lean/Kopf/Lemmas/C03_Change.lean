/-
  C03 — helper lemmas for Model/C03_Change (where the loop's `base` class comes from): lists that C04's `same` takes
  for equal have the same length; a pair of well-formed values that differ (up to null-valued keys, C04-F10) is in class
  `diff`.
-/
import Kopf.Model.C03_Change
import Kopf.Lemmas.C04_Diff
import Kopf.Lemmas.C04_Detect
namespace Kopf.C03
open Kopf Kopf.J

theorem sameList_length : ∀ (xs ys : List J), C04.sameList xs ys = true → xs.length = ys.length
  | [], [], _ => rfl
  | [], _ :: _, h => by simp [C04.sameList] at h
  | _ :: _, [], h => by simp [C04.sameList] at h
  | x :: xs, y :: ys, h => by
      simp only [C04.sameList, Bool.and_eq_true] at h
      simp only [List.length_cons]
      rw [sameList_length xs ys h.2]

theorem arr_ne_of_length {xs ys : List J} (h : xs.length ≠ ys.length) :
    ¬ C04.same (dropNulls (.arr xs)) (dropNulls (.arr ys)) = true := by
  intro hs
  simp only [dropNulls, C04.same] at hs
  exact h (sameList_length xs ys hs)

theorem baseClass_diff_of_diff_ne {o n : J} (h : C04.diff o n [] ≠ []) : baseClass (some o) n = .diff := by
  simp only [baseClass]
  cases hd : C04.diff o n [] with
  | nil => exact absurd hd h
  | cons _ _ => simp

theorem causeOf_class_diff : (causeOf (stateOfClass .diff)).reason = .update := by decide
theorem causeOf_class_same : (causeOf (stateOfClass .same)).reason = .noop := by decide

end Kopf.C03
