/-
  C04 — `reduce (diff a b) path = diff (a at path) (b at path)`: narrowing to a field is exact.
-/
import Kopf.Lemmas.C04_Diff
namespace Kopf.C04
open Kopf Kopf.J

/-- put a prefix in front of an item's path. -/
def pre (p : Path) (it : Item) : Item := { it with path := p ++ it.path }

theorem pre_pre (p q : Path) (it : Item) : pre p (pre q it) = pre (p ++ q) it := by
  simp [pre, List.append_assoc]

theorem pre_nil (it : Item) : pre [] it = it := by simp [pre]

theorem addItem_pre (p : Path) (k : String) (y : J) :
    addItem (p ++ [k]) y = (addItem [k] y).map (pre p) := by
  cases y <;> simp [addItem, pre]

theorem removeItem_pre (p : Path) (k : String) (x : J) :
    removeItem (p ++ [k]) x = (removeItem [k] x).map (pre p) := by
  cases x <;> simp [removeItem, pre]

theorem diffLeaf_pre (a b : J) (p : Path) : diffLeaf a b p = (diffLeaf a b []).map (pre p) := by
  unfold diffLeaf
  by_cases h : same a b = true
  · simp [h]
  · simp only [h, Bool.false_eq_true, if_false]
    cases a <;> cases b <;> simp [pre]

theorem diffAdded_pre (ka kb : Kvs) (p : Path) : diffAdded ka kb p = (diffAdded ka kb []).map (pre p) := by
  induction kb with
  | nil => simp [diffAdded]
  | cons kv kb ih =>
    obtain ⟨k, y⟩ := kv
    simp only [diffAdded, List.map_append, ih, List.nil_append]
    cases lookup k ka <;> simp [addItem_pre]

theorem diffRemoved_pre (ka kb : Kvs) (p : Path) : diffRemoved ka kb p = (diffRemoved ka kb []).map (pre p) := by
  induction ka with
  | nil => simp [diffRemoved]
  | cons kv ka ih =>
    obtain ⟨k, x⟩ := kv
    simp only [diffRemoved, List.map_append, ih, List.nil_append]
    cases lookup k kb <;> simp [removeItem_pre]

theorem diffCommon_pre (ka kb : Kvs) (p : Path)
    (ih : ∀ k x, (k, x) ∈ ka → ∀ (b : J) (p : Path), diff x b p = (diff x b []).map (pre p)) :
    diffCommon ka kb p = (diffCommon ka kb []).map (pre p) := by
  induction ka with
  | nil => simp [diffCommon]
  | cons kv ka ihl =>
    obtain ⟨k, x⟩ := kv
    simp only [diffCommon, List.map_append, List.nil_append]
    rw [ihl (fun k x hm => ih k x (List.mem_cons_of_mem _ hm))]
    congr 1
    cases lookup k kb with
    | none => simp
    | some y =>
      simp only []
      rw [ih k x List.mem_cons_self y (p ++ [k]), ih k x List.mem_cons_self y [k]]
      simp [List.map_map, Function.comp_def, pre_pre]

/-- items of `diff a b p` are the items of `diff a b []` with `p` in front. -/
theorem diff_pre (a : J) : ∀ (b : J) (p : Path), diff a b p = (diff a b []).map (pre p) := by
  refine objInduction (P := fun a => ∀ (b : J) (p : Path), diff a b p = (diff a b []).map (pre p)) a ?_ ?_
  · intro a ha b p
    rw [diff_leaf_left b p ha, diff_leaf_left b [] ha, diffLeaf_pre]
  · intro ka ih b p
    cases hb : b.isObj with
    | false => rw [diff_leaf_right _ p hb, diff_leaf_right _ [] hb, diffLeaf_pre]
    | true =>
      cases b <;> simp [isObj] at hb
      rename_i kb
      rw [diff_obj_obj, diff_obj_obj]
      by_cases h : same (.obj ka) (.obj kb) = true
      · simp [h]
      · simp only [h, Bool.false_eq_true, if_false, List.map_append]
        rw [diffAdded_pre, diffRemoved_pre, diffCommon_pre ka kb p ih]

/-! ### `reduceItem` on prefixed items -/

theorem reduceItem_pre_same (k : String) (q : Path) (it : Item) :
    reduceItem (k :: q) (pre [k] it) = reduceItem q it := by
  obtain ⟨op, ip, o, n⟩ := it
  by_cases hq : q = []
  · subst hq
    simp [reduceItem, pre]
  · simp [reduceItem, pre, hq]

theorem reduceItem_pre_other {k k0 : String} (q : Path) (it : Item) (h : k0 ≠ k) :
    reduceItem (k :: q) (pre [k0] it) = [] := by
  obtain ⟨op, ip, o, n⟩ := it
  simp [reduceItem, pre, h]

theorem reduce_append (d1 d2 : List Item) (p : Path) : reduce (d1 ++ d2) p = reduce d1 p ++ reduce d2 p := by
  simp [reduce, List.flatMap_append]

theorem reduce_map_pre_same (d : List Item) (k : String) (q : Path) :
    reduce (d.map (pre [k])) (k :: q) = reduce d q := by
  simp [reduce, List.flatMap_map, reduceItem_pre_same]

theorem reduce_map_pre_other (d : List Item) {k k0 : String} (q : Path) (h : k0 ≠ k) :
    reduce (d.map (pre [k0])) (k :: q) = [] := by
  simp [reduce, List.flatMap_map, reduceItem_pre_other q _ h]

/-! ### resolving -/

theorem resolveD_nil (a : J) : resolveD a [] = a := by simp [resolveD, resolve?]

theorem resolveD_nonobj_cons {a : J} (k : String) (q : Path) (h : a.isObj = false) : resolveD a (k :: q) = .null := by
  cases a <;> simp [isObj] at h <;> simp [resolveD, resolve?]

theorem resolveD_null (q : Path) : resolveD .null q = .null := by
  cases q <;> simp [resolveD, resolve?]

theorem resolveD_obj_cons (ka : Kvs) (k : String) (q : Path) :
    resolveD (.obj ka) (k :: q) = match lookup k ka with
      | some x => resolveD x q
      | none => .null := by
  simp only [resolveD, resolve?]
  cases lookup k ka <;> simp

theorem pyEq_resolveD (p : Path) : ∀ (a b : J), wf a = true → wf b = true → same a b = true →
    same (resolveD a p) (resolveD b p) = true := by
  induction p with
  | nil => intro a b _ _ h; simpa [resolveD_nil] using h
  | cons k q ih =>
    intro a b hwa hwb h
    have hio := pyEq_isObj h
    cases ha : a.isObj with
    | false =>
      rw [ha] at hio
      rw [resolveD_nonobj_cons k q ha, resolveD_nonobj_cons k q hio.symm]; rfl
    | true =>
      rw [ha] at hio
      cases a <;> simp [isObj] at ha
      cases b <;> simp [isObj] at hio
      rename_i ka kb
      rw [wf_obj] at hwa hwb
      have hk := (pyEq_obj_iff hwa hwb).1 h k
      rw [resolveD_obj_cons, resolveD_obj_cons]
      cases hla : lookup k ka with
      | none =>
        cases hlb : lookup k kb with
        | none => rfl
        | some y => rw [hla, hlb] at hk; simp [optRel] at hk
      | some x =>
        cases hlb : lookup k kb with
        | none => rw [hla, hlb] at hk; simp [optRel] at hk
        | some y =>
          rw [hla, hlb] at hk
          exact ih x y (wf_of_lookup hwa hla) (wf_of_lookup hwb hlb) hk

/-! ### reducing the three groups of an object diff -/

theorem reduceItem_root (q : Path) (op : Op) (o n : J) :
    reduceItem q ⟨op, [], o, n⟩ =
      if q = [] then [⟨op, [], o, n⟩] else diff (resolveD o q) (resolveD n q) [] := by
  by_cases hq : q = []
  · simp [reduceItem, hq]
  · cases q with
    | nil => exact absurd rfl hq
    | cons k q => simp [reduceItem]

theorem diff_null_null (p : Path) : diff .null .null p = [] := diff_of_pyEq p rfl

theorem addItem_eq_pre (k : String) (y : J) : addItem [k] y = (addItem [] y).map (pre [k]) := by
  cases y <;> simp [addItem, pre]

theorem removeItem_eq_pre (k : String) (x : J) : removeItem [k] x = (removeItem [] x).map (pre [k]) := by
  cases x <;> simp [removeItem, pre]

theorem reduce_addItem_root (y : J) (q : Path) : reduce (addItem [] y) q = diff .null (resolveD y q) [] := by
  by_cases hy : y = .null
  · subst hy; simp [addItem, reduce, resolveD_null, diff_null_null]
  · have : addItem [] y = [⟨.add, [], .null, y⟩] := by cases y <;> simp [addItem] at hy ⊢
    rw [this]
    simp only [reduce, List.flatMap_cons, List.flatMap_nil, List.append_nil, reduceItem_root]
    by_cases hq : q = []
    · subst hq
      rw [if_pos rfl, resolveD_nil, diff_leaf_left _ _ (by rfl)]
      cases y <;> simp [diffLeaf, same] at hy ⊢
    · rw [if_neg hq, resolveD_null]

theorem reduce_removeItem_root (x : J) (q : Path) : reduce (removeItem [] x) q = diff (resolveD x q) .null [] := by
  by_cases hx : x = .null
  · subst hx; simp [removeItem, reduce, resolveD_null, diff_null_null]
  · have : removeItem [] x = [⟨.remove, [], x, .null⟩] := by cases x <;> simp [removeItem] at hx ⊢
    rw [this]
    simp only [reduce, List.flatMap_cons, List.flatMap_nil, List.append_nil, reduceItem_root]
    by_cases hq : q = []
    · subst hq
      rw [if_pos rfl, resolveD_nil, diff_leaf_right _ _ (by rfl)]
      cases x <;> simp [diffLeaf, same] at hx ⊢
    · rw [if_neg hq, resolveD_null]

theorem reduce_nil (p : Path) : reduce [] p = [] := by simp [reduce]

theorem reduce_added (ka : Kvs) (k : String) (q : Path) : ∀ (kb : Kvs), nodupKeys kb = true →
    reduce (diffAdded ka kb []) (k :: q) =
      match lookup k ka, lookup k kb with
      | none, some y => diff .null (resolveD y q) []
      | _, _ => []
  | [], _ => by cases lookup k ka <;> simp [diffAdded, reduce_nil]
  | (k0, y0) :: kb, hn => by
    simp [nodupKeys] at hn
    have ih := reduce_added ka k q kb hn.2
    simp only [diffAdded, List.nil_append, reduce_append]
    by_cases hk : k0 = k
    · subst hk
      have hnone : lookup k0 kb = none := (lookup_none_iff k0 kb).2 hn.1
      rw [hnone] at ih
      have ih' : reduce (diffAdded ka kb []) (k0 :: q) = [] := by
        rw [ih]; cases lookup k0 ka <;> rfl
      rw [ih', List.append_nil]
      simp only [lookup_cons, if_true]
      cases hla : lookup k0 ka with
      | some _ => simp [reduce_nil]
      | none =>
        simp only []
        rw [addItem_eq_pre, reduce_map_pre_same, reduce_addItem_root]
    · simp only [lookup_cons, if_neg hk]
      rw [ih]
      cases hl0 : lookup k0 ka with
      | some _ => simp only [reduce_nil, List.nil_append]
      | none => simp only []; rw [addItem_eq_pre, reduce_map_pre_other _ _ hk, List.nil_append]

theorem reduce_removed (kb : Kvs) (k : String) (q : Path) : ∀ (ka : Kvs), nodupKeys ka = true →
    reduce (diffRemoved ka kb []) (k :: q) =
      match lookup k ka, lookup k kb with
      | some x, none => diff (resolveD x q) .null []
      | _, _ => []
  | [], _ => by simp [diffRemoved, reduce_nil]
  | (k0, x0) :: ka, hn => by
    simp [nodupKeys] at hn
    have ih := reduce_removed kb k q ka hn.2
    simp only [diffRemoved, List.nil_append, reduce_append]
    by_cases hk : k0 = k
    · subst hk
      have hnone : lookup k0 ka = none := (lookup_none_iff k0 ka).2 hn.1
      rw [hnone] at ih
      rw [ih, List.append_nil]
      simp only [lookup_cons, if_true]
      cases hlb : lookup k0 kb with
      | some _ => simp [reduce_nil]
      | none =>
        simp only []
        rw [removeItem_eq_pre, reduce_map_pre_same, reduce_removeItem_root]
    · simp only [lookup_cons, if_neg hk]
      rw [ih]
      cases hl0 : lookup k0 kb with
      | some _ => simp only [reduce_nil, List.nil_append]
      | none => simp only []; rw [removeItem_eq_pre, reduce_map_pre_other _ _ hk, List.nil_append]

theorem reduce_common (kb : Kvs) (k : String) (q : Path) : ∀ (ka : Kvs), nodupKeys ka = true →
    reduce (diffCommon ka kb []) (k :: q) =
      match lookup k ka, lookup k kb with
      | some x, some y => reduce (diff x y []) q
      | _, _ => []
  | [], _ => by simp [diffCommon, reduce_nil]
  | (k0, x0) :: ka, hn => by
    simp [nodupKeys] at hn
    have ih := reduce_common kb k q ka hn.2
    simp only [diffCommon, List.nil_append, reduce_append]
    by_cases hk : k0 = k
    · subst hk
      have hnone : lookup k0 ka = none := (lookup_none_iff k0 ka).2 hn.1
      rw [hnone] at ih
      rw [ih, List.append_nil]
      simp only [lookup_cons, if_true]
      cases hlb : lookup k0 kb with
      | none => simp [reduce_nil]
      | some y =>
        simp only []
        rw [diff_pre x0 y [k0], reduce_map_pre_same]
    · simp only [lookup_cons, if_neg hk]
      rw [ih]
      cases hl0 : lookup k0 kb with
      | none => simp only [reduce_nil, List.nil_append]
      | some y => simp only []; rw [diff_pre x0 y [k0], reduce_map_pre_other _ _ hk, List.nil_append]

theorem diffLeaf_single {a b : J} (p : Path) (h : same a b = false) : ∃ op, diffLeaf a b p = [⟨op, p, a, b⟩] := by
  unfold diffLeaf
  simp only [h, Bool.false_eq_true, if_false]
  cases a <;> cases b <;> first | exact ⟨_, rfl⟩ | (simp [same] at h)

theorem reduce_leaf {a b : J} (k : String) (q : Path) 
    (hno : a.isObj = false ∨ b.isObj = false) :
    reduce (diffLeaf a b []) (k :: q) = diff (resolveD a (k :: q)) (resolveD b (k :: q)) [] := by
  cases h : same a b with
  | true =>
    have hio := pyEq_isObj h
    have ha : a.isObj = false := by rcases hno with h1 | h1; exact h1; rw [hio]; exact h1
    have hb : b.isObj = false := by rw [← hio]; exact ha
    rw [(diffLeaf_nil_iff a b []).2 h, reduce_nil, resolveD_nonobj_cons k q ha, resolveD_nonobj_cons k q hb, diff_null_null]
  | false =>
    obtain ⟨op, hop⟩ := diffLeaf_single [] h
    rw [hop]
    simp [reduce, reduceItem_root]

/-- **narrowing the whole-object diff to a field gives exactly the diff of the field's values.** -/
theorem reduce_diff (p : Path) : ∀ (a b : J), wf a = true → wf b = true →
    reduce (diff a b []) p = diff (resolveD a p) (resolveD b p) [] := by
  induction p with
  | nil =>
    intro a b _ _
    have : ∀ d : List Item, List.flatMap (reduceItem []) d = d := by
      intro d
      induction d with
      | nil => rfl
      | cons it d ihd => simp [List.flatMap_cons, reduceItem, ihd]
    simp [reduce, resolveD_nil, this]
  | cons k q ih =>
    intro a b hwa hwb
    cases ha : a.isObj with
    | false => rw [diff_leaf_left b [] ha]; exact reduce_leaf k q (Or.inl ha)
    | true =>
      cases hb : b.isObj with
      | false => rw [diff_leaf_right a [] hb]; exact reduce_leaf k q (Or.inr hb)
      | true =>
        cases a <;> simp [isObj] at ha
        cases b <;> simp [isObj] at hb
        rename_i ka kb
        rw [diff_obj_obj]
        by_cases hpe : same (.obj ka) (.obj kb) = true
        · rw [if_pos hpe, reduce_nil]
          exact (diff_of_pyEq [] (pyEq_resolveD (k :: q) _ _ hwa hwb hpe)).symm
        · rw [if_neg hpe]
          rw [wf_obj] at hwa hwb
          rw [reduce_append, reduce_append, reduce_added ka k q kb (nodupKeys_of_wf hwb),
            reduce_removed kb k q ka (nodupKeys_of_wf hwa), reduce_common kb k q ka (nodupKeys_of_wf hwa),
            resolveD_obj_cons, resolveD_obj_cons]
          cases hla : lookup k ka with
          | none =>
            cases hlb : lookup k kb with
            | none => simp [diff_null_null]
            | some y => simp
          | some x =>
            cases hlb : lookup k kb with
            | none => simp
            | some y =>
              simp only [List.nil_append]
              exact ih x y (wf_of_lookup hwa hla) (wf_of_lookup hwb hlb)

end Kopf.C04
