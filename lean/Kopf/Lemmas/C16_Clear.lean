/-
  C16 helper lemmas, part 4: `touch` as a sequence of writes, and `clear`
  (`remove_annotations` + `remove_empty_stanzas`) seen through annotation lookups.
-/
import Kopf.Lemmas.C16_Ops
namespace Kopf.C16
open Kopf Kopf.J

/-! ## touch -/

theorem touchNames_touches {pfx : Str} {body value : J} (names : List Str) (hv : wf value = true) :
    ∀ {p p' : J}, touchNames pfx body value p names = .ok p' →
      Touches p p' (names.map annPath ++ [annPath (markerName pfx)]) := by
  induction names with
  | nil => intro p p' h; simp [touchNames] at h; subst h; exact Touches.refl _ _
  | cons n ns ih =>
    intro p p' h
    have hsub : ∀ x ∈ ns.map annPath ++ [annPath (markerName pfx)],
        x ∈ (n :: ns).map annPath ++ [annPath (markerName pfx)] := by
      intro x hx
      rcases List.mem_append.1 hx with hx | hx
      · exact List.mem_append_left _ (by rw [List.map_cons]; exact List.mem_cons_of_mem _ hx)
      · exact List.mem_append_right _ hx
    simp only [touchNames] at h
    split at h
    · cases h1 : liftD (ensure p (annPath n) value) with
      | error e => simp only [h1] at h; cases h
      | ok p1 =>
        simp only [h1] at h
        cases h2 : storeMarker pfx body p1 with
        | error e => simp only [h2] at h; cases h
        | ok p2 =>
          simp only [h2] at h
          have t1 := (touches_ensure hv (liftD_ok h1)).mono
            (ps' := (n :: ns).map annPath ++ [annPath (markerName pfx)]) (by simp)
          have t2 := (storeMarker_touches h2).mono
            (ps' := (n :: ns).map annPath ++ [annPath (markerName pfx)]) (by simp)
          exact (t1.trans t2).trans ((ih h).mono hsub)
    · exact (ih h).mono hsub

/-! ## three-level lookups -/

theorem resolve3 (j : J) (a b c : String) :
    resolve? j [a, b, c] =
      (lookup a (kvsOf j)).bind fun x => (lookup b (kvsOf x)).bind fun y => lookup c (kvsOf y) := by
  rw [resolve_cons]
  congr 1
  funext x
  rw [resolve_cons]
  congr 1
  funext y
  exact resolve_single y c

@[simp] theorem kvsOf_obj (kvs : List (String × J)) : kvsOf (obj kvs) = kvs := rfl

theorem bind_falsy (b c : String) : ∀ v : J, v.truthy = false →
    ((lookup b (kvsOf v)).bind fun y => lookup c (kvsOf y)) = none := by
  intro v hv
  have : kvsOf v = [] := by cases v <;> simp_all [truthy, kvsOf]
  rw [this]; rfl

theorem bind_falsy1 (c : String) : ∀ v : J, v.truthy = false → lookup c (kvsOf v) = none := by
  intro v hv
  have : kvsOf v = [] := by cases v <;> simp_all [truthy, kvsOf]
  rw [this]; rfl

theorem kvsOf_falsy {v : J} (h : v.truthy = false) : kvsOf v = [] := by
  cases v <;> simp_all [truthy, kvsOf]

theorem lookup_delIfFalsy_ne {k k' : String} (h : k' ≠ k) (kvs : List (String × J)) :
    lookup k' (delIfFalsy k kvs) = lookup k' kvs := by
  unfold delIfFalsy
  cases hl : lookup k kvs with
  | none => rfl
  | some v =>
    simp only
    split
    · rfl
    · exact lookup_erase_ne h kvs

theorem lookup_delIfFalsy_self (k : String) (kvs : List (String × J)) :
    lookup k (delIfFalsy k kvs) = (lookup k kvs).bind (fun v => if v.truthy then some v else none) := by
  unfold delIfFalsy
  cases hl : lookup k kvs with
  | none => simp [hl]
  | some v =>
    simp only [Option.bind_some]
    split
    · exact hl
    · exact lookup_erase_self k kvs

/-- dropping a falsy stanza does not change what is found *inside* it (nothing is) -/
theorem bind_delIfFalsy (k : String) (kvs : List (String × J)) (f : J → Option J)
    (hf : ∀ v, v.truthy = false → f v = none) :
    (lookup k (delIfFalsy k kvs)).bind f = (lookup k kvs).bind f := by
  rw [lookup_delIfFalsy_self]
  cases lookup k kvs with
  | none => rfl
  | some v =>
    simp only [Option.bind_some]
    cases ht : v.truthy with
    | true => simp
    | false => simp [hf v ht]

theorem lookup_filter_key (f : String → Bool) (name : String) (ak : List (String × J)) :
    lookup name (ak.filter (fun kv => f kv.1)) = if f name then lookup name ak else none := by
  induction ak with
  | nil => simp
  | cons hd tl ih =>
    obtain ⟨k, v⟩ := hd
    by_cases e : k = name
    · subst e
      cases hf : f k <;> simp [List.filter, hf, lookup, ih]
    · cases hf : f k <;> cases hn : f name <;> simp_all [List.filter, lookup]

theorem lookup_none_of_not_any (f : String → Bool) (name : String) (ak : List (String × J))
    (h : ak.any (fun kv => f kv.1) = false) (hn : f name = true) : lookup name ak = none := by
  induction ak with
  | nil => rfl
  | cons hd tl ih =>
    obtain ⟨k, v⟩ := hd
    simp only [List.any_cons, Bool.or_eq_false_iff] at h
    by_cases e : k = name
    · subst e; rw [hn] at h; cases h.1
    · simp [lookup, e, ih h.2]

/-! ## `remove_annotations` with the own prefix -/

theorem removeOwn_spec (p : Str) (e e1 : J) (h : removeOwnAnnotations p e = .ok e1) (name : String) :
    resolve? e1 ["metadata", "annotations", name] =
      if underPrefix p name then none else resolve? e ["metadata", "annotations", name] := by
  cases e with
  | obj kvs =>
    simp only [removeOwnAnnotations] at h
    cases hm : lookup "metadata" kvs with
    | none =>
      simp only [hm] at h; cases h
      simp [resolve3, hm]
    | some m =>
      simp only [hm] at h
      cases m with
      | obj mk =>
        simp only at h
        cases ha : lookup "annotations" mk with
        | none =>
          simp only [ha] at h; cases h
          simp [resolve3, hm, ha]
        | some a =>
          simp only [ha] at h
          cases a with
          | obj ak =>
            simp only at h
            split at h
            · cases h
              simp only [resolve3, kvsOf_obj, lookup_insert_self, Option.bind_some, hm, ha]
              rw [lookup_filter_key (fun n => !underPrefix p n)]
              cases underPrefix p name <;> simp
            · rename_i hany
              cases h
              simp only [resolve3, kvsOf_obj, hm, ha, Option.bind_some]
              cases hu : underPrefix p name with
              | false => simp
              | true =>
                simp only [if_true]
                exact lookup_none_of_not_any (underPrefix p) name ak (by simpa using hany) hu
          | _ => simp at h
      | _ => simp at h
  | _ => simp [removeOwnAnnotations] at h

/-! ## `remove_empty_stanzas` never changes an annotation lookup -/

theorem removeEmpty_spec (e1 e' : J) (h : removeEmptyStanzas e1 = .ok e') (name : String) :
    resolve? e' ["metadata", "annotations", name] = resolve? e1 ["metadata", "annotations", name] := by
  have hne1 : ("metadata" : String) ≠ "status" := by decide
  have hne2 : ("annotations" : String) ≠ "labels" := by decide
  cases e1 with
  | obj kvs =>
    simp only [removeEmptyStanzas] at h
    cases hm : lookup "metadata" kvs with
    | none =>
      simp only [hm] at h; cases h
      simp only [resolve3, kvsOf_obj]
      rw [lookup_delIfFalsy_ne hne1, bind_delIfFalsy _ _ _ (bind_falsy _ _)]
    | some m =>
      simp only [hm] at h
      cases m with
      | obj mk =>
        simp only at h; cases h
        simp only [resolve3, kvsOf_obj]
        rw [lookup_delIfFalsy_ne hne1, bind_delIfFalsy _ _ _ (bind_falsy _ _),
          lookup_insert_self, hm]
        simp only [Option.bind_some, kvsOf_obj]
        rw [lookup_delIfFalsy_ne hne2, bind_delIfFalsy _ _ _ (bind_falsy1 _)]
      | _ => simp at h
  | _ => simp [removeEmptyStanzas] at h

theorem annClear_spec (c : AnnCfg) (e e' : J) (h : annClear c e = .ok e') (name : String) :
    resolve? e' ["metadata", "annotations", name] =
      if underPrefix c.pfx name then none else resolve? e ["metadata", "annotations", name] := by
  unfold annClear at h
  cases h1 : removeOwnAnnotations c.pfx e with
  | error er => rw [h1] at h; cases h
  | ok e1 =>
    rw [h1] at h
    rw [removeEmpty_spec e1 e' h name, removeOwn_spec c.pfx e e1 h1 name]

theorem annClear_removes (c : AnnCfg) (e e' : J) (h : annClear c e = .ok e') (name : String)
    (hu : underPrefix c.pfx name = true) : resolve? e' ["metadata", "annotations", name] = none := by
  rw [annClear_spec c e e' h name, hu]; rfl

theorem annClear_keeps (c : AnnCfg) (e e' : J) (h : annClear c e = .ok e') (name : String)
    (hu : underPrefix c.pfx name = false) :
    resolve? e' ["metadata", "annotations", name] = resolve? e ["metadata", "annotations", name] := by
  rw [annClear_spec c e e' h name, hu]; rfl

end Kopf.C16
