/-
  C05 — helper lemmas about `firstSome` and the storages' fetches (Model/C05_Record.lean).
-/
import Kopf.Model.C05_Record
namespace Kopf.C05

theorem firstSome_none_iff {α β} (f : α → Option β) (l : List α) :
    firstSome f l = none ↔ ∀ a ∈ l, f a = none := by
  induction l with
  | nil => simp [firstSome]
  | cons a rest ih =>
    cases h : f a with
    | none => simp [firstSome, h, ih]
    | some b => simp [firstSome, h]

theorem firstSome_some_mem {α β} (f : α → Option β) (l : List α) (b : β)
    (h : firstSome f l = some b) : ∃ a ∈ l, f a = some b := by
  induction l with
  | nil => simp [firstSome] at h
  | cons a rest ih =>
    cases ha : f a with
    | none =>
      simp [firstSome, ha] at h
      obtain ⟨x, hx, hfx⟩ := ih h
      exact ⟨x, List.mem_cons_of_mem _ hx, hfx⟩
    | some b' =>
      simp [firstSome, ha] at h
      exact ⟨a, List.mem_cons_self, by rw [ha, h]⟩

theorem firstSome_congr {α β} (f g : α → Option β) (l : List α) (h : ∀ a ∈ l, f a = g a) :
    firstSome f l = firstSome g l := by
  induction l with
  | nil => rfl
  | cons a rest ih =>
    have ha : f a = g a := h a List.mem_cons_self
    have hr : firstSome f rest = firstSome g rest := ih (fun x hx => h x (List.mem_cons_of_mem _ hx))
    simp [firstSome, ha, hr]

theorem firstSome_append_of_none {α β} (f : α → Option β) (l m : List α) (h : firstSome f l = none) :
    firstSome f (l ++ m) = firstSome f m := by
  induction l with
  | nil => rfl
  | cons a rest ih =>
    cases ha : f a with
    | none =>
      simp [firstSome, ha] at h
      simp [firstSome, ha, ih h]
    | some b => simp [firstSome, ha] at h

theorem firstSome_append_of_some {α β} (f : α → Option β) (l m : List α) (b : β) (h : firstSome f l = some b) :
    firstSome f (l ++ m) = some b := by
  induction l with
  | nil => simp [firstSome] at h
  | cons a rest ih =>
    cases ha : f a with
    | none =>
      simp [firstSome, ha] at h
      simp [firstSome, ha, ih h]
    | some b' =>
      simp [firstSome, ha] at h
      simp [firstSome, ha, h]

/-- nothing of a list is left when its own members are filtered out -/
theorem filter_not_contains_self (l : List String) : l.filter (fun k => !l.contains k) = [] := by
  rw [List.filter_eq_nil_iff]
  intro k hk
  simp [hk]

/-- an object that is not a Deployment's ReplicaSet goes by the plain names -/
theorem ownKeys_plain {E} (keysOf : String → List String) (key : String) (o : Obj E) (h : isDRS o = false) :
    ownKeys keysOf key o = keysOf key := by
  simp [ownKeys, markKey, h]

theorem ownKeys_marked {E} (keysOf : String → List String) (key : String) (o : Obj E) (h : isDRS o = true) :
    ownKeys keysOf key o = keysOf (key ++ "-ofDRS") := by
  simp [ownKeys, markKey, h]

theorem fetchAnn_none_iff {E} (keysOf : String → List String) (key : String) (o : Obj E) :
    fetchAnn keysOf key o = none ↔ NoOwnRecord (.ann keysOf key) o := by
  simp [fetchAnn, NoOwnRecord, firstSome_none_iff]

theorem fetchSimple_none_iff {E} (s : Storage) (o : Obj E) : fetchSimple s o = none ↔ NoOwnRecord s o := by
  cases s with
  | ann keysOf key => exact fetchAnn_none_iff keysOf key o
  | status => simp [fetchSimple, NoOwnRecord]

end Kopf.C05
