/-
  C04 — the exact-key / progress-prefix route: an own annotation under a prefix that is NOT marked
  (no marker yet, or a `kopf.*` prefix for which no marker is written) is cleaned by
  `AnnotationsDiffBaseStorage.build` (exact keys) or `AnnotationsProgressStorage.clear` (prefix).
  Part A: two runs on bodies that differ only inside `metadata` agree off `metadata`.
-/
import Kopf.Lemmas.C04_Detect
set_option linter.unusedSimpArgs false
namespace Kopf.C04
open Kopf Kopf.J

def AgreeOff (e e' : J) : Prop :=
  e.isObj = true ∧ e'.isObj = true ∧ ∀ k, k ≠ "metadata" → e.get? k = e'.get? k

theorem agreeOff_refl {e : J} (h : e.isObj = true) : AgreeOff e e := ⟨h, h, fun _ _ => rfl⟩

theorem ensure_agree {d d' x x' v : J} {h : String} {rest : List String} (ha : AgreeOff d d') (hne : h ≠ "metadata")
    (he : ensure d (h :: rest) v = .ok x) (he' : ensure d' (h :: rest) v = .ok x') : AgreeOff x x' := by
  obtain ⟨ho, ho', hk⟩ := ha
  cases d with
  | obj l =>
    cases d' with
    | obj l' =>
      rw [ensure_top] at he he'
      have hl : lookup h l = lookup h l' := by simpa [get?] using hk h hne
      rw [← hl] at he'
      cases hc : ensureChild (lookup h l) rest v with
      | error e => rw [hc] at he; cases he
      | ok c =>
        rw [hc] at he he'
        cases he; cases he'
        refine ⟨rfl, rfl, fun k hkne => ?_⟩
        by_cases e : k = h
        · subst e; simp [get?, lookup_insert_same]
        · simp only [get?, lookup_insert_other _ _ e]
          simpa [get?] using hk k hkne
    | _ => simp [isObj] at ho'
  | _ => simp [isObj] at ho

theorem agreeOff_symm {e e' : J} (h : AgreeOff e e') : AgreeOff e' e := ⟨h.2.1, h.1, fun k hk => (h.2.2 k hk).symm⟩

theorem ensure_agree_err {d d' v : J} {h : String} {rest : List String} {er : DictErr} (ha : AgreeOff d d')
    (hne : h ≠ "metadata") (he : ensure d (h :: rest) v = .error er) : ensure d' (h :: rest) v = .error er := by
  obtain ⟨ho, ho', hk⟩ := ha
  cases d with
  | obj l =>
    cases d' with
    | obj l' =>
      rw [ensure_top] at he ⊢
      have hl : lookup h l = lookup h l' := by simpa [get?] using hk h hne
      rw [← hl]
      cases hc : ensureChild (lookup h l) rest v with
      | error e2 => rw [hc] at he; exact he
      | ok c => rw [hc] at he; cases he
    | _ => simp [isObj] at ho'
  | _ => simp [isObj] at ho

/-- one guarded pick on two destinations that agree off `metadata`: both succeed (and still agree), or both
    fail with the same error — so the guarded loop skips the same fields on both. -/
theorem cherrypick_one_agree (src src' : J) {d d' : J} {hh : String} {rest : List String} (hne : hh ≠ "metadata")
    (hr : resolveE src (hh :: rest) = resolveE src' (hh :: rest)) (ha : AgreeOff d d') :
    (∃ x x', cherrypick src d [hh :: rest] = .ok x ∧ cherrypick src' d' [hh :: rest] = .ok x' ∧ AgreeOff x x') ∨
    (∃ e, cherrypick src d [hh :: rest] = .error e ∧ cherrypick src' d' [hh :: rest] = .error e) := by
  simp only [cherrypick]
  rw [← hr]
  cases hres : resolveE src (hh :: rest) with
  | error e =>
    cases e
    · exact Or.inr ⟨_, rfl, rfl⟩
    · exact Or.inl ⟨d, d', rfl, rfl, ha⟩
    · exact Or.inr ⟨_, rfl, rfl⟩
    · exact Or.inr ⟨_, rfl, rfl⟩
  | ok v =>
    simp only []
    cases he : ensure d (hh :: rest) v with
    | ok x =>
      cases he' : ensure d' (hh :: rest) v with
      | ok x' => exact Or.inl ⟨x, x', rfl, rfl, ensure_agree ha hne he he'⟩
      | error e =>
        have := ensure_agree_err (agreeOff_symm ha) hne he'
        rw [he] at this; cases this
    | error e =>
      rw [ensure_agree_err ha hne he]
      exact Or.inr ⟨_, rfl, rfl⟩

theorem cherrypickSkip_agree (src src' : J) : ∀ (fs : List (List String)) (d d' d1 d1' : J),
    ExtraAvoids "metadata" fs → (∀ f, f ∈ fs → resolveE src f = resolveE src' f) → AgreeOff d d' →
    cherrypickSkip src d fs = .ok d1 → cherrypickSkip src' d' fs = .ok d1' → AgreeOff d1 d1'
  | [], d, d', d1, d1', _, _, ha, h, h' => by
    simp [cherrypickSkip] at h h'; subst h; subst h'; exact ha
  | f :: fs, d, d', d1, d1', hx, hr, ha, h, h' => by
    obtain ⟨hh, rest, rfl, hne⟩ := hx (f) List.mem_cons_self
    have hx' : ExtraAvoids "metadata" fs := fun g hg => hx g (List.mem_cons_of_mem _ hg)
    have hr' := fun g hg => hr g (List.mem_cons_of_mem _ hg)
    have hrf := hr _ List.mem_cons_self
    simp only [cherrypickSkip] at h h'
    rcases cherrypick_one_agree src src' hne hrf ha with ⟨x, x', hc, hc', a1⟩ | ⟨e, hc, hc'⟩
    · rw [hc] at h; rw [hc'] at h'
      exact cherrypickSkip_agree src src' fs x x' d1 d1' hx' hr' a1 h h'
    · rw [hc] at h; rw [hc'] at h'
      cases e <;> simp only [] at h h' <;>
        first | exact cherrypickSkip_agree src src' fs d d' d1 d1' hx' hr' ha h h' | cases h

/-- cherry-picking `metadata.*` fields changes nothing off `metadata`. -/
theorem picks_off {src d d1 : J} (h : cherrypick src d [ML, MA] = .ok d1) (ho : d.isObj = true) :
    d1.isObj = true ∧ ∀ k, k ≠ "metadata" → d1.get? k = d.get? k := by
  have hav : ∀ k, k ≠ "metadata" → ExtraAvoids k [ML, MA] := by
    intro k hk f hf
    simp at hf
    rcases hf with rfl | rfl
    · exact ⟨"metadata", ["labels"], rfl, Ne.symm hk⟩
    · exact ⟨"metadata", ["annotations"], rfl, Ne.symm hk⟩
  refine ⟨(cherrypick_keeps src "zzz" _ _ _ (hav "zzz" (by decide)) h ho).2, ?_⟩
  intro k hk
  exact (cherrypick_keeps src k _ _ _ (hav k hk) h ho).1

theorem removeEmptyStanzas_status (l : Kvs) :
    (removeEmptyStanzas (.obj l)).get? "status" = match lookup "status" l with
      | some v => if v.truthy then some v else none
      | none => none := by
  simp only [removeEmptyStanzas]
  obtain ⟨l1, h1, g1⟩ := metaDropIfFalsy_obj l "annotations"
  have s1 : lookup "status" l1 = lookup "status" l := by
    have := metaDropIfFalsy_get? (.obj l) "annotations" (k := "status") (by decide)
    rw [h1] at this; simpa [get?] using this
  rw [h1]
  obtain ⟨l2, h2, g2⟩ := metaDropIfFalsy_obj l1 "labels"
  have s2 : lookup "status" l2 = lookup "status" l1 := by
    have := metaDropIfFalsy_get? (.obj l1) "labels" (k := "status") (by decide)
    rw [h2] at this; simpa [get?] using this
  rw [h2]
  obtain ⟨l3, h3, _, o3⟩ := dropIfFalsy_obj_same l2 "metadata"
  rw [h3]
  obtain ⟨l4, h4, g4, _⟩ := dropIfFalsy_obj_same l3 "status"
  rw [h4]
  simp only [get?]
  rw [g4, o3 "status" (by decide), s2, s1]
  cases lookup "status" l with
  | none => rfl
  | some v => rfl

theorem removeEmptyStanzas_agree {l l' : Kvs} (ha : AgreeOff (.obj l) (.obj l')) :
    AgreeOff (removeEmptyStanzas (.obj l)) (removeEmptyStanzas (.obj l')) := by
  refine ⟨removeEmptyStanzas_isObj l, removeEmptyStanzas_isObj l', fun k hk => ?_⟩
  by_cases hs : k = "status"
  · subst hs
    rw [removeEmptyStanzas_status, removeEmptyStanzas_status]
    have : lookup "status" l = lookup "status" l' := by simpa [get?] using ha.2.2 "status" (by decide)
    rw [this]
  · rw [removeEmptyStanzas_get? _ hk hs, removeEmptyStanzas_get? _ hk hs]
    exact ha.2.2 k hk

theorem filterAnnotations_agree (f f' : String → Bool) {l l' : Kvs} (ha : AgreeOff (.obj l) (.obj l')) :
    AgreeOff (filterAnnotations f (.obj l)) (filterAnnotations f' (.obj l')) :=
  ⟨filterAnnotations_isObj f l, filterAnnotations_isObj f' l', fun k hk => by
    rw [filterAnnotations_get? _ _ hk, filterAnnotations_get? _ _ hk]; exact ha.2.2 k hk⟩

def isEmptyObj : J → Bool
  | .obj [] => true
  | _ => false

def removeOut (h : String) (l : Kvs) (o : Option J) (k2 : String) (ks : List String) : Except DictErr J :=
  match o with
  | none => .ok (.obj l)
  | some child =>
    match remove child (k2 :: ks) with
    | .error e => .error e
    | .ok c' => .ok (if isEmptyObj c' then .obj (erase h l) else .obj (J.insert h c' l))

theorem remove_cons2 (l : Kvs) (h k2 : String) (ks : List String) :
    remove (.obj l) (h :: k2 :: ks) = removeOut h l (lookup h l) k2 ks := by
  simp only [remove, removeOut]
  cases lookup h l with
  | none => rfl
  | some child =>
    simp only []
    cases remove child (k2 :: ks) with
    | error e => rfl
    | ok c' =>
      cases c' with
      | obj kvs => cases kvs <;> rfl
      | _ => rfl

/-- `dicts.remove` at a field outside `metadata`: same outcome, results agree off `metadata`. -/
theorem remove_agree {d d' : J} {h : String} (rest : List String) (ha : AgreeOff d d') (hne : h ≠ "metadata") :
    match remove d (h :: rest), remove d' (h :: rest) with
    | .ok x, .ok x' => AgreeOff x x'
    | .error a, .error b => a = b
    | _, _ => False := by
  obtain ⟨ho, ho', hk⟩ := ha
  cases d with
  | obj l =>
    cases d' with
    | obj l' =>
      have hl : lookup h l = lookup h l' := by simpa [get?] using hk h hne
      have hoff : ∀ k, k ≠ "metadata" → lookup k l = lookup k l' := fun k hkk => by simpa [get?] using hk k hkk
      have herase : AgreeOff (.obj (erase h l)) (.obj (erase h l')) := by
        refine ⟨rfl, rfl, fun k hkne => ?_⟩
        by_cases e : k = h
        · subst e; simp [get?, lookup_erase_same]
        · simp only [get?, lookup_erase_other _ e]; exact hoff k hkne
      cases rest with
      | nil => simp only [remove]; exact herase
      | cons k2 ks =>
        rw [remove_cons2, remove_cons2, ← hl]
        cases hc : lookup h l with
        | none => simp only [removeOut]; exact ⟨rfl, rfl, fun k hkne => by simpa [get?] using hoff k hkne⟩
        | some child =>
          simp only [removeOut]
          cases remove child (k2 :: ks) with
          | error e => simp
          | ok c' =>
            simp only []
            by_cases hc' : isEmptyObj c' = true
            · simp only [hc', if_true]; exact herase
            · have hf : isEmptyObj c' = false := Bool.eq_false_iff.2 hc'
              simp only [hf, Bool.false_eq_true, if_false]
              refine ⟨rfl, rfl, fun k hkne => ?_⟩
              by_cases e : k = h
              · subst e; simp [get?, lookup_insert_same]
              · simp only [get?, lookup_insert_other _ _ e]; exact hoff k hkne
    | _ => simp [isObj] at ho'
  | _ => simp [isObj] at ho

theorem ignoreFields_agree : ∀ (ig : List (List String)) (e e' x x' : J), AvoidKey "metadata" ig → AgreeOff e e' →
    ignoreFields e ig = .ok x → ignoreFields e' ig = .ok x' → AgreeOff x x'
  | [], e, e', x, x', _, ha, h, h' => by simp [ignoreFields] at h h'; subst h; subst h'; exact ha
  | f :: fs, e, e', x, x', hav, ha, h, h' => by
    obtain ⟨hd, hhd, hne⟩ := hav f List.mem_cons_self
    have hav' : AvoidKey "metadata" fs := fun g hg => hav g (List.mem_cons_of_mem _ hg)
    cases f with
    | nil => simp at hhd
    | cons h0 rest =>
      simp at hhd; subst hhd
      have hr := remove_agree rest ha hne
      simp only [ignoreFields] at h h'
      cases h1 : remove e (h0 :: rest) with
      | ok y =>
        cases h2 : remove e' (h0 :: rest) with
        | ok y' =>
          rw [h1, h2] at hr; rw [h1] at h; rw [h2] at h'
          exact ignoreFields_agree fs y y' x x' hav' hr h h'
        | error b => rw [h1, h2] at hr; exact absurd hr id
      | error a =>
        cases h2 : remove e' (h0 :: rest) with
        | ok y' => rw [h1, h2] at hr; exact absurd hr id
        | error b =>
          rw [h1, h2] at hr; subst hr
          rw [h1] at h; rw [h2] at h'
          cases a <;> simp only [] at h h' <;> first | exact ignoreFields_agree fs e e' x x' hav' ha h h' | cases h

theorem isObj_obj {e : J} (h : e.isObj = true) : ∃ l, e = .obj l := by
  cases e <;> simp [isObj] at h
  exact ⟨_, rfl⟩

theorem baseBuild_agree {ig extra : List (List String)} {kvs kvs' : Kvs} {e e' : J}
    (he4 : erase4 kvs' = erase4 kvs) (hr : ∀ f, f ∈ extra → resolveE (.obj kvs) f = resolveE (.obj kvs') f)
    (hig : AvoidKey "metadata" ig) (hx : ExtraAvoids "metadata" extra)
    (h : baseBuild ig extra (.obj kvs) = .ok e) (h' : baseBuild ig extra (.obj kvs') = .ok e') : AgreeOff e e' := by
  rw [baseBuild_eq] at h h'
  rw [he4] at h'
  cases h1 : cherrypick (.obj kvs) (.obj (erase4 kvs)) [ML, MA] with
  | error er => rw [h1] at h; cases h
  | ok e1 =>
    cases h1' : cherrypick (.obj kvs') (.obj (erase4 kvs)) [ML, MA] with
    | error er => rw [h1'] at h'; cases h'
    | ok e1' =>
      rw [h1] at h; rw [h1'] at h'
      obtain ⟨o1, g1⟩ := picks_off h1 rfl
      obtain ⟨o1', g1'⟩ := picks_off h1' rfl
      obtain ⟨l1, rfl⟩ := isObj_obj o1
      obtain ⟨l1', rfl⟩ := isObj_obj o1'
      have a1 : AgreeOff (.obj l1) (.obj l1') := ⟨rfl, rfl, fun k hk => (g1 k hk).trans (g1' k hk).symm⟩
      simp only [tailBuild] at h h'
      split at h
      · cases h
      · split at h'
        · cases h'
        · have a2 : AgreeOff (stage2 (.obj l1)) (stage2 (.obj l1')) := by
            unfold stage2; exact filterAnnotations_agree _ _ a1
          cases h3 : cherrypickSkip (.obj kvs) (stage2 (.obj l1)) extra with
          | error er => rw [h3] at h; cases h
          | ok e3 =>
            cases h3' : cherrypickSkip (.obj kvs') (stage2 (.obj l1')) extra with
            | error er => rw [h3'] at h'; cases h'
            | ok e3' =>
              rw [h3] at h; rw [h3'] at h'
              simp only [] at h h'
              have a3 := cherrypickSkip_agree _ _ extra _ _ _ _ hx hr a2 h3 h3'
              obtain ⟨l3, rfl⟩ := isObj_obj a3.1
              obtain ⟨l3', rfl⟩ := isObj_obj a3.2.1
              split at h
              · cases h
              · split at h'
                · cases h'
                · exact ignoreFields_agree ig _ _ e e' hig (removeEmptyStanzas_agree a3) h h'

theorem progressClear_agree : ∀ (pc : ProgressCfg) (e e' x x' : J), AvoidKey "metadata" (progressFields pc) →
    AgreeOff e e' → progressClear e pc = .ok x → progressClear e' pc = .ok x' → AgreeOff x x'
  | [], e, e', x, x', _, ha, h, h' => by simp [progressClear] at h h'; subst h; subst h'; exact ha
  | .annotations q :: pc, e, e', x, x', hav, ha, h, h' => by
    simp only [progressClear] at h h'
    obtain ⟨e1, h1, h2⟩ := bind_ok h
    obtain ⟨e1', h1', h2'⟩ := bind_ok h'
    simp only [clearLeaf] at h1 h1'
    obtain ⟨l, rfl⟩ := isObj_obj ha.1
    obtain ⟨l', rfl⟩ := isObj_obj ha.2.1
    split at h1
    · cases h1
    · split at h1'
      · cases h1'
      · cases h1; cases h1'
        have a1 := filterAnnotations_agree (fun k => !underPrefix q.toList k) (fun k => !underPrefix q.toList k) ha
        obtain ⟨l1, hl1⟩ := isObj_obj a1.1
        obtain ⟨l1', hl1'⟩ := isObj_obj a1.2.1
        rw [hl1, hl1'] at a1
        rw [hl1] at h2; rw [hl1'] at h2'
        exact progressClear_agree pc _ _ x x' hav (removeEmptyStanzas_agree a1) h2 h2'
  | .status f t :: pc, e, e', x, x', hav, ha, h, h' => by
    simp only [progressClear] at h h'
    obtain ⟨e1, h1, h2⟩ := bind_ok h
    obtain ⟨e1', h1', h2'⟩ := bind_ok h'
    simp only [clearLeaf] at h1 h1'
    obtain ⟨e0, h0, h3⟩ := bind_ok h1
    obtain ⟨e0', h0', h3'⟩ := bind_ok h1'
    obtain ⟨hd, hhd, hne⟩ := hav f List.mem_cons_self
    obtain ⟨td, thd, tne⟩ := hav t (List.mem_cons_of_mem _ List.mem_cons_self)
    have hr := ignoreFields_agree [f, t] e e' e0 e0' (avoidKey_two hhd thd hne tne) ha h0 h0'
    cases hobj : e0.isObj with
    | false => rw [hr.1] at hobj; cases hobj
    | true =>
      obtain ⟨l0, rfl⟩ := isObj_obj hr.1
      obtain ⟨l0', rfl⟩ := isObj_obj hr.2.1
      cases hm : metaOK (.obj l0) with
      | false => simp [hm, throw, throwThe, MonadExceptOf.throw, bind, Except.bind] at h3
      | true =>
        cases hm' : metaOK (.obj l0') with
        | false => simp [hm', throw, throwThe, MonadExceptOf.throw, bind, Except.bind] at h3'
        | true =>
          simp [hm, pure, Except.pure] at h3
          simp [hm', pure, Except.pure] at h3'
          subst h3; subst h3'
          exact progressClear_agree pc _ _ x x' (fun g hg => hav g (List.mem_cons_of_mem _ (List.mem_cons_of_mem _ hg)))
            (removeEmptyStanzas_agree hr) h2 h2'

/-! ### Part B: the metadata stanza, explicitly, for a single annotations diff-base storage -/

def progOK : ProgressCfg → String → Bool
  | [], _ => true
  | .annotations q :: pc, k => !underPrefix q.toList k && progOK pc k
  | .status _ _ :: pc, k => progOK pc k

theorem filtK_filtK (f g : String → Bool) (a : Kvs) : filtK f (filtK g a) = filtK (fun k => g k && f k) a := by
  simp [filtK, List.filter_filter, Bool.and_comm]

theorem progress_meta {L : Option J} : ∀ (pc : ProgressCfg) (l : Kvs) (A : Option Kvs) (e : J),
    lookup "metadata" l = N L A → AvoidKey "metadata" (progressFields pc) →
    progressClear (.obj l) pc = .ok e → e.get? "metadata" = N L (A.map (filtK (progOK pc)))
  | [], l, A, e, hl, _, h => by
    simp [progressClear] at h; subst h
    have : A.map (filtK (progOK [])) = A := by
      cases A with
      | none => rfl
      | some a => simp [filtK, progOK]
    rw [this]; simpa [get?] using hl
  | .annotations q :: pc, l, A, e, hl, hav, h => by
    simp only [progressClear] at h
    obtain ⟨e1, h1, h2⟩ := bind_ok h
    simp only [clearLeaf] at h1
    split at h1
    · cases h1
    · cases h1
      have hg := filter_clean_meta (fun k => !underPrefix q.toList k) hl
      have a1 := filterAnnotations_agree (fun k => !underPrefix q.toList k) (fun k => !underPrefix q.toList k)
        (agreeOff_refl (e := .obj l) rfl)
      obtain ⟨l2, hl2⟩ := isObj_obj a1.1
      have ho := removeEmptyStanzas_isObj l2
      rw [← hl2] at ho
      obtain ⟨l1, hl1⟩ := isObj_obj ho
      rw [hl1] at h2 hg
      have := progress_meta pc l1 _ e (by simpa [get?] using hg) hav h2
      rw [this]
      cases A with
      | none => rfl
      | some a => simp [filtK_filtK, progOK]
  | .status f t :: pc, l, A, e, hl, hav, h => by
    simp only [progressClear] at h
    obtain ⟨e1, h1, h2⟩ := bind_ok h
    simp only [clearLeaf] at h1
    obtain ⟨e0, h0, h3⟩ := bind_ok h1
    obtain ⟨hd, hhd, hne⟩ := hav f List.mem_cons_self
    obtain ⟨td, thd, tne⟩ := hav t (List.mem_cons_of_mem _ List.mem_cons_self)
    have g0 : e0.get? "metadata" = (J.obj l).get? "metadata" :=
      ignoreFields_get? "metadata" [f, t] _ e0 (avoidKey_two hhd thd hne tne) h0
    obtain ⟨l0, rfl⟩ := isObj_obj (ignoreFields_isObj [f, t] (.obj l) e0 rfl h0)
    cases hm : metaOK (.obj l0) with
    | false => simp [hm, throw, throwThe, MonadExceptOf.throw, bind, Except.bind] at h3
    | true =>
      simp [hm, pure, Except.pure] at h3
      subst h3
      obtain ⟨l1, hl1, g1⟩ := removeEmptyStanzas_meta l0
      rw [hl1] at h2
      have hl1' : lookup "metadata" l1 = N L A := by
        rw [g1]
        have : lookup "metadata" l0 = N L A := by simpa [get?, hl] using g0
        rw [this, cleanM_N]
      have := progress_meta pc l1 A e hl1' (fun g hg => hav g (List.mem_cons_of_mem _ (List.mem_cons_of_mem _ hg))) h2
      rw [this]
      cases A <;> simp [progOK]

/-! ### Part C: assembling -/

theorem progOK_false_of_under : ∀ (pc : ProgressCfg) (k q : String), q ∈ progressPrefixes pc →
    underPrefix q.toList k = true → progOK pc k = false
  | [], _, _, hq, _ => by simp [progressPrefixes] at hq
  | .annotations q0 :: pc, k, q, hq, hu => by
    simp only [progressPrefixes, List.mem_cons] at hq
    rcases hq with rfl | hq
    · simp [progOK, hu]
    · simp [progOK, progOK_false_of_under pc k q hq hu]
  | .status _ _ :: pc, k, q, hq, hu => by
    simp only [progressPrefixes] at hq
    simp [progOK, progOK_false_of_under pc k q hq hu]

theorem mP_congr_unmarked {A A' : Kvs} {k0 : String} (hd : AgreeOffKey k0 A' A) (hmark : markedPrefix? k0 = none)
    {p : List Char} (hp : p ∈ markedPrefixes (keys A')) : p ∈ markedPrefixes (keys A) := by
  obtain ⟨x, hx, hmx⟩ := mem_markedPrefixes.1 hp
  have hne : x ≠ k0 := by
    intro e; subst e; rw [hmark] at hmx; cases hmx
  have hd' : A.filter (fun kv => kv.1 != k0) = A'.filter (fun kv => kv.1 != k0) := by
    unfold AgreeOffKey at hd; exact hd.symm
  exact mem_markedPrefixes.2 ⟨x, mem_keys_of_filter hd' hne hx, hmx⟩

theorem keepA_congr_unmarked {A A' : Kvs} {k0 : String} (hd : AgreeOffKey k0 A' A) (hmark : markedPrefix? k0 = none)
    (k : String) : keepA A' k = keepA A k := by
  have hds : AgreeOffKey k0 A A' := by unfold AgreeOffKey at hd ⊢; exact hd.symm
  have hany : (markedPrefixes (keys A')).any (fun p => underPrefix p k) =
      (markedPrefixes (keys A)).any (fun p => underPrefix p k) := by
    rw [Bool.eq_iff_iff, dropped_iff, dropped_iff]
    constructor
    · rintro ⟨p, hp, hm⟩; exact ⟨p, hp, mP_congr_unmarked hd hmark hm⟩
    · rintro ⟨p, hp, hm⟩; exact ⟨p, hp, mP_congr_unmarked hds hmark hm⟩
  unfold keepA keepAnnotation
  rw [hany]

theorem own_filter_eq {A A' : Kvs} {k0 : String} {ks : List String} {pc : ProgressCfg}
    (hd : AgreeOffKey k0 A' A) (hmark : markedPrefix? k0 = none)
    (hown : k0 ∈ ks ∨ progOK pc k0 = false) :
    filtK (progOK pc) (leafAnn ks A') = filtK (progOK pc) (leafAnn ks A) := by
  unfold leafAnn
  rw [filtK_filtK, filtK_filtK, filtK_filtK, filtK_filtK]
  have hfun : (fun k => keepA A' k && (notIn ks k && progOK pc k)) = (fun k => keepA A k && (notIn ks k && progOK pc k)) := by
    funext k; rw [keepA_congr_unmarked hd hmark k]
  rw [hfun]
  have hk0 : (keepA A k0 && (notIn ks k0 && progOK pc k0)) = false := by
    rcases hown with h | h
    · have : notIn ks k0 = false := by simp [notIn, h]
      simp [this]
    · simp [h]
  unfold filtK
  have himp : ∀ (B : Kvs) x, x ∈ B → (keepA A x.1 && (notIn ks x.1 && progOK pc x.1)) = true → (x.1 != k0) = true := by
    intro B x _ hx
    by_cases e : x.1 = k0
    · rw [e, hk0] at hx; cases hx
    · exact bne_iff_ne.2 e
  have hd0 : A'.filter (fun kv => kv.1 != k0) = A.filter (fun kv => kv.1 != k0) := hd
  rw [filter_eq_of_imp (fun kv : String × J => keepA A kv.1 && (notIn ks kv.1 && progOK pc kv.1)) (fun kv => kv.1 != k0) A' (himp A'),
    filter_eq_of_imp (fun kv : String × J => keepA A kv.1 && (notIn ks kv.1 && progOK pc kv.1)) (fun kv => kv.1 != k0) A (himp A), hd0]

theorem oeqv_refl (o : Option J) (h : ∀ v, o = some v → wf v = true) : oeqv o o := by
  cases o with
  | none => simp [oeqv, dnOpt, optRel]
  | some v => exact (optRel_dn_some v v).2 (eqv_refl v (h v rfl))

theorem eqv_of_lookup_eq {le le' : Kvs} (hw : wfKvs le = true) (hw' : wfKvs le' = true)
    (h : ∀ k, lookup k le = lookup k le') : same (dropNulls (.obj le)) (dropNulls (.obj le')) = true := by
  rw [eqv_obj_iff hw hw']
  intro k
  rw [← h k]
  exact oeqv_refl _ (fun v hv => wf_of_lookup hw hv)

theorem bodyLabels_withAnn {kvs m A' : Kvs} (hm : lookup "metadata" kvs = some (.obj m)) :
    bodyLabels (withAnn kvs m A') = bodyLabels kvs := by
  simp [bodyLabels, withAnn, lookup_insert_same, hm, lookup_insert_other _ m (by decide : "labels" ≠ "annotations")]

theorem bodyAnn_withAnn {kvs m A' : Kvs} : bodyAnn (withAnn kvs m A') = some A' := by
  simp [bodyAnn, withAnn, lookup_insert_same]

theorem bodyAnn_of {kvs m A : Kvs} (hm : lookup "metadata" kvs = some (.obj m)) (ha : lookup "annotations" m = some (.obj A)) :
    bodyAnn kvs = some A := by
  simp [bodyAnn, hm, ha]

/-- **own key under an unmarked prefix**: with a single `AnnotationsDiffBaseStorage`, setting /
    changing / removing one of its exact keys, or a key under an annotations progress prefix, leaves
    the essence the same mapping: the diff of the two essences is empty. -/
theorem own_key_unmarked_diff_nil {cfg : Cfg} {extra : List (List String)} {kvs m A A' : Kvs} {k0 p key : String}
    {v1 : Bool} {ig : List (List String)} {mk : List Char} {ks : List String} {e e' : J}
    (hcfg : cfg.diffbase = .leaf (.annotations p key v1 ig)) (hplain : MetaPlain cfg extra)
    (hm : lookup "metadata" kvs = some (.obj m)) (ha : lookup "annotations" m = some (.obj A))
    (hd : AgreeOffKey k0 A' A) (hmark : markedPrefix? k0 = none)
    (hmk : markKey (.obj kvs) key.toList = .ok mk) (hks : makeKeys cfg.hashes v1 p.toList mk = .ok ks)
    (hown : k0 ∈ ks ∨ ∃ q, q ∈ progressPrefixes cfg.progress ∧ underPrefix q.toList k0 = true)
    (hw : wf (.obj kvs) = true) (hw' : wf (.obj (withAnn kvs m A')) = true)
    (h : essence cfg extra (.obj kvs) = .ok e) (h' : essence cfg extra (.obj (withAnn kvs m A')) = .ok e') :
    diff e e' [] = [] := by
  obtain ⟨hdf, hpf, hx⟩ := hplain
  have hwe := wf_essence hw h
  have hwe' := wf_essence hw' h'
  have hown' : k0 ∈ ks ∨ progOK cfg.progress k0 = false := by
    rcases hown with h1 | ⟨q, hq, hu⟩
    · exact Or.inl h1
    · exact Or.inr (progOK_false_of_under _ _ _ hq hu)
  simp only [essence, hcfg, diffbaseBuild] at h h'
  rw [hcfg] at hdf
  have hdf' : AvoidKey "metadata" (leafFields (.annotations p key v1 ig)) := hdf
  obtain ⟨e1, h1, h2⟩ := bind_ok h
  obtain ⟨e1', h1', h2'⟩ := bind_ok h'
  -- metadata stanza, explicitly
  obtain ⟨o1, mk0, ks0, hmk0, hks0, g1⟩ := leafBuild_meta (.annotations p key v1 ig) (src_body kvs) hdf' hx h1
  obtain ⟨o1', mk0', ks0', hmk0', hks0', g1'⟩ := leafBuild_meta (.annotations p key v1 ig) (src_body (withAnn kvs m A')) hdf' hx h1'
  have hdrs : markKey (.obj (withAnn kvs m A')) key.toList = markKey (.obj kvs) key.toList := by
    simp only [markKey, isDRS_withAnn hm]
  rw [hmk] at hmk0; cases hmk0
  rw [hdrs, hmk] at hmk0'; cases hmk0'
  rw [hks] at hks0; cases hks0
  rw [hks] at hks0'; cases hks0'
  rw [bodyAnn_of hm ha] at g1
  rw [bodyLabels_withAnn hm, bodyAnn_withAnn] at g1'
  obtain ⟨l1, rfl⟩ := isObj_obj o1
  obtain ⟨l1', rfl⟩ := isObj_obj o1'
  have gm := progress_meta cfg.progress l1 _ e (by simpa [get?] using g1) hpf h2
  have gm' := progress_meta cfg.progress l1' _ e' (by simpa [get?] using g1') hpf h2'
  have hmeta : e.get? "metadata" = e'.get? "metadata" := by
    rw [gm, gm']
    simp only [Option.map_some]
    rw [own_filter_eq hd hmark hown']
  -- everything else
  have hoff : AgreeOff e e' := by
    simp only [leafBuild] at h1 h1'
    obtain ⟨b1, hb1, h3⟩ := bind_ok h1
    obtain ⟨mk1, _, h4⟩ := bind_ok h3
    obtain ⟨ks1, _, h5⟩ := bind_ok h4
    obtain ⟨b1', hb1', h3'⟩ := bind_ok h1'
    obtain ⟨mk1', _, h4'⟩ := bind_ok h3'
    obtain ⟨ks1', _, h5'⟩ := bind_ok h4'
    have ab := baseBuild_agree (erase4_insert_metadata _ kvs)
      (fun f hf => (resolveE_withAnn_other (A' := A') hm f (Or.inl (hx f hf))).symm) hdf' hx hb1 hb1'
    obtain ⟨lb, rfl⟩ := isObj_obj ab.1
    obtain ⟨lb', rfl⟩ := isObj_obj ab.2.1
    cases hmo : metaOK (.obj lb) with
    | false => simp [hmo, throw, throwThe, MonadExceptOf.throw, bind, Except.bind] at h5
    | true =>
      cases hmo' : metaOK (.obj lb') with
      | false => simp [hmo', throw, throwThe, MonadExceptOf.throw, bind, Except.bind] at h5'
      | true =>
        simp [hmo, pure, Except.pure] at h5
        simp [hmo', pure, Except.pure] at h5'
        have af := filterAnnotations_agree (fun k => !ks1.contains k) (fun k => !ks1'.contains k) ab
        obtain ⟨lf, hlf⟩ := isObj_obj af.1
        obtain ⟨lf', hlf'⟩ := isObj_obj af.2.1
        rw [hlf, hlf'] at af
        have ar := removeEmptyStanzas_agree af
        have e1eq : Kopf.J.obj l1 = removeEmptyStanzas (.obj lf) := by
          rw [← hlf]; exact h5.symm
        have e1eq' : Kopf.J.obj l1' = removeEmptyStanzas (.obj lf') := by
          rw [← hlf']; exact h5'.symm
        rw [← e1eq, ← e1eq'] at ar
        exact progressClear_agree cfg.progress _ _ e e' hpf ar h2 h2'
  obtain ⟨le, rfl⟩ := isObj_obj hoff.1
  obtain ⟨le', rfl⟩ := isObj_obj hoff.2.1
  have hall : ∀ k, lookup k le = lookup k le' := by
    intro k
    by_cases hk : k = "metadata"
    · subst hk; simpa [get?] using hmeta
    · simpa [get?] using hoff.2.2 k hk
  exact (diff_nil_iff _ _ [] hwe hwe').2 (eqv_of_lookup_eq (by simpa [wf] using hwe) (by simpa [wf] using hwe') hall)

end Kopf.C04
