/-
  The ranking function of the closed loop and the proof that every turn with a pending event
  strictly decreases it (when every invocation yields a final outcome).
-/
import Kopf.Lemmas.C03_Loop
namespace Kopf.C03
open Kopf Kopf.C02

/-- well-formed environment: selected handlers are registered ones; latency ≥ 0; keepalive cap > 0 -/
structure WF (env : Env) : Prop where
  sub : ∀ c, ∀ i ∈ env.sel c, i ∈ env.owned
  lat : 0 ≤ env.lat
  cap : 0 < env.cap

/-- "handlers stop failing": from now on every invocation yields a final outcome -/
def AllFinal (env : Env) : Prop := ∀ i n, (env.exec i n).final = true

/-! ### after a pass with a handler reason, no stored record carries a superseded purpose -/

theorem noExtras_of_extras_false {cfg : Cfg} {P : Store} {now : Tick}
    (hex : extras cfg P now = false) : NoExtras cfg P := by
  intro i ho r hP
  unfold extras hasExtras at hex
  rw [List.any_eq_false] at hex
  have hk : i ∈ known cfg := by simp [known, ho]
  have := hex i hk
  have hst : ∃ h, withHandlers (fromStorage P cfg.owned) cfg.selected cfg.reason now i = some h ∧ h.r = r := by
    unfold withHandlers fromStorage
    by_cases hs : i ∈ cfg.selected <;> simp [hs, ho, hP]
  obtain ⟨h, hh, hr'⟩ := hst
  simp only [hh, hr'] at this
  cases hp : r.purpose with
  | none => exact Or.inl rfl
  | some q =>
    right
    simp [hp] at this
    rw [this]

theorem noExtras_after (cfg : Cfg) (P : Store) (now now1 : Tick) (exec : Id → Nat → Outcome)
    (hsub : ∀ i ∈ cfg.selected, i ∈ cfg.owned)
    (hr : handlerReasons.contains cfg.reason = true) (hne : cfg.selected.isEmpty = false) :
    NoExtras cfg (cycle cfg P now now1 exec).P' := by
  by_cases hex : extras cfg P now = true
  · rw [cycle_main cfg P now now1 exec hr hne]
    intro i ho r hP'
    simp only at hP'
    by_cases hd : done (postState cfg P now now1 exec) (known cfg) = true
    · simp [hd, purge, ho] at hP'
    · simp only [hd, Bool.false_eq_true, if_false] at hP'
      unfold store at hP'
      cases hpost : postState cfg P now now1 exec i with
      | none => simp [hpost, midStore, hex, purge, ho] at hP'
      | some h =>
        simp only [hpost] at hP'
        by_cases hdirty : h.dirty = true
        · simp only [hdirty, if_true, Option.some.injEq] at hP'
          subst hP'
          exact Or.inr (postState_dirty_selected ho hex hpost hdirty)
        · simp [hdirty, midStore, hex, purge, ho] at hP'
  · have hex' : extras cfg P now = false := by simpa using hex
    exact noExtras_preserved cfg P now now1 exec hsub (noExtras_of_extras_false hex')

/-! ### the components of the ranking function, over a handler list -/

def Uv (l : List Id) (P : Store) : Nat := (l.filter (unfin P)).length
def Av (l : List Id) (P : Store) (t : Tick) : Nat := if l.any (awakeP P t) then 0 else 1
def Cv (cap : Tick) (l : List Id) (P : Store) (t : Tick) : Nat := (l.map (slack cap P t)).sum

theorem Av_le_one (l : List Id) (P : Store) (t : Tick) : Av l P t ≤ 1 := by
  unfold Av; split <;> omega

theorem U_pos_of_awake {l : List Id} {P : Store} {t : Tick} {i : Id} (hi : i ∈ l) (ha : awakeP P t i = true) :
    1 ≤ Uv l P := by
  unfold Uv
  have : i ∈ l.filter (unfin P) := by simp [hi, awake_unfin ha]
  exact List.length_pos_of_mem this

theorem two_U_add_A_pos (l : List Id) (P : Store) (t : Tick) : 1 ≤ 2 * Uv l P + Av l P t := by
  by_cases h : l.any (awakeP P t) = true
  · rw [List.any_eq_true] at h
    obtain ⟨i, hi, ha⟩ := h
    have := U_pos_of_awake hi ha
    omega
  · simp [Av, h]

section OpenStep
variable (cfg : Cfg) (P : Store) (now : Tick) (exec : Id → Nat → Outcome)
variable (hsub : ∀ i ∈ cfg.selected, i ∈ cfg.owned) (hu : UniformOn cfg.owned P)
variable (hr : handlerReasons.contains cfg.reason = true) (hne : cfg.selected.isEmpty = false)
variable (hopen : (cycle cfg P now now exec).closed = false)
variable (hfin : ∀ i n, (exec i n).final = true)
include hsub hu hr hne hopen hfin

theorem open_U_le : Uv cfg.selected (cycle cfg P now now exec).P' ≤ Uv cfg.selected P := by
  unfold Uv
  apply filter_length_le_of_imp
  intro i hi h
  rw [open_unfin cfg P now now exec hsub hu hr hne hopen hfin i hi] at h
  simp only [Bool.and_eq_true] at h
  exact h.1

theorem open_U_lt (i : Id) (hi : i ∈ cfg.selected) (ha : awakeP P now i = true) :
    Uv cfg.selected (cycle cfg P now now exec).P' < Uv cfg.selected P := by
  obtain ⟨j, hj⟩ := planned_ne_nil hsub hi ha
  obtain ⟨hjs, hja⟩ := planned_sub hsub hj
  unfold Uv
  apply filter_length_lt_of_imp _ _ _ _ j hjs (awake_unfin hja)
  · rw [open_unfin cfg P now now exec hsub hu hr hne hopen hfin j hjs]
    simp [hj]
  · intro k hk h
    rw [open_unfin cfg P now now exec hsub hu hr hne hopen hfin k hk] at h
    simp only [Bool.and_eq_true] at h
    exact h.1

theorem open_C_le (cap now' : Tick) (hle : now ≤ now') :
    Cv cap cfg.selected (cycle cfg P now now exec).P' now' ≤ Cv cap cfg.selected P now := by
  unfold Cv
  apply sum_map_le
  intro i hi
  exact open_slack cfg P now now exec hsub hu hr hne hopen hfin cap now' hle i hi

end OpenStep

/-! ### the ranking function -/

variable {E : Type} [DecidableEq E]

def isHandler (s : State E) : Bool := handlerReasons.contains (C14.reasonStr (causeOf s).reason)

/-- Upper bound on the number of further turns of the loop:
    2·(selected handlers still unfinished) + (1 if none of them is due now) + (1 if superseded records
    are still to be re-purposed) + 1 (the echo of the closing PATCH) + the keepalive rounds of delays
    longer than the cap. A function of the state only. -/
def bound (env : Env) (s : State E) : Nat :=
  if !s.pending then 0
  else if !env.prematch then 1
  else if !isHandler s then 1
  else 2 * Uv (env.sel (causeOf s)) s.P + Av (env.sel (causeOf s)) s.P s.now
       + (if extras (cfgOf env s) s.P s.now then 1 else 0) + 1
       + Cv env.cap (env.sel (causeOf s)) s.P s.now

def changedOf (env : Env) (s : State E) : Bool :=
  (ids env).any (fun i => (pass env s).P' i != s.P i) ||
    decide ((if (pass env s).closed then some s.ess else s.base) ≠ s.base)

/-- the state after a turn that processed an event -/
def nextState (env : Env) (s : State E) (now' : Tick) (pend : Bool) (w : Nat) : State E :=
  { s with P := (pass env s).P', base := (if (pass env s).closed then some s.ess else s.base),
           fullyHandled := (s.fullyHandled || (pass env s).closed), now := now', pending := pend, writes := w }

theorem loopStep_cases (env : Env) (s : State E) (hp : s.pending = true) (hpm : env.prematch = true) :
    (changedOf env s = true ∧ loopStep env s = nextState env s (s.now + env.lat) true (s.writes + 1)) ∨
    (∃ d, changedOf env s = false ∧ minDelay (pass env s).delays = some d ∧
      loopStep env s = nextState env s (s.now + (if d > env.cap then env.cap else d) + env.lat) true (s.writes + 1)) ∨
    (changedOf env s = false ∧ minDelay (pass env s).delays = none ∧
      loopStep env s = nextState env s s.now false s.writes) := by
  unfold nextState
  by_cases hch : changedOf env s = true
  · left
    refine ⟨hch, ?_⟩
    unfold changedOf at hch
    unfold loopStep
    simp only [hp, hpm, Bool.not_true, Bool.false_eq_true, if_false]
    rw [if_pos hch]
  · have hch' : changedOf env s = false := by simpa using hch
    right
    unfold changedOf at hch
    cases hm : minDelay (pass env s).delays with
    | some d =>
      left
      refine ⟨d, hch', rfl, ?_⟩
      unfold loopStep
      simp only [hp, hpm, Bool.not_true, Bool.false_eq_true, if_false]
      rw [if_neg hch]
      simp only [hm]
    | none =>
      right
      refine ⟨hch', rfl, ?_⟩
      unfold loopStep
      simp only [hp, hpm, Bool.not_true, Bool.false_eq_true, if_false]
      rw [if_neg hch]
      simp only [hm]

theorem closed_next_not_handler (s' : State E) (hb : s'.base = some s'.ess) (hf : s'.fullyHandled = true) :
    isHandler s' = false := by
  unfold isHandler causeOf
  simp [hb, hf, C05.detect, C05.detectReason, C14.reasonStr]
  decide

theorem bound_le_one_of_closed (env : Env) (s' : State E) (hb : s'.base = some s'.ess) (hf : s'.fullyHandled = true) :
    bound env s' ≤ 1 := by
  unfold bound
  rw [closed_next_not_handler s' hb hf]
  split
  · omega
  · split <;> simp


theorem causeOf_congr (s s' : State E) (h1 : s'.base = s.base) (h2 : s'.ess = s.ess)
    (h3 : s'.noticed = s.noticed) (h4 : s'.fullyHandled = s.fullyHandled) : causeOf s' = causeOf s := by
  unfold causeOf
  rw [h1, h2, h3, h4]

theorem bound_of_open (env : Env) (s s' : State E) (hc : causeOf s' = causeOf s) (hp' : s'.pending = true)
    (hpm : env.prematch = true) (hh : isHandler s = true) :
    bound env s' = 2 * Uv (env.sel (causeOf s)) s'.P + Av (env.sel (causeOf s)) s'.P s'.now
      + (if extras (cfgOf env s) s'.P s'.now then 1 else 0) + 1
      + Cv env.cap (env.sel (causeOf s)) s'.P s'.now := by
  have hh' : isHandler s' = true := by unfold isHandler; rw [hc]; exact hh
  have hcfg : cfgOf env s' = cfgOf env s := by unfold cfgOf; rw [hc]
  unfold bound
  simp only [hp', hpm, hh', hc, hcfg, Bool.not_true, Bool.false_eq_true, if_false]

theorem bound_not_pending (env : Env) (s' : State E) (h : s'.pending = false) : bound env s' = 0 := by
  unfold bound; simp [h]

theorem nat_slack_lt (a b c : Nat) (hc : 0 < c) (hca : c ≤ a) (hb : b ≤ a - c) : b / c < a / c := by
  have h1 : a / c = (a - c) / c + 1 := Nat.div_eq_sub_div hc hca
  have h2 : b / c ≤ (a - c) / c := Nat.div_le_div_right hb
  omega

theorem int_slack_lt (dd now cap lat : Int) (hcap : 0 < cap) (hlat : 0 ≤ lat) (h : cap < dd - now) :
    (dd - (now + cap + lat)).toNat / cap.toNat < (dd - now).toNat / cap.toNat := by
  apply nat_slack_lt
  · omega
  · omega
  · omega

theorem int_le_add (a b : Int) (h : 0 ≤ b) : a ≤ a + b := by omega
theorem int_le_add2 (a b c : Int) (hb : 0 < b) (hc : 0 ≤ c) : a ≤ a + b + c := by omega
theorem int_le_add3 (a b c : Int) (hb : 0 ≤ b) (hc : 0 ≤ c) : a ≤ a + b + c := by omega
theorem int_delay_nonneg (now dd d : Int) (h1 : now < dd) (h2 : d = dd - now) : 0 ≤ d := by omega
theorem int_cap_lt (cap d dd now : Int) (h1 : cap < d) (h2 : d = dd - now) : cap < dd - now := by omega
theorem int_wake (dd now d lat : Int) (h1 : d = dd - now) (h2 : 0 ≤ lat) : ¬ (dd > now + d + lat) := by omega

theorem int_sleep_le (now d cap lat : Int) (hd : 0 ≤ d) (hcap : 0 < cap) (hlat : 0 ≤ lat) :
    now ≤ now + (if d > cap then cap else d) + lat := by
  split <;> omega

/-- Every turn of the loop that consumes an event strictly decreases the bound. -/
theorem step_decreases (env : Env) (wf : WF env) (hfin : AllFinal env) (s : State E)
    (hu : UniformOn env.owned s.P) (hp : s.pending = true) :
    bound env (loopStep env s) < bound env s := by
  by_cases hpm : env.prematch = true
  rotate_left
  · have hpm' : env.prematch = false := by simpa using hpm
    have : loopStep env s = { s with pending := false } := by
      unfold loopStep; simp [hp, hpm']
    rw [this]
    unfold bound
    simp [hp, hpm']
  by_cases hh : isHandler s = true
  rotate_left
  · -- no handler reason (no-op): nothing is written, nothing is pending afterwards
    have hh' : isHandler s = false := by simpa using hh
    have hpass : pass env s = { invoked := [], P' := s.P, closed := false, delays := [] } :=
      cycle_not_handler_reason (cfgOf env s) s.P s.now s.now env.exec hh'
    have hnc : changedOf env s = false := by
      unfold changedOf
      rw [hpass]
      simp
    have hb : bound env s = 1 := by unfold bound; simp [hp, hpm, hh']
    rcases loopStep_cases env s hp hpm with ⟨h, _⟩ | ⟨d, _, hm, _⟩ | ⟨_, _, h⟩
    · rw [hnc] at h; cases h
    · rw [hpass] at hm; simp [minDelay] at hm
    · rw [h, hb, bound_not_pending _ _ rfl]; omega
  -- a handler reason
  have hsub : ∀ i ∈ (cfgOf env s).selected, i ∈ (cfgOf env s).owned := fun i hi => wf.sub _ i hi
  have hr : handlerReasons.contains (cfgOf env s).reason = true := hh
  have hb : bound env s = 2 * Uv (env.sel (causeOf s)) s.P + Av (env.sel (causeOf s)) s.P s.now
      + (if extras (cfgOf env s) s.P s.now then 1 else 0) + 1 + Cv env.cap (env.sel (causeOf s)) s.P s.now :=
    bound_of_open env s s rfl hp hpm hh
  have hpos := two_U_add_A_pos (env.sel (causeOf s)) s.P s.now
  by_cases hc : (pass env s).closed = true
  · -- the closing pass: afterwards at most the echo of its PATCH is processed
    have h1 : bound env (loopStep env s) ≤ 1 := by
      rcases loopStep_cases env s hp hpm with ⟨_, h⟩ | ⟨d, _, _, h⟩ | ⟨_, _, h⟩ <;> rw [h] <;>
        apply bound_le_one_of_closed <;> simp [nextState, hc]
    omega
  -- an open pass
  have hc' : (pass env s).closed = false := by simpa using hc
  have hne : (cfgOf env s).selected.isEmpty = false := by
    cases he : (cfgOf env s).selected.isEmpty
    · rfl
    · exfalso
      have := cycle_no_handlers (cfgOf env s) s.P s.now s.now env.exec hr he
      unfold pass at hc'
      rw [this] at hc'
      cases hc'
  have hopen : (cycle (cfgOf env s) s.P s.now s.now env.exec).closed = false := hc'
  have hsel : (cfgOf env s).selected = env.sel (causeOf s) := rfl
  have hULe : Uv (env.sel (causeOf s)) (pass env s).P' ≤ Uv (env.sel (causeOf s)) s.P :=
    open_U_le (cfgOf env s) s.P s.now env.exec hsub hu hr hne hopen hfin
  have hX : ∀ now', extras (cfgOf env s) (pass env s).P' now' = false := fun now' =>
    noExtras_extras hsub (noExtras_after (cfgOf env s) s.P s.now s.now env.exec hsub hr hne)
  have hbase : (if (pass env s).closed then some s.ess else s.base) = s.base := by simp [hc']
  have hfh : (s.fullyHandled || (pass env s).closed) = s.fullyHandled := by simp [hc']
  -- bound of the next state, whenever an event is pending there
  have key : ∀ (now' : Tick) (w : Nat), s.now ≤ now' →
      bound env (nextState env s now' true w)
        = 2 * Uv (env.sel (causeOf s)) (pass env s).P' + Av (env.sel (causeOf s)) (pass env s).P' now' + 0 + 1
          + Cv env.cap (env.sel (causeOf s)) (pass env s).P' now' ∧
        Cv env.cap (env.sel (causeOf s)) (pass env s).P' now' ≤ Cv env.cap (env.sel (causeOf s)) s.P s.now := by
    intro now' w hle
    constructor
    · have hcz : causeOf (nextState env s now' true w) = causeOf s :=
        causeOf_congr s _ hbase rfl rfl hfh
      rw [bound_of_open env s _ hcz rfl hpm hh]
      simp only [nextState, hX now', Bool.false_eq_true, if_false]
    · exact open_C_le (cfgOf env s) s.P s.now env.exec hsub hu hr hne hopen hfin env.cap now' hle
  have hAle : ∀ now', Av (env.sel (causeOf s)) (pass env s).P' now' ≤ 1 := fun _ => Av_le_one _ _ _
  by_cases haw : (env.sel (causeOf s)).any (awakeP s.P s.now) = true
  · -- somebody is due: at least one handler reaches its final outcome
    rw [List.any_eq_true] at haw
    obtain ⟨i, hi, ha⟩ := haw
    have hULt : Uv (env.sel (causeOf s)) (pass env s).P' < Uv (env.sel (causeOf s)) s.P :=
      open_U_lt (cfgOf env s) s.P s.now env.exec hsub hu hr hne hopen hfin i hi ha
    rcases loopStep_cases env s hp hpm with ⟨_, h⟩ | ⟨d, _, hm, h⟩ | ⟨_, _, h⟩
    · rw [h]
      have hle : s.now ≤ s.now + env.lat := int_le_add s.now env.lat wf.lat
      obtain ⟨k1, k2⟩ := key _ (s.writes + 1) hle
      have := hAle (s.now + env.lat)
      rw [k1, hb]; omega
    · rw [h]
      have hd : 0 ≤ d := by
        have hmem := minDelay_mem _ _ hm
        unfold pass at hmem
        rw [cycle_main _ _ _ _ _ hr hne] at hmem
        exact delays_nonneg _ _ _ d hmem
      have hle := int_sleep_le s.now d env.cap env.lat hd wf.cap wf.lat
      obtain ⟨k1, k2⟩ := key _ (s.writes + 1) hle
      have := hAle (s.now + (if d > env.cap then env.cap else d) + env.lat)
      rw [k1, hb]; omega
    · rw [h, hb, bound_not_pending _ _ rfl]; omega
  have hna : ∀ i ∈ (cfgOf env s).selected, awakeP s.P s.now i = false := by
    intro i hi
    cases hv : awakeP s.P s.now i
    · rfl
    · exfalso; apply haw; rw [List.any_eq_true]; exact ⟨i, hi, hv⟩
  have hA : Av (env.sel (causeOf s)) s.P s.now = 1 := by simp [Av, haw]
  by_cases hex : extras (cfgOf env s) s.P s.now = true
  · -- nobody is due, superseded records are re-purposed
    rcases loopStep_cases env s hp hpm with ⟨_, h⟩ | ⟨d, _, hm, h⟩ | ⟨_, _, h⟩
    · rw [h]
      have hle : s.now ≤ s.now + env.lat := int_le_add s.now env.lat wf.lat
      obtain ⟨k1, k2⟩ := key _ (s.writes + 1) hle
      have := hAle (s.now + env.lat)
      rw [k1, hb, hA]; simp only [hex, if_true]; omega
    · rw [h]
      have hd : 0 ≤ d := by
        have hmem := minDelay_mem _ _ hm
        unfold pass at hmem
        rw [cycle_main _ _ _ _ _ hr hne] at hmem
        exact delays_nonneg _ _ _ d hmem
      have hle := int_sleep_le s.now d env.cap env.lat hd wf.cap wf.lat
      obtain ⟨k1, k2⟩ := key _ (s.writes + 1) hle
      have := hAle (s.now + (if d > env.cap then env.cap else d) + env.lat)
      rw [k1, hb, hA]; simp only [hex, if_true]; omega
    · rw [h, hb, bound_not_pending _ _ rfl]; omega
  -- nobody is due, nothing to re-purpose: the pass leaves the object alone; sleep, then touch
  have hex' : extras (cfgOf env s) s.P s.now = false := by simpa using hex
  have hid : ∀ j, (pass env s).P' j = s.P j :=
    fun j => sleep_pass_id hsub hr hne hopen hex' hna j
  have hnc : changedOf env s = false := by
    unfold changedOf
    rw [hbase]
    simp [hid]
  rcases loopStep_cases env s hp hpm with ⟨h, _⟩ | ⟨d, _, hm, h⟩ | ⟨_, _, h⟩
  · rw [hnc] at h; cases h
  · have hmem := minDelay_mem _ _ hm
    obtain ⟨i, hi, r, dd, hP, hrf, hrd, hlt, hdeq⟩ :=
      sleep_pass_delay (exec := env.exec) hsub hr hne hex' hna d hmem
    have hd : 0 ≤ d := int_delay_nonneg s.now dd d hlt hdeq
    by_cases hcap : d > env.cap
    · -- the delay exceeds the keepalive cap: one keepalive round is consumed
      rw [if_pos hcap] at h
      rw [h]
      have hle : s.now ≤ s.now + env.cap + env.lat := int_le_add2 s.now env.cap env.lat wf.cap wf.lat
      obtain ⟨k1, k2⟩ := key _ (s.writes + 1) hle
      have hstrict : Cv env.cap (env.sel (causeOf s)) (pass env s).P' (s.now + env.cap + env.lat)
          < Cv env.cap (env.sel (causeOf s)) s.P s.now := by
        unfold Cv
        apply sum_map_lt _ _ _ _ i hi
        · unfold slack
          rw [hid i, hP]
          simp only [hrf, Bool.false_eq_true, if_false, hrd]
          exact int_slack_lt dd s.now env.cap env.lat wf.cap wf.lat (int_cap_lt env.cap d dd s.now hcap hdeq)
        · intro k hk
          exact open_slack (cfgOf env s) s.P s.now s.now env.exec hsub hu hr hne hopen hfin env.cap _ hle k hk
      have hA' := hAle (s.now + env.cap + env.lat)
      rw [k1, hb, hA]
      simp only [hex', Bool.false_eq_true, if_false]
      omega
    · -- the whole delay is slept: that handler is due at the next event
      rw [if_neg hcap] at h
      rw [h]
      have hle : s.now ≤ s.now + d + env.lat := int_le_add3 s.now d env.lat hd wf.lat
      obtain ⟨k1, k2⟩ := key _ (s.writes + 1) hle
      have hAw : Av (env.sel (causeOf s)) (pass env s).P' (s.now + d + env.lat) = 0 := by
        unfold Av
        have : (env.sel (causeOf s)).any (awakeP (pass env s).P' (s.now + d + env.lat)) = true := by
          rw [List.any_eq_true]
          refine ⟨i, hi, ?_⟩
          unfold awakeP
          rw [hid i, hP]
          simp only [Rec.awakened, Rec.sleeping, hrf, hrd, Bool.not_false, Bool.true_and, Bool.not_eq_true',
            decide_eq_false_iff_not]
          exact int_wake dd s.now d env.lat hdeq wf.lat
        simp [this]
      rw [k1, hb, hA, hAw]
      simp only [hex', Bool.false_eq_true, if_false]
      omega
  · rw [h, hb, bound_not_pending _ _ rfl]; omega

end Kopf.C03
