/-
  The ranking function of the closed loop and the proof that every turn with a pending event
  strictly decreases it (when every invocation yields a final outcome).
-/
import Kopf.Lemmas.C03_Loop
namespace Kopf.C03
open Kopf Kopf.C02

/-! ### after a pass with a handler reason, no stored record carries a superseded purpose -/

theorem noExtras_of_extras_false {cfg : Cfg} {P : Store} {now : Tick}
    (hex : extras cfg P now = false) : NoExtras cfg P := by
  intro i ho r hP
  unfold extras hasExtras at hex
  rw [List.any_eq_false] at hex
  have hk : i ∈ known cfg := by simp [known, ho]
  have := hex i hk
  have hst : ∃ h, withHandlers (fromStorage P cfg.owned) cfg.selected cfg.reason now i = some h ∧ h.r = r := by
    unfold withHandlers fromStorage
    by_cases hs : i ∈ cfg.selected <;> simp [hs, ho, hP]
  obtain ⟨h, hh, hr'⟩ := hst
  simp only [hh, hr'] at this
  cases hp : r.purpose with
  | none => exact Or.inl rfl
  | some q =>
    right
    simp [hp] at this
    rw [this]

theorem noExtras_after (cfg : Cfg) (P : Store) (now now1 : Tick) (exec : Id → Nat → Outcome)
    (hsub : ∀ i ∈ cfg.selected, i ∈ cfg.owned)
    (hr : handlerReasons.contains cfg.reason = true) (hne : cfg.selected.isEmpty = false) :
    NoExtras cfg (cycle cfg P now now1 exec).P' := by
  by_cases hex : extras cfg P now = true
  · rw [cycle_main cfg P now now1 exec hr hne]
    intro i ho r hP'
    simp only at hP'
    by_cases hd : done (postState cfg P now now1 exec) (known cfg) = true
    · simp [hd, purge, ho] at hP'
    · simp only [hd, Bool.false_eq_true, if_false] at hP'
      unfold store at hP'
      cases hpost : postState cfg P now now1 exec i with
      | none =>
        simp only [hpost] at hP'
        exfalso
        have hPi := midStore_some hP'
        have hpre : ∃ h0, preState cfg P now i = some h0 := by
          unfold preState
          by_cases hs : i ∈ cfg.selected <;>
            by_cases hx : hasExtras (withHandlers (fromStorage P cfg.owned) cfg.selected cfg.reason now)
                (known cfg) cfg.reason = true <;>
            simp [hx, repurpose, withHandlers, fromStorage, hs, ho, hPi]
        obtain ⟨h0, hp0⟩ := hpre
        obtain ⟨h1, hp1, _⟩ := postState_of_pre (now1 := now1) (exec := exec) hp0
        rw [hpost] at hp1
        cases hp1
      | some h =>
        simp only [hpost] at hP'
        by_cases hdirty : h.dirty = true
        · simp only [hdirty, if_true, Option.some.injEq] at hP'
          subst hP'
          exact Or.inr (postState_dirty_selected ho hex hpost hdirty)
        · have hdirty' : h.dirty = false := by simpa using hdirty
          simp only [hdirty', Bool.false_eq_true, if_false] at hP'
          have hPi := midStore_some hP'
          have hpost' := hpost
          unfold postState at hpost'
          obtain ⟨h0, hp0, _, heq⟩ := execOnce_st_some hpost'
          have h0eq := heq hdirty'
          subst h0eq
          by_cases hs : i ∈ cfg.selected
          · rw [preState_extras_selected hex hs ho hPi] at hp0
            cases hp0
            right
            simpa using hdirty'
          · exact midStore_unselected_purpose ho hs hP'
  · have hex' : extras cfg P now = false := by simpa using hex
    exact noExtras_preserved cfg P now now1 exec hsub (noExtras_of_extras_false hex')

/-! ### the components of the ranking function, over a handler list -/

theorem Av_le_one (l : List Id) (P : Store) (t : Tick) : Av l P t ≤ 1 := by
  unfold Av; split <;> omega

theorem U_pos_of_awake {l : List Id} {P : Store} {t : Tick} {i : Id} (hi : i ∈ l) (ha : awakeP P t i = true) :
    1 ≤ Uv l P := by
  unfold Uv
  have : i ∈ l.filter (unfin P) := by simp [hi, awake_unfin ha]
  exact List.length_pos_of_mem this

theorem two_U_add_A_pos (l : List Id) (P : Store) (t : Tick) : 1 ≤ 2 * Uv l P + Av l P t := by
  by_cases h : l.any (awakeP P t) = true
  · rw [List.any_eq_true] at h
    obtain ⟨i, hi, ha⟩ := h
    have := U_pos_of_awake hi ha
    omega
  · simp [Av, h]

section OpenStep
variable (cfg : Cfg) (P : Store) (now : Tick) (exec : Id → Nat → Outcome)
variable (hsub : ∀ i ∈ cfg.selected, i ∈ cfg.owned) (hu : UniformOn cfg.owned P)
variable (hr : handlerReasons.contains cfg.reason = true) (hne : cfg.selected.isEmpty = false)
variable (hopen : (cycle cfg P now now exec).closed = false)
variable (hfin : PlanFinal cfg P now exec)
include hsub hu hr hne hopen hfin

theorem open_U_le : Uv cfg.selected (cycle cfg P now now exec).P' ≤ Uv cfg.selected P := by
  unfold Uv
  apply filter_length_le_of_imp
  intro i hi h
  rw [open_unfin cfg P now now exec hsub hu hr hne hopen hfin i hi] at h
  simp only [Bool.and_eq_true] at h
  exact h.1

theorem open_U_lt (i : Id) (hi : i ∈ cfg.selected) (ha : awakeP P now i = true) :
    Uv cfg.selected (cycle cfg P now now exec).P' < Uv cfg.selected P := by
  obtain ⟨j, hj⟩ := planned_ne_nil hsub hi ha
  obtain ⟨hjs, hja⟩ := planned_sub hsub hj
  unfold Uv
  apply filter_length_lt_of_imp _ _ _ _ j hjs (awake_unfin hja)
  · rw [open_unfin cfg P now now exec hsub hu hr hne hopen hfin j hjs]
    simp [hj]
  · intro k hk h
    rw [open_unfin cfg P now now exec hsub hu hr hne hopen hfin k hk] at h
    simp only [Bool.and_eq_true] at h
    exact h.1

theorem open_C_le (cap now' : Tick) (hle : now ≤ now') :
    Cv cap cfg.selected (cycle cfg P now now exec).P' now' ≤ Cv cap cfg.selected P now := by
  unfold Cv
  apply sum_map_le
  intro i hi
  exact open_slack cfg P now now exec hsub hu hr hne hopen hfin cap now' hle i hi

end OpenStep

/-! ### the ranking function of the handling proper -/

variable {E : Type} [DecidableEq E]

theorem extrasOf_eq (env : Env) (s : State E) : extrasOf env s = extras (cfgOf env s) (vis env s) s.now := rfl

/-! ### the records the pass takes over (f7d6401) -/

theorem pass_eq (env : Env) (s : State E) :
    pass env s = cycle (cfgOf env s) (vis env s) s.now s.now env.exec := rfl

/-- for an informational cause nothing is left out -/
theorem vis_info (env : Env) (s : State E) (hh : isHandler s = false) : vis env s = s.P :=
  taken_info (cfgOf env s) _ s.P hh

theorem vis_uniform (env : Env) (s : State E) (hu : UniformOn env.owned s.P) : UniformOn env.owned (vis env s) :=
  taken_uniform (cfg := cfgOf env s) hu

/-- inside an open cycle (no record of another cause's purpose) nothing is left out -/
theorem vis_of_noExtras (env : Env) (s : State E) (hne : NoExtras (cfgOf env s) s.P) : vis env s = s.P :=
  taken_of_noExtras hne

theorem vis_some (env : Env) (s : State E) {i : Id} {r : Rec} (h : vis env s i = some r) : s.P i = some r :=
  taken_some h

theorem vis_norec (env : Env) (s : State E) (hn : ∀ i ∈ env.owned, s.P i = none) : vis env s = s.P := by
  funext j
  cases hl : leftOut (cfgOf env s) (env.boundH (causeOf s)) s.P j
  · exact taken_of_not_leftOut hl
  · obtain ⟨_, ho, _, _, r, hP, _⟩ := leftOut_iff.1 hl
    rw [hn j ho] at hP; cases hP

/-- a handler whose record is left out is due: if nobody is due, nothing is left out -/
theorem vis_eq_of_none_awake (env : Env) (s : State E)
    (hna : ∀ i ∈ selOf env s, awakeP (vis env s) s.now i = false) : vis env s = s.P := by
  funext j
  cases hl : leftOut (cfgOf env s) (env.boundH (causeOf s)) s.P j
  · exact taken_of_not_leftOut hl
  · exfalso
    obtain ⟨_, _, hs, _⟩ := leftOut_iff.1 hl
    have := hna j hs
    unfold awakeP at this
    rw [show vis env s j = none from taken_of_leftOut hl] at this
    cases this

/-- the bound of a state that is not gone and needs no finalizer adjustment -/
def hbound (env : Env) (s : State E) : Nat := if !s.pending then 0 else core env s

theorem handleTurn_cases (env : Env) (s : State E) :
    (changedOf env s = true ∧ handleTurn env s = nextState env s (s.now + env.lat) true (s.writes + 1)) ∨
    (∃ d, changedOf env s = false ∧ minDelay (pass env s).delays = some d ∧
      handleTurn env s = nextState env s (s.now + (if d > env.cap then env.cap else d) + (latS env)) true (s.writes + cp env + 1)) ∨
    (changedOf env s = false ∧ minDelay (pass env s).delays = none ∧
      handleTurn env s = nextState env s s.now false (s.writes + cp env)) := by
  by_cases hch : changedOf env s = true
  · left
    exact ⟨hch, by unfold handleTurn; rw [if_pos hch]⟩
  · have hch' : changedOf env s = false := by simpa using hch
    right
    cases hm : minDelay (pass env s).delays with
    | some d =>
      left
      refine ⟨d, hch', rfl, ?_⟩
      unfold handleTurn
      rw [if_neg hch]
      simp only [hm]
    | none =>
      right
      refine ⟨hch', rfl, ?_⟩
      unfold handleTurn
      rw [if_neg hch]
      simp only [hm]

/-- a purge of records that are not there changes nothing -/
theorem noop_pass_id {cfg : Cfg} {P : Store} {now now1 : Tick} {exec : Id → Nat → Outcome}
    (hr : handlerReasons.contains cfg.reason = false) (hn : ∀ i ∈ cfg.owned, P i = none) (j : Id) :
    (cycle cfg P now now1 exec).P' j = P j := by
  rw [cycle_not_handler_reason cfg P now now1 exec hr]
  simp only
  split
  · have hfs : ∀ k, fromStorage P cfg.owned k = none := by
      intro k
      unfold fromStorage
      by_cases hk : k ∈ cfg.owned
      · simp [hk, hn k hk]
      · simp [hk]
    unfold purge
    by_cases hj : j ∈ cfg.owned
    · simp [hj, hn j hj]
    · have h2 : (cfg.owned.any fun k => k == j && (fromStorage P cfg.owned k).isSome) = false := by
        rw [List.any_eq_false]; intro k _; simp [hfs k]
      have h3 : allSubrefs (fromStorage P cfg.owned) cfg.owned = [] := by
        unfold allSubrefs
        simp [hfs]
      simp [hj, h2, h3]
  · rfl

/-! ### the purge of leftovers on a FREE object (40d09eb) -/

theorem purged_owned (env : Env) (s : State E) {i : Id} (hi : i ∈ env.owned) : purged env s i = none := by
  unfold purged purge
  simp [hi]

theorem purged_id_of_norec (env : Env) (s : State E) (hn : ∀ i ∈ env.owned, s.P i = none) (j : Id) :
    purged env s j = s.P j := by
  have hfs : ∀ k, fromStorage s.P env.owned k = none := by
    intro k
    unfold fromStorage
    by_cases hk : k ∈ env.owned
    · simp [hk, hn k hk]
    · simp [hk]
  unfold purged purge
  by_cases hj : j ∈ env.owned
  · simp [hj, hn j hj]
  · have h2 : (env.owned.any fun k => k == j && (fromStorage s.P env.owned k).isSome) = false := by
      rw [List.any_eq_false]; intro k _; simp [hfs k]
    have h3 : allSubrefs (fromStorage s.P env.owned) env.owned = [] := by
      unfold allSubrefs
      simp [hfs]
    simp [hj, h2, h3]

theorem leftovers_false_of_norec (env : Env) (s : State E) (hn : ∀ i ∈ env.owned, s.P i = none) :
    leftovers env s = false := by
  unfold leftovers
  rw [List.any_eq_false]
  intro i _
  simp [purged_id_of_norec env s hn i]

theorem norec_of_leftovers_false (env : Env) (s : State E) (h : leftovers env s = false) :
    ∀ i ∈ env.owned, s.P i = none := by
  intro i hi
  unfold leftovers at h
  rw [List.any_eq_false] at h
  have := h i (by simp [ids, hi])
  rw [purged_owned env s hi] at this
  cases hP : s.P i with
  | none => rfl
  | some r => simp [hP] at this

theorem leftovers_congr (env : Env) (s s' : State E) (hP : s'.P = s.P) : leftovers env s' = leftovers env s := by
  unfold leftovers purged; rw [hP]

theorem purged_uniform (env : Env) (s : State E) : UniformOn env.owned (purged env s) :=
  ⟨"", fun i hi r h => by rw [purged_owned env s hi] at h; cases h⟩

/-- the shape of the turn without handlers on a FREE object -/
theorem purgeTurn_cases (env : Env) (s : State E) :
    (leftovers env s = true ∧
      purgeTurn env s = { s with P := purged env s, now := s.now + env.lat, pending := true, writes := s.writes + 1 }) ∨
    (leftovers env s = false ∧ purgeTurn env s = { s with pending := false, writes := s.writes + cp env }) := by
  unfold purgeTurn
  cases h : leftovers env s <;> simp

theorem purgeTurn_norec_next (env : Env) (s : State E) : leftovers env (purgeTurn env s) = false := by
  rcases purgeTurn_cases env s with ⟨_, h⟩ | ⟨hl, h⟩ <;> rw [h]
  · exact leftovers_false_of_norec env _ (fun i hi => purged_owned env s hi)
  · exact (leftovers_congr env s _ rfl).trans hl

/-- after an informational pass no owned record is left, if the cause is the no-op; otherwise nothing moved -/
theorem info_pass_twice {cfg : Cfg} {P : Store} {now now1 now' now1' : Tick} {exec : Id → Nat → Outcome}
    (hr : handlerReasons.contains cfg.reason = false) (j : Id) :
    (cycle cfg (cycle cfg P now now1 exec).P' now' now1' exec).P' j = (cycle cfg P now now1 exec).P' j := by
  by_cases hn : (cfg.reason == "noop") = true
  · apply noop_pass_id hr
    intro i hi
    rw [cycle_not_handler_reason cfg P now now1 exec hr]
    simp [hn, purge, hi]
  · have hn' : (cfg.reason == "noop") = false := by simpa using hn
    rw [cycle_not_handler_reason_keeps cfg _ now' now1' exec hr hn']

theorem info_pass_twice' {cfg cfg' : Cfg} {P : Store} {now now1 now' now1' : Tick} {exec : Id → Nat → Outcome}
    (ho : cfg'.owned = cfg.owned) (hrs : cfg'.reason = cfg.reason)
    (hr : handlerReasons.contains cfg.reason = false) (j : Id) :
    (cycle cfg' (cycle cfg P now now1 exec).P' now' now1' exec).P' j = (cycle cfg P now now1 exec).P' j := by
  have hr2 : handlerReasons.contains cfg'.reason = false := by rw [hrs]; exact hr
  have h1 := info_pass_twice (cfg := cfg) (P := P) (now := now) (now1 := now1) (now' := now') (now1' := now1')
    (exec := exec) hr j
  rw [cycle_not_handler_reason cfg' _ now' now1' exec hr2]
  rw [cycle_not_handler_reason cfg _ now' now1' exec hr] at h1
  simp only [ho, hrs]
  exact h1

theorem closed_next_not_handler (s' : State E) (hm : s'.marked = false) (hb : s'.base = some s'.ess)
    (hf : s'.fullyHandled = true) : isHandler s' = false := by
  unfold isHandler causeOf
  simp [hm, hb, hf, C05.detect, C05.detectReason, C14.reasonStr]
  decide

theorem changedOf_false_of_norec (env : Env) (s' : State E) (hh : isHandler s' = false)
    (hn : ∀ i ∈ env.owned, s'.P i = none) : changedOf env s' = false := by
  have hr : handlerReasons.contains (cfgOf env s').reason = false := hh
  have hid : ∀ j, (pass env s').P' j = s'.P j := by
    intro j; rw [pass_eq, vis_info env s' hh]; exact noop_pass_id hr hn j
  have hc : (pass env s').closed = false := (cycle_not_handler_reason_invoked _ _ _ _ _ hr).2
  unfold changedOf
  simp [hid, hc]

theorem hbound_le_one_of_closed (env : Env) (s' : State E) (hm : s'.marked = false)
    (hb : s'.base = some s'.ess) (hf : s'.fullyHandled = true) (hn : ∀ i ∈ env.owned, s'.P i = none) :
    hbound env s' ≤ 1 := by
  have hh := closed_next_not_handler s' hm hb hf
  unfold hbound core
  rw [hh, changedOf_false_of_norec env s' hh hn, leftovers_false_of_norec env s' hn]
  split
  · omega
  · split <;> simp

theorem causeOf_congr (s s' : State E) (h1 : s'.base = s.base) (h2 : s'.ess = s.ess)
    (h3 : s'.noticed = s.noticed) (h4 : s'.fullyHandled = s.fullyHandled)
    (h5 : s'.marked = s.marked) (h6 : s'.blocked = s.blocked) : causeOf s' = causeOf s := by
  unfold causeOf
  rw [h1, h2, h3, h4, h5, h6]

theorem selOf_sub (env : Env) (wf : WF env) (s : State E) : ∀ i ∈ selOf env s, i ∈ env.owned := by
  intro i hi
  unfold selOf at hi
  exact wf.sub _ i (List.mem_filter.1 hi).1

theorem Uv_filter_le (l : List Id) (p : Id → Bool) (P : Store) : Uv (l.filter p) P ≤ Uv l P := by
  unfold Uv
  rw [List.filter_filter]
  apply filter_length_le_of_imp
  intro x _ h
  simp only [Bool.and_eq_true] at h
  first | exact h.1 | exact h.2

theorem Cv_filter_le (cap : Tick) (l : List Id) (p : Id → Bool) (P : Store) (t : Tick) :
    Cv cap (l.filter p) P t ≤ Cv cap l P t := by
  unfold Cv
  induction l with
  | nil => simp
  | cons a as ih =>
    simp only [List.filter_cons]
    cases hp : p a <;> simp [hp] <;> omega

/-- after an open pass the selection can only lose resuming handlers that just finished -/
theorem selOf_next (env : Env) (s : State E) (hc : (pass env s).closed = false) (a : Tick) (b : Bool) (c : Nat) :
    selOf env (nextState env s a b c) =
      (selOf env s).filter (fun i => !(env.initialH i &&
        ((selOf env s).filter (fun j => env.initialH j && unfin (vis env s) j && !unfin (pass env s).P' j)).contains i)) := by
  have hcz : causeOf (nextState env s a b c) = causeOf s :=
    causeOf_congr s _ (by simp [nextState, hc]) rfl rfl (by simp [nextState, hc]) rfl rfl
  unfold selOf
  rw [hcz]
  show (env.sel (causeOf s)).filter (fun i => !(env.initialH i && (resumedAfter env s).contains i)) = _
  unfold resumedAfter
  simp only [hc, Bool.false_eq_true, if_false]
  rw [List.filter_filter]
  apply List.filter_congr
  intro i _
  unfold selOf
  cases env.initialH i <;> simp [List.contains_eq_mem, List.mem_append]
  exact Bool.and_comm _ _

theorem selOf_next_mem (env : Env) (s : State E) (hc : (pass env s).closed = false) (a : Tick) (b : Bool) (c : Nat)
    (i : Id) (hi : i ∈ selOf env s) (hu : unfin (pass env s).P' i = true) :
    i ∈ selOf env (nextState env s a b c) := by
  rw [selOf_next env s hc]
  rw [List.mem_filter]
  refine ⟨hi, ?_⟩
  cases hI : env.initialH i
  · simp
  · simp only [Bool.true_and, Bool.not_eq_true', List.contains_eq_mem, decide_eq_false_iff_not, List.mem_filter]
    intro h
    simp [hu] at h

theorem handler_not_free (s : State E) (hh : isHandler s = true) : (causeOf s).reason ≠ .free := by
  intro h
  unfold isHandler at hh
  rw [h] at hh
  exact absurd hh (by decide)

/-- the handling bound of an object the framework sees and that is not FREE -/
theorem core_handling (env : Env) (s : State E) (hpm : env.prematch = true) (hf : (causeOf s).reason ≠ .free) :
    core env s =
      if !isHandler s then (if changedOf env s then 2 else 1)
      else 2 * Uv (selOf env s) (vis env s) + Av (selOf env s) (vis env s) s.now
           + (if extrasOf env s then 1 else 0) + 1 + Cv env.cap (selOf env s) (vis env s) s.now := by
  unfold core
  simp [hpm, hf]

/-- the bound of a FREE turn (no handlers, leftovers purged) -/
theorem core_purging (env : Env) (s : State E) (hpm : env.prematch = true) (h : (causeOf s).reason = .free) :
    core env s = if leftovers env s then 2 else 1 := by
  unfold core
  simp [hpm, h]

/-- the bound of a blind turn (nothing is done) -/
theorem core_blind (env : Env) (s : State E) (hpm : env.prematch = false) : core env s = 1 := by
  unfold core
  simp [hpm]

theorem hbound_of_open (env : Env) (s' : State E) (hp' : s'.pending = true)
    (hpm : env.prematch = true) (hh' : isHandler s' = true) :
    hbound env s' = 2 * Uv (selOf env s') (vis env s') + Av (selOf env s') (vis env s') s'.now
      + (if extras (cfgOf env s') (vis env s') s'.now then 1 else 0) + 1
      + Cv env.cap (selOf env s') (vis env s') s'.now := by
  unfold hbound
  rw [core_handling env s' hpm (handler_not_free s' hh'), extrasOf_eq]
  simp only [hp', hh', Bool.not_true, Bool.false_eq_true, if_false]

theorem hbound_not_pending (env : Env) (s' : State E) (h : s'.pending = false) : hbound env s' = 0 := by
  unfold hbound; simp [h]

theorem closed_delays_nil (cfg : Cfg) (P : Store) (now now1 : Tick) (exec : Id → Nat → Outcome)
    (hc : (cycle cfg P now now1 exec).closed = true) : (cycle cfg P now now1 exec).delays = [] := by
  by_cases hr : handlerReasons.contains cfg.reason = true
  · cases he : cfg.selected.isEmpty
    · rw [cycle_main cfg P now now1 exec hr he] at hc ⊢
      simp only at hc ⊢
      unfold done at hc
      rw [List.all_eq_true] at hc
      unfold delays
      rw [List.filterMap_eq_nil_iff]
      intro i hi
      have hk : i ∈ known cfg := List.mem_eraseDups.1 hi
      have := hc i hk
      cases hst : postState cfg P now now1 exec i with
      | none => rfl
      | some h =>
        simp only [hst, Bool.or_eq_true, Bool.not_eq_true'] at this
        rcases this with h1 | h1 <;> simp [h1]
    · rw [cycle_no_handlers cfg P now now1 exec hr he]
  · have hr' : handlerReasons.contains cfg.reason = false := by simpa using hr
    rw [cycle_not_handler_reason cfg P now now1 exec hr']

theorem nat_slack_lt (a b c : Nat) (hc : 0 < c) (hca : c ≤ a) (hb : b ≤ a - c) : b / c < a / c := by
  have h1 : a / c = (a - c) / c + 1 := Nat.div_eq_sub_div hc hca
  have h2 : b / c ≤ (a - c) / c := Nat.div_le_div_right hb
  omega

theorem int_slack_lt (dd now cap lat : Int) (hcap : 0 < cap) (hlat : 0 ≤ lat) (h : cap < dd - now) :
    (dd - (now + cap + lat)).toNat / cap.toNat < (dd - now).toNat / cap.toNat := by
  apply nat_slack_lt
  · omega
  · omega
  · omega

theorem int_le_add (a b : Int) (h : 0 ≤ b) : a ≤ a + b := by omega
theorem int_le_add2 (a b c : Int) (hb : 0 < b) (hc : 0 ≤ c) : a ≤ a + b + c := by omega
theorem int_le_add3 (a b c : Int) (hb : 0 ≤ b) (hc : 0 ≤ c) : a ≤ a + b + c := by omega
theorem int_delay_nonneg (now dd d : Int) (h1 : now < dd) (h2 : d = dd - now) : 0 ≤ d := by omega
theorem int_cap_lt (cap d dd now : Int) (h1 : cap < d) (h2 : d = dd - now) : cap < dd - now := by omega
theorem int_wake (dd now d lat : Int) (h1 : d = dd - now) (h2 : 0 ≤ lat) : ¬ (dd > now + d + lat) := by omega

theorem latS_nonneg (env : Env) (wf : WF env) : 0 ≤ latS env := by
  unfold latS
  have h1 := wf.lat
  have h2 := wf.rtt
  split
  · exact Int.add_nonneg h2 h1
  · simpa using h1

theorem int_sleep_le (now d cap lat : Int) (hd : 0 ≤ d) (hcap : 0 < cap) (hlat : 0 ≤ lat) :
    now ≤ now + (if d > cap then cap else d) + lat := by
  split <;> omega

/-- A turn that runs the handling pass (and does not release the object) strictly decreases the
    handling bound. `hcm`: a closing pass on a marked object is a release turn, not this one. -/
theorem handle_decreases (env : Env) (wf : WF env) (s : State E) (hfin0 : PassFinal env s)
    (hu0 : UniformOn env.owned s.P) (hp : s.pending = true) (hpm : env.prematch = true)
    (hfr : (causeOf s).reason ≠ .free)
    (hcm : (pass env s).closed = true → s.marked = false) :
    hbound env (handleTurn env s) < hbound env s := by
  have hu : UniformOn env.owned (vis env s) := vis_uniform env s hu0
  by_cases hh : isHandler s = true
  rotate_left
  · -- an informational cause: leftover records are purged (no-op only), then nothing is pending
    have hh' : isHandler s = false := by simpa using hh
    have hr' : handlerReasons.contains (cfgOf env s).reason = false := hh'
    have hinv := cycle_not_handler_reason_invoked (cfgOf env s) (vis env s) s.now s.now env.exec hr'
    have hcl : (pass env s).closed = false := hinv.2
    have hdl : (pass env s).delays = [] := by
      unfold pass; rw [cycle_not_handler_reason _ _ _ _ _ hr']
    have hb : hbound env s = if changedOf env s then 2 else 1 := by
      unfold hbound; rw [core_handling env s hpm hfr]; simp [hp, hh']
    rcases handleTurn_cases env s with ⟨hch, h⟩ | ⟨d, _, hm, _⟩ | ⟨hch, _, h⟩
    · -- the purge PATCH; its echo finds nothing to purge
      rw [h, hb, hch]
      have hcz : causeOf (nextState env s (s.now + env.lat) true (s.writes + 1)) = causeOf s :=
        causeOf_congr s _ (by simp [nextState, hcl]) rfl rfl (by simp [nextState, hcl]) rfl rfl
      have hh2 : isHandler (nextState env s (s.now + env.lat) true (s.writes + 1)) = false := by
        unfold isHandler; rw [hcz]; exact hh'
      have hrs : (cfgOf env (nextState env s (s.now + env.lat) true (s.writes + 1))).reason = (cfgOf env s).reason := by
        show C14.reasonStr (causeOf (nextState env s (s.now + env.lat) true (s.writes + 1))).reason = _
        rw [hcz]; rfl
      have hr2 : handlerReasons.contains (cfgOf env (nextState env s (s.now + env.lat) true (s.writes + 1))).reason = false := by
        rw [hrs]; exact hr'
      have hnc2 : changedOf env (nextState env s (s.now + env.lat) true (s.writes + 1)) = false := by
        have hid : ∀ j, (pass env (nextState env s (s.now + env.lat) true (s.writes + 1))).P' j
            = (nextState env s (s.now + env.lat) true (s.writes + 1)).P j := by
          intro j
          rw [pass_eq, vis_info env _ hh2]
          show (cycle (cfgOf env (nextState env s (s.now + env.lat) true (s.writes + 1)))
            (cycle (cfgOf env s) (vis env s) s.now s.now env.exec).P' _ _ env.exec).P' j
              = (cycle (cfgOf env s) (vis env s) s.now s.now env.exec).P' j
          exact info_pass_twice' (cfg := cfgOf env s) (cfg' := cfgOf env (nextState env s (s.now + env.lat) true (s.writes + 1))) rfl hrs hr' j
        have hc2 : (pass env (nextState env s (s.now + env.lat) true (s.writes + 1))).closed = false := by
          unfold pass
          exact (cycle_not_handler_reason_invoked _ _ _ _ env.exec hr2).2
        unfold changedOf
        simp [hid, hc2]
      have : hbound env (nextState env s (s.now + env.lat) true (s.writes + 1)) = 1 := by
        unfold hbound
        rw [core_handling env _ hpm (by rw [hcz]; exact hfr), hh2, hnc2]
        simp [nextState]
      rw [this]; decide
    · rw [hdl] at hm; simp [minDelay] at hm
    · rw [h, hb, hbound_not_pending _ _ rfl, hch]; decide
  -- a handler reason
  have hsub : ∀ i ∈ (cfgOf env s).selected, i ∈ (cfgOf env s).owned := fun i hi => selOf_sub env wf s i hi
  have hr : handlerReasons.contains (cfgOf env s).reason = true := hh
  have hb : hbound env s = 2 * Uv (selOf env s) (vis env s) + Av (selOf env s) (vis env s) s.now
      + (if extras (cfgOf env s) (vis env s) s.now then 1 else 0) + 1 + Cv env.cap (selOf env s) (vis env s) s.now :=
    hbound_of_open env s hp hpm hh
  have hpos := two_U_add_A_pos (selOf env s) (vis env s) s.now
  by_cases hc : (pass env s).closed = true
  · -- the closing pass: afterwards at most the echo of its PATCH is processed
    have hmk := hcm hc
    have hnone : ∀ i ∈ env.owned, (pass env s).P' i = none := by
      cases he : (cfgOf env s).selected.isEmpty
      · exact closed_purges (cfgOf env s) (vis env s) s.now s.now env.exec hr he hc
      · exact (closed_purges_skip (cfgOf env s) (vis env s) s.now s.now env.exec hr he).2
    have h1 : hbound env (handleTurn env s) ≤ 1 := by
      rcases handleTurn_cases env s with ⟨_, h⟩ | ⟨d, _, _, h⟩ | ⟨_, _, h⟩ <;> rw [h] <;>
        apply hbound_le_one_of_closed <;> first | exact hnone | simp [nextState, hc, hmk]
    omega
  -- an open pass
  have hc' : (pass env s).closed = false := by simpa using hc
  have hne : (cfgOf env s).selected.isEmpty = false := by
    cases he : (cfgOf env s).selected.isEmpty
    · rfl
    · exfalso
      have := cycle_no_handlers (cfgOf env s) (vis env s) s.now s.now env.exec hr he
      unfold pass at hc'
      rw [this] at hc'
      cases hc'
  have hopen : (cycle (cfgOf env s) (vis env s) s.now s.now env.exec).closed = false := hc'
  have hfin : PlanFinal (cfgOf env s) (vis env s) s.now env.exec :=
    planFinal_of_invoked (now1 := s.now) hsub hu hr hne hfin0
  have hULe : Uv (selOf env s) (pass env s).P' ≤ Uv (selOf env s) (vis env s) :=
    open_U_le (cfgOf env s) (vis env s) s.now env.exec hsub hu hr hne hopen hfin
  have hX : ∀ now', extras (cfgOf env s) (pass env s).P' now' = false := fun now' =>
    noExtras_extras hsub (noExtras_after (cfgOf env s) (vis env s) s.now s.now env.exec hsub hr hne)
  have hbase : (if (pass env s).closed then some s.ess else s.base) = s.base := by simp [hc']
  have hfh : (s.fullyHandled || (pass env s).closed) = s.fullyHandled := by simp [hc']
  -- bound of the next state, whenever an event is pending there
  have key : ∀ (now' : Tick) (w : Nat), s.now ≤ now' →
      ∃ A', hbound env (nextState env s now' true w)
        = 2 * Uv (selOf env (nextState env s now' true w)) (pass env s).P' + A' + 0 + 1
          + Cv env.cap (selOf env (nextState env s now' true w)) (pass env s).P' now' ∧
        A' = Av (selOf env (nextState env s now' true w)) (pass env s).P' now' ∧
        Uv (selOf env (nextState env s now' true w)) (pass env s).P' ≤ Uv (selOf env s) (pass env s).P' ∧
        Cv env.cap (selOf env (nextState env s now' true w)) (pass env s).P' now' ≤ Cv env.cap (selOf env s) (pass env s).P' now' ∧
        Cv env.cap (selOf env (nextState env s now' true w)) (pass env s).P' now' ≤ Cv env.cap (selOf env s) (vis env s) s.now := by
    intro now' w hle
    have hcz : causeOf (nextState env s now' true w) = causeOf s :=
      causeOf_congr s _ hbase rfl rfl hfh rfl rfl
    have hh' : isHandler (nextState env s now' true w) = true := by unfold isHandler; rw [hcz]; exact hh
    have hsub' : ∀ i ∈ (cfgOf env (nextState env s now' true w)).selected,
        i ∈ (cfgOf env (nextState env s now' true w)).owned := fun i hi => selOf_sub env wf _ i hi
    have hne' : NoExtras (cfgOf env (nextState env s now' true w)) (pass env s).P' := by
      have h0 := noExtras_after (cfgOf env s) (vis env s) s.now s.now env.exec hsub hr hne
      intro i ho r hP
      have := h0 i ho r hP
      show r.purpose = none ∨ r.purpose = some (C14.reasonStr (causeOf (nextState env s now' true w)).reason)
      rw [hcz]
      exact this
    have hX' : extras (cfgOf env (nextState env s now' true w)) (pass env s).P' now' = false :=
      noExtras_extras hsub' hne'
    refine ⟨Av (selOf env (nextState env s now' true w)) (pass env s).P' now', ?_, rfl, ?_, ?_, ?_⟩
    · rw [hbound_of_open env _ rfl hpm hh', vis_of_noExtras env (nextState env s now' true w) hne']
      show 2 * Uv _ (pass env s).P' + Av _ (pass env s).P' now' +
        (if extras (cfgOf env (nextState env s now' true w)) (pass env s).P' now' = true then 1 else 0) + 1 + _ = _
      rw [hX']
      rfl
    · rw [selOf_next env s hc']; exact Uv_filter_le _ _ _
    · rw [selOf_next env s hc']; exact Cv_filter_le _ _ _ _ _
    · rw [selOf_next env s hc']
      exact Nat.le_trans (Cv_filter_le _ _ _ _ _)
        (open_C_le (cfgOf env s) (vis env s) s.now env.exec hsub hu hr hne hopen hfin env.cap now' hle)
  by_cases haw : (selOf env s).any (awakeP (vis env s) s.now) = true
  · -- somebody is due: at least one handler reaches its final outcome
    rw [List.any_eq_true] at haw
    obtain ⟨i, hi, ha⟩ := haw
    have hULt : Uv (selOf env s) (pass env s).P' < Uv (selOf env s) (vis env s) :=
      open_U_lt (cfgOf env s) (vis env s) s.now env.exec hsub hu hr hne hopen hfin i hi ha
    rcases handleTurn_cases env s with ⟨_, h⟩ | ⟨d, _, hm, h⟩ | ⟨_, _, h⟩
    · rw [h]
      have hle : s.now ≤ s.now + env.lat := int_le_add s.now env.lat wf.lat
      obtain ⟨A', k1, kA, kU, kCf, kC⟩ := key _ _ hle
      have hA' : A' ≤ 1 := by rw [kA]; exact Av_le_one _ _ _
      rw [k1, hb]; omega
    · rw [h]
      have hd : 0 ≤ d := by
        have hmem := minDelay_mem _ _ hm
        unfold pass at hmem
        rw [cycle_main _ _ _ _ _ hr hne] at hmem
        exact delays_nonneg _ _ _ d hmem
      have hle := int_sleep_le s.now d env.cap (latS env) hd wf.cap (latS_nonneg env wf)
      obtain ⟨A', k1, kA, kU, kCf, kC⟩ := key _ _ hle
      have hA' : A' ≤ 1 := by rw [kA]; exact Av_le_one _ _ _
      rw [k1, hb]; omega
    · rw [h, hb, hbound_not_pending _ _ rfl]; omega
  have hna : ∀ i ∈ (cfgOf env s).selected, awakeP (vis env s) s.now i = false := by
    intro i hi
    cases hv : awakeP (vis env s) s.now i
    · rfl
    · exfalso; apply haw; rw [List.any_eq_true]; exact ⟨i, hi, hv⟩
  have hA : Av (selOf env s) (vis env s) s.now = 1 := by simp [Av, haw]
  by_cases hex : extras (cfgOf env s) (vis env s) s.now = true
  · -- nobody is due, superseded records are re-purposed
    rcases handleTurn_cases env s with ⟨_, h⟩ | ⟨d, _, hm, h⟩ | ⟨_, _, h⟩
    · rw [h]
      have hle : s.now ≤ s.now + env.lat := int_le_add s.now env.lat wf.lat
      obtain ⟨A', k1, kA, kU, kCf, kC⟩ := key _ _ hle
      have hA' : A' ≤ 1 := by rw [kA]; exact Av_le_one _ _ _
      rw [k1, hb, hA]; simp only [hex, if_true]; omega
    · rw [h]
      have hd : 0 ≤ d := by
        have hmem := minDelay_mem _ _ hm
        unfold pass at hmem
        rw [cycle_main _ _ _ _ _ hr hne] at hmem
        exact delays_nonneg _ _ _ d hmem
      have hle := int_sleep_le s.now d env.cap (latS env) hd wf.cap (latS_nonneg env wf)
      obtain ⟨A', k1, kA, kU, kCf, kC⟩ := key _ _ hle
      have hA' : A' ≤ 1 := by rw [kA]; exact Av_le_one _ _ _
      rw [k1, hb, hA]; simp only [hex, if_true]; omega
    · rw [h, hb, hbound_not_pending _ _ rfl]; omega
  -- nobody is due, nothing to re-purpose: the pass leaves the object alone; sleep, then touch
  have hex' : extras (cfgOf env s) (vis env s) s.now = false := by simpa using hex
  have hid : ∀ j, (pass env s).P' j = (vis env s) j :=
    fun j => sleep_pass_id hsub hr hne hopen hex' hna j
  have hVP : vis env s = s.P := vis_eq_of_none_awake env s hna
  have hnc : changedOf env s = false := by
    unfold changedOf
    rw [hbase]
    have hid' : ∀ j, (pass env s).P' j = s.P j := fun j => by rw [hid j, hVP]
    simp [hid']
  rcases handleTurn_cases env s with ⟨h, _⟩ | ⟨d, _, hm, h⟩ | ⟨_, _, h⟩
  · rw [hnc] at h; cases h
  · have hmem := minDelay_mem _ _ hm
    obtain ⟨i, hi, r, dd, hP, hrf, hrd, hlt, hdeq⟩ :=
      sleep_pass_delay (exec := env.exec) hsub hr hne hex' hna d hmem
    have hd : 0 ≤ d := int_delay_nonneg s.now dd d hlt hdeq
    by_cases hcap : d > env.cap
    · -- the delay exceeds the keepalive cap: one keepalive round is consumed
      rw [if_pos hcap] at h
      rw [h]
      have hle : s.now ≤ s.now + env.cap + (latS env) := int_le_add2 s.now env.cap (latS env) wf.cap (latS_nonneg env wf)
      obtain ⟨A', k1, kA, kU, kCf, kC⟩ := key _ _ hle
      have hstrict : Cv env.cap (selOf env s) (pass env s).P' (s.now + env.cap + (latS env))
          < Cv env.cap (selOf env s) (vis env s) s.now := by
        unfold Cv
        apply sum_map_lt _ _ _ _ i hi
        · unfold slack
          rw [hid i, hP]
          simp only [hrf, Bool.false_eq_true, if_false, hrd]
          exact int_slack_lt dd s.now env.cap (latS env) wf.cap (latS_nonneg env wf) (int_cap_lt env.cap d dd s.now hcap hdeq)
        · intro k hk
          exact open_slack (cfgOf env s) (vis env s) s.now s.now env.exec hsub hu hr hne hopen hfin env.cap _ hle k hk
      have hA' : A' ≤ 1 := by rw [kA]; exact Av_le_one _ _ _
      rw [k1, hb, hA]
      simp only [hex', Bool.false_eq_true, if_false]
      omega
    · -- the whole delay is slept: that handler is due at the next event
      rw [if_neg hcap] at h
      rw [h]
      have hle : s.now ≤ s.now + d + (latS env) := int_le_add3 s.now d (latS env) hd (latS_nonneg env wf)
      obtain ⟨A', k1, kA, kU, kCf, kC⟩ := key _ (s.writes + cp env + 1) hle
      have hAw : A' = 0 := by
        rw [kA]
        unfold Av
        have hiN : i ∈ selOf env (nextState env s (s.now + d + (latS env)) true (s.writes + cp env + 1)) := by
          apply selOf_next_mem env s hc' _ _ _ i hi
          unfold unfin; rw [hid i, hP]; simp [hrf]
        have : (selOf env (nextState env s (s.now + d + (latS env)) true (s.writes + cp env + 1))).any
            (awakeP (pass env s).P' (s.now + d + (latS env))) = true := by
          rw [List.any_eq_true]
          refine ⟨i, hiN, ?_⟩
          unfold awakeP
          rw [hid i, hP]
          simp only [Rec.awakened, Rec.sleeping, hrf, hrd, Bool.not_false, Bool.true_and, Bool.not_eq_true',
            decide_eq_false_iff_not]
          exact int_wake dd s.now d (latS env) hdeq (latS_nonneg env wf)
        simp [this]
      rw [k1, hb, hA, hAw]
      simp only [hex', Bool.false_eq_true, if_false]
      omega
  · rw [h, hb, hbound_not_pending _ _ rfl]; omega

end Kopf.C03
