/-
  C13 helper lemmas — the decision function (`parseAll`, `decideCore`, `minList`).
-/
import Kopf.Model.C13_Peering
namespace Kopf.C13

instance {ε α : Type} [DecidableEq ε] [DecidableEq α] : DecidableEq (Except ε α) := fun a b =>
  match a, b with
  | .ok x, .ok y => if h : x = y then isTrue (by rw [h]) else isFalse (by intro e; injection e; contradiction)
  | .error x, .error y => if h : x = y then isTrue (by rw [h]) else isFalse (by intro e; injection e; contradiction)
  | .ok _, .error _ => isFalse (by intro e; cases e)
  | .error _, .ok _ => isFalse (by intro e; cases e)

theorem parseAll_mem {u now : Int} : ∀ {st : List (Identity × RawEntry)} {ps : List Peer},
    parseAll u now st = .ok ps → ∀ p, p ∈ ps ↔ ∃ i e, (i, e) ∈ st ∧ mkPeer u now i e = .ok p := by
  intro st
  induction st with
  | nil =>
    intro ps h p
    simp [parseAll] at h
    subst h
    simp
  | cons x rest ih =>
    intro ps h p
    obtain ⟨i, e⟩ := x
    simp only [parseAll] at h
    cases hm : mkPeer u now i e with
    | error x => simp [hm] at h
    | ok q =>
      simp only [hm] at h
      cases hr : parseAll u now rest with
      | error x => simp [hr] at h
      | ok qs =>
        simp only [hr] at h
        injection h with h
        subst h
        constructor
        · intro hp
          rcases List.mem_cons.mp hp with rfl | hp
          · exact ⟨i, e, List.mem_cons_self, hm⟩
          · obtain ⟨j, f, hjf, hmk⟩ := (ih hr p).mp hp
            exact ⟨j, f, List.mem_cons_of_mem _ hjf, hmk⟩
        · rintro ⟨j, f, hjf, hmk⟩
          rcases List.mem_cons.mp hjf with heq | hjf
          · injection heq with h1 h2
            subst h1; subst h2
            rw [hm] at hmk
            injection hmk with hmk
            subst hmk
            exact List.mem_cons_self
          · exact List.mem_cons_of_mem _ ((ih hr p).mpr ⟨j, f, hjf, hmk⟩)

theorem mkPeer_id {u now : Int} {i : Identity} {e : RawEntry} {p : Peer} (h : mkPeer u now i e = .ok p) : p.id = i := by
  unfold mkPeer at h
  cases e with
  | notMapping => simp at h
  | record r =>
    simp only at h
    split at h
    · simp at h
    · split at h
      · simp at h
      · split at h
        · simp at h
        · split at h
          · simp at h
          · split at h
            · simp at h
            · injection h with h; subst h; rfl
          · split at h
            · simp at h
            · injection h with h; subst h; rfl

/-- a well-formed record whose lifetime and deadline are representable parses to its peer, whatever the clock. -/
theorem mkPeer_toRaw (u now : Int) (i : Identity) (r : Rec) (h1 : tdOk r.lifetime = true)
    (h2 : dtOk u (r.lastseen + r.lifetime * u) = true) : mkPeer u now i r.toRaw = .ok (r.toPeer i) := by
  simp [mkPeer, Rec.toRaw, Rec.toPeer, pyInt, prioView, prioReprErr, h1, h2]

theorem minList_spec : ∀ {l : List Int} {m : Int}, minList l = some m → m ∈ l ∧ ∀ x ∈ l, m ≤ x := by
  intro l
  induction l with
  | nil => intro m h; simp [minList] at h
  | cons x xs ih =>
    intro m h
    simp only [minList] at h
    cases hx : minList xs with
    | none =>
      simp only [hx] at h
      injection h with h
      subst h
      cases xs with
      | nil => simp
      | cons y ys =>
        simp only [minList] at hx
        cases hy : minList ys <;> simp [hy] at hx
    | some m' =>
      simp only [hx] at h
      injection h with h
      obtain ⟨hm', hle⟩ := ih hx
      by_cases hc : x ≤ m'
      · simp only [hc, if_true] at h
        subst h
        refine ⟨List.mem_cons_self, ?_⟩
        intro y hy
        rcases List.mem_cons.mp hy with rfl | hy
        · exact Int.le_refl _
        · exact Int.le_trans hc (hle y hy)
      · simp only [hc, if_false] at h
        subst h
        refine ⟨List.mem_cons_of_mem _ hm', ?_⟩
        intro y hy
        rcases List.mem_cons.mp hy with rfl | hy
        · exact Int.le_of_lt (Int.lt_of_not_ge hc)
        · exact hle y hy

theorem minList_none {l : List Int} (h : minList l = none) : l = [] := by
  cases l with
  | nil => rfl
  | cons x xs =>
    simp only [minList] at h
    cases hx : minList xs <;> simp [hx] at h

theorem mem_blockers {u : Int} {now : Int} {me : Identity} {myPrio : Int} {ps : List Peer} {q : Peer} :
    q ∈ samePeers myPrio (livePeers u now me ps) ++ prioPeers myPrio (livePeers u now me ps) ↔
      q ∈ ps ∧ Blocks u now me myPrio q := by
  simp only [List.mem_append, samePeers, prioPeers, livePeers, List.mem_filter, Blocks]
  constructor
  · rintro (⟨⟨hq, hl⟩, hs⟩ | ⟨⟨hq, hl⟩, hp⟩)
    · simp at hl hs
      exact ⟨hq, hl.2, hl.1, myPrio, hs, Int.le_refl _⟩
    · simp at hl
      cases hpr : q.prio with
      | none => simp [hpr] at hp
      | some x =>
        simp [hpr] at hp
        exact ⟨hq, hl.2, hl.1, x, rfl, by omega⟩
  · rintro ⟨hq, hne, hd, x, hx, hge⟩
    by_cases heq : x = myPrio
    · left
      subst heq
      refine ⟨⟨hq, ?_⟩, ?_⟩ <;> simp [hd, hne, hx]
    · right
      refine ⟨⟨hq, ?_⟩, ?_⟩
      · simp [hd, hne]
      · simp [hx]; omega

theorem decideCore_paused {u : Int} {ps : List Peer} {me : Identity} {myPrio : Int} {ac : Bool} {t0 : Bool}
    {now now2 : Int} :
    (decideCore u ps me myPrio ac (some t0) now now2).paused = some true ↔
      ∃ q ∈ ps, Blocks u now me myPrio q := by
  have key : (!(prioPeers myPrio (livePeers u now me ps)).isEmpty ||
      !(samePeers myPrio (livePeers u now me ps)).isEmpty) = true ↔ ∃ q ∈ ps, Blocks u now me myPrio q := by
    constructor
    · intro h
      simp only [Bool.or_eq_true, Bool.not_eq_true', List.isEmpty_eq_false_iff_exists_mem] at h
      rcases h with ⟨q, hq⟩ | ⟨q, hq⟩
      · exact ⟨q, (mem_blockers.mp (List.mem_append_right _ hq))⟩
      · exact ⟨q, (mem_blockers.mp (List.mem_append_left _ hq))⟩
    · rintro ⟨q, hq, hb⟩
      have := mem_blockers.mpr ⟨hq, hb⟩
      simp only [Bool.or_eq_true, Bool.not_eq_true', List.isEmpty_eq_false_iff_exists_mem]
      rcases List.mem_append.mp this with h | h
      · exact Or.inr ⟨q, h⟩
      · exact Or.inl ⟨q, h⟩
  simp only [decideCore, Option.map_some, Option.some.injEq]
  exact key

theorem decideCore_paused_isSome {u : Int} {ps : List Peer} {me : Identity} {myPrio : Int} {ac : Bool} {t0 : Bool}
    {now now2 : Int} : ∃ b, (decideCore u ps me myPrio ac (some t0) now now2).paused = some b := by
  simp [decideCore]

theorem decideCore_delays {u : Int} {ps : List Peer} {me : Identity} {myPrio : Int} {ac : Bool} {tg : Option Bool}
    {now now2 : Int} (x : Int) :
    x ∈ (decideCore u ps me myPrio ac tg now now2).delays ↔
      ∃ q ∈ ps, Blocks u now me myPrio q ∧ x = q.deadline u - now2 := by
  simp only [decideCore, List.mem_map]
  constructor
  · rintro ⟨q, hq, rfl⟩
    obtain ⟨h1, h2⟩ := mem_blockers.mp hq
    exact ⟨q, h1, h2, rfl⟩
  · rintro ⟨q, h1, h2, rfl⟩
    exact ⟨q, mem_blockers.mpr ⟨h1, h2⟩, rfl⟩

/-- whenever the call does not raise, its result is `decideCore`'s. -/
theorem decideP_ok {u : Int} {ps : List Peer} {me : Identity} {p : Int} {ac : Bool} {tg : Option Bool} {now now2 : Int}
    {d : Decision} (h : decideP u ps me p ac tg now now2 = .ok d) : d = decideCore u ps me p ac tg now now2 := by
  unfold decideP at h
  split at h
  · cases h
  · simp only at h
    split at h
    · split at h
      · cases h
      · injection h with h; exact h.symm
    · injection h with h; exact h.symm

end Kopf.C13
