/-
  C04 — closed form of the `metadata` stanza of the essence:
  `essence.metadata = N labels (annotations filtered by F)` where `N` drops falsy parts.
-/
import Kopf.Lemmas.C04_Group
set_option linter.unusedSimpArgs false
namespace Kopf.C04
open Kopf Kopf.J

/-! ### what the cleaning steps do to the value at `metadata` -/

def filtM (f : String → Bool) : Option J → Option J
  | some (.obj mm) =>
      (match lookup "annotations" mm with
       | some (.obj a) => some (.obj (J.insert "annotations" (.obj (a.filter (fun kv => f kv.1))) mm))
       | _ => some (.obj mm))
  | o => o

def dropF (name : String) (mm : Kvs) : Kvs :=
  match lookup name mm with
  | some v => if v.truthy then mm else erase name mm
  | none => mm

def cleanM : Option J → Option J
  | some (.obj mm) =>
      if (dropF "labels" (dropF "annotations" mm)).isEmpty then none
      else some (.obj (dropF "labels" (dropF "annotations" mm)))
  | some v => if v.truthy then some v else none
  | none => none

theorem filterAnnotations_meta (f : String → Bool) (l : Kvs) :
    (filterAnnotations f (.obj l)).get? "metadata" = filtM f (lookup "metadata" l) := by
  unfold filterAnnotations
  rw [metaGet_obj]
  cases hl : lookup "metadata" l with
  | none => simp [filtM, get?, hl]
  | some mv =>
    cases mv with
    | obj mm =>
      simp only []
      cases ha : lookup "annotations" mm with
      | none => simp [filtM, get?, hl, ha]
      | some av =>
        cases av with
        | obj a => simp [filtM, get?, hl, ha, metaSet, lookup_insert_same]
        | _ => simp [filtM, get?, hl, ha]
    | _ => simp [filtM, get?, hl]

theorem filterAnnotations_isObj (f : String → Bool) (l : Kvs) : (filterAnnotations f (.obj l)).isObj = true := by
  unfold filterAnnotations
  cases metaGet (.obj l) "annotations" with
  | none => rfl
  | some v =>
    cases v <;> first | rfl | skip
    simp only [metaSet]
    split <;> rfl

theorem metaDropIfFalsy_obj (l : Kvs) (name : String) :
    ∃ l', metaDropIfFalsy (.obj l) name = .obj l' ∧
      lookup "metadata" l' = match lookup "metadata" l with
        | some (.obj mm) => some (.obj (dropF name mm))
        | o => o := by
  unfold metaDropIfFalsy
  rw [metaGet_obj]
  cases hl : lookup "metadata" l with
  | none => exact ⟨l, by simp, by simp [hl]⟩
  | some mv =>
    cases mv with
    | obj mm =>
      simp only []
      cases hn : lookup name mm with
      | none => exact ⟨l, by simp, by simp [hl, dropF, hn]⟩
      | some v =>
        simp only []
        by_cases ht : v.truthy = true
        · exact ⟨l, by simp [ht], by simp [hl, dropF, hn, ht]⟩
        · refine ⟨J.insert "metadata" (.obj (erase name mm)) l, by simp [ht, metaDel, hl], ?_⟩
          simp [lookup_insert_same, dropF, hn, ht]
    | _ => exact ⟨l, by simp, by simp [hl]⟩

theorem dropIfFalsy_obj_same (l : Kvs) (name : String) :
    ∃ l', dropIfFalsy (.obj l) name = .obj l' ∧
      lookup name l' = (match lookup name l with
        | some v => if v.truthy then some v else none
        | none => none) ∧ ∀ k, k ≠ name → lookup k l' = lookup k l := by
  cases hn : lookup name l with
  | none => exact ⟨l, by simp [dropIfFalsy, hn], hn, fun _ _ => rfl⟩
  | some v =>
    by_cases ht : v.truthy = true
    · exact ⟨l, by simp [dropIfFalsy, hn, ht], by simp [hn, ht], fun _ _ => rfl⟩
    · exact ⟨erase name l, by simp [dropIfFalsy, hn, ht], by simp [lookup_erase_same, ht], fun k hk => lookup_erase_other l hk⟩

theorem removeEmptyStanzas_meta (l : Kvs) :
    ∃ l', removeEmptyStanzas (.obj l) = .obj l' ∧ lookup "metadata" l' = cleanM (lookup "metadata" l) := by
  simp only [removeEmptyStanzas]
  obtain ⟨l1, h1, g1⟩ := metaDropIfFalsy_obj l "annotations"
  rw [h1]
  obtain ⟨l2, h2, g2⟩ := metaDropIfFalsy_obj l1 "labels"
  rw [h2]
  obtain ⟨l3, h3, g3, _⟩ := dropIfFalsy_obj_same l2 "metadata"
  rw [h3]
  obtain ⟨l4, h4, _, g4⟩ := dropIfFalsy_obj_same l3 "status"
  rw [h4]
  refine ⟨l4, rfl, ?_⟩
  rw [g4 "metadata" (by decide), g3, g2, g1]
  cases hl : lookup "metadata" l with
  | none => simp [cleanM]
  | some mv =>
    cases mv with
    | obj mm =>
      simp only [cleanM, truthy]
      by_cases he : (dropF "labels" (dropF "annotations" mm)).isEmpty = true
      · simp [he]
      · simp [he]
    | _ => simp [cleanM]

/-! ### the normal form -/

def mk (L : Option J) (A : Option Kvs) : Option J :=
  match L, A with
  | none, none => none
  | some lv, none => some (.obj [("labels", lv)])
  | none, some a => some (.obj [("annotations", .obj a)])
  | some lv, some a => some (.obj [("labels", lv), ("annotations", .obj a)])

/-- falsy parts dropped, `none` when nothing is left. -/
def N (L : Option J) (A : Option Kvs) : Option J :=
  mk (L.filter (fun v => v.truthy)) (A.filter (fun a => !a.isEmpty))

theorem truthy_obj (a : Kvs) : (J.obj a).truthy = !a.isEmpty := rfl

theorem cleanM_mk (L : Option J) (A : Option Kvs) : cleanM (mk L A) = N L A := by
  cases L with
  | none =>
    cases A with
    | none => rfl
    | some a =>
      by_cases ha : a.isEmpty = true
      · simp [mk, N, cleanM, dropF, lookup_cons, truthy_obj, ha, erase, Option.filter]
      · simp [mk, N, cleanM, dropF, lookup_cons, truthy_obj, ha, erase, Option.filter]
  | some lv =>
    cases A with
    | none =>
      by_cases hl : lv.truthy = true
      · simp [mk, N, cleanM, dropF, lookup_cons, hl, erase, Option.filter]
      · simp [mk, N, cleanM, dropF, lookup_cons, hl, erase, Option.filter]
    | some a =>
      by_cases ha : a.isEmpty = true <;> by_cases hl : lv.truthy = true <;>
        simp [mk, N, cleanM, dropF, lookup_cons, truthy_obj, ha, hl, erase, Option.filter]

theorem filtM_mk (f : String → Bool) (L : Option J) (A : Option Kvs) :
    filtM f (mk L A) = mk L (A.map (fun a => a.filter (fun kv => f kv.1))) := by
  cases L <;> cases A <;> simp [mk, filtM, lookup_cons, J.insert]

theorem N_N (L : Option J) (A : Option Kvs) :
    N (L.filter (fun v => v.truthy)) (A.filter (fun a => !a.isEmpty)) = N L A := by
  cases L with
  | none => cases A with
    | none => rfl
    | some a => by_cases ha : a.isEmpty = true <;> simp [N, Option.filter, ha]
  | some lv => cases A with
    | none => by_cases hl : lv.truthy = true <;> simp [N, Option.filter, hl]
    | some a => by_cases ha : a.isEmpty = true <;> by_cases hl : lv.truthy = true <;> simp [N, Option.filter, ha, hl]

/-- filtering the annotations of a normal form and cleaning again. -/
theorem clean_filt_N (f : String → Bool) (L : Option J) (A : Option Kvs) :
    cleanM (filtM f (N L A)) = N L (A.map (fun a => a.filter (fun kv => f kv.1))) := by
  unfold N
  rw [filtM_mk, cleanM_mk]
  unfold N
  congr 1
  · cases L with
    | none => rfl
    | some lv => by_cases hl : lv.truthy = true <;> simp [Option.filter, hl]
  · cases A with
    | none => rfl
    | some a => by_cases ha : a.isEmpty = true <;> simp [Option.filter, ha, List.isEmpty_iff] <;> simp_all [List.isEmpty_iff]

/-! ### `DiffBaseStorage.build`: the metadata stanza in closed form -/

theorem resolveE_ML_cases (kvs : Kvs) :
    (∃ lv, resolveE (.obj kvs) ML = .ok lv ∧ bodyLabels kvs = some lv) ∨
    (resolveE (.obj kvs) ML = .error .keyError ∧ bodyLabels kvs = none) ∨
    (resolveE (.obj kvs) ML = .error .typeError) := by
  simp only [ML, resolveE_obj_cons, bodyLabels]
  cases lookup "metadata" kvs with
  | none => exact Or.inr (Or.inl ⟨rfl, rfl⟩)
  | some mv =>
    cases mv with
    | obj m =>
      simp only [resolveE_obj_cons]
      cases lookup "labels" m with
      | none => exact Or.inr (Or.inl ⟨rfl, rfl⟩)
      | some lv => exact Or.inl ⟨lv, by simp [resolveE], rfl⟩
    | _ => exact Or.inr (Or.inr (by simp [resolveE]))

/-- the raw annotations value, to distinguish "not a mapping". -/
theorem resolveE_MA_cases (kvs : Kvs) :
    (∃ av, resolveE (.obj kvs) MA = .ok av ∧
      (match lookup "metadata" kvs with
       | some (.obj m) => lookup "annotations" m = some av
       | _ => False)) ∨
    (resolveE (.obj kvs) MA = .error .keyError ∧ bodyAnn kvs = none) ∨
    (resolveE (.obj kvs) MA = .error .typeError) := by
  simp only [MA, resolveE_obj_cons, bodyAnn]
  cases lookup "metadata" kvs with
  | none => exact Or.inr (Or.inl ⟨rfl, rfl⟩)
  | some mv =>
    cases mv with
    | obj m =>
      simp only [resolveE_obj_cons]
      cases lookup "annotations" m with
      | none => exact Or.inr (Or.inl ⟨rfl, rfl⟩)
      | some av => exact Or.inl ⟨av, by simp [resolveE], rfl⟩
    | _ => exact Or.inr (Or.inr (by simp [resolveE]))

theorem get?_metadata_annShape (dk cm : Kvs) (v : J) :
    (annShape dk cm v).get? "metadata" = some (.obj (J.insert "annotations" v cm)) := by
  simp [annShape, get?, lookup_insert_same]

/-- after the two implicit cherry-picks: `metadata` = labels?, annotations? in that order. -/
theorem picks_meta {kvs : Kvs} {e1 : J}
    (h : cherrypick (.obj kvs) (.obj (erase4 kvs)) [ML, MA] = .ok e1) (hok : metaOK e1 = true) :
    ∃ l1, e1 = .obj l1 ∧ lookup "metadata" l1 = mk (bodyLabels kvs) (bodyAnn kvs) ∧
      (match lookup "metadata" kvs with
       | some (.obj m) => (lookup "annotations" m = none ∨ ∃ a, lookup "annotations" m = some (.obj a))
       | _ => True) := by
  rw [cherrypick_two] at h
  have hn := lookup_metadata_erase4 kvs
  cases hd : pickStep (.obj kvs) ML (.obj (erase4 kvs)) with
  | error e => rw [hd] at h; cases h
  | ok d =>
    rw [hd] at h
    simp only [] at h
    -- the labels step
    have hL : (bodyLabels kvs = none ∧ d = .obj (erase4 kvs)) ∨
        (∃ lv, bodyLabels kvs = some lv ∧ d = .obj (J.insert "metadata" (.obj [("labels", lv)]) (erase4 kvs))) := by
      simp only [pickStep] at hd
      rcases resolveE_ML_cases kvs with ⟨lv, hr, hb⟩ | ⟨hr, hb⟩ | hr
      · rw [hr] at hd
        simp only [] at hd
        have : ensure (.obj (erase4 kvs)) ML lv = .ok (.obj (J.insert "metadata" (.obj [("labels", lv)]) (erase4 kvs))) := by
          simp [ML, ensure, hn, bind, Except.bind, pure, Except.pure, J.insert]
        rw [this] at hd
        simp [liftD] at hd
        exact Or.inr ⟨lv, hb, hd.symm⟩
      · rw [hr] at hd; simp only [] at hd; cases hd; exact Or.inl ⟨hb, rfl⟩
      · rw [hr] at hd; cases hd
    -- the annotations step
    simp only [pickStep] at h
    rcases resolveE_MA_cases kvs with ⟨av, hr, hav⟩ | ⟨hr, hb⟩ | hr
    · rw [hr] at h
      simp only [] at h
      cases hmk : lookup "metadata" kvs with
      | none => rw [hmk] at hav; exact absurd hav id
      | some mv =>
        rw [hmk] at hav
        cases mv with
        | obj m =>
          simp only [] at hav
          have hba : bodyAnn kvs = match av with
              | .obj a => some a
              | _ => none := by
            simp only [bodyAnn, hmk, hav]
            cases av <;> rfl
          rcases hL with ⟨hbl, rfl⟩ | ⟨lv, hbl, rfl⟩
          · rw [ensure_MA_none _ hn] at h
            cases h
            cases av with
            | obj a =>
              refine ⟨_, rfl, ?_, ?_⟩
              · rw [hbl, hba]; simp [lookup_insert_same, mk, J.insert]
              · simp only []; exact Or.inr ⟨a, hav⟩
            | _ => simp [annShape, metaOK, lookup_insert_same, J.insert, lookup_cons] at hok
          · have hs : lookup "metadata" (J.insert "metadata" (.obj [("labels", lv)]) (erase4 kvs)) = some (.obj [("labels", lv)]) :=
              lookup_insert_same _ _ _
            rw [ensure_MA_some _ hs] at h
            cases h
            cases av with
            | obj a =>
              refine ⟨_, rfl, ?_, ?_⟩
              · rw [hbl, hba]; simp [annShape, lookup_insert_same, mk, J.insert]
              · simp only []; exact Or.inr ⟨a, hav⟩
            | _ => simp [annShape, metaOK, lookup_insert_same, J.insert, lookup_cons] at hok
        | _ => simp only [] at hav
    · rw [hr] at h
      simp only [] at h
      cases h
      have hann : (match lookup "metadata" kvs with
          | some (.obj m) => (lookup "annotations" m = none ∨ ∃ a, lookup "annotations" m = some (.obj a))
          | _ => True) := by
        cases hmk : lookup "metadata" kvs with
        | none => trivial
        | some mv =>
          cases mv with
          | obj m =>
            simp only []
            cases hla : lookup "annotations" m with
            | none => exact Or.inl rfl
            | some av =>
              cases av with
              | obj a => exact Or.inr ⟨a, rfl⟩
              | _ =>
                -- then `resolveE` would not be a KeyError
                simp [MA, resolveE, hmk, hla] at hr
          | _ => trivial
      rcases hL with ⟨hbl, rfl⟩ | ⟨lv, hbl, rfl⟩
      · exact ⟨_, rfl, by rw [hbl, hb, hn]; rfl, hann⟩
      · exact ⟨_, rfl, by rw [hbl, hb, lookup_insert_same]; rfl, hann⟩
    · rw [hr] at h; cases h

/-- the key predicate `build` applies to annotations `a`. -/
def keepA (a : Kvs) (k : String) : Bool := keepAnnotation (markedPrefixes (keys a)) k

def filtK (f : String → Bool) (a : Kvs) : Kvs := a.filter (fun kv => f kv.1)

def prefOf : Option Kvs → List (List Char)
  | some a => markedPrefixes (keys a)
  | none => []

theorem annPrefixes_of (l1 : Kvs) (L : Option J) (A : Option Kvs) (h : lookup "metadata" l1 = mk L A) :
    annPrefixes (.obj l1) = prefOf A := by
  unfold annPrefixes
  rw [metaGet_obj, h]
  cases L <;> cases A <;> simp [mk, lookup_cons, prefOf]

theorem baseBuild_meta {ig extra : List (List String)} {kvs : Kvs} {e : J}
    (hig : AvoidKey "metadata" ig) (hx : ExtraAvoids "metadata" extra)
    (h : baseBuild ig extra (.obj kvs) = .ok e) :
    e.get? "metadata" = N (bodyLabels kvs) ((bodyAnn kvs).map (fun a => filtK (keepA a) a)) := by
  rw [baseBuild_eq] at h
  cases h1 : cherrypick (.obj kvs) (.obj (erase4 kvs)) [ML, MA] with
  | error er => rw [h1] at h; cases h
  | ok e1 =>
    rw [h1] at h
    simp only [tailBuild] at h
    cases hok : metaOK e1 with
    | false => simp [hok] at h
    | true =>
      simp only [hok, Bool.not_true, Bool.false_eq_true, if_false] at h
      obtain ⟨l1, rfl, hm1, _⟩ := picks_meta h1 hok
      cases h3 : cherrypickSkip (.obj kvs) (stage2 (.obj l1)) extra with
      | error er => rw [h3] at h; cases h
      | ok e3 =>
        rw [h3] at h
        simp only [] at h
        have hs2 : (stage2 (.obj l1)).get? "metadata" =
            mk (bodyLabels kvs) ((bodyAnn kvs).map (fun a => filtK (keepA a) a)) := by
          unfold stage2
          rw [filterAnnotations_meta, hm1, filtM_mk, annPrefixes_of l1 _ _ hm1]
          cases bodyAnn kvs with
          | none => rfl
          | some a => simp [prefOf, filtK, keepA]
        have ⟨g3, o3⟩ := cherrypickSkip_keeps (.obj kvs) "metadata" extra _ _ hx h3
          (by unfold stage2; exact filterAnnotations_isObj _ _)
        cases e3 with
        | obj l3 =>
          cases hok3 : metaOK (.obj l3) with
          | false => simp [hok3] at h
          | true =>
            simp only [hok3, Bool.not_true, Bool.false_eq_true, if_false] at h
            obtain ⟨l4, h4, g4⟩ := removeEmptyStanzas_meta l3
            rw [h4] at h
            rw [ignoreFields_get? "metadata" ig _ e hig h]
            have : lookup "metadata" l3 = mk (bodyLabels kvs) ((bodyAnn kvs).map (fun a => filtK (keepA a) a)) := by
              have := g3.trans hs2
              simpa [get?] using this
            simp only [get?]
            rw [g4, this, cleanM_mk]
        | _ => simp [isObj] at o3

/-! ### later stages: filter again, clean again -/

theorem filter_clean_meta (f : String → Bool) {l : Kvs} {L : Option J} {A : Option Kvs}
    (h : lookup "metadata" l = N L A) :
    (removeEmptyStanzas (filterAnnotations f (.obj l))).get? "metadata" = N L (A.map (filtK f)) := by
  have hf := filterAnnotations_meta f l
  have ho := filterAnnotations_isObj f l
  cases hfe : filterAnnotations f (.obj l) with
  | obj l2 =>
    rw [hfe] at hf
    obtain ⟨l3, h3, g3⟩ := removeEmptyStanzas_meta l2
    rw [h3]
    simp only [get?] at hf ⊢
    rw [g3, hf, h]
    exact clean_filt_N f L A
  | _ => rw [hfe] at ho; simp [isObj] at ho

theorem bodyLabels_of_N {l : Kvs} {L : Option J} {A : Option Kvs} (h : lookup "metadata" l = N L A) :
    bodyLabels l = L.filter (fun v => v.truthy) := by
  unfold bodyLabels
  rw [h]
  unfold N
  cases L with
  | none => cases A with
    | none => rfl
    | some a => by_cases ha : a.isEmpty = true <;> simp [mk, Option.filter, ha, lookup_cons]
  | some lv => cases A with
    | none => by_cases hl : lv.truthy = true <;> simp [mk, Option.filter, hl, lookup_cons]
    | some a => by_cases ha : a.isEmpty = true <;> by_cases hl : lv.truthy = true <;> simp [mk, Option.filter, ha, hl, lookup_cons]

theorem bodyAnn_of_N {l : Kvs} {L : Option J} {A : Option Kvs} (h : lookup "metadata" l = N L A) :
    bodyAnn l = A.filter (fun a => !a.isEmpty) := by
  unfold bodyAnn
  rw [h]
  unfold N
  cases L with
  | none => cases A with
    | none => rfl
    | some a => by_cases ha : a.isEmpty = true <;> simp [mk, Option.filter, ha, lookup_cons]
  | some lv => cases A with
    | none => by_cases hl : lv.truthy = true <;> simp [mk, Option.filter, hl, lookup_cons]
    | some a => by_cases ha : a.isEmpty = true <;> by_cases hl : lv.truthy = true <;> simp [mk, Option.filter, ha, hl, lookup_cons]

theorem N_filter_nonempty (L : Option J) (A : Option Kvs) (g : Kvs → Kvs) (hg : g [] = []) :
    N (L.filter (fun v => v.truthy)) ((A.filter (fun a => !a.isEmpty)).map g) = N L (A.map g) := by
  cases A with
  | none => cases L with
    | none => rfl
    | some lv => by_cases hl : lv.truthy = true <;> simp [N, Option.filter, hl]
  | some a =>
    by_cases ha : a.isEmpty = true
    · have : a = [] := List.isEmpty_iff.1 ha
      subst this
      cases L with
      | none => simp [N, Option.filter, hg]
      | some lv => by_cases hl : lv.truthy = true <;> simp [N, Option.filter, hl, hg]
    · cases L with
      | none => simp [N, Option.filter, ha]
      | some lv => by_cases hl : lv.truthy = true <;> simp [N, Option.filter, hl, ha]

/-- `build` applied to a body whose metadata is already in normal form (the nested builds of Multi). -/
theorem baseBuild_meta_N {ig extra : List (List String)} {l : Kvs} {e : J} {L : Option J} {A : Option Kvs}
    (hig : AvoidKey "metadata" ig) (hx : ExtraAvoids "metadata" extra)
    (hl : lookup "metadata" l = N L A) (h : baseBuild ig extra (.obj l) = .ok e) :
    e.get? "metadata" = N L (A.map (fun a => filtK (keepA a) a)) := by
  rw [baseBuild_meta hig hx h, bodyLabels_of_N hl, bodyAnn_of_N hl]
  exact N_filter_nonempty L A (fun a => filtK (keepA a) a) rfl

/-! ### results are objects -/

theorem remove_isObj : ∀ (f : List String) (d d' : J), d.isObj = true → remove d f = .ok d' → d'.isObj = true
  | [], d, d', _, h => by cases d <;> simp [remove] at h
  | [k], d, d', _, h => by
    cases d with
    | obj l => simp [remove] at h; subst h; rfl
    | _ => simp [remove] at h
  | k :: k2 :: ks, d, d', _, h => by
    cases d with
    | obj l =>
      simp only [remove] at h
      cases hl : lookup k l with
      | none => rw [hl] at h; simp at h; subst h; rfl
      | some child =>
        rw [hl] at h
        simp only [] at h
        cases hc : remove child (k2 :: ks) with
        | error e => rw [hc] at h; simp [bind, Except.bind] at h
        | ok c' =>
          rw [hc] at h
          simp only [bind, Except.bind] at h
          split at h <;> (simp [pure, Except.pure] at h; subst h; rfl)
    | _ => simp [remove] at h

theorem ignoreFields_isObj : ∀ (ig : List (List String)) (e e' : J), e.isObj = true →
    ignoreFields e ig = .ok e' → e'.isObj = true
  | [], e, e', ho, h => by simp [ignoreFields] at h; subst h; exact ho
  | f :: fs, e, e', ho, h => by
    simp only [ignoreFields] at h
    cases hr : remove e f with
    | ok e1 => rw [hr] at h; exact ignoreFields_isObj fs e1 e' (remove_isObj f e e1 ho hr) h
    | error er =>
      rw [hr] at h
      cases er <;> simp only [] at h <;> first | exact ignoreFields_isObj fs e e' ho h | cases h

theorem removeEmptyStanzas_isObj (l : Kvs) : (removeEmptyStanzas (.obj l)).isObj = true := by
  obtain ⟨l', h, _⟩ := removeEmptyStanzas_meta l
  rw [h]; rfl

theorem baseBuild_isObj {ig extra : List (List String)} {b e : J} (h : baseBuild ig extra b = .ok e) :
    e.isObj = true := by
  obtain ⟨kvs, rfl⟩ := baseBuild_obj h
  rw [baseBuild_eq] at h
  cases h1 : cherrypick (.obj kvs) (.obj (erase4 kvs)) [ML, MA] with
  | error er => rw [h1] at h; cases h
  | ok e1 =>
    rw [h1] at h
    simp only [tailBuild] at h
    split at h
    · cases h
    · have o1 := (cherrypick_get? (.obj kvs) "zzz" _ _ _ h1 rfl (by
        simp [get?, erase4]
        rw [lookup_erase_other _ (by decide), lookup_erase_other _ (by decide), lookup_erase_other _ (by decide),
          lookup_erase_other _ (by decide)])).2
      cases e1 with
      | obj l1 =>
        cases h3 : cherrypickSkip (.obj kvs) (stage2 (.obj l1)) extra with
        | error er => rw [h3] at h; cases h
        | ok e3 =>
          rw [h3] at h
          simp only [] at h
          have o3 := (cherrypickSkip_get? (.obj kvs) "zzz" extra _ _ h3 (by unfold stage2; exact filterAnnotations_isObj _ _) (by
            unfold stage2
            rw [filterAnnotations_get? _ _ (by decide)]
            have := (cherrypick_get? (.obj kvs) "zzz" _ _ _ h1 rfl (by
              simp [get?, erase4]
              rw [lookup_erase_other _ (by decide), lookup_erase_other _ (by decide), lookup_erase_other _ (by decide),
                lookup_erase_other _ (by decide)])).1
            exact this)).2
          cases e3 with
          | obj l3 =>
            split at h
            · cases h
            · exact ignoreFields_isObj ig _ e (removeEmptyStanzas_isObj l3) h
          | _ => simp [isObj] at o3
      | _ => simp [isObj] at o1

/-! ### the chain: leaf storages, Multi, progress clear -/

/-- a body whose `build` yields the normal form for labels `L` and annotations `A`. -/
def Src (l : Kvs) (L : Option J) (A : Option Kvs) : Prop :=
  ∀ (ig extra : List (List String)) (e : J), AvoidKey "metadata" ig → ExtraAvoids "metadata" extra →
    baseBuild ig extra (.obj l) = .ok e → e.get? "metadata" = N L (A.map (fun a => filtK (keepA a) a))

theorem src_body (kvs : Kvs) : Src kvs (bodyLabels kvs) (bodyAnn kvs) :=
  fun _ _ _ hig hx h => baseBuild_meta hig hx h

theorem src_N {l : Kvs} {L : Option J} {A : Option Kvs} (h : lookup "metadata" l = N L A) : Src l L A :=
  fun _ _ _ hig hx hb => baseBuild_meta_N hig hx h hb

def notIn (ks : List String) (k : String) : Bool := !ks.contains k

/-- the annotations after one leaf storage's `build`. -/
def leafAnn (ks : List String) (a : Kvs) : Kvs := filtK (notIn ks) (filtK (keepA a) a)

theorem leafBuild_meta {hs : Hashes} {extra : List (List String)} {l : Kvs} {e : J} {L : Option J} {A : Option Kvs}
    (leaf : DiffBaseLeaf) (hsrc : Src l L A) (hav : AvoidKey "metadata" (leafFields leaf))
    (hx : ExtraAvoids "metadata" extra) (h : leafBuild hs extra (.obj l) leaf = .ok e) :
    e.isObj = true ∧
    (match leaf with
     | .annotations p key v1 _ => ∃ mk ks, markKey (.obj l) key.toList = .ok mk ∧ makeKeys hs v1 p.toList mk = .ok ks ∧
          e.get? "metadata" = N L (A.map (leafAnn ks))
     | .status _ _ => e.get? "metadata" = N L (A.map (fun a => filtK (keepA a) a))) := by
  cases leaf with
  | annotations p key v1 ig =>
    simp only [leafBuild] at h
    obtain ⟨e1, h1, h2⟩ := bind_ok h
    obtain ⟨mkk, hmk, h3⟩ := bind_ok h2
    obtain ⟨ks, hks, h4⟩ := bind_ok h3
    have g1 := hsrc ig extra e1 hav hx h1
    have o1 := baseBuild_isObj h1
    cases e1 with
    | obj l1 =>
      cases hm : metaOK (.obj l1) with
      | false => simp [hm, throw, throwThe, MonadExceptOf.throw, bind, Except.bind] at h4
      | true =>
        simp [hm, pure, Except.pure] at h4
        subst h4
        refine ⟨?_, mkk, ks, hmk, hks, ?_⟩
        · unfold removeAnnotations
          cases hf : filterAnnotations (fun k => !ks.contains k) (.obj l1) with
          | obj l2 => exact removeEmptyStanzas_isObj l2
          | _ => have := filterAnnotations_isObj (fun k => !ks.contains k) l1; rw [hf] at this; simp [isObj] at this
        · unfold removeAnnotations
          have := filter_clean_meta (fun k => !ks.contains k) (l := l1) (L := L)
            (A := A.map (fun a => filtK (keepA a) a)) (by simpa [get?] using g1)
          rw [this]
          cases A <;> rfl
    | _ => simp [isObj] at o1
  | status f ig =>
    simp only [leafBuild] at h
    obtain ⟨e1, h1, h2⟩ := bind_ok h
    have g1 := hsrc ig extra e1 (fun g hg => hav g (List.mem_cons_of_mem _ hg)) hx h1
    obtain ⟨hd, hhd, hne⟩ := hav f List.mem_cons_self
    refine ⟨ignoreFields_isObj [f] e1 e (baseBuild_isObj h1) h2, ?_⟩
    simp only []
    rw [ignoreFields_get? "metadata" [f] e1 e (avoidKey_one hhd hne) h2, g1]

end Kopf.C04
