/-
  C04 — the essence depends on the body only through a small view (payload keys, labels,
  annotations, the DRS bit, the values at the handlers' fields). Own writes outside that view are
  therefore invisible.
-/
import Kopf.Lemmas.C04_Apply
import Kopf.Model.C04_Essence
namespace Kopf.C04
open Kopf Kopf.J

/-! ### erase / insert algebra -/

theorem erase_insert_same (k : String) (v : J) (l : Kvs) : erase k (J.insert k v l) = erase k l := by
  induction l with
  | nil => simp [J.insert, erase]
  | cons kv l ih =>
    obtain ⟨k2, v2⟩ := kv
    by_cases h : k2 = k
    · subst h; simp [J.insert, erase]
    · simp [J.insert, erase, h, ih]

theorem erase_insert_other {k k' : String} (v : J) (l : Kvs) (h : k' ≠ k) :
    erase k (J.insert k' v l) = J.insert k' v (erase k l) := by
  induction l with
  | nil => simp [J.insert, erase, h]
  | cons kv l ih =>
    obtain ⟨k2, v2⟩ := kv
    by_cases h1 : k2 = k'
    · subst h1; simp [J.insert, erase, h]
    · by_cases h2 : k2 = k
      · subst h2; simp [J.insert, erase, h1, ih]
      · simp [J.insert, erase, h1, h2, ih]

theorem erase_erase_same (k : String) (l : Kvs) : erase k (erase k l) = erase k l := by
  induction l with
  | nil => rfl
  | cons kv l ih =>
    obtain ⟨k2, v2⟩ := kv
    by_cases h : k2 = k <;> simp [erase, h, ih]

theorem erase_comm (k k' : String) (l : Kvs) : erase k (erase k' l) = erase k' (erase k l) := by
  induction l with
  | nil => rfl
  | cons kv l ih =>
    obtain ⟨k2, v2⟩ := kv
    by_cases h : k2 = k
    · subst h
      by_cases h' : k2 = k'
      · subst h'; simp [erase]
      · simp [erase, h', ih]
    · by_cases h' : k2 = k'
      · subst h'; simp [erase, h, ih]
      · simp [erase, h, h', ih]

theorem insert_insert (k : String) (v w : J) (l : Kvs) : J.insert k v (J.insert k w l) = J.insert k v l := by
  induction l with
  | nil => simp [J.insert]
  | cons kv l ih =>
    obtain ⟨k2, v2⟩ := kv
    by_cases h : k2 = k
    · subst h; simp [J.insert]
    · simp [J.insert, h, ih]

/-- the four top-level stanzas `build` deletes first. -/
def erase4 (kvs : Kvs) : Kvs := erase "status" (erase "metadata" (erase "kind" (erase "apiVersion" kvs)))

/-! ### the view -/

theorem cherrypick_congr (src src' : J) : ∀ (fs : List (List String)) (dst : J),
    (∀ f, f ∈ fs → resolveE src f = resolveE src' f) → cherrypick src dst fs = cherrypick src' dst fs
  | [], _, _ => rfl
  | f :: fs, dst, h => by
    have hf := h f List.mem_cons_self
    have ih := fun d => cherrypick_congr src src' fs d (fun g hg => h g (List.mem_cons_of_mem _ hg))
    simp only [cherrypick, hf]
    cases resolveE src' f with
    | ok v =>
      simp only []
      cases liftD (ensure dst f v) with
      | ok d => simp [bind, Except.bind, ih]
      | error e => rfl
    | error e => cases e <;> simp [ih]

theorem cherrypickSkip_congr (src src' : J) : ∀ (fs : List (List String)) (dst : J),
    (∀ f, f ∈ fs → resolveE src f = resolveE src' f) → cherrypickSkip src dst fs = cherrypickSkip src' dst fs
  | [], _, _ => rfl
  | f :: fs, dst, h => by
    have h1 : cherrypick src dst [f] = cherrypick src' dst [f] :=
      cherrypick_congr src src' [f] dst (fun g hg => by
        have : g = f := by simpa using hg
        subst this; exact h g List.mem_cons_self)
    have ih := fun d => cherrypickSkip_congr src src' fs d (fun g hg => h g (List.mem_cons_of_mem _ hg))
    simp only [cherrypickSkip, h1]
    cases cherrypick src' dst [f] with
    | ok d => simp only [ih]
    | error e => cases e <;> simp only [ih]

/-- what `build` reads of the body. -/
structure SameView (extra : List (List String)) (kvs kvs' : Kvs) : Prop where
  payload : erase4 kvs = erase4 kvs'
  fields : ∀ f, f ∈ [["metadata", "labels"], ["metadata", "annotations"]] ++ extra →
    resolveE (.obj kvs) f = resolveE (.obj kvs') f
  drs : isDRS (.obj kvs) = isDRS (.obj kvs')
  kind : lookup "kind" kvs = lookup "kind" kvs'
  owners : ownerRefs (.obj kvs) = ownerRefs (.obj kvs')

theorem pseudoBody_congr {kvs kvs' : Kvs} (hk : lookup "kind" kvs = lookup "kind" kvs')
    (ho : ownerRefs (.obj kvs) = ownerRefs (.obj kvs')) (e : J) :
    pseudoBody (.obj kvs) e = pseudoBody (.obj kvs') e := by
  cases e with
  | obj l => simp only [pseudoBody, withOwners, withKind, get?, hk, ho]
  | _ => rfl

theorem multiBuild_congr {kvs kvs' : Kvs} (hs : Hashes) (extra : List (List String))
    (hk : lookup "kind" kvs = lookup "kind" kvs') (ho : ownerRefs (.obj kvs) = ownerRefs (.obj kvs')) :
    ∀ (ls : List DiffBaseLeaf) (e : J), multiBuild hs extra (.obj kvs) e ls = multiBuild hs extra (.obj kvs') e ls
  | [], _ => rfl
  | l :: ls, e => by
    simp only [multiBuild, pseudoBody_congr hk ho e]
    cases leafBuild hs extra (pseudoBody (.obj kvs') e) l with
    | error er => rfl
    | ok e' => simp only [bind, Except.bind]; exact multiBuild_congr hs extra hk ho ls e'

theorem baseBuild_congr {extra : List (List String)} {kvs kvs' : Kvs} (ig : List (List String))
    (h : SameView extra kvs kvs') : baseBuild ig extra (.obj kvs) = baseBuild ig extra (.obj kvs') := by
  obtain ⟨hp, hf, _, _, _⟩ := h
  have h1 : ∀ dst, cherrypick (.obj kvs) dst [["metadata", "labels"], ["metadata", "annotations"]] =
      cherrypick (.obj kvs') dst [["metadata", "labels"], ["metadata", "annotations"]] :=
    fun dst => cherrypick_congr _ _ _ dst (fun f hm => hf f (List.mem_append_left _ hm))
  have h2 : ∀ dst, cherrypickSkip (.obj kvs) dst extra = cherrypickSkip (.obj kvs') dst extra :=
    fun dst => cherrypickSkip_congr _ _ _ dst (fun f hm => hf f (List.mem_append_right _ hm))
  have hp' : erase "status" (erase "metadata" (erase "kind" (erase "apiVersion" kvs))) =
      erase "status" (erase "metadata" (erase "kind" (erase "apiVersion" kvs'))) := hp
  simp only [baseBuild, hp', h1, h2]

theorem markKey_congr {b b' : J} (h : isDRS b = isDRS b') (key : List Char) : markKey b key = markKey b' key := by
  simp only [markKey, h]

theorem leafBuild_congr {extra : List (List String)} {kvs kvs' : Kvs} (hs : Hashes) (l : DiffBaseLeaf)
    (h : SameView extra kvs kvs') : leafBuild hs extra (.obj kvs) l = leafBuild hs extra (.obj kvs') l := by
  cases l with
  | annotations p k v1 ig => simp only [leafBuild, baseBuild_congr ig h, markKey_congr h.drs]
  | status f ig => simp only [leafBuild, baseBuild_congr ig h]

/-- **the essence is a function of the view.** -/
theorem essence_congr {extra : List (List String)} {kvs kvs' : Kvs} (cfg : Cfg)
    (h : SameView extra kvs kvs') : essence cfg extra (.obj kvs) = essence cfg extra (.obj kvs') := by
  simp only [essence]
  cases hd : cfg.diffbase with
  | leaf l => simp only [diffbaseBuild, leafBuild_congr cfg.hashes l h]
  | multi ls => simp only [diffbaseBuild, baseBuild_congr [] h, multiBuild_congr cfg.hashes extra h.kind h.owners]

/-! ### writes outside the view -/

theorem resolveE_obj_cons (kvs : Kvs) (k : String) (ks : List String) :
    resolveE (.obj kvs) (k :: ks) = match lookup k kvs with
      | some v => resolveE v ks
      | none => .error .keyError := by
  simp only [resolveE]
  cases lookup k kvs <;> rfl

theorem erase4_insert_status (v : J) (kvs : Kvs) : erase4 (J.insert "status" v kvs) = erase4 kvs := by
  simp only [erase4]
  rw [erase_insert_other v kvs (by decide : "status" ≠ "apiVersion"),
    erase_insert_other v _ (by decide : "status" ≠ "kind"),
    erase_insert_other v _ (by decide : "status" ≠ "metadata"), erase_insert_same]

theorem erase4_erase_status (kvs : Kvs) : erase4 (erase "status" kvs) = erase4 kvs := by
  simp only [erase4]
  rw [erase_comm "apiVersion" "status", erase_comm "kind" "status", erase_comm "metadata" "status", erase_erase_same]

theorem erase4_insert_metadata (v : J) (kvs : Kvs) : erase4 (J.insert "metadata" v kvs) = erase4 kvs := by
  simp only [erase4]
  rw [erase_insert_other v kvs (by decide : "metadata" ≠ "apiVersion"),
    erase_insert_other v _ (by decide : "metadata" ≠ "kind"), erase_insert_same]

theorem sameView_insert_status (kvs : Kvs) (v : J) (extra : List (List String)) (hx : ExtraAvoids "status" extra) :
    SameView extra (J.insert "status" v kvs) kvs := by
  refine ⟨erase4_insert_status v kvs, ?_, ?_, lookup_insert_other v kvs (by decide), ?_⟩
  rotate_left 2
  · simp only [ownerRefs, get?, lookup_insert_other v kvs (by decide : "metadata" ≠ "status")]
  · intro f hf
    have : ∃ k ks, f = k :: ks ∧ k ≠ "status" := by
      rcases List.mem_append.1 hf with h | h
      · simp at h; rcases h with h | h <;> subst h <;> exact ⟨"metadata", _, rfl, by decide⟩
      · exact hx f h
    obtain ⟨k, ks, rfl, hk⟩ := this
    rw [resolveE_obj_cons, resolveE_obj_cons, lookup_insert_other v kvs hk]
  · simp only [isDRS, get?, lookup_insert_other v kvs (by decide : "kind" ≠ "status"),
      lookup_insert_other v kvs (by decide : "metadata" ≠ "status")]

theorem sameView_erase_status (kvs : Kvs) (extra : List (List String)) (hx : ExtraAvoids "status" extra) :
    SameView extra (erase "status" kvs) kvs := by
  refine ⟨erase4_erase_status kvs, ?_, ?_, lookup_erase_other kvs (by decide), ?_⟩
  rotate_left 2
  · simp only [ownerRefs, get?, lookup_erase_other kvs (by decide : "metadata" ≠ "status")]
  · intro f hf
    have : ∃ k ks, f = k :: ks ∧ k ≠ "status" := by
      rcases List.mem_append.1 hf with h | h
      · simp at h; rcases h with h | h <;> subst h <;> exact ⟨"metadata", _, rfl, by decide⟩
      · exact hx f h
    obtain ⟨k, ks, rfl, hk⟩ := this
    rw [resolveE_obj_cons, resolveE_obj_cons, lookup_erase_other kvs hk]
  · simp only [isDRS, get?, lookup_erase_other kvs (by decide : "kind" ≠ "status"),
      lookup_erase_other kvs (by decide : "metadata" ≠ "status")]

theorem sameView_metadata (kvs m m' : Kvs) (extra : List (List String))
    (hm : lookup "metadata" kvs = some (.obj m))
    (hlab : lookup "labels" m' = lookup "labels" m) (hann : lookup "annotations" m' = lookup "annotations" m)
    (hown : lookup "ownerReferences" m' = lookup "ownerReferences" m)
    (hx : ExtraMetaOK m m' extra) :
    SameView extra (J.insert "metadata" (.obj m') kvs) kvs := by
  refine ⟨erase4_insert_metadata _ kvs, ?_, ?_, lookup_insert_other _ kvs (by decide), ?_⟩
  rotate_left 2
  · simp only [ownerRefs, get?, lookup_insert_same, hm, hown]
  · intro f hf
    have : (∃ k ks, f = k :: ks ∧ k ≠ "metadata") ∨
        (∃ k2 ks, f = "metadata" :: k2 :: ks ∧ lookup k2 m' = lookup k2 m) := by
      rcases List.mem_append.1 hf with h | h
      · simp at h
        rcases h with h | h <;> subst h
        · exact Or.inr ⟨"labels", [], rfl, hlab⟩
        · exact Or.inr ⟨"annotations", [], rfl, hann⟩
      · exact hx f h
    rcases this with ⟨k, ks, rfl, hk⟩ | ⟨k2, ks, rfl, hk2⟩
    · rw [resolveE_obj_cons, resolveE_obj_cons, lookup_insert_other _ kvs hk]
    · rw [resolveE_obj_cons, resolveE_obj_cons, lookup_insert_same, hm]
      simp only [resolveE_obj_cons, hk2]
  · simp only [isDRS, get?, lookup_insert_other _ kvs (by decide : "kind" ≠ "metadata"), lookup_insert_same, hm, hown]

/-- the status stanza changes, the handler fields' own values do not. -/
theorem sameView_insert_status' (kvs : Kvs) (v : J) (extra : List (List String))
    (hx : ∀ f, f ∈ extra → resolveE (.obj (J.insert "status" v kvs)) f = resolveE (.obj kvs) f) :
    SameView extra (J.insert "status" v kvs) kvs := by
  refine ⟨erase4_insert_status v kvs, ?_, ?_, lookup_insert_other v kvs (by decide), ?_⟩
  · intro f hf
    rcases List.mem_append.1 hf with h | h
    · simp at h
      rcases h with h | h <;> subst h <;>
        rw [resolveE_obj_cons, resolveE_obj_cons, lookup_insert_other v kvs (by decide : "metadata" ≠ "status")]
    · exact hx f h
  · simp only [isDRS, get?, lookup_insert_other v kvs (by decide : "kind" ≠ "status"),
      lookup_insert_other v kvs (by decide : "metadata" ≠ "status")]
  · simp only [ownerRefs, get?, lookup_insert_other v kvs (by decide : "metadata" ≠ "status")]

theorem sameView_erase_status' (kvs : Kvs) (extra : List (List String))
    (hx : ∀ f, f ∈ extra → resolveE (.obj (erase "status" kvs)) f = resolveE (.obj kvs) f) :
    SameView extra (erase "status" kvs) kvs := by
  refine ⟨erase4_erase_status kvs, ?_, ?_, lookup_erase_other kvs (by decide), ?_⟩
  · intro f hf
    rcases List.mem_append.1 hf with h | h
    · simp at h
      rcases h with h | h <;> subst h <;>
        rw [resolveE_obj_cons, resolveE_obj_cons, lookup_erase_other kvs (by decide : "metadata" ≠ "status")]
    · exact hx f h
  · simp only [isDRS, get?, lookup_erase_other kvs (by decide : "kind" ≠ "status"),
      lookup_erase_other kvs (by decide : "metadata" ≠ "status")]
  · simp only [ownerRefs, get?, lookup_erase_other kvs (by decide : "metadata" ≠ "status")]

end Kopf.C04
