/-
  C19 lemmas for Model/C19_Discovery: a re-scan replaces exactly the part of its own API group.
-/
import Kopf.Model.C19_Discovery
namespace Kopf.C19.Disc

theorem part_rescan_same (w : Watched) (g : Nat) (f : List Nat) :
    part (rescan w g f) g = f.map (fun r => (g, r)) := by
  unfold part rescan
  rw [List.filter_append, List.filter_filter]
  have h1 : w.filter (fun r => (r.1 == g) && (r.1 != g)) = [] := by
    apply List.filter_eq_nil_iff.mpr
    intro a _
    by_cases h : a.1 = g <;> simp [h]
  have h2 : (f.map (fun r => (g, r))).filter (fun r => r.1 == g) = f.map (fun r => (g, r)) := by
    apply List.filter_eq_self.mpr
    intro a ha
    obtain ⟨r, _, rfl⟩ := List.mem_map.mp ha
    simp
  rw [h1, h2, List.nil_append]

theorem part_rescan_other (w : Watched) {g g' : Nat} (f : List Nat) (h : g' ≠ g) :
    part (rescan w g f) g' = part w g' := by
  unfold part rescan
  rw [List.filter_append, List.filter_filter]
  have h2 : (f.map (fun r => (g, r))).filter (fun r => r.1 == g') = [] := by
    apply List.filter_eq_nil_iff.mpr
    intro a ha
    obtain ⟨r, _, rfl⟩ := List.mem_map.mp ha
    simp [Ne.symm h]
  rw [h2, List.append_nil]
  apply List.filter_congr
  intro a _
  by_cases ha : a.1 = g'
  · simp [ha, h]
  · simp [ha]

theorem part_step_other (w : Watched) (it : Item) (g : Nat) (h : it.ty = .listed ∨ it.group ≠ g) :
    part (step w it) g = part w g := by
  unfold step
  by_cases hl : it.ty = .listed
  · simp [hl]
  · rcases h with h | h
    · exact absurd h hl
    · simp only [hl, if_false]
      exact part_rescan_other w it.found (Ne.symm h)

theorem part_run_other (w : Watched) (its : List Item) (g : Nat)
    (h : ∀ x ∈ its, x.ty = .listed ∨ x.group ≠ g) : part (run w its) g = part w g := by
  induction its generalizing w with
  | nil => rfl
  | cons x xs ih =>
      show part (run (step w x) xs) g = part w g
      rw [ih (step w x) (fun y hy => h y (List.mem_cons_of_mem _ hy))]
      exact part_step_other w x g (h x List.mem_cons_self)

theorem run_append (w : Watched) (a b : List Item) : run w (a ++ b) = run (run w a) b := by
  unfold run; rw [List.foldl_append]

theorem runSkip_append (s : Skip) (a b : List Item) : runSkip s (a ++ b) = runSkip (runSkip s a) b := by
  unfold runSkip; rw [List.foldl_append]

theorem foldl_replicate_fixed {α β : Type} (f : α → β → α) (s : α) (x : β) (h : f s x = s) (n : Nat) :
    (List.replicate n x).foldl f s = s := by
  induction n with
  | zero => rfl
  | succ n ih => rw [List.replicate_succ, List.foldl_cons, h, ih]

end Kopf.C19.Disc
