/-
  C20 helper lemmas: a termination measure for the shutdown (`mu`), used by the progress theorem
  (`Kopf.C20.returns`): every internal step the shutdown strategy takes decreases it.
-/
import Kopf.Lemmas.C20_Reach
namespace Kopf.C20

/-- Σ_{i<n} f i -/
def sumTo : Nat → (Nat → Nat) → Nat
  | 0, _ => 0
  | n + 1, f => sumTo n f + f n

theorem sumTo_congr : ∀ (n : Nat) (f g : Nat → Nat), (∀ j, j < n → g j = f j) → sumTo n g = sumTo n f
  | 0, _, _, _ => rfl
  | n + 1, f, g, h => by
    simp only [sumTo]
    rw [sumTo_congr n f g (fun j hj => h j (Nat.lt_succ_of_lt hj)), h n (Nat.lt_succ_self n)]

theorem sumTo_lt : ∀ (n i : Nat) (f g : Nat → Nat), i < n → (∀ j, j < n → j ≠ i → g j = f j) → g i < f i →
    sumTo n g < sumTo n f
  | 0, _, _, _, hi, _, _ => absurd hi (Nat.not_lt_zero _)
  | n + 1, i, f, g, hi, h, hlt => by
    simp only [sumTo]
    by_cases hin : i = n
    · subst hin
      have := sumTo_congr i f g (fun j hj => h j (Nat.lt_succ_of_lt hj) (Nat.ne_of_lt hj))
      omega
    · have hi' : i < n := by omega
      have := sumTo_lt n i f g hi' (fun j hj hne => h j (Nat.lt_succ_of_lt hj) hne) hlt
      have := h n (Nat.lt_succ_self n) (fun hc => hin hc.symm)
      omega

def rootPot : TS → Nat
  | .waitingFlag => 4
  | .running => 3
  | .stopping _ _ => 2
  | _ => 0

def scRank : Sc → Nat
  | .init => 11 | .startup => 10 | .startupOk => 9 | .flagged => 8 | .sleeping => 7 | .waitRoots => 6
  | .stopCore _ => 5 | .coreStopping _ => 4 | .cleanup _ => 3 | .closing => 2 | .over _ => 1

def rtRank (cfg : Cfg) : Rt → Nat
  | .exited => 0
  | .stoppingHung | .cStoppingHung => 1
  | .hungWait _ => 2
  | .stoppingRoots | .cStoppingRoots => 3 + cfg.H
  | .waiting => 4 + cfg.H

def hungTime (rt : Rt) (now : Nat) : Nat :=
  match rt with
  | .hungWait dl => dl - now
  | _ => 0

def mRoots (st : Task → TS) : Nat :=
  rootPot (st (.root .stopFlag)) + rootPot (st (.root .ultimate)) + rootPot (st (.root .startupCleanup))
  + rootPot (st (.root .coreWatcher)) + rootPot (st (.root .daemonKiller)) + rootPot (st (.root .poster))
  + rootPot (st (.root .admChain)) + rootPot (st (.root .admValidating)) + rootPot (st (.root .admMutating))
  + rootPot (st (.root .admServer)) + rootPot (st (.root .resObserver)) + rootPot (st (.root .nsObserver))
  + rootPot (st (.root .orchestrator))

def mSub (st : Task → TS) (kind : Nat → SubKind) (withdrawn : Nat → Bool) (i : Nat) : Nat :=
  rootPot (st (.sub i)) + (if kind i = .pinger ∧ withdrawn i = false then 1 else 0)

def mWorker (wk : Nat → Option (Task × WS)) (w : Nat) : Nat :=
  match wk w with
  | some (_, .running) => 1
  | _ => 0

def mDaemon (dm : Nat → DS) (d : Nat) : Nat := if dm d = .running then 1 else 0

/-- the termination measure of the shutdown -/
def mu (cfg : Cfg) (s : State) : Nat :=
  rtRank cfg s.rt + hungTime s.rt s.now + mRoots s.st + scRank s.sc
  + (if s.core.live = true then 1 else 0) + (if s.core = .waitingFlag then 1 else 0)
  + (if s.waiter = true then 1 else 0) + s.orphans + (if s.orchPing = true then 0 else 1)
  + sumTo s.nSubs (mSub s.st s.kind s.withdrawn) + sumTo s.nWorkers (mWorker s.wk) + sumTo s.nDaemons (mDaemon s.dm)

theorem mRoots_upd_lt (st : Task → TS) (r : Root) (x : TS) (h : rootPot x < rootPot (st (.root r))) :
    mRoots (upd st (.root r) x) < mRoots st := by
  cases r <;> simp [mRoots, upd] at h ⊢ <;> omega

theorem mRoots_upd_sub (st : Task → TS) (i : Nat) (x : TS) : mRoots (upd st (.sub i) x) = mRoots st := by
  simp [mRoots, upd]

theorem mSubs_upd_root (n : Nat) (st : Task → TS) (kind : Nat → SubKind) (wd : Nat → Bool) (r : Root) (x : TS) :
    sumTo n (mSub (upd st (.root r) x) kind wd) = sumTo n (mSub st kind wd) := by
  apply sumTo_congr
  intro j _
  simp [mSub, upd]

theorem mSubs_upd_lt (n i : Nat) (hi : i < n) (st : Task → TS) (kind : Nat → SubKind) (wd : Nat → Bool) (x : TS)
    (h : rootPot x < rootPot (st (.sub i))) :
    sumTo n (mSub (upd st (.sub i) x) kind wd) < sumTo n (mSub st kind wd) := by
  apply sumTo_lt n i _ _ hi
  · intro j _ hne
    simp [mSub, upd, hne]
  · simp [mSub, upd]
    omega

theorem mSubs_withdraw_lt (n i : Nat) (hi : i < n) (st : Task → TS) (kind : Nat → SubKind) (wd : Nat → Bool)
    (hk : kind i = .pinger) (hw : wd i = false) :
    sumTo n (mSub st kind (upd wd i true)) < sumTo n (mSub st kind wd) := by
  apply sumTo_lt n i _ _ hi
  · intro j _ hne
    simp [mSub, upd, hne]
  · simp [mSub, upd, hk, hw]

theorem mWorkers_end_lt (n w : Nat) (hw : w < n) (wk : Nat → Option (Task × WS)) (o : Task) (x : WS)
    (h : wk w = some (o, .running)) (hx : x ≠ .running) :
    sumTo n (mWorker (upd wk w (some (o, x)))) < sumTo n (mWorker wk) := by
  apply sumTo_lt n w _ _ hw
  · intro j _ hne
    simp [mWorker, upd, hne]
  · simp [mWorker, upd, h]
    cases x <;> simp_all

theorem mDaemons_exit_lt (n d : Nat) (hd : d < n) (dm : Nat → DS) (h : dm d = .running) :
    sumTo n (mDaemon (upd dm d .ended)) < sumTo n (mDaemon dm) := by
  apply sumTo_lt n d _ _ hd
  · intro j _ hne
    simp [mDaemon, upd, hne]
  · simp [mDaemon, upd, h]

end Kopf.C20
