/-
  C18 helper lemmas, part 8: the id-keyed `outcomes` dict of `execute_handlers_once`.
-/
import Kopf.Model.C18_Admission
namespace Kopf.C18
open Kopf

theorem aget_aset_same {α : Type} (k : String) (v : α) (d : List (String × α)) :
    aget k (aset k v d) = some v := by
  induction d with
  | nil => simp [aset, aget]
  | cons hd tl ih =>
    obtain ⟨k', v'⟩ := hd
    by_cases h : k' = k
    · simp [aset, aget, h]
    · simp [aset, aget, h, ih]

theorem aget_aset_other {α : Type} (k k' : String) (v : α) (d : List (String × α)) (h : k' ≠ k) :
    aget k' (aset k v d) = aget k' d := by
  induction d with
  | nil => simp [aset, aget, Ne.symm h]
  | cons hd tl ih =>
    obtain ⟨k2, v2⟩ := hd
    by_cases h2 : k2 = k
    · subst h2
      have : ¬ k2 = k' := fun e => h e.symm
      simp [aset, aget, this]
    · by_cases h3 : k2 = k'
      · subst h3; simp [aset, aget, h2]
      · simp [aset, aget, h2, h3, ih]

theorem aset_keys_mem {α : Type} (k : String) (v : α) (d : List (String × α)) (x : String) :
    x ∈ (aset k v d).map (·.1) ↔ x = k ∨ x ∈ d.map (·.1) := by
  induction d with
  | nil => simp [aset]
  | cons hd tl ih =>
    obtain ⟨k', v'⟩ := hd
    by_cases h : k' = k
    · subst h; simp [aset]
    · simp only [aset, h, if_false, List.map_cons, List.mem_cons, ih]
      constructor
      · rintro (h1 | h1 | h1)
        · exact Or.inr (Or.inl h1)
        · exact Or.inl h1
        · exact Or.inr (Or.inr h1)
      · rintro (h1 | h1 | h1)
        · exact Or.inr (Or.inl h1)
        · exact Or.inl h1
        · exact Or.inr (Or.inr h1)

theorem aset_nodup {α : Type} (k : String) (v : α) (d : List (String × α)) (hd : (d.map (·.1)).Nodup) :
    ((aset k v d).map (·.1)).Nodup := by
  induction d with
  | nil => simp [aset]
  | cons hd' tl ih =>
    obtain ⟨k', v'⟩ := hd'
    simp only [List.map_cons, List.nodup_cons] at hd
    by_cases h : k' = k
    · subst h; simpa [aset] using hd
    · simp only [aset, h, if_false, List.map_cons, List.nodup_cons]
      refine ⟨?_, ih hd.2⟩
      intro hm
      rcases (aset_keys_mem k v tl k').1 hm with e | e
      · exact h e
      · exact hd.1 e

/-- for a dict (unique keys): membership of a binding = `get` -/
theorem mem_iff_aget {α : Type} (d : List (String × α)) (hd : (d.map (·.1)).Nodup) (k : String) (v : α) :
    (k, v) ∈ d ↔ aget k d = some v := by
  induction d with
  | nil => simp [aget]
  | cons hd' tl ih =>
    obtain ⟨k', v'⟩ := hd'
    simp only [List.map_cons, List.nodup_cons] at hd
    by_cases h : k' = k
    · subst h
      simp only [aget, if_true, List.mem_cons, Prod.mk.injEq, true_and, Option.some.injEq]
      constructor
      · rintro (e | e)
        · exact e.symm
        · exact absurd (List.mem_map.2 ⟨(k', v), e, rfl⟩) hd.1
      · intro e; exact Or.inl e.symm
    · simp only [aget, h, if_false, List.mem_cons, Prod.mk.injEq]
      rw [← ih hd.2]
      constructor
      · rintro (⟨e, _⟩ | e)
        · exact absurd e.symm h
        · exact e
      · intro e; exact Or.inr e

theorem lastOfId_spec (sel : List Handler) (i : String) (h : Handler) (hl : lastOfId sel i = some h) :
    h ∈ sel ∧ h.id = i := by
  induction sel with
  | nil => simp [lastOfId] at hl
  | cons x xs ih =>
    simp only [lastOfId] at hl
    cases hx : lastOfId xs i with
    | some y =>
      simp only [hx, Option.some.injEq] at hl
      subst hl
      exact ⟨List.mem_cons_of_mem _ (ih hx).1, (ih hx).2⟩
    | none =>
      simp only [hx] at hl
      by_cases e : x.id = i
      · simp only [e, if_true, Option.some.injEq] at hl
        subst hl
        exact ⟨List.mem_cons_self .., e⟩
      · simp [e] at hl

theorem collect_get (act : Handler → Act) (l : List Handler) : ∀ (d : List (String × Outcome)) (i : String),
    aget i (collectOutcomes act d l) =
      match lastOfId l i with
      | some h => some (act h).error
      | none => aget i d := by
  induction l with
  | nil => intro d i; simp [collectOutcomes, lastOfId]
  | cons h t ih =>
    intro d i
    rw [collectOutcomes, ih]
    simp only [lastOfId]
    cases hl : lastOfId t i with
    | some x => rfl
    | none =>
      by_cases e : h.id = i
      · subst e; simp [aget_aset_same]
      · simp [e, aget_aset_other _ _ _ _ (Ne.symm e)]

theorem collect_nodup (act : Handler → Act) (l : List Handler) : ∀ (d : List (String × Outcome)),
    (d.map (·.1)).Nodup → ((collectOutcomes act d l).map (·.1)).Nodup := by
  induction l with
  | nil => intro d hd; exact hd
  | cons h t ih => intro d hd; rw [collectOutcomes]; exact ih _ (aset_nodup _ _ _ hd)

/-- the values of the dict: exactly the outcomes of the handlers that are the last of their id -/
theorem collect_values (act : Handler → Act) (sel : List Handler) (o : Outcome) :
    o ∈ (collectOutcomes act [] sel).map (·.2) ↔
      ∃ h, lastOfId sel h.id = some h ∧ o = (act h).error := by
  have hnd := collect_nodup act sel [] (by simp)
  constructor
  · intro ho
    obtain ⟨⟨i, o'⟩, hmem, rfl⟩ := List.mem_map.1 ho
    have hg := (mem_iff_aget _ hnd i o').1 hmem
    rw [collect_get] at hg
    cases hl : lastOfId sel i with
    | none => simp [hl, aget] at hg
    | some h =>
      simp only [hl, Option.some.injEq] at hg
      have hid := (lastOfId_spec sel i h hl).2
      exact ⟨h, by rw [hid]; exact hl, hg.symm⟩
  · rintro ⟨h, hl, rfl⟩
    have hg : aget h.id (collectOutcomes act [] sel) = some (act h).error := by
      rw [collect_get, hl]
    exact List.mem_map.2 ⟨(h.id, (act h).error), (mem_iff_aget _ hnd _ _).2 hg, rfl⟩

/-- with pairwise different ids, every selected handler is the last of its id -/
theorem lastOfId_of_nodup (sel : List Handler) (hnd : (sel.map (·.id)).Nodup) (h : Handler) (hm : h ∈ sel) :
    lastOfId sel h.id = some h := by
  induction sel with
  | nil => simp at hm
  | cons x xs ih =>
    simp only [List.map_cons, List.nodup_cons] at hnd
    simp only [lastOfId]
    rcases List.mem_cons.1 hm with rfl | hm
    · cases hx : lastOfId xs h.id with
      | some y =>
        have := lastOfId_spec xs h.id y hx
        exact absurd (List.mem_map.2 ⟨y, this.1, this.2⟩) hnd.1
      | none => simp
    · rw [ih hnd.2 hm]

end Kopf.C18
