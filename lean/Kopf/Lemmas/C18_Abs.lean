/-
  C18 helper lemmas, part 2: the abstract (leaf-function) semantics of a merge-style patch —
  as the repaired `Patch._apply_patch` (74dc18a) and RFC 7386 both implement it.
-/
import Kopf.Lemmas.C18_Leaf
namespace Kopf.C18
open Kopf Kopf.J
set_option linter.unusedSimpArgs false

mutual
  /-- what the instruction `v` at path `P` does to a leaf function -/
  def absInstr (M : LeafMap) (P : List String) : J → LeafMap
    | .null => delA M P
    | .obj pk => absKvs (clrA M P) P pk
    | .bool b => setA M P (.bool b)
    | .num n => setA M P (.num n)
    | .str s => setA M P (.str s)
    | .arr xs => setA M P (.arr xs)
  def absKvs (M : LeafMap) (P : List String) : List (String × J) → LeafMap
    | [] => M
    | (k, v) :: rest => absKvs (absInstr M (P ++ [k]) v) P rest
end

theorem clrA_frame (M : LeafMap) (P q : List String) (h : pre P q = false) : clrA M P q = M q := by
  simp [clrA, h]

/-! ### frame: an instruction at `P` only touches paths at or below `P` -/
mutual
  theorem absInstr_frame : ∀ (v : J) (M : LeafMap) (P q : List String), pre P q = false →
      absInstr M P v q = M q
    | .null, M, P, q, h => by simp [absInstr, delA, h]
    | .obj pk, M, P, q, h => by rw [absInstr, absKvs_frame pk _ P q h, clrA_frame M P q h]
    | .bool _, M, P, q, h => by simp [absInstr, setA, h]
    | .num _, M, P, q, h => by simp [absInstr, setA, h]
    | .str _, M, P, q, h => by simp [absInstr, setA, h]
    | .arr _, M, P, q, h => by simp [absInstr, setA, h]
  theorem absKvs_frame : ∀ (pk : List (String × J)) (M : LeafMap) (P q : List String), pre P q = false →
      absKvs M P pk q = M q
    | [], _, _, _, _ => rfl
    | (k, v) :: rest, M, P, q, h => by
        rw [absKvs, absKvs_frame rest _ P q h]
        apply absInstr_frame v M (P ++ [k]) q
        cases hp : pre (P ++ [k]) q with
        | false => rfl
        | true => rw [pre_append_left P [k] q hp] at h; exact absurd h (by simp)
end

/-! ### shift: the part of the map below key `k` -/
def shiftM (k : String) (M : LeafMap) : LeafMap := fun r => M (k :: r)

theorem shift_setA (k : String) (M : LeafMap) (P : List String) (v : J) :
    shiftM k (setA M (k :: P) v) = setA (shiftM k M) P v := by
  funext r; simp [shiftM, setA]

theorem shift_delA (k : String) (M : LeafMap) (P : List String) :
    shiftM k (delA M (k :: P)) = delA (shiftM k M) P := by
  funext r; simp [shiftM, delA]

theorem shift_clrA (k : String) (M : LeafMap) (P : List String) :
    shiftM k (clrA M (k :: P)) = clrA (shiftM k M) P := by
  funext r; simp [shiftM, clrA]

mutual
  theorem absInstr_shift : ∀ (v : J) (k : String) (M : LeafMap) (P : List String),
      shiftM k (absInstr M (k :: P) v) = absInstr (shiftM k M) P v
    | .null, k, M, P => by simp [absInstr, shift_delA]
    | .obj pk, k, M, P => by rw [absInstr, absInstr, absKvs_shift pk k _ P, shift_clrA]
    | .bool _, k, M, P => by simp [absInstr, shift_setA]
    | .num _, k, M, P => by simp [absInstr, shift_setA]
    | .str _, k, M, P => by simp [absInstr, shift_setA]
    | .arr _, k, M, P => by simp [absInstr, shift_setA]
  theorem absKvs_shift : ∀ (pk : List (String × J)) (k : String) (M : LeafMap) (P : List String),
      shiftM k (absKvs M (k :: P) pk) = absKvs (shiftM k M) P pk
    | [], _, _, _ => rfl
    | (k', v) :: rest, k, M, P => by
        rw [absKvs, absKvs, absKvs_shift rest k _ P, List.cons_append, absInstr_shift v k M (P ++ [k'])]
end

end Kopf.C18
