/-
  C18 helper lemmas, part 2: the abstract (leaf-function) semantics of a merge-style patch, and
  the proof that `Patch._apply_patch` (model: `applyInstr`) implements it whenever it returns.
-/
import Kopf.Lemmas.C18_Leaf
namespace Kopf.C18
open Kopf Kopf.J
set_option linter.unusedSimpArgs false

mutual
  /-- what the instruction `v` at path `P` does to a leaf function -/
  def absInstr (M : LeafMap) (P : List String) : J → LeafMap
    | .null => delA M P
    | .obj pk => absKvs M P pk
    | .bool b => setA M P (.bool b)
    | .num n => setA M P (.num n)
    | .str s => setA M P (.str s)
    | .arr xs => setA M P (.arr xs)
  def absKvs (M : LeafMap) (P : List String) : List (String × J) → LeafMap
    | [] => M
    | (k, v) :: rest => absKvs (absInstr M (P ++ [k]) v) P rest
end

theorem absInstr_leaf (M : LeafMap) (P : List String) (v : J) (ho : v.isObj = false) (hn : v.isNull = false) :
    absInstr M P v = setA M P v := by
  cases v <;> simp_all [absInstr, isObj, isNull]

theorem applyInstr_leaf (b : J) (P : List String) (v : J) (ho : v.isObj = false) (hn : v.isNull = false) :
    applyInstr b P v = ensure b P v := by
  cases v <;> simp_all [applyInstr, isObj, isNull]

/-! ### frame: an instruction at `P` only touches paths below `P` -/
mutual
  theorem absInstr_frame : ∀ (v : J) (M : LeafMap) (P q : List String), pre P q = false →
      absInstr M P v q = M q
    | .null, M, P, q, h => by simp [absInstr, delA, h]
    | .obj pk, M, P, q, h => by rw [absInstr]; exact absKvs_frame pk M P q h
    | .bool _, M, P, q, h => by simp [absInstr, setA, h]
    | .num _, M, P, q, h => by simp [absInstr, setA, h]
    | .str _, M, P, q, h => by simp [absInstr, setA, h]
    | .arr _, M, P, q, h => by simp [absInstr, setA, h]
  theorem absKvs_frame : ∀ (pk : List (String × J)) (M : LeafMap) (P q : List String), pre P q = false →
      absKvs M P pk q = M q
    | [], _, _, _, _ => rfl
    | (k, v) :: rest, M, P, q, h => by
        rw [absKvs, absKvs_frame rest _ P q h]
        apply absInstr_frame v M (P ++ [k]) q
        cases hp : pre (P ++ [k]) q with
        | false => rfl
        | true => rw [pre_append_left P [k] q hp] at h; exact absurd h (by simp)
end

/-! ### shift: the part of the map below key `k` -/
def shiftM (k : String) (M : LeafMap) : LeafMap := fun r => M (k :: r)

theorem shift_setA (k : String) (M : LeafMap) (P : List String) (v : J) :
    shiftM k (setA M (k :: P) v) = setA (shiftM k M) P v := by
  funext r; simp [shiftM, setA]

theorem shift_delA (k : String) (M : LeafMap) (P : List String) :
    shiftM k (delA M (k :: P)) = delA (shiftM k M) P := by
  funext r; simp [shiftM, delA]

mutual
  theorem absInstr_shift : ∀ (v : J) (k : String) (M : LeafMap) (P : List String),
      shiftM k (absInstr M (k :: P) v) = absInstr (shiftM k M) P v
    | .null, k, M, P => by simp [absInstr, shift_delA]
    | .obj pk, k, M, P => by rw [absInstr, absInstr]; exact absKvs_shift pk k M P
    | .bool _, k, M, P => by simp [absInstr, shift_setA]
    | .num _, k, M, P => by simp [absInstr, shift_setA]
    | .str _, k, M, P => by simp [absInstr, shift_setA]
    | .arr _, k, M, P => by simp [absInstr, shift_setA]
  theorem absKvs_shift : ∀ (pk : List (String × J)) (k : String) (M : LeafMap) (P : List String),
      shiftM k (absKvs M (k :: P) pk) = absKvs (shiftM k M) P pk
    | [], _, _, _ => rfl
    | (k', v) :: rest, k, M, P => by
        rw [absKvs, absKvs, absKvs_shift rest k _ P, List.cons_append, absInstr_shift v k M (P ++ [k'])]
end

/-! ### `_apply_patch` implements the abstract semantics (whenever it returns) -/
mutual
  theorem applyInstr_sem : ∀ (v : J) (b b' : J) (P : List String),
      applyInstr b P v = .ok b' → leafAt b' = absInstr (leafAt b) P v
    | .null, b, b', P, h => by
        funext q; simp only [applyInstr] at h; simpa [absInstr] using remove_leaf P b b' h q
    | .obj pk, b, b', P, h => by
        simp only [applyInstr] at h; rw [absInstr]; exact applyKvs_sem pk b b' P h
    | .bool x, b, b', P, h => by
        funext q; simp only [applyInstr] at h; simpa [absInstr] using ensure_leaf (.bool x) rfl P b b' h q
    | .num x, b, b', P, h => by
        funext q; simp only [applyInstr] at h; simpa [absInstr] using ensure_leaf (.num x) rfl P b b' h q
    | .str x, b, b', P, h => by
        funext q; simp only [applyInstr] at h; simpa [absInstr] using ensure_leaf (.str x) rfl P b b' h q
    | .arr x, b, b', P, h => by
        funext q; simp only [applyInstr] at h; simpa [absInstr] using ensure_leaf (.arr x) rfl P b b' h q
  theorem applyKvs_sem : ∀ (pk : List (String × J)) (b b' : J) (P : List String),
      applyKvs b P pk = .ok b' → leafAt b' = absKvs (leafAt b) P pk
    | [], b, b', P, h => by simp [applyKvs] at h; subst h; rfl
    | (k, v) :: rest, b, b', P, h => by
        simp only [applyKvs] at h
        cases h1 : applyInstr b (P ++ [k]) v with
        | error e => simp [h1] at h
        | ok b1 =>
          simp only [h1] at h
          rw [absKvs, ← applyInstr_sem v b b1 (P ++ [k]) h1]
          exact applyKvs_sem rest b1 b' P h
end

end Kopf.C18
