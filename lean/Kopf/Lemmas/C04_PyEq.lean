/-
  C04 — lemmas about `same` (Python `==`) and `J.dropNulls` on well-formed values.
-/
import Kopf.Lemmas.C04_Pigeon
import Kopf.Model.C04_Diff
namespace Kopf.C04
open Kopf Kopf.J

/-! ### full induction over `J` (through arrays and objects) -/
mutual
  theorem fullInd_aux {P : J → Prop} (hleaf : ∀ a, (∀ xs, a ≠ .arr xs) → (∀ kvs, a ≠ .obj kvs) → P a)
      (harr : ∀ xs, (∀ x, x ∈ xs → P x) → P (.arr xs))
      (hobj : ∀ kvs, (∀ k x, (k, x) ∈ kvs → P x) → P (.obj kvs)) : ∀ a : J, P a
    | .null => hleaf _ (by intro _ h; cases h) (by intro _ h; cases h)
    | .bool _ => hleaf _ (by intro _ h; cases h) (by intro _ h; cases h)
    | .num _ => hleaf _ (by intro _ h; cases h) (by intro _ h; cases h)
    | .str _ => hleaf _ (by intro _ h; cases h) (by intro _ h; cases h)
    | .arr xs => harr xs (fullInd_list hleaf harr hobj xs)
    | .obj kvs => hobj kvs (fullInd_kvs hleaf harr hobj kvs)
  theorem fullInd_list {P : J → Prop} (hleaf : ∀ a, (∀ xs, a ≠ .arr xs) → (∀ kvs, a ≠ .obj kvs) → P a)
      (harr : ∀ xs, (∀ x, x ∈ xs → P x) → P (.arr xs))
      (hobj : ∀ kvs, (∀ k x, (k, x) ∈ kvs → P x) → P (.obj kvs)) : ∀ xs : List J, ∀ x, x ∈ xs → P x
    | [], _, h => by cases h
    | x' :: rest, x, h => by
        rcases List.mem_cons.1 h with h | h
        · cases h; exact fullInd_aux hleaf harr hobj x'
        · exact fullInd_list hleaf harr hobj rest x h
  theorem fullInd_kvs {P : J → Prop} (hleaf : ∀ a, (∀ xs, a ≠ .arr xs) → (∀ kvs, a ≠ .obj kvs) → P a)
      (harr : ∀ xs, (∀ x, x ∈ xs → P x) → P (.arr xs))
      (hobj : ∀ kvs, (∀ k x, (k, x) ∈ kvs → P x) → P (.obj kvs)) :
      ∀ kvs : List (String × J), ∀ k x, (k, x) ∈ kvs → P x
    | [], _, _, h => by cases h
    | (k', x') :: rest, k, x, h => by
        rcases List.mem_cons.1 h with h | h
        · cases h; exact fullInd_aux hleaf harr hobj x'
        · exact fullInd_kvs hleaf harr hobj rest k x h
end

/-! ### `same` basics -/

theorem pyEq_null_right {x : J} (h : same x .null = true) : x = .null := by
  cases x <;> simp [same] at h ⊢

theorem pyEq_null_left {y : J} (h : same .null y = true) : y = .null := by
  cases y <;> simp [same] at h ⊢

theorem pyEq_isObj {a b : J} (h : same a b = true) : a.isObj = b.isObj := by
  cases a <;> cases b <;> simp [same] at h <;> rfl

theorem pyEqSub_iff (a b : Kvs) :
    sameSub a b = true ↔ ∀ k x, (k, x) ∈ a → ∃ y, lookup k b = some y ∧ same x y = true := by
  induction a with
  | nil => simp [sameSub]
  | cons kv a ih =>
    obtain ⟨k0, x0⟩ := kv
    simp only [sameSub, Bool.and_eq_true, ih, List.mem_cons]
    constructor
    · rintro ⟨h1, h2⟩ k x (h | h)
      · cases h
        cases hl : lookup k0 b with
        | none => simp [hl] at h1
        | some y => simp [hl] at h1; exact ⟨y, rfl, h1⟩
      · exact h2 k x h
    · intro h
      refine ⟨?_, fun k x hm => h k x (Or.inr hm)⟩
      obtain ⟨y, hy, hxy⟩ := h k0 x0 (Or.inl rfl)
      simp [hy, hxy]

/-- the relation two lookups stand in when the dicts are equal. -/
def optRel (r : J → J → Bool) : Option J → Option J → Prop
  | none, none => True
  | some x, some y => r x y = true
  | _, _ => False

theorem pyEq_obj (a b : Kvs) : same (.obj a) (.obj b) = (a.length == b.length && sameSub a b) := by
  simp [same]

/-- Python dict equality, for unique keys: pointwise on lookups. -/
theorem pyEq_obj_iff {a b : Kvs} (ha : wfKvs a = true) (hb : wfKvs b = true) :
    same (.obj a) (.obj b) = true ↔ ∀ k, optRel same (lookup k a) (lookup k b) := by
  rw [pyEq_obj, Bool.and_eq_true, pyEqSub_iff]
  have hna := nodupKeys_of_wf ha
  have hnb := nodupKeys_of_wf hb
  constructor
  · rintro ⟨hlen, hsub⟩ k
    have hlen : a.length = b.length := by simpa using hlen
    have hab : ∀ k, hasKey k a = true → hasKey k b = true := by
      intro k hk
      obtain ⟨x, hx⟩ := hasKey_lookup hk
      obtain ⟨y, hy, _⟩ := hsub k x (mem_of_lookup hx)
      exact lookup_some_hasKey hy
    have hba := keys_sub_of_length_eq a b hna hnb hlen hab
    cases hla : lookup k a with
    | some x =>
      obtain ⟨y, hy, hxy⟩ := hsub k x (mem_of_lookup hla)
      simp [hy, optRel, hxy]
    | none =>
      cases hlb : lookup k b with
      | none => simp [optRel]
      | some y =>
        have := hba k (lookup_some_hasKey hlb)
        rw [(lookup_none_iff k a).1 hla] at this; cases this
  · intro h
    have hab : ∀ k, hasKey k a = true → hasKey k b = true := by
      intro k hk
      obtain ⟨x, hx⟩ := hasKey_lookup hk
      have := h k
      rw [hx] at this
      cases hlb : lookup k b with
      | none => rw [hlb] at this; simp [optRel] at this
      | some y => exact lookup_some_hasKey hlb
    have hba : ∀ k, hasKey k b = true → hasKey k a = true := by
      intro k hk
      obtain ⟨y, hy⟩ := hasKey_lookup hk
      have := h k
      rw [hy] at this
      cases hla : lookup k a with
      | none => rw [hla] at this; simp [optRel] at this
      | some x => exact lookup_some_hasKey hla
    refine ⟨?_, ?_⟩
    · have h1 := length_le_of_keys_sub a b hna hab
      have h2 := length_le_of_keys_sub b a hnb hba
      simp; omega
    · intro k x hm
      have hx := lookup_of_mem ha hm
      have := h k
      rw [hx] at this
      cases hlb : lookup k b with
      | none => rw [hlb] at this; simp [optRel] at this
      | some y => rw [hlb] at this; exact ⟨y, rfl, this⟩

theorem wf_arr_mem {xs : List J} (h : wf (.arr xs) = true) : ∀ x, x ∈ xs → wf x = true := by
  have h' : wfList xs = true := by simpa [wf] using h
  clear h
  induction xs with
  | nil => intro x hx; cases hx
  | cons y ys ih =>
    simp [wfList, Bool.and_eq_true] at h'
    intro x hx
    rcases List.mem_cons.1 hx with hx | hx
    · subst hx; exact h'.1
    · exact ih h'.2 x hx

theorem wf_obj {kvs : Kvs} : wf (.obj kvs) = wfKvs kvs := by simp [wf]

theorem pyEq_refl (a : J) : wf a = true → same a a = true := by
  refine fullInd_aux (P := fun a => wf a = true → same a a = true) ?_ ?_ ?_ a
  · intro a h1 h2 _
    cases a with
    | arr xs => exact absurd rfl (h1 xs)
    | obj kvs => exact absurd rfl (h2 kvs)
    | _ => simp [same]
  · intro xs ih hw
    have hm := wf_arr_mem hw
    simp only [same]
    clear hw
    induction xs with
    | nil => simp [sameList]
    | cons y ys ihl =>
      simp only [sameList, Bool.and_eq_true]
      exact ⟨ih y List.mem_cons_self (hm y List.mem_cons_self),
             ihl (fun x hx => ih x (List.mem_cons_of_mem _ hx)) (fun x hx => hm x (List.mem_cons_of_mem _ hx))⟩
  · intro kvs ih hw
    rw [wf_obj] at hw
    rw [pyEq_obj_iff hw hw]
    intro k
    cases hl : lookup k kvs with
    | none => simp [optRel]
    | some x => exact ih k x (mem_of_lookup hl) (wf_of_lookup hw hl)

/-! ### `dropNulls` -/

theorem dropNulls_nonobj {a : J} (h : a.isObj = false) : dropNulls a = a := by
  cases a <;> simp [dropNulls, isObj] at h ⊢

theorem dropNulls_obj (kvs : Kvs) : dropNulls (.obj kvs) = .obj (dropNullsKvs kvs) := by
  simp [dropNulls]

theorem dropNullsKvs_cons (k : String) (v : J) (rest : Kvs) :
    dropNullsKvs ((k, v) :: rest) =
      if v.isNull then dropNullsKvs rest else (k, dropNulls v) :: dropNullsKvs rest := by
  cases v <;> simp [dropNullsKvs, isNull]

theorem dropNulls_isNull {v : J} : (dropNulls v).isNull = v.isNull := by
  cases v <;> simp [dropNulls, isNull]

theorem hasKey_dropNulls {k : String} {l : Kvs} (h : hasKey k l = false) : hasKey k (dropNullsKvs l) = false := by
  induction l with
  | nil => simp [dropNullsKvs]
  | cons kv l ih =>
    obtain ⟨k2, v⟩ := kv
    simp at h
    rw [dropNullsKvs_cons]
    by_cases hv : v.isNull = true
    · simp [hv, ih h.2]
    · simp [hv, ih h.2, h.1]

/-- lookup through `dropNullsKvs` (unique keys). -/
def dnOpt : Option J → Option J
  | some v => if v.isNull then none else some (dropNulls v)
  | none => none

theorem lookup_dropNulls (k : String) {l : Kvs} (hn : nodupKeys l = true) :
    lookup k (dropNullsKvs l) = dnOpt (lookup k l) := by
  induction l with
  | nil => simp [dropNullsKvs, dnOpt]
  | cons kv l ih =>
    obtain ⟨k2, v⟩ := kv
    simp [nodupKeys] at hn
    rw [dropNullsKvs_cons]
    by_cases hk : k2 = k
    · subst hk
      by_cases hv : v.isNull = true
      · simp [hv, lookup_cons, dnOpt]
        exact (lookup_none_iff k2 _).2 (hasKey_dropNulls hn.1)
      · simp [hv, lookup_cons, dnOpt]
    · by_cases hv : v.isNull = true
      · simp [hv, lookup_cons, hk, ih hn.2]
      · simp [hv, lookup_cons, hk, ih hn.2]

theorem wf_dropNulls (a : J) : wf a = true → wf (dropNulls a) = true := by
  refine objInduction (P := fun a => wf a = true → wf (dropNulls a) = true) a ?_ ?_
  · intro a h hw; rw [dropNulls_nonobj h]; exact hw
  · intro kvs ih hw
    rw [wf_obj] at hw
    rw [dropNulls_obj, wf_obj]
    induction kvs with
    | nil => simp [dropNullsKvs, wfKvs]
    | cons kv l ihl =>
      obtain ⟨k, v⟩ := kv
      obtain ⟨hk, hv, hl⟩ := (wfKvs_cons k v l).1 hw
      rw [dropNullsKvs_cons]
      have hrest := ihl (fun k x hm => ih k x (List.mem_cons_of_mem _ hm)) hl
      by_cases hn : v.isNull = true
      · simp [hn, hrest]
      · simp only [hn]
        exact (wfKvs_cons _ _ _).2 ⟨hasKey_dropNulls hk, ih k v List.mem_cons_self hv, hrest⟩

theorem wfKvs_dropNulls {kvs : Kvs} (h : wfKvs kvs = true) : wfKvs (dropNullsKvs kvs) = true := by
  have := wf_dropNulls (.obj kvs) (by rw [wf_obj]; exact h)
  rwa [dropNulls_obj, wf_obj] at this

end Kopf.C04
