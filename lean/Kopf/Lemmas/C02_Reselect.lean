/-
  C02 — a FINISHED handler that is not selected in some pass of an open cycle and is selected again later
  (seed C02f's class: a label / annotation / field filter that stops matching and matches again; an @on.resume handler
  left out by the in-process memory of finished resuming handlers and selected again after a restart).

  The code's pass keeps the record of an owned handler that is not selected (same purpose) exactly as it is —
  `finished_persists` has no hypothesis on the selection — so `finished_never_invoked_varying` covers the class. Here:
  the seeded VARIANT (the purge of the "fallen" records extended to the records of the current purpose whose handler is
  not active in this pass), the lemma that it forgets such a record in one pass, and sequences of passes over it.
  NOT a model of the code: the mutant the witness theorems in Props are about.
-/
import Kopf.Lemmas.C02_Cycle
import Kopf.Lemmas.C02_Deselect
namespace Kopf.C02

/-- the variant's `fallen_ids`: a purpose, and (another cause's, or the handler is not active in this pass) -/
def fallenV (st : St) (ids : List Id) (reason : String) : List Id :=
  ids.filter (fun i => match st i with
    | some h => h.r.purpose != none && (h.r.purpose != some reason || !h.active)
    | none => false)

/-- `fallen_state.purge(...)` over the variant's set: those records and their sub-handlers' -/
def purgeFallenV (P : Store) (st : St) (ids : List Id) (reason : String) : Store := fun i =>
  if i ∈ fallenV st ids reason || i ∈ allSubrefs st (fallenV st ids reason) then none else P i

/-- `process_changing_cause` with the purge of the fallen records generalised to the records of unselected handlers
    of the CURRENT purpose (seed C02f: `if fallen_ids:` in place of `if state.extras:`); the rest is `cycle` verbatim. -/
def cycleUnselPurgeVariant (cfg : Cfg) (P : Store) (now now1 : Tick) (exec : Id → Nat → Outcome) : CycleResult :=
  if !handlerReasons.contains cfg.reason then cycle cfg P now now1 exec
  else
    let st1 := preState cfg P now
    let P1 := purgeFallenV P st1 (known cfg) cfg.reason
    if cfg.selected.isEmpty then
      { invoked := [], P' := purge P1 st1 cfg.owned (known cfg), closed := true, delays := [] }
    else
      let r := execOnce cfg st1 now now1 exec
      let P2 := store P1 r.st
      let d := done r.st (known cfg)
      let P3 := if d then purge P2 r.st cfg.owned (known cfg) else P2
      { invoked := r.invoked, P' := P3, closed := d, delays := delays r.st (known cfg).eraseDups now1 }

/-- the variant invokes what the code invokes and takes the same closing decision: ONE pass looks the same from
    the handlers' side; the difference is in what it leaves on the object -/
theorem unselVariant_same_pass (cfg : Cfg) (P : Store) (now now1 : Tick) (exec : Id → Nat → Outcome) :
    (cycleUnselPurgeVariant cfg P now now1 exec).invoked = (cycle cfg P now now1 exec).invoked ∧
    (cycleUnselPurgeVariant cfg P now now1 exec).closed = (cycle cfg P now now1 exec).closed := by
  by_cases hr : handlerReasons.contains cfg.reason = true
  · by_cases he : cfg.selected.isEmpty = true
    · rw [cycle_no_handlers cfg P now now1 exec hr he]
      unfold cycleUnselPurgeVariant
      simp only [hr, he, Bool.not_true, Bool.false_eq_true, if_false, if_true]
      all_goals (first | trivial | exact ⟨trivial, trivial⟩ | exact ⟨rfl, rfl⟩)
    · have he' : cfg.selected.isEmpty = false := by simpa using he
      rw [cycle_main cfg P now now1 exec hr he']
      unfold cycleUnselPurgeVariant postState
      simp only [hr, he', Bool.not_true, Bool.false_eq_true, if_false]
      all_goals (first | trivial | exact ⟨trivial, trivial⟩ | exact ⟨rfl, rfl⟩)
  · have hr' : handlerReasons.contains cfg.reason = false := by simpa using hr
    unfold cycleUnselPurgeVariant
    simp only [hr', Bool.not_false, if_true]
    all_goals (first | trivial | exact ⟨trivial, trivial⟩ | exact ⟨rfl, rfl⟩)

/-- ONE pass of the variant over the record — finished or not — of an owned handler that carries the current purpose
    and is not selected in this pass: if the pass leaves the cycle open, the record is gone from the object. -/
theorem unselVariant_forgets (cfg : Cfg) (P : Store) (now now1 : Tick) (exec : Id → Nat → Outcome)
    (hr : handlerReasons.contains cfg.reason = true) (hsel : cfg.selected.isEmpty = false)
    (j : Id) (r : Rec) (ho : j ∈ cfg.owned) (hns : j ∉ cfg.selected) (hP : P j = some r)
    (hp : r.purpose = some cfg.reason)
    (hc : (cycleUnselPurgeVariant cfg P now now1 exec).closed = false) :
    (cycleUnselPurgeVariant cfg P now now1 exec).P' j = none := by
  have hpre : preState cfg P now j = some { r := r, active := false, dirty := false } :=
    preState_unselected ho hns hP
  have hpost : (execOnce cfg (preState cfg P now) now now1 exec).st j
      = some { r := r, active := false, dirty := false } := by
    have := postState_unselected (cfg := cfg) (P := P) (now := now) (now1 := now1) (exec := exec) hns
    unfold postState at this
    rw [this, hpre]
  have hfall : j ∈ fallenV (preState cfg P now) (known cfg) cfg.reason := by
    unfold fallenV
    rw [List.mem_filter]
    refine ⟨by simp [known, ho], ?_⟩
    rw [hpre]
    simp [hp]
  unfold cycleUnselPurgeVariant at hc ⊢
  simp only [hr, hsel, Bool.not_true, Bool.false_eq_true, if_false] at hc ⊢
  simp only [hc, Bool.false_eq_true, if_false]
  rw [store_clean hpost rfl]
  unfold purgeFallenV
  simp [hfall]

/-- The invocations of each following pass of the variant, the selection changing from pass to pass
    (`invokedSeqV` with the variant's pass). -/
structure StepS where
  now : Tick
  now1 : Tick
  exec : Id → Nat → Outcome
  selected : List Id
  lifecycle : Lifecycle

def cfgS (owned : List Id) (reason : String) (s : StepS) : Cfg :=
  { owned := owned, selected := s.selected, limits := fun _ => ⟨none, none⟩, reason := reason, lifecycle := s.lifecycle }

def variantSeq (owned : List Id) (reason : String) : Store → List StepS → List (List (Id × Nat))
  | _, [] => []
  | P, s :: rest =>
      let c := cycleUnselPurgeVariant (cfgS owned reason s) P s.now s.now1 s.exec
      c.invoked :: (if c.closed then [] else variantSeq owned reason c.P' rest)

def codeSeq (owned : List Id) (reason : String) : Store → List StepS → List (List (Id × Nat))
  | _, [] => []
  | P, s :: rest =>
      let c := cycle (cfgS owned reason s) P s.now s.now1 s.exec
      c.invoked :: (if c.closed then [] else codeSeq owned reason c.P' rest)

/-! ### the seed's histories as instances -/

def againOutcome : Outcome := { final := false, delay := some 0, error := true, subrefs := [] }
def permOutcome : Outcome := { final := true, delay := none, error := true, subrefs := [] }

/-- `g` ends for good at once (`fin`), its sibling `s` keeps failing temporarily -/
def reselExec (fin : Outcome) : Id → Nat → Outcome := fun i _ => if i = "g" then fin else againOutcome

/-- three passes: both selected; `g` not selected (its label was flipped away / it is left out as a finished
    resuming handler); both selected again (the label is back / the operator was restarted) -/
def reselSteps (fin : Outcome) (lc : Lifecycle) : List StepS :=
  [ { now := 0, now1 := 0, exec := reselExec fin, selected := ["g", "s"], lifecycle := lc },
    { now := 64, now1 := 64, exec := reselExec fin, selected := ["s"], lifecycle := lc },
    { now := 128, now1 := 128, exec := reselExec fin, selected := ["g", "s"], lifecycle := lc } ]

end Kopf.C02
