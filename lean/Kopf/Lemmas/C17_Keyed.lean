/-
  C17 helper lemmas, part 7: the memories' key (`inventory.ResourceMemories._build_key`).
  The memory of the event's own object is the only one a step touches; hence the mechanism with the
  memories kept under an injective key (`stepKeyed`) is `step`.
-/
import Kopf.Lemmas.C17_Mirror
namespace Kopf.C17

section Keyed
variable {Id Res L K V O M : Type} [DecidableEq Id] [DecidableEq Res] [DecidableEq L]
  [DecidableEq K] [DecidableEq O] [DecidableEq M]

/-- one step touches the memory of its own object only (no invariant needed) -/
theorem step_mem_other (cfg : List (Indexer Id Res L)) (bk : Nat) (s s' : State Id K V O)
    (e : Event Id Res L K V O) (hs : step cfg bk s e = some s') (o : O) (ho : o ≠ e.obj) :
    s'.mem o = s.mem o := by
  unfold step at hs
  by_cases hh : cfg.any (fun c => decide (c.res = e.res)) = true
  · simp only [hh, Bool.not_true, Bool.false_eq_true, if_false] at hs
    by_cases hd : e.deleted = true
    · simp only [hd, if_true] at hs
      split at hs
      · cases hs
      · cases hs; simp [upd, ho]
    · have hd' : e.deleted = false := by simpa using hd
      simp only [hd', Bool.false_eq_true, if_false] at hs
      split at hs
      · cases hs
      · cases hs; simp [upd, ho]
  · have hh' : cfg.any (fun c => decide (c.res = e.res)) = false := by simpa using hh
    simp only [hh', Bool.not_false, if_true] at hs
    cases hs
    by_cases hd : e.deleted = true <;> simp [hd, upd, ho]

/-- with an injective key, storing the event's object's memory under its key and reading every
    object through its key is the identity on what the mechanism sees -/
theorem stepKeyed_view (mk : O → M) (hmk : ∀ a b, mk a = mk b → a = b)
    (cfg : List (Indexer Id Res L)) (bk : Nat) (s : KState Id K V O M) (e : Event Id Res L K V O) :
    (stepKeyed mk cfg bk s e).map (KState.view mk) = step cfg bk (s.view mk) e := by
  unfold stepKeyed
  cases hs : step cfg bk (s.view mk) e with
  | none => rfl
  | some s' =>
    simp only [Option.map, KState.view]
    congr 1
    cases s' with
    | mk ixs' mem' =>
      congr 1
      funext o
      by_cases ho : o = e.obj
      · subst ho; simp [upd]
      · have hne : mk o ≠ mk e.obj := fun h => ho (hmk _ _ h)
        have := step_mem_other cfg bk (s.view mk) ⟨ixs', mem'⟩ e hs o ho
        simp only [KState.view] at this
        simp [upd, hne, this]

theorem runKeyed_view (mk : O → M) (hmk : ∀ a b, mk a = mk b → a = b)
    (cfg : List (Indexer Id Res L)) (bk : Nat) (evs : List (Event Id Res L K V O)) :
    ∀ s : KState Id K V O M,
      (runKeyed mk cfg bk s evs).map (KState.view mk) = run cfg bk (s.view mk) evs := by
  induction evs with
  | nil => intro s; rfl
  | cons e es ih =>
    intro s
    have h1 := stepKeyed_view mk hmk cfg bk s e
    unfold runKeyed run
    cases hk : stepKeyed mk cfg bk s e with
    | none => rw [hk] at h1; simp only [Option.map] at h1; rw [← h1]; rfl
    | some s1 =>
      rw [hk] at h1; simp only [Option.map] at h1
      rw [← h1]
      exact ih s1

end Keyed
end Kopf.C17
