/-
  C08 helper lemmas, part 1: association lists, structural equality, RFC 7386 merge along the
  leaves of a patch, and what the server's normalisation (`clean`) keeps of them.
-/
import Kopf.Model.C08_Patching
namespace Kopf.C08
open Kopf Kopf.J

/-! ## association lists -/

theorem lookup_insert_self (k : String) (v : J) (kvs : Kvs) :
    lookup k (insert k v kvs) = some v := by
  induction kvs with
  | nil => simp [J.insert, lookup]
  | cons hd tl ih =>
    obtain ⟨k', v'⟩ := hd
    by_cases h : k' = k
    · simp [J.insert, lookup, h]
    · simp [J.insert, lookup, h, ih]

theorem lookup_insert_ne {k k' : String} (h : k' ≠ k) (v : J) (kvs : Kvs) :
    lookup k' (insert k v kvs) = lookup k' kvs := by
  induction kvs with
  | nil => simp [J.insert, lookup]; intro e; exact absurd e.symm h
  | cons hd tl ih =>
    obtain ⟨k2, v2⟩ := hd
    by_cases h2 : k2 = k
    · subst h2
      have : ¬ k2 = k' := fun e => h e.symm
      simp [J.insert, lookup, this]
    · by_cases h3 : k2 = k'
      · subst h3; simp [J.insert, lookup, h]
      · simp [J.insert, lookup, h2, h3, ih]

theorem lookup_erase_self (k : String) (kvs : Kvs) : lookup k (erase k kvs) = none := by
  induction kvs with
  | nil => simp [erase]
  | cons hd tl ih =>
    obtain ⟨k', v'⟩ := hd
    by_cases h : k' = k
    · simp [erase, h, ih]
    · simp [erase, lookup, h, ih]

theorem lookup_erase_ne {k k' : String} (h : k' ≠ k) (kvs : Kvs) :
    lookup k' (erase k kvs) = lookup k' kvs := by
  induction kvs with
  | nil => simp [erase]
  | cons hd tl ih =>
    obtain ⟨k2, v2⟩ := hd
    by_cases h2 : k2 = k
    · subst h2
      have : ¬ k2 = k' := fun e => h e.symm
      simp [erase, lookup, this, ih]
    · by_cases h3 : k2 = k'
      · subst h3; simp [erase, lookup, h]
      · simp [erase, lookup, h2, h3, ih]

theorem any_key_eq_lookup (k : String) (kvs : Kvs) :
    kvs.any (fun kv => kv.1 == k) = (lookup k kvs).isSome := by
  induction kvs with
  | nil => simp
  | cons hd tl ih =>
    obtain ⟨k', v'⟩ := hd
    by_cases h : k' = k
    · simp [lookup, h]
    · simp [lookup, h, ih]

theorem wfKvs_cons (k : String) (x : J) (xs : Kvs) :
    wfKvs ((k, x) :: xs) = (!(xs.any (fun kv => kv.1 == k)) && wf x && wfKvs xs) := by
  simp [wfKvs]

theorem wf_of_lookup {kvs : Kvs} (h : wfKvs kvs = true) {k : String} {v : J}
    (hl : lookup k kvs = some v) : wf v = true := by
  induction kvs with
  | nil => simp at hl
  | cons hd tl ih =>
    obtain ⟨k', v'⟩ := hd
    rw [wfKvs_cons] at h
    simp only [Bool.and_eq_true, Bool.not_eq_true'] at h
    obtain ⟨⟨_, h2⟩, h3⟩ := h
    by_cases e : k' = k
    · simp [lookup, e] at hl; subst hl; exact h2
    · simp [lookup, e] at hl; exact ih h3 hl

theorem wf_obj (kvs : Kvs) : wf (obj kvs) = wfKvs kvs := by simp [wf]

/-! ## structural equality is equality -/

mutual
  theorem eq_of_beq : ∀ (a b : J), J.beq a b = true → a = b
    | .null, .null, _ => rfl
    | .bool a, .bool b, h => by simp [J.beq] at h; rw [h]
    | .num a, .num b, h => by simp [J.beq] at h; rw [h]
    | .str a, .str b, h => by simp [J.beq] at h; rw [h]
    | .arr a, .arr b, h => by simp only [J.beq] at h; rw [eq_of_beqList a b h]
    | .obj a, .obj b, h => by simp only [J.beq] at h; rw [eq_of_beqKvs a b h]
    | .null, .bool _, h | .null, .num _, h | .null, .str _, h | .null, .arr _, h | .null, .obj _, h => by simp [J.beq] at h
    | .bool _, .null, h | .bool _, .num _, h | .bool _, .str _, h | .bool _, .arr _, h | .bool _, .obj _, h => by simp [J.beq] at h
    | .num _, .null, h | .num _, .bool _, h | .num _, .str _, h | .num _, .arr _, h | .num _, .obj _, h => by simp [J.beq] at h
    | .str _, .null, h | .str _, .bool _, h | .str _, .num _, h | .str _, .arr _, h | .str _, .obj _, h => by simp [J.beq] at h
    | .arr _, .null, h | .arr _, .bool _, h | .arr _, .num _, h | .arr _, .str _, h | .arr _, .obj _, h => by simp [J.beq] at h
    | .obj _, .null, h | .obj _, .bool _, h | .obj _, .num _, h | .obj _, .str _, h | .obj _, .arr _, h => by simp [J.beq] at h
  theorem eq_of_beqList : ∀ (a b : List J), J.beqList a b = true → a = b
    | [], [], _ => rfl
    | x :: xs, y :: ys, h => by
        simp only [J.beqList, Bool.and_eq_true] at h
        rw [eq_of_beq x y h.1, eq_of_beqList xs ys h.2]
    | [], _ :: _, h => by simp [J.beqList] at h
    | _ :: _, [], h => by simp [J.beqList] at h
  theorem eq_of_beqKvs : ∀ (a b : Kvs), J.beqKvs a b = true → a = b
    | [], [], _ => rfl
    | (k, x) :: xs, (k', y) :: ys, h => by
        simp only [J.beqKvs, Bool.and_eq_true, beq_iff_eq] at h
        rw [h.1.1, eq_of_beq x y h.1.2, eq_of_beqKvs xs ys h.2]
    | [], _ :: _, h => by simp [J.beqKvs] at h
    | _ :: _, [], h => by simp [J.beqKvs] at h
end

/-! ## RFC 7386 on one level -/

theorem mergeKvs_nil (t : Kvs) : mergeKvs t [] = t := by simp [mergeKvs]

theorem mergeKvs_cons_null (t : Kvs) (k : String) (rest : Kvs) :
    mergeKvs t ((k, null) :: rest) = mergeKvs (erase k t) rest := by simp [mergeKvs]

theorem mergeKvs_cons_nonnull (t : Kvs) (k : String) (v : J) (hv : v ≠ null) (rest : Kvs) :
    mergeKvs t ((k, v) :: rest) = mergeKvs (insert k (mergePatch ((lookup k t).getD null) v) t) rest := by
  cases v <;> simp_all [mergeKvs]

/-- what a patch entry does to a target entry -/
def mergeEntry (told : Option J) : Option J → Option J
  | none => told
  | some null => none
  | some v => some (mergePatch (told.getD null) v)

theorem lookup_mergeKvs (p : Kvs) (hp : wfKvs p = true) (t : Kvs) (k : String) :
    lookup k (mergeKvs t p) = mergeEntry (lookup k t) (lookup k p) := by
  induction p generalizing t with
  | nil => simp [mergeKvs_nil, mergeEntry]
  | cons hd tl ih =>
    obtain ⟨k', v'⟩ := hd
    rw [wfKvs_cons] at hp
    simp only [Bool.and_eq_true, Bool.not_eq_true'] at hp
    obtain ⟨⟨h1, _⟩, h3⟩ := hp
    by_cases e : k' = k
    · subst e
      have hn : lookup k' tl = none := by
        rw [any_key_eq_lookup] at h1
        cases hh : lookup k' tl <;> simp_all
      by_cases hv : v' = null
      · subst hv
        rw [mergeKvs_cons_null, ih h3, hn]
        simp [mergeEntry, lookup, lookup_erase_self]
      · rw [mergeKvs_cons_nonnull _ _ _ hv, ih h3, hn]
        simp only [mergeEntry, lookup_insert_self, lookup, if_true]
    · have e' : k ≠ k' := fun x => e x.symm
      by_cases hv : v' = null
      · subst hv
        rw [mergeKvs_cons_null, ih h3, lookup_erase_ne e']
        simp [lookup, e]
      · rw [mergeKvs_cons_nonnull _ _ _ hv, ih h3, lookup_insert_ne e']
        simp [lookup, e]

def kvsOf : J → Kvs
  | obj kvs => kvs
  | _ => []

theorem mergePatch_obj (t : J) (pk : Kvs) : mergePatch t (obj pk) = obj (mergeKvs (kvsOf t) pk) := by
  cases t <;> simp [mergePatch, kvsOf]

theorem mergePatch_nonobj (t p : J) (h : p.isObj = false) : mergePatch t p = p := by
  cases p <;> simp_all [mergePatch, isObj]

theorem resolve_cons_obj (kvs : Kvs) (k : String) (ks : List String) :
    resolve? (obj kvs) (k :: ks) = (lookup k kvs).bind (fun v => resolve? v ks) := by
  simp only [resolve?]
  cases lookup k kvs <;> simp

theorem resolve_nil (j : J) : resolve? j [] = some j := by cases j <;> simp [resolve?]

theorem resolve_cons_nonobj (j : J) (h : j.isObj = false) (k : String) (ks : List String) :
    resolve? j (k :: ks) = none := by
  cases j <;> simp_all [resolve?, isObj]

/-! ## null stripping -/

theorem dropNulls_nonobj (v : J) (h : v.isObj = false) : dropNulls v = v := by
  cases v <;> simp_all [dropNulls, isObj]

theorem dropNulls_obj (kvs : Kvs) : dropNulls (obj kvs) = obj (dropNullsKvs kvs) := by simp [dropNulls]

theorem dropNullsKvs_cons_null (k : String) (rest : Kvs) :
    dropNullsKvs ((k, null) :: rest) = dropNullsKvs rest := by simp [dropNullsKvs]

theorem dropNullsKvs_cons_nonnull (k : String) (v : J) (hv : v ≠ null) (rest : Kvs) :
    dropNullsKvs ((k, v) :: rest) = (k, dropNulls v) :: dropNullsKvs rest := by
  cases v <;> simp_all [dropNullsKvs]

theorem lookup_dropNulls_none {k : String} {kvs : Kvs} (h : lookup k kvs = none) :
    lookup k (dropNullsKvs kvs) = none := by
  induction kvs with
  | nil => simp [dropNullsKvs]
  | cons hd tl ih =>
    obtain ⟨k', v'⟩ := hd
    by_cases e : k' = k
    · simp [lookup, e] at h
    · simp only [lookup, e, if_false] at h
      by_cases hv : v' = null
      · subst hv; rw [dropNullsKvs_cons_null]; exact ih h
      · rw [dropNullsKvs_cons_nonnull _ _ hv]; simp [lookup, e, ih h]

theorem lookup_dropNulls_some {k : String} {kvs : Kvs} {v : J} (h : lookup k kvs = some v) (hv : v ≠ null) :
    lookup k (dropNullsKvs kvs) = some (dropNulls v) := by
  induction kvs with
  | nil => simp at h
  | cons hd tl ih =>
    obtain ⟨k', v'⟩ := hd
    by_cases e : k' = k
    · simp only [lookup, e, if_true, Option.some.injEq] at h
      subst h
      rw [dropNullsKvs_cons_nonnull _ _ hv]; simp [lookup, e]
    · simp only [lookup, e, if_false] at h
      by_cases hv' : v' = null
      · subst hv'; rw [dropNullsKvs_cons_null]; exact ih h
      · rw [dropNullsKvs_cons_nonnull _ _ hv']; simp [lookup, e, ih h]

/-! ## a merge-patch delivers its leaves (before the metadata normalisation) -/

theorem leaf_merge_dropNulls {p : Kvs} {path : List String} {v : J} (hl : Leaf p path v) :
    ∀ (body : Kvs), wfKvs p = true →
      (v = null → resolve? (obj (dropNullsKvs (mergeKvs body p))) path = none) ∧
      (v ≠ null → resolve? (obj (dropNullsKvs (mergeKvs body p))) path = some v) := by
  induction hl with
  | @here kvs k v hk hv =>
    intro body hp
    rw [resolve_cons_obj]
    have hm := lookup_mergeKvs kvs hp body k
    rw [hk] at hm
    constructor
    · intro hnull
      subst hnull
      simp only [mergeEntry] at hm
      rw [lookup_dropNulls_none hm]; rfl
    · intro hnn
      have hm' : lookup k (mergeKvs body kvs) = some v := by
        rw [hm]; cases v <;> simp_all [mergeEntry, mergePatch, isObj]
      rw [lookup_dropNulls_some hm' hnn, dropNulls_nonobj v hv]
      simp [resolve_nil]
  | @deeper kvs sub k path v hk _ ih =>
    intro body hp
    have hws : wfKvs sub = true := by
      have := wf_of_lookup hp hk
      rwa [wf_obj] at this
    rw [resolve_cons_obj]
    have hm := lookup_mergeKvs kvs hp body k
    rw [hk] at hm
    have hm' : lookup k (mergeKvs body kvs)
        = some (obj (mergeKvs (kvsOf ((lookup k body).getD null)) sub)) := by
      rw [hm]; simp [mergeEntry, mergePatch_obj]
    rw [lookup_dropNulls_some hm' (by simp), dropNulls_obj]
    simp only [Option.bind_some]
    exact ih _ hws

/-! ## the metadata normalisation keeps delivered leaves -/

theorem resolve_dropEmptyKey_some {key : String} {mk : Kvs} {rest : List String} {v : J}
    (hne : rest ≠ []) (hv : v.isObj = false)
    (h : resolve? (obj mk) rest = some v) : resolve? (obj (dropEmptyKey key mk)) rest = some v := by
  cases rest with
  | nil => exact absurd rfl hne
  | cons k2 rest2 =>
    unfold dropEmptyKey
    split
    · rename_i hx
      by_cases e : k2 = key
      · subst e
        rw [resolve_cons_obj, hx] at h
        simp only [Option.bind_some] at h
        cases rest2 with
        | nil => rw [resolve_nil] at h; cases h; simp [isObj] at hv
        | cons k3 r3 => rw [resolve_cons_obj] at h; simp at h
      · rw [resolve_cons_obj, lookup_erase_ne e, ← resolve_cons_obj]; exact h
    · exact h

theorem resolve_dropEmptyKey_none {key : String} {mk : Kvs} {rest : List String}
    (hne : rest ≠ [])
    (h : resolve? (obj mk) rest = none) : resolve? (obj (dropEmptyKey key mk)) rest = none := by
  cases rest with
  | nil => exact absurd rfl hne
  | cons k2 rest2 =>
    unfold dropEmptyKey
    split
    · by_cases e : k2 = key
      · subst e; rw [resolve_cons_obj, lookup_erase_self]; rfl
      · rw [resolve_cons_obj, lookup_erase_ne e, ← resolve_cons_obj]; exact h
    · exact h

theorem clean_eq (body : Kvs) : clean body = cleanStep (dropNullsKvs body) := rfl

theorem resolve_cleanStep_some {b : Kvs} {path : List String} {v : J} (hv : v.isObj = false)
    (h : resolve? (obj b) path = some v) : resolve? (obj (cleanStep b)) path = some v := by
  cases path with
  | nil => rw [resolve_nil] at h; cases h; simp [isObj] at hv
  | cons k rest =>
    by_cases e : k = "metadata"
    · subst e
      rw [resolve_cons_obj] at h
      cases hm : lookup "metadata" b with
      | none => rw [hm] at h; simp at h
      | some m =>
        rw [hm] at h
        simp only [Option.bind_some] at h
        unfold cleanStep
        simp only [hm]
        cases rest with
        | nil =>
          rw [resolve_nil] at h
          cases h
          have hc : cleanMeta v = v := by cases v <;> simp_all [cleanMeta, isObj]
          rw [hc]
          split
          · simp [isObj] at hv
          · rw [resolve_cons_obj, lookup_insert_self]; simp [resolve_nil]
        | cons k2 rest2 =>
          cases hobj : m.isObj with
          | false => rw [resolve_cons_nonobj _ hobj] at h; cases h
          | true =>
            obtain ⟨mk, rfl⟩ : ∃ mk, m = obj mk := by cases m <;> simp_all [isObj]
            have h1 := resolve_dropEmptyKey_some (key := "annotations") (by simp) hv h
            have h2 := resolve_dropEmptyKey_some (key := "labels") (by simp) hv h1
            simp only [cleanMeta]
            cases hd : dropEmptyKey "labels" (dropEmptyKey "annotations" mk) with
            | nil => rw [hd, resolve_cons_obj] at h2; simp at h2
            | cons x xs =>
              rw [hd] at h2
              simp only
              rw [resolve_cons_obj, lookup_insert_self]; simpa using h2
    · rw [resolve_cons_obj] at h ⊢
      unfold cleanStep
      split
      · split
        · rw [lookup_erase_ne e]; exact h
        · rw [lookup_insert_ne e]; exact h
      · exact h

theorem resolve_cleanStep_none {b : Kvs} {path : List String} (hne : path ≠ [])
    (h : resolve? (obj b) path = none) : resolve? (obj (cleanStep b)) path = none := by
  cases path with
  | nil => exact absurd rfl hne
  | cons k rest =>
    by_cases e : k = "metadata"
    · subst e
      rw [resolve_cons_obj] at h
      unfold cleanStep
      cases hm : lookup "metadata" b with
      | none => simp only; rw [resolve_cons_obj, hm]; rfl
      | some m =>
        rw [hm] at h
        simp only [Option.bind_some] at h
        simp only
        split
        · rw [resolve_cons_obj, lookup_erase_self]; rfl
        · rw [resolve_cons_obj, lookup_insert_self]
          simp only [Option.bind_some]
          cases rest with
          | nil => rw [resolve_nil] at h; cases h
          | cons k2 rest2 =>
            cases hobj : m.isObj with
            | false =>
              have hc : cleanMeta m = m := by cases m <;> simp_all [cleanMeta, isObj]
              rw [hc]; exact h
            | true =>
              obtain ⟨mk, rfl⟩ : ∃ mk, m = obj mk := by cases m <;> simp_all [isObj]
              simp only [cleanMeta]
              exact resolve_dropEmptyKey_none (by simp) (resolve_dropEmptyKey_none (by simp) h)
    · rw [resolve_cons_obj] at h ⊢
      unfold cleanStep
      split
      · split
        · rw [lookup_erase_ne e]; exact h
        · rw [lookup_insert_ne e]; exact h
      · exact h

theorem leaf_path_ne_nil {p : Kvs} {path : List String} {v : J} (h : Leaf p path v) : path ≠ [] := by
  cases h <;> simp

theorem leaf_value_nonobj {p : Kvs} {path : List String} {v : J} (h : Leaf p path v) : v.isObj = false := by
  induction h with
  | here _ hv => exact hv
  | deeper _ _ ih => exact ih

/-- **RFC 7386 + server normalisation**: what the server stores after a merge-patch holds every
    field of the patch. -/
theorem delivered_clean_merge (p body : Kvs) (hp : wfKvs p = true) :
    Delivered p (clean (mergeKvs body p)) := by
  intro path v hl
  rw [clean_eq]
  have h := leaf_merge_dropNulls hl body hp
  constructor
  · intro hn; exact resolve_cleanStep_none (leaf_path_ne_nil hl) (h.1 hn)
  · intro hn; exact resolve_cleanStep_some (leaf_value_nonobj hl) (h.2 hn)

theorem leaf_head {p : Kvs} {path : List String} {v : J} (h : Leaf p path v) :
    ∃ k rest, path = k :: rest ∧ (lookup k p).isSome = true := by
  cases h with
  | here hk _ => exact ⟨_, _, rfl, by simp [hk]⟩
  | deeper hk _ => exact ⟨_, _, rfl, by simp [hk]⟩

end Kopf.C08
