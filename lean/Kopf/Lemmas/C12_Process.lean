/-
  Helper lemmas for the C12 composition theorems (core Lean only).
-/
import Kopf.Model.C12_Process
import Kopf.Lemmas.C12_Request
import Kopf.Lemmas.C12_Throttle
namespace Kopf.C12

/-- an API call never ends before it starts -/
theorem run_fin_ge (bo : Backoffs) (enforce : Bool) (script : List Att) (i : Nat) (t : Int) :
    t ≤ (run bo enforce script i t).fin := by
  induction script generalizing i t with
  | nil => simp [run]
  | cons a rest ih =>
    rw [run_cons]
    cases verdict a.fault with
    | success => simp only; omega
    | raise c => simp only; omega
    | retry c ra =>
      cases bo i with
      | none => simp only; omega
      | some b =>
        simp only
        have h1 := ih (i + 1) (t + a.lat + slept (effDelay enforce ra b))
        have h2 := slept_nonneg (effDelay enforce ra b)
        omega

theorem request_fin_ge (bo : Backoffs) (enforce : Bool) (script : List Att) (t : Int) :
    t ≤ (request bo enforce script t).fin := run_fin_ge bo enforce script 0 t

/-- the duration of the block of a cycle that runs: exactly the API call -/
theorem apiCycleIn_dur (bo : Backoffs) (enforce : Bool) (script : List Att) (t : Int) (w1 w2 : Option Nat) :
    t + ((apiCycleIn bo enforce script t w1 w2).dur : Int) = (request bo enforce script t).fin := by
  have := request_fin_ge bo enforce script t
  simp only [apiCycleIn]
  omega

/-- a processing cycle on a throttler that is not active: the call starts at once, and the cycle is the
    throttler's cycle on the call's outcome -/
theorem processCycle_inactive (bo : Backoffs) (enforce : Bool) (cfg : Delays) (s : Throttler) (t : Int)
    (script : List Att) (w1 w2 : Option Nat) (h : s.activeUntil = none) :
    processCycle bo enforce cfg s t script w1 w2 =
      ⟨some (request bo enforce script t), cycle cfg s t (apiCycleIn bo enforce script t w1 w2)⟩ := by
  simp [processCycle, phase1_inactive s t w1 h, h]

/-- the block of a processing cycle raises either nothing or an error of interest -/
theorem apiCycleIn_body (bo : Backoffs) (enforce : Bool) (script : List Att) (t : Int) (w1 w2 : Option Nat) :
    ((apiCycleIn bo enforce script t w1 w2).body = .success ∧ (request bo enforce script t).outcome = .ok) ∨
    ((apiCycleIn bo enforce script t w1 w2).body = .error true ∧
      ∃ c, (request bo enforce script t).outcome = .escalated c) := by
  simp only [apiCycleIn]
  cases h : (request bo enforce script t).outcome with
  | ok => left; simp [apiBody]
  | escalated c => right; exact ⟨by simp [apiBody], c, rfl⟩

end Kopf.C12
