/-
  C20 helper lemmas: the escalation invariant `InvT` (first failure at `tFail` ⇒ `run_tasks` stops waiting within
  `2·G`) over COOPERATIVE runs: the passage of time (`delay`), and the assembly of the per-group lemmas.
-/
import Kopf.Lemmas.C20_Reach
import Kopf.Lemmas.C20_InvT_d1
import Kopf.Lemmas.C20_InvT_d2
import Kopf.Lemmas.C20_InvT_d3
import Kopf.Lemmas.C20_InvT_d4
import Kopf.Lemmas.C20_InvT_d5
import Kopf.Lemmas.C20_InvT_d6
import Kopf.Lemmas.C20_InvT_d7
import Kopf.Lemmas.C20_InvT_d8
import Kopf.Lemmas.C20_InvT_d9
import Kopf.Lemmas.C20_InvT_d10
import Kopf.Lemmas.C20_InvT_d11
set_option linter.unusedSimpArgs false
set_option linter.unusedVariables false
namespace Kopf.C20

/-- the orchestrator never is the task whose failure was marked: its own failure is not modelled -/
def InvW (s : State) : Prop := s.failWho ≠ some (.root .orchestrator)

theorem InvW.init : InvW Kopf.C20.init := by simp [InvW, Kopf.C20.init]

theorem InvW.preserved {cfg : Cfg} {s s' : State} {l : Label} (hB : InvB s) (hI : InvW s)
    (h : step cfg s l = some s') : InvW s' := by
  have hb3 := hB.wkRoot
  have hm : ∀ x, markWho s x = s.failWho ∨ markWho s x = some x := by
    intro x; cases ht : s.tFail <;> simp [markWho, ht]
  unfold InvW at *
  cases l <;> simp only [step] at h
  all_goals (repeat' (split at h))
  all_goals (first | (cases h; done) | skip)
  all_goals (cases h)
  all_goals (first | exact hI | skip)
  all_goals (try dsimp only)
  all_goals (grind [Root.kind])

theorem InvW.reach {cfg : Cfg} {s : State} (h : Reach cfg s) : InvW s :=
  Reach.induction (P := InvW) InvW.init (fun _ _ _ hr hI hs => InvW.preserved (InvB.reach hr) hI hs) s h

theorem urgent_false_cw {cfg : Cfg} {s : State} (h : urgent cfg s = false) :
    ¬ (cfg.coreWatched = true ∧ s.core = .failed ∧ s.st (.root .coreWatcher) = .running) := by
  unfold urgent at h
  simp only [Bool.or_eq_false_iff] at h
  obtain ⟨⟨_, h7⟩, _⟩ := h
  intro ⟨a, b, c⟩
  simp [a, b, c] at h7

/-- (the same as `first_stop_deadline`, counted from the moment the orchestrator began to stop its ensemble) -/
theorem first_stop_deadline2 {cfg : Cfg} {s : State} {n to : Nat} (hB : InvB s) (hI : InvT cfg s)
    (hu : urgent cfg s = false) (hd : deadlinesAllow cfg s n = true)
    (hos : (s.st (.root .orchestrator)).isStopping = true) (hto : s.orchStopAt = some to) (hop : s.orchPing = false) :
    s.now + n ≤ to + cfg.E := by
  obtain ⟨_, _, _, u4, u5⟩ := urgent_false hu
  obtain ⟨_, d2, _, _⟩ := deadlinesAllow_true hd
  obtain ⟨i, hi, hk, hil⟩ := exists_live_stream ((u5 hos).2 hop)
  have hci := (taskUrgent_false (u4 i hi)).1 hil
  rcases hI.c2 to hto hos i hi hil with ⟨hc, _⟩ | hs | ⟨hk', _⟩
  · rw [hci] at hc; cases hc
  · rw [TS.isStopping_iff] at hs
    obtain ⟨f', dl', hst'⟩ := hs
    cases dl' with
    | none => exact absurd hst' (hB.subSome i f')
    | some d' =>
      have h1 := hI.d2S to hto hos i f' d' hi hk hst'
      have h2 := d2 i hi
      rw [hst'] at h2
      have := dlAllows_stopping h2
      omega
  · exact absurd hk' hk

/-- while the orchestrator stops the ensemble and time may pass, some ensemble task has a deadline that allows it -/
theorem orch_stopping_deadline {cfg : Cfg} {s : State} {n to : Nat} (hB : InvB s) (hI : InvT cfg s)
    (hu : urgent cfg s = false) (hd : deadlinesAllow cfg s n = true)
    (hos : (s.st (.root .orchestrator)).isStopping = true) (hto : s.orchStopAt = some to) :
    s.now + n ≤ to + G cfg := by
  obtain ⟨u1, u2, u3, u4, u5⟩ := urgent_false hu
  obtain ⟨d1, d2, _, d4⟩ := deadlinesAllow_true hd
  cases hop : s.orchPing with
  | false =>
    have := first_stop_deadline2 hB hI hu hd hos hto hop
    unfold G; omega
  | true =>
  obtain ⟨i, hi, hil⟩ := exists_live_sub (u5 hos).1
  have hci := (taskUrgent_false (u4 i hi)).1 hil
  rcases hI.c2 to hto hos i hi hil with ⟨hc, _⟩ | hs | ⟨_, hq | ⟨hc, _⟩⟩
  · rw [hci] at hc; cases hc
  · rw [TS.isStopping_iff] at hs
    obtain ⟨f', dl', hst'⟩ := hs
    cases dl' with
    | none => exact absurd hst' (hB.subSome i f')
    | some d' =>
      have h1 := hI.d2 to hto hos i f' d' hi hst'
      have h2 := d2 i hi
      rw [hst'] at h2
      have := dlAllows_stopping h2
      omega
  · rw [hop] at hq; cases hq
  · rw [hci] at hc; cases hc

theorem InvT.preserved_delay {cfg : Cfg} {s : State} {n : Nat} (hB : InvB s) (hW : InvW s) (hI : InvT cfg s)
    (hu : urgent cfg s = false) (hd : deadlinesAllow cfg s n = true) :
    InvT cfg { s with now := s.now + n } := by
  obtain ⟨u1, u2, u3, u4, u5⟩ := urgent_false hu
  obtain ⟨d1, d2, d3, d4⟩ := deadlinesAllow_true hd
  have noEnded : s.rt = .waiting → ∀ r, (s.st (.root r)).ended = true → False := by
    intro hrt r he
    have : anyRootEnded s = true := (anyRootEnded_iff s).2 ⟨r, he⟩
    simp [rtUrgent, hrt, this] at u1
  have noCreqR : ∀ r, s.st (.root r) = .running → s.creq (.root r) = true → False := by
    intro r hr hc
    have := (taskUrgent_false (u3 r)).1 (by rw [hr]; rfl)
    rw [this] at hc; cases hc
  have noCreqS : ∀ i, i < s.nSubs → s.st (.sub i) = .running → s.creq (.sub i) = true → False := by
    intro i hi hr hc
    have := (taskUrgent_false (u4 i hi)).1 (by rw [hr]; rfl)
    rw [this] at hc; cases hc
  have noSc : (s.st (.root .startupCleanup)).live = true → scFailPath s.sc = true → False := by
    intro hl hp
    unfold scUrgent at u2
    cases hsc : s.sc with
    | stopCore p => simp [hsc] at u2
    | coreStopping p => simp [hsc] at u2
    | over p => simp [hsc, hl] at u2
    | _ => simp [hsc, scFailPath] at hp
  refine ⟨?_, hI.whoSome, hI.orchAtSome, ?_, ?_, hI.d2, ?_, ?_, ?_, hI.d2S, ?_⟩
  · intro tf htf
    have := hI.tfNow tf htf
    show tf ≤ s.now + n
    omega
  · intro to hto
    have := hI.orchAtLe to hto
    show to ≤ s.now + n
    omega
  · intro to hto hos j hj hlive
    have hcj := (taskUrgent_false (u4 j hj)).1 hlive
    rcases hI.c2 to hto hos j hj hlive with ⟨hc, _⟩ | hs | ⟨hk, hq | ⟨hc, _⟩⟩
    · rw [hcj] at hc; cases hc
    · exact Or.inr (Or.inl hs)
    · exact Or.inr (Or.inr ⟨hk, Or.inl hq⟩)
    · rw [hcj] at hc; cases hc
  · intro tf r hrt htf hwho
    rcases hI.whoRoot tf r hrt htf hwho with h | ⟨h1, h2, _⟩ | h | ⟨h1, h2, h3⟩ | ⟨h1, h2, h3, h4⟩
    · exact Or.inl h
    · exact (noCreqR r h1 h2).elim
    · exact Or.inr (Or.inr (Or.inl h))
    · subst h1; exact (noSc h2 h3).elim
    · exact (urgent_false_cw hu ⟨h4, h3, by rw [← h1]; exact h2⟩).elim
  · intro tf i hrt htf hwho
    obtain ⟨hf, hi, hg, h⟩ := hI.whoSub tf i hrt htf hwho
    refine ⟨hf, hi, hg, ?_⟩
    rcases h with ⟨h1, h2, _, _⟩ | h | ⟨h1, h⟩
    · exact (noCreqS i hi h1 h2).elim
    · exact Or.inr (Or.inl h)
    · refine Or.inr (Or.inr ⟨h1, ?_⟩)
      rcases h with ⟨h2, h3, _⟩ | h | h
      · exact (noCreqR _ h2 h3).elim
      · exact Or.inr (Or.inl h)
      · exact Or.inr (Or.inr h)
  · intro tf hrt htf
    show s.now + n ≤ tf + 2 * G cfg
    have hsome := hI.whoSome (by rw [htf]; rfl)
    cases hwho : s.failWho with
    | none => rw [hwho] at hsome; cases hsome
    | some x =>
      cases x with
      | root r =>
        rcases hI.whoRoot tf r hrt htf hwho with h | ⟨h1, h2, _⟩ | ⟨h1, h2⟩ | ⟨h1, h2, h3⟩ | ⟨h1, h2, h3, h4⟩
        · exact (noEnded hrt r h).elim
        · exact (noCreqR r h1 h2).elim
        · rw [TS.isStopping_iff] at h1
          obtain ⟨f, dl, hst⟩ := h1
          cases dl with
          | none =>
            have := hB.stoppingNone r f hst
            subst this
            exact absurd hwho hW
          | some d =>
            have := h2 f d hst
            have h3 := d1 r
            rw [hst] at h3
            have := dlAllows_stopping h3
            omega
        · subst h1; exact (noSc h2 h3).elim
        · exact (urgent_false_cw hu ⟨h4, h3, by rw [← h1]; exact h2⟩).elim
      | sub i =>
        obtain ⟨hf, hi, hg, h⟩ := hI.whoSub tf i hrt htf hwho
        rcases h with ⟨h1, h2, _, _⟩ | ⟨h1, h2⟩ | ⟨h1, h⟩
        · exact (noCreqS i hi h1 h2).elim
        · rw [TS.isStopping_iff] at h1
          obtain ⟨f, dl, hst⟩ := h1
          cases dl with
          | none => exact absurd hst (hB.subSome i f)
          | some d =>
            have := (h2 f d hst).2
            have h3 := d2 i hi
            rw [hst] at h3
            have := dlAllows_stopping h3
            omega
        · rcases h with ⟨h2, h3, _⟩ | ⟨h2, h3⟩ | h
          · exact (noCreqR _ h2 h3).elim
          · have hs := hI.orchAtSome h2
            cases hto : s.orchStopAt with
            | none => rw [hto] at hs; cases hs
            | some to =>
              have := h3 to hto
              have := orch_stopping_deadline hB hI hu hd h2 hto
              omega
          · exact (noEnded hrt _ h).elim
  · intro to hto hos hop
    exact first_stop_deadline2 hB hI hu hd hos hto hop

/-- `InvT` is an invariant of COOPERATIVE runs. -/
theorem InvT.preservedC {cfg : Cfg} {s s' : State} {l : Label} (hB : InvB s) (hC : InvC s) (hD : InvD cfg s)
    (hE : InvE cfg s) (hW : InvW s) (hI : InvT cfg s) (h : stepC cfg s l = some s') : InvT cfg s' := by
  cases hl : l with
  | delay n =>
    subst hl
    have hc := coopDelay_iff.mp (stepC_delay h)
    have h2 := stepC_step h
    simp only [step] at h2
    split at h2
    · cases h2
      exact InvT.preserved_delay hB hW hI hc.1 hc.2
    · cases h2
  | _ =>
    have hs := stepC_step h
    have hnd : ∀ n, l ≠ .delay n := by intro n hn; rw [hn] at hl; cases hl
    rcases l.grpD_cases with hg | hg | hg | hg | hg | hg | hg | hg | hg | hg | hg
    · exact InvT.pres_d1 hB hC hD hE hI hnd hg hs
    · exact InvT.pres_d2 hB hC hD hE hI hnd hg hs
    · exact InvT.pres_d3 hB hC hD hE hI hnd hg hs
    · exact InvT.pres_d4 hB hC hD hE hI hnd hg hs
    · exact InvT.pres_d5 hB hC hD hE hI hnd hg hs
    · exact InvT.pres_d6 hB hC hD hE hI hnd hg hs
    · exact InvT.pres_d7 hB hC hD hE hI hnd hg hs
    · exact InvT.pres_d8 hB hC hD hE hI hnd hg hs
    · exact InvT.pres_d9 hB hC hD hE hI hnd hg hs
    · exact InvT.pres_d10 hB hC hD hE hI hnd hg hs
    · exact InvT.pres_d11 hB hC hD hE hI hnd hg hs

theorem InvT.reachC {cfg : Cfg} {s : State} (h : ReachC cfg s) : InvT cfg s :=
  ReachC.induction (P := InvT cfg) (InvT.init cfg)
    (fun _ _ _ hr hI hs => InvT.preservedC (InvB.reach hr.reach) (InvC.reach hr.reach) (InvD.reachC hr)
      (InvE.reach hr.reach) (InvW.reach hr.reach) hI hs) s h

/-- `run_tasks` begins to stop the root tasks at most `2·G` after the first marked failure (if the failure came
    first; a failure during the shutdown trivially so) -/
def InvT0 (cfg : Cfg) (s : State) : Prop := ∀ t tf, s.t0 = some t → s.tFail = some tf → t ≤ tf + 2 * G cfg

theorem InvT0.init (cfg : Cfg) : InvT0 cfg Kopf.C20.init := by simp [InvT0, Kopf.C20.init]

theorem InvT0.preserved {cfg : Cfg} {s s' : State} {l : Label} (hC : InvC s) (hT : InvT cfg s) (hI : InvT0 cfg s)
    (h : step cfg s l = some s') : InvT0 cfg s' := by
  have hc1 := hC.t0Some
  have hc2 := hC.waitingEarly
  have h9 := hT.bound
  have hm : (s.tFail = none ∧ markFail s = some s.now) ∨ (∃ t, s.tFail = some t ∧ markFail s = some t) := by
    cases ht : s.tFail <;> simp [markFail, ht]
  unfold InvT0 at *
  cases l <;> simp only [step] at h
  all_goals (repeat' (split at h))
  all_goals (first | (cases h; done) | skip)
  all_goals (cases h)
  all_goals (first | exact hI | skip)
  all_goals (try dsimp only)
  all_goals (grind)

theorem InvT0.reachC {cfg : Cfg} {s : State} (h : ReachC cfg s) : InvT0 cfg s :=
  ReachC.induction (P := InvT0 cfg) (InvT0.init cfg)
    (fun _ _ _ hr hI hs => InvT0.preserved (InvC.reach hr.reach) (InvT.reachC hr) hI (stepC_step hs)) s h

end Kopf.C20
