/-
  C08 helper lemmas, part 3: the transformation functions (membership, idempotence), requests only
  accumulate, and what a JSON-patch does when the server holds exactly the body it was computed from.
-/
import Kopf.Lemmas.C08_Steps
namespace Kopf.C08
open Kopf Kopf.J

/-! ## block / allow -/

theorem mem_block (x f : String) (l : List String) : x ∈ blockDeletion f l ↔ x = f ∨ x ∈ l := by
  unfold blockDeletion
  split
  · rename_i h
    constructor
    · intro hx; exact Or.inr hx
    · rintro (rfl | hx)
      · exact h
      · exact hx
  · simp only [List.mem_append, List.mem_singleton]
    constructor
    · rintro (hx | hx)
      · exact Or.inr hx
      · exact Or.inl hx
    · rintro (hx | hx)
      · exact Or.inr hx
      · exact Or.inl hx

theorem mem_allow (x f : String) (l : List String) : x ∈ allowDeletion f l ↔ x ≠ f ∧ x ∈ l := by
  unfold allowDeletion
  simp only [List.mem_filter, bne_iff_ne, ne_eq]
  constructor
  · rintro ⟨h1, h2⟩; exact ⟨h2, h1⟩
  · rintro ⟨h1, h2⟩; exact ⟨h2, h1⟩

/-! list facts about block/allow (C06 proves the same about its own definitions) -/

theorem block_idem (f : String) (l : List String) : blockDeletion f (blockDeletion f l) = blockDeletion f l := by
  have h : f ∈ blockDeletion f l := (mem_block f f l).2 (Or.inl rfl)
  generalize blockDeletion f l = l' at h ⊢
  unfold blockDeletion
  rw [if_pos h]

theorem allow_idem (f : String) (l : List String) : allowDeletion f (allowDeletion f l) = allowDeletion f l := by
  unfold allowDeletion
  rw [List.filter_filter]
  congr 1
  funext x
  simp

/-- Block/allow touch nothing but their own finalizer: the others keep their place and order. -/
theorem foreign_finalizers_untouched (f : String) (l : List String) :
    (blockDeletion f l).filter (fun x => x != f) = l.filter (fun x => x != f) ∧
    (allowDeletion f l).filter (fun x => x != f) = l.filter (fun x => x != f) := by
  constructor
  · unfold blockDeletion
    split
    · rfl
    · simp [List.filter_append]
  · unfold allowDeletion
    rw [List.filter_filter]
    congr 1
    funext x
    simp

theorem applyFns_nil (o : Obj) : applyFns [] o = o := rfl

theorem applyFns_cons (f : Fn) (fs : List Fn) (o : Obj) : applyFns (f :: fs) o = applyFns fs (f.app o) := rfl

theorem app_meta (f : Fn) (o : Obj) : (f.app o).uid = o.uid ∧ (f.app o).rv = o.rv ∧ (f.app o).marked = o.marked := by
  cases f with
  | userFin add g => cases add <;> exact ⟨rfl, rfl, rfl⟩
  | _ => exact ⟨rfl, rfl, rfl⟩

theorem applyFns_meta (fs : List Fn) (o : Obj) :
    (applyFns fs o).uid = o.uid ∧ (applyFns fs o).rv = o.rv ∧ (applyFns fs o).marked = o.marked := by
  induction fs generalizing o with
  | nil => exact ⟨rfl, rfl, rfl⟩
  | cons f fs ih =>
    rw [applyFns_cons]
    obtain ⟨a, b, c⟩ := ih (f.app o)
    obtain ⟨a', b', c'⟩ := app_meta f o
    exact ⟨a.trans a', b.trans b', c.trans c'⟩

/-- what the LAST function that mentions finalizer `x` does to it (none: nobody mentions it) -/
def lastOp (x : String) : List Fn → Option Bool
  | [] => none
  | f :: fs =>
    match lastOp x fs with
    | some b => some b
    | none =>
      match f with
      | .block g => if g = x then some true else none
      | .allow g => if g = x then some false else none
      | .userFin add g => if g = x then some add else none
      | .setStatus _ _ => none
      | .appendStatus _ _ => none

/-- membership in the finalizer list after the fns: decided by the last function that mentions the
    finalizer, else by the state the fns were applied to. -/
theorem mem_applyFns (x : String) (fs : List Fn) (o : Obj) :
    x ∈ (applyFns fs o).fins ↔ (match lastOp x fs with
      | some b => b = true
      | none => x ∈ o.fins) := by
  induction fs generalizing o with
  | nil => simp [applyFns_nil, lastOp]
  | cons f fs ih =>
    rw [applyFns_cons, ih (f.app o)]
    simp only [lastOp]
    cases hl : lastOp x fs with
    | some b => simp
    | none =>
      simp only
      cases f with
      | block g =>
        simp only [Fn.app, mem_block]
        by_cases e : g = x
        · simp [e]
        · have : ¬ x = g := fun h => e h.symm
          simp [e, this]
      | allow g =>
        simp only [Fn.app, mem_allow]
        by_cases e : g = x
        · simp [e]
        · have : ¬ x = g := fun h => e h.symm
          simp [e, this]
      | userFin add g =>
        cases add
        · simp only [Fn.app, mem_allow]
          by_cases e : g = x
          · simp [e]
          · have : ¬ x = g := fun h => e h.symm
            simp [e, this]
        · simp only [Fn.app, mem_block]
          by_cases e : g = x
          · simp [e]
          · have : ¬ x = g := fun h => e h.symm
            simp [e, this]
      | setStatus k v => simp [Fn.app]
      | appendStatus k v => simp [Fn.app]

/-! ## requests only accumulate -/

def Mono (f : St → M St) : Prop := ∀ st r, r ∈ st.reqs → r ∈ (f st).final.reqs

theorem mono_doReq (sub : Bool) (env : Env) (k : Kind) (pl : Payload) : Mono (doReq sub env k pl) := by
  intro st r hr
  rw [(doReq_final sub env k pl st).1]
  exact List.mem_append_left _ hr

theorem mono_pure : Mono (fun st => (pure st : M St)) := fun _ _ hr => hr

theorem mono_bind {f g : St → M St} (hf : Mono f) (hg : Mono g) : Mono (fun st => f st >>= g) := by
  intro st r hr
  have h1 := hf st r hr
  show r ∈ (f st >>= g).final.reqs
  rw [final_bind]
  cases hfs : f st with
  | ok st1 => rw [hfs] at h1; exact hg st1 r h1
  | error e => rw [hfs] at h1; exact h1

theorem mono_stageMergeBody (sub : Bool) (p : Patch) (env : Env) : Mono (stageMergeBody sub p env) := by
  intro st r hr
  unfold stageMergeBody
  split
  · exact hr
  · exact mono_doReq _ _ _ _ st r hr

theorem mono_stageMergeStatus (sub : Bool) (p : Patch) (env : Env) : Mono (stageMergeStatus sub p env) := by
  intro st r hr
  unfold stageMergeStatus
  split
  · exact mono_doReq _ _ _ _ st r hr
  · exact hr

theorem mono_stageJson (sub : Bool) (p : Patch) (orig : Obj) (env : Env) : Mono (stageJson sub p orig env) := by
  intro st r hr
  unfold stageJson
  have h1 : r ∈ (stageJsonBody sub p (st.fresh.getD orig) env st).final.reqs := by
    unfold stageJsonBody
    split
    · exact mono_doReq _ _ _ _ st r hr
    · exact hr
  rw [final_bind]
  cases hb : stageJsonBody sub p (st.fresh.getD orig) env st with
  | ok st1 =>
    rw [hb] at h1
    simp only
    unfold stageJsonStatus
    split
    · exact mono_doReq _ _ _ _ st1 r h1
    · exact h1
  | error e => rw [hb] at h1; exact h1

/-- what has been sent stays in the request list of the whole call -/
theorem mem_final_of_mem {m : M St} {g : St → M St} (hg : Mono g) {r : Req} (h : r ∈ m.final.reqs) :
    r ∈ (m >>= g).final.reqs := by
  rw [final_bind]
  cases m with
  | ok st => exact hg st r h
  | error e => exact h

/-! ## a JSON-patch against the very body it was computed from (no foreign write, no fault) -/

/-- the server holds an object of this identity and finalizer list — or has just released it -/
def Holds (u : Nat) (m : Bool) (l : List String) (s : Server) : Prop :=
  (∃ o, s.obj = some o ∧ o.uid = u ∧ o.marked = m ∧ o.fins = l) ∨ (s.obj = none ∧ m = true ∧ l = [])

theorem put_holds (s : Server) (old new : Obj) (hs : s.obj = some old)
    (hu : new.uid = old.uid) (hm : new.marked = old.marked) :
    Holds old.uid old.marked new.fins (s.put old new).1 ∧
    (s.put old new).2.fins = new.fins ∧ (s.put old new).2.uid = old.uid ∧
    (∀ x, (s.put old new).1.obj = some x → x = (s.put old new).2) := by
  rcases put_cases s old new with ⟨hsame, h⟩ | ⟨_, h1, h2, h⟩ | ⟨_, _, h⟩ <;> rw [h]
  · obtain ⟨_, hf, _⟩ := sameContent_eq hsame
    refine ⟨Or.inl ⟨old, hs, rfl, rfl, hf⟩, hf, rfl, ?_⟩
    intro x hx; rw [hs] at hx; cases hx; rfl
  · refine ⟨Or.inr ⟨rfl, by rw [← hm]; exact h1, h2⟩, rfl, hu, ?_⟩
    intro x hx; cases hx
  · refine ⟨Or.inl ⟨_, rfl, hu, hm, rfl⟩, rfl, hu, ?_⟩
    intro x hx; cases hx; rfl

theorem slipped_quiet (k : Kind) (s : Server) : slipped Env.quiet k s = s := rfl

/-- the finalizer list a JSON request leaves behind on the object it is applied to -/
def finsAfter (sub : Bool) (k : Kind) (fi : Option (List String)) (o : Obj) : List String :=
  if sub && k.toStatus then o.fins else fi.getD o.fins

theorem step_json_at_version (sub : Bool) (env : Env) (k : Kind) (fi : Option (List String)) (sv : Option J)
    (s : Server) (o : Obj) (hf : env.faults k = .none) (ho : (slipped env k s).obj = some o) :
    ∃ new, new.uid = o.uid ∧ new.marked = o.marked ∧ new.fins = finsAfter sub k fi o ∧
      step sub env k (.json o.rv fi sv) s =
        (((slipped env k s).put o new).1, ⟨k, .json o.rv fi sv, some o.uid, 200⟩, some ((slipped env k s).put o new).2) := by
  rcases step_cases sub env k (.json o.rv fi sv) s with (⟨h, _⟩ | ⟨c, h, _⟩) | ⟨_, h, _⟩ | ⟨o', _, ho', ha, _⟩ | ⟨o', new, _, ho', ha, e⟩
  · rw [hf] at h; cases h
  · exact absurd hf h.1
  · rw [ho] at h; cases h
  · rw [ho] at ho'; cases ho'
    simp [applyPayload] at ha
  · rw [ho] at ho'; cases ho'
    simp only [applyPayload, bne_self_eq_false, Bool.false_eq_true, if_false, Option.some.injEq] at ha
    refine ⟨route sub k.toStatus o new, ?_, ?_, ?_, e⟩
    · subst ha; unfold route; cases sub <;> cases k.toStatus <;> rfl
    · subst ha; unfold route; cases sub <;> cases k.toStatus <;> rfl
    · subst ha; unfold route finsAfter; cases sub <;> cases k.toStatus <;> rfl

theorem step_json_stale (sub : Bool) (env : Env) (k : Kind) (t : Nat) (fi : Option (List String)) (sv : Option J)
    (s : Server) (o : Obj) (hf : env.faults k = .none) (ho : (slipped env k s).obj = some o) (hne : o.rv ≠ t) :
    step sub env k (.json t fi sv) s = (slipped env k s, ⟨k, .json t fi sv, some o.uid, 422⟩, none) := by
  rcases step_cases sub env k (.json t fi sv) s with (⟨h, _⟩ | ⟨c, h, _⟩) | ⟨_, h, _⟩ | ⟨o', _, ho', ha, e⟩ | ⟨o', new, _, ho', ha, _⟩
  · rw [hf] at h; cases h
  · exact absurd hf h.1
  · rw [ho] at h; cases h
  · rw [ho] at ho'; cases ho'; exact e
  · rw [ho] at ho'; cases ho'
    simp [applyPayload, hne] at ha

theorem step_absent (sub : Bool) (env : Env) (k : Kind) (pl : Payload) (s : Server)
    (ho : (slipped env k s).obj = none) :
    (step sub env k pl s).1 = slipped env k s ∧ (step sub env k pl s).2.1.code ≠ 200 ∧
    ((step sub env k pl s).2.1.code = 404 ∨ env.faults k ≠ .none) := by
  rcases step_cases sub env k pl s with (⟨_, e⟩ | ⟨c, h, e⟩) | ⟨_, _, e⟩ | ⟨o', _, ho', _, _⟩ | ⟨o', new, _, ho', _, _⟩
  · rw [e]; simp
  · rw [e]; exact ⟨rfl, h.2.1, Or.inr h.1⟩
  · rw [e]; simp
  · rw [ho] at ho'; cases ho'
  · rw [ho] at ho'; cases ho'

end Kopf.C08
