/-
  C04 — what a Kopf annotations storage actually writes: its keys under its prefix plus the marker of
  `_store_marker`. If the marker is written (or the prefix is recognised by itself) the whole batch is
  dropped by every other Kopf operator's `build`.
-/
import Kopf.Lemmas.C04_OwnKeyMulti
set_option linter.unusedSimpArgs false
namespace Kopf.C04
open Kopf Kopf.J

theorem splitSlash_append : ∀ (p n : List Char), '/' ∉ p → splitSlash (p ++ '/' :: n) = some (p, n)
  | [], n, _ => by simp [splitSlash]
  | c :: p, n, h => by
    have hc : c ≠ '/' := fun e => h (e ▸ List.mem_cons_self)
    have hp : '/' ∉ p := fun hm => h (List.mem_cons_of_mem _ hm)
    simp [splitSlash, hc, splitSlash_append p n hp]

theorem markerKey_toList (P : String) : (markerKey P).toList = P.toList ++ '/' :: "kopf-managed".toList := by
  simp [markerKey, String.toList_append]

theorem pfx_markerKey {P : String} (h : '/' ∉ P.toList) : pfx (markerKey P) = some P.toList := by
  simp only [pfx, markerKey_toList, splitSlash_append _ _ h, Option.map_some]

theorem markedPrefix?_markerKey {P : String} (h : '/' ∉ P.toList) : markedPrefix? (markerKey P) = some P.toList := by
  unfold markedPrefix?
  rw [markerKey_toList, splitSlash_append _ _ h]
  simp [knownMarkers]

/-- the marker, or a self-recognised prefix, makes every key under the prefix droppable. -/
theorem groupDropped_of_marker {P : String} {B : Kvs} (hP : '/' ∉ P.toList)
    (h : markerKey P ∈ keys B ∨ knownish P.toList = true) : GroupDropped P.toList B := by
  intro k hk hp
  rcases h with h | h
  · exact mem_markedPrefixes.2 ⟨markerKey P, h, markedPrefix?_markerKey hP⟩
  · exact mem_markedPrefixes.2 ⟨k, hk, markedPrefix?_knownish hp h⟩

/-- `_store_marker` makes sure the marker is there — exactly when `writesMarker`. -/
theorem storeMarker_ensures {P : String} (bodyAnn patchAnn : Kvs) (h : writesMarker P = true) :
    markerKey P ∈ keys bodyAnn ∨ markerKey P ∈ keys (storeMarker P bodyAnn patchAnn) := by
  unfold storeMarker
  by_cases hb : (keys bodyAnn).contains (markerKey P) = true
  · left; simpa using hb
  · by_cases hp : (keys patchAnn).contains (markerKey P) = true
    · right
      simp only [h, hb, hp, Bool.not_true, Bool.and_false, Bool.false_eq_true, if_false]
      simpa using hp
    · right
      simp only [h, hb, hp, Bool.not_false, Bool.and_true, Bool.true_and, if_true]
      simp only [keys, List.mem_map]
      exact ⟨(markerKey P, .str "yes"), mem_of_lookup (lookup_insert_same _ _ _), rfl⟩

theorem storeMarker_silent {P : String} (bodyAnn patchAnn : Kvs) (h : writesMarker P = false) :
    storeMarker P bodyAnn patchAnn = patchAnn := by
  simp [storeMarker, h]

/-! ### the merge of the storage's patch into the annotations -/

theorem filter_insert_drop {q : String → Bool} {k : String} (v : J) (hq : q k = false) :
    ∀ (l : Kvs), (J.insert k v l).filter (fun kv => q kv.1) = l.filter (fun kv => q kv.1)
  | [] => by simp [J.insert, hq]
  | (k2, v2) :: l => by
    by_cases e : k2 = k
    · subst e; simp [J.insert, List.filter_cons, hq]
    · simp [J.insert, e, List.filter_cons, filter_insert_drop v hq l]

theorem filter_erase_drop {q : String → Bool} {k : String} (hq : q k = false) :
    ∀ (l : Kvs), (erase k l).filter (fun kv => q kv.1) = l.filter (fun kv => q kv.1)
  | [] => by simp [erase]
  | (k2, v2) :: l => by
    by_cases e : k2 = k
    · subst e; simp [erase, List.filter_cons, hq, filter_erase_drop hq l]
    · simp [erase, e, List.filter_cons, filter_erase_drop hq l]

theorem mergeKvs_cons (t : Kvs) (k : String) (v : J) (rest : Kvs) :
    mergeKvs t ((k, v) :: rest) =
      if v.isNull then mergeKvs (erase k t) rest
      else mergeKvs (J.insert k (mergePatch ((lookup k t).getD .null) v) t) rest := by
  cases v <;> simp [mergeKvs, isNull]

theorem filter_mergeKvs {q : String → Bool} : ∀ (patch t : Kvs), (∀ k, k ∈ keys patch → q k = false) →
    (mergeKvs t patch).filter (fun kv => q kv.1) = t.filter (fun kv => q kv.1)
  | [], t, _ => by simp [mergeKvs]
  | (k, v) :: rest, t, h => by
    have hk : q k = false := h k (by simp [keys])
    have hr : ∀ k', k' ∈ keys rest → q k' = false := fun k' hk' => h k' (by simp [keys] at hk' ⊢; exact Or.inr hk')
    rw [mergeKvs_cons]
    by_cases hv : v.isNull = true
    · simp only [hv, if_true]; rw [filter_mergeKvs rest _ hr, filter_erase_drop hk]
    · simp only [hv, if_false, Bool.false_eq_true]; rw [filter_mergeKvs rest _ hr, filter_insert_drop _ hk]

theorem hasKey_mergeKvs_other {k : String} : ∀ (patch t : Kvs), k ∉ keys patch →
    hasKey k (mergeKvs t patch) = hasKey k t
  | [], t, _ => by simp [mergeKvs]
  | (k2, v) :: rest, t, h => by
    have hne : k ≠ k2 := fun e => h (by simp [keys, e])
    have hr : k ∉ keys rest := fun hm => h (by simp [keys] at hm ⊢; exact Or.inr hm)
    rw [mergeKvs_cons]
    by_cases hv : v.isNull = true
    · simp only [hv, if_true]
      rw [hasKey_mergeKvs_other rest _ hr]
      cases ha : hasKey k (erase k2 t) with
      | true => exact ((hasKey_erase k2 k t).1 ha).1.symm
      | false =>
        cases hb : hasKey k t with
        | false => rfl
        | true =>
          have := (hasKey_erase k2 k t).2 ⟨hb, fun e => hne e.symm⟩
          rw [ha] at this; cases this
    · simp only [hv, if_false, Bool.false_eq_true]
      rw [hasKey_mergeKvs_other rest _ hr, hasKey_insert_other _ t hne]

theorem mem_keys_iff_hasKey {k : String} {l : Kvs} : k ∈ keys l ↔ hasKey k l = true := by
  simp [keys, hasKey, List.any_eq_true]

theorem insert_append_of_absent {k : String} (v : J) : ∀ (l : Kvs), hasKey k l = false → J.insert k v l = l ++ [(k, v)]
  | [], _ => rfl
  | (k2, v2) :: l, h => by
    simp at h
    simp [J.insert, h.1, insert_append_of_absent v l h.2]

theorem mergeKvs_append : ∀ (p1 p2 t : Kvs), mergeKvs t (p1 ++ p2) = mergeKvs (mergeKvs t p1) p2
  | [], p2, t => by simp [mergeKvs]
  | (k, v) :: rest, p2, t => by
    rw [List.cons_append, mergeKvs_cons, mergeKvs_cons]
    by_cases hv : v.isNull = true
    · simp only [hv, if_true]; exact mergeKvs_append rest p2 _
    · simp only [hv, if_false, Bool.false_eq_true]; exact mergeKvs_append rest p2 _

/-- after a Kopf annotations storage's patch (with what `_store_marker` adds) is merged, the marker is
    among the annotations whenever the storage writes one. -/
theorem marker_after_write {P : String} (A patchAnn : Kvs) (hw : writesMarker P = true)
    (hnm : markerKey P ∉ keys patchAnn) :
    markerKey P ∈ keys (mergeKvs A (storeMarker P A patchAnn)) := by
  rw [mem_keys_iff_hasKey]
  unfold storeMarker
  by_cases hb : (keys A).contains (markerKey P) = true
  · simp only [hw, hb, Bool.not_true, Bool.and_false, Bool.false_and, Bool.false_eq_true, if_false]
    rw [hasKey_mergeKvs_other patchAnn A hnm]
    exact mem_keys_iff_hasKey.1 (by simpa using hb)
  · have hp : (keys patchAnn).contains (markerKey P) = false := by simpa using hnm
    simp only [hw, hb, hp, Bool.not_false, Bool.and_true, Bool.true_and, if_true]
    have habs : hasKey (markerKey P) patchAnn = false := by
      cases h : hasKey (markerKey P) patchAnn with
      | false => rfl
      | true => exact absurd (mem_keys_iff_hasKey.2 h) hnm
    rw [insert_append_of_absent _ _ habs, mergeKvs_append, mergeKvs_cons]
    simp only [isNull, Bool.false_eq_true, if_false, mergeKvs]
    exact lookup_some_hasKey (lookup_insert_same _ _ _)

theorem keys_storeMarker {P : String} (A patchAnn : Kvs) {k : String} (h : k ∈ keys (storeMarker P A patchAnn)) :
    k ∈ keys patchAnn ∨ k = markerKey P := by
  unfold storeMarker at h
  split at h
  · rw [mem_keys_iff_hasKey] at h
    by_cases e : k = markerKey P
    · exact Or.inr e
    · rw [hasKey_insert_other _ _ e] at h
      exact Or.inl (mem_keys_iff_hasKey.2 h)
  · exact Or.inl h

end Kopf.C04
