/-
  C04 — what a Kopf annotations storage actually writes: its keys under its prefix plus the marker of
  `_store_marker`. If the marker is written (or the prefix is recognised by itself) the whole batch is
  dropped by every other Kopf operator's `build`.
-/
import Kopf.Lemmas.C04_OwnKeyMulti
set_option linter.unusedSimpArgs false
namespace Kopf.C04
open Kopf Kopf.J

theorem splitSlash_append : ∀ (p n : List Char), '/' ∉ p → splitSlash (p ++ '/' :: n) = some (p, n)
  | [], n, _ => by simp [splitSlash]
  | c :: p, n, h => by
    have hc : c ≠ '/' := fun e => h (e ▸ List.mem_cons_self)
    have hp : '/' ∉ p := fun hm => h (List.mem_cons_of_mem _ hm)
    simp [splitSlash, hc, splitSlash_append p n hp]

theorem markerKey_toList (P : String) : (markerKey P).toList = P.toList ++ '/' :: "kopf-managed".toList := by
  simp [markerKey, String.toList_append]

theorem pfx_markerKey {P : String} (h : '/' ∉ P.toList) : pfx (markerKey P) = some P.toList := by
  simp only [pfx, markerKey_toList, splitSlash_append _ _ h, Option.map_some]

theorem markedPrefix?_markerKey {P : String} (h : '/' ∉ P.toList) : markedPrefix? (markerKey P) = some P.toList := by
  unfold markedPrefix?
  rw [markerKey_toList, splitSlash_append _ _ h]
  simp [knownMarkers]

/-- the marker, or a self-recognised prefix, makes every key under the prefix droppable. -/
theorem groupDropped_of_marker {P : String} {B : Kvs} (hP : '/' ∉ P.toList)
    (h : markerKey P ∈ keys B ∨ knownish P.toList = true) : GroupDropped P.toList B := by
  intro k hk hp
  rcases h with h | h
  · exact mem_markedPrefixes.2 ⟨markerKey P, h, markedPrefix?_markerKey hP⟩
  · exact mem_markedPrefixes.2 ⟨k, hk, markedPrefix?_knownish hp h⟩

/-- `_store_marker` makes sure the marker is there — exactly when `writesMarker`. -/
theorem storeMarker_ensures {P : String} (bodyAnn patchAnn : Kvs) (h : writesMarker P = true) :
    markerKey P ∈ keys bodyAnn ∨ markerKey P ∈ keys (storeMarker P bodyAnn patchAnn) := by
  unfold storeMarker
  by_cases hb : (keys bodyAnn).contains (markerKey P) = true
  · left; simpa using hb
  · by_cases hp : (keys patchAnn).contains (markerKey P) = true
    · right
      simp only [h, hb, hp, Bool.not_true, Bool.and_false, Bool.false_eq_true, if_false]
      simpa using hp
    · right
      simp only [h, hb, hp, Bool.not_false, Bool.and_true, Bool.true_and, if_true]
      simp only [keys, List.mem_map]
      exact ⟨(markerKey P, .str "yes"), mem_of_lookup (lookup_insert_same _ _ _), rfl⟩

theorem storeMarker_silent {P : String} (bodyAnn patchAnn : Kvs) (h : writesMarker P = false) :
    storeMarker P bodyAnn patchAnn = patchAnn := by
  simp [storeMarker, h]

end Kopf.C04
