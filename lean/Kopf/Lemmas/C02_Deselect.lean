/-
  C02 — the closing decision depends on the SELECTED handlers only.

  Helper lemmas for `closed_ignores_unselected_records` (Props): two stores that agree on the selected
  handlers yield the same invocations and the same closing decision, whatever else they carry — in
  particular the unfinished record, same purpose, of a handler that is not selected any more.
  And the seeded variant C03d (`done := not state.counts.running`) with the lemmas showing that it
  never closes a cycle over such a record.
-/
import Kopf.Lemmas.C02_Cycle
namespace Kopf.C02

/-! ### states that agree up to purpose / dirtiness on a set of ids -/

def RelHS (h h' : HS) : Prop := h'.active = h.active ∧ ∃ q, h'.r = { h.r with purpose := q }

def RelO : Option HS → Option HS → Prop
  | some h, some h' => RelHS h h'
  | none, none => True
  | _, _ => False

def SimOn (sel : List Id) (a b : St) : Prop := ∀ i ∈ sel, RelO (a i) (b i)

theorem relO_cases {x y : Option HS} (h : RelO x y) :
    (x = none ∧ y = none) ∨ ∃ hx hy, x = some hx ∧ y = some hy ∧ RelHS hx hy := by
  cases x <;> cases y <;> simp only [RelO] at h
  · exact Or.inl ⟨rfl, rfl⟩
  · exact Or.inr ⟨_, _, rfl, rfl, h⟩

/-- `handler_state.awakened` of an optional state -/
def awakeO (o : Option HS) (now : Tick) : Bool := match o with | some h => h.r.awakened now | none => false

/-- the handler passes the pre-call checks -/
def passesO (l : Limits) (o : Option HS) (now : Tick) : Bool :=
  match o with | some h => !precheckFails l h.r now | none => false

theorem relO_awake {x y : Option HS} (h : RelO x y) (now : Tick) : awakeO y now = awakeO x now := by
  rcases relO_cases h with ⟨rfl, rfl⟩ | ⟨hx, hy, rfl, rfl, _, q, hq⟩
  · rfl
  · simp only [awakeO, hq]
    rfl

theorem relO_passes {x y : Option HS} (h : RelO x y) (l : Limits) (now : Tick) : passesO l y now = passesO l x now := by
  rcases relO_cases h with ⟨rfl, rfl⟩ | ⟨hx, hy, rfl, rfl, _, q, hq⟩
  · rfl
  · simp only [passesO, hq]
    rfl

theorem relO_retries {a b : St} {i : Id} (h : RelO (a i) (b i)) : retriesOf b i = retriesOf a i := by
  unfold retriesOf
  rcases relO_cases h with ⟨ha, hb⟩ | ⟨hx, hy, ha, hb, _, q, hq⟩
  · rw [ha, hb]
  · rw [ha, hb]
    simp only [hq]

theorem firstMin_mem (st : St) : ∀ (l : List Id) (x : Id), firstMin st l = some x → x ∈ l := by
  intro l
  induction l with
  | nil => intro x h; simp [firstMin] at h
  | cons a as ih =>
    intro x h
    simp only [firstMin] at h
    cases hm : firstMin st as with
    | none => simp [hm] at h; simp [h]
    | some y =>
      simp only [hm] at h
      split at h
      · simp at h; simp [h]
      · simp at h; subst h; exact List.mem_cons_of_mem _ (ih _ hm)

theorem firstMin_congr {a b : St} : ∀ (l : List Id), (∀ x ∈ l, retriesOf b x = retriesOf a x) →
    firstMin b l = firstMin a l := by
  intro l
  induction l with
  | nil => intro _; rfl
  | cons x xs ih =>
    intro h
    have ih' := ih (fun y hy => h y (List.mem_cons_of_mem _ hy))
    simp only [firstMin, ih']
    cases hm : firstMin a xs with
    | none => rfl
    | some y =>
      have hy : y ∈ xs := firstMin_mem a xs y hm
      simp only [h x (List.mem_cons_self ..), h y (List.mem_cons_of_mem _ hy)]

/-- the handlers that are awake: `handlers_todo` -/
def todoOf (cfg : Cfg) (st : St) (now : Tick) : List Id :=
  cfg.selected.filter (fun i => awakeO (st i) now)

/-- the outcome of a planned handler: the pre-call checks' or the handler's own -/
def outcomeFor (cfg : Cfg) (exec : Id → Nat → Outcome) (now : Tick) (i : Id) (r : Rec) : Outcome :=
  if precheckFails (cfg.limits i) r now then precheckOutcome else exec i r.retries

def planOf (cfg : Cfg) (st : St) (now : Tick) : List Id := plan cfg.lifecycle st (todoOf cfg st now)

theorem planOf_sub (cfg : Cfg) (st : St) (now : Tick) : ∀ i ∈ planOf cfg st now, i ∈ cfg.selected := by
  intro i hi
  have := plan_sub _ _ _ i hi
  exact (List.mem_filter.1 this).1

theorem execOnce_st (cfg : Cfg) (st : St) (now now1 : Tick) (exec : Id → Nat → Outcome) (i : Id) :
    (execOnce cfg st now now1 exec).st i =
      if i ∈ planOf cfg st now then
        match st i with
        | some h => some { h with r := withOutcome h.r (outcomeFor cfg exec now i h.r) now1, dirty := true }
        | none => none
      else st i := rfl

theorem execOnce_inv (cfg : Cfg) (st : St) (now now1 : Tick) (exec : Id → Nat → Outcome) :
    (execOnce cfg st now now1 exec).invoked =
      ((planOf cfg st now).filter (fun i => passesO (cfg.limits i) (st i) now)).map (fun i => (i, retriesOf st i)) := rfl

theorem todoOf_sim {cfg : Cfg} {a b : St} (h : SimOn cfg.selected a b) (now : Tick) :
    todoOf cfg b now = todoOf cfg a now := by
  unfold todoOf
  apply List.filter_congr
  intro i hi
  exact relO_awake (h i hi) now

theorem planOf_sim {cfg : Cfg} {a b : St} (h : SimOn cfg.selected a b) (now : Tick) :
    planOf cfg b now = planOf cfg a now := by
  unfold planOf
  rw [todoOf_sim h now]
  cases hl : cfg.lifecycle with
  | allAtOnce => rfl
  | oneByOne => rfl
  | asap =>
    simp only [plan]
    rw [firstMin_congr (todoOf cfg a now) (fun x hx => relO_retries (h x (List.mem_filter.1 hx).1))]

/-- execution keeps the two states in step on the selected handlers -/
theorem execOnce_sim {cfg : Cfg} {a b : St} {now now1 : Tick} {exec : Id → Nat → Outcome}
    (h : SimOn cfg.selected a b) :
    SimOn cfg.selected (execOnce cfg a now now1 exec).st (execOnce cfg b now now1 exec).st := by
  intro i hi
  rw [execOnce_st, execOnce_st, planOf_sim h now]
  have hr := h i hi
  by_cases hp : i ∈ planOf cfg a now
  · simp only [hp, if_true]
    rcases relO_cases hr with ⟨ha, hb⟩ | ⟨hx, hy, ha, hb, hact, q, hq⟩
    · rw [ha, hb]; trivial
    · rw [ha, hb]
      refine ⟨hact, q, ?_⟩
      simp only [hq]
      rfl
  · simp only [hp, if_false]
    exact hr

/-- … and invokes the same handlers with the same `retry` -/
theorem execOnce_invoked_sim {cfg : Cfg} {a b : St} {now now1 : Tick} {exec : Id → Nat → Outcome}
    (h : SimOn cfg.selected a b) :
    (execOnce cfg b now now1 exec).invoked = (execOnce cfg a now now1 exec).invoked := by
  rw [execOnce_inv, execOnce_inv, planOf_sim h now]
  have hf : (planOf cfg a now).filter (fun i => passesO (cfg.limits i) (b i) now) =
      (planOf cfg a now).filter (fun i => passesO (cfg.limits i) (a i) now) := by
    apply List.filter_congr
    intro i hi
    exact relO_passes (h i (planOf_sub cfg a now i hi)) _ now
  rw [hf]
  apply List.map_congr_left
  intro i hi
  have hsel := planOf_sub cfg a now i (List.mem_filter.1 hi).1
  rw [relO_retries (h i hsel)]

/-- the pre-states of two stores that agree on the selected handlers are in step on them -/
theorem preState_sim {cfg : Cfg} {P Q : Store} {now : Tick}
    (hsub : ∀ i ∈ cfg.selected, i ∈ cfg.owned) (hagree : ∀ i ∈ cfg.selected, P i = Q i) :
    SimOn cfg.selected (preState cfg P now) (preState cfg Q now) := by
  intro i hi
  obtain ⟨h, hp, ha, hr⟩ := preState_selected (P := P) (now := now) hi (hsub i hi)
  obtain ⟨h', hq, ha', hr'⟩ := preState_selected (P := Q) (now := now) hi (hsub i hi)
  rw [hp, hq]
  refine ⟨by rw [ha, ha'], ?_⟩
  rw [hr, hr']
  unfold startRec
  rw [← hagree i hi]
  cases hP : P i with
  | none => exact ⟨_, rfl⟩
  | some r =>
    cases extras cfg P now <;> cases extras cfg Q now <;> exact ⟨_, rfl⟩

theorem relO_finished {x y : Option HS} (h : RelO x y) :
    (∃ hs, x = some hs ∧ hs.r.finished = true) ↔ (∃ hs, y = some hs ∧ hs.r.finished = true) := by
  rcases relO_cases h with ⟨rfl, rfl⟩ | ⟨hx, hy, rfl, rfl, _, q, hq⟩
  · simp
  · constructor
    · rintro ⟨hs, he, hf⟩
      cases he
      exact ⟨_, rfl, by rw [hq]; exact hf⟩
    · rintro ⟨hs, he, hf⟩
      cases he
      refine ⟨_, rfl, ?_⟩
      rw [hq] at hf
      exact hf

/-! ### the seeded variant C03d: the closing decision taken from `state.counts.running` -/

/-- `not state.counts.running`: no known state of the current purpose (or of none) — ACTIVE OR NOT — is unfinished -/
def noneRunning (st : St) (ids : List Id) (reason : String) : Bool :=
  ids.all (fun i => match st i with
    | some h => !(h.r.purpose == none || h.r.purpose == some reason) || h.r.finished
    | none => true)

/-- `process_changing_cause` with `done := not state.counts.running` in place of `state.done` (seed C03d); the rest
    is `cycle` verbatim. NOT a model of the code: the mutant the witness theorems are about. -/
def cycleRunningVariant (cfg : Cfg) (P : Store) (now now1 : Tick) (exec : Id → Nat → Outcome) : CycleResult :=
  if !handlerReasons.contains cfg.reason then
    { invoked := [],
      P' := if cfg.reason == "noop" then purge P (fromStorage P cfg.owned) cfg.owned cfg.owned else P,
      closed := false, delays := [] }
  else
    let st0 := withHandlers (fromStorage P cfg.owned) cfg.selected cfg.reason now
    let ex := hasExtras st0 (known cfg) cfg.reason
    let st1 := if ex then repurpose st0 cfg.selected cfg.reason else st0
    let P1 := if hasExtras st1 (known cfg) cfg.reason then purgeFallen P st1 (known cfg) cfg.reason else P
    if cfg.selected.isEmpty then
      { invoked := [], P' := purge P1 st1 cfg.owned (known cfg), closed := true, delays := [] }
    else
      let r := execOnce cfg st1 now now1 exec
      let P2 := store P1 r.st
      let d := noneRunning r.st (known cfg) cfg.reason
      let P3 := if d then purge P2 r.st cfg.owned (known cfg) else P2
      { invoked := r.invoked, P' := P3, closed := d, delays := delays r.st (known cfg).eraseDups now1 }

theorem variant_main (cfg : Cfg) (P : Store) (now now1 : Tick) (exec : Id → Nat → Outcome)
    (hr : handlerReasons.contains cfg.reason = true) (hne : cfg.selected.isEmpty = false) :
    cycleRunningVariant cfg P now now1 exec =
      { invoked := (execOnce cfg (preState cfg P now) now now1 exec).invoked,
        P' := if noneRunning (postState cfg P now now1 exec) (known cfg) cfg.reason
              then purge (store (midStore cfg P now) (postState cfg P now now1 exec))
                     (postState cfg P now now1 exec) cfg.owned (known cfg)
              else store (midStore cfg P now) (postState cfg P now now1 exec),
        closed := noneRunning (postState cfg P now now1 exec) (known cfg) cfg.reason,
        delays := delays (postState cfg P now now1 exec) (known cfg).eraseDups now1 } := by
  unfold cycleRunningVariant
  simp only [hr, hne, Bool.not_true, Bool.false_eq_true, if_false]
  unfold postState midStore extrasLeft preState
  by_cases hex : hasExtras (withHandlers (fromStorage P cfg.owned) cfg.selected cfg.reason now) (known cfg) cfg.reason = true
  · simp [hex]
  · simp [hex]

/-- execution does not touch a handler that is not selected -/
theorem postState_unselected {cfg : Cfg} {P : Store} {now now1 : Tick} {exec : Id → Nat → Outcome} {i : Id}
    (hs : i ∉ cfg.selected) : postState cfg P now now1 exec i = preState cfg P now i := by
  unfold postState
  rw [execOnce_st]
  have : i ∉ planOf cfg (preState cfg P now) now := fun h => hs (planOf_sub _ _ _ i h)
  simp [this]

/-- what a pass that stays open stores keeps the "no foreign purpose" invariant -/
theorem store_noExtras {cfg : Cfg} {P : Store} {now now1 : Tick} {exec : Id → Nat → Outcome}
    (hsub : ∀ i ∈ cfg.selected, i ∈ cfg.owned) (hne : NoExtras cfg P) :
    NoExtras cfg (store (midStore cfg P now) (postState cfg P now now1 exec)) := by
  have hex := noExtras_extras (now := now) hsub hne
  intro i ho r hP'
  rw [midStore_noExtras hex] at hP'
  unfold store at hP'
  cases hpost : postState cfg P now now1 exec i with
  | none => simp only [hpost] at hP'; exact hne i ho r hP'
  | some h =>
    simp only [hpost] at hP'
    by_cases hdirty : h.dirty = true
    · simp only [hdirty, if_true, Option.some.injEq] at hP'
      subst hP'
      obtain ⟨h0, hpre, hpur⟩ := execOnce_purpose hpost
      rw [hpur]
      rw [preState_noExtras hex] at hpre
      exact st0_purpose hsub hne i h0 hpre
    · simp only [hdirty, Bool.false_eq_true, if_false] at hP'
      exact hne i ho r hP'

/-- ONE pass of the variant over the unfinished record of a handler that is not selected (any more): the cycle is
    not closed, whatever the selected handlers do, and the record stays where it is. -/
theorem variant_stuck (cfg : Cfg) (P : Store) (now now1 : Tick) (exec : Id → Nat → Outcome)
    (hsub : ∀ i ∈ cfg.selected, i ∈ cfg.owned)
    (hr : handlerReasons.contains cfg.reason = true) (hsel : cfg.selected.isEmpty = false)
    (hne : NoExtras cfg P)
    (j : Id) (r : Rec) (ho : j ∈ cfg.owned) (hns : j ∉ cfg.selected) (hP : P j = some r) (hunf : r.finished = false) :
    (cycleRunningVariant cfg P now now1 exec).closed = false ∧
    (cycleRunningVariant cfg P now now1 exec).P' j = some r ∧
    NoExtras cfg (cycleRunningVariant cfg P now now1 exec).P' := by
  have hpost : postState cfg P now now1 exec j = some { r := r, active := false, dirty := false } := by
    rw [postState_unselected hns, preState_unselected ho hns hP]
  have hclosed : noneRunning (postState cfg P now now1 exec) (known cfg) cfg.reason = false := by
    unfold noneRunning
    rw [List.all_eq_false]
    refine ⟨j, by simp [known, ho], ?_⟩
    rw [hpost]
    rcases hne j ho r hP with hp | hp <;> simp [hp, hunf]
  rw [variant_main cfg P now now1 exec hr hsel]
  simp only [hclosed, Bool.false_eq_true, if_false]
  refine ⟨trivial, ?_, store_noExtras hsub hne⟩
  rw [store_clean hpost rfl, midStore_noExtras (noExtras_extras (now := now) hsub hne)]
  exact hP

/-! ### the seed's history as an instance -/

/-- `hx = @on.update(field='spec.x')` failed temporarily once at tick 192 (retry in 3600 s): its record -/
def seedRecX : Rec :=
  { started := 192, delayed := some 230592, purpose := some "update", retries := 1,
    success := false, failure := false, subrefs := [] }

/-- … is on the object when spec.x has been reverted and spec.y changed: only `hy` is selected, same cause -/
def seedP : Store := fun i => if i = "hx/spec.x" then some seedRecX else none

def seedCfg : Cfg :=
  { owned := ["hx/spec.x", "hy/spec.y"], selected := ["hy/spec.y"], limits := fun _ => ⟨none, none⟩,
    reason := "update", lifecycle := .asap }

def okOutcome : Outcome := { final := true, delay := none, error := false, subrefs := [] }

theorem seed_noExtras : NoExtras seedCfg seedP := by
  intro i _ r h
  unfold seedP at h
  split at h
  · cases h; exact Or.inr rfl
  · cases h

end Kopf.C02
