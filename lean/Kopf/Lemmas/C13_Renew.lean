/-
  C13 helper lemmas — keep-alive arithmetic, status patches, settling, failover building blocks.
-/
import Kopf.Lemmas.C13_Lts
namespace Kopf.C13

/-! ### keep-alive arithmetic -/

theorem kaSleep_le (L j : Int) (hL : 2 ≤ L) (h5 : 5 ≤ j) : kaSleep L j ≤ L - margin L := by
  unfold kaSleep margin
  omega

theorem kaSleep_pos (L j : Int) : 1 ≤ kaSleep L j := by
  unfold kaSleep
  omega

theorem kaSleep_one (j : Int) (h5 : 5 ≤ j) : kaSleep 1 j = 1 := by
  unfold kaSleep
  omega

theorem kaSleepT_ge2 (u L j : Int) (hL : 2 ≤ L) : kaSleepT u L j = kaSleep L j * u := by
  unfold kaSleepT
  rw [if_pos (by omega)]

theorem kaSleepT_one (u j : Int) : kaSleepT u 1 j = u / 2 := by
  unfold kaSleepT
  rw [if_neg (by omega), if_pos (by omega), Int.one_mul]

theorem renewed_of_bounds (u L B : Int) (hu : 0 < u) (hL : 1 ≤ L) (hB : 2 * B < marginT u L) :
    ∀ (rs : List Round) (t : Int),
      (∀ r ∈ rs, 0 ≤ r.a ∧ r.a ≤ r.lat ∧ r.lat ≤ B ∧ 5 ≤ r.jitter ∧ r.jitter ≤ 10) → Renewed u L t rs := by
  intro rs
  induction rs with
  | nil => intro t _; trivial
  | cons r rest ih =>
    intro t h
    cases rest with
    | nil => trivial
    | cons r' rs =>
      refine ⟨?_, ih _ (fun x hx => h x (List.mem_cons_of_mem _ hx))⟩
      obtain ⟨_, _, hl, hj, _⟩ := h r List.mem_cons_self
      obtain ⟨_, ha', hl', _, _⟩ := h r' (List.mem_cons_of_mem _ List.mem_cons_self)
      unfold nextTouch
      by_cases h2 : 2 ≤ L
      · have h1 : kaSleep L r.jitter * u ≤ (L - margin L) * u :=
          Int.mul_le_mul_of_nonneg_right (kaSleep_le L r.jitter h2 hj) (Int.le_of_lt hu)
        rw [Int.sub_mul] at h1
        rw [kaSleepT_ge2 u L r.jitter h2]
        simp only [marginT, h2, if_true] at hB
        omega
      · have hL1 : L = 1 := by omega
        subst hL1
        rw [kaSleepT_one]
        simp only [marginT] at hB
        rw [if_neg (by omega)] at hB
        omega

/-! ### status patches -/

theorem mem_erase {st : Status} {i j : Identity} {r : Rec} : (j, r) ∈ st.erase i ↔ (j, r) ∈ st ∧ j ≠ i := by
  simp [Status.erase, List.mem_filter]

theorem mem_set {st : Status} {i j : Identity} {r r' : Rec} :
    (j, r) ∈ st.set i r' ↔ (j = i ∧ r = r') ∨ (j ≠ i ∧ (j, r) ∈ st) := by
  unfold Status.set
  by_cases hany : st.any (fun e => e.1 == i) = true
  · simp only [hany, if_true, List.mem_map]
    constructor
    · rintro ⟨e, he, heq⟩
      by_cases hei : e.1 = i
      · simp [hei] at heq
        exact Or.inl ⟨heq.1.symm, heq.2.symm⟩
      · simp [hei] at heq
        subst heq
        exact Or.inr ⟨hei, he⟩
    · rintro (⟨rfl, rfl⟩ | ⟨hne, hm⟩)
      · simp only [List.any_eq_true, beq_iff_eq] at hany
        obtain ⟨e, he, hei⟩ := hany
        exact ⟨e, he, by simp [hei]⟩
      · exact ⟨(j, r), hm, by simp [hne]⟩
  · simp only [hany, Bool.false_eq_true, if_false, List.mem_append, List.mem_singleton, Prod.mk.injEq]
    simp only [List.any_eq_true, beq_iff_eq, not_exists, not_and] at hany
    constructor
    · rintro (hm | ⟨rfl, rfl⟩)
      · exact Or.inr ⟨hany _ hm, hm⟩
      · exact Or.inl ⟨rfl, rfl⟩
    · rintro (⟨rfl, rfl⟩ | ⟨_, hm⟩)
      · exact Or.inr ⟨rfl, rfl⟩
      · exact Or.inl hm

theorem mem_patch_other {st : Status} {i j : Identity} {r : Rec} {v : Option Rec} (h : j ≠ i) :
    (i, r) ∈ st.patch j v ↔ (i, r) ∈ st := by
  cases v with
  | none => simp only [Status.patch, mem_erase]; exact ⟨fun x => x.1, fun x => ⟨x, fun e => h e.symm⟩⟩
  | some r' =>
    simp only [Status.patch, mem_set]
    constructor
    · rintro (⟨e, _⟩ | ⟨_, hm⟩)
      · exact absurd e.symm h
      · exact hm
    · intro hm; exact Or.inr ⟨fun e => h e.symm, hm⟩

theorem touchVal_zero (u prio : Int) (now : Int) : touchVal u prio 0 now = none := by
  simp [touchVal, Rec.dead, Rec.deadline]

theorem touchVal_pos {u prio L : Int} {now : Int} (hu : 0 < u) (hL : 1 ≤ L) :
    touchVal u prio L now = some { priority := prio, lifetime := L, lastseen := now } := by
  have : 0 < L * u := Int.mul_pos (by omega) hu
  unfold touchVal
  have hd : ({ priority := prio, lifetime := L, lastseen := now } : Rec).dead u now = false := by
    rw [dead_false_iff]; show now < now + L * u; omega
  simp only [hd]
  rfl

/-! ### settling -/

theorem settle {u : Int} {s s' : State} (hg : Good u s) (ls : List Label)
    (hdel : ∀ l ∈ ls, ∃ i, l = Label.deliver i)
    (hcov : ∀ i op, s.ops i = some op → op.alive = true → Label.deliver i ∈ ls)
    (h : run u s ls = some s') : ExactlyTop s' ∧ Good u s' := by
  obtain ⟨hnow, hst, hops, hp⟩ := run_delivers ls s s' hdel h
  have hg' := good_transfer hg hnow hst hops
  refine ⟨top_of_good hg' ?_, hg'⟩
  intro i op' hi ha
  rcases hops i with ⟨_, h2⟩ | ⟨o, o', h1, h2, h3, h4⟩
  · rw [h2] at hi; cases hi
  · rw [h2] at hi; injection hi with hi; subst hi
    rw [hp i o' h2 (hcov i o h1 (by rw [← h4]; exact ha)), hnow]
    apply blockedB_congr
    intro j r
    constructor
    · rintro ⟨hd, hm⟩; exact ⟨hd, (hst j r hd).mpr hm⟩
    · rintro ⟨hd, hm⟩; exact ⟨hd, (hst j r hd).mp hm⟩

theorem dead_mono {u : Int} {r : Rec} {t : Int} (d : Nat) (h : r.dead u t = true) : r.dead u (t + d) = true := by
  rw [dead_true_iff] at *
  omega

theorem good_after_exit {u : Int} {s s1 : State} {a : Identity} (hg : Good u s)
    (h : step u s (.exit a) = some s1) : Good u s1 := by
  obtain ⟨o, ho, hoa, hnow, hst, hops, _⟩ := exit_spec h
  constructor
  · intro i op hi ha
    rw [hops] at hi
    by_cases hia : i = a
    · subst hia; simp at hi; subst hi; simp at ha
    · rw [updOp_other _ _ hia] at hi
      obtain ⟨r, hm, hp, hd⟩ := hg.own i op hi ha
      exact ⟨r, by rw [hst]; exact mem_erase.mpr ⟨hm, hia⟩, hp, by rw [hnow]; exact hd⟩
  · intro j r hm hd
    rw [hst] at hm
    obtain ⟨hm, hja⟩ := mem_erase.mp hm
    rw [hnow] at hd
    obtain ⟨op, h1, h2, h3⟩ := hg.noGhost j r hm hd
    exact ⟨op, by rw [hops, updOp_other _ _ hja]; exact h1, h2, h3⟩
  · intro i j oi oj hi hj hai haj hp
    rw [hops] at hi hj
    have hia : i ≠ a := by
      intro e; subst e; simp at hi; subst hi; simp at hai
    have hja : j ≠ a := by
      intro e; subst e; simp at hj; subst hj; simp at haj
    rw [updOp_other _ _ hia] at hi
    rw [updOp_other _ _ hja] at hj
    exact hg.distinct i j oi oj hi hj hai haj hp

theorem good_after_kill_expiry {u : Int} {s s1 s2 : State} {a : Identity} {d : Nat} (hg : Good u s)
    (h1 : step u s (.kill a) = some s1) (h2 : step u s1 (.tick d) = some s2)
    (hexp : ∀ r, (a, r) ∈ s.status → r.dead u (s.now + d) = true)
    (hfresh : ∀ i op, s.ops i = some op → op.alive = true → i ≠ a →
      ∃ r, (i, r) ∈ s.status ∧ r.priority = op.prio ∧ r.dead u (s.now + d) = false) : Good u s2 := by
  obtain ⟨o, ho, hoa, hnow, hst, hops, _⟩ := kill_spec h1
  simp only [step, Option.some.injEq] at h2
  subst h2
  constructor
  · intro i op hi ha
    simp only at hi
    rw [hops] at hi
    by_cases hia : i = a
    · subst hia; simp at hi; subst hi; simp at ha
    · rw [updOp_other _ _ hia] at hi
      obtain ⟨r, hm, hp, hd⟩ := hfresh i op hi ha hia
      exact ⟨r, by simp only [hst]; exact hm, hp, by simp only [hnow]; exact hd⟩
  · intro j r hm hd
    simp only [hst] at hm
    simp only [hnow] at hd
    have hd0 : r.dead u s.now = false := by
      cases hc : r.dead u s.now with
      | false => rfl
      | true => rw [dead_mono d hc] at hd; cases hd
    obtain ⟨op, h1', h2', h3'⟩ := hg.noGhost j r hm hd0
    have hja : j ≠ a := by
      intro e; subst e
      rw [hexp r hm] at hd; cases hd
    exact ⟨op, by simp only [hops, updOp_other _ _ hja]; exact h1', h2', h3'⟩
  · intro i j oi oj hi hj hai haj hp
    simp only [hops] at hi hj
    have hia : i ≠ a := by
      intro e; subst e; simp at hi; subst hi; simp at hai
    have hja : j ≠ a := by
      intro e; subst e; simp at hj; subst hj; simp at haj
    rw [updOp_other _ _ hia] at hi
    rw [updOp_other _ _ hja] at hj
    exact hg.distinct i j oi oj hi hj hai haj hp

theorem foldl_max_ge (u : Int) : ∀ (l : Status) (m : Int),
    m ≤ l.foldl (fun m e => max m (e.2.deadline u)) m ∧
    ∀ e ∈ l, e.2.deadline u ≤ l.foldl (fun m e => max m (e.2.deadline u)) m := by
  intro l
  induction l with
  | nil => intro m; exact ⟨Int.le_refl _, fun _ h => by cases h⟩
  | cons x xs ih =>
    intro m
    simp only [List.foldl_cons]
    obtain ⟨h1, h2⟩ := ih (max m (x.2.deadline u))
    refine ⟨by omega, ?_⟩
    intro e he
    rcases List.mem_cons.mp he with rfl | he
    · omega
    · exact h2 e he

/-- `expire j` is time passing (never backwards) up to a moment when every record of j is dead. -/
theorem expire_spec {u : Int} {s s' : State} {j : Identity} (h : step u s (.expire j) = some s') :
    (∃ d : Nat, step u s (.tick d) = some s') ∧ ∀ r, (j, r) ∈ s.status → r.dead u s'.now = true := by
  simp only [step, Option.some.injEq] at h
  subst h
  obtain ⟨h1, h2⟩ := foldl_max_ge u (s.status.filter (fun e => e.1 == j)) s.now
  constructor
  · refine ⟨(latestDeadline u s.status j s.now - s.now).toNat, ?_⟩
    simp only [step, Option.some.injEq]
    have : s.now ≤ latestDeadline u s.status j s.now := h1
    congr 1
    omega
  · intro r hm
    rw [dead_true_iff]
    have := h2 (j, r) (List.mem_filter.mpr ⟨hm, by simp⟩)
    simpa [Rec.deadline, latestDeadline] using this

end Kopf.C13
