/-
  C17 helper lemmas, part 4: one event seen by the mechanism (`actOf`/`memOf`) and by the
  reference rules (`refStep`) agree; the link invariant between indices and the reference.
-/
import Kopf.Lemmas.C17_Step
namespace Kopf.C17

section Link
variable {Id Res L K V O : Type} [DecidableEq Id] [DecidableEq Res] [DecidableEq L]
  [DecidableEq K] [DecidableEq O]

/-- mechanism's action vs. the reference's new contribution -/
def Act.agrees (a : Act K V) (c c' : List (Option K × V)) : Prop :=
  match a with
  | .keep => c' = c
  | .discard => c' = []
  | .replace m => c' = m

/-- The event's own object: the memory after the mechanism's step is the reference's exclusion
    record, and the mechanism's action on the index is the rule the reference applies. -/
theorem link_obj (cfg : List (Indexer Id Res L)) (bk : Nat) (s : State Id K V O)
    (e : Event Id Res L K V O) (c : Indexer Id Res L) (r : RefSt K V)
    (hm : s.mem e.obj c.id = r.excl) :
    memOf cfg bk s e c = (refStep cfg bk c e.obj r e).excl ∧
    (actOf cfg bk s e c).agrees r.contrib (refStep cfg bk c e.obj r e).contrib := by
  have hh0 : hOf s e c = HState.ofOpt r.excl := by
    simp [hOf, hstateOf, hm]
  unfold memOf actOf refStep invoked
  rw [hh0]
  simp only [ne_eq, not_true_eq_false, if_false]
  by_cases hh : cfg.any (fun c' => decide (c'.res = e.res)) = true
  · by_cases hd : e.deleted = true
    · simp [hh, hd, Act.agrees]
    · have hd' : e.deleted = false := by simpa using hd
      by_cases hsel : c.selects e = true
      · generalize HState.ofOpt r.excl = h
        by_cases haw : h.awake e.t = true
        · simp only [hh, hd', hsel, haw, Bool.not_true, Bool.false_eq_true, if_false, Bool.and_self, if_true]
          -- the call happens: outcome table vs. rule table
          unfold execOne HState.next rule
          cases hr : c.retries with
          | none =>
            cases hsc : e.script c.id with
            | dict m => simp [Act.agrees]
            | scalar v => simp [Act.agrees]
            | none => simp [Act.agrees]
            | permErr => simp [Act.agrees]
            | tempErr d => simp [Act.agrees]
            | otherErr =>
              cases hmode : c.errors with
              | none => simp [Act.agrees]
              | some md => cases md <;> simp [Act.agrees]
          | some n =>
            by_cases hlim : h.retries ≥ n
            · simp [hlim, Act.agrees]
            · have hlim' : ¬ n ≤ h.retries := hlim
              by_cases hla : h.retries + 1 ≥ n
              · cases hsc : e.script c.id with
                | dict m => simp [hlim', Act.agrees]
                | scalar v => simp [hlim', Act.agrees]
                | none => simp [hlim', Act.agrees]
                | permErr => simp [hlim', Act.agrees]
                | tempErr d => simp [hlim', hla, Act.agrees]
                | otherErr =>
                  cases hmode : c.errors with
                  | none => simp [hlim', Act.agrees]
                  | some md => cases md <;> simp [hlim', hla, Act.agrees]
              · have hla' : ¬ n ≤ h.retries + 1 := hla
                cases hsc : e.script c.id with
                | dict m => simp [hlim', Act.agrees]
                | scalar v => simp [hlim', Act.agrees]
                | none => simp [hlim', Act.agrees]
                | permErr => simp [hlim', Act.agrees]
                | tempErr d => simp [hlim', hla', Act.agrees]
                | otherErr =>
                  cases hmode : c.errors with
                  | none => simp [hlim', Act.agrees]
                  | some md => cases md <;> simp [hlim', hla', Act.agrees]
        · have haw' : h.awake e.t = false := by simpa using haw
          simp [hh, hd', hsel, haw', Act.agrees]
      · have hsel' : c.selects e = false := by simpa using hsel
        simp [hh, hd', hsel', Act.agrees, hm]
  · have hh' : cfg.any (fun c' => decide (c'.res = e.res)) = false := by simpa using hh
    by_cases hd : e.deleted = true
    · simp [hh', hd, Act.agrees]
    · simp [hh', hd, Act.agrees, hm]

/-- Other objects: the rules leave them alone. -/
theorem refStep_other (cfg : List (Indexer Id Res L)) (bk : Nat) (c : Indexer Id Res L) (o : O)
    (r : RefSt K V) (e : Event Id Res L K V O) (h : o ≠ e.obj) : refStep cfg bk c o r e = r := by
  unfold refStep
  simp [Ne.symm h]

theorem view_other (veq : V → V → Bool) (a : Act K V) (obj : O) (old : Option K → O → Option V)
    (k : Option K) (o : O) (h : o ≠ obj) : a.view veq obj old k o = old k o := by
  cases a <;> simp [Act.view, h]

/-- "stored value vs. latest documented value": equal, or the stored one is an older result that
    Python's `==` (`veq`) could not tell from the latest one (`Store._replace` keeps it then). -/
def Rel (veq : V → V → Bool) : Option V → Option V → Prop
  | none, none => True
  | some v', some v => v' = v ∨ veq v' v = true
  | _, _ => False

omit [DecidableEq K] [DecidableEq O] in
theorem Rel.refl (veq : V → V → Bool) (x : Option V) : Rel veq x x := by
  cases x <;> simp [Rel]

omit [DecidableEq K] [DecidableEq O] in
/-- with an equality test that only identifies identical values the relation is equality -/
theorem Rel.eq_of_lawful {veq : V → V → Bool} (hveq : ∀ a b, veq a b = true → a = b)
    {x y : Option V} (h : Rel veq x y) : x = y := by
  cases x <;> cases y <;> simp [Rel] at h ⊢
  rcases h with h | h
  · exact h
  · exact hveq _ _ h

theorem foldVal_rel {κ : Type} [DecidableEq κ] (veq : V → V → Bool) (k : κ) (m : List (κ × V)) :
    ∀ cur : Option V, k ∈ m.map Prod.fst → Rel veq (foldVal veq k m cur) (lastval k m) := by
  induction m with
  | nil => intro cur h; simp at h
  | cons p r ih =>
    obtain ⟨k', v⟩ := p
    intro cur h
    simp only [foldVal, lastval]
    by_cases hkr : k ∈ r.map Prod.fst
    · have := ih (if k' = k then some (keepOld veq cur v) else cur) hkr
      have hs := (lastval_isSome k r).2 hkr
      cases hl : lastval k r with
      | none => simp [hl] at hs
      | some x => simpa [hl] using this
    · have hk : k' = k := by
        simp only [List.map_cons, List.mem_cons] at h
        rcases h with h | h
        · exact h.symm
        · exact absurd h hkr
      rw [foldVal_not_mem veq k r _ hkr, lastval_none_of_not_mem k r hkr]
      simp only [hk, if_true]
      unfold keepOld
      cases cur with
      | none => simp [Rel]
      | some v' =>
        by_cases hv : veq v' v = true
        · simp [hv, Rel]
        · simp [hv, Rel]

/-- from agreement in kind to the value relation -/
theorem rel_of_agrees (veq : V → V → Bool) (a : Act K V) (c c' : List (Option K × V)) (obj : O)
    (old : Option K → O → Option V) (ha : a.agrees c c')
    (hv : ∀ k, Rel veq (old k obj) (lastval k c)) (k : Option K) :
    Rel veq (a.view veq obj old k obj) (lastval k c') := by
  cases a with
  | keep => simp only [Act.agrees] at ha; subst ha; simpa [Act.view] using hv k
  | discard => simp only [Act.agrees] at ha; subst ha; simp [Act.view, lastval, Rel]
  | replace m =>
    simp only [Act.agrees] at ha; subst ha
    simp only [Act.view, if_true]
    by_cases hk : k ∈ c'.map Prod.fst
    · simp only [hk, if_true]
      exact foldVal_rel veq k c' _ hk
    · rw [lastval_none_of_not_mem k c' hk]
      simp [hk, Rel]

/-- the index/reference link maintained by every step -/
def Link (veq : V → V → Bool) (cfg : List (Indexer Id Res L)) (s : State Id K V O)
    (R : Indexer Id Res L → O → RefSt K V) : Prop :=
  ∀ c ∈ cfg, ∀ o, s.mem o c.id = (R c o).excl ∧
    ∀ k, Rel veq ((s.ixs c.id).val k o) (lastval k (R c o).contrib)

theorem mirror_gen (veq : V → V → Bool) (cfg : List (Indexer Id Res L)) (bk : Nat)
    (hnd : (cfg.map (·.id)).Nodup) (evs : List (Event Id Res L K V O)) :
    ∀ (s : State Id K V O) (R : Indexer Id Res L → O → RefSt K V), s.InvAll → Link veq cfg s R →
      ∃ s', run veq cfg bk s evs = some s' ∧ s'.InvAll ∧
        Link veq cfg s' (fun c o => refRun cfg bk c o (R c o) evs) := by
  induction evs with
  | nil => intro s R hi hl; exact ⟨s, rfl, hi, hl⟩
  | cons e es ih =>
    intro s R hi hl
    obtain ⟨s1, h1, h2, h3, h4, h5⟩ := step_spec veq cfg bk hnd s e hi
    have hl1 : Link veq cfg s1 (fun c o => refStep cfg bk c o (R c o) e) := by
      intro c hc o
      by_cases ho : o = e.obj
      · subst ho
        obtain ⟨hm, hv⟩ := hl c hc e.obj
        obtain ⟨a, b⟩ := link_obj cfg bk s e c (R c e.obj) hm
        refine ⟨by rw [h4 c hc]; exact a, ?_⟩
        intro k
        rw [h3 c hc k e.obj]
        exact rel_of_agrees veq _ _ _ e.obj _ b hv k
      · obtain ⟨hm, hv⟩ := hl c hc o
        simp only [refStep_other cfg bk c o (R c o) e ho]
        refine ⟨by rw [h5 o ho]; exact hm, ?_⟩
        intro k
        rw [h3 c hc k o, view_other _ _ _ _ _ _ ho]
        exact hv k
    obtain ⟨s', g1, g2, g3⟩ := ih s1 _ h2 hl1
    exact ⟨s', by simp [run, h1, g1], g2, g3⟩

omit [DecidableEq Id] [DecidableEq Res] [DecidableEq L] in
theorem link_init (veq : V → V → Bool) (cfg : List (Indexer Id Res L)) :
    Link veq cfg (State.init : State Id K V O) (fun _ _ => RefSt.init) := by
  intro c _ o
  refine ⟨rfl, ?_⟩
  intro k
  simp [State.init, Index.val, Index.empty, RefSt.init, lastval, Rel]

/-- the per-index effect of one step, extracted from `step_spec` -/
theorem view_of_step (veq : V → V → Bool) (cfg : List (Indexer Id Res L)) (bk : Nat)
    (hnd : (cfg.map (·.id)).Nodup)
    (s s' : State Id K V O) (e : Event Id Res L K V O) (hi : s.InvAll)
    (hs : step veq cfg bk s e = some s') (c : Indexer Id Res L) (hc : c ∈ cfg) (k : Option K) (o : O) :
    (s'.ixs c.id).val k o = (actOf cfg bk s e c).view veq e.obj (s.ixs c.id).val k o := by
  obtain ⟨s1, h1, _, h3, _, _⟩ := step_spec veq cfg bk hnd s e hi
  rw [hs] at h1; cases h1
  exact h3 c hc k o

end Link
end Kopf.C17
