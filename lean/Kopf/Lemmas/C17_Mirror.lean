/-
  C17 helper lemmas, part 4: one event seen by the mechanism (`actOf`/`memOf`) and by the
  reference rules (`refStep`) agree; the link invariant between indices and the reference.
-/
import Kopf.Lemmas.C17_Step
namespace Kopf.C17

section Link
variable {Id Res L K V O : Type} [DecidableEq Id] [DecidableEq Res] [DecidableEq L]
  [DecidableEq K] [DecidableEq O]

/-- mechanism's action vs. the reference's new contribution -/
def Act.agrees (a : Act K V) (r r' : RefSt K V) : Prop :=
  match a with
  | .keep => r'.contrib = r.contrib
  | .discard => r'.contrib = []
  | .replace m => r'.contrib = m

/-- The event's own object: the memory after the mechanism's step is the reference's exclusion
    record, and the mechanism's action on the index is the rule the reference applies. -/
theorem link_obj (cfg : List (Indexer Id Res L)) (bk : Nat) (s : State Id K V O)
    (e : Event Id Res L K V O) (c : Indexer Id Res L) (r : RefSt K V)
    (hm : s.mem e.obj c.id = r.excl) :
    memOf cfg bk s e c = (refStep cfg bk c e.obj r e).excl ∧
    (actOf cfg bk s e c).agrees r (refStep cfg bk c e.obj r e) := by
  have hh0 : hOf s e c = HState.ofOpt e.t r.excl := by
    simp [hOf, hstateOf, hm]
  unfold memOf actOf refStep invoked
  rw [hh0]
  simp only [ne_eq, not_true_eq_false, if_false]
  by_cases hh : cfg.any (fun c' => decide (c'.res = e.res)) = true
  · by_cases hd : e.deleted = true
    · simp [hh, hd, Act.agrees]
    · have hd' : e.deleted = false := by simpa using hd
      by_cases hsel : c.selects e = true
      · generalize HState.ofOpt e.t r.excl = h
        by_cases haw : h.awake e.t = true
        · simp only [hh, hd', hsel, haw, Bool.not_true, Bool.false_eq_true, if_false, Bool.and_self, if_true]
          -- the call happens (or the budget is used up): outcome table vs. rule table
          unfold execOne HState.next rule
          cases hex : c.exhausted h e.t with
          | true => simp [Act.agrees]
          | false =>
            simp only [Bool.false_eq_true, if_false]
            cases hsc : e.script c.id with
            | dict m => simp [Act.agrees]
            | scalar v => simp [Act.agrees]
            | none => simp [Act.agrees]
            | permErr => simp [Act.agrees]
            | tempErr d =>
              cases hla : c.lookahead h e.t (d.getD 0) <;>
                simp [hla, Act.agrees]
            | otherErr =>
              cases hmode : c.errors with
              | none => simp [Act.agrees]
              | some md =>
                cases md with
                | ignored => simp [Act.agrees]
                | permanent => simp [Act.agrees]
                | temporary =>
                  cases hla : c.lookahead h e.t (c.backoffOr bk) <;>
                    simp [hla, Act.agrees]
        · have haw' : h.awake e.t = false := by simpa using haw
          simp [hh, hd', hsel, haw', Act.agrees]
      · have hsel' : c.selects e = false := by simpa using hsel
        simp [hh, hd', hsel', Act.agrees, hm]
  · have hh' : cfg.any (fun c' => decide (c'.res = e.res)) = false := by simpa using hh
    by_cases hd : e.deleted = true
    · simp [hh', hd, Act.agrees]
    · simp [hh', hd, Act.agrees, hm]

/-- Other objects: the rules leave them alone. -/
theorem refStep_other (cfg : List (Indexer Id Res L)) (bk : Nat) (c : Indexer Id Res L) (o : O)
    (r : RefSt K V) (e : Event Id Res L K V O) (h : o ≠ e.obj) : refStep cfg bk c o r e = r := by
  unfold refStep
  simp [Ne.symm h]

theorem view_other (a : Act K V) (obj : O) (old : Option K → O → Option V)
    (k : Option K) (o : O) (h : o ≠ obj) : a.view obj old k o = old k o := by
  cases a <;> simp [Act.view, h]

/-- from agreement in kind to the values -/
theorem val_of_agrees (a : Act K V) (r r' : RefSt K V) (obj : O)
    (old : Option K → O → Option V) (ha : a.agrees r r')
    (hv : ∀ k, old k obj = lastval k r.contrib) (k : Option K) :
    a.view obj old k obj = lastval k r'.contrib := by
  cases a with
  | keep => simp only [Act.agrees] at ha; rw [ha]; simpa [Act.view] using hv k
  | discard => simp only [Act.agrees] at ha; rw [ha]; simp [Act.view, lastval]
  | replace m => simp only [Act.agrees] at ha; rw [ha]; simp [Act.view]

/-- the index/reference link maintained by every step -/
def Link (cfg : List (Indexer Id Res L)) (s : State Id K V O)
    (R : Indexer Id Res L → O → RefSt K V) : Prop :=
  ∀ c ∈ cfg, ∀ o, s.mem o c.id = (R c o).excl ∧
    ∀ k, (s.ixs c.id).val k o = lastval k (R c o).contrib

theorem mirror_gen (cfg : List (Indexer Id Res L)) (bk : Nat)
    (hnd : (cfg.map (·.id)).Nodup) (evs : List (Event Id Res L K V O)) :
    ∀ (s : State Id K V O) (R : Indexer Id Res L → O → RefSt K V), s.InvAll → Link cfg s R →
      ∃ s', run cfg bk s evs = some s' ∧ s'.InvAll ∧
        Link cfg s' (fun c o => refRun cfg bk c o (R c o) evs) := by
  induction evs with
  | nil => intro s R hi hl; exact ⟨s, rfl, hi, hl⟩
  | cons e es ih =>
    intro s R hi hl
    obtain ⟨s1, h1, h2, h3, h4, h5⟩ := step_spec cfg bk hnd s e hi
    have hl1 : Link cfg s1 (fun c o => refStep cfg bk c o (R c o) e) := by
      intro c hc o
      by_cases ho : o = e.obj
      · subst ho
        obtain ⟨hm, hv⟩ := hl c hc e.obj
        obtain ⟨a, b⟩ := link_obj cfg bk s e c (R c e.obj) hm
        refine ⟨by rw [h4 c hc]; exact a, ?_⟩
        intro k
        rw [h3 c hc k e.obj]
        exact val_of_agrees _ _ _ e.obj _ b hv k
      · obtain ⟨hm, hv⟩ := hl c hc o
        simp only [refStep_other cfg bk c o (R c o) e ho]
        refine ⟨by rw [h5 o ho]; exact hm, ?_⟩
        intro k
        rw [h3 c hc k o, view_other _ _ _ _ _ ho]
        exact hv k
    obtain ⟨s', g1, g2, g3⟩ := ih s1 _ h2 hl1
    exact ⟨s', by simp [run, h1, g1], g2, g3⟩

omit [DecidableEq Id] [DecidableEq Res] [DecidableEq L] in
theorem link_init (cfg : List (Indexer Id Res L)) :
    Link cfg (State.init : State Id K V O) (fun _ _ => RefSt.init) := by
  intro c _ o
  refine ⟨rfl, ?_⟩
  intro k
  simp [State.init, Index.val, Index.empty, RefSt.init, lastval]

/-- the per-index effect of one step, extracted from `step_spec` -/
theorem view_of_step (cfg : List (Indexer Id Res L)) (bk : Nat)
    (hnd : (cfg.map (·.id)).Nodup)
    (s s' : State Id K V O) (e : Event Id Res L K V O) (hi : s.InvAll)
    (hs : step cfg bk s e = some s') (c : Indexer Id Res L) (hc : c ∈ cfg) (k : Option K) (o : O) :
    (s'.ixs c.id).val k o = (actOf cfg bk s e c).view e.obj (s.ixs c.id).val k o := by
  obtain ⟨s1, h1, _, h3, _, _⟩ := step_spec cfg bk hnd s e hi
  rw [hs] at h1; cases h1
  exact h3 c hc k o

end Link
end Kopf.C17
