/-
  C17 helper lemmas, part 4: one event seen by the mechanism (`actOf`/`memOf`) and by the
  reference rules (`refStep`) agree.
-/
import Kopf.Lemmas.C17_Step
namespace Kopf.C17

section Link
variable {Id Res L K V O : Type} [DecidableEq Id] [DecidableEq Res] [DecidableEq L]
  [DecidableEq K] [DecidableEq O]

theorem lastval_single {κ ν : Type} [DecidableEq κ] (k k' : κ) (v : ν) :
    lastval k [(k', v)] = if k' = k then some v else none := by
  simp [lastval]

/-- The event's own object: memory and view after the mechanism's step are what the rules say. -/
theorem link_obj (cfg : List (Indexer Id Res L)) (bk : Nat) (s : State Id K V O)
    (e : Event Id Res L K V O) (c : Indexer Id Res L) (r : RefSt K V)
    (old : Option K → O → Option V)
    (hm : s.mem e.obj c.id = r.excl) (hv : ∀ k, old k e.obj = lastval k r.contrib) :
    memOf cfg bk s e c = (refStep cfg bk c e.obj r e).excl ∧
    ∀ k, (actOf cfg bk s e c).view e.obj old k e.obj = lastval k (refStep cfg bk c e.obj r e).contrib := by
  have hh0 : hOf s e c = HState.ofOpt r.excl := by
    simp [hOf, hstateOf, hm]
  unfold memOf actOf refStep invoked
  rw [hh0]
  simp only [ne_eq, not_true_eq_false, if_false]
  by_cases hh : cfg.any (fun c' => decide (c'.res = e.res)) = true
  · by_cases hd : e.deleted = true
    · simp [hh, hd, Act.view, lastval]
    · have hd' : e.deleted = false := by simpa using hd
      by_cases hsel : c.selects e = true
      · generalize HState.ofOpt r.excl = h
        by_cases haw : h.awake e.t = true
        · simp only [hh, hd', hsel, haw, Bool.not_true, Bool.false_eq_true, if_false, Bool.and_self, if_true]
          -- the call happens: outcome table vs. rule table
          unfold execOne HState.next rule
          cases hr : c.retries with
          | none =>
            cases hsc : e.script c.id with
            | dict m => simp [Act.view]
            | scalar v => simp [Act.view]
            | none => simp [Act.view, hv]
            | permErr => simp [Act.view, lastval]
            | tempErr d => simp [Act.view, lastval]
            | otherErr =>
              cases hmode : c.errors with
              | none => simp [Act.view, hv]
              | some md => cases md <;> simp [Act.view, hv, lastval]
          | some n =>
            by_cases hlim : h.retries ≥ n
            · simp [hlim, Act.view, lastval]
            · have hlim' : ¬ n ≤ h.retries := hlim
              by_cases hla : h.retries + 1 ≥ n
              · cases hsc : e.script c.id with
                | dict m => simp [hlim', Act.view]
                | scalar v => simp [hlim', Act.view]
                | none => simp [hlim', Act.view, hv]
                | permErr => simp [hlim', Act.view, lastval]
                | tempErr d => simp [hlim', hla, Act.view, lastval]
                | otherErr =>
                  cases hmode : c.errors with
                  | none => simp [hlim', Act.view, hv]
                  | some md => cases md <;> simp [hlim', hla, Act.view, hv, lastval]
              · have hla' : ¬ n ≤ h.retries + 1 := hla
                cases hsc : e.script c.id with
                | dict m => simp [hlim', Act.view]
                | scalar v => simp [hlim', Act.view]
                | none => simp [hlim', Act.view, hv]
                | permErr => simp [hlim', Act.view, lastval]
                | tempErr d => simp [hlim', hla', Act.view, lastval]
                | otherErr =>
                  cases hmode : c.errors with
                  | none => simp [hlim', Act.view, hv]
                  | some md => cases md <;> simp [hlim', hla', Act.view, hv, lastval]
        · have haw' : h.awake e.t = false := by simpa using haw
          simp [hh, hd', hsel, haw', Act.view, lastval]
      · have hsel' : c.selects e = false := by simpa using hsel
        simp [hh, hd', hsel', Act.view, lastval, hm]
  · have hh' : cfg.any (fun c' => decide (c'.res = e.res)) = false := by simpa using hh
    by_cases hd : e.deleted = true
    · simp [hh', hd, Act.view, hv]
    · simp [hh', hd, Act.view, hv, hm]

/-- Other objects: the rules leave them alone. -/
theorem refStep_other (cfg : List (Indexer Id Res L)) (bk : Nat) (c : Indexer Id Res L) (o : O)
    (r : RefSt K V) (e : Event Id Res L K V O) (h : o ≠ e.obj) : refStep cfg bk c o r e = r := by
  unfold refStep
  simp [Ne.symm h]

theorem view_other (a : Act K V) (obj : O) (old : Option K → O → Option V) (k : Option K) (o : O)
    (h : o ≠ obj) : a.view obj old k o = old k o := by
  cases a <;> simp [Act.view, h]

end Link
end Kopf.C17
