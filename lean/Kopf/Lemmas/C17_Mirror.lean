/-
  C17 helper lemmas, part 4: one event seen by the mechanism (`actOf`/`memOf`) and by the
  reference rules (`refStep`) agree; the link invariant between indices and the reference.
-/
import Kopf.Lemmas.C17_Step
namespace Kopf.C17

section Link
variable {Id Res L K V O : Type} [DecidableEq Id] [DecidableEq Res] [DecidableEq L]
  [DecidableEq K] [DecidableEq O]

/-- mechanism's action vs. the reference's new contribution (and its history of results) -/
def Act.agrees (a : Act K V) (r r' : RefSt K V) : Prop :=
  match a with
  | .keep => r'.contrib = r.contrib ∧ r'.hist = r.hist
  | .discard => r'.contrib = [] ∧ r'.hist = r.hist
  | .replace m => r'.contrib = m ∧ r'.hist = m :: r.hist

/-- The event's own object: the memory after the mechanism's step is the reference's exclusion
    record, and the mechanism's action on the index is the rule the reference applies. -/
theorem link_obj (cfg : List (Indexer Id Res L)) (bk : Nat) (s : State Id K V O)
    (e : Event Id Res L K V O) (c : Indexer Id Res L) (r : RefSt K V)
    (hm : s.mem e.obj c.id = r.excl) :
    memOf cfg bk s e c = (refStep cfg bk c e.obj r e).excl ∧
    (actOf cfg bk s e c).agrees r (refStep cfg bk c e.obj r e) := by
  have hh0 : hOf s e c = HState.ofOpt e.t r.excl := by
    simp [hOf, hstateOf, hm]
  unfold memOf actOf refStep invoked
  rw [hh0]
  simp only [ne_eq, not_true_eq_false, if_false]
  by_cases hh : cfg.any (fun c' => decide (c'.res = e.res)) = true
  · by_cases hd : e.deleted = true
    · simp [hh, hd, Act.agrees]
    · have hd' : e.deleted = false := by simpa using hd
      by_cases hsel : c.selects e = true
      · generalize HState.ofOpt e.t r.excl = h
        by_cases haw : h.awake e.t = true
        · simp only [hh, hd', hsel, haw, Bool.not_true, Bool.false_eq_true, if_false, Bool.and_self, if_true]
          -- the call happens (or the budget is used up): outcome table vs. rule table
          unfold execOne HState.next rule
          cases hex : c.exhausted h e.t with
          | true => simp [Act.agrees]
          | false =>
            simp only [Bool.false_eq_true, if_false]
            cases hsc : e.script c.id with
            | dict m => simp [Act.agrees]
            | scalar v => simp [Act.agrees]
            | none => simp [Act.agrees]
            | permErr => simp [Act.agrees]
            | tempErr d =>
              cases hla : c.lookahead h e.t (d.getD 0) <;>
                simp [hla, Act.agrees]
            | otherErr =>
              cases hmode : c.errors with
              | none => simp [Act.agrees]
              | some md =>
                cases md with
                | ignored => simp [Act.agrees]
                | permanent => simp [Act.agrees]
                | temporary =>
                  cases hla : c.lookahead h e.t (c.backoffOr bk) <;>
                    simp [hla, Act.agrees]
        · have haw' : h.awake e.t = false := by simpa using haw
          simp [hh, hd', hsel, haw', Act.agrees]
      · have hsel' : c.selects e = false := by simpa using hsel
        simp [hh, hd', hsel', Act.agrees, hm]
  · have hh' : cfg.any (fun c' => decide (c'.res = e.res)) = false := by simpa using hh
    by_cases hd : e.deleted = true
    · simp [hh', hd, Act.agrees]
    · simp [hh', hd, Act.agrees, hm]

/-- Other objects: the rules leave them alone. -/
theorem refStep_other (cfg : List (Indexer Id Res L)) (bk : Nat) (c : Indexer Id Res L) (o : O)
    (r : RefSt K V) (e : Event Id Res L K V O) (h : o ≠ e.obj) : refStep cfg bk c o r e = r := by
  unfold refStep
  simp [Ne.symm h]

theorem view_other (veq : V → V → Bool) (a : Act K V) (obj : O) (old : Option K → O → Option V)
    (k : Option K) (o : O) (h : o ≠ obj) : a.view veq obj old k o = old k o := by
  cases a <;> simp [Act.view, h]

omit [DecidableEq K] [DecidableEq O] in
theorem Rel.refl (veq : V → V → Bool) (x : Option V) : Rel veq x x := by
  cases x <;> simp [Rel]

omit [DecidableEq K] [DecidableEq O] in
/-- with an equality test that only identifies identical values the relation is equality -/
theorem Rel.eq_of_lawful {veq : V → V → Bool} (hveq : ∀ a b, veq a b = true → a = b)
    {x y : Option V} (h : Rel veq x y) : x = y := by
  cases x <;> cases y <;> simp [Rel] at h ⊢
  rcases h with h | h
  · exact h
  · exact hveq _ _ h

theorem foldVal_rel {κ : Type} [DecidableEq κ] (veq : V → V → Bool) (k : κ) (m : List (κ × V)) :
    ∀ cur : Option V, k ∈ m.map Prod.fst → Rel veq (foldVal veq k m cur) (lastval k m) := by
  induction m with
  | nil => intro cur h; simp at h
  | cons p r ih =>
    obtain ⟨k', v⟩ := p
    intro cur h
    simp only [foldVal, lastval]
    by_cases hkr : k ∈ r.map Prod.fst
    · have := ih (if k' = k then some (keepOld veq cur v) else cur) hkr
      have hs := (lastval_isSome k r).2 hkr
      cases hl : lastval k r with
      | none => simp [hl] at hs
      | some x => simpa [hl] using this
    · have hk : k' = k := by
        simp only [List.map_cons, List.mem_cons] at h
        rcases h with h | h
        · exact h.symm
        · exact absurd h hkr
      rw [foldVal_not_mem veq k r _ hkr, lastval_none_of_not_mem k r hkr]
      simp only [hk, if_true]
      unfold keepOld
      cases cur with
      | none => simp [Rel]
      | some v' =>
        by_cases hv : veq v' v = true
        · simp [hv, Rel]
        · simp [hv, Rel]

/-- where a merged value comes from: it was stored before, or it is a value of `m` under `k` -/
theorem foldVal_origin {κ : Type} [DecidableEq κ] (veq : V → V → Bool) (k : κ) (m : List (κ × V)) :
    ∀ (cur : Option V) (v' : V), foldVal veq k m cur = some v' → cur = some v' ∨ (k, v') ∈ m := by
  induction m with
  | nil => intro cur v' h; exact Or.inl h
  | cons p r ih =>
    obtain ⟨k', v⟩ := p
    intro cur v' h
    simp only [foldVal] at h
    rcases ih _ v' h with h1 | h1
    · by_cases hk : k' = k
      · simp only [hk, if_true, Option.some.injEq] at h1
        unfold keepOld at h1
        cases cur with
        | none => simp at h1; subst h1; subst hk; exact Or.inr (by simp)
        | some c =>
          by_cases hv : veq c v = true
          · simp [hv] at h1; subst h1; exact Or.inl rfl
          · simp [hv] at h1; subst h1; subst hk; exact Or.inr (by simp)
      · simp only [hk, if_false] at h1; exact Or.inl h1
    · exact Or.inr (by simp [h1])

theorem lastval_mem {κ ν : Type} [DecidableEq κ] (k : κ) (m : List (κ × ν)) (v : ν)
    (h : lastval k m = some v) : (k, v) ∈ m := by
  induction m with
  | nil => simp [lastval] at h
  | cons p r ih =>
    obtain ⟨k', v0⟩ := p
    simp only [lastval] at h
    cases hl : lastval k r with
    | some x => simp only [hl, Option.some.injEq] at h; subst h; simp [ih hl]
    | none =>
      simp only [hl] at h
      by_cases hk : k' = k
      · simp only [hk, if_true, Option.some.injEq] at h; subst h; subst hk; simp
      · simp [hk] at h

omit [DecidableEq O] in
theorem RelH.mono {veq : V → V → Bool} {hist hist' : List (List (Option K × V))} {k : Option K}
    {x y : Option V} (hsub : ∀ m, m ∈ hist → m ∈ hist') (h : RelH veq hist k x y) : RelH veq hist' k x y := by
  cases x <;> cases y <;> simp only [RelH] at h ⊢
  rcases h with h | ⟨h1, m, hm, hk⟩
  · exact Or.inl h
  · exact Or.inr ⟨h1, m, hsub m hm, hk⟩

omit [DecidableEq O] in
theorem RelH.toRel {veq : V → V → Bool} {hist : List (List (Option K × V))} {k : Option K}
    {x y : Option V} (h : RelH veq hist k x y) : Rel veq x y := by
  cases x <;> cases y <;> simp only [RelH, Rel] at h ⊢
  rcases h with h | ⟨h1, _⟩
  · exact Or.inl h
  · exact Or.inr h1

/-- from agreement in kind to the value relation with provenance -/
theorem relH_of_agrees (veq : V → V → Bool) (a : Act K V) (r r' : RefSt K V) (obj : O)
    (old : Option K → O → Option V) (ha : a.agrees r r')
    (hin : r.contrib = [] ∨ r.contrib ∈ r.hist)
    (hv : ∀ k, RelH veq r.hist k (old k obj) (lastval k r.contrib)) (k : Option K) :
    RelH veq r'.hist k (a.view veq obj old k obj) (lastval k r'.contrib) := by
  cases a with
  | keep =>
    simp only [Act.agrees] at ha
    rw [ha.1, ha.2]; simpa [Act.view] using hv k
  | discard =>
    simp only [Act.agrees] at ha
    rw [ha.1]; simp [Act.view, lastval, RelH]
  | replace m =>
    simp only [Act.agrees] at ha
    rw [ha.1, ha.2]
    simp only [Act.view, if_true]
    by_cases hk : k ∈ m.map Prod.fst
    · simp only [hk, if_true]
      have hrel := foldVal_rel veq k m (old k obj) hk
      cases hf : foldVal veq k m (old k obj) with
      | none =>
        rw [hf] at hrel
        cases hl : lastval k m <;> simp [hl, Rel] at hrel ⊢
        simp [RelH]
      | some v' =>
        rw [hf] at hrel
        cases hl : lastval k m with
        | none => simp [hl, Rel] at hrel
        | some v =>
          simp only [hl, Rel] at hrel
          simp only [RelH]
          rcases hrel with h1 | h1
          · exact Or.inl h1
          · refine Or.inr ⟨h1, ?_⟩
            rcases foldVal_origin veq k m _ v' hf with h2 | h2
            · -- the value was stored before: by the link it is the old latest or an older result
              have hold := hv k
              rw [h2] at hold
              cases hlo : lastval k r.contrib with
              | none => simp [hlo, RelH] at hold
              | some vo =>
                simp only [hlo, RelH] at hold
                rcases hold with h3 | ⟨_, m', hm', hk'⟩
                · subst h3
                  have hmem := lastval_mem k r.contrib v' hlo
                  rcases hin with h4 | h4
                  · rw [h4] at hmem; simp at hmem
                  · exact ⟨r.contrib, by simp [h4], hmem⟩
                · exact ⟨m', by simp [hm'], hk'⟩
            · exact ⟨m, by simp, h2⟩
    · rw [lastval_none_of_not_mem k m hk]
      simp [hk, RelH]

/-- the latest contribution is one of the recorded results -/
theorem contrib_in_hist_of_agrees (a : Act K V) (r r' : RefSt K V) (ha : a.agrees r r')
    (hin : r.contrib = [] ∨ r.contrib ∈ r.hist) : r'.contrib = [] ∨ r'.contrib ∈ r'.hist := by
  cases a with
  | keep => simp only [Act.agrees] at ha; rw [ha.1, ha.2]; exact hin
  | discard => simp only [Act.agrees] at ha; exact Or.inl ha.1
  | replace m => simp only [Act.agrees] at ha; rw [ha.1, ha.2]; exact Or.inr (by simp)

/-- the index/reference link maintained by every step -/
def Link (veq : V → V → Bool) (cfg : List (Indexer Id Res L)) (s : State Id K V O)
    (R : Indexer Id Res L → O → RefSt K V) : Prop :=
  ∀ c ∈ cfg, ∀ o, s.mem o c.id = (R c o).excl ∧
    ((R c o).contrib = [] ∨ (R c o).contrib ∈ (R c o).hist) ∧
    ∀ k, RelH veq (R c o).hist k ((s.ixs c.id).val k o) (lastval k (R c o).contrib)

theorem mirror_gen (veq : V → V → Bool) (cfg : List (Indexer Id Res L)) (bk : Nat)
    (hnd : (cfg.map (·.id)).Nodup) (evs : List (Event Id Res L K V O)) :
    ∀ (s : State Id K V O) (R : Indexer Id Res L → O → RefSt K V), s.InvAll → Link veq cfg s R →
      ∃ s', run veq cfg bk s evs = some s' ∧ s'.InvAll ∧
        Link veq cfg s' (fun c o => refRun cfg bk c o (R c o) evs) := by
  induction evs with
  | nil => intro s R hi hl; exact ⟨s, rfl, hi, hl⟩
  | cons e es ih =>
    intro s R hi hl
    obtain ⟨s1, h1, h2, h3, h4, h5⟩ := step_spec veq cfg bk hnd s e hi
    have hl1 : Link veq cfg s1 (fun c o => refStep cfg bk c o (R c o) e) := by
      intro c hc o
      by_cases ho : o = e.obj
      · subst ho
        obtain ⟨hm, hin, hv⟩ := hl c hc e.obj
        obtain ⟨a, b⟩ := link_obj cfg bk s e c (R c e.obj) hm
        refine ⟨by rw [h4 c hc]; exact a, contrib_in_hist_of_agrees _ _ _ b hin, ?_⟩
        intro k
        rw [h3 c hc k e.obj]
        exact relH_of_agrees veq _ _ _ e.obj _ b hin hv k
      · obtain ⟨hm, hin, hv⟩ := hl c hc o
        simp only [refStep_other cfg bk c o (R c o) e ho]
        refine ⟨by rw [h5 o ho]; exact hm, hin, ?_⟩
        intro k
        rw [h3 c hc k o, view_other _ _ _ _ _ _ ho]
        exact hv k
    obtain ⟨s', g1, g2, g3⟩ := ih s1 _ h2 hl1
    exact ⟨s', by simp [run, h1, g1], g2, g3⟩

omit [DecidableEq Id] [DecidableEq Res] [DecidableEq L] in
theorem link_init (veq : V → V → Bool) (cfg : List (Indexer Id Res L)) :
    Link veq cfg (State.init : State Id K V O) (fun _ _ => RefSt.init) := by
  intro c _ o
  refine ⟨rfl, Or.inl rfl, ?_⟩
  intro k
  simp [State.init, Index.val, Index.empty, RefSt.init, lastval, RelH]

omit [DecidableEq O] in
/-- exact equality from the provenance relation when the history has no `==`-twins -/
theorem RelH.eq_of_noTwins {veq : V → V → Bool} {hist : List (List (Option K × V))} {k : Option K}
    {contrib : List (Option K × V)} {x : Option V}
    (hin : contrib = [] ∨ contrib ∈ hist) (hnt : NoTwins veq hist)
    (h : RelH veq hist k x (lastval k contrib)) : x = lastval k contrib := by
  cases hx : x with
  | none => rw [hx] at h; cases hl : lastval k contrib <;> simp [hl, RelH] at h ⊢
  | some v' =>
    rw [hx] at h
    cases hl : lastval k contrib with
    | none => simp [hl, RelH] at h
    | some v =>
      simp only [hl, RelH] at h
      rcases h with h | ⟨hv, m, hm, hk⟩
      · rw [h]
      · have hmem := lastval_mem k contrib v hl
        rcases hin with h0 | h0
        · rw [h0] at hmem; simp at hmem
        · rw [hnt m hm contrib h0 k v' v hk hmem hv]

/-- the per-index effect of one step, extracted from `step_spec` -/
theorem view_of_step (veq : V → V → Bool) (cfg : List (Indexer Id Res L)) (bk : Nat)
    (hnd : (cfg.map (·.id)).Nodup)
    (s s' : State Id K V O) (e : Event Id Res L K V O) (hi : s.InvAll)
    (hs : step veq cfg bk s e = some s') (c : Indexer Id Res L) (hc : c ∈ cfg) (k : Option K) (o : O) :
    (s'.ixs c.id).val k o = (actOf cfg bk s e c).view veq e.obj (s.ixs c.id).val k o := by
  obtain ⟨s1, h1, _, h3, _, _⟩ := step_spec veq cfg bk hnd s e hi
  rw [hs] at h1; cases h1
  exact h3 c hc k o

end Link
end Kopf.C17
