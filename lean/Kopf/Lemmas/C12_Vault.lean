/-
  Helper lemmas for the C12 vault LTS: assoc-list facts, step inversion, `accept` facts, and the
  one-step invariants that the property theorems lift to every label list. Core Lean only.
-/
import Kopf.Model.C12_Vault
namespace Kopf.C12.V

/-! ### assoc list -/

@[simp] theorem lookup_nil (k : Key) : lookup k [] = none := rfl

theorem lookup_erase (k k' : Key) (c : Cur) :
    lookup k' (erase k c) = if k' = k then none else lookup k' c := by
  induction c with
  | nil => simp [erase]
  | cons p rest ih =>
    obtain ⟨k0, v⟩ := p
    by_cases h0 : k0 = k
    · subst h0
      simp only [erase, if_true, ih, lookup]
      by_cases h : k' = k0
      · simp [h]
      · have : ¬ k0 = k' := fun e => h e.symm
        simp [h, this]
    · simp only [erase, h0, if_false, lookup, ih]
      by_cases h : k' = k
      · subst h; simp [h0]
      · simp [h]

theorem lookup_set (k k' : Key) (v : Item) (c : Cur) :
    lookup k' (set k v c) = if k' = k then some v else lookup k' c := by
  unfold set
  by_cases h : k' = k
  · subst h; simp [lookup]
  · have : ¬ k = k' := fun e => h e.symm
    simp [lookup, this, lookup_erase, h]

theorem lookup_of_isEmpty (c : Cur) (h : c.isEmpty = true) (k : Key) : lookup k c = none := by
  cases c with
  | nil => rfl
  | cons a b => simp at h

/-! ### running -/

/-- lifting a one-step invariant along any label list -/
theorem inv_run (P : St → Prop) (hstep : ∀ s l s', P s → step s l = some s' → P s') :
    ∀ ls s s', P s → run s ls = some s' → P s' := by
  intro ls
  induction ls with
  | nil => intro s s' hp hr; simp [run] at hr; subst hr; exact hp
  | cons l ls ih =>
    intro s s' hp hr
    simp only [run] at hr
    cases hs : step s l with
    | none => simp [hs] at hr
    | some s1 => simp [hs] at hr; exact ih s1 s' (hstep s l s1 hp hs) hr

theorem inv_reach (P : St → Prop) (h0 : ∀ src, P (init src))
    (hstep : ∀ s l s', P s → step s l = some s' → P s') : ∀ s, Reach s → P s := by
  intro s ⟨src, ls, hrun⟩
  exact inv_run P hstep ls _ _ (h0 src) hrun

theorem run_snoc (s : St) (ls : List Label) (l : Label) :
    run s (ls ++ [l]) = (run s ls).bind (fun s' => step s' l) := by
  induction ls generalizing s with
  | nil => simp only [List.nil_append, run]; cases h : step s l <;> simp [Option.bind, h]
  | cons a rest ih =>
    simp only [List.cons_append, run]
    cases step s a with
    | none => rfl
    | some s' => exact ih s'

theorem reach_step (s s' : St) (l : Label) (h : Reach s) (hs : step s l = some s') : Reach s' := by
  obtain ⟨src, ls, hr⟩ := h
  exact ⟨src, ls ++ [l], by rw [run_snoc, hr]; exact hs⟩

theorem reach_run (s s' : St) (ls : List Label) (h : Reach s) (hs : run s ls = some s') : Reach s' := by
  induction ls generalizing s with
  | nil => simp [run] at hs; subst hs; exact h
  | cons l ls ih =>
    simp only [run] at hs
    cases h1 : step s l with
    | none => simp [h1] at hs
    | some s1 => simp [h1] at hs; exact ih s1 (reach_step s s1 l h h1) hs

/-! ### flags and episode counters -/

/-- control-flow invariant of the flags and the ghost counters -/
def InvFlags (s : St) : Prop :=
  (s.auth = .running → s.ready = false) ∧
  (s.ready = false → s.cur = []) ∧
  (s.episodes + (if s.ready = false ∧ s.auth = .idle then 1 else 0) = s.flips) ∧
  (s.flips ≤ s.removed.length + s.emptyHits)

theorem invFlags_invalHit (s : St) (r : Nat) (k : Key) (it c : Item) (h : InvFlags s) (hc : lookup k s.cur = some c) :
    InvFlags (invalHit s r k it c) := by
  obtain ⟨h1, h2, h3, h4⟩ := h
  have hr : s.ready = true := by
    cases hrd : s.ready with
    | true => rfl
    | false => rw [h2 hrd] at hc; simp at hc
  have ha : s.auth = .idle := by
    cases hau : s.auth with
    | idle => rfl
    | running => rw [h1 hau] at hr; cases hr
  unfold invalHit
  split
  · rename_i he
    refine ⟨fun _ => rfl, fun _ => ?_, ?_, ?_⟩
    · cases hcur : erase k s.cur with
      | nil => rfl
      | cons a b => rw [hcur] at he; simp at he
    · simp [hr, ha] at h3 ⊢; omega
    · simp [hr] at h4 ⊢; omega
  · refine ⟨h1, fun hf => ?_, h3, ?_⟩
    · simp only at hf; rw [hr] at hf; cases hf
    · simp at h4 ⊢; omega

theorem invFlags_invalMiss (s : St) (r : Nat) (k : Key) (it : Item) (h : InvFlags s) :
    InvFlags (invalMiss s r k it) := by
  obtain ⟨h1, h2, h3, h4⟩ := h
  unfold invalMiss
  split
  · rename_i he
    have hcur : s.cur = [] := by
      cases hc : s.cur with
      | nil => rfl
      | cons a b => rw [hc] at he; simp at he
    refine ⟨fun _ => rfl, fun _ => hcur, ?_, ?_⟩
    · cases hr : s.ready with
      | false => simp [hr] at h3 ⊢; exact h3
      | true =>
        have ha : s.auth = .idle := by
          cases hau : s.auth with
          | idle => rfl
          | running => rw [h1 hau] at hr; cases hr
        simp [hr, ha] at h3 ⊢; omega
    · cases hr : s.ready <;> simp [hr] at h4 ⊢ <;> omega
  · exact ⟨h1, h2, h3, h4⟩

theorem invFlags_step (s : St) (l : Label) (s' : St) (h : InvFlags s) (hs : step s l = some s') :
    InvFlags s' := by
  have h' := h
  obtain ⟨h1, h2, h3, h4⟩ := h
  cases l <;> simp only [step] at hs <;> (repeat' split at hs) <;> simp at hs <;> subst hs
  all_goals first | exact ⟨h1, h2, h3, h4⟩ | skip
  · rename_i hc _; exact invFlags_invalHit _ _ _ _ _ h' hc
  · exact invFlags_invalMiss _ _ _ _ h'
  · exact invFlags_invalMiss _ _ _ _ h'
  · rename_i ha hr
    refine ⟨fun _ => hr, h2, ?_, h4⟩
    simp [hr, ha] at h3 ⊢; omega
  · rename_i ha
    have hr := h1 ha
    refine ⟨fun hx => by simp [populated] at hx, fun hx => by simp [populated] at hx, ?_, h4⟩
    simp [hr, ha, populated] at h3 ⊢; exact h3

theorem invFlags_init (src : List (Key × Nat × Int)) : InvFlags (init src) := by
  unfold init
  cases hc : (accept (fun _ => []) src [] 0).1 with
  | nil => simp [InvFlags, hc]
  | cons a b => simp [InvFlags, hc]

/-- ready-but-empty hits are paid for by logins that delivered nothing (or the initial emptiness) -/
def InvEmpty (s : St) : Prop :=
  s.emptyHits + (if s.ready = true ∧ s.cur = [] then 1 else 0) ≤ (if s.startedEmpty then 1 else 0) + s.emptyPops

theorem invEmpty_step (s : St) (l : Label) (s' : St) (h : InvEmpty s) (hf : InvFlags s)
    (hs : step s l = some s') : InvEmpty s' := by
  unfold InvEmpty at h ⊢
  cases l <;> simp only [step] at hs <;> (repeat' split at hs) <;> simp at hs <;> subst hs
  all_goals first | exact h | skip
  · -- invalHit: afterwards either not ready or not empty
    rename_i hc _
    have hne : s.cur ≠ [] := by intro e; rw [e] at hc; simp at hc
    unfold invalHit
    split
    · simp only [Bool.false_eq_true, false_and, if_false] at *; simp [hne] at h; simpa using h
    · rename_i k _ _ _ _ _ he
      have : erase k s.cur ≠ [] := by intro e; rw [e] at he; simp at he
      simp only [this, and_false, if_false]; simp [hne] at h; simpa using h
  · unfold invalMiss
    split
    · rename_i he
      have hc : s.cur = [] := by cases hh : s.cur with | nil => rfl | cons a b => rw [hh] at he; simp at he
      cases hr : s.ready <;> simp [hr, hc] at h ⊢ <;> omega
    · exact h
  · unfold invalMiss
    split
    · rename_i he
      have hc : s.cur = [] := by cases hh : s.cur with | nil => rfl | cons a b => rw [hh] at he; simp at he
      cases hr : s.ready <;> simp [hr, hc] at h ⊢ <;> omega
    · exact h
  · -- populate: the authenticator runs, so the vault was not ready
    rename_i src _ ha
    have hr := hf.1 ha
    simp only [populated]
    simp [hr] at h
    cases hc : (accept s.inv src s.cur s.nextId).1 with
    | nil => by_cases hse : s.startedEmpty = true <;> simp [hse] at h ⊢ <;> omega
    | cons a b => by_cases hse : s.startedEmpty = true <;> simp [hse] at h ⊢ <;> omega

theorem invEmpty_init (src : List (Key × Nat × Int)) : InvEmpty (init src) := by
  unfold init InvEmpty
  cases hc : (accept (fun _ => []) src [] 0).1 with
  | nil => simp [hc]
  | cons a b => simp [hc]

/-! ### identities: fresh serials, stale holders, the "impossible state" -/

def holds : Pc → Option (Key × Item)
  | .using k it | .invalidating k it | .invalWaiting k it | .postYield k it => some (k, it)
  | _ => none

/-- program points that are only reached after the held item was seen not to be current -/
def stale : Pc → Option (Key × Item)
  | .invalWaiting k it | .postYield k it => some (k, it)
  | _ => none

/-- ids in `c` are below `n` and no two keys share an id -/
def CurOk (c : Cur) (n : Nat) : Prop :=
  (∀ k it, lookup k c = some it → it.id < n) ∧
  (∀ k k' it it', lookup k c = some it → lookup k' c = some it' → it.id = it'.id → k = k')

theorem curOk_erase (c : Cur) (n : Nat) (k : Key) (h : CurOk c n) : CurOk (erase k c) n := by
  obtain ⟨h1, h2⟩ := h
  refine ⟨fun k' it hl => ?_, fun k1 k2 i1 i2 hl1 hl2 => ?_⟩
  · rw [lookup_erase] at hl; split at hl
    · cases hl
    · exact h1 k' it hl
  · rw [lookup_erase] at hl1 hl2
    split at hl1
    · cases hl1
    · split at hl2
      · cases hl2
      · exact h2 k1 k2 i1 i2 hl1 hl2

theorem curOk_set (c : Cur) (n : Nat) (k : Key) (info : Nat) (prio : Int) (h : CurOk c n) :
    CurOk (set k ⟨n, info, prio⟩ c) (n + 1) := by
  obtain ⟨h1, h2⟩ := h
  refine ⟨fun k' it hl => ?_, fun k1 k2 i1 i2 hl1 hl2 hid => ?_⟩
  · rw [lookup_set] at hl; split at hl
    · cases hl; simp
    · have := h1 k' it hl; omega
  · rw [lookup_set] at hl1 hl2
    by_cases e1 : k1 = k <;> by_cases e2 : k2 = k
    · rw [e1, e2]
    · simp [e1, e2] at hl1 hl2; subst hl1
      have := h1 k2 i2 hl2; simp at hid; omega
    · simp [e1, e2] at hl1 hl2; subst hl2
      have := h1 k1 i1 hl1; simp at hid; omega
    · simp [e1, e2] at hl1 hl2; exact h2 k1 k2 i1 i2 hl1 hl2 hid

/-- what `_update_converted` does to `_current`, by induction on the source dict -/
theorem accept_spec (inv : Key → List Item) (src : List (Key × Nat × Int)) (c : Cur) (n : Nat)
    (h : CurOk c n) :
    CurOk (accept inv src c n).1 (accept inv src c n).2 ∧ n ≤ (accept inv src c n).2 ∧
    (∀ k it, lookup k (accept inv src c n).1 = some it →
      lookup k c = some it ∨
      (n ≤ it.id ∧ (inv k).any (fun j => j.info = it.info && j.prio = it.prio) = false)) := by
  induction src generalizing c n with
  | nil => exact ⟨h, Nat.le_refl _, fun k it hl => Or.inl hl⟩
  | cons p rest ih =>
    obtain ⟨k0, info, prio⟩ := p
    simp only [accept]
    split
    · exact ih c n h
    · rename_i hany
      obtain ⟨a, b, d⟩ := ih (set k0 ⟨n, info, prio⟩ c) (n + 1) (curOk_set c n k0 info prio h)
      refine ⟨a, by omega, fun k it hl => ?_⟩
      rcases d k it hl with hold | ⟨hge, hfresh⟩
      · rw [lookup_set] at hold
        split at hold
        · rename_i hk; cases hold; subst hk
          right; exact ⟨Nat.le_refl _, by simpa using hany⟩
        · exact Or.inl hold
      · right; exact ⟨by omega, hfresh⟩

def InvIds (s : St) : Prop :=
  CurOk s.cur s.nextId ∧
  (∀ r k it, holds (s.reqs r) = some (k, it) → it.id < s.nextId) ∧
  (∀ r k it, stale (s.reqs r) = some (k, it) → isCurrent s.cur k it = false) ∧
  (∀ r, s.reqs r ≠ .done .impossible) ∧
  s.removed.Nodup ∧
  (∀ id ∈ s.removed, id < s.nextId ∧ ∀ k c, lookup k s.cur = some c → c.id ≠ id)

theorem invIds_setPc (s : St) (r : Nat) (pc : Pc) (h : InvIds s)
    (hh : ∀ k it, holds pc = some (k, it) → it.id < s.nextId)
    (hst : ∀ k it, stale pc = some (k, it) → isCurrent s.cur k it = false)
    (hd : pc ≠ .done .impossible) : InvIds (setPc s r pc) := by
  obtain ⟨a, b, c, d, e, f⟩ := h
  refine ⟨a, fun r' k it hx => ?_, fun r' k it hx => ?_, fun r' => ?_, e, f⟩
  · simp only [setPc, upd] at hx; split at hx
    · exact hh k it hx
    · exact b r' k it hx
  · simp only [setPc, upd] at hx ⊢; split at hx
    · exact hst k it hx
    · exact c r' k it hx
  · simp only [setPc, upd]; split
    · exact hd
    · exact d r'

theorem isCurrent_erase_self (c : Cur) (k : Key) (it : Item) : isCurrent (erase k c) k it = false := by
  simp [isCurrent, lookup_erase]

theorem isCurrent_erase_other (c : Cur) (k k' : Key) (it : Item) (h : k' ≠ k) :
    isCurrent (erase k c) k' it = isCurrent c k' it := by
  simp [isCurrent, lookup_erase, h]

theorem invIds_invalHit (s : St) (r : Nat) (k : Key) (it c : Item) (h : InvIds s)
    (hr : s.reqs r = .invalidating k it) (hc : lookup k s.cur = some c) :
    InvIds (invalHit s r k it c) := by
  obtain ⟨a, b, cc, d, e, f⟩ := h
  have hit : it.id < s.nextId := b r k it (by rw [hr]; rfl)
  have hcur' : CurOk (erase k s.cur) s.nextId := curOk_erase _ _ k a
  have hnotin : c.id ∉ s.removed := fun hm => (f c.id hm).2 k c hc rfl
  have hrem : ∀ id ∈ c.id :: s.removed, id < s.nextId ∧ ∀ k' c', lookup k' (erase k s.cur) = some c' → c'.id ≠ id := by
    intro id hm
    simp only [List.mem_cons] at hm
    rcases hm with rfl | hm
    · refine ⟨a.1 k c hc, fun k' c' hl heq => ?_⟩
      rw [lookup_erase] at hl; split at hl
      · cases hl
      · rename_i hne; exact hne (a.2 k' k c' c hl hc heq)
    · refine ⟨(f id hm).1, fun k' c' hl => ?_⟩
      rw [lookup_erase] at hl; split at hl
      · cases hl
      · exact (f id hm).2 k' c' hl
  have hstale : ∀ pc, (pc = Pc.invalWaiting k it ∨ pc = Pc.postYield k it) →
      (∀ r' k' it', stale (upd s.reqs r pc r') = some (k', it') → isCurrent (erase k s.cur) k' it' = false) := by
    intro pc hpc r' k' it' hx
    simp only [upd] at hx; split at hx
    · rcases hpc with rfl | rfl <;> (simp [stale] at hx; obtain ⟨rfl, rfl⟩ := hx; exact isCurrent_erase_self _ _ _)
    · by_cases hk : k' = k
      · subst hk; exact isCurrent_erase_self _ _ _
      · rw [isCurrent_erase_other _ _ _ _ hk]; exact cc r' k' it' hx
  have hholds : ∀ pc, (pc = Pc.invalWaiting k it ∨ pc = Pc.postYield k it) →
      (∀ r' k' it', holds (upd s.reqs r pc r') = some (k', it') → it'.id < s.nextId) := by
    intro pc hpc r' k' it' hx
    simp only [upd] at hx; split at hx
    · rcases hpc with rfl | rfl <;> (simp [holds] at hx; obtain ⟨rfl, rfl⟩ := hx; exact hit)
    · exact b r' k' it' hx
  have hdone : ∀ pc, (pc = Pc.invalWaiting k it ∨ pc = Pc.postYield k it) →
      ∀ r', upd s.reqs r pc r' ≠ .done .impossible := by
    intro pc hpc r'
    simp only [upd]; split
    · rcases hpc with rfl | rfl <;> simp
    · exact d r'
  unfold invalHit
  split
  · exact ⟨hcur', hholds _ (Or.inl rfl), hstale _ (Or.inl rfl), hdone _ (Or.inl rfl),
      List.nodup_cons.mpr ⟨hnotin, e⟩, hrem⟩
  · exact ⟨hcur', hholds _ (Or.inr rfl), hstale _ (Or.inr rfl), hdone _ (Or.inr rfl),
      List.nodup_cons.mpr ⟨hnotin, e⟩, hrem⟩

theorem invIds_invalMiss (s : St) (r : Nat) (k : Key) (it : Item) (h : InvIds s)
    (hr : s.reqs r = .invalidating k it) (hnc : isCurrent s.cur k it = false) :
    InvIds (invalMiss s r k it) := by
  have hit : it.id < s.nextId := h.2.1 r k it (by rw [hr]; rfl)
  unfold invalMiss
  split
  · have := invIds_setPc s r (.invalWaiting k it) h
      (fun k' it' hx => by simp [holds] at hx; obtain ⟨rfl, rfl⟩ := hx; exact hit)
      (fun k' it' hx => by simp [stale] at hx; obtain ⟨rfl, rfl⟩ := hx; exact hnc) (by simp)
    exact this
  · exact invIds_setPc s r (.postYield k it) h
      (fun k' it' hx => by simp [holds] at hx; obtain ⟨rfl, rfl⟩ := hx; exact hit)
      (fun k' it' hx => by simp [stale] at hx; obtain ⟨rfl, rfl⟩ := hx; exact hnc) (by simp)

theorem invIds_populated (s : St) (src : List (Key × Nat × Int)) (h : InvIds s) : InvIds (populated s src) := by
  obtain ⟨a, b, c, d, e, f⟩ := h
  obtain ⟨x, y, z⟩ := accept_spec s.inv src s.cur s.nextId a
  refine ⟨x, fun r k it hx => ?_, fun r k it hx => ?_, d, e, fun id hm => ⟨?_, fun k c' hl => ?_⟩⟩
  · have := b r k it hx; simp only [populated]; omega
  · have hold := c r k it hx
    have hlt : it.id < s.nextId := b r k it (by
      revert hx; simp only [populated]; cases s.reqs r <;> simp [stale, holds])
    simp only [populated, isCurrent] at hold ⊢
    cases hl : lookup k (accept s.inv src s.cur s.nextId).1 with
    | none => rfl
    | some c' =>
      rcases z k c' hl with ho | ⟨hge, _⟩
      · simp only [isCurrent, ho] at hold; simpa using hold
      · simp; omega
  · have := (f id hm).1; simp only [populated]; omega
  · simp only [populated] at hl
    rcases z k c' hl with ho | ⟨hge, _⟩
    · exact (f id hm).2 k c' ho
    · have := (f id hm).1; omega

theorem invIds_step (s : St) (l : Label) (s' : St) (h : InvIds s) (hs : step s l = some s') : InvIds s' := by
  have h' := h
  obtain ⟨a, b, c, d, e, f⟩ := h
  cases l <;> simp only [step] at hs <;> (repeat' split at hs) <;> simp at hs <;> subst hs
  -- start (from idle / from done)
  · exact invIds_setPc _ _ _ h' (by simp [holds]) (by simp [stale]) (by simp)
  · exact invIds_setPc _ _ _ h' (by simp [holds]) (by simp [stale]) (by simp)
  -- acquire
  · rename_i hl _
    exact invIds_setPc _ _ _ h' (fun k it hx => by simp [holds] at hx; obtain ⟨rfl, rfl⟩ := hx; exact a.1 _ _ hl)
      (by simp [stale]) (by simp)
  -- acquireFail, ok, fail
  · exact invIds_setPc _ _ _ h' (by simp [holds]) (by simp [stale]) (by simp)
  · exact invIds_setPc _ _ _ h' (by simp [holds]) (by simp [stale]) (by simp)
  · exact invIds_setPc _ _ _ h' (by simp [holds]) (by simp [stale]) (by simp)
  -- unauth
  · rename_i hr
    exact invIds_setPc _ _ _ h' (fun k it hx => by
        simp [holds] at hx; obtain ⟨rfl, rfl⟩ := hx; exact b _ _ _ (by rw [hr]; rfl))
      (by simp [stale]) (by simp)
  -- inval: hit / miss (other id) / miss (key gone)
  · rename_i hr _ _ hl _
    exact invIds_invalHit _ _ _ _ _ h' hr hl
  · rename_i hr _ _ hl hne
    exact invIds_invalMiss _ _ _ _ h' hr (by simp [isCurrent, hl, hne])
  · rename_i hr _ hl
    exact invIds_invalMiss _ _ _ _ h' hr (by simp [isCurrent, hl])
  -- invalWake: LoginError / proceeds
  · exact invIds_setPc _ _ _ h' (by simp [holds]) (by simp [stale]) (by simp)
  · rename_i hr _ _
    exact invIds_setPc _ _ _ h' (fun k it hx => by
        simp [holds] at hx; obtain ⟨rfl, rfl⟩ := hx; exact b _ _ _ (by rw [hr]; rfl))
      (fun k it hx => by simp [stale] at hx; obtain ⟨rfl, rfl⟩ := hx; exact c _ _ _ (by rw [hr]; rfl)) (by simp)
  -- post: the break is impossible for a stale holder
  · rename_i hr hcur
    have := c _ _ _ (by rw [hr]; rfl : stale (s.reqs _) = some (_, _))
    rw [this] at hcur; cases hcur
  · exact invIds_setPc _ _ _ h' (by simp [holds]) (by simp [stale]) (by simp)
  -- authStart, populate
  · exact ⟨a, b, c, d, e, f⟩
  · exact invIds_populated _ _ h'

theorem invIds_init (src : List (Key × Nat × Int)) : InvIds (init src) := by
  have h0 : CurOk ([] : Cur) 0 := ⟨fun k it hl => by simp at hl, fun k k' it it' hl => by simp at hl⟩
  obtain ⟨x, _, _⟩ := accept_spec (fun _ => []) src [] 0 h0
  exact ⟨x, fun r k it hx => by simp [init, holds] at hx, fun r k it hx => by simp [init, stale] at hx,
    fun r => by simp [init], by simp [init], fun id hm => by simp [init] at hm⟩

/-! ### the invalid-credential history -/

theorem lastN_snoc (n : Nat) (xs : List Item) (c : Item) :
    lastN (n + 1) (xs ++ [c]) = lastN n xs ++ [c] := by
  unfold lastN
  simp only [List.length_append, List.length_cons, List.length_nil]
  have h : xs.length + (0 + 1) - (n + 1) = xs.length - n := by omega
  rw [h, List.drop_append_of_le_length (by omega)]

theorem lastN_lastN (xs : List Item) : lastN 2 (lastN 3 xs) = lastN 2 xs := by
  unfold lastN
  simp only [List.length_drop, List.drop_drop]
  congr 1
  omega

def InvHist (s : St) : Prop :=
  (∀ k it, lookup k s.cur = some it → ∀ j ∈ s.inv k, ¬ matches_ j it) ∧
  (∀ k, s.inv k = lastN historyBound (s.invAll k))

theorem invHist_invalHit (s : St) (r : Nat) (k : Key) (it c : Item) (h : InvHist s) :
    InvHist (invalHit s r k it c) := by
  obtain ⟨a, b⟩ := h
  have key : (∀ k' it', lookup k' (erase k s.cur) = some it' →
        ∀ j ∈ upd s.inv k (lastN 2 (s.inv k) ++ [c]) k', ¬ matches_ j it') ∧
      (∀ k', upd s.inv k (lastN 2 (s.inv k) ++ [c]) k' = lastN historyBound (upd s.invAll k (s.invAll k ++ [c]) k')) := by
    refine ⟨fun k' it' hl j hj => ?_, fun k' => ?_⟩
    · rw [lookup_erase] at hl; split at hl
      · cases hl
      · rename_i hne; rw [upd_other _ _ _ _ hne] at hj; exact a k' it' hl j hj
    · by_cases hk : k' = k
      · subst hk
        simp only [upd_same, historyBound]
        rw [b k', historyBound, lastN_lastN, ← lastN_snoc]
      · simp only [upd_other _ _ _ _ hk]; exact b k'
  unfold invalHit
  split <;> exact key

theorem invHist_invalMiss (s : St) (r : Nat) (k : Key) (it : Item) (h : InvHist s) :
    InvHist (invalMiss s r k it) := by
  unfold invalMiss
  split <;> exact h

theorem invHist_populated (s : St) (src : List (Key × Nat × Int)) (h : InvHist s) (hi : InvIds s) :
    InvHist (populated s src) := by
  obtain ⟨a, b⟩ := h
  obtain ⟨_, _, z⟩ := accept_spec s.inv src s.cur s.nextId hi.1
  refine ⟨fun k it hl j hj hm => ?_, b⟩
  simp only [populated] at hl hj
  rcases z k it hl with ho | ⟨_, hfresh⟩
  · exact a k it ho j hj hm
  · rw [List.any_eq_false] at hfresh
    have := hfresh j hj
    simp [hm.1, hm.2] at this

theorem invHist_step (s : St) (l : Label) (s' : St) (h : InvHist s) (hi : InvIds s) (hs : step s l = some s') :
    InvHist s' := by
  have h' := h
  obtain ⟨a, b⟩ := h
  cases l <;> simp only [step] at hs <;> (repeat' split at hs) <;> simp at hs <;> subst hs
  all_goals first | exact ⟨a, b⟩ | skip
  · exact invHist_invalHit _ _ _ _ _ h'
  · exact invHist_invalMiss _ _ _ _ h'
  · exact invHist_invalMiss _ _ _ _ h'
  · exact invHist_populated _ _ h' hi

theorem invHist_init (src : List (Key × Nat × Int)) : InvHist (init src) := by
  refine ⟨fun k it _ j hj => by simp [init] at hj, fun k => by simp [init, lastN]⟩

/-! ### everything together -/

def Inv (s : St) : Prop := InvFlags s ∧ InvIds s ∧ InvHist s

theorem invEmpty_of_reach (s : St) (h : Reach s) : InvFlags s ∧ InvEmpty s :=
  inv_reach (fun s => InvFlags s ∧ InvEmpty s) (fun src => ⟨invFlags_init src, invEmpty_init src⟩)
    (fun s l s' ⟨a, b⟩ hs => ⟨invFlags_step s l s' a hs, invEmpty_step s l s' b a hs⟩) s h

theorem inv_of_reach (s : St) (h : Reach s) : Inv s :=
  inv_reach Inv (fun src => ⟨invFlags_init src, invIds_init src, invHist_init src⟩)
    (fun s l s' ⟨a, b, c⟩ hs => ⟨invFlags_step s l s' a hs, invIds_step s l s' b hs, invHist_step s l s' c b hs⟩)
    s h

/-! ### keys are unique, so a non-empty vault always has a selectable top-priority item -/

theorem mem_erase (k : Key) (c : Cur) (p : Key × Item) : p ∈ erase k c ↔ p ∈ c ∧ p.1 ≠ k := by
  induction c with
  | nil => simp [erase]
  | cons q rest ih =>
    obtain ⟨k0, v⟩ := q
    by_cases h0 : k0 = k
    · subst h0
      simp only [erase, if_true, ih, List.mem_cons]
      constructor
      · rintro ⟨hm, hne⟩; exact ⟨Or.inr hm, hne⟩
      · rintro ⟨hm | hm, hne⟩
        · subst hm; exact absurd rfl hne
        · exact ⟨hm, hne⟩
    · simp only [erase, h0, if_false, List.mem_cons, ih]
      constructor
      · rintro (hm | ⟨hm, hne⟩)
        · subst hm; exact ⟨Or.inl rfl, h0⟩
        · exact ⟨Or.inr hm, hne⟩
      · rintro ⟨hm | hm, hne⟩
        · exact Or.inl hm
        · exact Or.inr ⟨hm, hne⟩

def KeysNodup (c : Cur) : Prop := (c.map Prod.fst).Nodup

theorem keysNodup_erase (k : Key) (c : Cur) (h : KeysNodup c) : KeysNodup (erase k c) := by
  unfold KeysNodup at *
  induction c with
  | nil => simp [erase]
  | cons q rest ih =>
    obtain ⟨k0, v⟩ := q
    simp only [List.map_cons, List.nodup_cons] at h
    by_cases h0 : k0 = k
    · simp only [erase, h0, if_true]; exact ih h.2
    · simp only [erase, h0, if_false, List.map_cons, List.nodup_cons]
      refine ⟨fun hm => h.1 ?_, ih h.2⟩
      obtain ⟨p, hp, hk⟩ := List.mem_map.mp hm
      exact List.mem_map.mpr ⟨p, ((mem_erase k rest p).mp hp).1, hk⟩

theorem keysNodup_set (k : Key) (v : Item) (c : Cur) (h : KeysNodup c) : KeysNodup (set k v c) := by
  unfold set KeysNodup
  simp only [List.map_cons, List.nodup_cons]
  refine ⟨fun hm => ?_, keysNodup_erase k c h⟩
  obtain ⟨p, hp, hk⟩ := List.mem_map.mp hm
  exact ((mem_erase k c p).mp hp).2 hk

theorem keysNodup_accept (inv : Key → List Item) (src : List (Key × Nat × Int)) (c : Cur) (n : Nat)
    (h : KeysNodup c) : KeysNodup (accept inv src c n).1 := by
  induction src generalizing c n with
  | nil => exact h
  | cons p rest ih =>
    obtain ⟨k0, info, prio⟩ := p
    simp only [accept]
    split
    · exact ih c n h
    · exact ih _ _ (keysNodup_set _ _ _ h)

theorem lookup_of_mem (c : Cur) (h : KeysNodup c) (p : Key × Item) (hp : p ∈ c) : lookup p.1 c = some p.2 := by
  unfold KeysNodup at h
  induction c with
  | nil => simp at hp
  | cons q rest ih =>
    obtain ⟨k0, v⟩ := q
    simp only [List.map_cons, List.nodup_cons] at h
    simp only [List.mem_cons] at hp
    rcases hp with rfl | hp
    · simp [lookup]
    · have hne : k0 ≠ p.1 := fun e => h.1 (List.mem_map.mpr ⟨p, hp, e.symm⟩)
      simp only [lookup, hne, if_false]
      exact ih h.2 hp

theorem exists_max (c : Cur) (hne : c ≠ []) : ∃ p ∈ c, ∀ q ∈ c, q.2.prio ≤ p.2.prio := by
  induction c with
  | nil => exact absurd rfl hne
  | cons a rest ih =>
    cases rest with
    | nil => exact ⟨a, by simp, fun q hq => by simp at hq; subst hq; exact Int.le_refl _⟩
    | cons b rest' =>
      obtain ⟨p, hp, hmax⟩ := ih (by simp)
      by_cases hle : p.2.prio ≤ a.2.prio
      · refine ⟨a, by simp, fun q hq => ?_⟩
        simp only [List.mem_cons] at hq
        rcases hq with rfl | hq
        · exact Int.le_refl _
        · exact Int.le_trans (hmax q (by simpa using hq)) hle
      · refine ⟨p, List.mem_cons_of_mem _ hp, fun q hq => ?_⟩
        simp only [List.mem_cons] at hq
        rcases hq with rfl | hq
        · omega
        · exact hmax q (by simpa using hq)

/-- `select()` always has something to choose when `_current` is non-empty -/
theorem exists_top (c : Cur) (h : KeysNodup c) (hne : c ≠ []) :
    ∃ k it, lookup k c = some it ∧ isTop c it = true := by
  obtain ⟨p, hp, hmax⟩ := exists_max c hne
  refine ⟨p.1, p.2, lookup_of_mem c h p hp, ?_⟩
  unfold isTop
  rw [List.all_eq_true]
  intro q hq
  simpa using hmax q hq

theorem keysNodup_step (s : St) (l : Label) (s' : St) (h : KeysNodup s.cur) (hs : step s l = some s') :
    KeysNodup s'.cur := by
  cases l <;> simp only [step] at hs <;> (repeat' split at hs) <;> simp at hs <;> subst hs
  all_goals first | exact h | skip
  · unfold invalHit; split <;> exact keysNodup_erase _ _ h
  · unfold invalMiss; split <;> exact h
  · unfold invalMiss; split <;> exact h
  · exact keysNodup_accept _ _ _ _ h

theorem keysNodup_of_reach (s : St) (h : Reach s) : KeysNodup s.cur :=
  inv_reach (fun s => KeysNodup s.cur)
    (fun src => by
      have : KeysNodup ([] : Cur) := by simp [KeysNodup]
      exact keysNodup_accept _ src [] 0 this)
    keysNodup_step s h

/-- from two runs that differ by one last label: that label's step -/
theorem step_of_runs (s0 s s' : St) (ls : List Label) (l : Label)
    (h : run s0 ls = some s) (h' : run s0 (ls ++ [l]) = some s') : step s l = some s' := by
  rw [run_snoc, h] at h'; exact h'

end Kopf.C12.V
