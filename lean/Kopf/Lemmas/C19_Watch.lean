/-
  C19 — helper lemmas for the watch-stream model: scanners over observation blocks, the
  least-pending lemma for a sorted log, and the invariant `Inv` preserved by every act.
-/
import Kopf.Model.C19_Watch
namespace Kopf.C19

/-! ### scanners over blocks that contain no request / nothing "seen" -/

def Out.isSeen : Out → Bool
  | .listed _ => true
  | .event _ _ _ => true
  | .bookmark _ => true
  | _ => false

theorem lastSeen_append_items (xs : List Entry) (past : List Out) :
    lastSeen (xs.map (fun e => Out.item e.key e.rv) ++ past) = lastSeen past := by
  induction xs with
  | nil => rfl
  | cons x xs ih => simpa [lastSeen] using ih

theorem resumeOK_append_items (xs : List Entry) (past : List Out) :
    resumeOK (xs.map (fun e => Out.item e.key e.rv) ++ past) = resumeOK past := by
  induction xs with
  | nil => rfl
  | cons x xs ih => simpa [resumeOK] using ih

theorem oldestReq_append_items (xs : List Entry) (past : List Out) :
    oldestReq (xs.map (fun e => Out.item e.key e.rv) ++ past) = oldestReq past := by
  induction xs with
  | nil => rfl
  | cons x xs ih =>
      simp only [List.map_cons, List.cons_append, oldestReq, ih]
      cases oldestReq past <;> simp [Out.isReq]

theorem reqCount_append_items (xs : List Entry) (past : List Out) :
    reqCount (xs.map (fun e => Out.item e.key e.rv) ++ past) = reqCount past := by
  induction xs with
  | nil => rfl
  | cons x xs ih =>
      simp only [reqCount, List.map_cons, List.cons_append] at ih ⊢
      simp [Out.isReq]

theorem mem_append_items {o : Out} (xs : List Entry) (past : List Out) (h : o ∈ past) :
    o ∈ xs.map (fun e => Out.item e.key e.rv) ++ past := List.mem_append_right _ h

/-- the items block of a listing, as `respond` puts it in front of the observations -/
abbrev itemsBlock (log : List Entry) : List Out :=
  ((liveItems log).map (fun e => Out.item e.key e.rv)).reverse

theorem itemsBlock_eq (log : List Entry) :
    itemsBlock log = ((liveItems log).reverse).map (fun e => Out.item e.key e.rv) := by
  simp [itemsBlock, List.map_reverse]

/-! ### the next line of a watch is the least pending version -/

def Sorted (log : List Entry) : Prop := log.Pairwise (fun a b => a.rv < b.rv)

theorem nextEntry_mem {log : List Entry} {v : Nat} {e : Entry} (h : nextEntry log v = some e) :
    e ∈ log ∧ v < e.rv := by
  unfold nextEntry at h
  have h1 := List.mem_of_find?_eq_some h
  have h2 := List.find?_some h
  exact ⟨h1, by simpa using h2⟩

theorem nextEntry_least {log : List Entry} (hs : Sorted log) {v : Nat} {e : Entry}
    (h : nextEntry log v = some e) : ∀ e' ∈ log, e'.rv ≤ e.rv → e'.rv ≤ v ∨ e' = e := by
  unfold nextEntry at h
  induction log with
  | nil => simp at h
  | cons x xs ih =>
      intro e' he' hle
      rw [List.find?_cons] at h
      have hs' : Sorted xs := (List.pairwise_cons.mp hs).2
      have hx : ∀ y ∈ xs, x.rv < y.rv := (List.pairwise_cons.mp hs).1
      by_cases hp : v < x.rv
      · simp [hp] at h
        subst h
        rcases List.mem_cons.mp he' with rfl | hmem
        · exact Or.inr rfl
        · have := hx e' hmem
          omega
      · simp [hp] at h
        rcases List.mem_cons.mp he' with rfl | hmem
        · left; omega
        · exact ih hs' h e' hmem hle

theorem nextEntry_none {log : List Entry} {v : Nat} (h : nextEntry log v = none) :
    ∀ e ∈ log, e.rv ≤ v := by
  unfold nextEntry at h
  intro e he
  have := List.find?_eq_none.mp h e he
  simpa using this

/-! ### the invariant -/

structure Inv (w : World) : Prop where
  sorted : Sorted w.log
  bound : ∀ e ∈ w.log, e.rv ≤ w.srv
  since_le : w.since ≤ w.srv
  list_le : w.listRv ≤ w.since
  cover : ∀ e ∈ w.log, e.rv ≤ w.since → Covered w e
  seen : lastSeen w.outs = w.since
  resume : resumeOK w.outs = true

theorem inv_init : Inv init := by
  refine ⟨?_, ?_, ?_, ?_, ?_, ?_, ?_⟩ <;> simp [init, Sorted, lastSeen, resumeOK]

theorem Covered.mono {w w' : World} {e : Entry} (h : Covered w e)
    (hl : w.listRv ≤ w'.listRv) (ho : ∀ o ∈ w.outs, o ∈ w'.outs) : Covered w' e := by
  rcases h with h | h
  · exact Or.inl (Nat.le_trans h hl)
  · exact Or.inr (ho _ h)

/-- `rewatch` keeps the invariant (it only adds a `reqWatch since`). -/
theorem inv_rewatch {w : World} (h : Inv w) : Inv (rewatch w) := by
  unfold rewatch
  split
  · exact ⟨h.sorted, h.bound, h.since_le, h.list_le, h.cover, h.seen, h.resume⟩
  · refine ⟨h.sorted, h.bound, h.since_le, h.list_le, ?_, ?_, ?_⟩
    · intro e he hle
      exact (h.cover e he hle).mono (Nat.le_refl _) (fun o ho => List.mem_cons_of_mem _ ho)
    · simpa [emit, lastSeen] using h.seen
    · simp [emit, resumeOK, h.seen, h.resume]

theorem inv_toBackoff {w : World} (h : Inv w) : Inv (toBackoff w) :=
  ⟨h.sorted, h.bound, h.since_le, h.list_le, h.cover, h.seen, h.resume⟩

theorem inv_fail {w : World} (h : Inv w) (k : RaiseKind) : Inv (fail w k) := by
  refine ⟨h.sorted, h.bound, h.since_le, h.list_le, ?_, ?_, ?_⟩
  · intro e he hle
    exact (h.cover e he hle).mono (Nat.le_refl _) (fun o ho => List.mem_cons_of_mem _ ho)
  · simpa [fail, emit, lastSeen] using h.seen
  · simpa [fail, emit, resumeOK] using h.resume

theorem inv_startListing {w : World} (h : Inv w) : Inv (startListing w) := by
  refine ⟨h.sorted, h.bound, h.since_le, h.list_le, ?_, ?_, ?_⟩
  · intro e he hle
    exact (h.cover e he hle).mono (Nat.le_refl _) (fun o ho => List.mem_cons_of_mem _ ho)
  · simpa [startListing, emit, lastSeen] using h.seen
  · simpa [startListing, emit, resumeOK] using h.resume

/-- The state right after a successful listing, before the `while` decides to watch. -/
def listed (w : World) : World :=
  { emit w (.listed w.srv :: itemsBlock w.log) with since := w.srv, listRv := w.srv }

theorem inv_listed {w : World} (h : Inv w) : Inv (listed w) := by
  refine ⟨h.sorted, h.bound, Nat.le_refl _, Nat.le_refl _, ?_, ?_, ?_⟩
  · intro e he _
    exact Or.inl (h.bound e he)
  · simp [listed, emit, lastSeen]
  · simp only [listed, emit, List.cons_append, resumeOK]
    rw [itemsBlock_eq, resumeOK_append_items]
    exact h.resume

theorem inv_step {w : World} (h : Inv w) (a : Act) : Inv (step w a) := by
  cases a with
  | change key kind vis =>
      simp only [step]
      split
      · refine ⟨?_, ?_, ?_, h.list_le, ?_, h.seen, h.resume⟩
        · have : Sorted (w.log ++ [⟨w.srv + 1, key, kind⟩]) := by
            unfold Sorted
            rw [List.pairwise_append]
            refine ⟨h.sorted, List.pairwise_singleton _ _, ?_⟩
            intro a ha b hb
            have := h.bound a ha
            simp at hb
            subst hb
            simp
            omega
          exact this
        · intro e he
          rcases List.mem_append.mp he with he | he
          · have := h.bound e he
            simp; omega
          · simp at he; subst he; simp
        · have := h.since_le
          simp; omega
        · intro e he hle
          rcases List.mem_append.mp he with he | he
          · exact h.cover e he hle
          · simp at he; subst he
            have := h.since_le
            simp at hle; omega
      · refine ⟨h.sorted, ?_, ?_, h.list_le, h.cover, h.seen, h.resume⟩
        · intro e he
          have := h.bound e he
          simp; omega
        · have := h.since_le
          simp; omega
  | compact upto => exact ⟨h.sorted, h.bound, h.since_le, h.list_le, h.cover, h.seen, h.resume⟩
  | setHttp410 b => exact ⟨h.sorted, h.bound, h.since_le, h.list_le, h.cover, h.seen, h.resume⟩
  | pause => exact ⟨h.sorted, h.bound, h.since_le, h.list_le, h.cover, h.seen, h.resume⟩
  | resume => exact ⟨h.sorted, h.bound, h.since_le, h.list_le, h.cover, h.seen, h.resume⟩
  | notice =>
      simp only [step]
      split
      · split
        · exact ⟨h.sorted, h.bound, h.since_le, h.list_le, h.cover, h.seen, h.resume⟩
        · exact ⟨h.sorted, h.bound, h.since_le, h.list_le, h.cover, h.seen, h.resume⟩
        · exact ⟨h.sorted, h.bound, h.since_le, h.list_le, h.cover, h.seen, h.resume⟩
        · exact h
      · exact h
  | unblock =>
      simp only [step]
      split
      · split
        · exact h
        · exact inv_startListing h
      · exact h
  | wake =>
      simp only [step]
      split
      · split
        · exact ⟨h.sorted, h.bound, h.since_le, h.list_le, h.cover, h.seen, h.resume⟩
        · exact inv_startListing h
      · exact h
  | respond =>
      simp only [step]
      split
      · exact inv_rewatch (inv_listed h)
      · split
        · exact inv_toBackoff h
        · split
          · exact inv_toBackoff h
          · split
            · exact inv_toBackoff h
            · exact ⟨h.sorted, h.bound, h.since_le, h.list_le, h.cover, h.seen, h.resume⟩
      · exact h
  | retry =>
      simp only [step]
      split
      · refine ⟨h.sorted, h.bound, h.since_le, h.list_le, ?_, ?_, ?_⟩
        · intro e he hle
          exact (h.cover e he hle).mono (Nat.le_refl _) (fun o ho => List.mem_cons_of_mem _ ho)
        · simpa [emit, lastSeen] using h.seen
        · simpa [emit, resumeOK] using h.resume
      · refine ⟨h.sorted, h.bound, h.since_le, h.list_le, ?_, ?_, ?_⟩
        · intro e he hle
          exact (h.cover e he hle).mono (Nat.le_refl _) (fun o ho => List.mem_cons_of_mem _ ho)
        · simpa [emit, lastSeen] using h.seen
        · simp [emit, resumeOK, h.seen, h.resume]
      · exact h
  | failReq k =>
      simp only [step]
      split
      · cases k
        · exact inv_toBackoff h
        · exact inv_toBackoff h
        · exact inv_toBackoff h
        · exact inv_fail h _
      · cases k
        · exact inv_rewatch h
        · exact inv_rewatch h
        · exact inv_toBackoff h
        · exact inv_fail h _
      · exact h
  | deliver =>
      simp only [step]
      split
      · split
        · rename_i e hn
          obtain ⟨hmem, hgt⟩ := nextEntry_mem hn
          refine ⟨h.sorted, h.bound, h.bound e hmem, ?_, ?_, ?_, ?_⟩
          · have := h.list_le
            simp [emit]; omega
          · intro e' he' hle
            simp at hle
            rcases nextEntry_least h.sorted hn e' he' hle with hlt | heq
            · exact (h.cover e' he' hlt).mono (Nat.le_refl _) (fun o ho => List.mem_cons_of_mem _ ho)
            · subst heq
              exact Or.inr (by simp [emit])
          · simp [emit, lastSeen]
          · simpa [emit, resumeOK] using h.resume
        · exact h
      · exact h
  | bookmark b =>
      simp only [step]
      split
      · split
        · rename_i hb
          simp only [bookmarkOK, Bool.and_eq_true, decide_eq_true_eq, List.all_eq_true,
            Bool.or_eq_true] at hb
          obtain ⟨⟨h1, h2⟩, h3⟩ := hb
          refine ⟨h.sorted, h.bound, h2, ?_, ?_, ?_, ?_⟩
          · have := h.list_le
            simp [emit]; omega
          · intro e he hle
            simp at hle
            rcases h3 e he with hlt | hgt
            · exact (h.cover e he hlt).mono (Nat.le_refl _) (fun o ho => List.mem_cons_of_mem _ ho)
            · omega
          · simp [emit, lastSeen]
          · simpa [emit, resumeOK] using h.resume
        · exact h
      · exact h
  | drop d =>
      simp only [step]
      split
      · exact inv_rewatch h
      · exact h
  | err410 =>
      simp only [step]
      split
      · exact inv_toBackoff h
      · exact h
  | errUnknown =>
      simp only [step]
      split
      · exact inv_fail h _
      · exact h
  | unknownType => exact h
  | garbage =>
      simp only [step]
      split
      · exact inv_fail h _
      · exact h

theorem inv_run {w : World} (h : Inv w) (as : List Act) : Inv (run w as) := by
  induction as generalizing w with
  | nil => exact h
  | cons a as ih => exact ih (inv_step h a)

theorem inv_reach {w : World} (h : Reach w) : Inv w := by
  obtain ⟨as, rfl⟩ := h
  exact inv_run inv_init as

/-! ### quiet states: the pause has been noticed (or there is no stream to notice it) -/

theorem oldestReq_append (xs ys : List Out) :
    oldestReq (xs ++ ys) = match oldestReq ys with
      | some r => some r
      | none => oldestReq xs := by
  induction xs with
  | nil => cases h : oldestReq ys <;> simp [oldestReq, h]
  | cons x xs ih =>
      simp only [List.cons_append, oldestReq, ih]
      cases oldestReq ys <;> simp

theorem reqCount_cons (o : Out) (os : List Out) :
    reqCount (o :: os) = (if o.isReq then 1 else 0) + reqCount os := by
  unfold reqCount
  by_cases h : o.isReq = true <;> simp [h] <;> omega

/-- In a quiet state, while the toggle is on, no act makes the client send a request, and the
    state stays quiet. -/
theorem quiet_step_paused {w : World} (hq : Quiet w) (hp : w.paused = true) (a : Act) :
    Quiet (step w a) ∧ reqCount (step w a).outs = reqCount w.outs := by
  unfold Quiet at hq ⊢
  cases a <;> simp only [step]
  case change key kind vis => split <;> (first | exact ⟨hq, rfl⟩ | exact ⟨hq, trivial⟩ | simpa using hq)
  case compact => (first | exact ⟨hq, rfl⟩ | exact ⟨hq, trivial⟩ | simpa using hq)
  case setHttp410 => (first | exact ⟨hq, rfl⟩ | exact ⟨hq, trivial⟩ | simpa using hq)
  case pause => (first | exact ⟨hq, rfl⟩ | exact ⟨hq, trivial⟩ | simpa using hq)
  case resume => (first | exact ⟨hq, rfl⟩ | exact ⟨hq, trivial⟩ | simpa using hq)
  case unknownType => (first | exact ⟨hq, rfl⟩ | exact ⟨hq, trivial⟩ | simpa using hq)
  case retry =>
      split <;> simp_all [emit, reqCount_cons, Out.isReq]
  case notice =>
      simp only [hp, if_true]
      split <;> simp_all [toBackoff]
  case unblock =>
      split
      · simp [hp]; exact hq
      · (first | exact ⟨hq, rfl⟩ | exact ⟨hq, trivial⟩ | simpa using hq)
  case wake =>
      split
      · simp [hp]
      · (first | exact ⟨hq, rfl⟩ | exact ⟨hq, trivial⟩ | simpa using hq)
  case respond =>
      split
      · rename_i hph
        have hs : w.pauseSeen = true := by simp_all
        simp [rewatch, emit, toBackoff, hs, reqCount_cons, Out.isReq]
        rw [← itemsBlock, itemsBlock_eq, reqCount_append_items]
      · rename_i hph
        have hs : w.pauseSeen = true := by simp_all
        split
        · simp [toBackoff]
        · simp [hs, toBackoff]
      · (first | exact ⟨hq, rfl⟩ | exact ⟨hq, trivial⟩ | simpa using hq)
  case failReq k =>
      split
      · cases k <;> simp [toBackoff, fail, emit, reqCount_cons, Out.isReq]
      · rename_i hph
        have hs : w.pauseSeen = true := by simp_all
        cases k <;> simp [rewatch, hs, toBackoff, fail, emit, reqCount_cons, Out.isReq]
      · (first | exact ⟨hq, rfl⟩ | exact ⟨hq, trivial⟩ | simpa using hq)
  case deliver =>
      split
      · rename_i hph
        have hs : w.pauseSeen = true := by simp_all
        split
        · simp [emit, hs, reqCount_cons, Out.isReq]
        · (first | exact ⟨hq, rfl⟩ | exact ⟨hq, trivial⟩ | simpa using hq)
      · (first | exact ⟨hq, rfl⟩ | exact ⟨hq, trivial⟩ | simpa using hq)
  case bookmark b =>
      split
      · rename_i hph
        have hs : w.pauseSeen = true := by simp_all
        split
        · simp [emit, hs, reqCount_cons, Out.isReq]
        · (first | exact ⟨hq, rfl⟩ | exact ⟨hq, trivial⟩ | simpa using hq)
      · (first | exact ⟨hq, rfl⟩ | exact ⟨hq, trivial⟩ | simpa using hq)
  case drop d =>
      split
      · rename_i hph
        have hs : w.pauseSeen = true := by simp_all
        simp [rewatch, hs, toBackoff]
      · (first | exact ⟨hq, rfl⟩ | exact ⟨hq, trivial⟩ | simpa using hq)
  case err410 =>
      split
      · simp [toBackoff]
      · (first | exact ⟨hq, rfl⟩ | exact ⟨hq, trivial⟩ | simpa using hq)
  case errUnknown =>
      split
      · simp [fail, emit, reqCount_cons, Out.isReq]
      · (first | exact ⟨hq, rfl⟩ | exact ⟨hq, trivial⟩ | simpa using hq)
  case garbage =>
      split
      · simp [fail, emit, reqCount_cons, Out.isReq]
      · (first | exact ⟨hq, rfl⟩ | exact ⟨hq, trivial⟩ | simpa using hq)

theorem paused_step {w : World} (hp : w.paused = true) {a : Act} (ha : a ≠ .resume) :
    (step w a).paused = true := by
  cases a <;> simp only [step] <;> (try contradiction) <;>
    (repeat' split) <;> (try cases ‹ReqFail›) <;>
    simp_all [toBackoff, fail, emit, rewatch] <;> (repeat' split) <;> simp_all

/-- First-request invariant: the oldest request on record is a listing, or there is none yet and
    the state is quiet. -/
def FirstIsList (w : World) : Prop :=
  oldestReq w.outs = some .reqList ∨ (oldestReq w.outs = none ∧ Quiet w)

theorem oldestReq_cons_of_some {o : Out} {os : List Out} {r : Out} (h : oldestReq os = some r) :
    oldestReq (o :: os) = some r := by simp [oldestReq, h]

theorem oldestReq_cons_of_none {o : Out} {os : List Out} (h : oldestReq os = none) :
    oldestReq (o :: os) = if o.isReq then some o else none := by simp [oldestReq, h]

theorem step_outs (w : World) (a : Act) : ∃ d, (step w a).outs = d ++ w.outs := by
  cases a <;> simp only [step]
  case respond =>
      split
      · simp only [rewatch]
        split
        · exact ⟨.listed w.srv :: itemsBlock w.log, rfl⟩
        · exact ⟨.reqWatch w.srv :: .listed w.srv :: itemsBlock w.log, rfl⟩
      · (repeat' split) <;> first | exact ⟨[], rfl⟩ | exact ⟨[_], rfl⟩
      · exact ⟨[], rfl⟩
  all_goals
    (repeat' split) <;> (try cases ‹ReqFail›) <;> (try simp only [rewatch]) <;> (repeat' split) <;>
      first | exact ⟨[], rfl⟩ | exact ⟨[_], rfl⟩

theorem firstIsList_step {w : World} (h : FirstIsList w) (a : Act) : FirstIsList (step w a) := by
  rcases h with h | ⟨hn, hq⟩
  · obtain ⟨d, hd⟩ := step_outs w a
    left
    rw [hd, oldestReq_append, h]
  · unfold FirstIsList Quiet at *
    cases a <;> simp only [step]
    case change key kind vis => split <;> exact Or.inr ⟨hn, hq⟩
    case compact => exact Or.inr ⟨hn, hq⟩
    case setHttp410 => exact Or.inr ⟨hn, hq⟩
    case pause => exact Or.inr ⟨hn, hq⟩
    case resume => exact Or.inr ⟨hn, hq⟩
    case unknownType => exact Or.inr ⟨hn, hq⟩
    case retry =>
        split <;> right <;> simp_all [emit, oldestReq, Out.isReq]
    case notice =>
        split
        · split <;> simp_all [toBackoff]
        · exact Or.inr ⟨hn, hq⟩
    case unblock =>
        split
        · split
          · exact Or.inr ⟨hn, hq⟩
          · left; simp [startListing, emit, oldestReq, hn, Out.isReq]
        · exact Or.inr ⟨hn, hq⟩
    case wake =>
        split
        · split
          · right; simp [hn]
          · left; simp [startListing, emit, oldestReq, hn, Out.isReq]
        · exact Or.inr ⟨hn, hq⟩
    case respond =>
        split
        · rename_i hph
          have hs : w.pauseSeen = true := by simp_all
          right
          simp only [rewatch, emit, hs, if_true, toBackoff, List.cons_append, true_or, or_true, and_true]
          rw [oldestReq_cons_of_none]
          · simp [Out.isReq]
          · rw [← itemsBlock, itemsBlock_eq, oldestReq_append_items]; exact hn
        · rename_i hph
          have hs : w.pauseSeen = true := by simp_all
          split
          · right; simp [toBackoff, hn]
          · right; simp [hs, toBackoff, hn]
        · exact Or.inr ⟨hn, hq⟩
    case failReq k =>
        split
        · cases k <;> right <;> simp [toBackoff, fail, emit, oldestReq, hn, Out.isReq]
        · rename_i hph
          have hs : w.pauseSeen = true := by simp_all
          cases k <;> right <;> simp [rewatch, hs, toBackoff, fail, emit, oldestReq, hn, Out.isReq]
        · exact Or.inr ⟨hn, hq⟩
    case deliver =>
        split
        · rename_i hph
          have hs : w.pauseSeen = true := by simp_all
          split
          · right; simp [emit, hs, oldestReq, hn, Out.isReq]
          · exact Or.inr ⟨hn, hq⟩
        · exact Or.inr ⟨hn, hq⟩
    case bookmark b =>
        split
        · rename_i hph
          have hs : w.pauseSeen = true := by simp_all
          split
          · right; simp [emit, hs, oldestReq, hn, Out.isReq]
          · exact Or.inr ⟨hn, hq⟩
        · exact Or.inr ⟨hn, hq⟩
    case drop d =>
        split
        · rename_i hph
          have hs : w.pauseSeen = true := by simp_all
          right; simp [rewatch, hs, toBackoff, hn]
        · exact Or.inr ⟨hn, hq⟩
    case err410 =>
        split
        · right; simp [toBackoff, hn]
        · exact Or.inr ⟨hn, hq⟩
    case errUnknown =>
        split
        · right; simp [fail, emit, oldestReq, hn, Out.isReq]
        · exact Or.inr ⟨hn, hq⟩
    case garbage =>
        split
        · right; simp [fail, emit, oldestReq, hn, Out.isReq]
        · exact Or.inr ⟨hn, hq⟩

theorem firstIsList_run {w : World} (h : FirstIsList w) (as : List Act) : FirstIsList (run w as) := by
  induction as generalizing w with
  | nil => exact h
  | cons a as ih => exact ih (firstIsList_step h a)

/-- `outs` is a ghost: clearing it changes nothing but itself. -/
theorem step_ghost (w : World) (os : List Out) (a : Act) :
    step { w with outs := os } a
      = { step { w with outs := [] } a with outs := (step { w with outs := [] } a).outs ++ os } := by
  have hb : ∀ os' b, bookmarkOK { w with outs := os' } b = bookmarkOK w b := fun _ _ => rfl
  cases a <;> simp only [step, hb] <;> (repeat' split) <;> (try cases ‹ReqFail›) <;>
    simp [toBackoff, fail, emit, startListing, rewatch] <;> (repeat' split) <;> simp_all

theorem run_ghost (as : List Act) : ∀ (w : World) (os : List Out),
    run { w with outs := os } as
      = { run { w with outs := [] } as with outs := (run { w with outs := [] } as).outs ++ os } := by
  induction as with
  | nil => intro w os; simp [run]
  | cons a as ih =>
      intro w os
      have e1 : run { w with outs := os } (a :: as) = run (step { w with outs := os } a) as := rfl
      have e2 : run { w with outs := [] } (a :: as) = run (step { w with outs := [] } a) as := rfl
      rw [e1, e2, step_ghost w os a]
      have h1 := ih (step { w with outs := [] } a) ((step { w with outs := [] } a).outs ++ os)
      have h2 := ih (step { w with outs := [] } a) (step { w with outs := [] } a).outs
      have eta : ({ step { w with outs := [] } a with outs := (step { w with outs := [] } a).outs } : World)
          = step { w with outs := [] } a := rfl
      rw [eta] at h2
      rw [h1, h2]
      simp [List.append_assoc]

/-- what a run adds to the record, and that it is added in front of it -/
theorem run_outs (w : World) (as : List Act) :
    (run w as).outs = (run { w with outs := [] } as).outs ++ w.outs := by
  have h := run_ghost as w w.outs
  have eta : ({ w with outs := w.outs } : World) = w := rfl
  rw [eta] at h
  rw [h]

end Kopf.C19
