/-
  C04 — helper lemmas for the storage object that serves many objects (Model/C04_Shared.lean).
-/
import Kopf.Model.C04_Shared
namespace Kopf.C04
open Kopf Kopf.J

/-- the code's policy leaves the memory as it is, whatever goes through. -/
theorem serveAll_stateless (m : Memo) (history : List (List String)) : serveAll statelessDetect m history = m := by
  induction history generalizing m with
  | nil => rfl
  | cons ks rest ih => simp only [serveAll, statelessDetect]; exact ih m

/-- the remembering policy accumulates: everything detected on an earlier object is still there. -/
theorem serveAll_remembering_mono (m : Memo) (history : List (List String)) (p : List Char) (hp : p ∈ m) :
    p ∈ serveAll rememberingDetect m history := by
  induction history generalizing m with
  | nil => exact hp
  | cons ks rest ih =>
      simp only [serveAll, rememberingDetect]
      exact ih _ (List.mem_append_left _ hp)

theorem serveAll_remembering_mem (m : Memo) (pre : List (List String)) (ks : List String) (post : List (List String))
    (p : List Char) (hp : p ∈ markedPrefixes ks) : p ∈ serveAll rememberingDetect m (pre ++ ks :: post) := by
  induction pre generalizing m with
  | nil =>
      simp only [List.nil_append, serveAll, rememberingDetect]
      exact serveAll_remembering_mono _ post p (List.mem_append_right _ hp)
  | cons k rest ih => simp only [List.cons_append, serveAll]; exact ih _

/-- `baseBuild` is `baseBuildWith` the code's detection. -/
theorem baseBuildWith_marked (ignored extra : List (List String)) (body : J) :
    baseBuildWith markedPrefixes ignored extra body = baseBuild ignored extra body := by
  cases body <;> rfl

end Kopf.C04
