/-
  Lemmas for C03: what one open handling pass does to every selected handler's record
  (`open_pass_record`), and the list/arith facts the ranking function needs.
-/
import Kopf.Model.C03_Loop
import Kopf.Lemmas.C14_Resume
namespace Kopf.C03
open Kopf Kopf.C02

/-! ### integers (stated over `Int` so that `omega` sees them; `Tick` is an abbreviation) -/

theorem int_toNat_sub_le (d a b : Int) (h : a ≤ b) : (d - b).toNat ≤ (d - a).toNat := by omega

theorem int_max_sub (d a m : Int) (h : a < d) (hv : max 0 (d - a) = m) : m = d - a := by omega

/-! ### lists -/

theorem filter_length_le_of_imp {α} (p q : α → Bool) (l : List α) (h : ∀ x ∈ l, p x = true → q x = true) :
    (l.filter p).length ≤ (l.filter q).length := by
  induction l with
  | nil => simp
  | cons a as ih =>
    have ih' := ih (fun x hx => h x (List.mem_cons_of_mem _ hx))
    have ha := h a (by simp)
    simp only [List.filter_cons]
    cases hp : p a <;> cases hq : q a <;> simp_all <;> omega

theorem filter_length_lt_of_imp {α} (p q : α → Bool) (l : List α) (h : ∀ x ∈ l, p x = true → q x = true)
    (a : α) (ha : a ∈ l) (hqa : q a = true) (hpa : p a = false) :
    (l.filter p).length < (l.filter q).length := by
  induction l with
  | nil => simp at ha
  | cons b bs ih =>
    have hle := filter_length_le_of_imp p q bs (fun x hx => h x (List.mem_cons_of_mem _ hx))
    simp only [List.filter_cons]
    rcases List.mem_cons.1 ha with rfl | hin
    · simp [hqa, hpa]; omega
    · have ih' := ih (fun x hx => h x (List.mem_cons_of_mem _ hx)) hin
      have hb := h b (by simp)
      cases hp : p b <;> cases hq : q b <;> simp_all <;> omega

theorem sum_map_le {α} (f g : α → Nat) (l : List α) (h : ∀ x ∈ l, f x ≤ g x) :
    (l.map f).sum ≤ (l.map g).sum := by
  induction l with
  | nil => simp
  | cons a as ih =>
    have := ih (fun x hx => h x (List.mem_cons_of_mem _ hx))
    have := h a (by simp)
    simp only [List.map_cons, List.sum_cons]
    omega

theorem sum_map_lt {α} (f g : α → Nat) (l : List α) (h : ∀ x ∈ l, f x ≤ g x)
    (a : α) (ha : a ∈ l) (hlt : f a < g a) : (l.map f).sum < (l.map g).sum := by
  induction l with
  | nil => simp at ha
  | cons b bs ih =>
    have hle := sum_map_le f g bs (fun x hx => h x (List.mem_cons_of_mem _ hx))
    simp only [List.map_cons, List.sum_cons]
    rcases List.mem_cons.1 ha with rfl | hin
    · omega
    · have := ih (fun x hx => h x (List.mem_cons_of_mem _ hx)) hin
      have := h b (by simp)
      omega

theorem minDelay_mem : ∀ (l : List Tick) (m : Tick), minDelay l = some m → m ∈ l := by
  intro l
  induction l with
  | nil => intro m h; simp [minDelay] at h
  | cons d ds ih =>
    intro m h
    simp only [minDelay] at h
    cases hm : minDelay ds with
    | none => simp [hm] at h; simp [h]
    | some m' =>
      simp only [hm, Option.some.injEq] at h
      split at h
      · simp [← h]
      · subst h; exact List.mem_cons_of_mem _ (ih _ hm)

theorem minDelay_none : ∀ (l : List Tick), minDelay l = none → l = [] := by
  intro l h
  cases l with
  | nil => rfl
  | cons d ds =>
    simp only [minDelay] at h
    cases hm : minDelay ds <;> simp [hm] at h

theorem firstMin_some (st : St) : ∀ (l : List Id), l ≠ [] → ∃ x, firstMin st l = some x := by
  intro l hl
  cases l with
  | nil => exact absurd rfl hl
  | cons a as =>
    simp only [firstMin]
    cases firstMin st as with
    | none => exact ⟨a, rfl⟩
    | some y => by_cases h : retriesOf st a ≤ retriesOf st y <;> simp [h]

theorem plan_ne_nil (lc : Lifecycle) (st : St) (todo : List Id) (h : todo ≠ []) : plan lc st todo ≠ [] := by
  cases lc with
  | allAtOnce => simpa [plan] using h
  | oneByOne =>
    cases todo with
    | nil => exact absurd rfl h
    | cons a as => simp [plan]
  | asap =>
    obtain ⟨x, hx⟩ := firstMin_some st todo h
    simp [plan, hx]


/-! ### one open pass, record by record -/

def todoOf (cfg : Cfg) (P : Store) (now : Tick) : List Id :=
  cfg.selected.filter (fun j => match preState cfg P now j with | some h => h.r.awakened now | none => false)

def plannedOf (cfg : Cfg) (P : Store) (now : Tick) : List Id :=
  plan cfg.lifecycle (preState cfg P now) (todoOf cfg P now)

def outcomeFor (cfg : Cfg) (exec : Id → Nat → Outcome) (now : Tick) (r : Rec) (i : Id) : Outcome :=
  if precheckFails (cfg.limits i) r now then precheckOutcome else exec i r.retries

theorem pre_sel_value {cfg : Cfg} {P : Store} {now : Tick} {i : Id}
    (hsub : ∀ i ∈ cfg.selected, i ∈ cfg.owned) (hu : UniformOn cfg.owned P) (hs : i ∈ cfg.selected) :
    ∃ h0, preState cfg P now i = some h0 ∧ h0.r = startRec cfg P now (extras cfg P now) i ∧
      (if h0.dirty then some h0.r else midStore cfg P now i) = some h0.r := by
  have ho := hsub i hs
  cases hP : P i with
  | none =>
    by_cases hex : extras cfg P now = true
    · have hpre : preState cfg P now i = some { r := fresh now cfg.reason, active := true, dirty := true } := by
        unfold preState
        unfold extras at hex
        rw [if_pos hex]
        simp [repurpose, withHandlers, fromStorage, hs, ho, hP, fresh]
      exact ⟨_, hpre, by simp [startRec, hP], by simp⟩
    · have hpre : preState cfg P now i = some { r := fresh now cfg.reason, active := true, dirty := true } := by
        unfold preState
        unfold extras at hex
        rw [if_neg hex]
        simp [withHandlers, fromStorage, hs, ho, hP]
      exact ⟨_, hpre, by simp [startRec, hP], by simp⟩
  | some r =>
    by_cases hex : extras cfg P now = true
    · have hpre := preState_extras_selected (now := now) hex hs ho hP
      have hne := extras_purpose (now := now) hsub hu hex i ho r hP
      have hd : (r.purpose != some cfg.reason) = true := by simpa using hne
      exact ⟨_, hpre, by simp [startRec, hP, hex], by simp [hd]⟩
    · have hex' : extras cfg P now = false := by simpa using hex
      have hpre := preState_stored (now := now) hex' ho hP
      refine ⟨_, hpre, by simp [startRec, hP, hex'], ?_⟩
      simp [midStore_noExtras hex', hP]

theorem post_sel_value {cfg : Cfg} {P : Store} {now now1 : Tick} {exec : Id → Nat → Outcome} {i : Id} {h0 : HS}
    (hpre : preState cfg P now i = some h0) :
    postState cfg P now now1 exec i =
      if i ∈ plannedOf cfg P now
      then some { h0 with r := withOutcome h0.r (outcomeFor cfg exec now h0.r i) now1, dirty := true }
      else some h0 := by
  unfold postState execOnce plannedOf todoOf outcomeFor
  simp only [hpre]
  rfl

/-- What an open pass leaves on the object for a selected handler: planned handlers get their
    outcome recorded, all others keep (or get) the record the pass started from. -/
theorem open_pass_record (cfg : Cfg) (P : Store) (now now1 : Tick) (exec : Id → Nat → Outcome)
    (hsub : ∀ i ∈ cfg.selected, i ∈ cfg.owned) (hu : UniformOn cfg.owned P)
    (hr : handlerReasons.contains cfg.reason = true) (hne : cfg.selected.isEmpty = false)
    (hopen : (cycle cfg P now now1 exec).closed = false) (i : Id) (hs : i ∈ cfg.selected) :
    (cycle cfg P now now1 exec).P' i =
      some (if i ∈ plannedOf cfg P now
            then withOutcome (startRec cfg P now (extras cfg P now) i)
                   (outcomeFor cfg exec now (startRec cfg P now (extras cfg P now) i) i) now1
            else startRec cfg P now (extras cfg P now) i) := by
  rw [cycle_main cfg P now now1 exec hr hne] at hopen ⊢
  simp only at hopen
  simp only [hopen, Bool.false_eq_true, if_false]
  obtain ⟨h0, hpre, hr0, hval⟩ := pre_sel_value (now := now) hsub hu hs
  have hpost := post_sel_value (now1 := now1) (exec := exec) hpre
  unfold store
  rw [hpost]
  by_cases hp : i ∈ plannedOf cfg P now
  · simp [hp, hr0]
  · simp only [hp, if_false]
    rw [← hr0]
    exact hval


/-! ### consequences for the ranking function -/

theorem startRec_awake (cfg : Cfg) (P : Store) (now : Tick) (ex : Bool) (i : Id) :
    (startRec cfg P now ex i).awakened now = awakeP P now i := by
  unfold startRec awakeP
  cases hP : P i with
  | none => simp [fresh, Rec.awakened, Rec.sleeping, Rec.finished]
  | some r => cases ex <;> simp [Rec.awakened, Rec.sleeping, Rec.finished]

theorem startRec_unfin (cfg : Cfg) (P : Store) (now : Tick) (ex : Bool) (i : Id) :
    (!(startRec cfg P now ex i).finished) = unfin P i := by
  unfold startRec unfin
  cases hP : P i with
  | none => simp [fresh, Rec.finished]
  | some r => cases ex <;> simp [Rec.finished]

theorem awake_unfin {P : Store} {now : Tick} {i : Id} (h : awakeP P now i = true) : unfin P i = true := by
  unfold awakeP at h
  unfold unfin
  cases hP : P i with
  | none => rfl
  | some r => simp only [hP] at h; simp [awakened_not_finished h]

theorem todoOf_eq {cfg : Cfg} {P : Store} {now : Tick}
    (hsub : ∀ i ∈ cfg.selected, i ∈ cfg.owned) :
    todoOf cfg P now = cfg.selected.filter (awakeP P now) := by
  unfold todoOf
  apply List.filter_congr
  intro j hj
  obtain ⟨h0, hpre, _, hr0⟩ := preState_selected (P := P) (now := now) hj (hsub j hj)
  simp only [hpre, hr0, startRec_awake]

theorem planned_sub {cfg : Cfg} {P : Store} {now : Tick} {i : Id}
    (hsub : ∀ i ∈ cfg.selected, i ∈ cfg.owned) (h : i ∈ plannedOf cfg P now) :
    i ∈ cfg.selected ∧ awakeP P now i = true := by
  have := plan_sub _ _ _ i h
  rw [todoOf_eq hsub] at this
  simpa using this

theorem planned_ne_nil {cfg : Cfg} {P : Store} {now : Tick} {i : Id}
    (hsub : ∀ i ∈ cfg.selected, i ∈ cfg.owned) (hs : i ∈ cfg.selected) (ha : awakeP P now i = true) :
    ∃ j, j ∈ plannedOf cfg P now := by
  have hne : todoOf cfg P now ≠ [] := by
    rw [todoOf_eq hsub]
    intro h
    have : i ∈ cfg.selected.filter (awakeP P now) := by simp [hs, ha]
    rw [h] at this
    simp at this
  have := plan_ne_nil cfg.lifecycle (preState cfg P now) _ hne
  cases hpl : plannedOf cfg P now with
  | nil => exact absurd hpl this
  | cons a as => exact ⟨a, by simp⟩

theorem outcomeFor_final {cfg : Cfg} {exec : Id → Nat → Outcome} (hfin : ∀ i n, (exec i n).final = true)
    (now : Tick) (r : Rec) (i : Id) : (outcomeFor cfg exec now r i).final = true := by
  unfold outcomeFor
  split
  · rfl
  · exact hfin _ _

/-- every handler THIS pass runs gets a final outcome (a failed precheck — timeout, retries exhausted — is final) -/
def PlanFinal (cfg : Cfg) (P : Store) (now : Tick) (exec : Id → Nat → Outcome) : Prop :=
  ∀ i ∈ plannedOf cfg P now,
    (outcomeFor cfg exec now (startRec cfg P now (extras cfg P now) i) i).final = true

theorem planFinal_of_allFinal {cfg : Cfg} {P : Store} {now : Tick} {exec : Id → Nat → Outcome}
    (hfin : ∀ i n, (exec i n).final = true) : PlanFinal cfg P now exec :=
  fun i _ => outcomeFor_final hfin now _ i

section OpenPass
variable (cfg : Cfg) (P : Store) (now now1 : Tick) (exec : Id → Nat → Outcome)
variable (hsub : ∀ i ∈ cfg.selected, i ∈ cfg.owned) (hu : UniformOn cfg.owned P)
variable (hr : handlerReasons.contains cfg.reason = true) (hne : cfg.selected.isEmpty = false)
variable (hopen : (cycle cfg P now now1 exec).closed = false)
variable (hfin : PlanFinal cfg P now exec)
include hsub hu hr hne hopen hfin

/-- after an open pass a selected handler is unfinished iff it was unfinished and was not run -/
theorem open_unfin (i : Id) (hs : i ∈ cfg.selected) :
    unfin (cycle cfg P now now1 exec).P' i = (unfin P i && !decide (i ∈ plannedOf cfg P now)) := by
  have hrec := open_pass_record cfg P now now1 exec hsub hu hr hne hopen i hs
  unfold unfin at *
  rw [hrec]
  by_cases hp : i ∈ plannedOf cfg P now
  · simp [hp, withOutcome_finished, hfin i hp]
  · simp only [hp, if_false, decide_false, Bool.not_false, Bool.and_true]
    have := startRec_unfin cfg P now (extras cfg P now) i
    unfold unfin at this
    exact this

theorem open_slack (cap : Tick) (now' : Tick) (hle : now ≤ now') (i : Id) (hs : i ∈ cfg.selected) :
    slack cap (cycle cfg P now now1 exec).P' now' i ≤ slack cap P now i := by
  have hrec := open_pass_record cfg P now now1 exec hsub hu hr hne hopen i hs
  unfold slack
  rw [hrec]
  by_cases hp : i ∈ plannedOf cfg P now
  · simp [hp, withOutcome_finished, hfin i hp]
  · simp only [hp, if_false]
    unfold startRec
    cases hP : P i with
    | none => simp [fresh, Rec.finished]
    | some r =>
      have hfeq : ∀ b : Bool, (if b = true then ({ r with purpose := some cfg.reason } : Rec) else r).finished = r.finished := by
        intro b; cases b <;> rfl
      have hdeq : ∀ b : Bool, (if b = true then ({ r with purpose := some cfg.reason } : Rec) else r).delayed = r.delayed := by
        intro b; cases b <;> rfl
      simp only [hfeq, hdeq]
      cases hf : r.finished
      · simp only [Bool.false_eq_true, if_false]
        cases hd : r.delayed with
        | none => simp
        | some d =>
          simp only
          apply Nat.div_le_div_right
          exact int_toNat_sub_le d now now' hle
      · simp

end OpenPass

/-! ### the pass in which every unfinished selected handler sleeps -/

theorem post_eq_pre {cfg : Cfg} {P : Store} {now now1 : Tick} {exec : Id → Nat → Outcome}
    (h : plannedOf cfg P now = []) (j : Id) :
    postState cfg P now now1 exec j = preState cfg P now j := by
  unfold postState execOnce
  simp only
  split
  · rename_i hmem
    have hm : j ∈ plannedOf cfg P now := hmem
    rw [h] at hm
    simp at hm
  · rfl

theorem planned_nil_of_none_awake {cfg : Cfg} {P : Store} {now : Tick}
    (hsub : ∀ i ∈ cfg.selected, i ∈ cfg.owned)
    (hna : ∀ i ∈ cfg.selected, awakeP P now i = false) : plannedOf cfg P now = [] := by
  cases hpl : plannedOf cfg P now with
  | nil => rfl
  | cons a as =>
    have ha : a ∈ plannedOf cfg P now := by rw [hpl]; simp
    obtain ⟨hs, haw⟩ := planned_sub hsub ha
    rw [hna a hs] at haw
    cases haw

theorem pre_clean {cfg : Cfg} {P : Store} {now : Tick}
    (hsub : ∀ i ∈ cfg.selected, i ∈ cfg.owned) (hex : extras cfg P now = false)
    (hna : ∀ i ∈ cfg.selected, awakeP P now i = false) (j : Id) (h : HS)
    (hpre : preState cfg P now j = some h) : h.dirty = false ∧ (∀ r, P j = some r → h.r = r) := by
  by_cases hs : j ∈ cfg.selected
  · have ho := hsub j hs
    cases hP : P j with
    | none => have := hna j hs; simp [awakeP, hP] at this
    | some r =>
      rw [preState_stored hex ho hP] at hpre
      cases hpre
      exact ⟨rfl, fun r' h' => by cases h'; rfl⟩
  · rw [preState_noExtras hex] at hpre
    unfold withHandlers fromStorage at hpre
    by_cases ho : j ∈ cfg.owned
    · cases hP : P j with
      | none => simp [hs, ho, hP] at hpre
      | some r =>
        simp [hs, ho, hP] at hpre
        rw [← hpre]
        exact ⟨rfl, fun r' h' => by cases h'; rfl⟩
    · simp [hs, ho] at hpre

/-- nobody is due and no record is superseded: the pass leaves the object exactly as it is -/
theorem sleep_pass_id {cfg : Cfg} {P : Store} {now now1 : Tick} {exec : Id → Nat → Outcome}
    (hsub : ∀ i ∈ cfg.selected, i ∈ cfg.owned)
    (hr : handlerReasons.contains cfg.reason = true) (hne : cfg.selected.isEmpty = false)
    (hopen : (cycle cfg P now now1 exec).closed = false)
    (hex : extras cfg P now = false) (hna : ∀ i ∈ cfg.selected, awakeP P now i = false) (j : Id) :
    (cycle cfg P now now1 exec).P' j = P j := by
  rw [cycle_main cfg P now now1 exec hr hne] at hopen ⊢
  simp only at hopen
  simp only [hopen, Bool.false_eq_true, if_false]
  rw [midStore_noExtras hex]
  unfold store
  rw [post_eq_pre (planned_nil_of_none_awake hsub hna)]
  cases hpre : preState cfg P now j with
  | none => rfl
  | some h => simp [(pre_clean hsub hex hna j h hpre).1]

theorem delays_ne_nil (st : St) (ids : List Id) (now2 : Tick) (h : done st ids = false) :
    delays st ids.eraseDups now2 ≠ [] := by
  unfold done at h
  rw [List.all_eq_false] at h
  obtain ⟨i, hi, hv⟩ := h
  cases hst : st i with
  | none => simp [hst] at hv
  | some hs =>
    simp only [hst, Bool.not_eq_true, Bool.or_eq_false_iff, Bool.not_eq_false'] at hv
    intro hnil
    have hmem : i ∈ ids.eraseDups := List.mem_eraseDups.2 hi
    unfold delays at hnil
    rw [List.filterMap_eq_nil_iff] at hnil
    have := hnil i hmem
    simp [hst, hv.1, hv.2] at this

theorem delays_nonneg (st : St) (ids : List Id) (now2 : Tick) : ∀ d ∈ delays st ids now2, 0 ≤ d := by
  intro d hd
  unfold delays at hd
  rw [List.mem_filterMap] at hd
  obtain ⟨i, _, hv⟩ := hd
  cases hst : st i with
  | none => simp [hst] at hv
  | some hs =>
    simp only [hst] at hv
    split at hv
    · cases hdl : hs.r.delayed with
      | none => simp [hdl] at hv; rw [← hv]; exact Int.le_refl 0
      | some d' => simp [hdl] at hv; rw [← hv]; exact Int.le_max_left 0 _
    · cases hv

/-- in the all-asleep pass every listed delay is the remaining time of a sleeping selected handler -/
theorem sleep_pass_delay {cfg : Cfg} {P : Store} {now : Tick} {exec : Id → Nat → Outcome}
    (hsub : ∀ i ∈ cfg.selected, i ∈ cfg.owned)
    (hr : handlerReasons.contains cfg.reason = true) (hne : cfg.selected.isEmpty = false)
    (hex : extras cfg P now = false) (hna : ∀ i ∈ cfg.selected, awakeP P now i = false)
    (m : Tick) (hm : m ∈ (cycle cfg P now now exec).delays) :
    ∃ i ∈ cfg.selected, ∃ r d, P i = some r ∧ r.finished = false ∧ r.delayed = some d ∧ now < d ∧ m = d - now := by
  rw [cycle_main cfg P now now exec hr hne] at hm
  simp only at hm
  have hfun : postState cfg P now now exec = preState cfg P now :=
    funext (post_eq_pre (planned_nil_of_none_awake hsub hna))
  rw [hfun] at hm
  unfold delays at hm
  rw [List.mem_filterMap] at hm
  obtain ⟨i, _, hv⟩ := hm
  cases hpre : preState cfg P now i with
  | none => simp [hpre] at hv
  | some h =>
    simp only [hpre] at hv
    split at hv
    · rename_i hact
      simp only [Bool.and_eq_true, Bool.not_eq_true'] at hact
      have hs : i ∈ cfg.selected := (preState_active hpre).1 hact.1
      cases hP : P i with
      | none => have := hna i hs; simp [awakeP, hP] at this
      | some r =>
        have hrr := (pre_clean hsub hex hna i h hpre).2 r hP
        rw [hrr] at hact hv
        have haw := hna i hs
        simp only [awakeP, hP, Rec.awakened, Rec.sleeping, hact.2, Bool.not_false, Bool.true_and,
          Bool.not_eq_false'] at haw
        cases hd : r.delayed with
        | none => simp [hd] at haw
        | some d =>
          simp only [hd, decide_eq_true_eq] at haw
          simp only [hd, Option.some.injEq] at hv
          exact ⟨i, hs, r, d, hP, hact.2, hd, haw, int_max_sub d now m haw hv⟩
    · cases hv

/-- the link to what the pass reports: if every invocation the pass makes has a final scripted outcome, then every
    handler it runs gets a final outcome -/
theorem planFinal_of_invoked {cfg : Cfg} {P : Store} {now now1 : Tick} {exec : Id → Nat → Outcome}
    (hsub : ∀ i ∈ cfg.selected, i ∈ cfg.owned) (hu : UniformOn cfg.owned P)
    (hr : handlerReasons.contains cfg.reason = true) (hne : cfg.selected.isEmpty = false)
    (h : ∀ p ∈ (cycle cfg P now now1 exec).invoked, (exec p.1 p.2).final = true) :
    PlanFinal cfg P now exec := by
  intro i hi
  unfold outcomeFor
  split
  · rfl
  · rename_i hpc
    obtain ⟨his, _⟩ := planned_sub hsub hi
    obtain ⟨h0, hpre, hr0, _⟩ := pre_sel_value (now := now) hsub hu his
    apply h (i, (startRec cfg P now (extras cfg P now) i).retries)
    rw [cycle_main cfg P now now1 exec hr hne]
    simp only
    unfold execOnce
    simp only [List.mem_map, List.mem_filter]
    refine ⟨i, ⟨hi, ?_⟩, ?_⟩
    · simp [hpre, hr0, hpc]
    · simp [retriesOf, hpre, hr0]

end Kopf.C03
