/-
  C10 helper lemmas: the sleeps, the idle gate, the poll loop, soundness of the fuelled executable
  functions w.r.t. the relations, and the lifting of one-step facts to whole run sequences.
-/
import Kopf.Model.C10_Timer
namespace Kopf.C10

theorem sleepUntil_ge (now d : Int) : now ≤ sleepUntil now d := by
  unfold sleepUntil; split <;> omega

theorem sleepUntil_ge_add (now d : Int) : now + d ≤ sleepUntil now d := by
  unfold sleepUntil; split <;> omega

theorem sleepUntil_pos {now d : Int} (h : 0 < d) : sleepUntil now d = now + d := by
  unfold sleepUntil; split <;> omega

theorem sleepUntil_max (now d : Int) : sleepUntil now d = max now (now + d) := by
  unfold sleepUntil; split <;> omega

/-- the error-delay sleep ends at `max(patched, ended + d)` -/
theorem sleep_stateDelay (ended now d : Int) :
    sleepUntil now (stateDelay ended now (some d)) = max now (ended + d) := by
  by_cases h : ended + d - now ≤ 0
  · have e : stateDelay ended now (some d) = 0 := by simp [stateDelay, h]
    rw [e]; unfold sleepUntil; simp; omega
  · have e : stateDelay ended now (some d) = ended + d - now := by simp [stateDelay, h]
    rw [e]; unfold sleepUntil; rw [if_neg h]; omega

theorem sleep_stateDelay_none (ended now : Int) :
    sleepUntil now (stateDelay ended now none) = now := by
  simp [sleepUntil, stateDelay]

/-! ### the idle gate -/

theorem IdleWait.ge {idle : Int} {view : View} {t t' : Int} (h : IdleWait idle view t t') : t ≤ t' := by
  induction h with
  | pass _ => exact Int.le_refl _
  | wait hlt _ ih => omega

theorem IdleWait.idle_ok {idle : Int} {view : View} {t t' : Int} (h : IdleWait idle view t t') :
    idle ≤ t' - view t' := by
  induction h with
  | pass hn => omega
  | wait _ _ ih => exact ih

/-- the gate is left either at once, or exactly `idle` after a reset that was read while waiting -/
theorem IdleWait.form {idle : Int} {view : View} {t t' : Int} (h : IdleWait idle view t t') :
    t' = t ∨ ∃ u, t ≤ u ∧ u < t' ∧ t' = view u + idle := by
  induction h with
  | pass _ => exact Or.inl rfl
  | @wait t t' hlt h' ih =>
    right
    rcases ih with ih | ⟨u, hu1, hu2, hu3⟩
    · exact ⟨t, Int.le_refl _, by omega, by omega⟩
    · exact ⟨u, by omega, hu2, hu3⟩

/-- with no change read after `t` (the view stays `v`), the gate is left at `max t (v + idle)` -/
theorem IdleWait.quiet {idle : Int} {view : View} {t t' v : Int} (hq : ∀ u, t ≤ u → view u = v)
    (h : IdleWait idle view t t') : t' = max t (v + idle) := by
  induction h with
  | @pass t hn => have := hq t (Int.le_refl _); omega
  | @wait t t' hlt h' ih =>
    have h0 := hq t (Int.le_refl _)
    have := ih (fun u hu => hq u (by omega))
    omega

theorem Gate.ge {cfg : Cfg} {view : View} {t t' : Int} (h : Gate cfg view t t') : t ≤ t' := by
  unfold Gate at h
  split at h
  · omega
  · exact h.ge

theorem Gate.no_idle {cfg : Cfg} {view : View} {t t' : Int} (hn : cfg.idle = none) (h : Gate cfg view t t') :
    t' = t := by
  unfold Gate at h; rw [hn] at h; exact h

theorem Gate.idle_ok {cfg : Cfg} {view : View} {t t' idle : Int} (hi : cfg.idle = some idle)
    (h : Gate cfg view t t') : idle ≤ t' - view t' := by
  unfold Gate at h; rw [hi] at h; exact h.idle_ok

theorem Gate.form {cfg : Cfg} {view : View} {t t' idle : Int} (hi : cfg.idle = some idle)
    (h : Gate cfg view t t') : t' = t ∨ ∃ u, t ≤ u ∧ u < t' ∧ t' = view u + idle := by
  unfold Gate at h; rw [hi] at h; exact h.form

theorem Gate.quiet {cfg : Cfg} {view : View} {t t' idle v : Int} (hi : cfg.idle = some idle)
    (hq : ∀ u, t ≤ u → view u = v) (h : Gate cfg view t t') : t' = max t (v + idle) := by
  unfold Gate at h; rw [hi] at h; exact h.quiet hq

/-! ### the idle-only poll loop -/

theorem Poll.ge {idle : Int} {view : View} {start p p' : Int} (h : Poll idle view start p p') : p ≤ p' := by
  induction h with
  | exit _ => exact Int.le_refl _
  | @again p p' _ _ ih => have := sleepUntil_ge p idle; omega

theorem Poll.seen {idle : Int} {view : View} {start p p' : Int} (h : Poll idle view start p p') :
    start < view p' := by
  induction h with
  | exit hn => omega
  | again _ _ ih => exact ih

/-! ### soundness of the executable functions -/

def Extends (pv : PView) (view : View) : Prop := ∀ t v, pv t = some v → view t = v

theorem idleWaitN_sound {idle : Int} {pv : PView} {view : View} (hx : Extends pv view) :
    ∀ (n : Nat) (t t' : Int), idleWaitN idle pv n t = .start t' → IdleWait idle view t t' := by
  intro n
  induction n with
  | zero => intro t t' e; simp [idleWaitN] at e
  | succ n ih =>
    intro t t' e
    unfold idleWaitN at e
    split at e
    · cases e
    · rename_i v hv
      have hv' := hx t v hv
      split at e
      · rename_i hlt
        exact .wait (by rw [hv']; exact hlt) (by rw [hv']; exact ih _ _ e)
      · rename_i hn
        cases e
        exact .pass (by rw [hv']; exact hn)

theorem gateN_sound {cfg : Cfg} {pv : PView} {view : View} (hx : Extends pv view) {n : Nat} {t t' : Int}
    (e : gateN cfg pv n t = .start t') : Gate cfg view t t' := by
  unfold gateN at e
  unfold Gate
  split at e
  · cases e; rfl
  · exact idleWaitN_sound hx n t t' e

theorem pollN_sound {idle : Int} {pv : PView} {view : View} {start : Int} (hx : Extends pv view) :
    ∀ (n : Nat) (p p' : Int), pollN idle pv start n p = .start p' → Poll idle view start p p' := by
  intro n
  induction n with
  | zero => intro p p' e; simp [pollN] at e
  | succ n ih =>
    intro p p' e
    unfold pollN at e
    split at e
    · cases e
    · rename_i v hv
      have hv' := hx p v hv
      split at e
      · rename_i hle
        exact .again (by rw [hv']; exact hle) (ih _ _ e)
      · rename_i hn
        cases e
        exact .exit (by rw [hv']; exact hn)

theorem nextStartN_sound {cfg : Cfg} {pv : PView} {view : View} (hx : Extends pv view) {n : Nat} {r : Run}
    {t' : Int} (e : nextStartN cfg pv n r = .start t') : Next cfg view r t' := by
  unfold nextStartN at e
  unfold Next
  split at e
  · split at e <;> cases e
  · rename_i hnf
    refine ⟨hnf, ?_⟩
    split at e
    · exact gateN_sound hx e
    · split at e
      · rename_i p hp
        exact ⟨p, pollN_sound hx n _ _ hp, gateN_sound hx e⟩
      · rename_i other hne
        exact (hne _ e).elim
    · cases e

theorem firstStartN_sound {cfg : Cfg} {pv : PView} {view : View} (hx : Extends pv view) {n : Nat}
    {spawn t' : Int} (e : firstStartN cfg pv n spawn = .start t') : First cfg view spawn t' :=
  gateN_sound hx e

theorem extends_total (view : View) : Extends (fun t => some (view t)) view := by
  intro t v h; cases h; rfl

/-! ### one step -/

/-- every post-run sleep is entered at `patched` and never ends earlier -/
theorem wake_at_ge {cfg : Cfg} {r : Run} {w : Int} (h : wake cfg r = .at w) : r.patched ≤ w := by
  unfold wake at h
  split at h
  · cases h; exact sleepUntil_ge _ _
  · split at h
    · split at h <;> (cases h; exact sleepUntil_ge _ _)
    · split at h <;> cases h

theorem Next.ge_patched {cfg : Cfg} {view : View} {r : Run} {t' : Int} (h : Next cfg view r t') :
    r.patched ≤ t' := by
  unfold Next at h
  replace h := h.2
  split at h
  · rename_i w hw
    have := wake_at_ge hw
    have := h.ge
    omega
  · obtain ⟨p, hp, hg⟩ := h
    have := hp.ge
    have := hg.ge
    omega
  · exact h.elim

theorem Next.idle_ok {cfg : Cfg} {view : View} {r : Run} {t' idle : Int} (hi : cfg.idle = some idle)
    (h : Next cfg view r t') : idle ≤ t' - view t' := by
  unfold Next at h
  replace h := h.2
  split at h
  · exact Gate.idle_ok hi h
  · obtain ⟨p, _, hg⟩ := h
    exact Gate.idle_ok hi hg
  · exact h.elim

/-! ### lifting to run sequences -/

/-- a fact about consecutive runs that follows from one step holds for every consecutive pair -/
theorem Chain.consecutive {cfg : Cfg} {view : View} {P : Run → Run → Prop}
    (hP : ∀ r r', r.WF → r'.WF → Next cfg view r r'.start → r'.attempt = nextAttempt cfg r → P r r') :
    ∀ (rs : List Run) (r : Run), r.WF → Chain cfg view r rs →
      ∀ (n : Nat) (a b : Run), (r :: rs)[n]? = some a → (r :: rs)[n + 1]? = some b → P a b := by
  intro rs
  induction rs with
  | nil => intro r _ _ n a b _ hb; simp at hb
  | cons r' rs ih =>
    intro r hwf hc n a b ha hb
    cases hc with
    | cons hn hwf' hat hc' =>
      cases n with
      | zero =>
        simp at ha hb
        subst ha; subst hb
        exact hP _ _ hwf hwf' hn hat
      | succ n =>
        simp only [List.getElem?_cons_succ] at ha hb
        exact ih r' hwf' hc' n a b ha hb

/-- a fact about a run's start that follows from the step leading to it holds for every later run -/
theorem Chain.forall_tail {cfg : Cfg} {view : View} {Q : Run → Prop}
    (hQ : ∀ r r', Next cfg view r r'.start → Q r') :
    ∀ (rs : List Run) (r : Run), Chain cfg view r rs → ∀ x ∈ rs, Q x := by
  intro rs
  induction rs with
  | nil => intro r _ x hx; cases hx
  | cons r' rs ih =>
    intro r hc x hx
    cases hc with
    | cons hn _ _ hc' =>
      cases hx with
      | head => exact hQ _ _ hn
      | tail _ hx' => exact ih r' hc' x hx'

end Kopf.C10
