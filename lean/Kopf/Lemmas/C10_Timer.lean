/-
  C10 helper lemmas: the sleeps, the idle gate, the poll loop, soundness of the fuelled executable
  functions w.r.t. the relations, and the lifting of one-step facts to whole run sequences.
-/
import Kopf.Model.C10_Timer
namespace Kopf.C10

theorem sleepUntil_ge (now d : Int) : now ≤ sleepUntil now d := by
  unfold sleepUntil; split <;> omega

theorem sleepUntil_ge_add (now d : Int) : now + d ≤ sleepUntil now d := by
  unfold sleepUntil; split <;> omega

theorem sleepUntil_pos {now d : Int} (h : 0 < d) : sleepUntil now d = now + d := by
  unfold sleepUntil; split <;> omega

theorem sleepUntil_max (now d : Int) : sleepUntil now d = max now (now + d) := by
  unfold sleepUntil; split <;> omega

/-- the error-delay sleep ends at `max(now, delayed)` -/
theorem sleep_delay (h : HState) (now d : Int) (hd : h.delayed = some d) :
    sleepUntil now (h.delay now) = max now d := by
  by_cases hc : d - now ≤ 0
  · have e : h.delay now = 0 := by simp [HState.delay, hd, hc]
    rw [e]; unfold sleepUntil; simp; omega
  · have e : h.delay now = d - now := by simp [HState.delay, hd, hc]
    rw [e]; unfold sleepUntil; rw [if_neg hc]; omega

theorem sleep_delay_none (h : HState) (now : Int) (hd : h.delayed = none) :
    sleepUntil now (h.delay now) = now := by
  simp [sleepUntil, HState.delay, hd]

/-! ### the idle gate -/

theorem IdleWait.ge {idle : Int} {view : View} {t t' : Int} (h : IdleWait idle view t t') : t ≤ t' := by
  induction h with
  | pass _ => exact Int.le_refl _
  | wait hlt _ ih => omega

theorem IdleWait.idle_ok {idle : Int} {view : View} {t t' : Int} (h : IdleWait idle view t t') :
    idle ≤ t' - view t' := by
  induction h with
  | pass hn => omega
  | wait _ _ ih => exact ih

/-- the gate is left either at once, or exactly `idle` after a reset that was read while waiting -/
theorem IdleWait.form {idle : Int} {view : View} {t t' : Int} (h : IdleWait idle view t t') :
    t' = t ∨ ∃ u, t ≤ u ∧ u < t' ∧ t' = view u + idle := by
  induction h with
  | pass _ => exact Or.inl rfl
  | @wait t t' hlt h' ih =>
    right
    rcases ih with ih | ⟨u, hu1, hu2, hu3⟩
    · exact ⟨t, Int.le_refl _, by omega, by omega⟩
    · exact ⟨u, by omega, hu2, hu3⟩

/-- with no change read after `t` (the view stays `v`), the gate is left at `max t (v + idle)` -/
theorem IdleWait.quiet {idle : Int} {view : View} {t t' v : Int} (hq : ∀ u, t ≤ u → view u = v)
    (h : IdleWait idle view t t') : t' = max t (v + idle) := by
  induction h with
  | @pass t hn => have := hq t (Int.le_refl _); omega
  | @wait t t' hlt h' ih =>
    have h0 := hq t (Int.le_refl _)
    have := ih (fun u hu => hq u (by omega))
    omega

theorem Gate.ge {cfg : Cfg} {view : View} {t t' : Int} (h : Gate cfg view t t') : t ≤ t' := by
  unfold Gate at h
  split at h
  · omega
  · exact h.ge

theorem Gate.no_idle {cfg : Cfg} {view : View} {t t' : Int} (hn : cfg.idle = none) (h : Gate cfg view t t') :
    t' = t := by
  unfold Gate at h; rw [hn] at h; exact h

theorem Gate.idle_ok {cfg : Cfg} {view : View} {t t' idle : Int} (hi : cfg.idle = some idle)
    (h : Gate cfg view t t') : idle ≤ t' - view t' := by
  unfold Gate at h; rw [hi] at h; exact h.idle_ok

theorem Gate.form {cfg : Cfg} {view : View} {t t' idle : Int} (hi : cfg.idle = some idle)
    (h : Gate cfg view t t') : t' = t ∨ ∃ u, t ≤ u ∧ u < t' ∧ t' = view u + idle := by
  unfold Gate at h; rw [hi] at h; exact h.form

theorem Gate.quiet {cfg : Cfg} {view : View} {t t' idle v : Int} (hi : cfg.idle = some idle)
    (hq : ∀ u, t ≤ u → view u = v) (h : Gate cfg view t t') : t' = max t (v + idle) := by
  unfold Gate at h; rw [hi] at h; exact h.quiet hq

/-! ### the idle-only poll loop -/

theorem Poll.ge {idle : Int} {view : View} {start p p' : Int} (h : Poll idle view start p p') : p ≤ p' := by
  induction h with
  | exit _ => exact Int.le_refl _
  | @again p p' _ _ ih => have := sleepUntil_ge p idle; omega

theorem Poll.seen {idle : Int} {view : View} {start p p' : Int} (h : Poll idle view start p p') :
    start < view p' := by
  induction h with
  | exit hn => omega
  | again _ _ ih => exact ih

/-! ### soundness of the executable functions -/

theorem idleWaitN_sound {idle : Int} {pv : PView} {view : View} (hx : Extends pv view) :
    ∀ (n : Nat) (t x t' : Int), idleWaitN idle pv n t = .start x t' → IdleWait idle view t t' := by
  intro n
  induction n with
  | zero => intro t x t' e; simp [idleWaitN] at e
  | succ n ih =>
    intro t x t' e
    unfold idleWaitN at e
    split at e
    · cases e
    · rename_i v hv
      have hv' := hx t v hv
      split at e
      · rename_i hlt
        exact .wait (by rw [hv']; exact hlt) (by rw [hv']; exact ih _ _ _ e)
      · rename_i hn
        cases e
        exact .pass (by rw [hv']; exact hn)

theorem gateN_sound {cfg : Cfg} {pv : PView} {view : View} (hx : Extends pv view) {n : Nat} {t top t' : Int}
    (e : gateN cfg pv n t = .start top t') : top = t ∧ Gate cfg view t t' := by
  unfold gateN at e
  unfold Gate
  split at e
  · cases e; exact ⟨rfl, rfl⟩
  · split at e
    · rename_i x t'' hw
      cases e
      exact ⟨rfl, idleWaitN_sound hx n t x _ hw⟩
    · rename_i other hne
      exact (hne _ _ e).elim

theorem pollN_sound {idle : Int} {pv : PView} {view : View} {start : Int} (hx : Extends pv view) :
    ∀ (n : Nat) (p x p' : Int), pollN idle pv start n p = .start x p' → Poll idle view start p p' := by
  intro n
  induction n with
  | zero => intro p x p' e; simp [pollN] at e
  | succ n ih =>
    intro p x p' e
    unfold pollN at e
    split at e
    · cases e
    · rename_i v hv
      have hv' := hx p v hv
      split at e
      · rename_i hle
        exact .again (by rw [hv']; exact hle) (ih _ _ _ e)
      · rename_i hn
        cases e
        exact .exit (by rw [hv']; exact hn)

theorem nextStartN_sound {cfg : Cfg} {pv : PView} {view : View} (hx : Extends pv view) {n : Nat} {h' : HState}
    {it : Iter} {top t' : Int} (e : nextStartN cfg pv n h' it = .start top t') : Next cfg view h' it top t' := by
  unfold nextStartN at e
  unfold Next
  split at e
  · exact gateN_sound hx e
  · split at e
    · rename_i x p hp
      obtain ⟨h1, h2⟩ := gateN_sound hx e
      subst h1
      exact ⟨pollN_sound hx n _ _ _ hp, h2⟩
    · rename_i other hne
      exact (hne _ _ e).elim
  · cases e

theorem firstStartN_sound {cfg : Cfg} {pv : PView} {view : View} (hx : Extends pv view) {n : Nat}
    {spawn top t' : Int} (e : firstStartN cfg pv n spawn = .start top t') : First cfg view spawn top t' := by
  obtain ⟨h1, h2⟩ := gateN_sound hx e
  subst h1
  exact ⟨rfl, h2⟩

theorem extends_total (view : View) : Extends (fun t => some (view t)) view := by
  intro t v h; cases h; rfl

/-! ### one step -/

/-- every post-run sleep is entered at `patched` and never ends earlier -/
theorem wake_at_ge {cfg : Cfg} {h' : HState} {it : Iter} {w : Int} (h : wake cfg h' it = .at w) : it.patched ≤ w := by
  unfold wake at h
  split at h
  · cases h; exact sleepUntil_ge _ _
  · split at h
    · split at h <;> (cases h; exact sleepUntil_ge _ _)
    · split at h <;> cases h

theorem Next.ge_patched {cfg : Cfg} {view : View} {h' : HState} {it : Iter} {top' t' : Int}
    (h : Next cfg view h' it top' t') : it.patched ≤ top' ∧ top' ≤ t' := by
  unfold Next at h
  split at h
  · rename_i w hw
    have := wake_at_ge hw
    have := h.2.ge
    have := h.1
    omega
  · exact ⟨h.1.ge, h.2.ge⟩
  · exact h.elim

theorem Next.idle_ok {cfg : Cfg} {view : View} {h' : HState} {it : Iter} {top' t' idle : Int} (hi : cfg.idle = some idle)
    (h : Next cfg view h' it top' t') : idle ≤ t' - view t' := by
  unfold Next at h
  split at h
  · exact Gate.idle_ok hi h.2
  · exact Gate.idle_ok hi h.2
  · exact h.elim

/-- a retrying state does not come round the loop top before its `delayed` instant -/
theorem Next.ge_delayed {cfg : Cfg} {view : View} {h' : HState} {it : Iter} {top' t' d : Int}
    (hf : h'.finished = false) (hd : h'.delayed = some d) (h : Next cfg view h' it top' t') : d ≤ top' := by
  unfold Next at h
  have hw : wake cfg h' it = .at (max it.patched d) := by
    unfold wake; simp [hf, sleep_delay h' it.patched d hd]
  rw [hw] at h
  have := h.1
  omega

/-! ### the carried state -/

theorem entry_eq (h : HState) (top start : Int) :
    h.entry top start = if (h.finished && !h.failure) || h.retries == 0 then HState.fresh start else h := by
  unfold HState.entry HState.atTop HState.atStart
  by_cases hc : (h.finished && !h.failure) = true
  · simp [hc, HState.fresh]
  · by_cases hr : h.retries = 0
    · simp [hc, hr]
    · simp [hc, hr]

theorem entry_of_failure {h : HState} (hf : h.failure = true) (hr : 1 ≤ h.retries) (top start : Int) :
    h.entry top start = h := by
  rw [entry_eq]
  have : h.retries ≠ 0 := by omega
  simp [hf, this]

theorem entry_of_retrying {h : HState} (hf : h.finished = false) (hr : 1 ≤ h.retries) (top start : Int) :
    h.entry top start = h := by
  rw [entry_eq]
  have : h.retries ≠ 0 := by omega
  simp [hf, this]

theorem not_awakened_of_failure {h : HState} (hf : h.failure = true) (hr : 1 ≤ h.retries) (top start now : Int) :
    (h.entry top start).awakened now = false := by
  rw [entry_of_failure hf hr]; simp [HState.awakened, HState.finished, hf]

/-- the state machine keeps a failure: once failed, every later state is the same failed state -/
theorem step_of_failure {cfg : Cfg} {h : HState} {it : Iter} (hf : h.failure = true) (hr : 1 ≤ h.retries)
    (hok : it.ok cfg h) : step cfg h it = h ∧ it.res = none := by
  have hna := not_awakened_of_failure hf hr it.top it.start it.start
  have hres : it.res = none := by
    have := hok.2.2.1; rw [hna] at this
    cases hr' : it.res <;> simp [hr'] at this ⊢
  rw [entry_of_failure hf hr] at hna
  exact ⟨by simp [step, hres, entry_of_failure hf hr, hna], hres⟩

/-- a finished state has made at least one attempt (so the clock restart never touches it) -/
theorem foldl_finished_pos (cfg : Cfg) : ∀ (its : List Iter) (h : HState), (h.finished = true → 1 ≤ h.retries) →
    ((its.foldl (step cfg) h).finished = true → 1 ≤ (its.foldl (step cfg) h).retries) := by
  intro its
  induction its with
  | nil => intro h hh; exact hh
  | cons it its ih =>
    intro h hh
    simp only [List.foldl_cons]
    apply ih
    have he : ((h.entry it.top it.start).finished = true → 1 ≤ (h.entry it.top it.start).retries) := by
      rw [entry_eq]; split
      · intro hf; simp [HState.fresh, HState.finished] at hf
      · exact hh
    unfold step
    simp only
    split
    · intro _; cases classify cfg _ _ _ <;> simp [HState.withOutcome]
    · split
      · intro _; simp [HState.withOutcome]
      · exact he

/-! ### lifting to sequences -/

theorem stateAt_zero (cfg : Cfg) (spawn : Int) (its : List Iter) : stateAt cfg spawn its 0 = initState cfg spawn := by
  simp [stateAt]

theorem stateAt_succ {cfg : Cfg} {spawn : Int} {its : List Iter} {n : Nat} {a : Iter} (ha : its[n]? = some a) :
    stateAt cfg spawn its (n + 1) = step cfg (stateAt cfg spawn its n) a := by
  unfold stateAt
  have hn : n < its.length := by
    rcases Nat.lt_or_ge n its.length with h | h
    · exact h
    · rw [List.getElem?_eq_none h] at ha; cases ha
  have hget : its[n] = a := by
    have := List.getElem?_eq_getElem hn; rw [this] at ha; exact Option.some.inj ha
  rw [List.take_succ_eq_append_getElem hn, List.foldl_append, hget]
  rfl

theorem stateAt_finished_pos (cfg : Cfg) (spawn : Int) (its : List Iter) (n : Nat)
    (hf : (stateAt cfg spawn its n).finished = true) : 1 ≤ (stateAt cfg spawn its n).retries := by
  unfold stateAt at hf ⊢
  exact foldl_finished_pos cfg _ _ (by intro h; simp [initState, HState.fresh, HState.finished] at h) hf

theorem Chain.step_at {cfg : Cfg} {view : View} :
    ∀ (rest : List Iter) (h : HState) (it : Iter), Chain cfg view h it rest →
      ∀ (n : Nat) (a b : Iter), (it :: rest)[n]? = some a → (it :: rest)[n + 1]? = some b →
        Next cfg view (step cfg (((it :: rest).take n).foldl (step cfg) h) a) a b.top b.start ∧
        b.ok cfg (step cfg (((it :: rest).take n).foldl (step cfg) h) a) := by
  intro rest
  induction rest with
  | nil => intro h it _ n a b _ hb; simp at hb
  | cons it' rest ih =>
    intro h it hc n a b ha hb
    cases hc with
    | cons hn hok hc' =>
      cases n with
      | zero =>
        simp at ha hb
        subst ha; subst hb
        exact ⟨hn, hok⟩
      | succ n =>
        simp only [List.getElem?_cons_succ] at ha hb
        have := ih (step cfg h it) it' hc' n a b ha hb
        simpa [List.take_succ_cons, List.foldl_cons] using this

/-- consecutive iterations of a sequence: the step relation and the record's guarantees, with the carried state -/
theorem Sched.step_at {cfg : Cfg} {view : View} {spawn : Int} {its : List Iter} (h : Sched cfg view spawn its)
    {n : Nat} {a b : Iter} (ha : its[n]? = some a) (hb : its[n + 1]? = some b) :
    Next cfg view (stateAt cfg spawn its (n + 1)) a b.top b.start ∧ b.ok cfg (stateAt cfg spawn its (n + 1)) := by
  cases its with
  | nil => simp at ha
  | cons it rest =>
    obtain ⟨_, _, hc⟩ := h
    have := Chain.step_at rest (initState cfg spawn) it hc n a b ha hb
    rw [stateAt_succ ha]
    exact this

theorem Sched.ok_at {cfg : Cfg} {view : View} {spawn : Int} {its : List Iter} (h : Sched cfg view spawn its) :
    ∀ (n : Nat) (a : Iter), its[n]? = some a → a.ok cfg (stateAt cfg spawn its n) := by
  intro n
  cases n with
  | zero =>
    intro a ha
    cases its with
    | nil => simp at ha
    | cons it rest =>
      simp at ha; subst ha
      rw [stateAt_zero]; exact h.2.1
  | succ n =>
    intro b hb
    have hn : n < its.length := by
      rcases Nat.lt_or_ge (n + 1) its.length with h' | h'
      · omega
      · rw [List.getElem?_eq_none h'] at hb; cases hb
    exact (Sched.step_at h (List.getElem?_eq_getElem hn) hb).2

/-- the start of every iteration but the first is a `Next` of its predecessor -/
theorem Sched.start_cases {cfg : Cfg} {view : View} {spawn : Int} {its : List Iter} (h : Sched cfg view spawn its)
    (n : Nat) (b : Iter) (hb : its[n]? = some b) :
    (n = 0 ∧ First cfg view spawn b.top b.start) ∨
    (∃ m a, n = m + 1 ∧ its[m]? = some a ∧ Next cfg view (stateAt cfg spawn its n) a b.top b.start) := by
  cases n with
  | zero =>
    left
    cases its with
    | nil => simp at hb
    | cons it rest => simp at hb; subst hb; exact ⟨rfl, h.1⟩
  | succ m =>
    right
    have hm : m < its.length := by
      rcases Nat.lt_or_ge (m + 1) its.length with h' | h'
      · omega
      · rw [List.getElem?_eq_none h'] at hb; cases hb
    exact ⟨m, its[m], rfl, List.getElem?_eq_getElem hm, (Sched.step_at h (List.getElem?_eq_getElem hm) hb).1⟩

theorem Sched.top_le_start {cfg : Cfg} {view : View} {spawn : Int} {its : List Iter} (h : Sched cfg view spawn its)
    (n : Nat) (b : Iter) (hb : its[n]? = some b) : b.top ≤ b.start := by
  rcases Sched.start_cases h n b hb with ⟨_, hf⟩ | ⟨m, a, _, _, hnext⟩
  · exact hf.2.ge
  · exact hnext.ge_patched.2

theorem chainCheck_sound {cfg : Cfg} {pv : PView} {view : View} (hx : Extends pv view) {n : Nat} :
    ∀ (rest : List Iter) (h : HState) (it : Iter), chainCheck cfg pv n h it rest = true → Chain cfg view h it rest := by
  intro rest
  induction rest with
  | nil => intro h it _; exact .nil h it
  | cons it' rest ih =>
    intro h it hc
    simp only [chainCheck, Bool.and_eq_true, decide_eq_true_eq] at hc
    exact .cons (nextStartN_sound hx hc.1.1) hc.1.2 (ih _ _ hc.2)

theorem schedCheck_sound {cfg : Cfg} {pv : PView} {view : View} (hx : Extends pv view) {n : Nat} {spawn : Int}
    {its : List Iter} (hc : schedCheck cfg pv n spawn its = true) : Sched cfg view spawn its := by
  cases its with
  | nil => trivial
  | cons it rest =>
    simp only [schedCheck, Bool.and_eq_true, decide_eq_true_eq] at hc
    exact ⟨firstStartN_sound hx hc.1.1, hc.1.2, chainCheck_sound hx rest _ _ hc.2⟩

/-- the invariant behind "always awakened unless failed": a finished state carries no `delayed`, and a
    retrying state does not come round the loop top before its `delayed` instant -/
theorem Sched.ready {cfg : Cfg} {view : View} {spawn : Int} {its : List Iter} (h : Sched cfg view spawn its) :
    ∀ (n : Nat) (a : Iter), its[n]? = some a →
      ((stateAt cfg spawn its n).finished = true → (stateAt cfg spawn its n).delayed = none) ∧
      (∀ d, (stateAt cfg spawn its n).delayed = some d → d ≤ a.top) := by
  intro n
  induction n with
  | zero =>
    intro a _
    rw [stateAt_zero]
    exact ⟨fun _ => rfl, fun d hd => by simp [initState, HState.fresh] at hd⟩
  | succ n ih =>
    intro b hb
    have hn : n < its.length := by
      rcases Nat.lt_or_ge (n + 1) its.length with h' | h'
      · omega
      · rw [List.getElem?_eq_none h'] at hb; cases hb
    have ha := List.getElem?_eq_getElem hn
    obtain ⟨i1, i2⟩ := ih its[n] ha
    obtain ⟨hnext, _⟩ := Sched.step_at h ha hb
    have hoka := Sched.ok_at h n its[n] ha
    have htop := Sched.top_le_start h n its[n] ha
    rw [stateAt_succ ha] at hnext ⊢
    generalize stateAt cfg spawn its n = hs at i1 i2 hnext hoka
    have t1 : (hs.entry its[n].top its[n].start).finished = true → (hs.entry its[n].top its[n].start).delayed = none := by
      rw [entry_eq]; split
      · intro _; rfl
      · exact i1
    have t2 : ∀ d, (hs.entry its[n].top its[n].start).delayed = some d → d ≤ its[n].top := by
      rw [entry_eq]; split
      · intro d hd; simp [HState.fresh] at hd
      · exact i2
    have hge := hnext.ge_patched
    have hwf1 := hoka.1
    have hwf2 := hoka.2.1
    have failed_ok : ∀ (x : HState) (now : Int),
        ((x.withOutcome now .failed).finished = true → (x.withOutcome now .failed).delayed = none) ∧
        (∀ d, (x.withOutcome now .failed).delayed = some d → d ≤ b.top) :=
      fun x now => ⟨fun _ => rfl, fun d hd => by simp [HState.withOutcome] at hd⟩
    cases hres : its[n].res with
    | none =>
      by_cases hpc : ((hs.entry its[n].top its[n].start).awakened its[n].start && precheckFails cfg (hs.entry its[n].top its[n].start) its[n].start) = true
      · have hst : step cfg hs its[n] = (hs.entry its[n].top its[n].start).withOutcome its[n].ended .failed := by
          simp only [step, hres]; rw [if_pos hpc]
        rw [hst]; exact failed_ok _ _
      · have hst : step cfg hs its[n] = hs.entry its[n].top its[n].start := by
          simp only [step, hres]; rw [if_neg hpc]
        rw [hst]
        exact ⟨t1, fun d hd => by have := t2 d hd; omega⟩
    | some r =>
      have hst : step cfg hs its[n] = (hs.entry its[n].top its[n].start).withOutcome its[n].ended
          (classify cfg (hs.entry its[n].top its[n].start).retries (its[n].ended - (hs.entry its[n].top its[n].start).started) r) := by
        simp [step, hres]
      rw [hst] at hnext ⊢
      cases ho : classify cfg (hs.entry its[n].top its[n].start).retries (its[n].ended - (hs.entry its[n].top its[n].start).started) r with
      | done => exact ⟨fun _ => rfl, fun d hd => by simp [HState.withOutcome] at hd⟩
      | failed => exact failed_ok _ _
      | retry d0 =>
        rw [ho] at hnext
        refine ⟨fun hf => by simp [HState.withOutcome, HState.finished] at hf, fun d hd => ?_⟩
        exact Next.ge_delayed (by simp [HState.withOutcome, HState.finished]) hd hnext

/-- unless the timer has failed for good, the carried state is awakened when an iteration starts -/
theorem Sched.awakened {cfg : Cfg} {view : View} {spawn : Int} {its : List Iter} (h : Sched cfg view spawn its)
    (n : Nat) (a : Iter) (ha : its[n]? = some a) (hnf : (stateAt cfg spawn its n).failure = false) :
    ((stateAt cfg spawn its n).entry a.top a.start).awakened a.start = true := by
  obtain ⟨i1, i2⟩ := Sched.ready h n a ha
  have htop := Sched.top_le_start h n a ha
  generalize stateAt cfg spawn its n = hs at i1 i2 hnf
  rw [entry_eq]
  split
  · simp [HState.awakened, HState.sleeping, HState.finished, HState.fresh]
  · rename_i hc
    have hfin' : hs.finished = false := by
      cases hf : hs.finished with
      | false => rfl
      | true => simp [hf, hnf] at hc
    cases hd : hs.delayed with
    | none => simp [HState.awakened, HState.sleeping, hfin', hd]
    | some d =>
      have := i2 d hd
      have hnot : ¬ (d > a.start) := by omega
      simp [HState.awakened, HState.sleeping, hfin', hd, hnot]

theorem classify_retry_lookahead {cfg : Cfg} {k : Nat} {rt : Int} {r : Result} {d : Option Int}
    (h : classify cfg k rt r = .retry d) : lookaheadRetries cfg k = false := by
  cases hl : lookaheadRetries cfg k with
  | false => rfl
  | true =>
    exfalso
    cases r with
    | ok => simp [classify] at h
    | permanent => simp [classify] at h
    | temporary d' => simp only [classify, hl] at h; split at h <;> simp at h
    | arbitrary =>
      simp only [classify, hl] at h
      split at h
      · simp at h
      · simp at h
      · split at h <;> simp at h

/-- with `retries = N ≥ 1` a state that is still retrying has made fewer than `N` attempts: the strict
    retries pre-check never fires (the look-ahead made the N-th failure final) -/
theorem Sched.retries_lt {cfg : Cfg} {view : View} {spawn : Int} {its : List Iter} (_h : Sched cfg view spawn its)
    {N : Nat} (hr : cfg.retries = some N) (hN : 0 < N) :
    ∀ (n : Nat) (a : Iter), its[n]? = some a → (stateAt cfg spawn its n).finished = false →
      (stateAt cfg spawn its n).retries < N := by
  intro n
  induction n with
  | zero => intro a _ _; rw [stateAt_zero]; simpa [initState, HState.fresh] using hN
  | succ n ih =>
    intro b hb
    have hn : n < its.length := by
      rcases Nat.lt_or_ge (n + 1) its.length with h' | h'
      · omega
      · rw [List.getElem?_eq_none h'] at hb; cases hb
    have ha := List.getElem?_eq_getElem hn
    have ih' := ih its[n] ha
    rw [stateAt_succ ha]
    generalize stateAt cfg spawn its n = hs at ih'
    have top_lt : (hs.entry its[n].top its[n].start).finished = false → (hs.entry its[n].top its[n].start).retries < N := by
      rw [entry_eq]; split
      · intro _; simpa [HState.fresh] using hN
      · exact ih'
    cases hres : its[n].res with
    | none =>
      simp only [step, hres]
      split
      · intro hf; simp [HState.withOutcome, HState.finished] at hf
      · exact top_lt
    | some r =>
      simp only [step, hres]
      cases ho : classify cfg (hs.entry its[n].top its[n].start).retries (its[n].ended - (hs.entry its[n].top its[n].start).started) r with
      | done => intro hf; simp [HState.withOutcome, HState.finished] at hf
      | failed => intro hf; simp [HState.withOutcome, HState.finished] at hf
      | retry d =>
        intro _
        have hl := classify_retry_lookahead ho
        simp only [lookaheadRetries, hr, decide_eq_false_iff_not] at hl
        simp only [HState.withOutcome]
        omega

/-! ### `idle_reset_time` from the event history -/

theorem stamp_ge (r : Bool) (t x acc : Int) : acc ≤ stamp r t x acc := by
  unfold stamp; split
  · rename_i hc; simp only [Bool.and_eq_true, decide_eq_true_eq] at hc; omega
  · exact Int.le_refl _

theorem stamp_ge_of_reset (t x acc : Int) (hx : x ≤ t) : x ≤ stamp true t x acc := by
  unfold stamp; simp only [Bool.true_and]
  split
  · exact Int.le_refl _
  · rename_i hn; simp only [Bool.and_eq_true, decide_eq_true_eq] at hn; omega

theorem viewStep_ge (t : Int) (s : Int × Option Nat) (e : Ev) : s.1 ≤ (viewStep t s e).1 := by
  unfold viewStep; simp only
  have := stamp_ge (resetsIdle e.lastHandled s.2 e.ess) t e.recv s.1
  have := stamp_ge (resetsIdle e.lastHandled s.2 e.ess) t e.t (stamp (resetsIdle e.lastHandled s.2 e.ess) t e.recv s.1)
  omega

theorem viewFold_ge (t : Int) (evs : List Ev) : ∀ s : Int × Option Nat, s.1 ≤ (evs.foldl (viewStep t) s).1 := by
  induction evs with
  | nil => intro s; exact Int.le_refl _
  | cons e es ih =>
    intro s
    simp only [List.foldl_cons]
    have := ih (viewStep t s e)
    have := viewStep_ge t s e
    omega

/-- an event that resets idling: each of its two stamps made by `t` is not newer than what is read at `t` -/
theorem viewStep_ge_of_reset (t : Int) (s : Int × Option Nat) (e : Ev) (hr : resetsIdle e.lastHandled s.2 e.ess = true) :
    (e.t ≤ t → e.t ≤ (viewStep t s e).1) ∧ (e.recv ≤ t → e.recv ≤ (viewStep t s e).1) := by
  unfold viewStep; simp only [hr]
  refine ⟨fun ht => stamp_ge_of_reset t e.t _ ht, fun ht => ?_⟩
  have := stamp_ge_of_reset t e.recv s.1 ht
  have := stamp_ge true t e.t (stamp true t e.recv s.1)
  omega

/-- every change against the previously processed essence: its stamps made by `t` are not newer than what is read at `t` -/
theorem viewFold_ge_essentialEvs (t : Int) :
    ∀ (evs : List Ev) (acc : Int) (p : Nat) (e : Ev), e ∈ essentialEvsAfter p evs →
      (e.t ≤ t → e.t ≤ (evs.foldl (viewStep t) (acc, some p)).1) ∧
      (e.recv ≤ t → e.recv ≤ (evs.foldl (viewStep t) (acc, some p)).1) := by
  intro evs
  induction evs with
  | nil => intro acc p e hc; simp [essentialEvsAfter] at hc
  | cons x xs ih =>
    intro acc p e hc
    simp only [List.foldl_cons]
    simp only [essentialEvsAfter, List.mem_append] at hc
    have hs : viewStep t (acc, some p) x = ((viewStep t (acc, some p) x).1, some x.ess) := rfl
    rw [hs]
    rcases hc with hc | hc
    · by_cases hp : p = x.ess
      · simp [hp] at hc
      · simp only [hp, if_false, List.mem_singleton] at hc
        subst hc
        have hreset : resetsIdle e.lastHandled (some p) e.ess = true := by
          simp [resetsIdle, resetCond, resetAtoms, hp]
        obtain ⟨h1, h2⟩ := viewStep_ge_of_reset t (acc, some p) e hreset
        have := viewFold_ge t xs ((viewStep t (acc, some p) e).1, some e.ess)
        simp only at this
        exact ⟨fun ht => by have := h1 ht; omega, fun ht => by have := h2 ht; omega⟩
    · exact ih _ _ e hc

/-- … including the first event of the memory when the object differs from what was last handled -/
theorem viewOf_ge_essentialEvs (created : Int) (evs : List Ev) (t : Int) (e : Ev) (he : e ∈ essentialEvs evs) :
    (e.t ≤ t → e.t ≤ viewOf created evs t) ∧ (e.recv ≤ t → e.recv ≤ viewOf created evs t) := by
  unfold viewOf
  cases evs with
  | nil => simp [essentialEvs] at he
  | cons x xs =>
    simp only [List.foldl_cons]
    have hs : viewStep t (created, none) x = ((viewStep t (created, none) x).1, some x.ess) := rfl
    rw [hs]
    simp only [essentialEvs, List.mem_append] at he
    rcases he with he | he
    · by_cases hl : x.lastHandled = some x.ess
      · simp [hl] at he
      · simp only [hl, if_false, List.mem_singleton] at he
        subst he
        have hreset : resetsIdle e.lastHandled none e.ess = true := by
          simp [resetsIdle, resetCond, resetAtoms, hl]
        obtain ⟨h1, h2⟩ := viewStep_ge_of_reset t (created, none) e hreset
        have := viewFold_ge t xs ((viewStep t (created, none) e).1, some e.ess)
        simp only at this
        exact ⟨fun ht => by have := h1 ht; omega, fun ht => by have := h2 ht; omega⟩
    · exact viewFold_ge_essentialEvs t xs _ _ e he

theorem essentialEvsAfter_t (p : Nat) (evs : List Ev) (e : Ev) (he : e ∈ essentialEvsAfter p evs) :
    e.t ∈ essentialAfter p evs := by
  induction evs generalizing p with
  | nil => simp [essentialEvsAfter] at he
  | cons x xs ih =>
    simp only [essentialEvsAfter, essentialAfter, List.mem_append] at he ⊢
    rcases he with he | he
    · left; split at he <;> simp_all
    · right; exact ih _ he

theorem essentialEvs_t (evs : List Ev) (e : Ev) (he : e ∈ essentialEvs evs) : e.t ∈ essentialTimes evs := by
  cases evs with
  | nil => simp [essentialEvs] at he
  | cons x xs =>
    simp only [essentialEvs, essentialTimes, List.mem_append] at he ⊢
    rcases he with he | he
    · left; split at he <;> simp_all
    · right; exact essentialEvsAfter_t _ _ _ he

theorem essentialEvsAfter_mem (p : Nat) (evs : List Ev) (e : Ev) (he : e ∈ essentialEvsAfter p evs) : e ∈ evs := by
  induction evs generalizing p with
  | nil => simp [essentialEvsAfter] at he
  | cons x xs ih =>
    simp only [essentialEvsAfter, List.mem_append] at he
    rcases he with he | he
    · split at he <;> simp_all
    · exact List.mem_cons_of_mem _ (ih _ he)

theorem essentialEvs_mem (evs : List Ev) (e : Ev) (he : e ∈ essentialEvs evs) : e ∈ evs := by
  cases evs with
  | nil => simp [essentialEvs] at he
  | cons x xs =>
    simp only [essentialEvs, List.mem_append] at he
    rcases he with he | he
    · split at he <;> simp_all
    · exact List.mem_cons_of_mem _ (essentialEvsAfter_mem _ _ _ he)

theorem essentialAfter_ev (p : Nat) (evs : List Ev) (c : Int) (hc : c ∈ essentialAfter p evs) :
    ∃ e ∈ essentialEvsAfter p evs, e.t = c := by
  induction evs generalizing p with
  | nil => simp [essentialAfter] at hc
  | cons x xs ih =>
    simp only [essentialAfter, essentialEvsAfter, List.mem_append] at hc ⊢
    rcases hc with hc | hc
    · by_cases hp : p = x.ess
      · simp [hp] at hc
      · simp only [hp, if_false, List.mem_singleton] at hc
        exact ⟨x, Or.inl (by simp [hp]), hc.symm⟩
    · obtain ⟨e, he, het⟩ := ih _ hc
      exact ⟨e, Or.inr he, het⟩

theorem essentialTimes_ev (evs : List Ev) (c : Int) (hc : c ∈ essentialTimes evs) : ∃ e ∈ essentialEvs evs, e.t = c := by
  cases evs with
  | nil => simp [essentialTimes] at hc
  | cons x xs =>
    simp only [essentialTimes, essentialEvs, List.mem_append] at hc ⊢
    rcases hc with hc | hc
    · by_cases hl : x.lastHandled = some x.ess
      · simp [hl] at hc
      · simp only [hl, if_false, List.mem_singleton] at hc
        exact ⟨x, Or.inl (by simp [hl]), hc.symm⟩
    · obtain ⟨e, he, het⟩ := essentialAfter_ev _ _ _ hc
      exact ⟨e, Or.inr he, het⟩

theorem viewOf_ge_essential (created : Int) (evs : List Ev) (t c : Int)
    (hc : c ∈ essentialTimes evs) (ht : c ≤ t) : c ≤ viewOf created evs t := by
  obtain ⟨e, he, het⟩ := essentialTimes_ev evs c hc
  subst het
  exact (viewOf_ge_essentialEvs created evs t e he).1 ht

/-! ### histories without a change (fixed finding C10-F3): events that show the same essence do not move the view -/

theorem resetsIdle_none (lh : Option Nat) (n : Nat) : resetsIdle lh none n = (lh != some n) := by
  simp [resetsIdle, resetCond, resetAtoms]

theorem resetsIdle_some (lh : Option Nat) (p n : Nat) : resetsIdle lh (some p) n = (p != n) := by
  simp [resetsIdle, resetCond, resetAtoms]

theorem viewStep_unchanged (t : Int) (acc : Int) (n : Nat) (e : Ev) (he : e.ess = n) :
    viewStep t (acc, some n) e = (acc, some n) := by
  unfold viewStep
  simp only [resetsIdle_some, he]
  simp [stamp]

theorem viewFold_unchanged (t : Int) (n : Nat) (es : List Ev) (h : ∀ e ∈ es, e.ess = n) :
    ∀ acc : Int, es.foldl (viewStep t) (acc, some n) = (acc, some n) := by
  induction es with
  | nil => intro acc; rfl
  | cons e es ih =>
    intro acc
    have he := h e (List.mem_cons_self ..)
    rw [List.foldl_cons, viewStep_unchanged t acc n e he]
    exact ih (fun x hx => h x (List.mem_cons_of_mem _ hx)) acc

/-- with no change of the essence after the first event, the view is the one of the first event alone -/
theorem viewOf_unchanged (created : Int) (e0 : Ev) (es : List Ev) (h : Unchanged e0 es) (t : Int) :
    viewOf created (e0 :: es) t = viewOf created [e0] t := by
  unfold viewOf
  rw [List.foldl_cons]
  have hs : viewStep t (created, none) e0 = ((viewStep t (created, none) e0).1, some e0.ess) := rfl
  rw [hs, viewFold_unchanged t e0.ess es h]
  simp [List.foldl]

/-! ### `idle_reset_time` is the creation time of the memory or a stamp of an ESSENTIAL change — nothing else -/

theorem stampsOf_append (xs ys : List Ev) : stampsOf (xs ++ ys) = stampsOf xs ++ stampsOf ys := by
  induction xs with
  | nil => rfl
  | cons x xs ih => simp [stampsOf, ih]

theorem stamp_cases (r : Bool) (t x acc : Int) : stamp r t x acc = acc ∨ (r = true ∧ stamp r t x acc = x) := by
  unfold stamp
  split
  · rename_i hc
    simp only [Bool.and_eq_true] at hc
    exact Or.inr ⟨hc.1.1, rfl⟩
  · exact Or.inl rfl

/-- one event: the view stays, or the event resets idling and the view is one of its two stamps -/
theorem viewStep_cases (t : Int) (s : Int × Option Nat) (e : Ev) :
    (viewStep t s e).1 = s.1 ∨
      (resetsIdle e.lastHandled s.2 e.ess = true ∧ ((viewStep t s e).1 = e.recv ∨ (viewStep t s e).1 = e.t)) := by
  unfold viewStep
  simp only
  rcases stamp_cases (resetsIdle e.lastHandled s.2 e.ess) t e.t (stamp (resetsIdle e.lastHandled s.2 e.ess) t e.recv s.1) with h2 | ⟨hr, h2⟩
  · rcases stamp_cases (resetsIdle e.lastHandled s.2 e.ess) t e.recv s.1 with h1 | ⟨hr, h1⟩
    · left; rw [h2, h1]
    · right; exact ⟨hr, Or.inl (by rw [h2, h1])⟩
  · right; exact ⟨hr, Or.inr h2⟩

theorem viewFold_mem (t : Int) :
    ∀ (evs : List Ev) (acc : Int) (p : Nat),
      (evs.foldl (viewStep t) (acc, some p)).1 = acc ∨
      (evs.foldl (viewStep t) (acc, some p)).1 ∈ stampsOf (essentialEvsAfter p evs) := by
  intro evs
  induction evs with
  | nil => intro acc p; exact Or.inl rfl
  | cons x xs ih =>
    intro acc p
    simp only [List.foldl_cons]
    have hs : viewStep t (acc, some p) x = ((viewStep t (acc, some p) x).1, some x.ess) := rfl
    rw [hs]
    simp only [essentialEvsAfter, stampsOf_append, List.mem_append]
    rcases ih (viewStep t (acc, some p) x).1 x.ess with h | h
    · rcases viewStep_cases t (acc, some p) x with h0 | ⟨hr, h0⟩
      · left; rw [h, h0]
      · right; left
        rw [resetsIdle_some] at hr
        have hp : ¬ p = x.ess := by simpa using hr
        simp only [hp, if_false, stampsOf, h]
        rcases h0 with h0 | h0 <;> simp [h0]
    · right; right; exact h

/-- what a timer reads as `idle_reset_time` is the creation time of the memory, or one of the two stamps of an
    essential change — for every event history and every instant -/
theorem viewOf_mem (created : Int) (evs : List Ev) (t : Int) :
    viewOf created evs t = created ∨ viewOf created evs t ∈ stampsOf (essentialEvs evs) := by
  unfold viewOf
  cases evs with
  | nil => exact Or.inl rfl
  | cons x xs =>
    simp only [List.foldl_cons]
    have hs : viewStep t (created, none) x = ((viewStep t (created, none) x).1, some x.ess) := rfl
    rw [hs]
    simp only [essentialEvs, stampsOf_append, List.mem_append]
    rcases viewFold_mem t xs (viewStep t (created, none) x).1 x.ess with h | h
    · rcases viewStep_cases t (created, none) x with h0 | ⟨hr, h0⟩
      · left; rw [h, h0]
      · right; left
        rw [resetsIdle_none] at hr
        have hp : ¬ x.lastHandled = some x.ess := by simpa using hr
        simp only [hp, if_false, stampsOf, h]
        rcases h0 with h0 | h0 <;> simp [h0]
    · right; right; exact h

/-- the view of a single resetting event, read after both of its stamps -/
theorem viewOf_single (created : Int) (e0 : Ev) (t : Int) (hr : resetsIdle e0.lastHandled none e0.ess = true)
    (h1 : created ≤ e0.recv) (h2 : e0.recv ≤ e0.t) (h3 : e0.t ≤ t) : viewOf created [e0] t = e0.t := by
  unfold viewOf
  simp only [List.foldl, viewStep, hr, stamp]
  have a1 : decide (e0.recv ≤ t) = true := by simp; omega
  have a2 : decide (created ≤ e0.recv) = true := by simp; omega
  have a3 : decide (e0.t ≤ t) = true := by simp; omega
  have a4 : decide (e0.recv ≤ e0.t) = true := by simp; omega
  simp [a1, a2, a3, a4]

end Kopf.C10
