/-
  C01 — helper facts that are NOT property theorems: the worker limit is a constant of a run, the
  syntactic read-sets of `take` / `finish`, and a sufficient condition for quiescence used by the
  witnesses in Props/C01.lean.
-/
import Kopf.Lemmas.C01_Inv2
namespace Kopf.C01

variable {lim : Option Nat} {ls : List Label} {s : State}

/-- `settings.queueing.worker_limit` never changes. -/
theorem limit_const (h : Reach lim ls s) : s.limit = lim := by
  have key : ∀ (ls : List Label) (s0 s1 : State), run s0 ls = some s1 → s1.limit = s0.limit := by
    intro ls
    induction ls with
    | nil => intro s0 s1 h; simp [run, runWith] at h; rw [h]
    | cons l ls ih =>
      intro s0 s1 h
      simp only [run, runWith] at h
      split at h
      · rename_i s2 hs2
        have h3 : s2.limit = s0.limit := by
          cases l <;> step_cases hs2 <;> rfl
        rw [← h3]; exact ih s2 s1 h
      · cases h
  exact key ls (init lim) s h

/-- (read-set of the definition) whether worker `w` can take event `e` depends only
    on `w`'s own program counter, the backlog of `w`'s own key and the global `closed` flag —
    never on any other key's stream, worker or processing. -/
theorem take_reads_own_component (s₁ s₂ : State) (w : Wid) (e : Ev)
    (hc : s₁.closed = s₂.closed) (hp : s₁.pc w = s₂.pc w) (hs : s₁.streams w.key = s₂.streams w.key) :
    (step s₁ (.take w e)).isSome = (step s₂ (.take w e)).isSome := by
  simp only [step, stepCore, hc, hp, hs]
  split
  · split
    · split <;> rfl
    · rfl
  · rfl

/-- … and of `finish`: only `w`'s own program counter (and `closed`). -/
theorem finish_reads_own_component (s₁ s₂ : State) (w : Wid)
    (hc : s₁.closed = s₂.closed) (hp : s₁.pc w = s₂.pc w) :
    (step s₁ (.finish w)).isSome = (step s₂ (.finish w)).isSome := by
  simp only [step, stepCore, hc, hp]
  split
  · split <;> rfl
  · rfl

/-- a state without instances, pending coroutines or an event in hand, watch alive: nothing internal
    is enabled (for the real `step` and the broken variant alike) -/
theorem quiescent_of_idle {b : Bool} {s : State} (hpc : ∀ w, s.pc w = none) (hq : s.pendingQ = [])
    (hh : s.hand = none) (hc : s.closing = false) : Quiescent (stepCore b) s := by
  intro l hl
  cases l <;> simp [Label.internal] at hl <;> simp [stepCore, hpc, hq, hh, hc]

theorem run_append {s s' s'' : State} {l1 l2 : List Label} (h1 : run s l1 = some s')
    (h2 : run s' l2 = some s'') : run s (l1 ++ l2) = some s'' := by
  induction l1 generalizing s with
  | nil => simp [run, runWith] at h1; subst h1; simpa using h2
  | cons l l1 ih =>
    simp only [run, runWith] at h1
    show runWith step s (l :: (l1 ++ l2)) = some s''
    simp only [runWith]
    split at h1
    · rename_i s1 hs1
      exact ih h1
    · cases h1

end Kopf.C01
