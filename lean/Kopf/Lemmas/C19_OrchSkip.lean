/-
  C19 — helper lemmas for `any_revision_heals` (the real orchestrator: one revision and the pass it sets off,
  in closed form) and for `skip_noop_revisions_witness` (the variant of Model/C19_OrchSkip).
-/
import Kopf.Model.C19_OrchSkip
import Kopf.Lemmas.C19_Orchestrator
namespace Kopf.C19.Orch
open Kopf.C19.Ens

/-- the state after an observer has revised the insights to `i` and the pass set off by it has completed
    undisturbed — from a state in which the orchestrator waits -/
def afterPass (s : State) (i : Insights) : State :=
  { s with ins := i, revs := i :: s.revs, ens := spawn (terminate s.ens i) (pairs i), pc := .waiting,
           hist := s.hist ++ [.pass i] ++ s.pend.map Ev.die, diedSince := s.pend, pend := [] }

theorem run_revise_pass {s : State} (hq : s.pc = .waiting) (i : Insights) :
    run s [.revise i, .acquire, .termDone, .spawnAll] = some (afterPass s i) := by
  simp [run, step, lockFree, hq, afterPass]

end Kopf.C19.Orch

namespace Kopf.C19.OrchSkip
open Kopf.C19.Ens

/-- In the variant a revision that repeats the remembered insights is consumed without a pass, and leaves
    everything but the ghost list of revisions as it was — any number of times. -/
theorem rounds_stay (n : Nat) : ∀ (s : State), s.base.pc = .waiting → s.last = some s.base.ins →
    ∃ s', run s (rounds s.base.ins n) = some s' ∧ s'.base.pc = .waiting ∧ s'.base.ens = s.base.ens ∧
      s'.base.ins = s.base.ins ∧ s'.last = s.last := by
  induction n with
  | zero => intro s hq _; exact ⟨s, rfl, hq, rfl, rfl, rfl⟩
  | succ n ih =>
      intro s hq hl
      let s2 : State := { s with base := { s.base with revs := s.base.ins :: s.base.revs } }
      have h2 : run s (rounds s.base.ins (n + 1)) = run s2 (rounds s2.base.ins n) := by
        simp [rounds, run, step, Orch.step, Orch.lockFree, hq, hl, s2]
      obtain ⟨s', hr, h1, h3, h4, h5⟩ := ih s2 hq hl
      exact ⟨s', by rw [h2]; exact hr, h1, h3, h4, h5⟩

theorem rounds_not_live (s : State) (hq : s.base.pc = .waiting) (hl : s.last = some s.base.ins) (k : Key)
    (hnl : ¬ Live s.base.ens k) (n : Nat) :
    ∃ s', run s (rounds s.base.ins n) = some s' ∧ Orch.Quiescent s'.base ∧ s'.base.ins = s.base.ins ∧
      ¬ Live s'.base.ens k := by
  obtain ⟨s', hr, hpc, hens, hins, _⟩ := rounds_stay n s hq hl
  exact ⟨s', hr, hpc, hins, by rw [hens]; exact hnl⟩

/-- … and after such a revision the pass cannot even start: `acquire` is disabled, `skip` is all there is. -/
theorem acquire_disabled {s : State} (hl : s.last = some s.base.ins) : step s (.obs .acquire) = none := by
  simp [step, hl]

end Kopf.C19.OrchSkip
