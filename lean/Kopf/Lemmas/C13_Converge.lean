/-
  C13 helper lemmas — a schedule that makes the operators converge from any state: let every old record expire, let every
  running operator touch, let every running operator process the status.
-/
import Kopf.Lemmas.C13_Bridge
namespace Kopf.C13

theorem run_append {u : Int} : ∀ (l1 l2 : List Label) (s : State),
    run u s (l1 ++ l2) = (run u s l1).bind (fun s1 => run u s1 l2) := by
  intro l1
  induction l1 with
  | nil => intro l2 s; rfl
  | cons l rest ih =>
    intro l2 s
    simp only [List.cons_append, run]
    cases step u s l with
    | none => rfl
    | some s1 => exact ih l2 s1

theorem run_append_some {u : Int} {l1 l2 : List Label} {s s' : State} (h : run u s (l1 ++ l2) = some s') :
    ∃ sm, run u s l1 = some sm ∧ run u sm l2 = some s' := by
  rw [run_append] at h
  cases h1 : run u s l1 with
  | none => simp [h1] at h
  | some sm => simp only [h1, Option.bind_some] at h; exact ⟨sm, rfl, h⟩

theorem run_single {u : Int} {l : Label} {s s' : State} (h : run u s [l] = some s') : step u s l = some s' := by
  simp only [run] at h
  cases hs : step u s l with
  | none => simp [hs] at h
  | some s1 => simp only [hs, Option.some.injEq] at h; rw [h]

theorem exists_tick_all_dead (u : Int) (now : Int) : ∀ (st : Status), ∃ d : Nat, ∀ e ∈ st, e.2.dead u (now + d) = true := by
  intro st
  induction st with
  | nil => exact ⟨0, fun e he => by cases he⟩
  | cons x xs ih =>
    obtain ⟨d, hd⟩ := ih
    refine ⟨d + (x.2.lastseen + x.2.lifetime * u - now).toNat, ?_⟩
    intro e he
    rcases List.mem_cons.mp he with rfl | he
    · rw [dead_true_iff]; omega
    · have := hd e he
      rw [dead_true_iff] at *
      omega

/-- the operators of two states agree on who runs, with which priority and lifetime -/
def OpsEq (s s' : State) : Prop :=
  ∀ i, (s.ops i = none ∧ s'.ops i = none) ∨
    ∃ o o', s.ops i = some o ∧ s'.ops i = some o' ∧ o'.prio = o.prio ∧ o'.lifetime = o.lifetime ∧ o'.alive = o.alive ∧ o'.exiting = o.exiting

theorem opsEq_refl (s : State) : OpsEq s s := by
  intro i
  cases h : s.ops i with
  | none => exact Or.inl ⟨rfl, rfl⟩
  | some o => exact Or.inr ⟨o, o, rfl, rfl, rfl, rfl, rfl, rfl⟩

theorem opsEq_trans {a b c : State} (h1 : OpsEq a b) (h2 : OpsEq b c) : OpsEq a c := by
  intro i
  rcases h1 i with ⟨x, y⟩ | ⟨o, o', ho, ho', p1, l1, a1, e1⟩
  · rcases h2 i with ⟨_, z⟩ | ⟨o2, _, ho2, _⟩
    · exact Or.inl ⟨x, z⟩
    · rw [y] at ho2; cases ho2
  · rcases h2 i with ⟨z, _⟩ | ⟨o2, o2', ho2, ho2', p2, l2, a2, e2⟩
    · rw [ho'] at z; cases z
    · rw [ho'] at ho2; injection ho2 with e; subst e
      exact Or.inr ⟨o, o2', ho, ho2', by rw [p2, p1], by rw [l2, l1], by rw [a2, a1], by rw [e2, e1]⟩

theorem opsEq_upd {s s' : State} {j : Identity} {o onew : Op} (ho : s.ops j = some o) (hops : s'.ops = updOp s.ops j onew)
    (hp : onew.prio = o.prio) (hl : onew.lifetime = o.lifetime) (ha : onew.alive = o.alive)
    (he : onew.exiting = o.exiting) : OpsEq s s' := by
  intro i
  by_cases hij : i = j
  · subst hij
    exact Or.inr ⟨o, onew, ho, by rw [hops]; simp, hp, hl, ha, he⟩
  · rw [hops, updOp_other _ _ hij]
    cases h : s.ops i with
    | none => exact Or.inl ⟨rfl, rfl⟩
    | some o2 => exact Or.inr ⟨o2, o2, rfl, rfl, rfl, rfl, rfl, rfl⟩

/-- every operator in `js` touches (landing at once): what the status looks like afterwards -/
theorem run_keepalives {u : Int} (hu : 0 < u) : ∀ (js : List Identity) (s : State),
    (∀ j ∈ js, ∃ o, s.ops j = some o ∧ o.alive = true ∧ o.exiting = false ∧ 1 ≤ o.lifetime) →
    ∃ s', run u s (js.map (fun j => Label.keepalive j 0)) = some s' ∧ s'.now = s.now ∧ OpsEq s s' ∧
      ∀ k r, (k, r) ∈ s'.status ↔
        ((k ∈ js ∧ ∃ o, s.ops k = some o ∧ r = { priority := o.prio, lifetime := o.lifetime, lastseen := s.now }) ∨
         ((k, r) ∈ s.status ∧ k ∉ js)) := by
  intro js
  induction js with
  | nil =>
    intro s _
    exact ⟨s, rfl, rfl, opsEq_refl s, fun k r => by simp⟩
  | cons j rest ih =>
    intro s hall
    obtain ⟨o, ho, hoa, hoe, hoL⟩ := hall j List.mem_cons_self
    have hstep : ∃ s1, step u s (.keepalive j 0) = some s1 := by
      simp only [step, ho, hoa]; exact ⟨_, rfl⟩
    obtain ⟨s1, h1⟩ := hstep
    obtain ⟨o', ho', _, hnow1, _, hst1, hops1⟩ := keepalive_spec h1
    rw [ho] at ho'; injection ho' with e; subst e
    have heq1 : OpsEq s s1 := opsEq_upd ho hops1 rfl rfl rfl rfl
    have hall1 : ∀ k ∈ rest, ∃ o, s1.ops k = some o ∧ o.alive = true ∧ o.exiting = false ∧ 1 ≤ o.lifetime := by
      intro k hk
      obtain ⟨ok, hok, hka, hke, hkL⟩ := hall k (List.mem_cons_of_mem _ hk)
      rcases heq1 k with ⟨x, _⟩ | ⟨a, a', ha, ha', _, hl, hal, hex⟩
      · rw [x] at hok; cases hok
      · rw [ha] at hok; injection hok with e; subst e
        exact ⟨a', ha', by rw [hal]; exact hka, by rw [hex]; exact hke, by rw [hl]; exact hkL⟩
    obtain ⟨s', hrun, hnow, heq, hrec⟩ := ih s1 hall1
    refine ⟨s', by simp only [List.map_cons, run, h1]; exact hrun, by rw [hnow, hnow1], opsEq_trans heq1 heq, ?_⟩
    have hnew : s1.status = s.status.set j { priority := o.prio, lifetime := o.lifetime, lastseen := s.now } := by
      rw [hst1]
      have : touchVal u o.prio o.lifetime (s.now - ((0 : Nat) : Int)) =
          some { priority := o.prio, lifetime := o.lifetime, lastseen := s.now } := by
        rw [touchVal_pos hu hoL]; simp
      rw [this]; rfl
    -- the record an operator writes depends only on prio/lifetime, which `s` and `s1` agree on
    have hsame : ∀ k, (∃ o1, s1.ops k = some o1 ∧ True) → ∀ r, (∃ o1, s1.ops k = some o1 ∧ r = ({ priority := o1.prio, lifetime := o1.lifetime, lastseen := s1.now } : Rec)) ↔
        (∃ o0, s.ops k = some o0 ∧ r = ({ priority := o0.prio, lifetime := o0.lifetime, lastseen := s.now } : Rec)) := by
      intro k _ r
      rcases heq1 k with ⟨x, y⟩ | ⟨a, a', ha, ha', hp, hl, _, _⟩
      · simp [x, y]
      · simp [ha, ha', hp, hl, hnow1]
    intro k r
    rw [hrec k r, hnew]
    constructor
    · rintro (⟨hk, o1, ho1, hr⟩ | ⟨hm, hk⟩)
      · left
        refine ⟨List.mem_cons_of_mem _ hk, ?_⟩
        exact ((hsame k ⟨o1, ho1, trivial⟩ r).mp ⟨o1, ho1, hr⟩)
      · rcases mem_set.mp hm with ⟨rfl, rfl⟩ | ⟨hne, hm0⟩
        · exact Or.inl ⟨List.mem_cons_self, o, ho, rfl⟩
        · right
          refine ⟨hm0, ?_⟩
          intro hc
          rcases List.mem_cons.mp hc with rfl | hc
          · exact hne rfl
          · exact hk hc
    · rintro (⟨hk, o0, ho0, hr⟩ | ⟨hm, hk⟩)
      · by_cases hkr : k ∈ rest
        · left
          refine ⟨hkr, ?_⟩
          have hex : ∃ o1, s1.ops k = some o1 ∧ True := by
            rcases heq1 k with ⟨x, _⟩ | ⟨a, a', ha, ha', _⟩
            · rw [x] at ho0; cases ho0
            · exact ⟨a', ha', trivial⟩
          exact (hsame k hex r).mpr ⟨o0, ho0, hr⟩
        · right
          have hkj : k = j := by
            rcases List.mem_cons.mp hk with rfl | hc
            · rfl
            · exact absurd hc hkr
          subst hkj
          rw [ho] at ho0; injection ho0 with e; subst e
          exact ⟨mem_set.mpr (Or.inl ⟨rfl, hr⟩), hkr⟩
      · right
        have hkj : k ≠ j := fun e => hk (by rw [e]; exact List.mem_cons_self)
        exact ⟨mem_set.mpr (Or.inr ⟨hkj, hm⟩), fun hc => hk (List.mem_cons_of_mem _ hc)⟩

/-- a batch of deliveries to running operators always runs -/
theorem run_delivers_enabled {u : Int} : ∀ (js : List Identity) (s : State),
    (∀ j ∈ js, ∃ o, s.ops j = some o ∧ o.alive = true ∧ o.exiting = false) →
    ∃ s', run u s (js.map Label.deliver) = some s' := by
  intro js
  induction js with
  | nil => intro s _; exact ⟨s, rfl⟩
  | cons j rest ih =>
    intro s hall
    obtain ⟨o, ho, hoa, hoe⟩ := hall j List.mem_cons_self
    have hstep : ∃ s1, step u s (.deliver j) = some s1 := by
      simp only [step, ho, hoa, hoe]; exact ⟨_, rfl⟩
    obtain ⟨s1, h1⟩ := hstep
    obtain ⟨o', ho', _, _, _, _, _, hops1⟩ := deliver_spec h1
    rw [ho] at ho'; injection ho' with e; subst e
    have hall1 : ∀ k ∈ rest, ∃ o, s1.ops k = some o ∧ o.alive = true ∧ o.exiting = false := by
      intro k hk
      obtain ⟨ok, hok, hka, hke⟩ := hall k (List.mem_cons_of_mem _ hk)
      by_cases hkj : k = j
      · subst hkj
        rw [ho] at hok; injection hok with e; subst e
        exact ⟨{ o with paused := blockedB u s.status k o.prio s.now, seen := some (s.ver, s.now),
                        sleeping := willTouch u s k o }, by rw [hops1]; simp, hka, hke⟩
      · exact ⟨ok, by rw [hops1, updOp_other _ _ hkj]; exact hok, hka, hke⟩
    obtain ⟨s', hrun⟩ := ih s1 hall1
    exact ⟨s', by simp only [List.map_cons, run, h1]; exact hrun⟩

end Kopf.C13
