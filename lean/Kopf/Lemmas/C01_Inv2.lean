/-
  C01 — second half of the invariant preservation (existential / history clauses) and the
  master lemma `inv_reach`: every reachable state satisfies `Inv`.
-/
import Kopf.Lemmas.C01_InvB
namespace Kopf.C01

section
variable {s s' : State} {l : Label}

theorem stream_live_step (hi : Inv s) (h : step s l = some s') :
    s'.closed = false → ∀ k, s'.streams k ≠ none →
      ∃ w p, w.key = k ∧ s'.pc w = some p ∧ p.live = true := by
  have h1 := hi.stream_live
  have h2 := hi.fresh
  have h3 := hi.live_stream
  have h5 := hi.no_checked
  have h6 : ∀ w rest, s.pendingQ = w :: rest → s.pc w = some .pending := by
    intro w rest hq; exact (hi.pend_iff w).1 (by simp [hq])
  intro hc k hk
  cases l <;> step_cases h <;> (try dsimp only at hc hk ⊢)
  all_goals first
    | grind [upd_apply, Pc.live_pending, Pc.live_spawned, Pc.live_waiting, Pc.live_busy, Pc.live_leaving]
    | (rename_i _ k1 e1 hq
       by_cases hkk : k = k1
       · exact ⟨⟨k1, s.nextGen k1⟩, .pending, hkk.symm, by simp, rfl⟩
       · grind [upd_apply, Pc.live_pending, Pc.live_spawned, Pc.live_waiting, Pc.live_busy, Pc.live_leaving])

theorem dropped_nil_step (hi : Inv s) (h : step s l = some s') :
    s'.closing = false → ∀ k, s'.dropped k = [] := by
  have h1 := hi.dropped_nil
  intro hc k
  cases l <;> step_cases h <;> simp_all

theorem dropLast_append_singleton (b : List Item) (i : Item) : (b ++ [i]).dropLast = b := by
  simp

theorem mem_dropLast_cons {x a : Item} {b : List Item} (h : x ∈ b.dropLast) : x ∈ (a :: b).dropLast := by
  cases b with
  | nil => simp at h
  | cons c r => simp [List.dropLast] at h ⊢; exact Or.inr h

theorem eos_head_alone {tail : List Item} (h : Item.eos ∉ (Item.eos :: tail).dropLast) : tail = [] := by
  cases tail with
  | nil => rfl
  | cons c r => simp [List.dropLast] at h

theorem eos_last_step (hi : Inv s) (h : step s l = some s') :
    ∀ k b, s'.streams k = some b → Item.eos ∉ b.dropLast := by
  have h1 := hi.eos_last
  have h3 := hi.noeos
  intro k b
  cases l <;> step_cases h <;> (try dsimp only) <;> (try simp only [upd_apply]) <;> (try split) <;>
    (try (intro hb; cases hb)) <;> (try simp only [dropLast_append_singleton])
  all_goals first
    | (intro hb; exact h1 _ _ hb)
    | grind [mem_dropLast_cons]

theorem lossless_step (hi : Inv s) (h : step s l = some s') :
    s'.closed = false → ∀ k, s'.failedK k = false →
      s'.arrived k = s'.started k ++ backlogEvs s' k ++ handEvs s' k ++ s'.dropped k := by
  have h1 := hi.lossless
  have h2 := hi.hand_none
  have h3 := hi.noeos
  have h4 := hi.closed_closing
  have h5 := hi.dropped_nil
  have h6 : ∀ k tail, s.streams k = some (Item.eos :: tail) → tail = [] :=
    fun k tail hst => eos_head_alone (hi.eos_last k _ hst)
  have h7 : ∀ k, handOf s.hand k = [] ∨ s.dropped k = [] := by
    intro k
    cases hh : s.hand with
    | none => left; rfl
    | some ke => right; exact hi.dropped_nil (hi.hand_none ke.1 ke.2 (by simp [hh])).2 k
  intro hc k hf
  cases l <;> step_cases h <;> (try dsimp only at hc hf ⊢)
  all_goals (simp only [backlogEvs, handEvs, dropHand] at h1 ⊢)
  all_goals grind [upd_apply, evs_append, evs_cons_ev, evs_cons_eos, evs_nil, backlogOf_none, backlogOf_some,
    handOf_none, handOf_some]

theorem busy_started_step (hi : Inv s) (h : step s l = some s') :
    ∀ w e, s'.pc w = some (.busy e) → s'.started w.key = s'.processed w.key ++ [e] := by
  have h0 := hi.busy_started
  have h1 := hi.started_spec
  have h2 := hi.uniq
  have h4 := hi.closed_closing
  intro w0 e0
  cases l <;> step_cases h <;> (try dsimp only)
  all_goals grind [upd_apply, Pc.live_pending, Pc.live_spawned, Pc.live_waiting, Pc.live_busy, Pc.live_leaving]

theorem started_spec_step (hi : Inv s) (h : step s l = some s') :
    s'.closed = false → ∀ k, s'.started k = s'.processed k ∨
      ∃ w e, w.key = k ∧ s'.pc w = some (.busy e) ∧ s'.started k = s'.processed k ++ [e] := by
  have h0 := hi.busy_started
  have h1 := hi.started_spec
  have h2 := hi.uniq
  have h3 := hi.fresh
  have h6 : ∀ w rest, s.pendingQ = w :: rest → s.pc w = some .pending := by
    intro w rest hq; exact (hi.pend_iff w).1 (by simp [hq])
  intro hc k
  cases l <;> step_cases h <;> (try dsimp only at hc ⊢)
  all_goals grind [upd_apply, Pc.live_pending, Pc.live_spawned, Pc.live_waiting, Pc.live_busy, Pc.live_leaving]

theorem inv_step (hi : Inv s) (h : step s l = some s') : Inv s' where
  closed_closing := closed_closing_step hi h
  pend_iff := pend_iff_step hi h
  run_iff := run_iff_step hi h
  pend_nodup := pend_nodup_step hi h
  fresh := fresh_step hi h
  live_stream := live_stream_step hi h
  stream_live := stream_live_step hi h
  uniq := uniq_step hi h
  hand_none := hand_none_step hi h
  nonempty := nonempty_step hi h
  noeos := noeos_step hi h
  lossless := lossless_step hi h
  dropped_nil := dropped_nil_step hi h
  eos_last := eos_last_step hi h
  started_spec := started_spec_step hi h
  busy_started := busy_started_step hi h
  limit_ok := limit_step hi h
  no_checked := no_checked_step hi h

end

theorem inv_init (lim : Option Nat) : Inv (init lim) := by
  constructor <;> simp [init, backlogEvs, handEvs]

theorem inv_run {s s' : State} {ls : List Label} (hi : Inv s) (h : run s ls = some s') : Inv s' := by
  induction ls generalizing s with
  | nil => simp [run, runWith] at h; exact h ▸ hi
  | cons l ls ih =>
    simp only [run, runWith] at h
    split at h
    · rename_i s1 hs1
      exact ih (inv_step hi hs1) h
    · cases h

/-- every state reachable by ANY label list satisfies the invariant -/
theorem inv_reach {lim : Option Nat} {ls : List Label} {s : State} (h : Reach lim ls s) : Inv s :=
  inv_run (inv_init lim) h

end Kopf.C01
