/-
  C18 helper lemmas, part 1: association-list facts, the prefix test, and what `dicts.ensure` /
  `dicts.remove` do to the leaf function of a body.
-/
import Kopf.Model.C18_Admission
namespace Kopf.C18
open Kopf Kopf.J
set_option linter.unusedSimpArgs false

/-! ### association lists -/

theorem lookup_insert_same (k : String) (v : J) (l : List (String × J)) :
    lookup k (insert k v l) = some v := by
  induction l with
  | nil => simp [J.insert, J.lookup]
  | cons hd tl ih =>
    obtain ⟨k', v'⟩ := hd
    by_cases h : k' = k
    · simp [J.insert, J.lookup, h]
    · simp [J.insert, J.lookup, h, ih]

theorem lookup_insert_other (k k' : String) (v : J) (l : List (String × J)) (h : k' ≠ k) :
    lookup k' (insert k v l) = lookup k' l := by
  induction l with
  | nil => simp [J.insert, J.lookup, Ne.symm h]
  | cons hd tl ih =>
    obtain ⟨k2, v2⟩ := hd
    by_cases h2 : k2 = k
    · subst h2
      have : ¬ k2 = k' := fun e => h e.symm
      simp [J.insert, J.lookup, this]
    · by_cases h3 : k2 = k'
      · subst h3; simp [J.insert, J.lookup, h2]
      · simp [J.insert, J.lookup, h2, h3, ih]

theorem lookup_erase_same (k : String) (l : List (String × J)) : lookup k (erase k l) = none := by
  induction l with
  | nil => simp [J.erase, J.lookup]
  | cons hd tl ih =>
    obtain ⟨k', v'⟩ := hd
    by_cases h : k' = k
    · simp [J.erase, h, ih]
    · simp [J.erase, J.lookup, h, ih]

theorem lookup_erase_other (k k' : String) (l : List (String × J)) (h : k' ≠ k) :
    lookup k' (erase k l) = lookup k' l := by
  induction l with
  | nil => simp [J.erase, J.lookup]
  | cons hd tl ih =>
    obtain ⟨k2, v2⟩ := hd
    by_cases h2 : k2 = k
    · subst h2
      have : ¬ k2 = k' := fun e => h e.symm
      simp [J.erase, J.lookup, this, ih]
    · by_cases h3 : k2 = k'
      · subst h3; simp [J.erase, J.lookup, h2]
      · simp [J.erase, J.lookup, h2, h3, ih]

/-! ### prefix test -/

/-- `pre p q`: `p` is a prefix of `q`. -/
def pre : List String → List String → Bool
  | [], _ => true
  | _ :: _, [] => false
  | a :: p, b :: q => if a = b then pre p q else false

@[simp] theorem pre_nil (q : List String) : pre [] q = true := rfl
@[simp] theorem pre_cons_nil (a : String) (p : List String) : pre (a :: p) [] = false := rfl
theorem pre_cons_cons (a b : String) (p q : List String) :
    pre (a :: p) (b :: q) = if a = b then pre p q else false := rfl
@[simp] theorem pre_cons_same (a : String) (p q : List String) : pre (a :: p) (a :: q) = pre p q := by
  simp [pre_cons_cons]

theorem pre_refl (p : List String) : pre p p = true := by
  induction p with
  | nil => rfl
  | cons a p ih => simp [ih]

theorem pre_append_left (p s q : List String) (h : pre (p ++ s) q = true) : pre p q = true := by
  induction p generalizing q with
  | nil => rfl
  | cons a p ih =>
    cases q with
    | nil => simp at h
    | cons b q =>
      simp only [List.cons_append, pre_cons_cons] at h ⊢
      by_cases e : a = b
      · simp [e] at h ⊢; exact ih q h
      · simp [e] at h

theorem pre_append_self (p s : List String) : pre p (p ++ s) = true := by
  induction p with
  | nil => rfl
  | cons a p ih => simp [ih]

/-- two different keys at the same position cannot both be on the way to `q`. -/
theorem pre_snoc_disjoint (p q : List String) (k k' : String)
    (h1 : pre (p ++ [k]) q = true) (h2 : pre (p ++ [k']) q = true) : k = k' := by
  induction p generalizing q with
  | nil =>
    cases q with
    | nil => simp at h1
    | cons b q =>
      simp only [List.nil_append, pre_cons_cons] at h1 h2
      by_cases e1 : k = b
      · by_cases e2 : k' = b
        · rw [e1, e2]
        · simp [e2] at h2
      · simp [e1] at h1
  | cons a p ih =>
    cases q with
    | nil => simp at h1
    | cons b q =>
      simp only [List.cons_append, pre_cons_cons] at h1 h2
      by_cases e : a = b
      · simp [e] at h1 h2; exact ih q h1 h2
      · simp [e] at h1

/-- a path longer than `q` is not a prefix of a prefix of … : if `q` is a prefix of `p` then
    `p ++ [k]` is not a prefix of `q`. -/
theorem not_pre_snoc_of_pre (p q : List String) (k : String) (h : pre q p = true) :
    pre (p ++ [k]) q = false := by
  induction p generalizing q with
  | nil =>
    cases q with
    | nil => rfl
    | cons b q => simp at h
  | cons a p ih =>
    cases q with
    | nil => rfl
    | cons b q =>
      simp only [List.cons_append, pre_cons_cons] at h ⊢
      by_cases e : a = b
      · subst e
        simp only [if_true] at h ⊢
        exact ih q h
      · simp [e]

/-! ### leaf functions -/

abbrev LeafMap := List String → Option J

/-- set a leaf at `p`: everything at or below `p` is replaced. -/
def setA (M : LeafMap) (p : List String) (v : J) : LeafMap :=
  fun q => if pre p q then (if q = p then some v else none) else M q

/-- delete at `p`: everything at or below `p` disappears. -/
def delA (M : LeafMap) (p : List String) : LeafMap :=
  fun q => if pre p q then none else M q

theorem leafAt_obj_nil (kvs : List (String × J)) : leafAt (.obj kvs) [] = none := rfl
theorem leafAt_obj_cons (kvs : List (String × J)) (k : String) (ks : List String) :
    leafAt (.obj kvs) (k :: ks) = match lookup k kvs with
      | some v => leafAt v ks
      | none => none := rfl

theorem leafAt_nonobj (j : J) (h : j.isObj = false) (q : List String) :
    leafAt j q = if q = [] then some j else none := by
  cases j <;> cases q <;> simp_all [leafAt, isObj]

theorem leafAt_empty (q : List String) : leafAt (.obj []) q = none := by
  cases q <;> simp [leafAt, J.lookup]

/-! ### `dicts.ensure` / `dicts.remove` on leaf functions -/


theorem ensure_cons2 (kvs : List (String × J)) (k k2 : String) (ks : List String) (v : J) :
    ensure (.obj kvs) (k :: k2 :: ks) v =
      (ensure ((lookup k kvs).getD (.obj [])) (k2 :: ks) v).map (fun c' => .obj (J.insert k c' kvs)) := by
  cases h : lookup k kvs with
  | none =>
    simp only [ensure, h, Option.getD]
    cases ensure (.obj []) (k2 :: ks) v <;> rfl
  | some c =>
    simp only [ensure, h, Option.getD]
    cases ensure c (k2 :: ks) v <;> rfl

theorem ensure_leaf (v : J) (hv : v.isObj = false) (p : List String) :
    ∀ (b b' : J), ensure b p v = .ok b' → ∀ q, leafAt b' q = setA (leafAt b) p v q := by
  induction p with
  | nil => intro b b' h; cases b <;> simp [ensure] at h
  | cons k ks ih =>
    intro b b' h q
    cases b with
    | obj kvs =>
      cases ks with
      | nil =>
        simp [ensure] at h
        subst h
        cases q with
        | nil => simp [setA, leafAt]
        | cons k' qs =>
          by_cases e : k = k'
          · subst e
            simp [setA, leafAt_obj_cons, lookup_insert_same, leafAt_nonobj v hv]
          · have e' : k' ≠ k := fun x => e x.symm
            simp [setA, leafAt_obj_cons, lookup_insert_other _ _ _ _ e', pre_cons_cons, e]
      | cons k2 ks2 =>
        rw [ensure_cons2] at h
        cases hc : ensure ((lookup k kvs).getD (.obj [])) (k2 :: ks2) v with
        | error e => simp [hc, Except.map] at h
        | ok c' =>
          simp [hc, Except.map] at h
          subst h
          have ihc := ih _ _ hc
          cases q with
          | nil => simp [setA, leafAt]
          | cons k' qs =>
            by_cases e : k = k'
            · subst e
              simp only [leafAt_obj_cons, lookup_insert_same, ihc qs, setA, pre_cons_same]
              cases hl : lookup k kvs with
              | none => simp [leafAt_empty]
              | some c => simp
            · have e' : k' ≠ k := fun x => e x.symm
              simp [setA, leafAt_obj_cons, lookup_insert_other _ _ _ _ e', pre_cons_cons, e]
    | _ => simp [ensure] at h


theorem remove_leaf (p : List String) :
    ∀ (b b' : J), remove b p = .ok b' → ∀ q, leafAt b' q = delA (leafAt b) p q := by
  induction p with
  | nil => intro b b' h; cases b <;> simp [remove] at h
  | cons k ks ih =>
    intro b b' h q
    cases b with
    | obj kvs =>
      cases ks with
      | nil =>
        simp [remove] at h
        subst h
        cases q with
        | nil => simp [delA, leafAt]
        | cons k' qs =>
          by_cases e : k = k'
          · subst e
            simp [delA, leafAt_obj_cons, lookup_erase_same]
          · have e' : k' ≠ k := fun x => e x.symm
            simp [delA, leafAt_obj_cons, lookup_erase_other _ _ _ e', pre_cons_cons, e]
      | cons k2 ks2 =>
        cases hl : lookup k kvs with
        | none =>
          simp [remove, hl] at h
          subst h
          cases q with
          | nil => simp [delA, leafAt]
          | cons k' qs =>
            by_cases e : k = k'
            · subst e; simp [delA, leafAt_obj_cons, hl]
            · simp [delA, pre_cons_cons, e]
        | some c =>
          cases hc : remove c (k2 :: ks2) with
          | error e => simp [remove, hl, hc, bind, Except.bind] at h
          | ok c' =>
            have ihc := ih _ _ hc
            cases q with
            | nil =>
              simp only [remove, hl, hc, bind, Except.bind, pure, Except.pure] at h
              split at h <;> (simp at h; subst h; simp [delA, leafAt])
            | cons k' qs =>
              simp only [remove, hl, hc, bind, Except.bind, pure, Except.pure] at h
              by_cases e : k = k'
              · subst e
                have := ihc qs
                split at h
                · simp at h; subst h
                  rw [leafAt_empty] at this
                  simp only [leafAt_obj_cons, lookup_erase_same, delA, pre_cons_same, hl]
                  simp only [delA] at this
                  split
                  · rfl
                  · rename_i hp; simp [hp] at this; exact this
                · simp at h; subst h
                  simp only [leafAt_obj_cons, lookup_insert_same, delA, pre_cons_same, hl]
                  simpa [delA] using this
              · have e' : k' ≠ k := fun x => e x.symm
                split at h <;>
                  (simp at h; subst h
                   simp [delA, leafAt_obj_cons, lookup_erase_other _ _ _ e',
                     lookup_insert_other _ _ _ _ e', pre_cons_cons, e])
    | _ => simp [remove] at h


/-- no leaf sits at a proper prefix of `p` -/
def NoLeafAbove (M : LeafMap) (p : List String) : Prop :=
  ∀ q, pre q p = true → q ≠ p → M q = none

theorem obj_of_leafAt_nil {b : J} (h : leafAt b [] = none) : ∃ kvs, b = .obj kvs := by
  cases b <;> simp [leafAt] at h
  exact ⟨_, rfl⟩

theorem noLeafAbove_child (kvs : List (String × J)) (k : String) (p : List String)
    (h : NoLeafAbove (leafAt (.obj kvs)) (k :: p)) :
    NoLeafAbove (leafAt ((lookup k kvs).getD (.obj []))) p := by
  intro q hq hne
  have := h (k :: q) (by simpa using hq) (by simpa using hne)
  rw [leafAt_obj_cons] at this
  cases hl : lookup k kvs with
  | none => simp [leafAt_empty]
  | some c => simpa [hl] using this

theorem ensure_ok (v : J) (p : List String) :
    ∀ (b : J), p ≠ [] → NoLeafAbove (leafAt b) p → ∃ b', ensure b p v = .ok b' := by
  induction p with
  | nil => intro b h; exact absurd rfl h
  | cons k ks ih =>
    intro b _ hM
    obtain ⟨kvs, rfl⟩ := obj_of_leafAt_nil (hM [] rfl (by simp))
    cases ks with
    | nil => simp only [ensure]; exact ⟨_, rfl⟩
    | cons k2 ks2 =>
      obtain ⟨c', hc⟩ := ih ((lookup k kvs).getD (.obj [])) (by simp) (noLeafAbove_child kvs k _ hM)
      cases hl : lookup k kvs with
      | none => simp [hl] at hc; simp only [ensure, hl, hc, bind, Except.bind, pure, Except.pure]; exact ⟨_, rfl⟩
      | some c => simp [hl] at hc; simp only [ensure, hl, hc, bind, Except.bind, pure, Except.pure]; exact ⟨_, rfl⟩

theorem remove_ok (p : List String) :
    ∀ (b : J), p ≠ [] → NoLeafAbove (leafAt b) p → ∃ b', remove b p = .ok b' := by
  induction p with
  | nil => intro b h; exact absurd rfl h
  | cons k ks ih =>
    intro b _ hM
    obtain ⟨kvs, rfl⟩ := obj_of_leafAt_nil (hM [] rfl (by simp))
    cases ks with
    | nil => simp only [remove]; exact ⟨_, rfl⟩
    | cons k2 ks2 =>
      cases hl : lookup k kvs with
      | none => simp only [remove, hl]; exact ⟨_, rfl⟩
      | some c =>
        have hch := noLeafAbove_child kvs k _ hM
        simp [hl] at hch
        obtain ⟨c', hc⟩ := ih c (by simp) hch
        simp only [remove, hl, hc, bind, Except.bind, pure, Except.pure]
        split <;> exact ⟨_, rfl⟩
/-! ### `ensure` with an empty mapping, `resolve?`, and the repair step `clearNonMapping` -/

/-- setting `{}` at `p` leaves no leaf at or below `p` -/
theorem ensure_empty_leaf (p : List String) :
    ∀ (b b' : J), ensure b p (.obj []) = .ok b' → ∀ q, leafAt b' q = delA (leafAt b) p q := by
  induction p with
  | nil => intro b b' h; cases b <;> simp [ensure] at h
  | cons k ks ih =>
    intro b b' h q
    cases b with
    | obj kvs =>
      cases ks with
      | nil =>
        simp [ensure] at h
        subst h
        cases q with
        | nil => simp [delA, leafAt]
        | cons k' qs =>
          by_cases e : k = k'
          · subst e
            simp [delA, leafAt_obj_cons, lookup_insert_same, leafAt_empty]
          · have e' : k' ≠ k := fun x => e x.symm
            simp [delA, leafAt_obj_cons, lookup_insert_other _ _ _ _ e', pre_cons_cons, e]
      | cons k2 ks2 =>
        rw [ensure_cons2] at h
        cases hc : ensure ((lookup k kvs).getD (.obj [])) (k2 :: ks2) (.obj []) with
        | error e => simp [hc, Except.map] at h
        | ok c' =>
          simp [hc, Except.map] at h
          subst h
          have ihc := ih _ _ hc
          cases q with
          | nil => simp [delA, leafAt]
          | cons k' qs =>
            by_cases e : k = k'
            · subst e
              simp only [leafAt_obj_cons, lookup_insert_same, ihc qs, delA, pre_cons_same]
              cases hl : lookup k kvs with
              | none => simp [leafAt_empty]
              | some c => simp
            · have e' : k' ≠ k := fun x => e x.symm
              simp [delA, leafAt_obj_cons, lookup_insert_other _ _ _ _ e', pre_cons_cons, e]
    | _ => simp [ensure] at h

theorem resolve_some_leaf (P : List String) :
    ∀ (b t : J), resolve? b P = some t → leafAt b P = if t.isObj then none else some t := by
  induction P with
  | nil =>
    intro b t h
    simp [resolve?] at h
    subst h
    cases b <;> simp [leafAt, isObj]
  | cons k ks ih =>
    intro b t h
    cases b with
    | obj kvs =>
      rw [leafAt_obj_cons]
      cases hl : lookup k kvs with
      | none => simp [resolve?, hl] at h
      | some v => simp only [resolve?, hl] at h; simpa using ih v t h
    | _ => simp [resolve?] at h

theorem resolve_none_leaf (P : List String) :
    ∀ (b : J), resolve? b P = none → leafAt b P = none := by
  induction P with
  | nil => intro b h; simp [resolve?] at h
  | cons k ks ih =>
    intro b h
    cases b with
    | obj kvs =>
      rw [leafAt_obj_cons]
      cases hl : lookup k kvs with
      | none => rfl
      | some v => simp only [resolve?, hl] at h; simpa using ih v h
    | _ => simp [leafAt]

theorem pre_antisymm (p q : List String) (h1 : pre p q = true) (h2 : pre q p = true) : p = q := by
  induction p generalizing q with
  | nil => cases q with
    | nil => rfl
    | cons b q => simp at h2
  | cons a p ih =>
    cases q with
    | nil => simp at h1
    | cons b q =>
      simp only [pre_cons_cons] at h1 h2
      by_cases e : a = b
      · subst e
        simp only [if_true] at h1 h2
        rw [ih q h1 h2]
      · simp [e] at h1

/-- the repair step on leaf functions: a leaf sitting at `P` is wiped, nothing else changes -/
def clrA (M : LeafMap) (P : List String) : LeafMap :=
  fun q => if (M P).isSome && pre P q then none else M q

theorem clearNonMapping_nonobj (b : J) (P : List String) (t : J) (hr : resolve? b P = some t)
    (ho : t.isObj = false) : clearNonMapping b P = ensure b P (.obj []) := by
  unfold clearNonMapping
  rw [hr]
  cases t with
  | obj _ => simp [isObj] at ho
  | _ => rfl

theorem clearNonMapping_sem (b : J) (P : List String) (hP : P ≠ [] ∨ b.isObj = true)
    (hA : NoLeafAbove (leafAt b) P) :
    ∃ b1, clearNonMapping b P = .ok b1 ∧ leafAt b1 = clrA (leafAt b) P := by
  cases hr : resolve? b P with
  | none =>
    refine ⟨b, by simp [clearNonMapping, hr], ?_⟩
    funext q; simp [clrA, resolve_none_leaf P b hr]
  | some t =>
    have hl := resolve_some_leaf P b t hr
    by_cases ho : t.isObj = true
    · have : ∃ kvs, t = .obj kvs := by cases t <;> simp [isObj] at ho; exact ⟨_, rfl⟩
      obtain ⟨kvs, rfl⟩ := this
      refine ⟨b, by simp [clearNonMapping, hr], ?_⟩
      funext q; simp [clrA, hl, isObj]
    · have ho' : t.isObj = false := by simpa using ho
      have hne : P ≠ [] := by
        rcases hP with hP | hP
        · exact hP
        · intro e; subst e
          simp [resolve?] at hr; subst hr; rw [hP] at ho'; exact absurd ho' (by simp)
      obtain ⟨b1, h1⟩ := ensure_ok (.obj []) P b hne hA
      have hs := ensure_empty_leaf P b b1 h1
      refine ⟨b1, by rw [clearNonMapping_nonobj b P t hr ho']; exact h1, ?_⟩
      funext q; rw [hs q]; simp [clrA, delA, hl, ho']

end Kopf.C18
