/-
  C18 helper lemmas, part 1: association-list facts, the prefix test, and what `dicts.ensure` /
  `dicts.remove` do to the leaf function of a body.
-/
import Kopf.Model.C18_Admission
namespace Kopf.C18
open Kopf Kopf.J

/-! ### association lists -/

theorem lookup_insert_same (k : String) (v : J) (l : List (String × J)) :
    lookup k (insert k v l) = some v := by
  induction l with
  | nil => simp [J.insert, J.lookup]
  | cons hd tl ih =>
    obtain ⟨k', v'⟩ := hd
    by_cases h : k' = k
    · simp [J.insert, J.lookup, h]
    · simp [J.insert, J.lookup, h, ih]

theorem lookup_insert_other (k k' : String) (v : J) (l : List (String × J)) (h : k' ≠ k) :
    lookup k' (insert k v l) = lookup k' l := by
  induction l with
  | nil => simp [J.insert, J.lookup, Ne.symm h]
  | cons hd tl ih =>
    obtain ⟨k2, v2⟩ := hd
    by_cases h2 : k2 = k
    · subst h2
      have : ¬ k2 = k' := fun e => h e.symm
      simp [J.insert, J.lookup, this]
    · by_cases h3 : k2 = k'
      · subst h3; simp [J.insert, J.lookup, h2]
      · simp [J.insert, J.lookup, h2, h3, ih]

theorem lookup_erase_same (k : String) (l : List (String × J)) : lookup k (erase k l) = none := by
  induction l with
  | nil => simp [J.erase, J.lookup]
  | cons hd tl ih =>
    obtain ⟨k', v'⟩ := hd
    by_cases h : k' = k
    · simp [J.erase, h, ih]
    · simp [J.erase, J.lookup, h, ih]

theorem lookup_erase_other (k k' : String) (l : List (String × J)) (h : k' ≠ k) :
    lookup k' (erase k l) = lookup k' l := by
  induction l with
  | nil => simp [J.erase, J.lookup]
  | cons hd tl ih =>
    obtain ⟨k2, v2⟩ := hd
    by_cases h2 : k2 = k
    · subst h2
      have : ¬ k2 = k' := fun e => h e.symm
      simp [J.erase, J.lookup, this, ih]
    · by_cases h3 : k2 = k'
      · subst h3; simp [J.erase, J.lookup, h2]
      · simp [J.erase, J.lookup, h2, h3, ih]

/-! ### prefix test -/

/-- `pre p q`: `p` is a prefix of `q`. -/
def pre : List String → List String → Bool
  | [], _ => true
  | _ :: _, [] => false
  | a :: p, b :: q => if a = b then pre p q else false

@[simp] theorem pre_nil (q : List String) : pre [] q = true := rfl
@[simp] theorem pre_cons_nil (a : String) (p : List String) : pre (a :: p) [] = false := rfl
theorem pre_cons_cons (a b : String) (p q : List String) :
    pre (a :: p) (b :: q) = if a = b then pre p q else false := rfl
@[simp] theorem pre_cons_same (a : String) (p q : List String) : pre (a :: p) (a :: q) = pre p q := by
  simp [pre_cons_cons]

theorem pre_refl (p : List String) : pre p p = true := by
  induction p with
  | nil => rfl
  | cons a p ih => simp [ih]

theorem pre_append_left (p s q : List String) (h : pre (p ++ s) q = true) : pre p q = true := by
  induction p generalizing q with
  | nil => rfl
  | cons a p ih =>
    cases q with
    | nil => simp at h
    | cons b q =>
      simp only [List.cons_append, pre_cons_cons] at h ⊢
      by_cases e : a = b
      · simp [e] at h ⊢; exact ih q h
      · simp [e] at h

theorem pre_append_self (p s : List String) : pre p (p ++ s) = true := by
  induction p with
  | nil => rfl
  | cons a p ih => simp [ih]

/-- two different keys at the same position cannot both be on the way to `q`. -/
theorem pre_snoc_disjoint (p q : List String) (k k' : String)
    (h1 : pre (p ++ [k]) q = true) (h2 : pre (p ++ [k']) q = true) : k = k' := by
  induction p generalizing q with
  | nil =>
    cases q with
    | nil => simp at h1
    | cons b q =>
      simp only [List.nil_append, pre_cons_cons] at h1 h2
      by_cases e1 : k = b
      · by_cases e2 : k' = b
        · rw [e1, e2]
        · simp [e2] at h2
      · simp [e1] at h1
  | cons a p ih =>
    cases q with
    | nil => simp at h1
    | cons b q =>
      simp only [List.cons_append, pre_cons_cons] at h1 h2
      by_cases e : a = b
      · simp [e] at h1 h2; exact ih q h1 h2
      · simp [e] at h1

/-- a path longer than `q` is not a prefix of a prefix of … : if `q` is a prefix of `p` then
    `p ++ [k]` is not a prefix of `q`. -/
theorem not_pre_snoc_of_pre (p q : List String) (k : String) (h : pre q p = true) :
    pre (p ++ [k]) q = false := by
  induction p generalizing q with
  | nil =>
    cases q with
    | nil => rfl
    | cons b q => simp at h
  | cons a p ih =>
    cases q with
    | nil => rfl
    | cons b q =>
      simp only [List.cons_append, pre_cons_cons] at h ⊢
      by_cases e : a = b
      · subst e
        simp only [if_true] at h ⊢
        exact ih q h
      · simp [e]

/-! ### leaf functions -/

abbrev LeafMap := List String → Option J

/-- set a leaf at `p`: everything at or below `p` is replaced. -/
def setA (M : LeafMap) (p : List String) (v : J) : LeafMap :=
  fun q => if pre p q then (if q = p then some v else none) else M q

/-- delete at `p`: everything at or below `p` disappears. -/
def delA (M : LeafMap) (p : List String) : LeafMap :=
  fun q => if pre p q then none else M q

theorem leafAt_obj_nil (kvs : List (String × J)) : leafAt (.obj kvs) [] = none := rfl
theorem leafAt_obj_cons (kvs : List (String × J)) (k : String) (ks : List String) :
    leafAt (.obj kvs) (k :: ks) = match lookup k kvs with
      | some v => leafAt v ks
      | none => none := rfl

theorem leafAt_nonobj (j : J) (h : j.isObj = false) (q : List String) :
    leafAt j q = if q = [] then some j else none := by
  cases j <;> cases q <;> simp_all [leafAt, isObj]

theorem leafAt_empty (q : List String) : leafAt (.obj []) q = none := by
  cases q <;> simp [leafAt, J.lookup]

end Kopf.C18
