import Kopf.Model.C06_Slots
namespace Kopf.C06

/-- The invariant of the code's spawning rule: whatever is alive is THE recorded invocation, serials are fresh,
and a flag is never raised on an invocation that was not told to stop. -/
def SInv (s : Slots) : Prop :=
  (∀ i ∈ s.live, s.slot = some i.n) ∧ s.live.length ≤ 1 ∧ (∀ i ∈ s.live, i.n < s.next) ∧ (∀ i ∈ s.live, i.abandoned = true → i.told = true)

theorem sinv_init : SInv {} := by
  refine ⟨?_, ?_, ?_, ?_⟩ <;> simp

theorem live_of_slot_none {s : Slots} (h : SInv s) (hs : s.slot = none) : s.live = [] := by
  cases hl : s.live with
  | nil => rfl
  | cons i t =>
    have := h.1 i (by simp [hl])
    simp [hs] at this

theorem sinv_step {s s' : Slots} {l : SLabel} (h : SInv s) (hs : sstep false s l = some s') : SInv s' := by
  obtain ⟨h1, h2, h3, h4⟩ := h
  cases l with
  | spawn =>
    simp only [sstep] at hs
    split at hs
    · rename_i hr
      cases hslot : s.slot with
      | some k => simp [spawnRule, hslot] at hr
      | none =>
        have hl := live_of_slot_none ⟨h1, h2, h3, h4⟩ hslot
        cases hs
        refine ⟨?_, ?_, ?_, ?_⟩ <;> simp [hl]
    · cases hs; exact ⟨h1, h2, h3, h4⟩
  | tell =>
    simp only [sstep] at hs
    split at hs
    · cases hs; exact ⟨h1, h2, h3, h4⟩
    · rename_i k hk
      cases hs
      refine ⟨?_, ?_, ?_, ?_⟩
      · intro i hi
        simp only [Slots.update, List.mem_map] at hi
        obtain ⟨j, hj, rfl⟩ := hi
        have := h1 j hj
        simp only [Slots.update]
        split <;> simpa using this
      · simpa [Slots.update] using h2
      · intro i hi
        simp only [Slots.update, List.mem_map] at hi
        obtain ⟨j, hj, rfl⟩ := hi
        have := h3 j hj
        simp only [Slots.update]
        split <;> simpa using this
      · intro i hi
        simp only [Slots.update, List.mem_map] at hi
        obtain ⟨j, hj, rfl⟩ := hi
        split
        · intro _; rfl
        · exact h4 j hj
  | abandon =>
    simp only [sstep] at hs
    split at hs
    · rename_i i0 hrec
      split at hs
      · rename_i htold
        cases hs
        refine ⟨?_, ?_, ?_, ?_⟩
        · intro i hi
          simp only [Slots.update, List.mem_map] at hi
          obtain ⟨j, hj, rfl⟩ := hi
          have := h1 j hj
          simp only [Slots.update]
          split <;> simpa using this
        · simpa [Slots.update] using h2
        · intro i hi
          simp only [Slots.update, List.mem_map] at hi
          obtain ⟨j, hj, rfl⟩ := hi
          have := h3 j hj
          simp only [Slots.update]
          split <;> simpa using this
        · intro i hi
          simp only [Slots.update, List.mem_map] at hi
          obtain ⟨j, hj, rfl⟩ := hi
          split
          · rename_i heq
            intro _
            -- `j` is the recorded invocation `i0` itself: the only live one
            have hj0 : i0 ∈ s.live := by
              unfold Slots.recorded at hrec
              split at hrec
              · cases hrec
              · exact List.mem_of_find?_eq_some hrec
            have : j = i0 := by
              match hl : s.live, h2, hj, hj0 with
              | [x], _, hj, hj0 => simp at hj hj0; rw [hj, hj0]
              | [], _, hj, _ => simp at hj
              | _ :: _ :: _, h2, _, _ => simp at h2
            simpa [this] using htold
          · exact h4 j hj
      · cases hs
    · cases hs
  | exit n =>
    simp only [sstep] at hs
    split at hs
    · rename_i hany
      cases hs
      -- the only live invocation is the one that ends
      have hl : s.live.filter (fun i => !(i.n == n)) = [] := by
        match hl : s.live, h2 with
        | [], _ => rfl
        | [x], _ =>
          rw [hl] at hany
          simp at hany
          simp [hany]
        | _ :: _ :: _, h2 => simp at h2
      refine ⟨?_, ?_, ?_, ?_⟩ <;> simp [hl]
    · cases hs

theorem sinv_run {ls : List SLabel} : ∀ {s s' : Slots}, SInv s → srun false s ls = some s' → SInv s' := by
  induction ls with
  | nil => intro s s' h hr; simp [srun] at hr; exact hr ▸ h
  | cons l ls ih =>
    intro s s' h hr
    simp only [srun] at hr
    cases hst : sstep false s l with
    | none => simp [hst] at hr
    | some s1 =>
      simp only [hst, Option.bind_some] at hr
      exact ih (sinv_step h hst) hr

theorem sinv_reach {s : Slots} (h : SReach false s) : SInv s := by
  obtain ⟨ls, hr⟩ := h
  exact sinv_run sinv_init hr

end Kopf.C06
