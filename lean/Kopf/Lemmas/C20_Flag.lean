/-
  C20 helper lemma: the stop-flag checker is an unguarded root task that never enters a `finally:` of its own —
  it runs until it ends (used by `stop_flag_felt_at_once`).
-/
import Kopf.Lemmas.C20_Defs
set_option linter.unusedSimpArgs false
set_option linter.unusedVariables false
namespace Kopf.C20

set_option maxHeartbeats 4000000 in
theorem stopFlag_status {cfg : Cfg} {s : State} (hr : Reach cfg s) :
    s.st (.root .stopFlag) = .running ∨ (s.st (.root .stopFlag)).ended = true := by
  refine Reach.induction
    (P := fun s => s.st (.root .stopFlag) = .running ∨ (s.st (.root .stopFlag)).ended = true) ?_ ?_ s hr
  · left; simp [Kopf.C20.init, initSt, Root.guarded, Root.kind]
  · intro s s' l _ hI h
    cases l <;> simp only [step] at h
    all_goals (repeat' (split at h))
    all_goals (first | (cases h; done) | skip)
    all_goals (cases h)
    all_goals (try simp only [kind_orchestrator_iff, kind_killer_iff, kind_flagChecker_iff, kind_ultimate_iff,
      kind_startupCleanup_iff, kind_coreWatch_iff] at *)
    all_goals (try subst_vars)
    all_goals (try dsimp only)
    all_goals (grind [upd, Root.kind, TS.ended, failTS, Pend.ts])

end Kopf.C20
