/-
  Helper lemmas for the C12 theorems about `patch_obj` between the API client and the throttler (core Lean only).
-/
import Kopf.Model.C12_Patch
import Kopf.Lemmas.C12_Process
namespace Kopf.C12

theorem patchObj_nil (catch_ : PKind → ErrClass → PEnd) (bo : Backoffs) (enforce : Bool) (t : Int) :
    patchObj catch_ bo enforce [] t = ⟨[], .applied, t⟩ := rfl

theorem patchObj_cons_ok (catch_ : PKind → ErrClass → PEnd) (bo : Backoffs) (enforce : Bool) (k : PKind)
    (script : List Att) (rest : List (PKind × List Att)) (t : Int)
    (h : (request bo enforce script t).outcome = .ok) :
    patchObj catch_ bo enforce ((k, script) :: rest) t =
      ⟨request bo enforce script t :: (patchObj catch_ bo enforce rest (request bo enforce script t).fin).runs,
       (patchObj catch_ bo enforce rest (request bo enforce script t).fin).ending,
       (patchObj catch_ bo enforce rest (request bo enforce script t).fin).fin⟩ := by
  simp [patchObj, h]

theorem patchObj_cons_escalated (catch_ : PKind → ErrClass → PEnd) (bo : Backoffs) (enforce : Bool) (k : PKind)
    (script : List Att) (rest : List (PKind × List Att)) (t : Int) (c : ErrClass)
    (h : (request bo enforce script t).outcome = .escalated c) :
    patchObj catch_ bo enforce ((k, script) :: rest) t =
      ⟨[request bo enforce script t], catch_ k c, (request bo enforce script t).fin⟩ := by
  simp [patchObj, h]

/-- `patch_obj` never ends before it starts -/
theorem patchObj_fin_ge (catch_ : PKind → ErrClass → PEnd) (bo : Backoffs) (enforce : Bool)
    (calls : List (PKind × List Att)) (t : Int) : t ≤ (patchObj catch_ bo enforce calls t).fin := by
  induction calls generalizing t with
  | nil => simp [patchObj]
  | cons kc rest ih =>
    obtain ⟨k, script⟩ := kc
    have h0 := request_fin_ge bo enforce script t
    cases h : (request bo enforce script t).outcome with
    | ok =>
      rw [patchObj_cons_ok catch_ bo enforce k script rest t h]
      have := ih (request bo enforce script t).fin
      simp only
      omega
    | escalated c =>
      rw [patchObj_cons_escalated catch_ bo enforce k script rest t c h]
      exact h0

theorem patchCycleIn_dur (catch_ : PKind → ErrClass → PEnd) (bo : Backoffs) (enforce : Bool)
    (calls : List (PKind × List Att)) (t : Int) (w1 w2 : Option Nat) :
    t + ((patchCycleIn catch_ bo enforce calls t w1 w2).dur : Int) = (patchObj catch_ bo enforce calls t).fin := by
  have := patchObj_fin_ge catch_ bo enforce calls t
  simp only [patchCycleIn]
  omega

theorem processCycleP_inactive (catch_ : PKind → ErrClass → PEnd) (bo : Backoffs) (enforce : Bool)
    (cfg : Delays) (s : Throttler) (t : Int) (calls : List (PKind × List Att)) (w1 w2 : Option Nat)
    (h : s.activeUntil = none) :
    processCycleP catch_ bo enforce cfg s t calls w1 w2 =
      ⟨some (patchObj catch_ bo enforce calls t),
       cycle cfg s t (patchCycleIn catch_ bo enforce calls t w1 w2)⟩ := by
  simp [processCycleP, phase1_inactive s t w1 h, h]

/-- the first call that is not answered decides how `patch_obj` ends: through the filter, at that moment;
    the later calls are not made -/
theorem first_failure_decides (catch_ : PKind → ErrClass → PEnd) (bo : Backoffs) (enforce : Bool)
    (calls : List (PKind × List Att)) (t : Int) (k : PKind) (c : ErrClass) (f : Int)
    (h : FirstFailure bo enforce calls t k c f) :
    (patchObj catch_ bo enforce calls t).ending = catch_ k c ∧ (patchObj catch_ bo enforce calls t).fin = f := by
  induction h with
  | here k script rest t c h =>
    rw [patchObj_cons_escalated catch_ bo enforce k script rest t c h]
    exact ⟨rfl, rfl⟩
  | later k0 script rest t k c f h _ ih =>
    rw [patchObj_cons_ok catch_ bo enforce k0 script rest t h]
    exact ih

/-- with every call answered `patch_obj` ends normally -/
theorem all_answered_applied (catch_ : PKind → ErrClass → PEnd) (bo : Backoffs) (enforce : Bool)
    (calls : List (PKind × List Att)) (t : Int)
    (h : ∀ k c f, ¬ FirstFailure bo enforce calls t k c f) :
    (patchObj catch_ bo enforce calls t).ending = .applied := by
  induction calls generalizing t with
  | nil => rfl
  | cons kc rest ih =>
    obtain ⟨k, script⟩ := kc
    cases ho : (request bo enforce script t).outcome with
    | ok =>
      rw [patchObj_cons_ok catch_ bo enforce k script rest t ho]
      exact ih _ (fun k' c f hf => h k' c f (.later k script rest t k' c f ho hf))
    | escalated c => exact absurd (.here k script rest t c ho) (h k c _)

/-- the real filter lets through exactly: not a 404, and not a 422 of a JSON-patch call -/
theorem patchCatch_raised_iff (k : PKind) (c : ErrClass) :
    patchCatch k c = .raised c ↔ (c ≠ .notFound ∧ ¬ (c = .unprocessable ∧ k.isJson = true)) := by
  unfold patchCatch
  by_cases h1 : c = .notFound
  · simp [h1]
  · by_cases h2 : c = .unprocessable ∧ k.isJson = true
    · simp [h2]
    · simp [h1, h2]

theorem patchCatch_raised_only (k : PKind) (c c' : ErrClass) (h : patchCatch k c = .raised c') : c' = c := by
  unfold patchCatch at h
  split at h
  · cases h
  · split at h
    · cases h
    · injection h with h; exact h.symm

end Kopf.C12
