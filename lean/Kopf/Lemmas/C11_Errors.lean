/-
  C11 — helper lemmas about the model (`Kopf/Model/C11_Errors.lean`). Core Lean only.
-/
import Kopf.Model.C11_Errors
namespace Kopf.C11

/-! ### one execution -/

theorem post_invoked (env : Env) (l : Limits) (r : Rec) (now : Int) (x : Raised) :
    (post env l r now x).invoked = true := by
  cases x <;> simp only [post, finalWith, retryWith] <;> repeat' split
  all_goals rfl

theorem classify_of_precheck_none {env : Env} {l : Limits} {r : Rec} {now : Int} {dur : Nat} {x : Raised}
    (h : precheck l r now = none) : classify env l r now dur x = post env l r (now + dur) x := by
  simp [classify, h]

theorem classify_of_precheck_some {env : Env} {l : Limits} {r : Rec} {now : Int} {dur : Nat} {x : Raised}
    {e : Exc} (h : precheck l r now = some e) :
    classify env l r now dur x = { invoked := false, final := true, delay := none, exc := e } := by
  simp [classify, h]

theorem classify_invoked_iff (env : Env) (l : Limits) (r : Rec) (now : Int) (dur : Nat) (x : Raised) :
    (classify env l r now dur x).invoked = true ↔ precheck l r now = none := by
  cases h : precheck l r now with
  | none => simp [classify, h, post_invoked]
  | some e => simp [classify, h]

theorem precheck_none_iff (l : Limits) (r : Rec) (now : Int) :
    precheck l r now = none ↔ timedOut l (r.runtime now) = false ∧ retriesOut l r.retries = false := by
  unfold precheck
  cases timedOut l (r.runtime now) <;> cases retriesOut l r.retries <;> simp

theorem precheck_some_ne_none {l : Limits} {r : Rec} {now : Int} {e : Exc}
    (h : precheck l r now = some e) : e = .timeout ∨ e = .retries := by
  unfold precheck at h
  split at h
  · left; exact (Option.some.inj h).symm
  · split at h
    · right; exact (Option.some.inj h).symm
    · cases h

theorem lookahead_some_cases {l : Limits} {r : Rec} {now extra : Int} {e : Exc}
    (h : lookahead l r now extra = some e) :
    (e = .timeout ∧ timedOut l (r.runtime now + extra) = true) ∨
    (e = .retries ∧ retriesOut l (r.retries + 1) = true) := by
  unfold lookahead at h
  split at h
  · left; exact ⟨(Option.some.inj h).symm, by assumption⟩
  · split at h
    · right; exact ⟨(Option.some.inj h).symm, by assumption⟩
    · cases h

theorem timedOut_true_iff (l : Limits) (x : Int) :
    timedOut l x = true ↔ ∃ t, l.timeout = some t ∧ x ≥ t := by
  unfold timedOut
  cases l.timeout <;> simp

theorem retriesOut_true_iff (l : Limits) (n : Int) :
    retriesOut l n = true ↔ ∃ k, l.retries = some k ∧ n ≥ k := by
  unfold retriesOut
  cases l.retries <;> simp

theorem timedOut_false_of (l : Limits) (x t : Int) (ht : l.timeout = some t)
    (h : timedOut l x = false) : x < t := by
  simp [timedOut, ht] at h; omega

theorem retriesOut_false_of (l : Limits) (n k : Int) (hk : l.retries = some k)
    (h : retriesOut l n = false) : n < k := by
  simp [retriesOut, hk] at h; omega

/-- every outcome of one execution is either final or carries the handler's own exception -/
theorem classify_final_or_raised (env : Env) (l : Limits) (r : Rec) (now : Int) (dur : Nat) (x : Raised) :
    (classify env l r now dur x).final = true ∨
    ((classify env l r now dur x).final = false ∧ (classify env l r now dur x).exc = .raised) := by
  unfold classify
  split
  · left; rfl
  · cases x <;> simp only [post, finalWith, retryWith] <;> repeat' split
    all_goals simp

/-! ### the record -/

@[simp] theorem withOutcome_started (r : Rec) (t : Int) (o : Outcome) : (withOutcome r t o).started = r.started := rfl
@[simp] theorem withOutcome_retries (r : Rec) (t : Int) (o : Outcome) : (withOutcome r t o).retries = r.retries + 1 := rfl

theorem withOutcome_finished (r : Rec) (t : Int) (o : Outcome) : (withOutcome r t o).finished = o.final := by
  simp only [withOutcome, Rec.finished]
  cases o.final <;> cases (o.exc == Exc.none) <;> rfl

theorem withOutcome_delayed (r : Rec) (t : Int) (o : Outcome) :
    (withOutcome r t o).delayed = match o.delay with | some d => some (t + d) | none => none := rfl

theorem roundtrip (r : Rec) (now : Int) : fromStorage (toStorage r) now = r := by
  cases r; rfl

theorem endTime_ge (o : Outcome) (now : Int) (dur : Nat) : now ≤ endTime o now dur := by
  unfold endTime; split <;> omega

theorem endTime_invoked {o : Outcome} (h : o.invoked = true) (now : Int) (dur : Nat) :
    endTime o now dur = now + dur := by
  simp [endTime, h]

@[simp] theorem attemptAt_time (env : Env) (l : Limits) (now : Int) (r : Rec) (x : Raised) (dur lag : Nat) :
    (attemptAt env l now r x dur lag).time = now := rfl
@[simp] theorem attemptAt_retry (env : Env) (l : Limits) (now : Int) (r : Rec) (x : Raised) (dur lag : Nat) :
    (attemptAt env l now r x dur lag).retry = r.retries := rfl
@[simp] theorem attemptAt_out (env : Env) (l : Limits) (now : Int) (r : Rec) (x : Raised) (dur lag : Nat) :
    (attemptAt env l now r x dur lag).out = classify env l r now dur x := rfl
@[simp] theorem attemptAt_started (env : Env) (l : Limits) (now : Int) (r : Rec) (x : Raised) (dur lag : Nat) :
    (attemptAt env l now r x dur lag).recAfter.started = r.started := rfl
@[simp] theorem attemptAt_rec_retries (env : Env) (l : Limits) (now : Int) (r : Rec) (x : Raised) (dur lag : Nat) :
    (attemptAt env l now r x dur lag).recAfter.retries = r.retries + 1 := rfl

theorem attemptAt_merged_ge (env : Env) (l : Limits) (now : Int) (r : Rec) (x : Raised) (dur lag : Nat) :
    now ≤ (attemptAt env l now r x dur lag).merged := by
  have := endTime_ge (classify env l r now dur x) now dur
  simp only [attemptAt]; omega

theorem attemptAt_end_le_merged (env : Env) (l : Limits) (now : Int) (r : Rec) (x : Raised) (dur lag : Nat) :
    (attemptAt env l now r x dur lag).endTime ≤ (attemptAt env l now r x dur lag).merged := by
  simp only [attemptAt]; omega

theorem attemptAt_time_le_end (env : Env) (l : Limits) (now : Int) (r : Rec) (x : Raised) (dur lag : Nat) :
    (attemptAt env l now r x dur lag).time ≤ (attemptAt env l now r x dur lag).endTime := by
  simp only [attemptAt]; exact endTime_ge _ _ _

theorem attemptAt_finished (env : Env) (l : Limits) (now : Int) (r : Rec) (x : Raised) (dur lag : Nat) :
    (attemptAt env l now r x dur lag).recAfter.finished = (attemptAt env l now r x dur lag).out.final := by
  simp only [attemptAt]; exact withOutcome_finished _ _ _

theorem attemptAt_delayed (env : Env) (l : Limits) (now : Int) (r : Rec) (x : Raised) (dur lag : Nat) (d : Int)
    (h : (attemptAt env l now r x dur lag).out.delay = some d) :
    (attemptAt env l now r x dur lag).recAfter.delayed = some ((attemptAt env l now r x dur lag).merged + d) := by
  simp only [attemptAt] at h ⊢
  rw [withOutcome_delayed, h]

/-! ### the gate -/

theorem awakened_not_finished {r : Rec} {t : Int} (h : r.awakened t = true) : r.finished = false := by
  simp only [Rec.awakened, Bool.and_eq_true, Bool.not_eq_true'] at h; exact h.1

theorem awakened_delayed_le {r : Rec} {t D : Int} (h : r.awakened t = true) (hD : r.delayed = some D) : D ≤ t := by
  simp only [Rec.awakened, Rec.sleeping, hD, Bool.and_eq_true, Bool.not_eq_true', Bool.and_eq_false_iff,
    decide_eq_false_iff_not] at h
  rcases h with ⟨h1, h2 | h2⟩
  · simp [h1] at h2
  · omega

theorem not_awakened_of_finished {r : Rec} (h : r.finished = true) (t : Int) : r.awakened t = false := by
  simp [Rec.awakened, h]

theorem awakened_of {r : Rec} {t : Int} (hf : r.finished = false) (hd : ∀ D, r.delayed = some D → D ≤ t) :
    r.awakened t = true := by
  simp only [Rec.awakened, Rec.sleeping, hf, Bool.not_false, Bool.true_and, Bool.not_eq_true']
  cases hD : r.delayed with
  | none => rfl
  | some D => have := hd D hD; simp; omega

theorem wakeTime_ge (r : Rec) (now : Int) : now ≤ wakeTime r now := by
  unfold wakeTime; split
  · split <;> omega
  · omega

theorem awakened_wakeTime {r : Rec} (hf : r.finished = false) (now : Int) : r.awakened (wakeTime r now) = true := by
  apply awakened_of hf
  intro D hD
  simp only [wakeTime, hD]
  split <;> omega

/-! ### the fold -/

theorem attempts_cons_att (a : Attempt) (rest : List Ev) : attempts (.att a :: rest) = a :: attempts rest := rfl
theorem attempts_cons_idle (t : Int) (d : Bool) (rest : List Ev) : attempts (.idle t d :: rest) = attempts rest := rfl
theorem attempts_cons_restarted (t : Int) (rest : List Ev) : attempts (.restarted t :: rest) = attempts rest := rfl

theorem run_restart (env : Env) (l : Limits) (now : Int) (r : Rec) (dn : Nat) (rest : List Step) :
    run env l now r (.restart dn :: rest) = .restarted (now + dn) :: run env l (now + dn) r rest := by
  simp [run, roundtrip]

theorem run_cycle_awake (env : Env) (l : Limits) (now : Int) (r : Rec) (dt wait : Nat) (x : Raised) (dur lag : Nat)
    (rest : List Step) (h : r.awakened (now + dt) = true) :
    run env l now r (.cycle dt wait x dur lag :: rest) =
      .att (attemptAt env l (now + dt + wait) r x dur lag) ::
        run env l (attemptAt env l (now + dt + wait) r x dur lag).merged
          (attemptAt env l (now + dt + wait) r x dur lag).recAfter rest := by
  simp [run, h]

theorem run_cycle_idle (env : Env) (l : Limits) (now : Int) (r : Rec) (dt wait : Nat) (x : Raised) (dur lag : Nat)
    (rest : List Step) (h : r.awakened (now + dt) = false) :
    run env l now r (.cycle dt wait x dur lag :: rest) = .idle (now + dt) r.finished :: run env l (now + dt) r rest := by
  simp [run, h]

theorem invocations_cons_att (a : Attempt) (rest : List Ev) :
    (invocations (.att a :: rest)).length = (if a.out.invoked = true then 1 else 0) + (invocations rest).length := by
  simp only [invocations, attempts_cons_att, List.filter_cons]
  by_cases h : a.out.invoked = true
  · rw [if_pos h, if_pos h, List.length_cons]; omega
  · rw [if_neg h, if_neg h]; omega

theorem invocations_cons_idle (t : Int) (d : Bool) (rest : List Ev) :
    invocations (.idle t d :: rest) = invocations rest := rfl
theorem invocations_cons_restarted (t : Int) (rest : List Ev) :
    invocations (.restarted t :: rest) = invocations rest := rfl

/-- A finished handler is never executed again, whatever happens. -/
theorem attempts_run_finished (env : Env) (l : Limits) (steps : List Step) :
    ∀ (now : Int) (r : Rec), r.finished = true → attempts (run env l now r steps) = [] := by
  induction steps with
  | nil => intro now r _; rfl
  | cons s rest ih =>
    intro now r hf
    cases s with
    | restart dn => rw [run_restart, attempts_cons_restarted]; exact ih _ _ hf
    | cycle dt wait x dur lag =>
      rw [run_cycle_idle _ _ _ _ _ _ _ _ _ _ (not_awakened_of_finished hf _), attempts_cons_idle]
      exact ih _ _ hf

/-- Every attempt of a run happens after the run's start, on an unfinished record, and not before
    the record's `delayed` moment. -/
theorem run_lower (env : Env) (l : Limits) (steps : List Step) :
    ∀ (now : Int) (r : Rec) (b : Attempt), b ∈ attempts (run env l now r steps) →
      now ≤ b.time ∧ r.finished = false ∧ ∀ D, r.delayed = some D → D ≤ b.time := by
  induction steps with
  | nil => intro now r b hb; cases hb
  | cons s rest ih =>
    intro now r b hb
    cases s with
    | restart dn =>
      rw [run_restart, attempts_cons_restarted] at hb
      obtain ⟨h1, h2, h3⟩ := ih _ _ b hb
      exact ⟨by omega, h2, h3⟩
    | cycle dt wait x dur lag =>
      cases hg : r.awakened (now + dt) with
      | true =>
        rw [run_cycle_awake _ _ _ _ _ _ _ _ _ _ hg, attempts_cons_att] at hb
        have hnf := awakened_not_finished hg
        rcases List.mem_cons.1 hb with rfl | hb'
        · refine ⟨by simp only [attemptAt_time]; omega, hnf, ?_⟩
          intro D hD
          have := awakened_delayed_le hg hD
          simp only [attemptAt_time]; omega
        · obtain ⟨h1, _, _⟩ := ih _ _ b hb'
          have hm := attemptAt_merged_ge env l (now + dt + wait) r x dur lag
          refine ⟨by omega, hnf, ?_⟩
          intro D hD
          have := awakened_delayed_le hg hD
          omega
      | false =>
        rw [run_cycle_idle _ _ _ _ _ _ _ _ _ _ hg, attempts_cons_idle] at hb
        obtain ⟨h1, h2, h3⟩ := ih _ _ b hb
        exact ⟨by omega, h2, h3⟩

/-! ### definitional facts (kept here: they are unfoldings, not property theorems) -/

/-- the `HandlerChildrenRetry` clause of `post`, read back -/
theorem children_retry (env : Env) (l : Limits) (r : Rec) (now : Int) (dur : Nat) (d : Option Int)
    (h : precheck l r now = none) :
    classify env l r now dur (.childrenRetry d) = retryWith d := by
  rw [classify_of_precheck_none h]; rfl

/-- `with_outcome`'s flags, read back -/
theorem final_finished (r : Rec) (t : Int) (o : Outcome) :
    (withOutcome r t o).finished = o.final ∧
    ((withOutcome r t o).success = true ↔ (o.final = true ∧ o.exc = .none)) ∧
    ((withOutcome r t o).failure = true ↔ (o.final = true ∧ o.exc ≠ .none)) := by
  refine ⟨withOutcome_finished r t o, ?_, ?_⟩ <;> simp [withOutcome]

/-- a retry outcome (one with a delay) is never final -/
theorem classify_delay_not_final (env : Env) (l : Limits) (r : Rec) (now : Int) (dur : Nat) (x : Raised) (d : Int)
    (h : (classify env l r now dur x).delay = some d) : (classify env l r now dur x).final = false := by
  cases hp : precheck l r now with
  | some e => rw [classify_of_precheck_some hp] at h; cases h
  | none =>
    rw [classify_of_precheck_none hp] at h ⊢
    cases x with
    | ok => simp [post, finalWith] at h
    | permanent => simp [post, finalWith] at h
    | childrenRetry d' => rfl
    | temporary d' =>
      simp only [post] at h ⊢
      cases hl : lookahead l r (now + dur) (orZero d') with
      | some e => simp [hl, finalWith] at h
      | none => simp [retryWith]
    | arbitrary =>
      simp only [post] at h ⊢
      cases hm : l.mode env with
      | ignored => simp [hm, finalWith] at h
      | permanent => simp [hm, finalWith] at h
      | temporary =>
        simp only [hm] at h ⊢
        cases hl : lookahead l r (now + dur) (l.backoffOr env) with
        | some e => simp [hl, finalWith] at h
        | none => simp [retryWith]

/-! ### the environment fold -/

theorem runEnv_restart (env : Env) (l : Limits) (now : Int) (hist : List Rec) (dn : Nat) (rest : List EStep) :
    runEnv env l now hist (.restart dn :: rest) = .restarted (now + dn) :: runEnv env l (now + dn) hist rest := rfl

theorem runEnv_cycle_awake (env : Env) (l : Limits) (now : Int) (hist : List Rec) (view : Nat) (stored : Bool)
    (dt wait : Nat) (x : Raised) (dur lag : Nat) (rest : List EStep)
    (h : (viewOf hist view (now + dt)).awakened (now + dt) = true) :
    runEnv env l now hist (.cycle view stored dt wait x dur lag :: rest) =
      .att (attemptAt env l (now + dt + wait) (viewOf hist view (now + dt)) x dur lag) ::
        runEnv env l (attemptAt env l (now + dt + wait) (viewOf hist view (now + dt)) x dur lag).merged
          (if stored then (attemptAt env l (now + dt + wait) (viewOf hist view (now + dt)) x dur lag).recAfter :: hist
           else hist) rest := by
  simp [runEnv, h]

theorem runEnv_cycle_idle (env : Env) (l : Limits) (now : Int) (hist : List Rec) (view : Nat) (stored : Bool)
    (dt wait : Nat) (x : Raised) (dur lag : Nat) (rest : List EStep)
    (h : (viewOf hist view (now + dt)).awakened (now + dt) = false) :
    runEnv env l now hist (.cycle view stored dt wait x dur lag :: rest) =
      .idle (now + dt) (viewOf hist view (now + dt)).finished :: runEnv env l (now + dt) hist rest := by
  simp [runEnv, h]

theorem viewOf_zero (r : Rec) (h : List Rec) (t : Int) : viewOf (r :: h) 0 t = r := rfl

theorem runEnv_skipped (env : Env) (l : Limits) (now : Int) (hist : List Rec) (view : Nat) (stored : Bool) (dt : Nat)
    (rest : List EStep) :
    runEnv env l now hist (.skipped view stored dt :: rest) =
      .skipped (now + dt) :: runEnv env l (now + dt)
        (if stored && (hist[view]?).isNone then fromScratch (now + dt) :: hist else hist) rest := rfl

theorem attempts_cons_skipped (t : Int) (rest : List Ev) : attempts (.skipped t :: rest) = attempts rest := rfl

/-! ### the timer -/

theorem timerReset_unfinished {r : Rec} (h : r.finished = false) (now : Int) : timerReset r now = r := by
  simp [timerReset, h]

theorem timerReset_failure {r : Rec} (h : r.failure = true) (now : Int) : timerReset r now = r := by
  simp [timerReset, h]

theorem timerReset_success {r : Rec} (hf : r.finished = true) (hn : r.failure = false) (now : Int) :
    timerReset r now = fromScratch now := by
  simp [timerReset, hf, hn]

theorem fromScratch_awakened (now t : Int) : (fromScratch now).awakened t = true := by
  simp [fromScratch, Rec.awakened, Rec.sleeping, Rec.finished]

theorem timerAt_ge (now iu : Int) : now ≤ timerAt now iu := by
  unfold timerAt; split <;> omega

theorem timerAt_of_le {now iu : Int} (h : iu ≤ now) : timerAt now iu = now := by
  unfold timerAt; split <;> omega

theorem finished_of_failure {r : Rec} (h : r.failure = true) : r.finished = true := by
  simp [Rec.finished, h]

theorem failure_false_of_unfinished {r : Rec} (h : r.finished = false) : r.failure = false := by
  simp only [Rec.finished, Bool.or_eq_false_iff] at h; exact h.2

theorem success_false_of_unfinished {r : Rec} (h : r.finished = false) : r.success = false := by
  simp only [Rec.finished, Bool.or_eq_false_iff] at h; exact h.1

theorem timerState_retries (r : Rec) (now t : Int) : (timerState r now t).retries = (timerReset r now).retries := by
  unfold timerState; split
  · rename_i h; simp [fromScratch, h]
  · rfl

theorem timerState_keep {r : Rec} (hf : r.finished = false) (hr : r.retries ≠ 0) (now t : Int) :
    timerState r now t = r := by
  simp [timerState, timerReset_unfinished hf, hr]

theorem timerState_fresh0 {r : Rec} (hf : r.finished = false) (hr : r.retries = 0) (now t : Int) :
    timerState r now t = fromScratch t := by
  simp [timerState, timerReset_unfinished hf, hr]

theorem timerState_failure {r : Rec} (h : r.failure = true) (hr : r.retries ≠ 0) (now t : Int) :
    timerState r now t = r := by
  simp [timerState, timerReset_failure h, hr]

theorem timerState_success {r : Rec} (hf : r.finished = true) (hn : r.failure = false) (now t : Int) :
    timerState r now t = fromScratch t := by
  simp [timerState, timerReset_success hf hn, fromScratch]

/-- One iteration of the timer's loop: either the record of the series (reset after a success,
    re-created after the idle wait while it has made no attempt) is awake and executed, or nothing
    is awakened and the record is kept. -/
theorem timerRun_step (env : Env) (l : Limits) (iv : Nat) (sh : Bool) (iu now : Int) (r : Rec) (x : Raised) (dur : Nat)
    (rest : List (Raised × Nat × Int)) :
    ((timerState r now (timerAt now iu)).awakened (timerAt now iu) = true ∧
      timerRun env l iv sh now r ((x, dur, iu) :: rest) =
        .att (attemptAt env l (timerAt now iu) (timerState r now (timerAt now iu)) x dur 0) ::
          timerRun env l iv sh (timerNext iv sh (attemptAt env l (timerAt now iu) (timerState r now (timerAt now iu)) x dur 0))
            (attemptAt env l (timerAt now iu) (timerState r now (timerAt now iu)) x dur 0).recAfter rest) ∨
    ((timerState r now (timerAt now iu)).awakened (timerAt now iu) = false ∧
      timerRun env l iv sh now r ((x, dur, iu) :: rest) =
        .idle (timerAt now iu) (timerState r now (timerAt now iu)).finished ::
          timerRun env l iv sh (timerIdleNext iv sh (timerState r now (timerAt now iu)) (timerAt now iu))
            (timerState r now (timerAt now iu)) rest) := by
  cases h : (timerState r now (timerAt now iu)).awakened (timerAt now iu)
  · right; exact ⟨rfl, by simp [timerRun, h]⟩
  · left; exact ⟨rfl, by simp [timerRun, h]⟩

/-- What is left of a record when the iteration is idle: the record itself, and it has made attempts. -/
theorem timerState_idle {r : Rec} {now t : Int} (h : (timerState r now t).awakened t = false) :
    timerState r now t = r ∧ r.retries ≠ 0 := by
  unfold timerState at h ⊢
  split at h
  · rw [fromScratch_awakened] at h; cases h
  · rename_i hr
    rw [if_neg hr]
    cases hf : r.finished with
    | false => rw [timerReset_unfinished hf] at hr ⊢; exact ⟨rfl, hr⟩
    | true =>
      cases hn : r.failure with
      | true => rw [timerReset_failure hn] at hr ⊢; exact ⟨rfl, hr⟩
      | false => rw [timerReset_success hf hn] at hr; simp [fromScratch] at hr

theorem attempts_append (xs ys : List Ev) : attempts (xs ++ ys) = attempts xs ++ attempts ys := by
  induction xs with
  | nil => rfl
  | cons e rest ih => cases e <;> simp [attempts, ih]

theorem timerPause_nonneg (iv : Nat) (sh : Bool) (passed : Int) : 0 ≤ timerPause iv sh passed := by
  unfold timerPause
  split
  · split
    · omega
    · rename_i h
      have hpos : (0 : Int) < iv := by omega
      have := Int.emod_lt_of_pos passed hpos
      omega
  · omega

theorem timerNext_ge (iv : Nat) (sh : Bool) (a : Attempt) : a.merged ≤ timerNext iv sh a := by
  unfold timerNext
  split
  · have := timerPause_nonneg iv sh (a.merged - a.time); omega
  · exact wakeTime_ge _ _

theorem timerIdleNext_ge (iv : Nat) (sh : Bool) (r : Rec) (now : Int) : now ≤ timerIdleNext iv sh r now := by
  unfold timerIdleNext
  split
  · have := timerPause_nonneg iv sh 0; omega
  · exact wakeTime_ge _ _

theorem loopRun_finished (env : Env) (l : Limits) (now : Int) (r : Rec) (script : List (Raised × Nat))
    (h : r.finished = true) : loopRun env l now r script = [] := by
  cases script with
  | nil => rfl
  | cons s rest => obtain ⟨x, dur⟩ := s; simp [loopRun, h]

/-! ### minimum of a list -/

theorem minList_none_iff (xs : List Int) : minList xs = none ↔ xs = [] := by
  cases xs with
  | nil => simp [minList]
  | cons x rest => simp only [minList]; split <;> simp

theorem minList_spec (xs : List Int) (m : Int) (h : minList xs = some m) : m ∈ xs ∧ ∀ x ∈ xs, m ≤ x := by
  induction xs generalizing m with
  | nil => simp [minList] at h
  | cons x rest ih =>
    simp only [minList] at h
    split at h
    · rename_i m' hm'
      obtain ⟨h1, h2⟩ := ih m' hm'
      cases h
      by_cases hx : x ≤ m'
      · rw [if_pos hx]
        refine ⟨List.mem_cons_self, ?_⟩
        intro y hy
        rcases List.mem_cons.1 hy with rfl | hy'
        · omega
        · have := h2 y hy'; omega
      · rw [if_neg hx]
        refine ⟨List.mem_cons_of_mem _ h1, ?_⟩
        intro y hy
        rcases List.mem_cons.1 hy with rfl | hy'
        · omega
        · exact h2 y hy'
    · rename_i hnone
      cases h
      have := (minList_none_iff rest).1 hnone
      subst this
      exact ⟨List.mem_cons_self, by intro y hy; simp at hy; omega⟩

/-! ### one-step read-backs and glue (demoted from the property theorems) -/

/-- Without limits a temporary error is always retried, with exactly the requested delay. -/
theorem temp_retried_unlimited (env : Env) (l : Limits) (r : Rec) (now : Int) (dur : Nat) (d : Option Int)
    (ht : l.timeout = none) (hr : l.retries = none) :
    classify env l r now dur (.temporary d) = retryWith d := by
  simp [classify, precheck, timedOut, retriesOut, ht, hr, post, lookahead]


/-! ### restarts between cycles are time passing (glue) -/

theorem squashFrom_spec (env : Env) (l : Limits) (steps : List Step) :
    ∀ (now : Int) (acc : Nat) (r : Rec),
      attempts (run env l (now + acc) r steps) = attempts (run env l now r (squashFrom acc steps)) := by
  induction steps with
  | nil => intro now acc r; rfl
  | cons s rest ih =>
    intro now acc r
    cases s with
    | restart dn =>
      rw [run_restart, attempts_cons_restarted]
      simp only [squashFrom]
      rw [← ih now (acc + dn) r]
      congr 2
      omega
    | cycle dt wait x dur lag =>
      simp only [squashFrom]
      have e : now + ↑acc + ↑dt = now + ↑(acc + dt) := by omega
      cases hg : r.awakened (now + ↑acc + ↑dt) with
      | true =>
        rw [run_cycle_awake _ _ _ _ _ _ _ _ _ _ hg, run_cycle_awake _ _ _ _ _ _ _ _ _ _ (by rw [← e]; exact hg)]
        rw [attempts_cons_att, attempts_cons_att, ← e]
        congr 1
        have := ih (attemptAt env l (now + ↑acc + ↑dt + ↑wait) r x dur lag).merged 0
          (attemptAt env l (now + ↑acc + ↑dt + ↑wait) r x dur lag).recAfter
        simpa using this
      | false =>
        rw [run_cycle_idle _ _ _ _ _ _ _ _ _ _ hg, run_cycle_idle _ _ _ _ _ _ _ _ _ _ (by rw [← e]; exact hg)]
        rw [attempts_cons_idle, attempts_cons_idle, ← e]
        have := ih (now + ↑acc + ↑dt) 0 r
        simpa using this

/-- Restarts anywhere in a history change nothing but the clock: the attempts (times, retry
    numbers, outcomes, records) are those of the restart-free history in which every downtime is
    added to the wait before the next cycle. -/
theorem restart_invariant (env : Env) (l : Limits) (now : Int) (r : Rec) (steps : List Step) :
    attempts (run env l now r steps) = attempts (run env l now r (squash steps)) ∧
    ∀ s ∈ squash steps, ∀ dn, s ≠ .restart dn := by
  constructor
  · have := squashFrom_spec env l steps now 0 r
    simpa [squash] using this
  · have H : ∀ (steps : List Step) (acc : Nat), ∀ s ∈ squashFrom acc steps, ∀ dn, s ≠ .restart dn := by
      intro steps
      induction steps with
      | nil => intro acc s hs; cases hs
      | cons s' rest ih =>
        intro acc s hs dn
        cases s' with
        | restart d => exact ih _ s hs dn
        | cycle dt wait x dur lag =>
          simp only [squashFrom] at hs
          rcases List.mem_cons.1 hs with rfl | hs'
          · intro h; cases h
          · exact ih _ s hs' dn
    exact H steps 0


/-- An idle cycle changes nothing: the rest of the history is the history of the SAME record. -/
theorem uninvoked_state_unchanged (env : Env) (l : Limits) (now : Int) (r : Rec) (dt wait : Nat) (x : Raised)
    (dur lag : Nat) (rest : List Step) (h : r.awakened (now + dt) = false) :
    attempts (run env l now r (.cycle dt wait x dur lag :: rest)) = attempts (run env l (now + dt) r rest) := by
  rw [run_cycle_idle _ _ _ _ _ _ _ _ _ _ h, attempts_cons_idle]


/-- A due, unfinished handler within its limits IS invoked in the cycle: the head event of the run is
    an invocation at its turn, with the stored count as retry number. -/
theorem due_is_invoked (env : Env) (l : Limits) (now : Int) (r : Rec) (dt wait : Nat) (x : Raised) (dur lag : Nat)
    (rest : List Step) (hf : r.finished = false) (hd : ∀ D, r.delayed = some D → D ≤ now + dt)
    (hp : precheck l r (now + dt + wait) = none) :
    ∃ a, (run env l now r (.cycle dt wait x dur lag :: rest)).head? = some (.att a) ∧
      a.out.invoked = true ∧ a.time = now + dt + wait ∧ a.retry = r.retries := by
  rw [run_cycle_awake _ _ _ _ _ _ _ _ _ _ (awakened_of hf hd)]
  exact ⟨_, rfl, (classify_invoked_iff ..).2 hp, rfl, rfl⟩

/-- "is retried": after an attempt whose outcome was not final, a cycle at or after the requested
    delay, still within the limits, invokes the handler again, with the next retry number. -/
theorem retried_as_event (env : Env) (l : Limits) (now : Int) (r : Rec) (x : Raised) (dur lag : Nat)
    (dt' wait' : Nat) (x' : Raised) (dur' lag' : Nat) (rest : List Step)
    (hnf : (attemptAt env l now r x dur lag).out.final = false)
    (hd : ∀ d, (attemptAt env l now r x dur lag).out.delay = some d → d ≤ dt')
    (hp : precheck l (attemptAt env l now r x dur lag).recAfter
            ((attemptAt env l now r x dur lag).merged + dt' + wait') = none) :
    ∃ b, (run env l (attemptAt env l now r x dur lag).merged (attemptAt env l now r x dur lag).recAfter
            (.cycle dt' wait' x' dur' lag' :: rest)).head? = some (.att b) ∧
      b.out.invoked = true ∧ b.retry = r.retries + 1 := by
  have hfin : (attemptAt env l now r x dur lag).recAfter.finished = false := by
    rw [attemptAt_finished]; exact hnf
  obtain ⟨b, h1, h2, _, h4⟩ := due_is_invoked env l _ _ dt' wait' x' dur' lag' rest hfin
    (by
      intro D hD
      cases hdl : (attemptAt env l now r x dur lag).out.delay with
      | none =>
        simp only [attemptAt, withOutcome_delayed] at hD hdl
        rw [hdl] at hD; cases hD
      | some d =>
        rw [attemptAt_delayed env l now r x dur lag d hdl] at hD
        cases hD
        have := hd d hdl
        omega) hp
  exact ⟨b, h1, h2, by rw [h4]; rfl⟩


end Kopf.C11
