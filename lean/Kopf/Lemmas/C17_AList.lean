/-
  C17 helper lemmas, part 1: Python-dict association lists and list-sets.
-/
import Kopf.Model.C17_Index
namespace Kopf.C17

section AList
variable {α β : Type} [DecidableEq α]

@[simp] theorem aget_nil (k : α) : aget k ([] : List (α × β)) = none := rfl

theorem aget_aset_same (k : α) (v : β) (l : List (α × β)) : aget k (aset k v l) = some v := by
  induction l with
  | nil => simp [aset, aget]
  | cons p r ih =>
    obtain ⟨k', v'⟩ := p
    by_cases h : k' = k <;> simp [aset, aget, h, ih]

theorem aget_aset_other {k k' : α} (v : β) (l : List (α × β)) (h : k' ≠ k) :
    aget k' (aset k v l) = aget k' l := by
  induction l with
  | nil => simp [aset, aget, Ne.symm h]
  | cons p r ih =>
    obtain ⟨k'', v''⟩ := p
    by_cases h1 : k'' = k
    · subst h1
      simp [aset, aget, Ne.symm h]
    · by_cases h2 : k'' = k'
      · subst h2; simp [aset, aget, h1]
      · simp [aset, aget, h1, h2, ih]

theorem aget_aset (k k' : α) (v : β) (l : List (α × β)) :
    aget k' (aset k v l) = if k' = k then some v else aget k' l := by
  by_cases h : k' = k
  · subst h; simp [aget_aset_same]
  · simp [h, aget_aset_other v l h]

theorem aget_adel_same (k : α) (l : List (α × β)) : aget k (adel k l) = none := by
  induction l with
  | nil => rfl
  | cons p r ih =>
    obtain ⟨k', v'⟩ := p
    by_cases h : k' = k <;> simp [adel, aget, h, ih]

theorem aget_adel_other {k k' : α} (l : List (α × β)) (h : k' ≠ k) :
    aget k' (adel k l) = aget k' l := by
  induction l with
  | nil => rfl
  | cons p r ih =>
    obtain ⟨k'', v''⟩ := p
    by_cases h1 : k'' = k
    · subst h1
      simp [adel, aget, Ne.symm h, ih]
    · by_cases h2 : k'' = k'
      · subst h2; simp [adel, aget, h1]
      · simp [adel, aget, h1, h2, ih]

theorem aget_adel (k k' : α) (l : List (α × β)) :
    aget k' (adel k l) = if k' = k then none else aget k' l := by
  by_cases h : k' = k
  · subst h; simp [aget_adel_same]
  · simp [h, aget_adel_other l h]

theorem aset_ne_nil (k : α) (v : β) (l : List (α × β)) : aset k v l ≠ [] := by
  cases l with
  | nil => simp [aset]
  | cons p r =>
    obtain ⟨k', v'⟩ := p
    by_cases h : k' = k <;> simp [aset, h]

/-- a non-empty dict has a key -/
theorem exists_aget_of_ne_nil {l : List (α × β)} (h : l ≠ []) : ∃ k v, aget k l = some v := by
  cases l with
  | nil => exact absurd rfl h
  | cons p r => exact ⟨p.1, p.2, by simp [aget]⟩

theorem aget_none_of_nil_adel {k : α} {l : List (α × β)} (h : adel k l = []) (k' : α) (hk : k' ≠ k) :
    aget k' l = none := by
  have := aget_adel_other (β := β) l hk
  rw [h] at this
  simpa using this.symm

theorem mem_sadd (k x : α) (s : List α) : x ∈ sadd k s ↔ x = k ∨ x ∈ s := by
  unfold sadd
  by_cases h : k ∈ s
  · simp [h]
    intro hx; subst hx; exact h
  · simp [h, or_comm]

theorem nodup_sadd (k : α) (s : List α) (h : s.Nodup) : (sadd k s).Nodup := by
  unfold sadd
  by_cases hk : k ∈ s
  · simp [hk, h]
  · simp only [hk, if_false]
    rw [List.nodup_append]
    refine ⟨h, by simp, ?_⟩
    intro a ha b hb
    simp at hb
    subst hb
    intro hab
    subst hab
    exact hk ha

theorem mem_sdel (k x : α) (s : List α) : x ∈ sdel k s ↔ x ∈ s ∧ x ≠ k := by
  simp [sdel]

theorem nodup_sdel (k : α) (s : List α) (h : s.Nodup) : (sdel k s).Nodup :=
  List.Nodup.sublist List.filter_sublist h

end AList

section Lastval
variable {κ ν : Type} [DecidableEq κ]

theorem lastval_isSome (k : κ) (m : List (κ × ν)) : (lastval k m).isSome ↔ k ∈ m.map Prod.fst := by
  induction m with
  | nil => simp [lastval]
  | cons p r ih =>
    obtain ⟨k', v⟩ := p
    simp only [lastval, List.map_cons, List.mem_cons]
    cases h : lastval k r with
    | some x =>
      have : k ∈ r.map Prod.fst := ih.1 (by simp [h])
      simp [this]
    | none =>
      have hn : ¬ k ∈ r.map Prod.fst := fun hm => by
        have := ih.2 hm
        simp [h] at this
      by_cases hk : k' = k
      · simp [hk]
      · simp [hk, hn, Ne.symm hk]

theorem lastval_none_of_not_mem (k : κ) (m : List (κ × ν)) (h : k ∉ m.map Prod.fst) :
    lastval k m = none := by
  cases hl : lastval k m with
  | none => rfl
  | some v =>
    have := (lastval_isSome k m).1 (by simp [hl])
    exact absurd this h

theorem lastval_nil (k : κ) : lastval k ([] : List (κ × ν)) = none := rfl

end Lastval

end Kopf.C17
