/-
  C20 helper lemmas: `InvD` is preserved by the labels of group 10 (see `Label.grpD`).
-/
import Kopf.Lemmas.C20_Defs
set_option linter.unusedSimpArgs false
set_option linter.unusedVariables false
namespace Kopf.C20

set_option maxHeartbeats 8000000 in
theorem InvD.pres_d10 {cfg : Cfg} {s s' : State} {l : Label} (hB : InvB s) (hC : InvC s)
    (hI : InvD cfg s) (hl : ∀ n, l ≠ .delay n) (hg : l.grpD = 10) (h : step cfg s l = some s') : InvD cfg s' := by
  have hc12 := hC.scLive
  have hlc : ∀ t : TS, t.live = true → t = .running ∨ t = .waitingFlag ∨ t.isStopping = true := by
    intro t; cases t <;> simp [TS.live, TS.isStopping]
  have hb2 := hB.subOrch
  have hb3 := hB.wkRoot
  have hb4 := hB.wkSub
  have hb8 := hB.stoppingNone
  have hb9 := hB.subSome
  have hb10 := hB.orchStopSubs
  have hc9 := hC.waitingEarly
  have hc10 := hC.t0Some
  have hgr := grace_le_G cfg s
  have hL1 : ∀ t r, s.t0 = some t → stoppingPhase s → r ≠ .startupCleanup → s.st (.root r) = .running → s.now = t :=
    fun t r ht hp hr hst => hI.now_eq_root ht hp hr hst
  have hL2 : ∀ t i, s.t0 = some t → stoppingPhase s → i < s.nSubs → s.st (.sub i) = .running →
      s.now = t ∨ (s.kind i = .pinger ∧ s.now ≤ t + cfg.E) :=
    fun t i ht hp hi hst => hI.now_eq_sub hB ht hp hi hst
  have hL3 : s.rt ≠ .waiting → (s.st (.root .startupCleanup)).ended = false → stoppingPhase s :=
    fun hn hl => stoppingPhase_of_live hC hn hl
  have hc11 := hC.scOver
  have hkO : ∀ r : Root, r.kind = .observer → r ≠ .startupCleanup := by intro r; cases r <;> simp [Root.kind]
  have hkS : ∀ r : Root, r.kind = .simple → r ≠ .startupCleanup := by intro r; cases r <;> simp [Root.kind]
  obtain ⟨h0, h1, h2, h3, h4, h5, h6, h7, h8, h9, h10, h11, h12, h13, h14, h15, h16, h17⟩ := hI
  cases l <;> simp only [step] at h
  case delay n => exact absurd rfl (hl n)
  all_goals (first | (exfalso; simp [Label.grpD, Label.grp] at hg; done) | skip)
  all_goals (repeat' (split at h))
  all_goals (first | (cases h; done) | skip)
  all_goals (cases h)
  all_goals (first | (exfalso; simp only [Label.grpD, *] at hg; done) | (exfalso; simp only [Label.grpD, *] at hg; omega) | skip)
  all_goals (try simp only [allRootsEnded_iff, anyRootEnded_iff, othersEnded_iff, hungLive_false_iff,
    noLiveWorkerOf_iff, noLiveSub_iff, noLiveStream_iff] at *)
  all_goals constructor
  all_goals (first | exact h0 | exact h1 | exact h2 | exact h3 | exact h4 | exact h5 | exact h6 | exact h7 | exact h8
                   | exact h9 | exact h10 | exact h11 | exact h12 | exact h13 | exact h14 | exact h15 | exact h16 | exact h17 | skip)
  all_goals (try simp only [kind_orchestrator_iff, kind_killer_iff, kind_flagChecker_iff, kind_ultimate_iff,
    kind_startupCleanup_iff, kind_coreWatch_iff] at *)
  all_goals (try subst_vars)
  all_goals (try dsimp only)
  -- focused attempts, field by field, with a pruned context (the general `grind` below is the fallback)
  all_goals (try (case a =>
    (try clear h0); (try clear h1); (try clear h2); (try clear h3); (try clear h4); (try clear h6); (try clear h7); (try clear h8); (try clear h9); (try clear h10); (try clear h11); (try clear h12); (try clear h13); (try clear h14); (try clear h15); (try clear h16); (try clear h17); (try clear hb2); (try clear hb3); (try clear hb4); (try clear hb9); (try clear hb10); (try clear hb12); (try clear hc11); (try clear hgr); (try clear hL2); (try clear hg); (try clear hl)
    grind [upd, Root.kind, TS.active, TS.live, TS.ended, TS.isStopping, failTS, cancelSubs, cancelPingers,
    cancelRoots, cancelRootsV, Pend.ts, scBeforeCleanup, scLate, scEarly, stoppingPhase, G, grace]))
  all_goals (try (case b =>
    (try clear h0); (try clear h2); (try clear h3); (try clear h4); (try clear h7); (try clear h8); (try clear h9); (try clear h10); (try clear h11); (try clear h12); (try clear h13); (try clear h14); (try clear h15); (try clear h16); (try clear h17); (try clear hb2); (try clear hb3); (try clear hb4); (try clear hb9); (try clear hb10); (try clear hb12); (try clear hc11); (try clear hL2); (try clear hL3); (try clear hlc); (try clear hg); (try clear hl)
    grind [upd, Root.kind, TS.active, TS.live, TS.ended, TS.isStopping, failTS, cancelSubs, cancelPingers,
    cancelRoots, cancelRootsV, Pend.ts, scBeforeCleanup, scLate, scEarly, stoppingPhase, G, grace]))
  all_goals (try (case c =>
    (try clear h0); (try clear h1); (try clear h2); (try clear h3); (try clear h4); (try clear h6); (try clear h8); (try clear h9); (try clear h10); (try clear h11); (try clear h12); (try clear h13); (try clear h14); (try clear h15); (try clear h16); (try clear hb3); (try clear hb4); (try clear hc11); (try clear hgr); (try clear hL3); (try clear hkO); (try clear hkS); (try clear hg); (try clear hl)
    grind [upd, Root.kind, TS.active, TS.live, TS.ended, TS.isStopping, failTS, cancelSubs, cancelPingers,
    cancelRoots, cancelRootsV, Pend.ts, scBeforeCleanup, scLate, scEarly, stoppingPhase, G, grace]))
  all_goals (try (case d =>
    (try clear h0); (try clear h1); (try clear h3); (try clear h4); (try clear h5); (try clear h6); (try clear h9); (try clear h10); (try clear h11); (try clear h12); (try clear h13); (try clear h14); (try clear h15); (try clear h16); (try clear hb3); (try clear hb4); (try clear hb8); (try clear hb10); (try clear hb12); (try clear hc11); (try clear hL3); (try clear hkO); (try clear hkS); (try clear hlc); (try clear hg); (try clear hl)
    grind [upd, Root.kind, TS.active, TS.live, TS.ended, TS.isStopping, failTS, cancelSubs, cancelPingers,
    cancelRoots, cancelRootsV, Pend.ts, scBeforeCleanup, scLate, scEarly, stoppingPhase, G, grace]))
  all_goals (try (case e =>
    (try clear h0); (try clear h1); (try clear h2); (try clear h3); (try clear h4); (try clear h5); (try clear h6); (try clear h7); (try clear h8); (try clear h10); (try clear h11); (try clear h12); (try clear h13); (try clear h14); (try clear h15); (try clear h16); (try clear h17); (try clear hb2); (try clear hb3); (try clear hb4); (try clear hb8); (try clear hb9); (try clear hb10); (try clear hb12); (try clear hgr); (try clear hL1); (try clear hL2); (try clear hkO); (try clear hkS); (try clear hlc); (try clear hg); (try clear hl)
    grind [upd, Root.kind, TS.active, TS.live, TS.ended, TS.isStopping, failTS, cancelSubs, cancelPingers,
    cancelRoots, cancelRootsV, Pend.ts, scBeforeCleanup, scLate, scEarly, stoppingPhase, G, grace]))
  all_goals (try (case dS =>
    (try clear h0); (try clear h1); (try clear h2); (try clear h3); (try clear h4); (try clear h5); (try clear h6); (try clear h7); (try clear h8); (try clear h9); (try clear h10); (try clear h11); (try clear h12); (try clear h13); (try clear h14); (try clear h17); (try clear hb3); (try clear hb4); (try clear hb8); (try clear hb9); (try clear hb10); (try clear hb12); (try clear hc11); (try clear hgr); (try clear hL3); (try clear hkO); (try clear hkS); (try clear hlc); (try clear hg); (try clear hl)
    grind [upd, Root.kind, TS.active, TS.live, TS.ended, TS.isStopping, failTS, cancelSubs, cancelPingers,
    cancelRoots, cancelRootsV, Pend.ts, scBeforeCleanup, scLate, scEarly, stoppingPhase, G, grace]))
  all_goals (try (case p =>
    (try clear h0); (try clear h1); (try clear h2); (try clear h3); (try clear h4); (try clear h5); (try clear h6); (try clear h7); (try clear h8); (try clear h9); (try clear h10); (try clear h11); (try clear h12); (try clear h13); (try clear h14); (try clear h15); (try clear h16); (try clear hb2); (try clear hb3); (try clear hb4); (try clear hb8); (try clear hb9); (try clear hb10); (try clear hc11); (try clear hgr); (try clear hL2); (try clear hL3); (try clear hkO); (try clear hkS); (try clear hlc); (try clear hg); (try clear hl)
    grind [upd, Root.kind, TS.active, TS.live, TS.ended, TS.isStopping, failTS, cancelSubs, cancelPingers,
    cancelRoots, cancelRootsV, Pend.ts, scBeforeCleanup, scLate, scEarly, stoppingPhase, G, grace]))
  all_goals (try (case dlStream =>
    (try clear h0); (try clear h1); (try clear h2); (try clear h3); (try clear h4); (try clear h5); (try clear h6); (try clear h7); (try clear h8); (try clear h9); (try clear h10); (try clear h11); (try clear h12); (try clear h13); (try clear h14); (try clear h16); (try clear h17); (try clear hb2); (try clear hb3); (try clear hb4); (try clear hb8); (try clear hb9); (try clear hb10); (try clear hb12); (try clear hc9); (try clear hc10); (try clear hc11); (try clear hgr); (try clear hL1); (try clear hL2); (try clear hL3); (try clear hkO); (try clear hkS); (try clear hlc); (try clear hg); (try clear hl)
    grind [upd, Root.kind, TS.active, TS.live, TS.ended, TS.isStopping, failTS, cancelSubs, cancelPingers,
    cancelRoots, cancelRootsV, Pend.ts, scBeforeCleanup, scLate, scEarly, stoppingPhase, G, grace]))
  all_goals (try (case dlSub =>
    (try clear h0); (try clear h1); (try clear h3); (try clear h4); (try clear h5); (try clear h6); (try clear h7); (try clear h8); (try clear h9); (try clear h10); (try clear h11); (try clear h12); (try clear h13); (try clear h14); (try clear h15); (try clear h16); (try clear h17); (try clear hb2); (try clear hb3); (try clear hb4); (try clear hb8); (try clear hb9); (try clear hb10); (try clear hb12); (try clear hc9); (try clear hc10); (try clear hc11); (try clear hL1); (try clear hL2); (try clear hL3); (try clear hkO); (try clear hkS); (try clear hlc); (try clear hg); (try clear hl)
    grind [upd, Root.kind, TS.active, TS.live, TS.ended, TS.isStopping, failTS, cancelSubs, cancelPingers,
    cancelRoots, cancelRootsV, Pend.ts, scBeforeCleanup, scLate, scEarly, stoppingPhase, G, grace]))
  all_goals (try (case dlRoot =>
    (try clear h0); (try clear h2); (try clear h3); (try clear h4); (try clear h5); (try clear h6); (try clear h7); (try clear h8); (try clear h9); (try clear h10); (try clear h11); (try clear h12); (try clear h13); (try clear h14); (try clear h15); (try clear h16); (try clear h17); (try clear hb2); (try clear hb3); (try clear hb4); (try clear hb8); (try clear hb9); (try clear hb10); (try clear hb12); (try clear hc9); (try clear hc10); (try clear hc11); (try clear hgr); (try clear hL1); (try clear hL2); (try clear hL3); (try clear hkO); (try clear hkS); (try clear hlc); (try clear hg); (try clear hl)
    grind [upd, Root.kind, TS.active, TS.live, TS.ended, TS.isStopping, failTS, cancelSubs, cancelPingers,
    cancelRoots, cancelRootsV, Pend.ts, scBeforeCleanup, scLate, scEarly, stoppingPhase, G, grace]))
  all_goals (grind [upd, Root.kind, TS.active, TS.live, TS.ended, TS.isStopping, failTS, cancelSubs, cancelPingers,
    cancelRoots, cancelRootsV, Pend.ts, scBeforeCleanup, scLate, scEarly, stoppingPhase, G, grace])

end Kopf.C20
