/-
  C14 helper lemmas — the memories container: what is kept under one key does not depend on the other keys.
-/
import Kopf.Model.C14_Memories
namespace Kopf.C14
open Kopf

theorem lookup_filter_ne (M : Memories) (k k' : String) (h : (k' == k) = false) :
    List.lookup k' (M.filter (fun p => !(p.1 == k))) = List.lookup k' M := by
  induction M with
  | nil => rfl
  | cons p rest ih =>
    obtain ⟨a, b⟩ := p
    by_cases hak : (a == k) = true
    · have hak' : a = k := by simpa using hak
      subst hak'
      simp only [List.filter_cons, BEq.rfl, Bool.not_true, Bool.false_eq_true, if_false, List.lookup_cons, h, ih]
    · have hak' : (a == k) = false := by simpa using hak
      simp only [List.filter_cons, hak', Bool.not_false, if_true, List.lookup_cons, ih]

theorem lookup_filter_self (M : Memories) (k : String) :
    List.lookup k (M.filter (fun p => !(p.1 == k))) = none := by
  induction M with
  | nil => rfl
  | cons p rest ih =>
    obtain ⟨a, b⟩ := p
    by_cases hak : (a == k) = true
    · simp only [List.filter_cons, hak, Bool.not_true, Bool.false_eq_true, if_false, ih]
    · have hak' : (a == k) = false := by simpa using hak
      have hka : (k == a) = false := by
        cases hh : (k == a)
        · rfl
        · have : k = a := by simpa using hh
          subst this; simp at hak'
      simp only [List.filter_cons, hak', Bool.not_false, if_true, List.lookup_cons, hka, ih]

/-- what was put under a key is what is found there -/
theorem get_put_same (M : Memories) (k : String) (v : Option Mem) : (M.put k v).get k = v := by
  cases v with
  | none => simp only [Memories.put, Memories.get, lookup_filter_self]
  | some m => simp only [Memories.put, Memories.get, List.lookup_cons, BEq.rfl]

/-- FRAME: putting / forgetting under one key leaves every other key as it was -/
theorem get_put_other (M : Memories) (k k' : String) (v : Option Mem) (h : (k' == k) = false) :
    (M.put k v).get k' = M.get k' := by
  cases v with
  | none => simp only [Memories.put, Memories.get, lookup_filter_ne M k k' h]
  | some m => simp only [Memories.put, Memories.get, List.lookup_cons, h, lookup_filter_ne M k k' h]

end Kopf.C14
