/-
  C20 helper lemmas, part 4: phase invariants (`InvC`) of `run_tasks` and `startup_cleanup_activities`.
-/
import Kopf.Lemmas.C20_InvB
namespace Kopf.C20

/-- `startup_cleanup_activities` is past `wait(other root tasks)` on the way to the cleanup -/
def scPastWait : Sc → Bool
  | .stopCore .none | .coreStopping .none | .cleanup _ | .closing | .over .none => true
  | _ => false

/-- where `startup_cleanup_activities` can be while `run_tasks` still waits for the first root task to end -/
def scEarly : Sc → Bool
  | .init | .startup | .startupOk | .flagged | .sleeping
  | .stopCore .failed | .coreStopping .failed | .over .failed => true
  | _ => false

theorem exited_terminal {cfg : Cfg} {s : State} (l : Label) (h : s.rt = .exited) : step cfg s l = none := by
  cases l <;> simp [step, h]

structure InvC (s : State) : Prop where
  hungRoots : s.rt ≠ .waiting → s.rt ≠ .stoppingRoots → s.rt ≠ .cStoppingRoots →
    ∀ r, (s.st (.root r)).ended = true
  exitedHung : s.rt = .exited →
    s.waiter = false ∧ (∀ d, d < s.nDaemons → s.dm d ≠ .running) ∧ s.orphans = 0
  resultNone : s.rt ≠ .exited → s.result = none
  resultSome : s.rt = .exited → ∃ r, s.result = some r
  resRaised : s.result = some .raised → s.rootFailed = true
  resReturned : s.result = some .returned → s.rootFailed = false
  pastWait : scPastWait s.sc = true → ∀ r, r ≠ .startupCleanup → (s.st (.root r)).ended = true
  cleanupB : s.cleanupBegun = true →
    (∀ r, r ≠ .startupCleanup → (s.st (.root r)).ended = true) ∧ s.core.live = false
  waitingEarly : s.rt = .waiting →
    scEarly s.sc = true ∧ s.creq (.root .startupCleanup) = false ∧ s.t0 = none
  t0Some : s.rt ≠ .waiting → ∃ t, s.t0 = some t ∧ t ≤ s.now
  scOver : (s.st (.root .startupCleanup)).ended = true →
    ∃ p, s.sc = .over p ∧ s.st (.root .startupCleanup) = p.ts
  scLive : (s.st (.root .startupCleanup)).ended = false → s.st (.root .startupCleanup) = .running
  raisedSc : s.startupRaised = true →
    s.sc = .stopCore .failed ∨ s.sc = .coreStopping .failed ∨ s.sc = .over .failed

theorem InvC.init : InvC init := by
  constructor <;> simp [Kopf.C20.init, initSt, scPastWait, scEarly, Root.guarded, Root.kind]

set_option maxHeartbeats 4000000 in
theorem InvC.preserved {cfg : Cfg} {s s' : State} {l : Label} (hB : InvB s) (hI : InvC s)
    (h : step cfg s l = some s') : InvC s' := by
  have hb3 := hB.wkRoot
  by_cases hex : s.rt = .exited
  · rw [exited_terminal l hex] at h; cases h
  obtain ⟨h1, h2, h3, h4, h5, h6, h7, h8, h9, h10, h11, h12, h13⟩ := hI
  cases l <;> simp only [step] at h
  all_goals (repeat' (split at h))
  all_goals (first | (cases h; done) | skip)
  all_goals (cases h)
  all_goals (try simp only [allRootsEnded_iff, anyRootEnded_iff, othersEnded_iff, hungLive_false_iff] at *)
  all_goals (refine ⟨?_, ?_, ?_, ?_, ?_, ?_, ?_, ?_, ?_, ?_, ?_, ?_, ?_⟩)
  all_goals (first | exact h1 | exact h2 | exact h3 | exact h4 | exact h5 | exact h6 | exact h7 | exact h8
                   | exact h9 | exact h10 | exact h11 | exact h12 | exact h13 | skip)
  all_goals (try simp only [kind_orchestrator_iff, kind_killer_iff, kind_flagChecker_iff, kind_ultimate_iff,
    kind_startupCleanup_iff] at *)
  all_goals (try subst_vars)
  all_goals (try dsimp only)
  all_goals (grind [upd, Root.kind, TS.active, TS.live, TS.ended, TS.isStopping, failTS, cancelSubs,
    cancelRoots, Pend.ts, scPastWait, scEarly])

theorem InvC.reach {cfg : Cfg} {s : State} (h : Reach cfg s) : InvC s :=
  Reach.induction (P := InvC) InvC.init (fun _ _ _ hr hI hs => InvC.preserved (InvB.reach hr) hI hs) s h

end Kopf.C20
