/-
  C06 helper lemmas for the wake-up layer (`LState`, `lstep`): the invariant "an object that waits for
  its release is never left without a trigger" and the undisturbed cycle at this level.
-/
import Kopf.Lemmas.C06_Inv
namespace Kopf.C06

theorem own_mem_applyFns_of_block (own : String) : ∀ (fns : List Fn) (l : List String),
    Fn.allow ∉ fns → Fn.block ∈ fns → own ∈ applyFns own fns l
  | [], _, _, h => by cases h
  | fn :: fns, l, hna, _ => by
    show own ∈ applyFns own fns (fn.apply own l)
    cases fn
    · exact mem_applyFns_of_no_allow own fns _ own (fun h => hna (List.mem_cons_of_mem _ h)) (own_mem_block own l)
    · exact absurd List.mem_cons_self hna

theorem own_not_mem_applyFns_of_allows (own : String) (fns : List Fn) (l : List String)
    (hnb : Fn.block ∉ fns) (hne : fns ≠ []) : own ∉ applyFns own fns l := by
  have hlast := List.dropLast_concat_getLast hne
  rw [← hlast]
  intro h
  have := (own_mem_applyFns_snoc own _ _ l).mp h
  have hm : fns.getLast hne ∈ fns := List.getLast_mem hne
  rw [this] at hm
  exact hnb hm

/-- Fns decided on the very list they are applied to always change it. -/
theorem fns_change (own : String) (fns : List Fn) (view : List String)
    (hb : Fn.block ∈ fns → own ∉ view) (ha : Fn.allow ∈ fns → own ∈ view) (hne : fns ≠ []) :
    applyFns own fns view ≠ view := by
  intro heq
  by_cases hblock : Fn.block ∈ fns
  · have hnv := hb hblock
    have hna : Fn.allow ∉ fns := fun h => hnv (ha h)
    have := own_mem_applyFns_of_block own fns view hna hblock
    rw [heq] at this
    exact hnv this
  · have hall : Fn.allow ∈ fns := by
      cases fns with
      | nil => exact absurd rfl hne
      | cons f t =>
        cases f
        · exact absurd List.mem_cons_self hblock
        · exact List.mem_cons_self
    have := own_not_mem_applyFns_of_allows own fns view hblock hne
    rw [heq] at this
    exact this (ha hall)

/-- A cycle that sees a waiting object, queues nothing and returns no delays has left early
(so another event is queued). -/
theorem early_of_stuck : ∀ (matchDel matchDmn delDone dmnLive dmnForever cons memEmpty otherChanging otherDelays delReset : Bool),
    let d := decision (inputsB matchDel matchDmn delDone dmnLive dmnForever true true cons memEmpty otherChanging otherDelays delReset)
    d.add = false → d.removeUnneeded = false → d.release = false → d.delays = false → (cons && memEmpty) = false := by
  decide

theorem fns_nil_iff (d : Decision) : d.fns = [] ↔ d.add = false ∧ d.removeUnneeded = false ∧ d.release = false := by
  rcases d with ⟨a, r, l, h, dl⟩
  cases a <;> cases r <;> cases l <;> simp [Decision.fns]

structure LInv (own : String) (s : LState) : Prop where
  memNil : s.base.mem = []
  j1 : s.base.pending = none → Waiting own s.base → 1 ≤ s.events ∨ s.sleeping = true
  j3 : ∀ p, s.base.pending = some p → p.merge = false → s.cycMerge = true → s.cycChanges = true → 1 ≤ s.events
  j4 : ∀ p, s.base.pending = some p → (Fn.block ∈ p.fns → own ∉ p.view) ∧ (Fn.allow ∈ p.fns → own ∈ p.view)
  j5 : ∀ p, s.base.pending = some p → p.merge = false → s.base.rv ≠ p.rvTest → 1 ≤ s.events
  j6 : ∀ p, s.base.pending = some p → p.fns = [] → s.cycDelays = false → Waiting own s.base → 1 ≤ s.events
  j7 : ∀ p, s.base.pending = some p → (own ∈ p.view ↔ own ∈ s.base.fins)

theorem linv_init {own : String} {s : LState} (h : LInit s) : LInv own s := by
  obtain ⟨hb, he, _, _, _, _⟩ := h
  obtain ⟨_, _, _, _, _, hm, hp⟩ := hb
  constructor
  · exact hm
  · intro _ _; left; omega
  all_goals (intro p hp'; rw [hp] at hp'; cases hp')


theorem linv_decide {own : String} {s s' : LState} {e : Env} (h : LInv own s)
    (hs : lstep own s (.base (.decide e)) = some s') : LInv own s' := by
  obtain ⟨hm, j1, j3, j4, j5, j6, j7⟩ := h
  simp only [lstep] at hs
  split at hs
  · cases hs
  next hev =>
  split at hs
  · cases hs
  next hcons =>
  cases hb : step own s.base (.decide e) with
  | none => simp [hb] at hs
  | some b =>
    simp only [hb, Option.map_some, Option.some.injEq] at hs
    subst hs
    unfold step at hb
    split at hb
    · cases hb
    next hgone =>
    simp only [stepDecide] at hb
    split at hb
    · cases hb
    next hpend =>
    cases hb
    have hfns : s.base.mem ++ (decision (inputs own s.base e)).fns = (decision (inputs own s.base e)).fns := by
      rw [hm]; rfl
    have harm := arm_bool s.base.matchDel s.base.matchDmn s.base.delDone s.base.dmnLive s.base.dmnForever s.base.marked
      (decide (own ∈ s.base.fins)) e.consistent s.base.mem.isEmpty e.otherChanging e.otherDelays e.delReset
    rw [← inputs_eq] at harm
    constructor
    · exact hm
    · intro hp; simp at hp
    · intro p hp hmerge hcm _
      simp only [Option.some.injEq] at hp; subst hp
      simp only at hmerge hcm
      rw [hmerge] at hcm; cases hcm
    · intro p hp
      simp only [Option.some.injEq] at hp; subst hp
      simp only
      rw [hfns]
      refine ⟨?_, ?_⟩
      · intro hbl
        rw [block_mem_fns] at hbl
        have := (harm.1 hbl).2.1
        simpa using this
      · intro hal
        rw [allow_mem_fns] at hal
        have := (harm.2 hal).1
        simpa using this
    · intro p hp _ hrv
      simp only [Option.some.injEq] at hp; subst hp
      exact absurd rfl hrv
    · intro p hp hnil hdel hw
      simp only [Option.some.injEq] at hp; subst hp
      simp only at hnil hdel hw
      rw [hfns, fns_nil_iff] at hnil
      obtain ⟨hw1, hw2, hw3⟩ := hw
      have hearly := early_of_stuck s.base.matchDel s.base.matchDmn s.base.delDone s.base.dmnLive s.base.dmnForever
        e.consistent s.base.mem.isEmpty e.otherChanging e.otherDelays e.delReset
      have hin : inputs own s.base e = inputsB s.base.matchDel s.base.matchDmn s.base.delDone s.base.dmnLive s.base.dmnForever true true
          e.consistent s.base.mem.isEmpty e.otherChanging e.otherDelays e.delReset := by
        rw [inputs_eq, hw2]; simp [hw3]
      rw [hin] at hnil hdel
      have hc := hearly hnil.1 hnil.2.1 hnil.2.2 hdel
      rw [hm] at hc
      simp at hc
      simp [hc] at hcons
      show 1 ≤ s.events - 1
      omega
    · intro p hp
      simp only [Option.some.injEq] at hp; subst hp
      exact Iff.rfl

theorem linv_merge {own : String} {s s' : LState} (h : LInv own s)
    (hs : lstep own s (.base .mergePatch) = some s') : LInv own s' := by
  obtain ⟨hm, j1, j3, j4, j5, j6, j7⟩ := h
  simp only [lstep] at hs
  cases hb : step own s.base .mergePatch with
  | none => simp [hb] at hs
  | some b =>
    simp only [hb, Option.map_some, Option.some.injEq] at hs
    subst hs
    unfold step at hb
    split at hb
    · cases hb
    simp only [stepMerge] at hb
    split at hb
    · next p hp =>
      split at hb
      · next hmerge =>
        cases hb
        have hev : ∀ n, 1 ≤ n → 1 ≤ n + (if s.cycChanges = true then 1 else 0) := by intro n hn; omega
        constructor
        · exact hm
        · intro hp'; simp at hp'
        · intro p' _ _ _ hcc
          show 1 ≤ s.events + (if s.cycChanges = true then 1 else 0)
          simp only at hcc
          rw [hcc]; simp
        · intro p' hp'
          simp only [Option.some.injEq] at hp'; subst hp'
          simp only
          obtain ⟨h4b, h4a⟩ := j4 p hp
          have h7 := j7 p hp
          exact ⟨fun hbl hin => h4b hbl (h7.mpr hin), fun hal => h7.mp (h4a hal)⟩
        · intro p' hp' _ hrv
          simp only [Option.some.injEq] at hp'; subst hp'
          exact absurd rfl hrv
        · intro p' hp' hnil hd hw
          simp only [Option.some.injEq] at hp'; subst hp'
          exact hev _ (j6 p hp hnil hd hw)
        · intro p' hp'
          simp only [Option.some.injEq] at hp'; subst hp'
          exact Iff.rfl
      · cases hb
    · cases hb

theorem linv_touch {own : String} {s s' : LState} (h : LInv own s)
    (hs : lstep own s .touch = some s') : LInv own s' := by
  obtain ⟨hm, j1, j3, j4, j5, j6, j7⟩ := h
  simp only [lstep] at hs
  split at hs
  · next hc =>
    cases hs
    simp only [Bool.and_eq_true, Option.isNone_iff_eq_none] at hc
    have hp := hc.1.2
    constructor
    · exact hm
    · intro _ _; left; show 1 ≤ s.events + 1; omega
    all_goals (intro p hp'; simp only at hp'; rw [hp] at hp'; cases hp')
  · cases hs

theorem linv_restart {own : String} {s s' : LState} (_h : LInv own s)
    (hs : lstep own s (.base .restart) = some s') : LInv own s' := by
  simp only [lstep] at hs
  cases hb : step own s.base .restart with
  | none => simp [hb] at hs
  | some b =>
    simp only [hb, Option.map_some, Option.some.injEq] at hs
    subst hs
    unfold step at hb
    split at hb
    · cases hb
    cases hb
    constructor
    · rfl
    · intro _ _; left; show 1 ≤ 1; omega
    all_goals (intro p hp'; simp at hp')


def Label.isForeign : Label → Bool
  | .editFins _ | .mark | .toggleDel | .toggleDmn | .handlerFinishes | .daemonExits _ => true
  | _ => false

theorem foreign_step_frame {own : String} {b0 b : State} {l : Label} (hl : l.isForeign = true)
    (hs : step own b0 l = some b) :
    b.pending = b0.pending ∧ b.mem = b0.mem ∧ (b.rv = b0.rv ∨ b.rv = b0.rv + 1) ∧
    (b.rv = b0.rv → Waiting own b → Waiting own b0) ∧ (own ∈ b.fins ↔ own ∈ b0.fins) := by
  unfold step at hs
  split at hs
  · cases hs
  cases l with
  | editFins l' =>
    simp only [stepEditFins] at hs
    split at hs
    · cases hs
    · next hguard =>
      split at hs
      · cases hs; exact ⟨rfl, rfl, Or.inl rfl, fun _ h => h, Iff.rfl⟩
      · cases hs
        simp only [bne_iff_ne, ne_eq, Decidable.not_not, decide_eq_decide] at hguard
        refine ⟨rfl, rfl, Or.inr rfl, fun h _ => ?_, hguard⟩
        simp at h
  | mark =>
    simp only [stepMark] at hs
    split at hs
    · cases hs; exact ⟨rfl, rfl, Or.inl rfl, fun _ h => h, Iff.rfl⟩
    · split at hs
      · cases hs; refine ⟨rfl, rfl, Or.inl rfl, fun _ h => ?_, Iff.rfl⟩
        obtain ⟨h1, _, _⟩ := h; simp at h1
      · cases hs; refine ⟨rfl, rfl, Or.inr rfl, fun h _ => ?_, Iff.rfl⟩
        simp at h
  | toggleDel => cases hs; refine ⟨rfl, rfl, Or.inr rfl, fun h _ => ?_, Iff.rfl⟩; simp at h
  | toggleDmn => cases hs; refine ⟨rfl, rfl, Or.inr rfl, fun h _ => ?_, Iff.rfl⟩; simp at h
  | handlerFinishes =>
    simp only at hs
    split at hs
    · cases hs; exact ⟨rfl, rfl, Or.inl rfl, fun _ h => h, Iff.rfl⟩
    · cases hs
  | daemonExits o =>
    simp only at hs
    split at hs
    · cases hs; exact ⟨rfl, rfl, Or.inl rfl, fun _ h => h, Iff.rfl⟩
    · cases hs
  | decide e => cases hl
  | mergePatch => cases hl
  | jsonPatch f => cases hl
  | restart => cases hl

theorem lstep_foreign {own : String} {s s' : LState} {l : Label} (hl : l.isForeign = true)
    (hs : lstep own s (.base l) = some s') :
    ∃ b, step own s.base l = some b ∧
      s' = { s with base := b, events := s.events + (if b.rv != s.base.rv then 1 else 0) } := by
  have key : ∀ (o : Option State), o = step own s.base l →
      (o.map fun b => ({ s with base := b, events := s.events + (if b.rv != s.base.rv then 1 else 0) } : LState)) = some s' →
      ∃ b, step own s.base l = some b ∧
        s' = { s with base := b, events := s.events + (if b.rv != s.base.rv then 1 else 0) } := by
    intro o ho hm
    cases o with
    | none => simp at hm
    | some b => simp only [Option.map_some, Option.some.injEq] at hm; exact ⟨b, ho.symm, hm.symm⟩
  cases l with
  | editFins l' => exact key _ rfl hs
  | mark => exact key _ rfl hs
  | toggleDel => exact key _ rfl hs
  | toggleDmn => exact key _ rfl hs
  | handlerFinishes => exact key _ rfl hs
  | daemonExits o => exact key _ rfl hs
  | decide e => cases hl
  | mergePatch => cases hl
  | jsonPatch f => cases hl
  | restart => cases hl

theorem linv_foreign {own : String} {s s' : LState} {l : Label} (h : LInv own s) (hl : l.isForeign = true)
    (hs : lstep own s (.base l) = some s') : LInv own s' := by
  obtain ⟨hm, j1, j3, j4, j5, j6, j7⟩ := h
  obtain ⟨b, hb, rfl⟩ := lstep_foreign hl hs
  obtain ⟨hp, hmem, hrv, hw, hfin⟩ := foreign_step_frame hl hb
  have hev : ∀ n, 1 ≤ n → 1 ≤ n + (if b.rv != s.base.rv then 1 else 0) := by intro n hn; omega
  have hbump : b.rv ≠ s.base.rv → 1 ≤ s.events + (if b.rv != s.base.rv then 1 else 0) := by
    intro hne; simp [hne]
  constructor
  · show b.mem = []; rw [hmem]; exact hm
  · intro hpn hwait
    show 1 ≤ s.events + _ ∨ s.sleeping = true
    by_cases hr : b.rv = s.base.rv
    · rcases j1 (hp ▸ hpn) (hw hr hwait) with h1 | h1
      · exact Or.inl (hev _ h1)
      · exact Or.inr h1
    · exact Or.inl (hbump hr)
  · intro p hpp hm' hc hcc; exact hev _ (j3 p (hp ▸ hpp) hm' hc hcc)
  · intro p hpp; exact j4 p (hp ▸ hpp)
  · intro p hpp hm' hne
    show 1 ≤ s.events + _
    by_cases hr : b.rv = s.base.rv
    · exact hev _ (j5 p (hp ▸ hpp) hm' (by rw [← hr]; exact hne))
    · exact hbump hr
  · intro p hpp hnil hd hwait
    show 1 ≤ s.events + _
    by_cases hr : b.rv = s.base.rv
    · exact hev _ (j6 p (hp ▸ hpp) hnil hd (hw hr hwait))
    · exact hbump hr
  · intro p hpp
    exact (j7 p (hp ▸ hpp)).trans hfin.symm

theorem linv_json {own : String} {s s' : LState} {f : Bool} (h : LInv own s) (hg : LGuard (.base (.jsonPatch f)))
    (hs : lstep own s (.base (.jsonPatch f)) = some s') : LInv own s' := by
  obtain ⟨hm, j1, j3, j4, j5, j6, j7⟩ := h
  have hf : f = false := hg
  subst hf
  simp only [lstep] at hs
  cases hb : step own s.base (.jsonPatch false) with
  | none => simp [hb] at hs
  | some b =>
    simp only [hb, Option.map_some, Option.some.injEq] at hs
    unfold step at hb
    split at hb
    · cases hb
    simp only [stepJson] at hb
    split at hb
    · next p hp =>
      split at hb
      · cases hb
      next hmerge =>
      simp only [Bool.not_eq_true] at hmerge
      split at hb
      · -- no ops
        next hnoop =>
        cases hb
        simp only [bne_self_eq_false, Bool.false_eq_true, if_false, hp] at hs
        subst hs
        constructor
        · rfl
        · intro _ hw
          show 1 ≤ s.events ∨ sleepsAfter s.cycDelays (changedUnwritten s.cycMerge s.cycChanges p.fns) = true
          obtain ⟨h4b, h4a⟩ := j4 p hp
          by_cases hnil : p.fns = []
          · cases hcd : s.cycDelays
            · exact Or.inl (j6 p hp hnil hcd hw)
            · cases hcm : s.cycMerge
              · right; simp [sleepsAfter, changedUnwritten, hnil]
              · cases hcc : s.cycChanges
                · right; simp [sleepsAfter, changedUnwritten]
                · exact Or.inl (j3 p hp hmerge hcm hcc)
          · exact absurd hnoop (fns_change own p.fns p.view h4b h4a hnil)
        all_goals (intro p' hp'; simp at hp')
      · split at hb
        · -- rejected
          next hrej =>
          cases hb
          simp only [bne_self_eq_false, Bool.false_eq_true, if_false, hp] at hs
          subst hs
          simp only [Bool.false_or, bne_iff_ne, ne_eq] at hrej
          constructor
          · exact carry_nil _
          · intro _ _
            left
            show 1 ≤ s.events
            exact j5 p hp hmerge hrej
          all_goals (intro p' hp'; simp at hp')
        · -- accepted
          cases hb
          have : (s.base.rv + 1 != s.base.rv) = true := by simp
          simp only [this, if_true] at hs
          subst hs
          constructor
          · rfl
          · intro _ _; left; show 1 ≤ s.events + 1; omega
          all_goals (intro p' hp'; simp at hp')
    · cases hb

theorem linv_step {own : String} {s s' : LState} {l : LLabel} (h : LInv own s) (hg : LGuard l)
    (hs : lstep own s l = some s') : LInv own s' := by
  cases l with
  | touch => exact linv_touch h hs
  | base bl =>
    cases bl with
    | decide e => exact linv_decide h hs
    | mergePatch => exact linv_merge h hs
    | jsonPatch f => exact linv_json h hg hs
    | restart => exact linv_restart h hs
    | editFins x => exact linv_foreign h rfl hs
    | mark => exact linv_foreign h rfl hs
    | toggleDel => exact linv_foreign h rfl hs
    | toggleDmn => exact linv_foreign h rfl hs
    | handlerFinishes => exact linv_foreign h rfl hs
    | daemonExits o => exact linv_foreign h rfl hs

theorem linv_reach {own : String} {s : LState} (h : LReachG own s) : LInv own s := by
  induction h with
  | init hi => exact linv_init hi
  | step _ hg hs ih => exact linv_step ih hg hs

/-- Every step of the wake-up layer is a step of the base LTS or leaves the base state alone. -/
theorem lstep_base {own : String} {s s' : LState} {l : LLabel} (hs : lstep own s l = some s') :
    s'.base = s.base ∨ ∃ bl, step own s.base bl = some s'.base := by
  cases l with
  | touch =>
    simp only [lstep] at hs
    split at hs
    · cases hs; exact Or.inl rfl
    · cases hs
  | base bl =>
    right
    refine ⟨bl, ?_⟩
    cases bl <;> simp only [lstep] at hs <;>
      (try (split at hs; · cases hs)) <;> (try (split at hs; · cases hs)) <;>
      (cases hb : step own s.base _ with
       | none => simp [hb] at hs
       | some b =>
         simp only [hb, Option.map_some, Option.some.injEq] at hs
         first
           | (subst hs; rfl)
           | (split at hs <;> (subst hs; rfl)))

theorem lreach_base {own : String} {s : LState} (h : LReach own s) : Reach own s.base := by
  induction h with
  | init hi => exact Reach.init hi.1
  | step _ hs ih =>
    rcases lstep_base hs with h | ⟨bl, h⟩
    · rw [h]; exact ih
    · exact Reach.step ih h

theorem lreach_of_lreachG {own : String} {s : LState} (h : LReachG own s) : LReach own s := by
  induction h with
  | init hi => exact LReach.init hi
  | step _ _ hs ih => exact LReach.step ih hs

/-! ## Progress from a waiting, settled object -/

/-- The part of the state that decides whether the finalizer is still needed. -/
def SameReq (a b : State) : Prop :=
  b.marked = a.marked ∧ b.matchDel = a.matchDel ∧ b.delDone = a.delDone ∧ b.dmnLive = a.dmnLive

theorem afterCycle_released (own : String) (s : State) (e : Env) (hmem : s.mem = [])
    (hm : s.marked = true) (hown : own ∈ s.fins) (hset : Settled s)
    (hc : e.consistent = true) (hod : e.otherDelays = false) (hdr : e.delReset = false) :
    own ∉ (afterCycle own s e).fins ∧ (afterCycle own s e).mem = [] ∧ (afterCycle own s e).pending = none ∧
    ((afterCycle own s e).fins = [] → (afterCycle own s e).gone = true) := by
  have hb := release_bool s.matchDel s.matchDmn s.delDone s.dmnForever e.otherChanging hset.1
  have hin : inputs own s e = inputsB s.matchDel s.matchDmn s.delDone false s.dmnForever true true true true e.otherChanging false false := by
    rw [inputs_eq, hset.2, hm, hc, hod, hdr, hmem]; simp [hown]
  obtain ⟨pre, hpre⟩ := fns_snoc_allow _ hb.1 hb.2
  have htarget : own ∉ applyFns own (s.mem ++ (decision (inputs own s e)).fns) s.fins := by
    rw [hin, hpre, ← List.append_assoc]
    intro hmem'
    have := (own_mem_applyFns_snoc own _ Fn.allow s.fins).mp hmem'
    cases this
  have hne : applyFns own (s.mem ++ (decision (inputs own s e)).fns) s.fins ≠ s.fins := by
    intro heq; rw [heq] at htarget; exact htarget hown
  have hac : afterCycle own s e =
      { s with dmnLive := s.dmnLive || (!s.marked && s.matchDmn && !s.dmnForever),
               delDone := if (decision (inputs own s e)).handlersRun then s.delDone && !e.delReset else s.delDone,
               fins := applyFns own (s.mem ++ (decision (inputs own s e)).fns) s.fins, rv := s.rv + 1,
               pending := none, mem := [],
               gone := s.marked && (applyFns own (s.mem ++ (decision (inputs own s e)).fns) s.fins).isEmpty } := by
    simp only [afterCycle, hne, if_false]
  rw [hac]
  refine ⟨htarget, rfl, rfl, ?_⟩
  intro hnil
  simp only at hnil
  simp [hm, hnil]

/-- One undisturbed cycle at the wake-up level: it needs one queued event. -/
theorem lcycle_quiet (own : String) (s : LState) (hg : s.base.gone = false) (hp : s.base.pending = none)
    (hev : 1 ≤ s.events) :
    ∃ s', lrun own s [.base (.decide quiet), .base (.jsonPatch false)] = some s' ∧
          s'.base = afterCycle own s.base quiet := by
  have hrun := cycle_run own s.base quiet hg hp
  have hl : cycleLabels quiet = [.decide quiet, .jsonPatch false] := rfl
  rw [hl] at hrun
  simp only [run] at hrun
  cases hb1 : step own s.base (.decide quiet) with
  | none => simp [hb1] at hrun
  | some b1 =>
    simp only [hb1, Option.bind_some] at hrun
    cases hb2 : step own b1 (.jsonPatch false) with
    | none => simp [hb2] at hrun
    | some b2 =>
      simp only [hb2, Option.bind_some, Option.some.injEq] at hrun
      have hne : ¬ s.events = 0 := by omega
      simp only [lrun, lstep, hne, if_false, quiet, Bool.not_true, Bool.false_and, Bool.false_eq_true] at *
      simp only [hb1, Option.map_some, Option.bind_some, hb2]
      split
      · exact ⟨_, rfl, hrun⟩
      · exact ⟨_, rfl, hrun⟩


theorem lrun_append (own : String) : ∀ (a b : List LLabel) (s : LState),
    lrun own s (a ++ b) = (lrun own s a).bind (fun s' => lrun own s' b)
  | [], b, s => by simp [lrun]
  | l :: a, b, s => by
    simp only [List.cons_append, lrun]
    cases lstep own s l with
    | none => simp
    | some s1 => simp [lrun_append own a b s1]

/-- The merge patch of the cycle in flight can always be sent. -/
theorem lstep_merge_enabled {own : String} {s : LState} {p : Pending} (hg : s.base.gone = false)
    (hp : s.base.pending = some p) (hm : p.merge = true) :
    ∃ s1, lstep own s (.base .mergePatch) = some s1 ∧ SameReq s.base s1.base ∧ s1.base.gone = false ∧
      s1.base.fins = s.base.fins ∧ ∃ p1, s1.base.pending = some p1 ∧ p1.merge = false := by
  simp only [lstep, step, hg, stepMerge, hp, hm, if_true, Bool.false_eq_true, if_false, Option.map_some]
  exact ⟨_, rfl, ⟨rfl, rfl, rfl, rfl⟩, rfl, rfl, _, rfl, rfl⟩

/-- … and so can its JSON patch; afterwards no cycle is in flight, and the object is gone only if
the own finalizer is. -/
theorem lstep_json_enabled {own : String} {s : LState} {p : Pending} (hg : s.base.gone = false)
    (hp : s.base.pending = some p) (hm : p.merge = false) :
    ∃ s2, lstep own s (.base (.jsonPatch false)) = some s2 ∧ SameReq s.base s2.base ∧
      s2.base.pending = none ∧ (own ∈ s2.base.fins → s2.base.gone = false) := by
  simp only [lstep, step, hg, stepJson, hp, hm, Bool.false_eq_true, if_false, Bool.false_or]
  split
  · simp only [Option.map_some, bne_self_eq_false, Bool.false_eq_true, if_false]
    exact ⟨_, rfl, ⟨rfl, rfl, rfl, rfl⟩, rfl, fun _ => rfl⟩
  · split
    · simp only [Option.map_some, bne_self_eq_false, Bool.false_eq_true, if_false]
      exact ⟨_, rfl, ⟨rfl, rfl, rfl, rfl⟩, rfl, fun _ => rfl⟩
    · have : (s.base.rv + 1 != s.base.rv) = true := by simp
      simp only [Option.map_some, this, if_true]
      refine ⟨_, rfl, ⟨rfl, rfl, rfl, rfl⟩, rfl, ?_⟩
      intro hown
      simp only at hown ⊢
      cases htn : applyFns own p.fns p.view with
      | nil => rw [htn] at hown; cases hown
      | cons a t => simp

theorem settled_of_sameReq {a b : State} (h : SameReq a b) (hs : Settled a) : Settled b := by
  obtain ⟨_, h2, h3, h4⟩ := h
  exact ⟨fun hm => by rw [h3]; exact hs.1 (h2 ▸ hm), by rw [h4]; exact hs.2⟩

/-- From an idle worker with a queued event: one quiet cycle releases. -/
theorem release_with_event (own : String) (s : LState) (hmem : s.base.mem = []) (hp : s.base.pending = none)
    (hw : Waiting own s.base) (hset : Settled s.base) (hev : 1 ≤ s.events) :
    ∃ s', lrun own s [.base (.decide quiet), .base (.jsonPatch false)] = some s' ∧ own ∉ s'.base.fins := by
  obtain ⟨s', hrun, hbase⟩ := lcycle_quiet own s hw.1 hp hev
  refine ⟨s', hrun, ?_⟩
  rw [hbase]
  exact (afterCycle_released own s.base quiet hmem hw.2.1 hw.2.2 hset rfl rfl rfl).1

/-- From an idle worker: the sleep ends with a touch if no event is queued; then one quiet cycle. -/
theorem release_from_idle (own : String) (s : LState) (h : LInv own s) (hp : s.base.pending = none)
    (hw : Waiting own s.base) (hset : Settled s.base) :
    ∃ ls s', ls.length ≤ 3 ∧ (∀ l ∈ ls, LLabel.isOperator l = true) ∧ lrun own s ls = some s' ∧ own ∉ s'.base.fins := by
  by_cases hev : 1 ≤ s.events
  · obtain ⟨s', hrun, hrel⟩ := release_with_event own s h.memNil hp hw hset hev
    exact ⟨_, s', by simp, by simp [LLabel.isOperator], hrun, hrel⟩
  · have hsl : s.sleeping = true := (h.j1 hp hw).resolve_left hev
    have hpn : s.base.pending.isNone = true := by rw [hp]; rfl
    have ht : lstep own s .touch = some { s with sleeping := false, events := s.events + 1 } := by
      simp [lstep, hsl, hpn, hw.1]
    obtain ⟨s', hrun, hrel⟩ := release_with_event own { s with sleeping := false, events := s.events + 1 }
      h.memNil hp hw hset (by show 1 ≤ s.events + 1; omega)
    refine ⟨[.touch, .base (.decide quiet), .base (.jsonPatch false)], s', by simp, by simp [LLabel.isOperator], ?_, hrel⟩
    show lrun own s ([LLabel.touch] ++ [.base (.decide quiet), .base (.jsonPatch false)]) = some s'
    rw [lrun_append]
    simp only [lrun, ht, Option.bind_some]
    exact hrun

end Kopf.C06
