/-
  C06 helper lemmas for the wake-up layer (`LState`, `lstep`): the invariant "an object that waits for
  its release is never left without a trigger" and the undisturbed cycle at this level.
-/
import Kopf.Lemmas.C06_Inv
namespace Kopf.C06

theorem own_mem_applyFns_of_block (own : String) : ∀ (fns : List Fn) (l : List String),
    Fn.allow ∉ fns → Fn.block ∈ fns → own ∈ applyFns own fns l
  | [], _, _, h => by cases h
  | fn :: fns, l, hna, _ => by
    show own ∈ applyFns own fns (fn.apply own l)
    cases fn
    · exact mem_applyFns_of_no_allow own fns _ own (fun h => hna (List.mem_cons_of_mem _ h)) (own_mem_block own l)
    · exact absurd List.mem_cons_self hna

theorem own_not_mem_applyFns_of_allows (own : String) (fns : List Fn) (l : List String)
    (hnb : Fn.block ∉ fns) (hne : fns ≠ []) : own ∉ applyFns own fns l := by
  have hlast := List.dropLast_concat_getLast hne
  rw [← hlast]
  intro h
  have := (own_mem_applyFns_snoc own _ _ l).mp h
  have hm : fns.getLast hne ∈ fns := List.getLast_mem hne
  rw [this] at hm
  exact hnb hm

/-- Fns decided on the very list they are applied to always change it. -/
theorem fns_change (own : String) (fns : List Fn) (view : List String)
    (hb : Fn.block ∈ fns → own ∉ view) (ha : Fn.allow ∈ fns → own ∈ view) (hne : fns ≠ []) :
    applyFns own fns view ≠ view := by
  intro heq
  by_cases hblock : Fn.block ∈ fns
  · have hnv := hb hblock
    have hna : Fn.allow ∉ fns := fun h => hnv (ha h)
    have := own_mem_applyFns_of_block own fns view hna hblock
    rw [heq] at this
    exact hnv this
  · have hall : Fn.allow ∈ fns := by
      cases fns with
      | nil => exact absurd rfl hne
      | cons f t =>
        cases f
        · exact absurd List.mem_cons_self hblock
        · exact List.mem_cons_self
    have := own_not_mem_applyFns_of_allows own fns view hblock hne
    rw [heq] at this
    exact this (ha hall)

/-- A cycle that sees a waiting object, queues nothing and returns no delays has left early
(so another event is queued). -/
theorem early_of_stuck : ∀ (matchDel matchDmn delDone dmnLive dmnForever cons memEmpty otherChanging otherDelays delReset : Bool),
    let d := decision (inputsB matchDel matchDmn delDone dmnLive dmnForever true true cons memEmpty otherChanging otherDelays delReset)
    d.add = false → d.removeUnneeded = false → d.release = false → d.delays = false → (cons && memEmpty) = false := by
  decide

theorem fns_nil_iff (d : Decision) : d.fns = [] ↔ d.add = false ∧ d.removeUnneeded = false ∧ d.release = false := by
  rcases d with ⟨a, r, l, h, dl⟩
  cases a <;> cases r <;> cases l <;> simp [Decision.fns]


/-- Every step either stores a new version (`rv + 1`) or leaves everything an event shows alone. -/
theorem step_frame {own : String} {s b : State} {l : Label} (hs : step own s l = some b) :
    (b.rv = s.rv ∧ snap b = snap s) ∨ b.rv = s.rv + 1 := by
  unfold step at hs
  split at hs
  · cases hs
  cases l with
  | decide e v =>
    simp only [stepDecide] at hs
    split at hs
    · cases hs
    · split at hs <;> cases hs
      exact Or.inl ⟨rfl, rfl⟩
  | mergePatch =>
    simp only [stepMerge] at hs
    split at hs
    · next p _ =>
      split at hs
      · cases hs
        cases hmc : p.mergeChanges
        · left; simp [snap]
        · right; simp
      · cases hs
    · cases hs
  | jsonPatch f =>
    simp only [stepJson] at hs
    split at hs
    · split at hs
      · cases hs
      · split at hs
        · cases hs; exact Or.inl ⟨rfl, rfl⟩
        · split at hs
          · cases hs; exact Or.inl ⟨rfl, rfl⟩
          · cases hs; exact Or.inr rfl
    · cases hs
  | editFins l' =>
    simp only [stepEditFins] at hs
    split at hs
    · cases hs
    · split at hs
      · cases hs; exact Or.inl ⟨rfl, rfl⟩
      · cases hs; exact Or.inr rfl
  | mark =>
    simp only [stepMark] at hs
    split at hs
    · cases hs; exact Or.inl ⟨rfl, rfl⟩
    · split at hs
      · cases hs; exact Or.inl ⟨rfl, rfl⟩
      · cases hs; exact Or.inr rfl
  | toggleDel => cases hs; exact Or.inr rfl
  | toggleDmn => cases hs; exact Or.inr rfl
  | write d m => cases hs; exact Or.inr rfl
  | handlerFinishes => cases hs; exact Or.inl ⟨rfl, rfl⟩
  | daemonExits o =>
    simp only at hs
    split at hs
    · cases hs; exact Or.inl ⟨rfl, rfl⟩
    · cases hs
  | restart => cases hs; exact Or.inl ⟨rfl, rfl⟩

def QOk (q : List Snap) (b : State) : Prop :=
  (∀ v ∈ q, v.rv ≤ b.rv ∧ (v.rv = b.rv → v = snap b)) ∧
  (q ≠ [] → ∃ l, q.getLast? = some l ∧ l.rv = b.rv)

theorem qok_same {q : List Snap} {a b : State} (h : QOk q a) (hrv : b.rv = a.rv) (hsn : snap b = snap a) : QOk q b := by
  obtain ⟨h1, h2⟩ := h
  refine ⟨fun v hv => ?_, fun hne => ?_⟩
  · rw [hrv, hsn]; exact h1 v hv
  · rw [hrv]; exact h2 hne

theorem qok_push {q : List Snap} {a b : State} (h : QOk q a) (hrv : b.rv = a.rv + 1) : QOk (q ++ [snap b]) b := by
  obtain ⟨h1, _⟩ := h
  refine ⟨fun v hv => ?_, fun _ => ⟨snap b, by simp, rfl⟩⟩
  rcases List.mem_append.mp hv with hv | hv
  · have := (h1 v hv).1
    exact ⟨by omega, fun he => by omega⟩
  · simp only [List.mem_singleton] at hv
    subst hv
    exact ⟨Nat.le_refl _, fun _ => rfl⟩

theorem qok_enqueue {own : String} {s : LState} {b : State} {l : Label} (h : QOk s.queue s.base)
    (hs : step own s.base l = some b) : QOk (enqueue s b) b := by
  unfold enqueue
  rcases step_frame hs with ⟨hrv, hsn⟩ | hrv
  · simp only [hrv, bne_self_eq_false, Bool.false_eq_true, if_false]
    exact qok_same h hrv hsn
  · have : (b.rv != s.base.rv) = true := by simp [hrv]
    simp only [this, if_true]
    exact qok_push h hrv

theorem enqueue_ne_nil_of_ne {s : LState} {b : State} (h : s.queue ≠ []) : enqueue s b ≠ [] := by
  unfold enqueue; split <;> simp [h]

theorem enqueue_ne_nil_of_bump {s : LState} {b : State} (h : b.rv ≠ s.base.rv) : enqueue s b ≠ [] := by
  unfold enqueue; simp [h]

structure LInv (own : String) (s : LState) : Prop where
  memNil : s.base.mem = []
  q : QOk s.queue s.base
  j1 : s.base.pending = none → Waiting own s.base → s.queue ≠ [] ∨ s.sleeping = true
  jr : ∀ p, s.base.pending = some p → s.cycViewRv ≤ p.rvTest ∧ p.rvTest ≤ s.base.rv ∧
        (p.merge = true → p.rvTest = s.cycViewRv) ∧ (s.base.rv = p.rvTest → p.view = s.base.fins)
  j3 : ∀ p, s.base.pending = some p → s.cycChanges = true → s.base.rv ≠ s.cycViewRv
  j4 : ∀ p, s.base.pending = some p → s.base.rv = s.cycViewRv →
        (Fn.block ∈ p.fns → own ∉ p.view) ∧ (Fn.allow ∈ p.fns → own ∈ p.view)
  j5 : ∀ p, s.base.pending = some p → s.base.rv ≠ s.cycViewRv → s.queue ≠ []
  j6 : ∀ p, s.base.pending = some p → p.fns = [] → s.cycDelays = false → Waiting own s.base → s.queue ≠ []

theorem linv_init {own : String} {s : LState} (h : LInit s) : LInv own s := by
  obtain ⟨hb, hq, _, _, _, _⟩ := h
  obtain ⟨_, _, _, _, _, hm, hp⟩ := hb
  constructor
  · exact hm
  · rw [hq]
    refine ⟨fun v hv => ?_, fun _ => ⟨snap s.base, by simp, rfl⟩⟩
    simp only [List.mem_singleton] at hv; subst hv
    exact ⟨Nat.le_refl _, fun _ => rfl⟩
  · intro _ _; left; rw [hq]; simp
  all_goals (intro p hp'; rw [hp] at hp'; cases hp')


theorem linv_decide {own : String} {s s' : LState} {e : Env} {v : Snap} (h : LInv own s)
    (hs : lstep own s (.base (.decide e v)) = some s') : LInv own s' := by
  obtain ⟨hm, hq, j1, jr, j3, j4, j5, j6⟩ := h
  simp only [lstep] at hs
  split at hs
  · cases hs
  next v' rest hqueue =>
  split at hs
  · cases hs
  next hhead =>
  split at hs
  · cases hs
  next hcons =>
  simp only [bne_iff_ne, ne_eq, Decidable.not_not] at hhead
  subst hhead
  cases hb : step own s.base (.decide e v') with
  | none => simp [hb] at hs
  | some b =>
    simp only [hb, Option.map_some, Option.some.injEq] at hs
    subst hs
    unfold step at hb
    split at hb
    · cases hb
    next hgone =>
    simp only [stepDecide] at hb
    split at hb
    · cases hb
    next hpend =>
    split at hb
    · cases hb
    next hguard =>
    cases hb
    simp only [Bool.or_eq_true, Bool.not_eq_true', decide_eq_false_iff_not, Bool.and_eq_true, beq_iff_eq,
      bne_iff_ne, ne_eq, not_or, Decidable.not_not, not_and] at hguard
    have hfns : s.base.mem ++ (decision (inputs own v' s.base e)).fns = (decision (inputs own v' s.base e)).fns := by
      rw [hm]; rfl
    have harm := arm_bool v'.matchDel v'.matchDmn s.base.delDone s.base.dmnLive s.base.dmnForever v'.marked
      (decide (own ∈ v'.fins)) e.consistent s.base.mem.isEmpty e.otherChanging e.otherDelays e.delReset
    rw [← inputs_eq] at harm
    obtain ⟨hq1, hq2⟩ := hq
    -- the rest of the queue is non-empty whenever the body is stale
    have hstale : s.base.rv ≠ v'.rv → rest ≠ [] := by
      intro hne hnil
      obtain ⟨l, hl, hlrv⟩ := hq2 (by rw [hqueue]; simp)
      rw [hqueue, hnil] at hl
      simp at hl
      subst hl
      exact hne hlrv.symm
    constructor
    · exact hm
    · refine ⟨fun w hw => ?_, fun hne => ?_⟩
      · exact hq1 w (by rw [hqueue]; exact List.mem_cons_of_mem _ hw)
      · obtain ⟨l, hl, hlrv⟩ := hq2 (by rw [hqueue]; simp)
        refine ⟨l, ?_, hlrv⟩
        rw [hqueue] at hl
        cases rest with
        | nil => exact absurd rfl hne
        | cons a t => simpa [List.getLast?_cons_cons] using hl
    · intro hp; simp at hp
    · intro p hp
      simp only [Option.some.injEq] at hp; subst hp
      refine ⟨Nat.le_refl _, hguard.1, fun _ => rfl, fun hrv => ?_⟩
      have := hguard.2 hrv.symm
      rw [this]; rfl
    · intro p _ hc; simp at hc
    · intro p hp _
      simp only [Option.some.injEq] at hp; subst hp
      simp only
      rw [hfns]
      refine ⟨?_, ?_⟩
      · intro hbl
        rw [block_mem_fns] at hbl
        have := (harm.1 hbl).2.1
        simpa using this
      · intro hal
        rw [allow_mem_fns] at hal
        have := (harm.2 hal).1
        simpa using this
    · intro p _ hrv
      exact hstale hrv
    · intro p hp hnil hdel hw
      simp only [Option.some.injEq] at hp; subst hp
      simp only at hnil hdel hw
      by_cases hfresh : s.base.rv = v'.rv
      · have hv : v' = snap s.base := hguard.2 hfresh.symm
        rw [hfns, fns_nil_iff] at hnil
        obtain ⟨hw1, hw2, hw3⟩ := hw
        have hearly := early_of_stuck v'.matchDel v'.matchDmn s.base.delDone s.base.dmnLive s.base.dmnForever
          e.consistent s.base.mem.isEmpty e.otherChanging e.otherDelays e.delReset
        have hin : inputs own v' s.base e = inputsB v'.matchDel v'.matchDmn s.base.delDone s.base.dmnLive s.base.dmnForever true true
            e.consistent s.base.mem.isEmpty e.otherChanging e.otherDelays e.delReset := by
          have hmk : v'.marked = true := by rw [hv]; exact hw2
          have hfi : decide (own ∈ v'.fins) = true := by rw [hv]; exact decide_eq_true hw3
          rw [inputs_eq, hmk, hfi]
        rw [hin] at hnil hdel
        have hc := hearly hnil.1 hnil.2.1 hnil.2.2 hdel
        rw [hm] at hc
        simp at hc
        intro hrest
        subst hrest
        simp [hc] at hcons
      · exact hstale hfresh
end Kopf.C06
