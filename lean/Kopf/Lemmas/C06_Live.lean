/-
  C06 helper lemmas for the wake-up layer (`LState`, `lstep`): the invariant "an object that waits for
  its release is never left without a trigger" and the undisturbed cycle at this level.
-/
import Kopf.Lemmas.C06_Inv
namespace Kopf.C06

theorem own_mem_applyFns_of_block (own : String) : ∀ (fns : List Fn) (l : List String),
    Fn.allow ∉ fns → Fn.block ∈ fns → own ∈ applyFns own fns l
  | [], _, _, h => by cases h
  | fn :: fns, l, hna, _ => by
    show own ∈ applyFns own fns (fn.apply own l)
    cases fn
    · exact mem_applyFns_of_no_allow own fns _ own (fun h => hna (List.mem_cons_of_mem _ h)) (own_mem_block own l)
    · exact absurd List.mem_cons_self hna

theorem own_not_mem_applyFns_of_allows (own : String) (fns : List Fn) (l : List String)
    (hnb : Fn.block ∉ fns) (hne : fns ≠ []) : own ∉ applyFns own fns l := by
  have hlast := List.dropLast_concat_getLast hne
  rw [← hlast]
  intro h
  have := (own_mem_applyFns_snoc own _ _ l).mp h
  have hm : fns.getLast hne ∈ fns := List.getLast_mem hne
  rw [this] at hm
  exact hnb hm

/-- Fns decided on the very list they are applied to always change it. -/
theorem fns_change (own : String) (fns : List Fn) (view : List String)
    (hb : Fn.block ∈ fns → own ∉ view) (ha : Fn.allow ∈ fns → own ∈ view) (hne : fns ≠ []) :
    applyFns own fns view ≠ view := by
  intro heq
  by_cases hblock : Fn.block ∈ fns
  · have hnv := hb hblock
    have hna : Fn.allow ∉ fns := fun h => hnv (ha h)
    have := own_mem_applyFns_of_block own fns view hna hblock
    rw [heq] at this
    exact hnv this
  · have hall : Fn.allow ∈ fns := by
      cases fns with
      | nil => exact absurd rfl hne
      | cons f t =>
        cases f
        · exact absurd List.mem_cons_self hblock
        · exact List.mem_cons_self
    have := own_not_mem_applyFns_of_allows own fns view hblock hne
    rw [heq] at this
    exact this (ha hall)

/-- A cycle that sees a waiting object, queues nothing and returns no delays has left early as inconsistent
while NO version was awaited — which the wake-up layer excludes. -/
theorem early_of_stuck : ∀ (matchDel matchDmn delDone dmnLive dmnForever cons memEmpty otherChanging otherDelays delReset waiting carried : Bool),
    let d := decision (withWait (inputsB matchDel matchDmn delDone dmnLive dmnForever true true cons memEmpty otherChanging otherDelays delReset) waiting carried)
    d.add = false → d.removeUnneeded = false → d.release = false → d.delays = false →
      (cons && memEmpty) = false ∧ waiting = false ∧ carried = false := by
  decide

theorem fns_nil_iff (d : Decision) : d.fns = [] ↔ d.add = false ∧ d.removeUnneeded = false ∧ d.release = false := by
  rcases d with ⟨a, r, l, h, dl⟩
  cases a <;> cases r <;> cases l <;> simp [Decision.fns]


/-- Every step either stores a new version (`rv + 1`) or leaves everything an event shows alone. -/
theorem step_frame {own : String} {s b : State} {l : Label} (hs : step own s l = some b) :
    (b.rv = s.rv ∧ snap b = snap s) ∨ b.rv = s.rv + 1 := by
  unfold step at hs
  split at hs
  · cases hs
  cases l with
  | decide e v =>
    simp only [stepDecide] at hs
    split at hs
    · cases hs
    · split at hs <;> cases hs
      exact Or.inl ⟨rfl, rfl⟩
  | mergePatch =>
    simp only [stepMerge] at hs
    split at hs
    · next p _ =>
      split at hs
      · cases hs
        cases hmc : p.mergeChanges
        · left; simp [snap]
        · right; simp
      · cases hs
    · cases hs
  | jsonPatch f =>
    simp only [stepJson] at hs
    split at hs
    · split at hs
      · cases hs
      · split at hs
        · cases hs; exact Or.inl ⟨rfl, rfl⟩
        · split at hs
          · cases hs; exact Or.inl ⟨rfl, rfl⟩
          · cases hs; exact Or.inr rfl
    · cases hs
  | editFins l' =>
    simp only [stepEditFins] at hs
    split at hs
    · cases hs
    · split at hs
      · cases hs; exact Or.inl ⟨rfl, rfl⟩
      · cases hs; exact Or.inr rfl
  | mark =>
    simp only [stepMark] at hs
    split at hs
    · cases hs; exact Or.inl ⟨rfl, rfl⟩
    · split at hs
      · cases hs; exact Or.inl ⟨rfl, rfl⟩
      · cases hs; exact Or.inr rfl
  | toggleDel => cases hs; exact Or.inr rfl
  | toggleDmn => cases hs; exact Or.inr rfl
  | write d m => cases hs; exact Or.inr rfl
  | handlerFinishes => cases hs; exact Or.inl ⟨rfl, rfl⟩
  | daemonExits o =>
    simp only at hs
    split at hs
    · cases hs; exact Or.inl ⟨rfl, rfl⟩
    · cases hs
  | restart => cases hs; exact Or.inl ⟨rfl, rfl⟩

def QOk (q : List Snap) (b : State) : Prop :=
  (∀ v ∈ q, v.rv ≤ b.rv ∧ (v.rv = b.rv → v = snap b)) ∧
  (q ≠ [] → ∃ l, q.getLast? = some l ∧ l.rv = b.rv)

theorem qok_same {q : List Snap} {a b : State} (h : QOk q a) (hrv : b.rv = a.rv) (hsn : snap b = snap a) : QOk q b := by
  obtain ⟨h1, h2⟩ := h
  refine ⟨fun v hv => ?_, fun hne => ?_⟩
  · rw [hrv, hsn]; exact h1 v hv
  · rw [hrv]; exact h2 hne

theorem qok_push {q : List Snap} {a b : State} (h : QOk q a) (hrv : b.rv = a.rv + 1) : QOk (q ++ [snap b]) b := by
  obtain ⟨h1, _⟩ := h
  refine ⟨fun v hv => ?_, fun _ => ⟨snap b, by simp, rfl⟩⟩
  rcases List.mem_append.mp hv with hv | hv
  · have := (h1 v hv).1
    exact ⟨by omega, fun he => by omega⟩
  · simp only [List.mem_singleton] at hv
    subst hv
    exact ⟨Nat.le_refl _, fun _ => rfl⟩

theorem qok_enqueue {own : String} {s : LState} {b : State} {l : Label} (h : QOk s.queue s.base)
    (hs : step own s.base l = some b) : QOk (enqueue s b) b := by
  unfold enqueue
  rcases step_frame hs with ⟨hrv, hsn⟩ | hrv
  · simp only [hrv, bne_self_eq_false, Bool.false_eq_true, if_false]
    exact qok_same h hrv hsn
  · have : (b.rv != s.base.rv) = true := by simp [hrv]
    simp only [this, if_true]
    exact qok_push h hrv

theorem enqueue_ne_nil_of_ne {s : LState} {b : State} (h : s.queue ≠ []) : enqueue s b ≠ [] := by
  unfold enqueue; split <;> simp [h]

theorem enqueue_ne_nil_of_bump {s : LState} {b : State} (h : b.rv ≠ s.base.rv) : enqueue s b ≠ [] := by
  unfold enqueue; simp [h]

structure LInv (own : String) (s : LState) : Prop where
  memNil : s.base.mem = []
  q : QOk s.queue s.base
  j1 : s.base.pending = none → Waiting own s.base → s.queue ≠ [] ∨ s.sleeping = true
  jr : ∀ p, s.base.pending = some p → s.cycViewRv ≤ p.rvTest ∧ p.rvTest ≤ s.base.rv ∧
        (p.merge = true → p.rvTest = s.cycViewRv) ∧ (s.base.rv = p.rvTest → p.view = s.base.fins)
  j3 : ∀ p, s.base.pending = some p → s.cycChanges = true → s.base.rv ≠ s.cycViewRv
  j4 : ∀ p, s.base.pending = some p → s.base.rv = s.cycViewRv →
        (Fn.block ∈ p.fns → own ∉ p.view) ∧ (Fn.allow ∈ p.fns → own ∈ p.view)
  j5 : ∀ p, s.base.pending = some p → s.base.rv ≠ s.cycViewRv → s.queue ≠ []
  j6 : ∀ p, s.base.pending = some p → p.fns = [] → s.cycDelays = false → Waiting own s.base → s.queue ≠ []

theorem linv_init {own : String} {s : LState} (h : LInit s) : LInv own s := by
  obtain ⟨hb, hq, _, _, _, _⟩ := h
  obtain ⟨_, _, _, _, _, hm, hp⟩ := hb
  constructor
  · exact hm
  · rw [hq]
    refine ⟨fun v hv => ?_, fun _ => ⟨snap s.base, by simp, rfl⟩⟩
    simp only [List.mem_singleton] at hv; subst hv
    exact ⟨Nat.le_refl _, fun _ => rfl⟩
  · intro _ _; left; rw [hq]; simp
  all_goals (intro p hp'; rw [hp] at hp'; cases hp')


theorem linv_decide {own : String} {s s' : LState} {e : Env} {v : Snap} (h : LInv own s)
    (hs : lstep own s (.base (.decide e v)) = some s') : LInv own s' := by
  obtain ⟨hm, hq, j1, jr, j3, j4, j5, j6⟩ := h
  simp only [lstep] at hs
  split at hs
  · cases hs
  next v' rest hqueue =>
  split at hs
  · cases hs
  next hhead =>
  split at hs
  · cases hs
  next hcons =>
  simp only [bne_iff_ne, ne_eq, Decidable.not_not] at hhead
  subst hhead
  cases hb : step own s.base (.decide e v') with
  | none => simp [hb] at hs
  | some b =>
    simp only [hb, Option.map_some, Option.some.injEq] at hs
    subst hs
    unfold step at hb
    split at hb
    · cases hb
    next hgone =>
    simp only [stepDecide] at hb
    split at hb
    · cases hb
    next hpend =>
    split at hb
    · cases hb
    next hguard =>
    cases hb
    simp only [Bool.or_eq_true, Bool.not_eq_true', decide_eq_false_iff_not, Bool.and_eq_true, beq_iff_eq,
      bne_iff_ne, ne_eq, not_or, Decidable.not_not, not_and] at hguard
    have hfns : s.base.mem ++ (decision (inputs own v' s.base e)).fns = (decision (inputs own v' s.base e)).fns := by
      rw [hm]; rfl
    have harm := arm_inputs own v' s.base e
    obtain ⟨hq1, hq2⟩ := hq
    -- the rest of the queue is non-empty whenever the body is stale
    have hstale : s.base.rv ≠ v'.rv → rest ≠ [] := by
      intro hne hnil
      obtain ⟨l, hl, hlrv⟩ := hq2 (by rw [hqueue]; simp)
      rw [hqueue, hnil] at hl
      simp at hl
      subst hl
      exact hne hlrv.symm
    constructor
    · exact hm
    · refine ⟨fun w hw => ?_, fun hne => ?_⟩
      · exact hq1 w (by rw [hqueue]; exact List.mem_cons_of_mem _ hw)
      · obtain ⟨l, hl, hlrv⟩ := hq2 (by rw [hqueue]; simp)
        refine ⟨l, ?_, hlrv⟩
        rw [hqueue] at hl
        cases rest with
        | nil => exact absurd rfl hne
        | cons a t => simpa [List.getLast?_cons_cons] using hl
    · intro hp; simp at hp
    · intro p hp
      simp only [Option.some.injEq] at hp; subst hp
      refine ⟨Nat.le_refl _, hguard.1, fun _ => rfl, fun hrv => ?_⟩
      have := hguard.2 hrv.symm
      rw [this]; rfl
    · intro p _ hc; simp at hc
    · intro p hp _
      simp only [Option.some.injEq] at hp; subst hp
      simp only
      rw [hfns]
      refine ⟨?_, ?_⟩
      · intro hbl
        rw [block_mem_fns] at hbl
        have := (harm.1 hbl).2.1
        simpa using this
      · intro hal
        rw [allow_mem_fns] at hal
        have := (harm.2 hal).1
        simpa using this
    · intro p _ hrv
      exact hstale hrv
    · intro p hp hnil hdel hw
      simp only [Option.some.injEq] at hp; subst hp
      simp only at hnil hdel hw
      by_cases hfresh : s.base.rv = v'.rv
      · have hv : v' = snap s.base := hguard.2 hfresh.symm
        rw [hfns, fns_nil_iff] at hnil
        obtain ⟨hw1, hw2, hw3⟩ := hw
        have hearly := early_of_stuck v'.matchDel v'.matchDmn s.base.delDone s.base.dmnLive s.base.dmnForever
          (e.consistent && !e.carried) s.base.mem.isEmpty e.otherChanging e.otherDelays e.delReset e.waiting (e.carried || !s.base.mem.isEmpty)
        have hin : inputs own v' s.base e = withWait (inputsB v'.matchDel v'.matchDmn s.base.delDone s.base.dmnLive s.base.dmnForever true true
            (e.consistent && !e.carried) s.base.mem.isEmpty e.otherChanging e.otherDelays e.delReset) e.waiting (e.carried || !s.base.mem.isEmpty) := by
          have hmk : v'.marked = true := by rw [hv]; exact hw2
          have hfi : decide (own ∈ v'.fins) = true := by rw [hv]; exact decide_eq_true hw3
          rw [inputs_eq, hmk, hfi]
        rw [hin] at hnil hdel
        obtain ⟨hc, hwt, hcr⟩ := hearly hnil.1 hnil.2.1 hnil.2.2 hdel
        rw [hm] at hc hcr
        simp at hc hcr
        simp [hcr] at hc
        simp [hc, hwt, hcr] at hcons
      · exact hstale hfresh

theorem linv_merge {own : String} {s s' : LState} (h : LInv own s)
    (hs : lstep own s (.base .mergePatch) = some s') : LInv own s' := by
  obtain ⟨hm, hq, j1, jr, j3, j4, j5, j6⟩ := h
  simp only [lstep] at hs
  cases hb : step own s.base .mergePatch with
  | none => simp [hb] at hs
  | some b =>
    simp only [hb, Option.map_some, Option.some.injEq] at hs
    subst hs
    have hq' := qok_enqueue (l := .mergePatch) hq hb
    unfold step at hb
    split at hb
    · cases hb
    simp only [stepMerge] at hb
    split at hb
    · next p hp =>
      split at hb
      · next hmerge =>
        obtain ⟨hr1, hr2, hr3, hr4⟩ := jr p hp
        have hvr : p.rvTest = s.cycViewRv := hr3 hmerge
        cases hmc : p.mergeChanges
        · -- the merge patch changes nothing
          simp only [hmc, Bool.false_eq_true, if_false] at hb
          cases hb
          constructor
          · exact hm
          · exact hq'
          · intro hp'; simp at hp'
          · intro p' hp'
            simp only [Option.some.injEq] at hp'; subst hp'
            exact ⟨by simp only; omega, Nat.le_refl _, fun h => by simp at h, fun _ => rfl⟩
          · intro p' _ hc
            simpa using hc
          · intro p' hp' hrv
            simp only [Option.some.injEq] at hp'; subst hp'
            simp only at hrv ⊢
            have hview : p.view = s.base.fins := hr4 (by omega)
            rw [← hview]
            exact j4 p hp hrv
          · intro p' _ hrv
            simp only at hrv
            exact enqueue_ne_nil_of_ne (j5 p hp hrv)
          · intro p' hp' hnil hd hw
            simp only [Option.some.injEq] at hp'; subst hp'
            exact enqueue_ne_nil_of_ne (j6 p hp hnil hd hw)
        · simp only [hmc, if_true] at hb
          cases hb
          have hbump : s.base.rv + 1 ≠ s.base.rv := by omega
          constructor
          · exact hm
          · exact hq'
          · intro hp'; simp at hp'
          · intro p' hp'
            simp only [Option.some.injEq] at hp'; subst hp'
            exact ⟨by simp only; omega, Nat.le_refl _, fun h => by simp at h, fun _ => rfl⟩
          · intro p' _ _
            simp only; omega
          · intro p' _ hrv
            simp only at hrv; omega
          · intro p' _ _
            exact enqueue_ne_nil_of_bump hbump
          · intro p' _ _ _ _
            exact enqueue_ne_nil_of_bump hbump
      · cases hb
    · cases hb

theorem linv_touch {own : String} {s s' : LState} (h : LInv own s)
    (hs : lstep own s .touch = some s') : LInv own s' := by
  obtain ⟨hm, hq, j1, jr, j3, j4, j5, j6⟩ := h
  simp only [lstep] at hs
  split at hs
  · next hc =>
    simp only [Bool.and_eq_true, Option.isNone_iff_eq_none] at hc
    have hp := hc.2
    cases hb : step own s.base (.write s.base.matchDel s.base.matchDmn) with
    | none => simp [hb] at hs
    | some b =>
      simp only [hb, Option.map_some, Option.some.injEq] at hs
      subst hs
      unfold step at hb
      split at hb
      · cases hb
      cases hb
      constructor
      · exact hm
      · exact qok_push hq rfl
      · intro _ _; left; simp
      all_goals (intro p hp'; simp only at hp'; rw [hp] at hp'; cases hp')
  · cases hs

theorem linv_restart {own : String} {s s' : LState} (_h : LInv own s)
    (hs : lstep own s (.base .restart) = some s') : LInv own s' := by
  simp only [lstep] at hs
  cases hb : step own s.base .restart with
  | none => simp [hb] at hs
  | some b =>
    simp only [hb, Option.map_some, Option.some.injEq] at hs
    subst hs
    unfold step at hb
    split at hb
    · cases hb
    cases hb
    constructor
    · rfl
    · refine ⟨fun v hv => ?_, fun _ => ⟨snap { s.base with mem := [], pending := none, dmnLive := false, dmnForever := false }, rfl, rfl⟩⟩
      simp only [List.mem_singleton] at hv; subst hv
      exact ⟨Nat.le_refl _, fun _ => rfl⟩
    · intro _ _; left; simp
    all_goals (intro p hp'; simp at hp')


def Label.isForeign : Label → Bool
  | .editFins _ | .mark | .toggleDel | .toggleDmn | .write _ _ | .handlerFinishes | .daemonExits _ => true
  | _ => false

theorem foreign_step_frame {own : String} {b0 b : State} {l : Label} (hl : l.isForeign = true)
    (hs : step own b0 l = some b) :
    b.pending = b0.pending ∧ b.mem = b0.mem ∧
    (b.rv = b0.rv → Waiting own b → Waiting own b0) ∧ (b.rv = b0.rv → b.fins = b0.fins) := by
  unfold step at hs
  split at hs
  · cases hs
  cases l with
  | editFins l' =>
    simp only [stepEditFins] at hs
    split at hs
    · cases hs
    · split at hs
      · cases hs; exact ⟨rfl, rfl, fun _ h => h, fun _ => rfl⟩
      · cases hs; exact ⟨rfl, rfl, fun h _ => by simp at h, fun h => by simp at h⟩
  | mark =>
    simp only [stepMark] at hs
    split at hs
    · cases hs; exact ⟨rfl, rfl, fun _ h => h, fun _ => rfl⟩
    · split at hs
      · cases hs; refine ⟨rfl, rfl, fun _ h => ?_, fun _ => rfl⟩
        obtain ⟨h1, _, _⟩ := h; simp at h1
      · cases hs; exact ⟨rfl, rfl, fun h _ => by simp at h, fun h => by simp at h⟩
  | toggleDel => cases hs; exact ⟨rfl, rfl, fun h _ => by simp at h, fun h => by simp at h⟩
  | toggleDmn => cases hs; exact ⟨rfl, rfl, fun h _ => by simp at h, fun h => by simp at h⟩
  | write d m => cases hs; exact ⟨rfl, rfl, fun h _ => by simp at h, fun h => by simp at h⟩
  | handlerFinishes => cases hs; exact ⟨rfl, rfl, fun _ h => h, fun _ => rfl⟩
  | daemonExits o =>
    simp only at hs
    split at hs
    · cases hs; exact ⟨rfl, rfl, fun _ h => h, fun _ => rfl⟩
    · cases hs
  | decide e v => cases hl
  | mergePatch => cases hl
  | jsonPatch f => cases hl
  | restart => cases hl

theorem lstep_foreign {own : String} {s s' : LState} {l : Label} (hl : l.isForeign = true)
    (hs : lstep own s (.base l) = some s') :
    ∃ b, step own s.base l = some b ∧ s' = { s with base := b, queue := enqueue s b } := by
  have key : ∀ (o : Option State), o = step own s.base l →
      (o.map fun b => ({ s with base := b, queue := enqueue s b } : LState)) = some s' →
      ∃ b, step own s.base l = some b ∧ s' = { s with base := b, queue := enqueue s b } := by
    intro o ho hm
    cases o with
    | none => simp at hm
    | some b => simp only [Option.map_some, Option.some.injEq] at hm; exact ⟨b, ho.symm, hm.symm⟩
  cases l with
  | editFins l' => exact key _ rfl hs
  | mark => exact key _ rfl hs
  | toggleDel => exact key _ rfl hs
  | toggleDmn => exact key _ rfl hs
  | write d m => exact key _ rfl hs
  | handlerFinishes => exact key _ rfl hs
  | daemonExits o => exact key _ rfl hs
  | decide e v => cases hl
  | mergePatch => cases hl
  | jsonPatch f => cases hl
  | restart => cases hl

theorem linv_foreign {own : String} {s s' : LState} {l : Label} (h : LInv own s) (hl : l.isForeign = true)
    (hs : lstep own s (.base l) = some s') : LInv own s' := by
  obtain ⟨hm, hq, j1, jr, j3, j4, j5, j6⟩ := h
  obtain ⟨b, hb, rfl⟩ := lstep_foreign hl hs
  obtain ⟨hp, hmem, hw, hfin⟩ := foreign_step_frame hl hb
  have hq' := qok_enqueue hq hb
  have hrv : b.rv = s.base.rv ∨ b.rv = s.base.rv + 1 := by
    rcases step_frame hb with ⟨h, _⟩ | h
    · exact Or.inl h
    · exact Or.inr h
  constructor
  · show b.mem = []; rw [hmem]; exact hm
  · exact hq'
  · intro hpn hwait
    by_cases hr : b.rv = s.base.rv
    · rcases j1 (hp ▸ hpn) (hw hr hwait) with h1 | h1
      · exact Or.inl (enqueue_ne_nil_of_ne h1)
      · exact Or.inr h1
    · exact Or.inl (enqueue_ne_nil_of_bump hr)
  · intro p hpp
    obtain ⟨a1, a2, a3, a4⟩ := jr p (hp ▸ hpp)
    refine ⟨a1, by rcases hrv with h | h <;> (simp only; omega), a3, fun he => ?_⟩
    simp only at he ⊢
    rcases hrv with h | h
    · rw [hfin h]; exact a4 (by omega)
    · omega
  · intro p hpp hc
    have := j3 p (hp ▸ hpp) hc
    obtain ⟨a1, a2, _, _⟩ := jr p (hp ▸ hpp)
    simp only
    rcases hrv with h | h <;> omega
  · intro p hpp he
    simp only at he
    obtain ⟨a1, a2, _, _⟩ := jr p (hp ▸ hpp)
    rcases hrv with h | h
    · exact j4 p (hp ▸ hpp) (by omega)
    · omega
  · intro p hpp hne
    simp only at hne
    by_cases hr : b.rv = s.base.rv
    · exact enqueue_ne_nil_of_ne (j5 p (hp ▸ hpp) (by rw [← hr]; exact hne))
    · exact enqueue_ne_nil_of_bump hr
  · intro p hpp hnil hd hwait
    by_cases hr : b.rv = s.base.rv
    · exact enqueue_ne_nil_of_ne (j6 p (hp ▸ hpp) hnil hd (hw hr hwait))
    · exact enqueue_ne_nil_of_bump hr

theorem linv_json {own : String} {s s' : LState} {f : Bool} (h : LInv own s) (hg : LGuard (.base (.jsonPatch f)))
    (hs : lstep own s (.base (.jsonPatch f)) = some s') : LInv own s' := by
  obtain ⟨hm, hq, j1, jr, j3, j4, j5, j6⟩ := h
  have hf : f = false := hg
  subst hf
  simp only [lstep] at hs
  cases hb : step own s.base (.jsonPatch false) with
  | none => simp [hb] at hs
  | some b =>
    simp only [hb, Option.map_some, Option.some.injEq] at hs
    have hq' := qok_enqueue (l := .jsonPatch false) hq hb
    unfold step at hb
    split at hb
    · cases hb
    simp only [stepJson] at hb
    split at hb
    · next p hp =>
      split at hb
      · cases hb
      next hmerge =>
      simp only [Bool.not_eq_true] at hmerge
      obtain ⟨hr1, hr2, _, hr4⟩ := jr p hp
      split at hb
      · -- no ops
        next hnoop =>
        cases hb
        simp only [bne_self_eq_false, Bool.false_eq_true, if_false, hp] at hs
        subst hs
        constructor
        · rfl
        · exact qok_same hq rfl rfl
        · intro _ hw
          show s.queue ≠ [] ∨ sleepsAfter s.cycDelays (changedUnwritten s.cycMerge s.cycChanges (applyFns own p.fns p.view != p.view)) = true
          by_cases hfresh : s.base.rv = s.cycViewRv
          · obtain ⟨h4b, h4a⟩ := j4 p hp hfresh
            by_cases hnil : p.fns = []
            · cases hcd : s.cycDelays
              · exact Or.inl (j6 p hp hnil hcd hw)
              · have hcc : s.cycChanges = false := by
                  cases hc : s.cycChanges
                  · rfl
                  · exact absurd hfresh (j3 p hp hc)
                right
                cases hcm : s.cycMerge <;> simp [sleepsAfter, changedUnwritten, hnoop, hcc]
            · exact absurd hnoop (fns_change own p.fns p.view h4b h4a hnil)
          · exact Or.inl (j5 p hp hfresh)
        all_goals (intro p' hp'; simp at hp')
      · split at hb
        · -- rejected
          next hrej =>
          cases hb
          simp only [bne_self_eq_false, Bool.false_eq_true, if_false, hp] at hs
          subst hs
          simp only [Bool.false_or, bne_iff_ne, ne_eq] at hrej
          constructor
          · exact carry_nil _
          · exact qok_same hq rfl rfl
          · intro _ _
            left
            show s.queue ≠ []
            exact j5 p hp (by omega)
          all_goals (intro p' hp'; simp at hp')
        · -- accepted
          cases hb
          have hbump : (s.base.rv + 1 != s.base.rv) = true := by simp
          simp only [hbump, if_true] at hs
          subst hs
          constructor
          · rfl
          · exact hq'
          · intro _ _; left
            exact enqueue_ne_nil_of_bump (by simp)
          all_goals (intro p' hp'; simp at hp')
    · cases hb

theorem linv_step {own : String} {s s' : LState} {l : LLabel} (h : LInv own s) (hg : LGuard l)
    (hs : lstep own s l = some s') : LInv own s' := by
  cases l with
  | touch => exact linv_touch h hs
  | base bl =>
    cases bl with
    | decide e v => exact linv_decide h hs
    | mergePatch => exact linv_merge h hs
    | jsonPatch f => exact linv_json h hg hs
    | restart => exact linv_restart h hs
    | editFins x => exact linv_foreign h rfl hs
    | mark => exact linv_foreign h rfl hs
    | toggleDel => exact linv_foreign h rfl hs
    | toggleDmn => exact linv_foreign h rfl hs
    | write d m => exact linv_foreign h rfl hs
    | handlerFinishes => exact linv_foreign h rfl hs
    | daemonExits o => exact linv_foreign h rfl hs

theorem linv_reach {own : String} {s : LState} (h : LReachG own s) : LInv own s := by
  induction h with
  | init hi => exact linv_init hi
  | step _ hg hs ih => exact linv_step ih hg hs


/-- Every step of the wake-up layer is a step of the base LTS. -/
theorem lstep_base {own : String} {s s' : LState} {l : LLabel} (hs : lstep own s l = some s') :
    ∃ bl, step own s.base bl = some s'.base := by
  cases l with
  | touch =>
    simp only [lstep] at hs
    split at hs
    · cases hb : step own s.base (.write s.base.matchDel s.base.matchDmn) with
      | none => simp [hb] at hs
      | some b =>
        simp only [hb, Option.map_some, Option.some.injEq] at hs
        subst hs
        exact ⟨_, hb⟩
    · cases hs
  | base bl =>
    refine ⟨bl, ?_⟩
    cases bl with
    | decide e v =>
      simp only [lstep] at hs
      split at hs
      · cases hs
      · split at hs
        · cases hs
        · split at hs
          · cases hs
          · cases hb : step own s.base (.decide e v) with
            | none => simp [hb] at hs
            | some b => simp only [hb, Option.map_some, Option.some.injEq] at hs; subst hs; rfl
    | jsonPatch f =>
      simp only [lstep] at hs
      cases hb : step own s.base (.jsonPatch f) with
      | none => simp [hb] at hs
      | some b =>
        simp only [hb, Option.map_some, Option.some.injEq] at hs
        split at hs <;> (subst hs; rfl)
    | mergePatch =>
      simp only [lstep] at hs
      cases hb : step own s.base .mergePatch with
      | none => simp [hb] at hs
      | some b => simp only [hb, Option.map_some, Option.some.injEq] at hs; subst hs; rfl
    | restart =>
      simp only [lstep] at hs
      cases hb : step own s.base .restart with
      | none => simp [hb] at hs
      | some b => simp only [hb, Option.map_some, Option.some.injEq] at hs; subst hs; rfl
    | editFins x => obtain ⟨b, hb, rfl⟩ := lstep_foreign (l := .editFins x) rfl hs; exact hb
    | mark => obtain ⟨b, hb, rfl⟩ := lstep_foreign (l := .mark) rfl hs; exact hb
    | toggleDel => obtain ⟨b, hb, rfl⟩ := lstep_foreign (l := .toggleDel) rfl hs; exact hb
    | toggleDmn => obtain ⟨b, hb, rfl⟩ := lstep_foreign (l := .toggleDmn) rfl hs; exact hb
    | write d m => obtain ⟨b, hb, rfl⟩ := lstep_foreign (l := .write d m) rfl hs; exact hb
    | handlerFinishes => obtain ⟨b, hb, rfl⟩ := lstep_foreign (l := .handlerFinishes) rfl hs; exact hb
    | daemonExits o => obtain ⟨b, hb, rfl⟩ := lstep_foreign (l := .daemonExits o) rfl hs; exact hb

theorem lreach_base {own : String} {s : LState} (h : LReach own s) : Reach own s.base := by
  induction h with
  | init hi => exact Reach.init hi.1
  | step _ hs ih =>
    obtain ⟨bl, h⟩ := lstep_base hs
    exact Reach.step ih h

theorem lreach_of_lreachG {own : String} {s : LState} (h : LReachG own s) : LReach own s := by
  induction h with
  | init hi => exact LReach.init hi
  | step _ _ hs ih => exact LReach.step ih hs

/-! ## Progress from a waiting, settled object -/

/-- The part of the state that decides whether the finalizer is still needed. -/
def SameReq (a b : State) : Prop :=
  b.marked = a.marked ∧ b.matchDel = a.matchDel ∧ b.delDone = a.delDone ∧ b.dmnLive = a.dmnLive

theorem settled_of_sameReq {a b : State} (h : SameReq a b) (hs : Settled a) : Settled b := by
  obtain ⟨_, h2, h3, h4⟩ := h
  exact ⟨fun hm => by rw [h3]; exact hs.1 (h2 ▸ hm), by rw [h4]; exact hs.2⟩

theorem afterCycle_released (own : String) (s : State) (e : Env) (hmem : s.mem = [])
    (hm : s.marked = true) (hown : own ∈ s.fins) (hset : Settled s)
    (hc : e.consistent = true) (hcr : e.carried = false) (hod : e.otherDelays = false) (hdr : e.delReset = false) :
    own ∉ (afterCycle own s e).fins ∧ (afterCycle own s e).mem = [] ∧ (afterCycle own s e).pending = none ∧
    ((afterCycle own s e).fins = [] → (afterCycle own s e).gone = true) := by
  have hb := release_bool s.matchDel s.matchDmn s.delDone s.dmnForever e.otherChanging hset.1
  have hin : inputs own (snap s) s e = withWait (inputsB s.matchDel s.matchDmn s.delDone false s.dmnForever true true true true e.otherChanging false false) e.waiting false := by
    rw [inputs_eq, hset.2, hc, hod, hdr, hmem, hcr]; simp [hown, hm]
  obtain ⟨pre, hpre⟩ := fns_snoc_allow _ hb.1 hb.2
  have htarget : own ∉ applyFns own (s.mem ++ (decision (inputs own (snap s) s e)).fns) s.fins := by
    rw [hin, dw_fns, hpre, ← List.append_assoc]
    intro hmem'
    have := (own_mem_applyFns_snoc own _ Fn.allow s.fins).mp hmem'
    cases this
  have hne : applyFns own (s.mem ++ (decision (inputs own (snap s) s e)).fns) s.fins ≠ s.fins := by
    intro heq; rw [heq] at htarget; exact htarget hown
  simp only [afterCycle, hne, if_false]
  refine ⟨htarget, trivial, trivial, ?_⟩
  intro hnil
  simp [hm, hnil]


theorem lrun_append (own : String) : ∀ (a b : List LLabel) (s : LState),
    lrun own s (a ++ b) = (lrun own s a).bind (fun s' => lrun own s' b)
  | [], b, s => by simp [lrun]
  | l :: a, b, s => by
    simp only [List.cons_append, lrun]
    cases lstep own s l with
    | none => simp
    | some s1 => simp [lrun_append own a b s1]

/-- One quiet cycle on the oldest queued event `v` (idle worker). Its base effect is that of the base LTS's
`decide quiet v; jsonPatch` and the event is consumed. -/
theorem lcycle_on_head (own : String) (s : LState) (v : Snap) (rest : List Snap) (hq : s.queue = v :: rest)
    (b1 b2 : State) (h1 : step own s.base (.decide quiet v) = some b1) (h2 : step own b1 (.jsonPatch false) = some b2) :
    ∃ s', lrun own s [.base (.decide quiet v), .base (.jsonPatch false)] = some s' ∧ s'.base = b2 ∧
      (b2.rv = b1.rv → s'.queue = rest) := by
  simp only [lrun, lstep, hq, bne_self_eq_false, Bool.false_eq_true, if_false, quiet, Bool.not_true, Bool.false_and] at *
  simp only [h1, Option.map_some, Option.bind_some, h2]
  split
  · next hne => exact ⟨_, rfl, rfl, fun he => by simp [he] at hne⟩
  · exact ⟨_, rfl, rfl, fun _ => rfl⟩

/-- The merge patch of the cycle in flight can always be sent. -/
theorem lstep_merge_enabled {own : String} {s : LState} {p : Pending} (hg : s.base.gone = false)
    (hp : s.base.pending = some p) (hm : p.merge = true) :
    ∃ s1, lstep own s (.base .mergePatch) = some s1 ∧ SameReq s.base s1.base ∧ s1.base.gone = false ∧
      s1.base.fins = s.base.fins ∧ ∃ p1, s1.base.pending = some p1 ∧ p1.merge = false := by
  simp only [lstep, step, hg, stepMerge, hp, hm, if_true, Bool.false_eq_true, if_false, Option.map_some]
  exact ⟨_, rfl, ⟨rfl, rfl, rfl, rfl⟩, rfl, rfl, _, rfl, rfl⟩

/-- … and so can its JSON patch; afterwards no cycle is in flight, and the object is gone only if
the own finalizer is. -/
theorem lstep_json_enabled {own : String} {s : LState} {p : Pending} (hg : s.base.gone = false)
    (hp : s.base.pending = some p) (hm : p.merge = false) :
    ∃ s2, lstep own s (.base (.jsonPatch false)) = some s2 ∧ SameReq s.base s2.base ∧
      s2.base.pending = none ∧ (own ∈ s2.base.fins → s2.base.gone = false) := by
  simp only [lstep, step, hg, stepJson, hp, hm, Bool.false_eq_true, if_false, Bool.false_or]
  split
  · simp only [Option.map_some, bne_self_eq_false, Bool.false_eq_true, if_false]
    exact ⟨_, rfl, ⟨rfl, rfl, rfl, rfl⟩, rfl, fun _ => rfl⟩
  · split
    · simp only [Option.map_some, bne_self_eq_false, Bool.false_eq_true, if_false]
      exact ⟨_, rfl, ⟨rfl, rfl, rfl, rfl⟩, rfl, fun _ => rfl⟩
    · have : (s.base.rv + 1 != s.base.rv) = true := by simp
      simp only [Option.map_some, this, if_true]
      refine ⟨_, rfl, ⟨rfl, rfl, rfl, rfl⟩, rfl, ?_⟩
      intro hown
      simp only at hown ⊢
      cases htn : applyFns own p.fns p.view with
      | nil => rw [htn] at hown; cases hown
      | cons a t => simp

theorem step_decide_eq {own : String} {b b1 : State} {e : Env} {v : Snap} (h : step own b (.decide e v) = some b1) :
    b1 = { b with dmnLive := b.dmnLive || (!v.marked && v.matchDmn && !b.dmnForever),
                  delDone := if (decision (inputs own v b e)).handlersRun then b.delDone && !e.delReset else b.delDone,
                  pending := some { fns := b.mem ++ (decision (inputs own v b e)).fns, rvTest := v.rv, view := v.fins,
                                    merge := e.merge, mergeChanges := e.mergeChanges } } := by
  unfold step at h
  split at h
  · cases h
  simp only [stepDecide] at h
  split at h
  · cases h
  · split at h <;> cases h
    rfl

theorem step_decide_enabled (own : String) (b : State) (e : Env) (v : Snap) (hg : b.gone = false) (hp : b.pending = none)
    (hle : v.rv ≤ b.rv) (heq : v.rv = b.rv → v = snap b) : ∃ b1, step own b (.decide e v) = some b1 := by
  have hguard : (!(decide (v.rv ≤ b.rv)) || (v.rv == b.rv && v != snap b)) = false := by
    simp only [Bool.or_eq_false_iff, Bool.not_eq_false', decide_eq_true_eq, Bool.and_eq_false_iff, beq_eq_false_iff_ne,
      ne_eq, bne_eq_false_iff_eq]
    refine ⟨hle, ?_⟩
    by_cases h : v.rv = b.rv
    · exact Or.inr (heq h)
    · exact Or.inl h
  simp only [step, hg, Bool.false_eq_true, if_false, stepDecide, hp, Option.isSome_none, hguard]
  exact ⟨_, rfl⟩

/-- The base effect of a quiet cycle on a MARKED body (fresh or stale): the finalizer goes, or nothing
that matters changes. -/
theorem quiet_cycle_on_marked (own : String) (b : State) (v : Snap) (hg : b.gone = false) (hp : b.pending = none)
    (hvm : v.marked = true) (hle : v.rv ≤ b.rv) (heq : v.rv = b.rv → v = snap b) :
    ∃ b1 b2, step own b (.decide quiet v) = some b1 ∧ step own b1 (.jsonPatch false) = some b2 ∧ b1.rv = b.rv ∧
      ((v.rv ≠ b.rv ∧ b2.rv = b1.rv ∧ b2.fins = b.fins ∧ b2.gone = false ∧ SameReq b b2 ∧ b2.pending = none ∧ b2.mem = []) ∨
       (v = snap b ∧ b2 = afterCycle own b quiet)) := by
  obtain ⟨b1, hb1⟩ := step_decide_enabled own b quiet v hg hp hle heq
  have hb1eq := step_decide_eq hb1
  by_cases hfresh : v.rv = b.rv
  · have hv := heq hfresh
    subst hv
    have hrun := cycle_run own b quiet hg hp
    have hl : cycleLabels b quiet = [.decide quiet (snap b), .jsonPatch false] := rfl
    rw [hl] at hrun
    simp only [run, hb1, Option.bind_some] at hrun
    cases hb2 : step own b1 (.jsonPatch false) with
    | none => simp [hb2] at hrun
    | some b2 =>
      simp only [hb2, Option.bind_some, Option.some.injEq] at hrun
      exact ⟨b1, b2, hb1, hb2, by rw [hb1eq], Or.inr ⟨rfl, hrun⟩⟩
  · have hdone : (if (decision (inputs own v b quiet)).handlersRun then b.delDone && !quiet.delReset else b.delDone) = b.delDone := by
      split <;> simp [quiet]
    have hlive : (b.dmnLive || (!v.marked && v.matchDmn && !b.dmnForever)) = b.dmnLive := by simp [hvm]
    rw [hdone, hlive] at hb1eq
    subst hb1eq
    have hne : (b.rv != v.rv) = true := by
      simp only [bne_iff_ne, ne_eq]; exact fun h => hfresh h.symm
    refine ⟨_, { b with pending := none, mem := [] }, hb1, ?_, rfl, Or.inl ⟨hfresh, rfl, rfl, hg, ⟨rfl, rfl, rfl, rfl⟩, rfl, rfl⟩⟩
    simp only [step, hg, Bool.false_eq_true, if_false, stepJson, quiet, Bool.false_or, hne, if_true, carry_nil]
    split <;> simp


theorem linv_lrun {own : String} : ∀ (ls : List LLabel) {s s' : LState}, LInv own s → (∀ l ∈ ls, LGuard l) →
    lrun own s ls = some s' → LInv own s'
  | [], s, s', h, _, hr => by simp [lrun] at hr; subst hr; exact h
  | l :: ls, s, s', h, hg, hr => by
    simp only [lrun] at hr
    cases hst : lstep own s l with
    | none => simp [hst] at hr
    | some s1 =>
      simp [hst] at hr
      exact linv_lrun ls (linv_step h (hg l List.mem_cons_self) hst) (fun l' hl' => hg l' (List.mem_cons_of_mem _ hl')) hr

/-- Draining the queue: an idle worker with `n ≥ 1` queued events, all of them showing the object marked,
on a waiting and settled object: quiet cycles on the stale events change nothing, the cycle on the current
one releases. -/
theorem drain (own : String) : ∀ (n : Nat) (s : LState), LInv own s → s.base.pending = none →
    Waiting own s.base → Settled s.base → (∀ v ∈ s.queue, v.marked = true) → s.queue.length = n + 1 →
    ∃ ls s', ls.length ≤ 2 * (n + 1) ∧ (∀ l ∈ ls, LLabel.isOperator l = true) ∧ lrun own s ls = some s' ∧
      own ∉ s'.base.fins := by
  intro n
  induction n with
  | zero =>
    intro s hI hp hw hset hmk hlen
    obtain ⟨v, rest, hq⟩ : ∃ v rest, s.queue = v :: rest := by
      cases hqq : s.queue with
      | nil => rw [hqq] at hlen; simp at hlen
      | cons v rest => exact ⟨v, rest, rfl⟩
    have hrest : rest = [] := by rw [hq] at hlen; simpa using hlen
    have hv := hI.q.1 v (by rw [hq]; simp)
    obtain ⟨b1, b2, h1, h2, hb1rv, hcase⟩ := quiet_cycle_on_marked own s.base v hw.1 hp (hmk v (by rw [hq]; simp)) hv.1 hv.2
    obtain ⟨s', hrun, hbase, _⟩ := lcycle_on_head own s v rest hq b1 b2 h1 h2
    rcases hcase with ⟨hst, _⟩ | ⟨_, hb2⟩
    · exfalso
      obtain ⟨l, hl, hlrv⟩ := hI.q.2 (by rw [hq]; simp)
      rw [hq, hrest] at hl
      simp at hl
      subst hl
      exact hst hlrv
    · refine ⟨_, s', by simp, by simp [LLabel.isOperator], hrun, ?_⟩
      rw [hbase, hb2]
      exact (afterCycle_released own s.base quiet hI.memNil hw.2.1 hw.2.2 hset rfl rfl rfl rfl).1
  | succ n ih =>
    intro s hI hp hw hset hmk hlen
    obtain ⟨v, rest, hq⟩ : ∃ v rest, s.queue = v :: rest := by
      cases hqq : s.queue with
      | nil => rw [hqq] at hlen; simp at hlen
      | cons v rest => exact ⟨v, rest, rfl⟩
    have hrlen : rest.length = n + 1 := by rw [hq] at hlen; simpa using hlen
    have hv := hI.q.1 v (by rw [hq]; simp)
    obtain ⟨b1, b2, h1, h2, hb1rv, hcase⟩ := quiet_cycle_on_marked own s.base v hw.1 hp (hmk v (by rw [hq]; simp)) hv.1 hv.2
    obtain ⟨s', hrun, hbase, hqueue⟩ := lcycle_on_head own s v rest hq b1 b2 h1 h2
    rcases hcase with ⟨_, hrv2, hfins, hgone, hreq, hp2, _⟩ | ⟨_, hb2⟩
    · have hI' : LInv own s' := linv_lrun _ hI (by
        intro l hl
        simp only [List.mem_cons, List.mem_nil_iff, or_false] at hl
        rcases hl with rfl | rfl
        · trivial
        · rfl) hrun
      have hw' : Waiting own s'.base := by
        rw [hbase]; exact ⟨hgone, by rw [hreq.1]; exact hw.2.1, by rw [hfins]; exact hw.2.2⟩
      have hset' : Settled s'.base := by rw [hbase]; exact settled_of_sameReq hreq hset
      have hq' : s'.queue = rest := hqueue hrv2
      obtain ⟨ls, s'', hlen', hop, hrun', hrel⟩ := ih s' hI' (by rw [hbase]; exact hp2) hw' hset'
        (by intro w hw2; rw [hq'] at hw2; exact hmk w (by rw [hq]; exact List.mem_cons_of_mem _ hw2))
        (by rw [hq']; exact hrlen)
      refine ⟨[.base (.decide quiet v), .base (.jsonPatch false)] ++ ls, s'', by simp; omega, ?_, ?_, hrel⟩
      · intro l hl
        rcases List.mem_append.mp hl with hl | hl
        · simp only [List.mem_cons, List.mem_nil_iff, or_false] at hl
          rcases hl with rfl | rfl <;> rfl
        · exact hop l hl
      · rw [lrun_append, hrun]; exact hrun'
    · refine ⟨_, s', by simp; omega, by simp [LLabel.isOperator], hrun, ?_⟩
      rw [hbase, hb2]
      exact (afterCycle_released own s.base quiet hI.memNil hw.2.1 hw.2.2 hset rfl rfl rfl rfl).1


theorem enqueue_grow (t : LState) (b : State) :
    (enqueue t b).length ≤ t.queue.length + 1 ∧ ∀ v ∈ enqueue t b, v ∈ t.queue ∨ v = snap b := by
  unfold enqueue
  split
  · exact ⟨by simp, fun v hv => by
      rcases List.mem_append.mp hv with hv | hv
      · exact Or.inl hv
      · exact Or.inr (by simpa using hv)⟩
  · exact ⟨by omega, fun v hv => Or.inl hv⟩

/-- The requests of the cycle in flight add at most one event: the new version they store. -/
theorem request_queue_grow {own : String} {t t' : LState} {l : Label} (hl : l = .mergePatch ∨ ∃ f, l = .jsonPatch f)
    (hs : lstep own t (.base l) = some t') :
    t'.queue.length ≤ t.queue.length + 1 ∧ ∀ v ∈ t'.queue, v ∈ t.queue ∨ v = snap t'.base := by
  rcases hl with rfl | ⟨f, rfl⟩
  · simp only [lstep] at hs
    cases hb : step own t.base .mergePatch with
    | none => simp [hb] at hs
    | some b =>
      simp only [hb, Option.map_some, Option.some.injEq] at hs
      subst hs
      exact enqueue_grow t b
  · simp only [lstep] at hs
    cases hb : step own t.base (.jsonPatch f) with
    | none => simp [hb] at hs
    | some b =>
      simp only [hb, Option.map_some, Option.some.injEq] at hs
      split at hs
      · subst hs; exact enqueue_grow t b
      · subst hs; exact ⟨by simp, fun v hv => Or.inl hv⟩

end Kopf.C06
