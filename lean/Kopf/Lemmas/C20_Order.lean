/-
  C20 helper lemma: the ORDER of the orchestrator's exit (`stop_in_order`, since /repo 26a293c). Inside the exit a keep-alive
  that is still running and has not been cancelled is touched by two labels only: the second stop (`orchStopPingers`) and
  its own failure (`subStopping i true`).
-/
import Kopf.Lemmas.C20_Defs
set_option linter.unusedSimpArgs false
set_option linter.unusedVariables false
namespace Kopf.C20

set_option maxHeartbeats 4000000 in
theorem keepalive_step {cfg : Cfg} {s s' : State} {l : Label} (hB : InvB s) (h : step cfg s l = some s')
    (ho : (s'.st (.root .orchestrator)).isStopping = true)
    (i : Nat) (hi : i < s.nSubs) (hk : s.kind i = .pinger)
    (hrun : s.st (.sub i) = .running) (hc : s.creq (.sub i) = false) :
    (s'.st (.sub i) = .running ∧ s'.creq (.sub i) = false ∧ s'.kind i = .pinger ∧ i < s'.nSubs)
    ∨ l = .orchStopPingers ∨ l = .subStopping i true := by
  have hb11 := hB.wkKind
  cases l <;> simp only [step] at h
  all_goals (repeat' (split at h))
  all_goals (first | (cases h; done) | skip)
  all_goals (cases h)
  all_goals (first | (exact Or.inl ⟨hrun, hc, hk, hi⟩) | skip)
  all_goals (try simp only [kind_orchestrator_iff, kind_killer_iff, kind_flagChecker_iff, kind_ultimate_iff,
    kind_startupCleanup_iff, kind_coreWatch_iff] at *)
  all_goals (try subst_vars)
  all_goals (try dsimp only at *)
  all_goals (grind [upd, Root.kind, TS.isStopping, cancelSubs, cancelPingers, cancelRoots, cancelRootsV])

end Kopf.C20
