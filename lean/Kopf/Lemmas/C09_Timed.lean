/-
  C09 helper lemmas for the timed part of the lifecycle automaton: asyncio fires due timers (`tickOk`), so
  the stages of a running `stop_daemon` coroutine happen at their deadlines and, while the operator is
  paused, every round of the daemon killer reaches every listed daemon. Invariant `TInv` and its
  preservation by every label.
-/
import Kopf.Lemmas.C09_Daemons
namespace Kopf.C09

/-! ### Round arithmetic (rounds at `p`, `p + 64`, …) -/

theorem nextRound_bounds (p t : Tick) (_h : p ≤ t) : t ≤ nextRound p t ∧ nextRound p t < t + killerPeriod := by
  unfold nextRound killerPeriod
  unfold Tick at *
  constructor <;> omega

theorem firstDue_gt (p t : Tick) : t < firstDue p t ∧ p ≤ firstDue p t := by
  unfold firstDue
  unfold Tick at *
  split <;> constructor <;> omega

/-- a daemon listed since `t ≥ p` is reached by a round within one period -/
theorem firstDue_le (p t : Tick) (h : p ≤ t) : firstDue p t ≤ t + killerPeriod := by
  unfold firstDue killerPeriod
  unfold Tick at *
  split <;> omega

theorem firstDue_before (p t : Tick) (h : t < p) : firstDue p t = p := by
  unfold firstDue; simp [h]

theorem firstDue_isRound (p t : Tick) : isRound p (firstDue p t) = true := by
  unfold isRound firstDue
  unfold Tick at *
  split <;> simp <;> omega

/-- The next round at or after `now`, for a daemon listed since `since ≤ now ≤ firstDue p since`: it is the
    daemon's due round, or `now` itself is a round at which the daemon was just listed. -/
theorem nextRound_cases (p since now : Tick) (hp : p ≤ now) (hs : since ≤ now) (hn : now ≤ firstDue p since) :
    nextRound p now = firstDue p since ∨
    (nextRound p now ≤ since ∧ nextRound p now + killerPeriod = firstDue p since) := by
  unfold nextRound firstDue killerPeriod at *
  unfold Tick at *
  split at hn <;> split <;> omega

/-! ### The timed invariant -/

/-- a registered `stop_daemon` coroutine started at `st`: each of its stages has happened by its deadline,
    or the deadline has not passed yet -/
def StageOk (c : Cfg) (now : Tick) (i : Inst) (st : Tick) : Prop :=
  (c.timeout.isSome = true →
    (∃ tc, i.cancelAt = some tc ∧ tc ≤ st + c.b0) ∨ (i.cancelAt = none ∧ now ≤ st + c.b0)) ∧
  ((∃ ta, i.abandonAt = some ta ∧ ta ≤ st + c.b0 + c.t0) ∨ (i.abandonAt = none ∧ now ≤ st + c.b0 + c.t0))

structure TInv (c : Cfg) (s : St) : Prop where
  pausedLe : ∀ p, s.paused = some p → p ≤ s.now
  sinceLe : ∀ i, s.run = some i → i.since ≤ s.now
  stages : ∀ i, s.run = some i → ∀ st ∈ i.kstarts, StageOk c s.now i st
  rounds : ∀ p i, s.paused = some p → s.known = true → s.killerDone = false → s.run = some i →
    s.now ≤ firstDue p i.since ∨ firstDue p i.since ∈ i.kstarts
  /-- the object is gone (its DELETED event was processed at `g`): past that instant, `stop_daemon(deleted)`
      has been started at `g` for whatever still runs -/
  gone : c.stopsGone = true → ∀ g i, s.goneAt = some g → s.run = some i →
    (g ∈ i.kstarts ∧ Reason.deleted ∈ i.reasons) ∨ s.now = g
  /-- the killer's exit sweep began at `x`: past that instant (or once the killer is gone), `stop_daemon(exiting)`
      has been started at `x` for every instance the sweep had to list -/
  exit : ∀ x i, s.exitAt = some x → s.run = some i → s.exitDue c i x = true →
    (x ∈ i.kstarts ∧ Reason.exiting ∈ i.reasons) ∨ (s.now = x ∧ s.killerDone = false)
  exitLe : ∀ x, s.exitAt = some x → x ≤ s.now

theorem tinv_init (c : Cfg) (t0 : Tick) : TInv c (St.init t0) := by
  refine ⟨?_, ?_, ?_, ?_, ?_, ?_, ?_⟩ <;> intros <;> simp_all [St.init]

/-- what `tickOk` says when an instance runs -/
theorem tickOk_parts {c : Cfg} {s : St} {d : Nat} {i : Inst} (hi : s.run = some i) (hok : tickOk c s d = true) :
    (∀ st ∈ i.kstarts, (!c.timeout.isSome || i.cancelAt.isSome || decide (s.now + d ≤ st + c.b0)) = true ∧
        (i.abandonAt.isSome || decide (s.now + d ≤ st + c.b0 + c.t0)) = true) ∧
    (∀ p, s.paused = some p → s.known = true → s.killerDone = false →
      (if (decide (nextRound p s.now ∈ i.kstarts) || decide (nextRound p s.now ≤ i.since)) = true
        then decide (s.now + d ≤ nextRound p s.now + killerPeriod) else decide (s.now + d ≤ nextRound p s.now)) = true) ∧
    (∀ g, s.goneAt = some g → c.stopsGone = true → (g ∈ i.kstarts ∧ Reason.deleted ∈ i.reasons) ∨ d = 0) ∧
    (∀ x, s.exitAt = some x → s.exitDue c i x = true → s.killerDone = false →
      (x ∈ i.kstarts ∧ Reason.exiting ∈ i.reasons) ∨ d = 0) := by
  simp only [tickOk, hi, Bool.and_eq_true, List.all_eq_true] at hok
  obtain ⟨⟨⟨h1, h2⟩, h3⟩, h4⟩ := hok
  refine ⟨?_, ?_, ?_, ?_⟩
  · intro st hst
    have := h1 st hst
    simpa [Bool.and_eq_true] using this
  · intro p hp hkn hkd
    simpa [hp, hkn, hkd] using h2
  · intro g hg hc
    simp only [hg, hc, Inst.has, Bool.not_true, Bool.false_or, Bool.or_eq_true, Bool.and_eq_true,
      decide_eq_true_eq] at h3
    exact h3
  · intro x hx hdue hkd
    simp only [hx, hdue, hkd, Inst.has, Bool.not_false, and_self, if_true, Bool.or_eq_true, Bool.and_eq_true,
      decide_eq_true_eq] at h4
    exact h4

/-- the stages stay fine when the instance evolves at the same instant and at most a coroutine starting now
    is added -/
theorem stageOk_pres {c : Cfg} {now : Tick} {i i' : Inst} (hb : 0 ≤ c.b0) (ht : 0 ≤ c.t0)
    (hinv' : InstInv c now i') (m : Mono i i')
    (hold : ∀ st ∈ i.kstarts, StageOk c now i st)
    (st : Tick) (hst : st ∈ i.kstarts ∨ st = now) : StageOk c now i' st := by
  have hc' : ∀ t, i'.cancelAt = some t → t ≤ now := fun t h => by
    obtain ⟨_, _, _, h3⟩ := hinv'.canc t h; exact h3
  have ha' : ∀ t, i'.abandonAt = some t → t ≤ now := fun t h => by
    obtain ⟨_, _, _, h3⟩ := hinv'.aban t h; exact h3
  rcases hst with hst | hst
  · obtain ⟨h1, h2⟩ := hold st hst
    constructor
    · intro hto
      rcases h1 hto with ⟨tc, e1, e2⟩ | ⟨e1, e2⟩
      · exact Or.inl ⟨tc, m.canc tc e1, e2⟩
      · cases hca : i'.cancelAt with
        | none => exact Or.inr ⟨rfl, e2⟩
        | some t => exact Or.inl ⟨t, rfl, Int.le_trans (hc' t hca) e2⟩
    · rcases h2 with ⟨ta, e1, e2⟩ | ⟨e1, e2⟩
      · exact Or.inl ⟨ta, m.aban ta e1, e2⟩
      · cases haa : i'.abandonAt with
        | none => exact Or.inr ⟨rfl, e2⟩
        | some t => exact Or.inl ⟨t, rfl, Int.le_trans (ha' t haa) e2⟩
  · subst hst
    constructor
    · intro _
      cases hca : i'.cancelAt with
      | none => exact Or.inr ⟨rfl, by generalize c.b0 = bb at *; tick_omega⟩
      | some t => exact Or.inl ⟨t, rfl, by have := hc' t hca; generalize c.b0 = bb at *; tick_omega⟩
    · cases haa : i'.abandonAt with
      | none => exact Or.inr ⟨rfl, by generalize c.b0 = bb at *; generalize c.t0 = tt at *; tick_omega⟩
      | some t => exact Or.inl ⟨t, rfl, by have := ha' t haa; generalize c.b0 = bb at *; generalize c.t0 = tt at *; tick_omega⟩

/-- an update of the running instance at the same instant that keeps `since`, keeps or extends the
    registered coroutines by one starting now, and leaves the pause/exit state alone -/
theorem tinv_update {c : Cfg} {s : St} (hb : 0 ≤ c.b0) (ht : 0 ≤ c.t0) (h : Inv c s) (t : TInv c s)
    {i i' : Inst} (hi : s.run = some i) (hinv' : InstInv c s.now i') (m : Mono i i')
    (hk : ∀ st ∈ i'.kstarts, st ∈ i.kstarts ∨ st = s.now) :
    TInv c { s with run := some i' } := by
  refine ⟨t.pausedLe, ?_, ?_, ?_, ?_, ?_, t.exitLe⟩
  · intro k hk'; simp at hk'; subst hk'; rw [m.since]; exact t.sinceLe i hi
  · intro k hk' st hst; simp at hk'; subst hk'
    exact stageOk_pres hb ht hinv' m (t.stages i hi) st (hk st hst)
  · intro p k hp hkn hkd hk'; simp at hk'; subst hk'
    rw [m.since]
    rcases t.rounds p i hp hkn hkd hi with h1 | h1
    · exact Or.inl h1
    · exact Or.inr (m.ks _ h1)
  · intro hc g k hg hk'; simp at hk'; subst hk'
    rcases t.gone hc g i hg hi with ⟨h1, h2⟩ | h1
    · exact Or.inl ⟨m.ks _ h1, m.reasons _ h2⟩
    · exact Or.inr h1
  · intro x k hx hk' hdue; simp at hk'; subst hk'
    have hdue0 : s.exitDue c i x = true := by
      simp only [St.exitDue] at hdue ⊢; rw [m.since] at hdue; exact hdue
    rcases t.exit x i hx hi hdue0 with ⟨h1, h2⟩ | h1
    · exact Or.inl ⟨m.ks _ h1, m.reasons _ h2⟩
    · exact Or.inr h1

theorem tinv_step {c : Cfg} {s s' : St} (hb : 0 ≤ c.b0) (ht : 0 ≤ c.t0) (h : Inv c s) (t : TInv c s)
    (l : Label) (hs : step c s l = some s') : TInv c s' := by
  have h' := step_inv h l hs
  cases l with
  | tick d =>
    obtain ⟨h1, hok⟩ := step_tick hs
    subst h1
    have hd : (0 : Int) ≤ (d : Int) := Int.natCast_nonneg d
    refine ⟨?_, ?_, ?_, ?_, ?_, ?_, ?_⟩
    · intro p hp; have := t.pausedLe p hp; show p ≤ s.now + d; tick_omega
    · intro i hi; have := t.sinceLe i hi; show i.since ≤ s.now + d; tick_omega
    · intro i hi st hst
      simp only at hi
      have hall := (tickOk_parts hi hok).1 st hst
      simp only [Bool.or_eq_true, Bool.not_eq_true', decide_eq_true_eq] at hall
      obtain ⟨h1, h2⟩ := t.stages i hi st hst
      constructor
      · intro hto
        rcases h1 hto with hl | ⟨e1, _⟩
        · exact Or.inl hl
        · right
          refine ⟨e1, ?_⟩
          rcases hall.1 with (hx | hx) | hx
          · rw [hto] at hx; cases hx
          · rw [e1] at hx; cases hx
          · exact hx
      · rcases h2 with hl | ⟨e1, _⟩
        · exact Or.inl hl
        · right
          refine ⟨e1, ?_⟩
          rcases hall.2 with hx | hx
          · rw [e1] at hx; cases hx
          · exact hx
    · intro p i hp hkn hkd hi
      simp only at hp hkn hkd hi
      rcases t.rounds p i hp hkn hkd hi with hle | hin
      · -- the clock may reach the due round, not pass it unswept
        have hok2 := (tickOk_parts hi hok).2.1 p hp hkn hkd
        have hcases := nextRound_cases p i.since s.now (t.pausedLe p hp) (t.sinceLe i hi) hle
        by_cases hc : (decide (nextRound p s.now ∈ i.kstarts) || decide (nextRound p s.now ≤ i.since)) = true
        · rw [if_pos hc] at hok2
          simp only [decide_eq_true_eq] at hok2
          simp only [Bool.or_eq_true, decide_eq_true_eq] at hc
          rcases hcases with he | ⟨_, he2⟩
          · rcases hc with hc | hc
            · right; rw [← he]; exact hc
            · exfalso
              have := (firstDue_gt p i.since).1
              rw [← he] at this
              tick_omega
          · left
            show s.now + d ≤ firstDue p i.since
            rw [← he2]; exact hok2
        · rw [if_neg hc] at hok2
          simp only [decide_eq_true_eq] at hok2
          simp only [Bool.or_eq_true, decide_eq_true_eq, not_or] at hc
          rcases hcases with he | ⟨hle2, _⟩
          · left; show s.now + d ≤ firstDue p i.since; rw [← he]; exact hok2
          · exact absurd hle2 hc.2
      · exact Or.inr hin
    · intro hc g i hg hi
      simp only at hg hi
      rcases t.gone hc g i hg hi with h1 | h1
      · exact Or.inl h1
      · rcases (tickOk_parts hi hok).2.2.1 g hg hc with h2 | h2
        · exact Or.inl h2
        · right; show s.now + (d : Int) = g; rw [h2, h1]; simp
    · intro x i hx hi hdue
      simp only at hx hi
      have hdue0 : s.exitDue c i x = true := hdue
      rcases t.exit x i hx hi hdue0 with h1 | ⟨h1, h1d⟩
      · exact Or.inl h1
      · rcases (tickOk_parts hi hok).2.2.2 x hx hdue0 h1d with h2 | h2
        · exact Or.inl h2
        · right; refine ⟨?_, h1d⟩; show s.now + (d : Int) = x; rw [h2, h1]; simp
    · intro x hx; have := t.exitLe x hx; show x ≤ s.now + d; tick_omega
  | pause =>
    obtain ⟨h1, _⟩ := step_pause hs
    subst h1
    refine ⟨?_, t.sinceLe, t.stages, ?_, t.gone, t.exit, t.exitLe⟩
    · intro p hp; simp at hp; subst hp; exact Int.le_refl _
    · intro p i hp _ _ hi
      simp at hp; subst hp
      left
      simp only at hi
      have hsl := t.sinceLe i hi
      by_cases hlt : i.since < s.now
      · rw [firstDue_before _ _ hlt]; exact Int.le_refl _
      · have := (firstDue_gt s.now i.since).1
        show s.now ≤ firstDue s.now i.since
        tick_omega
  | resume =>
    have h1 := step_resume hs
    subst h1
    exact ⟨fun p hp => by simp at hp, t.sinceLe, t.stages, fun p i hp => by simp at hp, t.gone, t.exit, t.exitLe⟩
  | kFinal =>
    obtain ⟨h1, hx, hsw⟩ := step_kFinal hs
    subst h1
    refine ⟨t.pausedLe, t.sinceLe, t.stages, fun p i _ _ hkd => by simp at hkd, t.gone, ?_, t.exitLe⟩
    intro x i hx' hi hdue
    simp only at hx' hi
    have hdue0 : s.exitDue c i x = true := hdue
    left
    simp only [St.sweptForExit, hx', hi, hdue0, Inst.has, Bool.not_true, Bool.false_or, Bool.and_eq_true,
      decide_eq_true_eq] at hsw
    exact hsw
  | exitBegin =>
    obtain ⟨h1, hx, hkd⟩ := step_exitBegin hs
    subst h1
    refine ⟨t.pausedLe, t.sinceLe, t.stages, t.rounds, t.gone, ?_, ?_⟩
    · intro x i hx' _ _
      simp only [Option.some.injEq] at hx'
      exact Or.inr ⟨hx', hkd⟩
    · intro x hx'
      simp only [Option.some.injEq] at hx'
      rw [← hx']; exact Int.le_refl _
  | failForGood =>
    obtain ⟨h1, _⟩ := step_failForGood hs
    subst h1
    exact ⟨t.pausedLe, t.sinceLe, t.stages, t.rounds, t.gone, t.exit, t.exitLe⟩
  | exit =>
    obtain ⟨i, _, h1⟩ := step_exit hs
    subst h1
    refine ⟨t.pausedLe, ?_, ?_, ?_, ?_, ?_, t.exitLe⟩ <;> intros <;> simp_all [endInst]
  | kBegin r =>
    obtain ⟨i, hi, hmb, h1⟩ := step_kBegin hs
    subst h1
    have hp : r.primary = true := by rcases mayBegin_primary hmb with h1 | h1 | h1 <;> subst h1 <;> rfl
    refine tinv_update hb ht h t hi ((h.inst i hi).push_kstart r hp) ?_ ?_
    · exact ⟨(set_mono i r s.now).reasons, (set_mono i r s.now).when, fun _ h => h, fun _ h => h,
        fun st hst => List.mem_cons_of_mem _ hst, rfl⟩
    · intro st hst
      simp only [List.mem_cons] at hst
      rcases hst with hst | hst
      · exact Or.inr hst
      · exact Or.inl hst
  | kSignal st =>
    obtain ⟨i, hi, _, h1⟩ := step_kSignal hs
    subst h1
    exact tinv_update hb ht h t hi ((h'.inst _ rfl)) (set_mono i _ _) (fun st hst => Or.inl hst)
  | kCancel st =>
    obtain ⟨i, hi, _, _, _, h1⟩ := step_kCancel hs
    subst h1
    refine tinv_update hb ht h t hi (h'.inst _ rfl) ?_ (fun st hst => Or.inl hst)
    refine ⟨(set_mono i .cancelled s.now).reasons, (set_mono i .cancelled s.now).when, ?_, fun _ h => h, fun _ h => h, rfl⟩
    intro t ht; simp [ht]
  | kAbandon st =>
    obtain ⟨i, hi, _, _, h1⟩ := step_kAbandon hs
    subst h1
    refine tinv_update hb ht h t hi (h'.inst _ rfl) ?_ (fun st hst => Or.inl hst)
    refine ⟨(set_mono i .abandoned s.now).reasons, (set_mono i .abandoned s.now).when, fun _ h => h, ?_, fun _ h => h, rfl⟩
    intro t ht; simp [ht]
  | cycle inp =>
    obtain ⟨h1, hkn⟩ := step_cycle hs
    subst h1
    have spec := cycle_spec h inp
    obtain ⟨fp, fd, fk, fnew, fx, fg⟩ := cycle_frame h inp
    have hnow : (cycle c inp s).1.now = s.now := spec.2.1
    have hmono := spec.2.2.2.2.2.1
    have hknown := spec.2.2.2.1
    refine ⟨?_, ?_, ?_, ?_, ?_, ?_, ?_⟩
    · intro p hp; rw [fp] at hp; rw [hnow]; exact t.pausedLe p hp
    · intro i' hi'
      rw [hnow]
      cases hrun : s.run with
      | none => rw [(fnew hrun i' hi').1]; exact Int.le_refl _
      | some i => rw [(hmono i i' hrun hi').since]; exact t.sinceLe i hrun
    · intro i' hi' st hst
      rw [hnow]
      cases hrun : s.run with
      | none => rw [(fnew hrun i' hi').2] at hst; cases hst
      | some i =>
        have hinv' := h'.inst i' hi'
        rw [hnow] at hinv'
        exact stageOk_pres hb ht hinv' (hmono i i' hrun hi') (t.stages i hrun) st
          (Or.inl (by rw [fk i i' hrun hi'] at hst; exact hst))
    · intro p i' hp hkn hkd hi'
      rw [fp] at hp; rw [fd] at hkd; rw [hnow]
      have hkn0 : s.known = true := by
        rw [hknown] at hkn
        simp only [Bool.and_eq_true] at hkn
        exact hkn.1
      cases hrun : s.run with
      | none =>
        rw [(fnew hrun i' hi').1]
        left
        have := (firstDue_gt p s.now).1
        tick_omega
      | some i =>
        rw [(hmono i i' hrun hi').since]
        rcases t.rounds p i hp hkn0 hkd hrun with h1 | h1
        · exact Or.inl h1
        · exact Or.inr ((hmono i i' hrun hi').ks _ h1)
    · -- no cycle comes for a gone object: this is the cycle of the DELETED event itself, or nothing is gone
      intro _ g i' hg hi'
      rw [fg] at hg
      cases hdel : inp.deleted with
      | true => rw [hdel] at hg; simp only [if_true, Option.some.injEq] at hg; right; rw [hnow]; exact hg
      | false =>
        rw [hdel] at hg; simp only [Bool.false_eq_true, if_false] at hg
        have := h.goneKnown (by rw [hg]; rfl)
        rw [hkn] at this; cases this
    · intro x i' hx hi' hdue
      rw [fx] at hx; rw [hnow, fd]
      have hdue' : (s.known = true) ∧ (c.marksExiting = true ∨ i'.since < x) := by
        simp only [St.exitDue, Bool.and_eq_true, Bool.or_eq_true, decide_eq_true_eq] at hdue
        rw [hknown] at hdue
        simp only [Bool.and_eq_true] at hdue
        exact ⟨hdue.1.1, hdue.2⟩
      cases hrun : s.run with
      | none =>
        exfalso
        obtain ⟨hsince, _⟩ := fnew hrun i' hi'
        have hxle := t.exitLe x hx
        rcases hdue'.2 with hme | hlt
        · -- nothing is spawned once the operator is marked as exiting
          have hbl : blockedIn c inp s = true := by simp [blockedIn, hme, hx]
          have := cycle_run_none c inp s hrun (by simp [hbl])
          rw [this] at hi'; cases hi'
        · rw [hsince] at hlt; tick_omega
      | some i =>
        have m := hmono i i' hrun hi'
        have hdue0 : s.exitDue c i x = true := by
          simp only [St.exitDue, Bool.and_eq_true, Bool.or_eq_true, decide_eq_true_eq]
          rw [← m.since]; exact hdue'
        rcases t.exit x i hx hrun hdue0 with ⟨h1, h2⟩ | h1
        · exact Or.inl ⟨m.ks _ h1, m.reasons _ h2⟩
        · exact Or.inr h1
    · intro x hx; rw [fx] at hx; rw [hnow]; exact t.exitLe x hx

theorem tinv_runs {c : Cfg} (hb : 0 ≤ c.b0) (ht : 0 ≤ c.t0) : ∀ (ls : List Label) {s s' : St},
    Inv c s → TInv c s → runs c s ls = some s' → TInv c s'
  | [], s, s', _, t, hr => by simp only [runs, Option.some.injEq] at hr; subst hr; exact t
  | l :: ls, s, s', h, t, hr => by
    simp only [runs] at hr
    cases hst : step c s l with
    | none => rw [hst] at hr; cases hr
    | some s1 =>
      rw [hst] at hr
      exact tinv_runs hb ht ls (step_inv h l hst) (tinv_step hb ht h t l hst) hr

theorem reach_tinv {c : Cfg} {s : St} (hb : 0 ≤ c.b0) (ht : 0 ≤ c.t0) (h : Reach c s) : TInv c s := by
  obtain ⟨t0, ls, hr⟩ := h
  exact tinv_runs hb ht ls (init_inv c t0) (tinv_init c t0) hr

end Kopf.C09

namespace Kopf.C09

/-! ### Once marked (operator exiting / object gone), nothing is spawned -/

/-- `spawn_daemons` returns at once for this memory -/
def Blocked (c : Cfg) (s : St) : Prop :=
  (c.marksExiting = true ∧ s.exitAt.isSome = true) ∨ (c.stopsGone = true ∧ s.goneAt.isSome = true)

/-- the two marks are never taken back -/
theorem step_marks {c : Cfg} {s s' : St} (h : Inv c s) (l : Label) (hs : step c s l = some s') :
    (∀ x, s.exitAt = some x → s'.exitAt = some x) ∧ (∀ g, s.goneAt = some g → s'.goneAt = some g) := by
  cases l with
  | tick d => obtain ⟨h1, _⟩ := step_tick hs; subst h1; exact ⟨fun _ h => h, fun _ h => h⟩
  | pause => obtain ⟨h1, _⟩ := step_pause hs; subst h1; exact ⟨fun _ h => h, fun _ h => h⟩
  | resume => have h1 := step_resume hs; subst h1; exact ⟨fun _ h => h, fun _ h => h⟩
  | kFinal => obtain ⟨h1, _⟩ := step_kFinal hs; subst h1; exact ⟨fun _ h => h, fun _ h => h⟩
  | failForGood => obtain ⟨h1, _⟩ := step_failForGood hs; subst h1; exact ⟨fun _ h => h, fun _ h => h⟩
  | exitBegin =>
    obtain ⟨h1, hx, _⟩ := step_exitBegin hs; subst h1
    exact ⟨fun x h => (by rw [hx] at h; cases h), fun _ h => h⟩
  | cycle inp =>
    obtain ⟨h1, hk⟩ := step_cycle hs; subst h1
    obtain ⟨_, _, _, _, fx, fg⟩ := cycle_frame h inp
    refine ⟨fun x hx => (by rw [fx]; exact hx), fun g hg => ?_⟩
    have := h.goneKnown (by rw [hg]; rfl)
    rw [hk] at this; cases this
  | exit => obtain ⟨i, _, h1⟩ := step_exit hs; subst h1; exact ⟨fun _ h => h, fun _ h => h⟩
  | kBegin r => obtain ⟨i, _, _, h1⟩ := step_kBegin hs; subst h1; exact ⟨fun _ h => h, fun _ h => h⟩
  | kSignal st => obtain ⟨i, _, _, h1⟩ := step_kSignal hs; subst h1; exact ⟨fun _ h => h, fun _ h => h⟩
  | kCancel st => obtain ⟨i, _, _, _, _, h1⟩ := step_kCancel hs; subst h1; exact ⟨fun _ h => h, fun _ h => h⟩
  | kAbandon st => obtain ⟨i, _, _, _, h1⟩ := step_kAbandon hs; subst h1; exact ⟨fun _ h => h, fun _ h => h⟩

theorem blocked_step {c : Cfg} {s s' : St} (h : Inv c s) (b : Blocked c s) (l : Label) (hs : step c s l = some s') :
    Blocked c s' ∧ s'.spawns = s.spawns ∧ (s.run = none → s'.run = none) := by
  obtain ⟨mx, mg⟩ := step_marks h l hs
  have hb' : Blocked c s' := by
    rcases b with ⟨b1, b2⟩ | ⟨b1, b2⟩
    · obtain ⟨x, hx⟩ := Option.isSome_iff_exists.mp b2
      exact Or.inl ⟨b1, by rw [mx x hx]; rfl⟩
    · obtain ⟨g, hg⟩ := Option.isSome_iff_exists.mp b2
      exact Or.inr ⟨b1, by rw [mg g hg]; rfl⟩
  have hsp : s'.spawns = s.spawns := by
    rw [step_spawns h l hs]
    cases l with
    | cycle inp =>
      have hbl : blockedIn c inp s = true := by
        rcases b with ⟨b1, b2⟩ | ⟨b1, b2⟩
        · simp [blockedIn, b1, b2]
        · simp [blockedIn, b1, b2]
      simp [hbl]
    | _ => simp
  exact ⟨hb', hsp, fun hn => step_run_none h l hs hn hsp⟩

theorem blocked_runs {c : Cfg} : ∀ (ls : List Label) {s s' : St}, Inv c s → Blocked c s → runs c s ls = some s' →
    Blocked c s' ∧ s'.spawns = s.spawns ∧ (s.run = none → s'.run = none)
  | [], s, s', _, b, hr => by simp only [runs, Option.some.injEq] at hr; subst hr; exact ⟨b, rfl, fun h => h⟩
  | l :: ls, s, s', h, b, hr => by
    simp only [runs] at hr
    cases hst : step c s l with
    | none => rw [hst] at hr; cases hr
    | some s1 =>
      rw [hst] at hr
      obtain ⟨b1, sp1, rn1⟩ := blocked_step h b l hst
      obtain ⟨b2, sp2, rn2⟩ := blocked_runs ls (step_inv h l hst) b1 hr
      exact ⟨b2, sp2.trans sp1, fun hn => rn2 (rn1 hn)⟩

end Kopf.C09

namespace Kopf.C09

/-! ### Tie-side facts (not property theorems) -/

/-- the model's sweep does not look at the stopper (content: `Tie.sweep_unconditional` over the AST) -/
theorem sweep_is_unconditional (i : Inst) : sweepSpawns i = true := rfl

/-- iterating a snapshot visits the snapshot, whatever happens to the dict (content:
    `Tie.killer_iterates_snapshots` over the AST) -/
theorem killer_sweep_visits_all {α : Type} (snapshot : List α) (sizes : List Nat) :
    iterSnapshot snapshot sizes [] = (.finished, snapshot) := by
  have h : ∀ (xs : List α) (szs : List Nat) (acc : List α),
      iterSnapshot xs szs acc = (.finished, acc.reverse ++ xs) := by
    intro xs
    induction xs with
    | nil => intro szs acc; simp [iterSnapshot]
    | cons x xs ih =>
      intro szs acc
      cases szs with
      | nil => simp [iterSnapshot, ih]
      | cons z zs => simp [iterSnapshot, ih]
  simpa using h snapshot sizes []

end Kopf.C09
