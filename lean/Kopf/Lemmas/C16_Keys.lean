/-
  C16 helper lemmas, part 3: key forming — lengths, character sets, the shape `prefix/name`.
-/
import Kopf.Model.C16_Names
namespace Kopf.C16

/-! ## small list facts -/

theorem headAlnum_append {a : Str} (h : headAlnum a = true) (b : Str) : headAlnum (a ++ b) = true := by
  cases a with
  | nil => simp [headAlnum] at h
  | cons c cs => simpa [headAlnum] using h

theorem headAlnum_take {s : Str} {n : Nat} (hn : 1 ≤ n) : headAlnum (s.take n) = headAlnum s := by
  cases s with
  | nil => simp
  | cons c cs =>
    cases n with
    | zero => omega
    | succ m => simp [headAlnum]

theorem lastAlnum_append (a : Str) {b : Str} (hb : b ≠ []) : lastAlnum (a ++ b) = lastAlnum b := by
  cases b with
  | nil => exact absurd rfl hb
  | cons x xs => simp [lastAlnum, List.getLast?_append, List.getLast?_cons]

theorem all_take {s : Str} {f : Char → Bool} (h : s.all f = true) (n : Nat) : (s.take n).all f = true := by
  rw [List.all_eq_true] at *
  intro x hx
  exact h x (List.mem_of_mem_take hx)

theorem all_append {a b : Str} {f : Char → Bool} (ha : a.all f = true) (hb : b.all f = true) :
    (a ++ b).all f = true := by
  simp [List.all_append, ha, hb]

theorem validNamePart_intro {n : Str} (h1 : 1 ≤ n.length) (h2 : n.length ≤ 63) (h3 : headAlnum n = true)
    (h4 : lastAlnum n = true) (h5 : n.all isNameChar = true) : validNamePart n = true := by
  simp [validNamePart, h1, h2, h3, h4, h5]

theorem validNamePart_length {n : Str} (h : validNamePart n = true) : 1 ≤ n.length ∧ n.length ≤ 63 := by
  simp [validNamePart] at h
  omega

/-! ## the safe key -/

theorem safeKey_length (k : Str) : (safeKey k).length = k.length := by simp [safeKey]

theorem isNameChar_safeChar {c : Char} (h : isIdChar c = true) : isNameChar (safeChar c) = true := by
  unfold safeChar
  by_cases h1 : c = '/'
  · subst h1; decide
  · by_cases h2 : c = '<'
    · subst h2; decide
    · by_cases h3 : c = '>'
      · subst h3; decide
      · by_cases h4 : c = ':'
        · subst h4; decide
        · simp only [h1, h2, h3, h4, if_false]
          simp only [isIdChar, Bool.or_eq_true, beq_iff_eq] at h
          simp only [isNameChar, Bool.or_eq_true, beq_iff_eq]
          rcases h with ((((((h | h) | h) | h) | h) | h) | h) | h
          · exact Or.inl (Or.inl (Or.inl h))
          · exact Or.inl (Or.inr h)
          · exact Or.inr h
          · exact absurd h h1
          · exact absurd h h2
          · exact absurd h h3
          · exact Or.inl (Or.inl (Or.inr h))
          · exact absurd h h4

theorem all_safeKey {k : Str} (h : k.all isIdChar = true) : (safeKey k).all isNameChar = true := by
  rw [List.all_eq_true] at *
  intro x hx
  simp only [safeKey, List.mem_map] at hx
  obtain ⟨c, hc, rfl⟩ := hx
  exact isNameChar_safeChar (h c hc)

theorem pre_of_ne {p : Str} (h : p ≠ []) : pre p = p ++ ['/'] := by
  cases p with
  | nil => exact absurd rfl h
  | cons c cs => simp [pre]

theorem pre_length {p : Str} (h : p ≠ []) : (pre p).length = p.length + 1 := by
  rw [pre_of_ne h]; simp

/-! ## the name parts -/

theorem v2Key_eq (p : Str) (sfx : Str → Str) (k : Str) : v2Key p sfx k = pre p ++ v2Name sfx k := by
  simp [v2Key, v2Name, List.append_assoc]

theorem v1Key_eq (p : Str) (sfx : Str → Str) (k : Str) : v1Key p sfx k = pre p ++ v1Name p sfx k := by
  simp [v1Key, v1Name, List.append_assoc]

theorem v2Name_short {sfx : Str → Str} {k : Str} (h : k.length ≤ 63) : v2Name sfx k = safeKey k := by
  have : ¬ k.length > 63 := by omega
  simp only [v2Name, this, if_false, List.length_nil, List.append_nil]
  rw [List.take_of_length_le]
  rw [safeKey_length]; omega

theorem v2Name_long {sfx : Str → Str} {k : Str} (h : k.length > 63) :
    v2Name sfx k = (safeKey k).take (63 - (sfx k).length) ++ sfx k := by
  simp [v2Name, h]

theorem validName_v2 (sfx : Str → Str) (k : Str) (hk : IdOk k) (he : EdgeOk k)
    (hs : k.length > 63 → GoodSfx (sfx k)) : validNamePart (v2Name sfx k) = true := by
  have hall := all_safeKey hk.2
  by_cases h : k.length > 63
  · obtain ⟨s1, s2, s3, s4⟩ := hs h
    rw [v2Name_long h]
    have hsne : sfx k ≠ [] := by intro e; rw [e] at s1; simp at s1
    have hlen : ((safeKey k).take (63 - (sfx k).length)).length = 63 - (sfx k).length := by
      rw [List.length_take, safeKey_length]; omega
    apply validNamePart_intro
    · rw [List.length_append]; omega
    · rw [List.length_append, hlen]; omega
    · apply headAlnum_append
      rw [headAlnum_take (by omega)]; exact he.1
    · rw [lastAlnum_append _ hsne]; exact s4
    · exact all_append (all_take hall _) s3
  · have h' : k.length ≤ 63 := by omega
    rw [v2Name_short h']
    have hne : 1 ≤ k.length := by
      cases hkk : k with
      | nil => exact absurd hkk hk.1
      | cons c cs => simp
    apply validNamePart_intro
    · rw [safeKey_length]; exact hne
    · rw [safeKey_length]; exact h'
    · exact he.1
    · exact he.2 h'
    · exact hall

theorem pyTake_nonneg (s : Str) {n : Int} (h : 0 ≤ n) : pyTake s n = s.take n.toNat := by
  simp [pyTake, h]

theorem validName_v1 (p : Str) (sfx : Str → Str) (k : Str) (hk : IdOk k) (he : EdgeOkV1 p k)
    (hs : ¬ ((safeKey k).length : Int) ≤ 63 - ((pre p).length : Int) →
      GoodSfx (sfx (safeKey k)) ∧ (pre p).length + (sfx (safeKey k)).length < 63) :
    validNamePart (v1Name p sfx k) = true ∧ (pre p).length + (v1Name p sfx k).length ≤ 63 := by
  have hall := all_safeKey hk.2
  have hne : 1 ≤ (safeKey k).length := by
    rw [safeKey_length]
    cases hkk : k with
    | nil => exact absurd hkk hk.1
    | cons c cs => simp
  by_cases h : ((safeKey k).length : Int) ≤ 63 - ((pre p).length : Int)
  · have hnn : (0 : Int) ≤ 63 - ((pre p).length : Int) - (([] : Str).length : Int) := by
      simp; omega
    have hv : v1Name p sfx k = safeKey k := by
      simp only [v1Name, h, if_true, List.append_nil]
      rw [pyTake_nonneg _ hnn, List.take_of_length_le]
      simp; omega
    rw [hv]
    refine ⟨validNamePart_intro hne (by omega) he.1 (he.2 (by rw [safeKey_length] at h; omega)) hall, by omega⟩
  · obtain ⟨⟨s1, s2, s3, s4⟩, hl⟩ := hs h
    have hsne : sfx (safeKey k) ≠ [] := by intro e; rw [e] at s1; simp at s1
    have hnn : (0 : Int) ≤ 63 - ((pre p).length : Int) - ((sfx (safeKey k)).length : Int) := by omega
    have hv : v1Name p sfx k =
        (safeKey k).take (63 - (pre p).length - (sfx (safeKey k)).length) ++ sfx (safeKey k) := by
      simp only [v1Name, h, if_false]
      rw [pyTake_nonneg _ hnn]
      congr 2
      omega
    rw [hv]
    have hlen : ((safeKey k).take (63 - (pre p).length - (sfx (safeKey k)).length)).length
        = 63 - (pre p).length - (sfx (safeKey k)).length := by
      rw [List.length_take]; omega
    refine ⟨validNamePart_intro ?_ ?_ ?_ ?_ ?_, ?_⟩
    · rw [List.length_append]; omega
    · rw [List.length_append, hlen]; omega
    · apply headAlnum_append
      rw [headAlnum_take (by omega)]; exact he.1
    · rw [lastAlnum_append _ hsne]; exact s4
    · exact all_append (all_take hall _) s3
    · rw [List.length_append, hlen]; omega

/-! ## `prefix/name` is a qualified name -/

theorem dnsScan_noslash (s : Str) : ∀ (n : Nat) (prev : Bool), dnsScan s n prev = true → ∀ c ∈ s, c ≠ '/' := by
  induction s with
  | nil => intro _ _ _ c hc; cases hc
  | cons a as ih =>
    intro n prev h c hc
    unfold dnsScan at h
    have hrest : (∃ n' prev', dnsScan as n' prev' = true) ∧ a ≠ '/' := by
      by_cases h1 : a = '.'
      · subst h1
        simp only [if_true, Bool.and_eq_true] at h
        exact ⟨⟨_, _, h.2⟩, by decide⟩
      · simp only [h1, if_false] at h
        by_cases h2 : isLowerAlnum a = true
        · simp only [h2, if_true, Bool.and_eq_true] at h
          refine ⟨⟨_, _, h.2⟩, ?_⟩
          intro e; subst e; revert h2; decide
        · simp only [h2, Bool.false_eq_true, if_false] at h
          by_cases h3 : a = '-'
          · subst h3
            simp only [if_true, Bool.and_eq_true] at h
            exact ⟨⟨_, _, h.2⟩, by decide⟩
          · simp [h3] at h
    obtain ⟨⟨n', prev', hr⟩, ha⟩ := hrest
    rcases List.mem_cons.1 hc with rfl | hc'
    · exact ha
    · exact ih n' prev' hr c hc'

theorem validPrefix_noslash {p : Str} (h : validPrefix p = true) : ∀ c ∈ p, c ≠ '/' := by
  simp only [validPrefix, Bool.and_eq_true] at h
  exact dnsScan_noslash p 0 false h.2

theorem validPrefix_ne_nil {p : Str} (h : validPrefix p = true) : p ≠ [] := by
  intro e; subst e; simp [validPrefix, dnsScan] at h

theorem splitSlash_append (p n : Str) (h : ∀ c ∈ p, c ≠ '/') : splitSlash (p ++ '/' :: n) = some (p, n) := by
  induction p with
  | nil => simp [splitSlash]
  | cons a as ih =>
    have ha : a ≠ '/' := h a (by simp)
    simp [splitSlash, ha, ih (fun c hc => h c (by simp [hc]))]

theorem validQualified_intro {p n : Str} (hp : validPrefix p = true) (hn : validNamePart n = true) :
    validQualified (p ++ '/' :: n) = true := by
  simp [validQualified, splitSlash_append p n (validPrefix_noslash hp), hp, hn]

/-! ## distinct prefixes never meet -/

theorem slash_split_unique (p p' n n' : Str) (hp : ∀ c ∈ p, c ≠ '/') (hp' : ∀ c ∈ p', c ≠ '/')
    (h : p ++ '/' :: n = p' ++ '/' :: n') : p = p' ∧ n = n' := by
  have h1 := splitSlash_append p n hp
  rw [h, splitSlash_append p' n' hp'] at h1
  simp at h1
  exact ⟨h1.1.symm, h1.2.symm⟩

/-! ## distinctness of v2 names -/

theorem v2Name_long_length {sfx : Str → Str} {k : Str} (h : k.length > 63) (hs : (sfx k).length ≤ 63) :
    ((safeKey k).take (63 - (sfx k).length)).length = 63 - (sfx k).length := by
  rw [List.length_take, safeKey_length]; omega

/-- a valid DNS-subdomain prefix is in particular plain (non-empty, no `/`) -/
theorem plain_of_valid {p : Str} (h : validPrefix p = true) : PlainPrefix p :=
  ⟨validPrefix_ne_nil h, validPrefix_noslash h⟩

/-! ## a handler's v2 name versus the `kopf-managed` marker -/

theorem safeKey_markKey_ne {d : Bool} {k k' : Str} (h : safeKey k ≠ safeKey k') :
    safeKey (markKey d k) ≠ safeKey (markKey d k') := by
  cases d with
  | false => simpa [markKey] using h
  | true =>
    simp only [markKey, if_true, safeKey, List.map_append]
    intro e
    exact h (List.append_cancel_right e)

theorem v2Key_ne_marker_short {p : Str} (hp : p ≠ []) (sfx : Str → Str) {k : Str} (hk : k.length ≤ 63)
    (hm : safeKey k ≠ "kopf-managed".toList) : v2Key p sfx k ≠ markerName p := by
  rw [v2Key_eq, pre_of_ne hp, v2Name_short hk]
  intro e
  have e' : p ++ '/' :: safeKey k = p ++ '/' :: "kopf-managed".toList := by
    simpa [markerName] using e
  have := List.append_cancel_left e'
  simp at this
  exact hm this

theorem v2Key_ne_marker_long {p : Str} (hp : p ≠ []) (sfx : Str → Str) {k : Str} (hk : k.length > 63)
    (hs : (sfx k).length ≤ 63) : v2Key p sfx k ≠ markerName p := by
  rw [v2Key_eq, pre_of_ne hp, v2Name_long hk]
  intro e
  have e' : p ++ '/' :: ((safeKey k).take (63 - (sfx k).length) ++ sfx k) = p ++ '/' :: "kopf-managed".toList := by
    simpa [markerName] using e
  have h2 := List.append_cancel_left e'
  simp only [List.cons.injEq, true_and] at h2
  have h3 := congrArg List.length h2
  rw [List.length_append, v2Name_long_length hk hs] at h3
  have : ("kopf-managed".toList).length = 12 := by decide
  omega


/-! ## the guard `EdgeOk` is exact -/

theorem headAlnum_append_of_ne {a : Str} (ha : a ≠ []) (b : Str) : headAlnum (a ++ b) = headAlnum a := by
  cases a with
  | nil => exact absurd rfl ha
  | cons c cs => simp [headAlnum]

theorem validQualified_split {p n : Str} (hp : ∀ c ∈ p, c ≠ '/') :
    validQualified (p ++ '/' :: n) = (validPrefix p && validNamePart n) := by
  simp [validQualified, splitSlash_append p n hp]

theorem validNamePart_edges {n : Str} (h : validNamePart n = true) : headAlnum n = true ∧ lastAlnum n = true := by
  simp [validNamePart] at h
  exact ⟨h.1.1.2, h.1.2⟩

/-- a valid V2 name forces `EdgeOk`: the guard of `valid_name_v2_partial` is not broader than F6 -/
theorem edgeOk_of_valid_v2 (sfx : Str → Str) (k : Str) (hs : k.length > 63 → GoodSfx (sfx k))
    (h : validNamePart (v2Name sfx k) = true) : EdgeOk k := by
  obtain ⟨hh, hl⟩ := validNamePart_edges h
  by_cases hk : k.length > 63
  · obtain ⟨s1, s2, _, _⟩ := hs hk
    refine ⟨?_, fun h63 => by omega⟩
    rw [v2Name_long hk] at hh
    have hne : (safeKey k).take (63 - (sfx k).length) ≠ [] := by
      intro e
      have hl' := v2Name_long_length (sfx := sfx) hk (by omega)
      rw [e] at hl'
      simp only [List.length_nil] at hl'
      omega
    rw [headAlnum_append_of_ne hne, headAlnum_take (by omega)] at hh
    exact hh
  · rw [v2Name_short (by omega)] at hh hl
    exact ⟨hh, fun _ => hl⟩

/-! ## how many names `make_keys` yields -/

theorem v1Key_eq_v2Key_of_room {p : Str} {sfx : Str → Str} {k : Str}
    (h : (pre p).length + k.length ≤ 63) : v1Key p sfx k = v2Key p sfx k := by
  have hk : k.length ≤ 63 := by omega
  have hi : ((safeKey k).length : Int) ≤ 63 - ((pre p).length : Int) := by
    rw [safeKey_length]; omega
  have hnn : (0 : Int) ≤ 63 - ((pre p).length : Int) - (([] : Str).length : Int) := by simp; omega
  rw [v1Key_eq, v2Key_eq, v2Name_short hk]
  congr 1
  simp only [v1Name, hi, if_true, List.append_nil]
  rw [pyTake_nonneg _ hnn, List.take_of_length_le]
  rw [safeKey_length]; simp; omega

/-- one name only: V1 keys switched off, or no room for them (prefix of 55+ characters), or the
    id is short enough to be its own V1 name -/
theorem makeKeys_single {p : Str} {v1 : Bool} {sfx : Str → Str} {k : Str}
    (h : v1 = false ∨ v1Fits p sfx = false ∨ (pre p).length + k.length ≤ 63) :
    makeKeys p v1 sfx k = [v2Key p sfx k] := by
  unfold makeKeys
  rcases h with h | h | h
  · simp [h]
  · simp [h]
  · simp [v1Key_eq_v2Key_of_room h]

theorem makeKeys_subset (p : Str) (v1 : Bool) (sfx : Str → Str) (k : Str) :
    ∀ n ∈ makeKeys p v1 sfx k, n = v2Key p sfx k ∨ (n = v1Key p sfx k ∧ v1 = true ∧ v1Fits p sfx = true) := by
  intro n hn
  unfold makeKeys at hn
  split at hn
  · rename_i h
    simp only [Bool.and_eq_true] at h
    simp at hn
    rcases hn with rfl | rfl
    · exact Or.inl rfl
    · exact Or.inr ⟨rfl, h.1.1, h.1.2⟩
  · simp at hn; exact Or.inl hn

/-- the V1 name of an id too long to be its own V1 name, when there is room for the suffix -/
theorem v1Name_hashed {p : Str} {sfx : Str → Str} {k : Str}
    (h : 63 < (pre p).length + k.length) (hl : (pre p).length + (sfx (safeKey k)).length < 63) :
    v1Name p sfx k =
      (safeKey k).take (63 - (pre p).length - (sfx (safeKey k)).length) ++ sfx (safeKey k) ∧
    ((safeKey k).take (63 - (pre p).length - (sfx (safeKey k)).length)).length
      = 63 - (pre p).length - (sfx (safeKey k)).length := by
  have hi : ¬ ((safeKey k).length : Int) ≤ 63 - ((pre p).length : Int) := by
    rw [safeKey_length]; omega
  have hnn : (0 : Int) ≤ 63 - ((pre p).length : Int) - ((sfx (safeKey k)).length : Int) := by omega
  constructor
  · simp only [v1Name, hi, if_false]
    rw [pyTake_nonneg _ hnn]
    congr 2
    omega
  · rw [List.length_take, safeKey_length]; omega

theorem v1Fits_iff (p : Str) (sfx : Str → Str) : v1Fits p sfx = true ↔ (pre p).length + (sfx []).length < 63 := by
  simp [v1Fits]

/-- two ids that are both too long to be their own V1 names, with different V2 names and different
    (equally long) digests of their safe forms, share no annotation name at all -/
theorem names_disjoint_hashed {p : Str} (hp : p ≠ []) {sfx : Str → Str} {k k' : Str}
    (hb : 63 < (pre p).length + k.length) (hb' : 63 < (pre p).length + k'.length)
    (hroom : (pre p).length + (sfx (safeKey k)).length < 63)
    (hsl : (sfx (safeKey k)).length = (sfx (safeKey k')).length)
    (hsne : sfx (safeKey k) ≠ sfx (safeKey k'))
    (hlong : k.length > 63 → (sfx k).length ≤ 63) (hlong' : k'.length > 63 → (sfx k').length ≤ 63)
    (hv2 : v2Key p sfx k ≠ v2Key p sfx k') (v1 : Bool) :
    ∀ n ∈ makeKeys p v1 sfx k, ∀ n' ∈ makeKeys p v1 sfx k', n' ≠ n := by
  have hpl := pre_length hp
  -- lengths of the name parts
  have hv2len : ∀ x : Str, 63 < (pre p).length + x.length → (x.length > 63 → (sfx x).length ≤ 63) →
      63 - (pre p).length < (v2Name sfx x).length := by
    intro x hx hxl
    by_cases h63 : x.length > 63
    · rw [v2Name_long h63, List.length_append, v2Name_long_length h63 (hxl h63)]
      have := hxl h63; omega
    · rw [v2Name_short (by omega), safeKey_length]; omega
  obtain ⟨e1, l1⟩ := v1Name_hashed hb hroom
  obtain ⟨e1', l1'⟩ := v1Name_hashed (sfx := sfx) hb' (by omega)
  have hv1len : (v1Name p sfx k).length = 63 - (pre p).length := by
    rw [e1, List.length_append, l1]; omega
  have hv1len' : (v1Name p sfx k').length = 63 - (pre p).length := by
    rw [e1', List.length_append, l1']; omega
  intro n hn n' hn' e
  subst e
  rcases makeKeys_subset p v1 sfx k n' hn with h | ⟨h, _, _⟩ <;>
    rcases makeKeys_subset p v1 sfx k' n' hn' with h' | ⟨h', _, _⟩
  · exact hv2 (h.symm.trans h')
  · -- v2 name of k = v1 name of k'
    rw [h, v2Key_eq, v1Key_eq] at h'
    have := congrArg List.length (List.append_cancel_left h')
    have := hv2len k hb hlong
    omega
  · rw [h, v2Key_eq, v1Key_eq] at h'
    have := congrArg List.length (List.append_cancel_left h')
    have := hv2len k' hb' hlong'
    omega
  · rw [h, v1Key_eq, v1Key_eq] at h'
    have e2 := List.append_cancel_left h'
    rw [e1, e1'] at e2
    have := List.append_inj e2 (by rw [l1, l1', hsl])
    exact hsne this.2

theorem v1Key_ne_marker_hashed {p : Str} (hp : p ≠ []) {sfx : Str → Str} {k : Str}
    (hb : 63 < (pre p).length + k.length) (hroom : (pre p).length + (sfx (safeKey k)).length < 63)
    (h51 : (pre p).length ≠ 51) : v1Key p sfx k ≠ markerName p := by
  obtain ⟨e1, l1⟩ := v1Name_hashed hb hroom
  rw [v1Key_eq, pre_of_ne hp]
  intro e
  have e' : p ++ '/' :: v1Name p sfx k = p ++ '/' :: "kopf-managed".toList := by
    simpa [markerName] using e
  have h2 := List.append_cancel_left e'
  simp only [List.cons.injEq, true_and] at h2
  have h3 := congrArg List.length h2
  rw [e1, List.length_append, l1] at h3
  have : ("kopf-managed".toList).length = 12 := by decide
  omega

/-- no V1 key without room: whenever prefix + `/` + suffix fill the 63 characters, `make_keys`
    yields the V2 name only — for every id, every hash, whatever the `v1` flag (kopf e916847) -/
theorem no_v1_key_without_room (p : Str) (v1 : Bool) (sfx : Str → Str) (k : Str)
    (h : 63 ≤ (pre p).length + (sfx []).length) : makeKeys p v1 sfx k = [v2Key p sfx k] :=
  makeKeys_single (Or.inr (Or.inl (by simp [v1Fits]; omega)))

end Kopf.C16