/-
  C16 helper lemmas, part 3: key forming — `make_edged_name`, lengths, character sets, the shape
  `prefix/name`, verbatim vs. re-formed (cut-and-hashed / re-edged) names.
-/
import Kopf.Model.C16_Names
namespace Kopf.C16

/-! ## small list facts -/

theorem headAlnum_append {a : Str} (h : headAlnum a = true) (b : Str) : headAlnum (a ++ b) = true := by
  cases a with
  | nil => simp [headAlnum] at h
  | cons c cs => simpa [headAlnum] using h

theorem headAlnum_take {s : Str} {n : Nat} (hn : 1 ≤ n) : headAlnum (s.take n) = headAlnum s := by
  cases s with
  | nil => simp
  | cons c cs =>
    cases n with
    | zero => omega
    | succ m => simp [headAlnum]

theorem lastAlnum_append (a : Str) {b : Str} (hb : b ≠ []) : lastAlnum (a ++ b) = lastAlnum b := by
  cases b with
  | nil => exact absurd rfl hb
  | cons x xs => simp [lastAlnum, List.getLast?_append, List.getLast?_cons]

theorem all_take {s : Str} {f : Char → Bool} (h : s.all f = true) (n : Nat) : (s.take n).all f = true := by
  rw [List.all_eq_true] at *
  intro x hx
  exact h x (List.mem_of_mem_take hx)

theorem all_append {a b : Str} {f : Char → Bool} (ha : a.all f = true) (hb : b.all f = true) :
    (a ++ b).all f = true := by
  simp [List.all_append, ha, hb]

theorem validNamePart_intro {n : Str} (h1 : 1 ≤ n.length) (h2 : n.length ≤ 63) (h3 : headAlnum n = true)
    (h4 : lastAlnum n = true) (h5 : n.all isNameChar = true) : validNamePart n = true := by
  simp [validNamePart, h1, h2, h3, h4, h5]

theorem validNamePart_length {n : Str} (h : validNamePart n = true) : 1 ≤ n.length ∧ n.length ≤ 63 := by
  simp [validNamePart] at h
  omega

/-! ## the safe key -/

theorem safeKey_length (k : Str) : (safeKey k).length = k.length := by simp [safeKey]

theorem isNameChar_safeChar {c : Char} (h : isIdChar c = true) : isNameChar (safeChar c) = true := by
  unfold safeChar
  by_cases h1 : c = '/'
  · subst h1; decide
  · by_cases h2 : c = '<'
    · subst h2; decide
    · by_cases h3 : c = '>'
      · subst h3; decide
      · by_cases h4 : c = ':'
        · subst h4; decide
        · simp only [h1, h2, h3, h4, if_false]
          simp only [isIdChar, Bool.or_eq_true, beq_iff_eq] at h
          simp only [isNameChar, Bool.or_eq_true, beq_iff_eq]
          rcases h with ((((((h | h) | h) | h) | h) | h) | h) | h
          · exact Or.inl (Or.inl (Or.inl h))
          · exact Or.inl (Or.inr h)
          · exact Or.inr h
          · exact absurd h h1
          · exact absurd h h2
          · exact absurd h h3
          · exact Or.inl (Or.inl (Or.inr h))
          · exact absurd h h4

theorem all_safeKey {k : Str} (h : k.all isIdChar = true) : (safeKey k).all isNameChar = true := by
  rw [List.all_eq_true] at *
  intro x hx
  simp only [safeKey, List.mem_map] at hx
  obtain ⟨c, hc, rfl⟩ := hx
  exact isNameChar_safeChar (h c hc)

theorem pre_of_ne {p : Str} (h : p ≠ []) : pre p = p ++ ['/'] := by
  cases p with
  | nil => exact absurd rfl h
  | cons c cs => simp [pre]

theorem pre_length {p : Str} (h : p ≠ []) : (pre p).length = p.length + 1 := by
  rw [pre_of_ne h]; simp

/-! ## `make_edged_name` -/

/-- `name or 'x'` -/
def nz (n : Str) : Str := if n.isEmpty then ['x'] else n
/-- `name if _is_alnum(name[0]) else f'x{name[1:]}'` -/
def fixHead (n : Str) : Str := if headAlnum n then n else 'x' :: n.tail
/-- `name if _is_alnum(name[-1]) else f'{name[:-1]}x'` -/
def fixLast (n : Str) : Str := if lastAlnum n then n else n.dropLast ++ ['x']
/-- the name with both edges repaired -/
def fixed (n : Str) : Str := fixLast (fixHead (nz n))

theorem edgedName_eq (sfx : Str → Str) (name key : Str) (m : Int) :
    edgedName sfx name key m =
      if headAlnum name && lastAlnum name then name
      else if (sfx key).isSuffixOf (fixed name) || (sfx (safeKey key)).isSuffixOf (fixed name) then fixed name
      else (fixed name).take (max 1 (m - ((sfx key).length : Int))).toNat ++ sfx key := rfl

/-- **`make_edged_name` is the identity on names with alphanumeric edges** -/
theorem edgedName_of_edges (sfx : Str → Str) {name : Str} (key : Str) (m : Int)
    (h1 : headAlnum name = true) (h2 : lastAlnum name = true) : edgedName sfx name key m = name := by
  simp [edgedName_eq, h1, h2]

theorem nz_ne_nil (n : Str) : nz n ≠ [] := by
  unfold nz; cases n <;> simp

theorem nz_length (n : Str) : (nz n).length = max 1 n.length := by
  unfold nz; cases n with
  | nil => simp
  | cons c cs => simp

theorem nz_all {n : Str} (h : n.all isNameChar = true) : (nz n).all isNameChar = true := by
  unfold nz; cases n with
  | nil => decide
  | cons c cs => simpa using h

theorem fixHead_length {n : Str} (h : n ≠ []) : (fixHead n).length = n.length := by
  unfold fixHead
  cases n with
  | nil => exact absurd rfl h
  | cons c cs => by_cases h1 : headAlnum (c :: cs) = true <;> simp [h1]

theorem isAlnum_x : isAlnum 'x' = true := by decide

theorem fixHead_head (n : Str) : headAlnum (fixHead n) = true := by
  unfold fixHead
  by_cases hh : headAlnum n = true
  · simp [hh]
  · rw [if_neg hh]; simp [headAlnum, isAlnum_x]

theorem fixHead_all {n : Str} (h : n.all isNameChar = true) : (fixHead n).all isNameChar = true := by
  unfold fixHead
  split
  · exact h
  · rw [List.all_eq_true] at *
    intro x hx
    rcases List.mem_cons.1 hx with rfl | hx
    · decide
    · exact h x (List.mem_of_mem_tail hx)

theorem fixHead_of_head {n : Str} (h : headAlnum n = true) : fixHead n = n := by simp [fixHead, h]

theorem fixLast_length {n : Str} (h : n ≠ []) : (fixLast n).length = n.length := by
  unfold fixLast
  split
  · rfl
  · have : 1 ≤ n.length := by cases n with
      | nil => exact absurd rfl h
      | cons c cs => simp
    simp [List.length_dropLast]; omega

theorem fixLast_last (n : Str) : lastAlnum (fixLast n) = true := by
  unfold fixLast
  by_cases hh : lastAlnum n = true
  · simp [hh]
  · rw [if_neg hh]; simp [lastAlnum, isAlnum_x]

theorem fixLast_head {n : Str} (h : headAlnum n = true) : headAlnum (fixLast n) = true := by
  unfold fixLast
  split
  · exact h
  · cases n with
    | nil => simp [headAlnum] at h
    | cons c cs =>
      cases cs with
      | nil => simp [headAlnum, isAlnum_x]
      | cons d ds => simpa [headAlnum] using h

theorem fixLast_all {n : Str} (h : n.all isNameChar = true) : (fixLast n).all isNameChar = true := by
  unfold fixLast
  split
  · exact h
  · rw [List.all_eq_true] at *
    intro x hx
    rcases List.mem_append.1 hx with hx | hx
    · exact h x (List.dropLast_subset n hx)
    · simp at hx; subst hx; decide

theorem fixed_length (n : Str) : (fixed n).length = max 1 n.length := by
  unfold fixed
  have h1 := nz_ne_nil n
  have h2 : fixHead (nz n) ≠ [] := by
    intro e; have := fixHead_length h1; rw [e] at this
    cases hn : nz n with
    | nil => exact h1 hn
    | cons c cs => rw [hn] at this; simp at this
  rw [fixLast_length h2, fixHead_length h1, nz_length]

theorem fixed_head (n : Str) : headAlnum (fixed n) = true :=
  fixLast_head (fixHead_head (nz n))

theorem fixed_last (n : Str) : lastAlnum (fixed n) = true := fixLast_last _

theorem fixed_all {n : Str} (h : n.all isNameChar = true) : (fixed n).all isNameChar = true :=
  fixLast_all (fixHead_all (nz_all h))

theorem headAlnum_ne_nil {n : Str} (h : headAlnum n = true) : n ≠ [] := by
  intro e; subst e; simp [headAlnum] at h

theorem lastAlnum_ne_nil {n : Str} (h : lastAlnum n = true) : n ≠ [] := by
  intro e; subst e; simp [lastAlnum] at h

/-- **Every name `make_edged_name` returns is a valid Kubernetes name part of at most `m` characters**,
    for a name over the name alphabet that is at most `m ≤ 63` characters long, when the hash suffix of
    the id is usable and shorter than `m`. (No case distinction on *which* branch is taken.) -/
theorem edged_valid (sfx : Str → Str) (name key : Str) (m : Nat) (hall : name.all isNameChar = true)
    (hlen : name.length ≤ m) (hm63 : m ≤ 63) (hs : GoodSfx (sfx key)) (hm : (sfx key).length < m) :
    validNamePart (edgedName sfx name key (m : Int)) = true ∧ (edgedName sfx name key (m : Int)).length ≤ m := by
  obtain ⟨s1, s2, s3, s4⟩ := hs
  rw [edgedName_eq]
  by_cases hg : (headAlnum name && lastAlnum name) = true
  · simp only [hg, if_true]
    simp only [Bool.and_eq_true] at hg
    have hne := headAlnum_ne_nil hg.1
    have h1 : 1 ≤ name.length := by
      cases name with
      | nil => exact absurd rfl hne
      | cons c cs => simp
    exact ⟨validNamePart_intro h1 (by omega) hg.1 hg.2 hall, hlen⟩
  · simp only [hg, Bool.false_eq_true, if_false]
    have hfl := fixed_length name
    split
    · exact ⟨validNamePart_intro (by omega) (by omega) (fixed_head _) (fixed_last _) (fixed_all hall), by omega⟩
    · have hcut : (max 1 ((m : Int) - ((sfx key).length : Int))).toNat = m - (sfx key).length := by omega
      rw [hcut]
      have hsne : sfx key ≠ [] := by intro e; rw [e] at s1; simp at s1
      have hl : ((fixed name).take (m - (sfx key).length)).length ≤ m - (sfx key).length := by
        rw [List.length_take]; omega
      have hl1 : 1 ≤ ((fixed name).take (m - (sfx key).length)).length := by
        rw [List.length_take]; omega
      refine ⟨validNamePart_intro ?_ ?_ ?_ ?_ ?_, ?_⟩
      · rw [List.length_append]; omega
      · rw [List.length_append]; omega
      · apply headAlnum_append
        rw [headAlnum_take (by omega)]; exact fixed_head _
      · rw [lastAlnum_append _ hsne]; exact s4
      · exact all_append (all_take (fixed_all hall) _) s3
      · rw [List.length_append]; omega

/-- a name that is not returned untouched ends with the hash suffix of the id or of its safe form -/
theorem edged_suffix (sfx : Str → Str) (name key : Str) (m : Int)
    (h : ¬ (headAlnum name = true ∧ lastAlnum name = true)) :
    sfx key <:+ edgedName sfx name key m ∨ sfx (safeKey key) <:+ edgedName sfx name key m := by
  rw [edgedName_eq]
  have hg : ¬ (headAlnum name && lastAlnum name) = true := by simpa using h
  simp only [hg, Bool.false_eq_true, if_false]
  split
  · rename_i hh
    simp only [Bool.or_eq_true, List.isSuffixOf_iff_suffix] at hh
    exact hh
  · exact Or.inl (List.suffix_append _ _)

/-- **a cut-and-hashed name** `a ++ s` (`s` the suffix of the id or of its safe form, alphanumeric at the
    end, `a` non-empty) keeps its suffix: only a bad first character is replaced -/
theorem edged_hashed (sfx : Str → Str) (a s key : Str) (m : Int) (ha : a ≠ []) (hs : lastAlnum s = true)
    (hk : s = sfx key ∨ s = sfx (safeKey key)) :
    edgedName sfx (a ++ s) key m = fixHead a ++ s := by
  have hsne := lastAlnum_ne_nil hs
  have hl : lastAlnum (a ++ s) = true := by rw [lastAlnum_append _ hsne]; exact hs
  have hh : headAlnum (a ++ s) = headAlnum a := by
    cases a with
    | nil => exact absurd rfl ha
    | cons c cs => simp [headAlnum]
  by_cases hg : headAlnum a = true
  · rw [edgedName_of_edges sfx key m (by rw [hh]; exact hg) hl, fixHead_of_head hg]
  · rw [edgedName_eq]
    have hg' : ¬ (headAlnum (a ++ s) && lastAlnum (a ++ s)) = true := by simp [hh, hg]
    simp only [hg', Bool.false_eq_true, if_false]
    have hne : a ++ s ≠ [] := by simp [ha]
    have hnz : nz (a ++ s) = a ++ s := by
      unfold nz
      cases a with
      | nil => exact absurd rfl ha
      | cons c cs => simp
    have hfh : fixHead (a ++ s) = fixHead a ++ s := by
      unfold fixHead
      simp only [hh, hg, Bool.false_eq_true, if_false]
      cases a with
      | nil => exact absurd rfl ha
      | cons c cs => simp
    have hfa : fixHead a ≠ [] := by unfold fixHead; simp [hg]
    have hfx : fixed (a ++ s) = fixHead a ++ s := by
      unfold fixed
      rw [hnz, hfh]
      unfold fixLast
      rw [lastAlnum_append _ hsne, hs]; simp
    rw [hfx]
    have hsuf : ((sfx key).isSuffixOf (fixHead a ++ s) || (sfx (safeKey key)).isSuffixOf (fixHead a ++ s)) = true := by
      simp only [Bool.or_eq_true, List.isSuffixOf_iff_suffix]
      rcases hk with rfl | rfl
      · exact Or.inl (List.suffix_append _ _)
      · exact Or.inr (List.suffix_append _ _)
    simp [hsuf]

theorem suffix_unique {t t' l : Str} (h : t <:+ l) (h' : t' <:+ l) (hl : t.length = t'.length) : t = t' := by
  rw [List.suffix_iff_eq_drop] at h h'
  rw [h, h', ← hl]

/-! ## the name parts -/

theorem v2Key_eq (p : Str) (sfx : Str → Str) (k : Str) : v2Key p sfx k = pre p ++ v2Name sfx k := by
  simp [v2Key, v2Name, v2Raw]

theorem v1Key_eq (p : Str) (sfx : Str → Str) (k : Str) : v1Key p sfx k = pre p ++ v1Name p sfx k := by
  simp [v1Key, v1Name, v1Raw]

theorem v2Raw_short {sfx : Str → Str} {k : Str} (h : k.length ≤ 63) : v2Raw sfx k = safeKey k := by
  have : ¬ k.length > 63 := by omega
  simp only [v2Raw, this, if_false, List.length_nil, List.append_nil]
  rw [List.take_of_length_le]
  rw [safeKey_length]; omega

theorem v2Raw_long {sfx : Str → Str} {k : Str} (h : k.length > 63) :
    v2Raw sfx k = (safeKey k).take (63 - (sfx k).length) ++ sfx k := by
  simp [v2Raw, h]

theorem v2Raw_long_length {sfx : Str → Str} {k : Str} (h : k.length > 63) (hs : (sfx k).length ≤ 63) :
    ((safeKey k).take (63 - (sfx k).length)).length = 63 - (sfx k).length := by
  rw [List.length_take, safeKey_length]; omega

theorem pyTake_nonneg (s : Str) {n : Int} (h : 0 ≤ n) : pyTake s n = s.take n.toNat := by
  simp [pyTake, h]

/-- the id is its own V1 raw name when prefix + `/` + id fit into 63 characters -/
theorem v1Raw_short {p : Str} {sfx : Str → Str} {k : Str} (h : (pre p).length + k.length ≤ 63) :
    v1Raw p sfx k = safeKey k := by
  have hi : ((safeKey k).length : Int) ≤ 63 - ((pre p).length : Int) := by rw [safeKey_length]; omega
  have hnn : (0 : Int) ≤ 63 - ((pre p).length : Int) - (([] : Str).length : Int) := by simp; omega
  simp only [v1Raw, hi, if_true, List.append_nil]
  rw [pyTake_nonneg _ hnn, List.take_of_length_le]
  rw [safeKey_length]; simp; omega

/-- the V1 raw name of an id too long to be its own V1 name, when there is room for the suffix -/
theorem v1Raw_hashed {p : Str} {sfx : Str → Str} {k : Str}
    (h : 63 < (pre p).length + k.length) (hl : (pre p).length + (sfx (safeKey k)).length < 63) :
    v1Raw p sfx k =
      (safeKey k).take (63 - (pre p).length - (sfx (safeKey k)).length) ++ sfx (safeKey k) ∧
    ((safeKey k).take (63 - (pre p).length - (sfx (safeKey k)).length)).length
      = 63 - (pre p).length - (sfx (safeKey k)).length := by
  have hi : ¬ ((safeKey k).length : Int) ≤ 63 - ((pre p).length : Int) := by
    rw [safeKey_length]; omega
  have hnn : (0 : Int) ≤ 63 - ((pre p).length : Int) - ((sfx (safeKey k)).length : Int) := by omega
  constructor
  · simp only [v1Raw, hi, if_false]
    rw [pyTake_nonneg _ hnn]
    congr 2
    omega
  · rw [List.length_take, safeKey_length]; omega

theorem verbatim_ne_nil {k : Str} (h : Verbatim k) : k ≠ [] := by
  intro e; subst e; exact absurd h.1 (by decide)

/-- **verbatim**: an id of at most 63 characters whose safe form has alphanumeric edges is its own V2 name -/
theorem v2Name_verbatim {sfx : Str → Str} {k : Str} (h : k.length ≤ 63) (hv : Verbatim k) :
    v2Name sfx k = safeKey k := by
  rw [v2Name, v2Raw_short h]; exact edgedName_of_edges sfx k 63 hv.1 hv.2

theorem v1Name_verbatim {p : Str} {sfx : Str → Str} {k : Str} (h : (pre p).length + k.length ≤ 63)
    (hv : Verbatim k) : v1Name p sfx k = safeKey k := by
  rw [v1Name, v1Raw_short h]; exact edgedName_of_edges sfx k _ hv.1 hv.2

/-- **cut-and-hashed V2 name**: 63 characters ending with the digest of the id; a bad first character
    (the only edge that can be bad) is replaced by `x` -/
theorem v2Name_long {sfx : Str → Str} {k : Str} (h : k.length > 63) (hs1 : (sfx k).length ≤ 62)
    (hs : lastAlnum (sfx k) = true) :
    v2Name sfx k = fixHead ((safeKey k).take (63 - (sfx k).length)) ++ sfx k ∧
    (fixHead ((safeKey k).take (63 - (sfx k).length))).length = 63 - (sfx k).length := by
  have hl := v2Raw_long_length (sfx := sfx) h (by omega)
  have hne : (safeKey k).take (63 - (sfx k).length) ≠ [] := by
    intro e; rw [e] at hl; simp at hl; omega
  refine ⟨?_, by rw [fixHead_length hne, hl]⟩
  rw [v2Name, v2Raw_long h]
  exact edged_hashed sfx _ _ k 63 hne hs (Or.inl rfl)

/-- **cut-and-hashed V1 name**: `63 - |prefix/|` characters ending with the digest of the safe form -/
theorem v1Name_hashed {p : Str} {sfx : Str → Str} {k : Str}
    (h : 63 < (pre p).length + k.length) (hl : (pre p).length + (sfx (safeKey k)).length < 63)
    (hs : lastAlnum (sfx (safeKey k)) = true) :
    v1Name p sfx k =
      fixHead ((safeKey k).take (63 - (pre p).length - (sfx (safeKey k)).length)) ++ sfx (safeKey k) ∧
    (fixHead ((safeKey k).take (63 - (pre p).length - (sfx (safeKey k)).length))).length
      = 63 - (pre p).length - (sfx (safeKey k)).length := by
  obtain ⟨e, l⟩ := v1Raw_hashed (sfx := sfx) h hl
  have hne : (safeKey k).take (63 - (pre p).length - (sfx (safeKey k)).length) ≠ [] := by
    intro e'; rw [e'] at l; simp at l; omega
  refine ⟨?_, by rw [fixHead_length hne, l]⟩
  rw [v1Name, e]
  exact edged_hashed sfx _ _ k _ hne hs (Or.inr rfl)

/-- **every re-formed V2 name carries a digest**: the V2 name of an id that is longer than 63
    characters or whose safe form has a bad edge ends with the suffix of the id or of its safe form -/
theorem v2Name_reformed_suffix (sfx : Str → Str) {k : Str} (h : k.length > 63 ∨ ¬ Verbatim k) :
    sfx k <:+ v2Name sfx k ∨ sfx (safeKey k) <:+ v2Name sfx k := by
  by_cases hg : headAlnum (v2Raw sfx k) = true ∧ lastAlnum (v2Raw sfx k) = true
  · rw [v2Name, edgedName_of_edges sfx k 63 hg.1 hg.2]
    by_cases hl : k.length > 63
    · rw [v2Raw_long hl]; exact Or.inl (List.suffix_append _ _)
    · rw [v2Raw_short (by omega)] at hg
      rcases h with h | h
      · exact absurd h hl
      · exact absurd hg h
  · exact edged_suffix sfx _ k 63 hg

/-- … and every re-formed V1 name -/
theorem v1Name_reformed_suffix (p : Str) (sfx : Str → Str) {k : Str}
    (h : 63 < (pre p).length + k.length ∨ ¬ Verbatim k) :
    sfx k <:+ v1Name p sfx k ∨ sfx (safeKey k) <:+ v1Name p sfx k := by
  by_cases hg : headAlnum (v1Raw p sfx k) = true ∧ lastAlnum (v1Raw p sfx k) = true
  · rw [v1Name, edgedName_of_edges sfx k _ hg.1 hg.2]
    by_cases hl : 63 < (pre p).length + k.length
    · have hi : ¬ ((safeKey k).length : Int) ≤ 63 - ((pre p).length : Int) := by
        rw [safeKey_length]; omega
      simp only [v1Raw, hi, if_false]
      exact Or.inr (List.suffix_append _ _)
    · rw [v1Raw_short (by omega)] at hg
      rcases h with h | h
      · exact absurd h hl
      · exact absurd hg h
  · exact edged_suffix sfx _ k _ hg

/-! ## valid names -/

theorem v2Raw_all (sfx : Str → Str) {k : Str} (hk : IdChars k) (hs : k.length > 63 → (sfx k).all isNameChar = true) :
    (v2Raw sfx k).all isNameChar = true := by
  have hall := all_safeKey hk
  by_cases h : k.length > 63
  · rw [v2Raw_long h]; exact all_append (all_take hall _) (hs h)
  · rw [v2Raw_short (by omega)]; exact hall

theorem v2Raw_length (sfx : Str → Str) {k : Str} (hs : k.length > 63 → (sfx k).length ≤ 63) :
    (v2Raw sfx k).length ≤ 63 := by
  by_cases h : k.length > 63
  · rw [v2Raw_long h, List.length_append, v2Raw_long_length h (hs h)]; have := hs h; omega
  · rw [v2Raw_short (by omega), safeKey_length]; omega

/-- **the V2 name part is always a valid Kubernetes name part** — for every id over the alphabet
    (any length, the empty id included), given only the facts about the digest suffix of the id -/
theorem validName_v2 (sfx : Str → Str) (k : Str) (hk : IdChars k) (hs : GoodSfx (sfx k)) :
    validNamePart (v2Name sfx k) = true := by
  have := hs
  obtain ⟨s1, s2, s3, s4⟩ := this
  exact (edged_valid sfx (v2Raw sfx k) k 63 (v2Raw_all sfx hk (fun _ => s3))
    (v2Raw_length sfx (fun _ => by omega)) (by omega) hs (by omega)).1

/-- **the V1 name part** is a valid name part, and prefix + `/` + name stay within 63 characters,
    whenever there is room for a suffix (`v1_fits`, with suffixes no longer than the one measured) -/
theorem validName_v1 (p : Str) (sfx : Str → Str) (k : Str) (hk : IdChars k)
    (hroom : (pre p).length + (sfx []).length < 63)
    (hs : GoodSfx (sfx k) ∧ (sfx k).length ≤ (sfx []).length)
    (hs1 : 63 < (pre p).length + k.length → GoodSfx (sfx (safeKey k)) ∧ (sfx (safeKey k)).length ≤ (sfx []).length) :
    validNamePart (v1Name p sfx k) = true ∧ (pre p).length + (v1Name p sfx k).length ≤ 63 := by
  have hall := all_safeKey hk
  have hm : ((63 - (pre p).length : Nat) : Int) = 63 - ((pre p).length : Int) := by omega
  have hraw : (v1Raw p sfx k).all isNameChar = true ∧ (v1Raw p sfx k).length ≤ 63 - (pre p).length := by
    by_cases h : 63 < (pre p).length + k.length
    · obtain ⟨⟨_, _, t3, _⟩, tl⟩ := hs1 h
      obtain ⟨e, l⟩ := v1Raw_hashed (sfx := sfx) h (by omega)
      rw [e]
      exact ⟨all_append (all_take hall _) t3, by rw [List.length_append, l]; omega⟩
    · rw [v1Raw_short (by omega), safeKey_length]
      exact ⟨hall, by omega⟩
  have := edged_valid sfx (v1Raw p sfx k) k (63 - (pre p).length) hraw.1 hraw.2 (by omega) hs.1 (by have := hs.2; omega)
  rw [hm] at this
  exact ⟨this.1, by have := this.2; unfold v1Name; omega⟩

/-! ## `prefix/name` is a qualified name -/

theorem dnsScan_noslash (s : Str) : ∀ (n : Nat) (prev : Bool), dnsScan s n prev = true → ∀ c ∈ s, c ≠ '/' := by
  induction s with
  | nil => intro _ _ _ c hc; cases hc
  | cons a as ih =>
    intro n prev h c hc
    unfold dnsScan at h
    have hrest : (∃ n' prev', dnsScan as n' prev' = true) ∧ a ≠ '/' := by
      by_cases h1 : a = '.'
      · subst h1
        simp only [if_true, Bool.and_eq_true] at h
        exact ⟨⟨_, _, h.2⟩, by decide⟩
      · simp only [h1, if_false] at h
        by_cases h2 : isLowerAlnum a = true
        · simp only [h2, if_true, Bool.and_eq_true] at h
          refine ⟨⟨_, _, h.2⟩, ?_⟩
          intro e; subst e; revert h2; decide
        · simp only [h2, Bool.false_eq_true, if_false] at h
          by_cases h3 : a = '-'
          · subst h3
            simp only [if_true, Bool.and_eq_true] at h
            exact ⟨⟨_, _, h.2⟩, by decide⟩
          · simp [h3] at h
    obtain ⟨⟨n', prev', hr⟩, ha⟩ := hrest
    rcases List.mem_cons.1 hc with rfl | hc'
    · exact ha
    · exact ih n' prev' hr c hc'

theorem validPrefix_noslash {p : Str} (h : validPrefix p = true) : ∀ c ∈ p, c ≠ '/' := by
  simp only [validPrefix, Bool.and_eq_true] at h
  exact dnsScan_noslash p 0 false h.2

theorem validPrefix_ne_nil {p : Str} (h : validPrefix p = true) : p ≠ [] := by
  intro e; subst e; simp [validPrefix, dnsScan] at h

theorem splitSlash_append (p n : Str) (h : ∀ c ∈ p, c ≠ '/') : splitSlash (p ++ '/' :: n) = some (p, n) := by
  induction p with
  | nil => simp [splitSlash]
  | cons a as ih =>
    have ha : a ≠ '/' := h a (by simp)
    simp [splitSlash, ha, ih (fun c hc => h c (by simp [hc]))]

theorem validQualified_intro {p n : Str} (hp : validPrefix p = true) (hn : validNamePart n = true) :
    validQualified (p ++ '/' :: n) = true := by
  simp [validQualified, splitSlash_append p n (validPrefix_noslash hp), hp, hn]

/-! ## distinct prefixes never meet -/

theorem slash_split_unique (p p' n n' : Str) (hp : ∀ c ∈ p, c ≠ '/') (hp' : ∀ c ∈ p', c ≠ '/')
    (h : p ++ '/' :: n = p' ++ '/' :: n') : p = p' ∧ n = n' := by
  have h1 := splitSlash_append p n hp
  rw [h, splitSlash_append p' n' hp'] at h1
  simp at h1
  exact ⟨h1.1.symm, h1.2.symm⟩

/-- a valid DNS-subdomain prefix is in particular plain (non-empty, no `/`) -/
theorem plain_of_valid {p : Str} (h : validPrefix p = true) : PlainPrefix p :=
  ⟨validPrefix_ne_nil h, validPrefix_noslash h⟩

/-! ## a handler's names versus the `kopf-managed` marker -/

theorem safeKey_markKey_ne {d : Bool} {k k' : Str} (h : safeKey k ≠ safeKey k') :
    safeKey (markKey d k) ≠ safeKey (markKey d k') := by
  cases d with
  | false => simpa [markKey] using h
  | true =>
    simp only [markKey, if_true, safeKey, List.map_append]
    intro e
    exact h (List.append_cancel_right e)

theorem name_ne_marker {p : Str} (hp : p ≠ []) {n : Str} (h : n ≠ "kopf-managed".toList) :
    pre p ++ n ≠ markerName p := by
  rw [pre_of_ne hp]
  intro e
  have e' : p ++ '/' :: n = p ++ '/' :: "kopf-managed".toList := by simpa [markerName] using e
  have := List.append_cancel_left e'
  simp at this
  exact h this

theorem v2Key_ne_marker_short {p : Str} (hp : p ≠ []) (sfx : Str → Str) {k : Str} (hk : k.length ≤ 63)
    (hv : Verbatim k) (hm : safeKey k ≠ "kopf-managed".toList) : v2Key p sfx k ≠ markerName p := by
  rw [v2Key_eq, v2Name_verbatim hk hv]
  exact name_ne_marker hp hm

/-- a name that ends with a suffix which is not the end of `kopf-managed` is not the marker -/
theorem ne_marker_of_suffix {n t : Str} (h : t <:+ n) (ht : t.isSuffixOf "kopf-managed".toList = false) :
    n ≠ "kopf-managed".toList := by
  intro e
  rw [e, ← List.isSuffixOf_iff_suffix, ht] at h
  cases h

theorem validQualified_split {p n : Str} (hp : ∀ c ∈ p, c ≠ '/') :
    validQualified (p ++ '/' :: n) = (validPrefix p && validNamePart n) := by
  simp [validQualified, splitSlash_append p n hp]

theorem validNamePart_edges {n : Str} (h : validNamePart n = true) : headAlnum n = true ∧ lastAlnum n = true := by
  simp [validNamePart] at h
  exact ⟨h.1.1.2, h.1.2⟩

/-! ## how many names `make_keys` yields -/

theorem v1Key_eq_v2Key_of_room {p : Str} {sfx : Str → Str} {k : Str}
    (h : (pre p).length + k.length ≤ 63) (hv : Verbatim k) : v1Key p sfx k = v2Key p sfx k := by
  rw [v1Key_eq, v2Key_eq, v2Name_verbatim (by omega) hv, v1Name_verbatim h hv]

/-- one name only: V1 keys switched off, or no room for them (prefix of 55+ characters), or the
    id is short enough — and alphanumeric at both ends — to be its own V1 name -/
theorem makeKeys_single {p : Str} {v1 : Bool} {sfx : Str → Str} {k : Str}
    (h : v1 = false ∨ v1Fits p sfx = false ∨ ((pre p).length + k.length ≤ 63 ∧ Verbatim k)) :
    makeKeys p v1 sfx k = [v2Key p sfx k] := by
  unfold makeKeys
  rcases h with h | h | h
  · simp [h]
  · simp [h]
  · simp [v1Key_eq_v2Key_of_room h.1 h.2]

theorem makeKeys_subset (p : Str) (v1 : Bool) (sfx : Str → Str) (k : Str) :
    ∀ n ∈ makeKeys p v1 sfx k, n = v2Key p sfx k ∨ (n = v1Key p sfx k ∧ v1 = true ∧ v1Fits p sfx = true) := by
  intro n hn
  unfold makeKeys at hn
  split at hn
  · rename_i h
    simp only [Bool.and_eq_true] at h
    simp at hn
    rcases hn with rfl | rfl
    · exact Or.inl rfl
    · exact Or.inr ⟨rfl, h.1.1, h.1.2⟩
  · simp at hn; exact Or.inl hn

theorem v1Fits_iff (p : Str) (sfx : Str → Str) : v1Fits p sfx = true ↔ (pre p).length + (sfx []).length < 63 := by
  simp [v1Fits]

/-- **every name of a re-formed id carries a digest**: if the id is longer than 63 characters or its
    safe form has a bad edge, each of its annotation names (V2 and V1) is `prefix/…` + a name part
    that ends with the suffix of the id or of its safe form -/
theorem names_reformed_suffix (p : Str) (v1 : Bool) (sfx : Str → Str) {k : Str}
    (h : k.length > 63 ∨ ¬ Verbatim k) :
    ∀ n ∈ makeKeys p v1 sfx k, ∃ e, n = pre p ++ e ∧ (sfx k <:+ e ∨ sfx (safeKey k) <:+ e) := by
  intro n hn
  rcases makeKeys_subset p v1 sfx k n hn with rfl | ⟨rfl, _, _⟩
  · exact ⟨_, v2Key_eq p sfx k, v2Name_reformed_suffix sfx h⟩
  · refine ⟨_, v1Key_eq p sfx k, v1Name_reformed_suffix p sfx ?_⟩
    rcases h with h | h
    · exact Or.inl (by omega)
    · exact Or.inr h

/-- two re-formed ids whose digests (of the id and of the safe form: four suffixes of one length)
    are pairwise different share no annotation name -/
theorem names_disjoint_reformed {p : Str} {sfx : Str → Str} {k k' : Str}
    (hr : k.length > 63 ∨ ¬ Verbatim k) (hr' : k'.length > 63 ∨ ¬ Verbatim k')
    (hlen : ∀ t ∈ [sfx k, sfx (safeKey k)], ∀ t' ∈ [sfx k', sfx (safeKey k')], t.length = t'.length ∧ t ≠ t')
    (v1 : Bool) :
    ∀ n ∈ makeKeys p v1 sfx k, ∀ n' ∈ makeKeys p v1 sfx k', n' ≠ n := by
  intro n hn n' hn' e
  obtain ⟨x, rfl, hx⟩ := names_reformed_suffix p v1 sfx hr n hn
  obtain ⟨x', rfl, hx'⟩ := names_reformed_suffix p v1 sfx hr' n' hn'
  have exx : x' = x := List.append_cancel_left e
  subst exx
  have key : ∀ t ∈ [sfx k, sfx (safeKey k)], ∀ t' ∈ [sfx k', sfx (safeKey k')], t <:+ x' → t' <:+ x' → False :=
    fun t ht t' ht' h1 h2 => (hlen t ht t' ht').2 (suffix_unique h1 h2 (hlen t ht t' ht').1)
  rcases hx with hx | hx <;> rcases hx' with hx' | hx'
  · exact key _ (by simp) _ (by simp) hx hx'
  · exact key _ (by simp) _ (by simp) hx hx'
  · exact key _ (by simp) _ (by simp) hx hx'
  · exact key _ (by simp) _ (by simp) hx hx'

/-- two ids of at most 63 characters, alphanumeric at both ends, both too long to be their own V1
    names, with different safe forms and different (equally long) digests of the safe forms, share no
    annotation name at all: their V2 names are their safe forms, their V1 names are shorter and end
    with the digests -/
theorem names_disjoint_hashed {p : Str} {sfx : Str → Str} {k k' : Str}
    (hk : k.length ≤ 63) (hk' : k'.length ≤ 63) (hv : Verbatim k) (hv' : Verbatim k')
    (hb : 63 < (pre p).length + k.length) (hb' : 63 < (pre p).length + k'.length)
    (hroom : (pre p).length + (sfx (safeKey k)).length < 63)
    (hsl : (sfx (safeKey k)).length = (sfx (safeKey k')).length)
    (hla : lastAlnum (sfx (safeKey k)) = true) (hla' : lastAlnum (sfx (safeKey k')) = true)
    (hsne : sfx (safeKey k) ≠ sfx (safeKey k'))
    (hne : safeKey k ≠ safeKey k') (v1 : Bool) :
    ∀ n ∈ makeKeys p v1 sfx k, ∀ n' ∈ makeKeys p v1 sfx k', n' ≠ n := by
  obtain ⟨e1, l1⟩ := v1Name_hashed hb hroom hla
  obtain ⟨e1', l1'⟩ := v1Name_hashed (sfx := sfx) hb' (by omega) hla'
  have hv1len : (v1Name p sfx k).length = 63 - (pre p).length := by
    rw [e1, List.length_append, l1]; omega
  have hv1len' : (v1Name p sfx k').length = 63 - (pre p).length := by
    rw [e1', List.length_append, l1']; omega
  intro n hn n' hn' e
  subst e
  rcases makeKeys_subset p v1 sfx k n' hn with h | ⟨h, _, _⟩ <;>
    rcases makeKeys_subset p v1 sfx k' n' hn' with h' | ⟨h', _, _⟩
  · rw [h, v2Key_eq, v2Key_eq, v2Name_verbatim hk hv, v2Name_verbatim hk' hv'] at h'
    exact hne (List.append_cancel_left h')
  · -- v2 name of k = v1 name of k'
    rw [h, v2Key_eq, v1Key_eq, v2Name_verbatim hk hv] at h'
    have := congrArg List.length (List.append_cancel_left h')
    rw [safeKey_length] at this
    omega
  · rw [h, v1Key_eq, v2Key_eq, v2Name_verbatim hk' hv'] at h'
    have := congrArg List.length (List.append_cancel_left h')
    rw [safeKey_length] at this
    omega
  · rw [h, v1Key_eq, v1Key_eq] at h'
    have e2 := List.append_cancel_left h'
    rw [e1, e1'] at e2
    have := List.append_inj e2 (by rw [l1, l1', hsl])
    exact hsne this.2

theorem v1Key_ne_marker_hashed {p : Str} (hp : p ≠ []) {sfx : Str → Str} {k : Str}
    (hb : 63 < (pre p).length + k.length) (hroom : (pre p).length + (sfx (safeKey k)).length < 63)
    (hla : lastAlnum (sfx (safeKey k)) = true)
    (h51 : (pre p).length ≠ 51) : v1Key p sfx k ≠ markerName p := by
  obtain ⟨e1, l1⟩ := v1Name_hashed hb hroom hla
  rw [v1Key_eq]
  apply name_ne_marker hp
  intro e
  have h3 := congrArg List.length e
  rw [e1, List.length_append, l1] at h3
  have : ("kopf-managed".toList).length = 12 := by decide
  omega

/-- no V1 key without room: whenever prefix + `/` + suffix fill the 63 characters, `make_keys`
    yields the V2 name only — for every id, every hash, whatever the `v1` flag (kopf e916847) -/
theorem no_v1_key_without_room (p : Str) (v1 : Bool) (sfx : Str → Str) (k : Str)
    (h : 63 ≤ (pre p).length + (sfx []).length) : makeKeys p v1 sfx k = [v2Key p sfx k] :=
  makeKeys_single (Or.inr (Or.inl (by simp [v1Fits]; omega)))

end Kopf.C16
