/-
  Helper lemmas for the C12 throttler theorems (core Lean only).
-/
import Kopf.Model.C12_Throttle
namespace Kopf.C12

theorem aioSleep_none (r : Int) : (aioSleep r none).2 = true := by
  unfold aioSleep; split <;> rfl

theorem phase1_inactive (s : Throttler) (t : Int) (w : Option Nat) (h : s.activeUntil = none) :
    phase1 s t w = (0, s) := by
  simp [phase1, h]

theorem cycle_inactive (cfg : Delays) (s : Throttler) (t : Int) (i : CycleIn) (h : s.activeUntil = none) :
    cycle cfg s t i = phase2 cfg s t 0 i := by
  simp [cycle, phase1_inactive s t i.wake1 h]

/-- an error-of-interest cycle on a throttler that is not active, with no wake-up in the 2nd sleep -/
theorem cycle_error_quiet (cfg : Delays) (s : Throttler) (t : Int) (ran : Bool) (dur : Nat)
    (w1 : Option Nat) (h : s.activeUntil = none) :
    let o := cycle cfg s t ⟨.error true, ran, dur, w1, none⟩
    let nd := nextDelay cfg.nth (s.src.getD 0) s.last
    o.shouldRun = true ∧ o.escaped = .none_ ∧ o.activated = nd.1 ∧ o.st.activeUntil = none ∧
    o.st.src = some nd.2 ∧ o.st.last = (match nd.1 with | some d => some d | none => s.last) ∧
    o.sleep2 = (match nd.1 with | some d => pauseLen d | none => 0) ∧ o.fin = t + dur + o.sleep2 := by
  rw [cycle_inactive _ s t _ h]
  unfold phase2
  simp only [h, Option.isNone_none, Bool.true_or, if_true, Bool.not_true, Bool.false_eq_true, if_false]
  cases (nextDelay cfg.nth (s.src.getD 0) s.last).1 with
  | none => simp [h]
  | some d =>
    have : (aioSleep (t + ↑dur + d - (t + ↑dur)) none).1 = pauseLen d := by
      have e : t + ↑dur + d - (t + ↑dur) = d := by omega
      rw [e]; unfold aioSleep pauseLen; split <;> rfl
    simp [aioSleep_none, h, this]

/-- after the 1st sleep the throttler is either unchanged or merely de-activated -/
theorem phase1_cases (s : Throttler) (t : Int) (w : Option Nat) :
    (phase1 s t w).2 = s ∨ (phase1 s t w).2 = { s with activeUntil := none } := by
  unfold phase1
  cases s.activeUntil with
  | none => simp
  | some u => cases h : (aioSleep (u - t) w).2 <;> simp [h]

theorem afterErrors_fresh (l : List Int) : AfterErrors l 0 Throttler.fresh := by
  simp [AfterErrors, Throttler.fresh]

theorem error_step (l : List Int) (p : Nat) (s : Throttler) (t : Int) (ran : Bool) (dur : Nat)
    (w1 : Option Nat) (h : AfterErrors l p s) :
    (cycle (Delays.ofList l) s t ⟨.error true, ran, dur, w1, none⟩).activated = l[min p (l.length - 1)]? ∧
    AfterErrors l (p + 1) (cycle (Delays.ofList l) s t ⟨.error true, ran, dur, w1, none⟩).st ∧
    (cycle (Delays.ofList l) s t ⟨.error true, ran, dur, w1, none⟩).shouldRun = true ∧
    (cycle (Delays.ofList l) s t ⟨.error true, ran, dur, w1, none⟩).escaped = .none_ ∧
    (cycle (Delays.ofList l) s t ⟨.error true, ran, dur, w1, none⟩).sleep2 =
      (match l[min p (l.length - 1)]? with | some d => pauseLen d | none => 0) ∧
    (cycle (Delays.ofList l) s t ⟨.error true, ran, dur, w1, none⟩).fin =
      t + dur + (cycle (Delays.ofList l) s t ⟨.error true, ran, dur, w1, none⟩).sleep2 := by
  obtain ⟨hau, hs⟩ := h
  have hq := cycle_error_quiet (Delays.ofList l) s t ran dur w1 hau
  simp only [Delays.ofList, Delays.nth] at *
  obtain ⟨h1, h2, h3, h4, h5, h6, h7, h8⟩ := hq
  have hact : (cycle (Delays.seq fun i => l[i]?) s t ⟨.error true, ran, dur, w1, none⟩).activated
      = l[min p (l.length - 1)]? := ?hact
  refine ⟨hact, ⟨h4, ?_⟩, h1, h2, by rw [h7, ← h3, hact], h8⟩
  case hact =>
    rw [h3]
    rcases hs with ⟨hp, hsrc, hlast⟩ | ⟨hp, hsrc, hlast⟩
    · subst hp
      simp only [hsrc, hlast, Option.getD_none, nextDelay]
      cases hl : l[0]? with
      | none => simp [hl]
      | some d => simp [hl]
    · simp only [hsrc, hlast, Option.getD_some, nextDelay]
      by_cases hlt : p < l.length
      · have : min p l.length = p := by omega
        have h2 : min p (l.length - 1) = p := by omega
        simp [this, h2, hlt]
      · have : min p l.length = l.length := by omega
        have h2 : min p (l.length - 1) = l.length - 1 := by omega
        simp [this, h2]
  · right
    refine ⟨by omega, ?_, ?_⟩
    · rw [h5]
      rcases hs with ⟨hp, hsrc, hlast⟩ | ⟨hp, hsrc, hlast⟩
      · subst hp
        simp only [hsrc, hlast, Option.getD_none, nextDelay]
        cases hl : l[0]? with
        | none =>
          have : l.length = 0 := by
            cases l with
            | nil => rfl
            | cons a b => simp at hl
          simp [this]
        | some d =>
          have : 0 < l.length := by
            cases l with
            | nil => simp at hl
            | cons a b => simp
          simp; omega
      · simp only [hsrc, hlast, Option.getD_some, nextDelay]
        by_cases hlt : p < l.length
        · have : min p l.length = p := by omega
          simp [this, hlt]; omega
        · have : min p l.length = l.length := by omega
          simp [this]; omega
    · rw [h6]
      rcases hs with ⟨hp, hsrc, hlast⟩ | ⟨hp, hsrc, hlast⟩
      · subst hp
        simp only [hsrc, hlast, Option.getD_none, nextDelay]
        cases hl : l[0]? with
        | none =>
          have : l.length = 0 := by
            cases l with
            | nil => rfl
            | cons a b => simp at hl
          simp [this]
        | some d =>
          have : 0 < l.length := by
            cases l with
            | nil => simp at hl
            | cons a b => simp
          have h1 : min (0 + 1) l.length - 1 = 0 := by omega
          simp [h1, hl]
      · simp only [hsrc, hlast, Option.getD_some, nextDelay]
        by_cases hlt : p < l.length
        · have : min p l.length = p := by omega
          have h2 : min (p + 1) l.length - 1 = p := by omega
          simp [this, hlt, h2]
        · have : min p l.length = l.length := by omega
          have h2 : min (p + 1) l.length - 1 = l.length - 1 := by omega
          simp [this, h2]
          cases l[l.length - 1]? <;> rfl

theorem phase2_shouldRun (cfg : Delays) (s1 : Throttler) (t1 sl1 : Int) (i : CycleIn) :
    (phase2 cfg s1 t1 sl1 i).shouldRun = s1.activeUntil.isNone ∧ (phase2 cfg s1 t1 sl1 i).sleep1 = sl1 := by
  unfold phase2
  simp only
  repeat' split
  all_goals exact ⟨rfl, rfl⟩

theorem cycle_shouldRun (cfg : Delays) (s : Throttler) (t : Int) (i : CycleIn) :
    (cycle cfg s t i).shouldRun = (phase1 s t i.wake1).2.activeUntil.isNone ∧
    (cycle cfg s t i).sleep1 = (phase1 s t i.wake1).1 := by
  unfold cycle
  exact phase2_shouldRun _ _ _ _ _

theorem phase1_sleep (s : Throttler) (t : Int) :
    (phase1 s t none).2.activeUntil = none ∧ ∀ u, s.activeUntil = some u → u ≤ t + (phase1 s t none).1 := by
  unfold phase1
  cases h : s.activeUntil with
  | none => simp [h]
  | some u =>
    simp [aioSleep_none]
    unfold aioSleep; split <;> simp <;> omega

theorem phase2_success (cfg : Delays) (s1 : Throttler) (t1 sl1 : Int) (i : CycleIn)
    (hb : i.body = .success) :
    (phase2 cfg s1 t1 sl1 i).escaped = .none_ ∧ (phase2 cfg s1 t1 sl1 i).activated = none ∧
    (s1.activeUntil = none → (phase2 cfg s1 t1 sl1 i).st = Throttler.fresh) ∧
    (s1.activeUntil ≠ none → (phase2 cfg s1 t1 sl1 i).st = s1) := by
  unfold phase2
  cases h : s1.activeUntil <;> simp [hb, Throttler.fresh]

theorem phase2_escaped (cfg : Delays) (s1 : Throttler) (t1 sl1 : Int) (i : CycleIn) :
    (i.body = .error true → s1.activeUntil = none → (phase2 cfg s1 t1 sl1 i).escaped = .none_) ∧
    (i.body = .baseExc → (s1.activeUntil = none ∨ i.ran = true) →
      (phase2 cfg s1 t1 sl1 i).escaped = .baseException) ∧
    (i.body = .error false → (s1.activeUntil = none ∨ i.ran = true) →
      (phase2 cfg s1 t1 sl1 i).escaped = .exception) ∧
    (i.body = .error true → s1.activeUntil ≠ none → i.ran = true →
      (phase2 cfg s1 t1 sl1 i).escaped = .exception) := by
  unfold phase2
  refine ⟨?_, ?_, ?_, ?_⟩
  · intro hb h
    simp only [hb, h, Option.isNone_none, Bool.true_or, if_true, Bool.not_true, Bool.false_eq_true, if_false]
    cases (nextDelay cfg.nth (s1.src.getD 0) s1.last).1 <;> rfl
  · intro hb h
    rcases h with h | h <;> simp [hb, h]
  · intro hb h
    rcases h with h | h <;> simp [hb, h]
  · intro hb h hr
    cases hu : s1.activeUntil with
    | none => exact absurd hu h
    | some u => simp [hb, hr]

/-- while the pause lasts and a wake-up interrupts the 1st sleep: nothing changes -/
theorem phase1_interrupted (s : Throttler) (t : Int) (u : Int) (w : Nat)
    (hu : s.activeUntil = some u) (hlt : (w : Int) < u - t) :
    phase1 s t (some w) = ((w : Int), s) := by
  have h : aioSleep (u - t) (some w) = ((w : Int), false) := by
    unfold aioSleep
    have : ¬ (u - t ≤ 0) := by omega
    simp [this, hlt]
  simp [phase1, hu, h]

theorem phase2_skipped (cfg : Delays) (s1 : Throttler) (t1 sl1 : Int) (i : CycleIn) (u : Int)
    (hu : s1.activeUntil = some u) (hr : i.ran = false) :
    (phase2 cfg s1 t1 sl1 i).st = s1 ∧ (phase2 cfg s1 t1 sl1 i).escaped = .none_ ∧
    (phase2 cfg s1 t1 sl1 i).shouldRun = false := by
  unfold phase2
  simp [hu, hr]

end Kopf.C12
