/-
  C20 helper lemmas: the shutdown strategy as a whole. `advance_or_wait`: every cooperatively reachable, not yet
  exited state has an internal non-`delay` step that decreases `mu`, or nothing is urgent — and after a trigger the
  latter only while `run_tasks` waits for the hung tasks' grace to pass.
-/
import Kopf.Lemmas.C20_Advance
import Kopf.Lemmas.C20_InvT
set_option linter.unusedVariables false
namespace Kopf.C20

variable {cfg : Cfg} {s : State}

theorem adv_rootEnd' (r : Root) (how : TS) (hi : internal s (.rootEnd r how) = true)
    (hsome : (step cfg s (.rootEnd r how)).isSome = true) (hlive : (s.st (.root r)).live = true) : Advance cfg s := by
  cases hs : step cfg s (.rootEnd r how) with
  | none => simp [hs] at hsome
  | some s' => exact adv_rootEnd r how s' hi hs hlive

/-- a root task other than startup/cleanup that is in its `finally:`, or has an undelivered cancellation, can go on -/
theorem adv_root (hne : s.rt ≠ .exited) (hB : InvB s) (hF : InvF s)
    (hW : ∀ o, noLiveWorkerOf s o = true) (hDm : ∀ d, d < s.nDaemons → s.dm d ≠ .running)
    (hS1 : ∀ i, i < s.nSubs → (s.st (.sub i)).isStopping = false)
    (hS2 : ∀ i, i < s.nSubs → s.st (.sub i) = .running → s.creq (.sub i) = false)
    (r : Root) (hr : r ≠ .startupCleanup)
    (h : (s.st (.root r)).isStopping = true ∨ ((s.st (.root r)).live = true ∧ s.creq (.root r) = true)) :
    Advance cfg s := by
  have hcoop : coopStopped s = true := by
    rw [coopStopped_iff]; intro d hd _ _; exact hDm d hd
  cases hst : s.st (.root r) with
  | absent => exact absurd hst (hF.rootSt r)
  | failed | cancelled | done => simp [hst] at h
  | stopping f dl =>
    rcases hF.stoppingKind r (by simp [hst]) with hk | hk | hk
    · exact adv_rootEnd' r (failTS f) (by cases f <;> simp [internal, failTS, hst])
        (by simp [step, hne, failTS_ended, hk, hst, hcoop]) (by simp [hst])
    · exact adv_rootEnd' r (failTS f) (by cases f <;> simp [internal, failTS, hst])
        (by simp [step, hne, failTS_ended, hk, hst, hW]) (by simp [hst])
    · have hro := (kind_orchestrator_iff r).mp hk
      subst hro
      -- a live ensemble task that the orchestrator has stopped would be cancelled (then `hS2`) or stopping (then `hS1`)
      have hdead : ∀ i, i < s.nSubs → (s.st (.sub i)).live = true →
          (s.creq (.sub i) = true ∨ (s.st (.sub i)).isStopping = true) → False := by
        intro i hi hl h
        rcases h with hc | hs
        · rcases hF.subSt i hi with h1 | h1 | h1
          · rw [hS2 i hi h1] at hc; cases hc
          · rw [hS1 i hi] at h1; cases h1
          · rw [TS.ended_not_live h1] at hl; cases hl
        · rw [hS1 i hi] at hs; cases hs
      cases hop : s.orchPing with
      | false =>
        -- the first stop is over (no stream is alive): the second one begins
        have hns : noLiveStream s = true := by
          rw [noLiveStream_iff]
          intro i hi hk
          cases hl : (s.st (.sub i)).live with
          | false => rfl
          | true =>
            rcases hB.orchStopSubs (by simp [hst]) i hi hl with hc | hs | ⟨hk', _⟩
            · exact (hdead i hi hl (Or.inl hc)).elim
            · exact (hdead i hi hl (Or.inr hs)).elim
            · exact absurd hk' hk
        exact adv_orchStopPingers hne f dl hst hop hns
      | true =>
        -- both stops are over: no ensemble task is alive
        have hns : noLiveSub s = true := by
          rw [noLiveSub_iff]
          intro i hi
          cases hl : (s.st (.sub i)).live with
          | false => rfl
          | true =>
            rcases hB.orchStopSubs (by simp [hst]) i hi hl with hc | hs | ⟨_, hq⟩
            · exact (hdead i hi hl (Or.inl hc)).elim
            · exact (hdead i hi hl (Or.inr hs)).elim
            · rw [hop] at hq; cases hq
        exact adv_rootEnd' .orchestrator (failTS f) (by cases f <;> simp [internal, failTS, hst])
          (by simp [step, hne, failTS_ended, Root.kind, hst, hns, hop]) (by simp [hst])
  | running =>
    have hc : s.creq (.root r) = true := by simpa [hst] using h
    cases hk : r.kind with
    | flagChecker =>
      exact adv_rootEnd' r .done (by simp [internal]) (by simp [step, hne, hk, hst, hc]) (by simp [hst])
    | ultimate =>
      exact adv_rootEnd' r .done (by simp [internal]) (by simp [step, hne, hk, hst, hc]) (by simp [hst])
    | startupCleanup => exact absurd ((kind_startupCleanup_iff r).mp hk) hr
    | coreWatch =>
      exact adv_rootEnd' r .cancelled (by simp [internal]) (by simp [step, hne, hk, hst, hc]) (by simp [hst])
    | simple =>
      exact adv_rootEnd' r .cancelled (by simp [internal]) (by simp [step, hne, hk, hst, hc]) (by simp [hst])
    | killer =>
      have := (kind_killer_iff r).mp hk
      subst this
      exact adv_rootStopping_killer hne hst hc
    | observer => exact adv_rootStopping_observer hne r hk hst hc
    | orchestrator =>
      have := (kind_orchestrator_iff r).mp hk
      subst this
      exact adv_rootStopping_orch hne hst hc
  | waitingFlag =>
    have hc : s.creq (.root r) = true := by simpa [hst] using h
    have hg := hF.rootWF r hst
    cases hk : r.kind with
    | flagChecker => simp [Root.guarded, hk] at hg
    | ultimate => simp [Root.guarded, hk] at hg
    | startupCleanup => simp [Root.guarded, hk] at hg
    | coreWatch => simp [Root.guarded, hk] at hg
    | simple =>
      exact adv_rootEnd' r .cancelled (by simp [internal]) (by simp [step, hne, hk, hst, hc]) (by simp [hst])
    | killer =>
      exact adv_rootEnd' r .cancelled (by simp [internal]) (by simp [step, hne, hk, hst, hc]) (by simp [hst])
    | observer =>
      exact adv_rootEnd' r .cancelled (by simp [internal]) (by simp [step, hne, hk, hst, hc, hW]) (by simp [hst])
    | orchestrator =>
      exact adv_rootEnd' r .cancelled (by simp [internal]) (by simp [step, hne, hk, hst, hc]) (by simp [hst])

/-- the only state in which a triggered operator lets time pass: `run_tasks` waits for the hung tasks, the grace is
    not over, and passing it is cooperative -/
def HungWaiting (cfg : Cfg) (s : State) : Prop :=
  ∃ dl, s.rt = .hungWait dl ∧ s.now < dl ∧ coopDelay cfg s (dl - s.now) = true

set_option maxHeartbeats 1000000 in
theorem advance_or_wait (hr : ReachC cfg s) (hne : s.rt ≠ .exited) :
    Advance cfg s ∨ (urgent cfg s = false ∧ (Triggered s → HungWaiting cfg s)) := by
  have hB := InvB.reach hr.reach
  have hC := InvC.reach hr.reach
  have hD := InvD.reachC hr
  have hE := InvE.reach (cfg := cfg) hr.reach
  have hF := InvF.reach hr.reach
  -- helper tasks, daemons, workers can always finish
  by_cases hd : ∃ d, d < s.nDaemons ∧ s.dm d = .running
  · obtain ⟨d, hd1, hd2⟩ := hd; exact Or.inl (adv_daemonExit hne d hd1 hd2)
  have hDm : ∀ d, d < s.nDaemons → s.dm d ≠ .running := fun d h1 h2 => hd ⟨d, h1, h2⟩
  by_cases ho : 0 < s.orphans
  · exact Or.inl (adv_orphanEnd hne ho)
  have ho' : s.orphans = 0 := by omega
  by_cases hw : ∃ w o, w < s.nWorkers ∧ s.wk w = some (o, .running)
  · obtain ⟨w, o, h1, h2⟩ := hw; exact Or.inl (adv_workerEnd hne w h1 o h2)
  have hW : ∀ o, noLiveWorkerOf s o = true := by
    intro o; rw [noLiveWorkerOf_iff]; intro w h1 h2; exact hw ⟨w, o, h1, h2⟩
  -- ensemble tasks in their `finally:` / with an undelivered cancellation
  by_cases hs1 : ∃ i, i < s.nSubs ∧ (s.st (.sub i)).isStopping = true
  · obtain ⟨i, hi, hst⟩ := hs1
    by_cases hp : s.kind i = .pinger ∧ s.withdrawn i = false
    · exact Or.inl (adv_withdraw hne i hi hp.1 hst hp.2)
    · obtain ⟨f, dl, hst'⟩ := (TS.isStopping_iff _).mp hst
      refine Or.inl (adv_subEnd hne i hi f dl hst' (hW _) ?_)
      intro hk
      cases h : s.withdrawn i with
      | true => rfl
      | false => exact absurd ⟨hk, h⟩ hp
  have hS1 : ∀ i, i < s.nSubs → (s.st (.sub i)).isStopping = false := by
    intro i hi
    cases h : (s.st (.sub i)).isStopping with
    | false => rfl
    | true => exact absurd ⟨i, hi, h⟩ hs1
  by_cases hs2 : ∃ i, i < s.nSubs ∧ s.st (.sub i) = .running ∧ s.creq (.sub i) = true
  · obtain ⟨i, hi, h1, h2⟩ := hs2; exact Or.inl (adv_subStopping hne i hi h1 h2)
  have hS2 : ∀ i, i < s.nSubs → s.st (.sub i) = .running → s.creq (.sub i) = false := by
    intro i hi h1
    cases h : s.creq (.sub i) with
    | false => rfl
    | true => exact absurd ⟨i, hi, h1, h⟩ hs2
  -- root tasks other than startup/cleanup
  by_cases hr1 : ∃ r, r ≠ Root.startupCleanup ∧
      ((s.st (.root r)).isStopping = true ∨ ((s.st (.root r)).live = true ∧ s.creq (.root r) = true))
  · obtain ⟨r, hrne, h⟩ := hr1; exact Or.inl (adv_root hne hB hF hW hDm hS1 hS2 r hrne h)
  have hR : ∀ r, r ≠ Root.startupCleanup → (s.st (.root r)).isStopping = false ∧
      ((s.st (.root r)).live = true → s.creq (.root r) = false) := by
    intro r hrne
    refine ⟨?_, ?_⟩
    · cases h : (s.st (.root r)).isStopping with
      | false => rfl
      | true => exact absurd ⟨r, hrne, Or.inl h⟩ hr1
    · intro hl
      cases h : s.creq (.root r) with
      | false => rfl
      | true => exact absurd ⟨r, hrne, Or.inr ⟨hl, h⟩⟩ hr1
  by_cases hr2 : ∃ r, s.st (.root r) = .waitingFlag ∧ s.started = true
  · obtain ⟨r, h1, h2⟩ := hr2
    have hrne : r ≠ .startupCleanup := by
      intro hc; subst hc; have := hF.rootWF _ h1; simp [Root.guarded, Root.kind] at this
    exact Or.inl (adv_enter hne r h1 h2 ((hR r hrne).2 (by simp [h1])))
  by_cases hr3 : s.st (.root .stopFlag) = .running ∧ s.stopFlagSet = true
  · exact Or.inl (adv_rootEnd' .stopFlag .done (by simp [internal])
      (by simp [step, hne, Root.kind, hr3.1, hr3.2]) (by simp [hr3.1]))
  by_cases hr4 : s.st (.root .coreWatcher) = .running ∧ cfg.coreWatched = true ∧ s.core = .failed
  · refine Or.inl (adv_rootEnd' .coreWatcher .failed (by simp [internal]) ?_ (by simp [hr4.1]))
    have hcr := (hR .coreWatcher (by decide)).2 (by simp [hr4.1])
    simp [step, hne, Root.kind, hr4.1, hr4.2.1, hr4.2.2, hcr]
  -- the core task
  by_cases hc1 : s.core.live = true ∧ s.coreCreq = true
  · exact Or.inl (adv_coreEnd hne hc1.1 hc1.2)
  by_cases hc2 : s.core = .waitingFlag ∧ s.started = true
  · have : s.coreCreq = false := by
      cases h : s.coreCreq with
      | false => rfl
      | true => exact absurd ⟨by simp [hc2.1], h⟩ hc1
    exact Or.inl (adv_coreEnter hne hc2.1 hc2.2 this)
  -- `run_tasks`
  by_cases ha1 : s.rt = .waiting ∧ anyRootEnded s = true
  · exact Or.inl (adv_rtStopRoots ha1.1 ha1.2)
  by_cases ha2 : s.rt = .stoppingRoots ∧ allRootsEnded s = true
  · exact Or.inl (adv_rtHungWait ha2.1 ha2.2)
  by_cases ha3 : s.rt = .cStoppingRoots ∧ allRootsEnded s = true
  · exact Or.inl (adv_rtCStopHung ha3.1 ha3.2)
  have hhl : hungLive s = s.waiter := by
    have : anyDaemonRunning s = false := (anyDaemonRunning_false_iff s).mpr hDm
    simp [hungLive, this, ho']
  by_cases ha4 : ∃ dl, s.rt = .hungWait dl ∧ (hungLive s = false ∨ dl ≤ s.now)
  · obtain ⟨dl, h1, h2⟩ := ha4; exact Or.inl (adv_rtStopHung dl h1 h2)
  by_cases ha5 : s.rt = .stoppingHung ∨ s.rt = .cStoppingHung
  · cases hwt : s.waiter with
    | true => exact Or.inl (adv_waiterEnd hwt ha5)
    | false => exact Or.inl (adv_rtExit (by rw [hhl, hwt]) ha5)
  -- startup/cleanup
  have scCases : (s.st (.root .startupCleanup)).ended = true ∨
      (s.st (.root .startupCleanup) = .running ∧ s.creq (.root .startupCleanup) = false
        ∧ (s.sc = .startup ∨ s.sc = .sleeping)) ∨ Advance cfg s := by
    cases he : (s.st (.root .startupCleanup)).ended with
    | true => exact Or.inl rfl
    | false =>
      have hrun := hF.scRun he
      cases hsc : s.sc with
      | init => exact Or.inr (Or.inr (adv_scStartupBegin hne hsc))
      | startup =>
        cases hcr : s.creq (.root .startupCleanup) with
        | true => exact Or.inr (Or.inr (adv_scStartupCancelled hne hsc hcr))
        | false => exact Or.inr (Or.inl ⟨hrun, rfl, Or.inl rfl⟩)
      | startupOk => exact Or.inr (Or.inr (adv_setStarted hne hsc))
      | flagged => exact Or.inr (Or.inr (adv_ready hne hsc))
      | sleeping =>
        cases hcr : s.creq (.root .startupCleanup) with
        | true => exact Or.inr (Or.inr (adv_scWake hne hsc hcr))
        | false => exact Or.inr (Or.inl ⟨hrun, rfl, Or.inr rfl⟩)
      | waitRoots =>
        cases hcr : s.creq (.root .startupCleanup) with
        | true => exact Or.inr (Or.inr (adv_scCut_waitRoots hne hsc hcr))
        | false =>
        cases hoe : othersEnded s with
        | true => exact Or.inr (Or.inr (adv_scWaitRootsEnd hne hsc hoe hcr))
        | false =>
          -- some other root task is alive; `run_tasks` is stopping them, so it is cancelled or in its `finally:`
          exfalso
          have hnw : s.rt ≠ .waiting := by
            intro hw'
            have := (hC.waitingEarly hw').1
            simp [hsc, scEarly] at this
          have hph := stoppingPhase_of_live hC hnw he
          obtain ⟨t, ht, _⟩ := hC.t0Some hnw
          have : ∃ r, r ≠ Root.startupCleanup ∧ (s.st (.root r)).ended = false := by
            apply Classical.byContradiction
            intro hcon
            have : othersEnded s = true := by
              rw [othersEnded_iff]
              intro r hrne
              cases h : (s.st (.root r)).ended with
              | true => rfl
              | false => exact absurd ⟨r, hrne, h⟩ hcon
            rw [this] at hoe; cases hoe
          obtain ⟨r, hrne, hre⟩ := this
          have hlive := TS.live_of_not_ended hre (hF.rootSt r)
          rcases hD.a t ht hph r hrne hlive with ⟨hcq, _⟩ | hst
          · rw [(hR r hrne).2 hlive] at hcq; cases hcq
          · rw [(hR r hrne).1] at hst; cases hst
      | stopCore p => exact Or.inr (Or.inr (adv_scStopCore hne p hsc))
      | coreStopping p =>
        cases hcl : s.core.live with
        | true => exact absurd ⟨hcl, hE.coreStopReq p hsc hcl⟩ hc1
        | false => exact Or.inr (Or.inr (adv_scCoreStopped hne p hsc hcl))
      | cleanup t => exact Or.inr (Or.inr (adv_scCleanupEnd hne t hsc))
      | closing => exact Or.inr (Or.inr (adv_vaultClosed hne hsc))
      | over p =>
        refine Or.inr (Or.inr (adv_rootEnd' .startupCleanup p.ts (by simp [internal]) ?_ (by simp [hrun])))
        simp [step, hne, Pend.ts_ended, Root.kind, hsc, hrun]
  rcases scCases with hscE | hscQ | hadv
  case inr.inr => exact Or.inl hadv
  all_goals
    -- nothing left to do: nothing is urgent
    have hscLive : (s.st (.root .startupCleanup)).live = true → s.creq (.root .startupCleanup) = false := by
      intro hl
      first
      | (rw [TS.ended_not_live hscE] at hl; cases hl)
      | exact hscQ.2.1
    have hscStop : (s.st (.root .startupCleanup)).isStopping = false := by
      cases h : (s.st (.root .startupCleanup)).isStopping with
      | false => rfl
      | true => have := hF.stoppingKind _ h; simp [Root.kind] at this
    have hroot : ∀ r, taskUrgent s (.root r) = false := by
      intro r
      by_cases hrne : r = .startupCleanup
      · subst hrne
        cases hst : s.st (.root .startupCleanup) <;> simp_all [taskUrgent, dlReached]
      · have ⟨h1, h2⟩ := hR r hrne
        cases hst : s.st (.root r) <;> simp_all [taskUrgent, dlReached]
    have hsub : ∀ i, i < s.nSubs → taskUrgent s (.sub i) = false := by
      intro i hi
      have h1 := hS1 i hi
      rcases hF.subSt i hi with h2 | h2 | h2
      · simp [taskUrgent, h2, dlReached, hS2 i hi h2]
      · rw [h1] at h2; cases h2
      · cases hst : s.st (.sub i) <;> simp_all [taskUrgent, dlReached]
    have hscU : scUrgent cfg s = false := by
      first
      | (obtain ⟨p, hp, _⟩ := hC.scOver hscE
         simp [scUrgent, hp, TS.ended_not_live hscE])
      | (rcases hscQ.2.2 with h | h <;> simp [scUrgent, h])
    have hrtU : rtUrgent s = false := by
      cases hrt : s.rt with
      | waiting =>
        cases h : anyRootEnded s with
        | false => simp [rtUrgent, hrt, h]
        | true => exact absurd ⟨hrt, h⟩ ha1
      | stoppingRoots =>
        cases h : allRootsEnded s with
        | false => simp [rtUrgent, hrt, h]
        | true => exact absurd ⟨hrt, h⟩ ha2
      | cStoppingRoots =>
        cases h : allRootsEnded s with
        | false => simp [rtUrgent, hrt, h]
        | true => exact absurd ⟨hrt, h⟩ ha3
      | hungWait dl =>
        simp only [rtUrgent, hrt]
        cases h1 : hungLive s with
        | false => exact absurd ⟨dl, hrt, Or.inl h1⟩ ha4
        | true =>
          by_cases h2 : dl ≤ s.now
          · exact absurd ⟨dl, hrt, Or.inr h2⟩ ha4
          · simp [h2]
      | stoppingHung => exact absurd (Or.inl hrt) ha5
      | cStoppingHung => exact absurd (Or.inr hrt) ha5
      | exited => exact absurd hrt hne
    have hurg : urgent cfg s = false := by
      unfold urgent
      have e1 : Root.all.any (fun r => taskUrgent s (.root r)) = false := by
        rw [List.any_eq_false]; intro r _; simp [hroot r]
      have e2 : (List.range s.nSubs).any (fun i => taskUrgent s (.sub i)) = false := by
        rw [List.any_eq_false]; intro i hi; simp [hsub i (List.mem_range.mp hi)]
      have e3 : (s.core.live && s.coreCreq) = false := by
        cases h1 : s.core.live <;> cases h2 : s.coreCreq <;> simp
        exact hc1 ⟨h1, h2⟩
      have e4 : (s.started && (s.core == .waitingFlag || Root.all.any (fun r => s.st (.root r) == .waitingFlag))) = false := by
        cases hs : s.started with
        | false => simp
        | true =>
          have c1 : (s.core == .waitingFlag) = false := by
            cases h : s.core <;> simp
            exact hc2 ⟨h, hs⟩
          have c2 : Root.all.any (fun r => s.st (.root r) == .waitingFlag) = false := by
            rw [List.any_eq_false]
            intro r _
            cases h : s.st (.root r) <;> simp
            exact hr2 ⟨r, h, hs⟩
          simp [c1, c2]
      have e5 : (s.stopFlagSet && s.st (.root .stopFlag) == .running) = false := by
        cases h1 : s.stopFlagSet <;> cases h2 : s.st (.root .stopFlag) <;> simp
        exact hr3 ⟨h2, h1⟩
      have e6 : (cfg.coreWatched && s.core == .failed && s.st (.root .coreWatcher) == .running) = false := by
        cases h1 : cfg.coreWatched <;> cases h2 : s.core <;> cases h3 : s.st (.root .coreWatcher) <;> simp
        exact hr4 ⟨h3, h1, h2⟩
      have e7 : (match s.st (.root .orchestrator) with
          | .stopping _ _ => noLiveSub s || (!s.orchPing && noLiveStream s) | _ => false) = false := by
        have := (hR .orchestrator (by decide)).1
        cases h : s.st (.root .orchestrator) <;> simp_all
      simp only [hrtU, hscU, e1, e2, e3, e4, e5, e6, Bool.or_false, Bool.false_or]
      exact e7
    refine Or.inr ⟨hurg, ?_⟩
    intro htr
    -- after a trigger, only the wait for the hung tasks is left
    have stopping_absurd : stoppingPhase s → False := by
      intro hph
      have hnw : s.rt ≠ .waiting := by rcases hph with h | h <;> simp [h]
      obtain ⟨t, ht, _⟩ := hC.t0Some hnw
      have hnall : allRootsEnded s = false := by
        cases h : allRootsEnded s with
        | false => rfl
        | true => rcases hph with h' | h'
                  · exact absurd ⟨h', h⟩ ha2
                  · exact absurd ⟨h', h⟩ ha3
      have : ∃ r, (s.st (.root r)).ended = false := by
        apply Classical.byContradiction
        intro hcon
        have : allRootsEnded s = true := by
          rw [allRootsEnded_iff]
          intro r
          cases h : (s.st (.root r)).ended with
          | true => rfl
          | false => exact absurd ⟨r, h⟩ hcon
        rw [this] at hnall; cases hnall
      obtain ⟨r, hre⟩ := this
      have hlive := TS.live_of_not_ended hre (hF.rootSt r)
      by_cases hrne : r = .startupCleanup
      · subst hrne
        rcases hD.e t ht hph hlive with ⟨hcq, _⟩ | hlate
        · rw [hscLive hlive] at hcq; cases hcq
        · first
          | (rw [hscE] at hre; cases hre)
          | (rcases hscQ.2.2 with h | h <;> simp [h, scLate] at hlate)
      · rcases hD.a t ht hph r hrne hlive with ⟨hcq, _⟩ | hst
        · rw [(hR r hrne).2 hlive] at hcq; cases hcq
        · rw [(hR r hrne).1] at hst; cases hst
    cases hrt : s.rt with
    | waiting =>
      exfalso
      rcases htr with h | h | h | h
      · exact h hrt
      · exact ha1 ⟨hrt, h⟩
      · -- the stop flag is set: the stop-flag checker has ended, or will
        cases hst : s.st (.root .stopFlag) with
        | running => exact hr3 ⟨hst, h⟩
        | waitingFlag => have := hF.rootWF _ hst; simp [Root.guarded, Root.kind] at this
        | absent => exact hF.rootSt _ hst
        | stopping f dl => have := hF.stoppingKind .stopFlag (by simp [hst]); simp [Root.kind] at this
        | failed | cancelled | done =>
          exact ha1 ⟨hrt, (anyRootEnded_iff s).mpr ⟨.stopFlag, by simp [hst]⟩⟩
      · -- an escalated failure: the failing task / the task it escalates to is on its way (`InvT`) — all excluded above
        have hT := InvT.reachC hr
        obtain ⟨tf, htf⟩ : ∃ tf, s.tFail = some tf := by
          cases h' : s.tFail with
          | none => rw [h'] at h; cases h
          | some tf => exact ⟨tf, rfl⟩
        have hsome := hT.whoSome (by rw [htf]; rfl)
        cases hwho : s.failWho with
        | none => rw [hwho] at hsome; cases hsome
        | some x =>
          cases x with
          | root r =>
            rcases hT.whoRoot tf r hrt htf hwho with h1 | ⟨h1, h2, _⟩ | ⟨h1, _⟩ | ⟨h1, h2, h3⟩ | ⟨h1, h2, h3, h4⟩
            · exact ha1 ⟨hrt, (anyRootEnded_iff s).mpr ⟨r, h1⟩⟩
            · by_cases hrne : r = .startupCleanup
              · subst hrne; have := hscLive (by simp [h1]); rw [this] at h2; cases h2
              · have := (hR r hrne).2 (by simp [h1]); rw [this] at h2; cases h2
            · by_cases hrne : r = .startupCleanup
              · subst hrne; rw [hscStop] at h1; cases h1
              · rw [(hR r hrne).1] at h1; cases h1
            · subst h1
              first
              | (rw [TS.ended_not_live hscE] at h2; cases h2)
              | (rcases hscQ.2.2 with h' | h' <;> simp [h', scFailPath] at h3)
            · exact hr4 ⟨by rw [← h1]; exact h2, h4, h3⟩
          | sub i =>
            obtain ⟨_, hi, _, hd⟩ := hT.whoSub tf i hrt htf hwho
            rcases hd with ⟨h1, h2, _, _⟩ | ⟨h1, _⟩ | ⟨h1, hd⟩
            · rw [hS2 i hi h1] at h2; cases h2
            · rw [hS1 i hi] at h1; cases h1
            · rcases hd with ⟨h2, h3, _⟩ | ⟨h2, _⟩ | h2
              · have := (hR .orchestrator (by decide)).2 (by simp [h2]); rw [this] at h3; cases h3
              · rw [(hR .orchestrator (by decide)).1] at h2; cases h2
              · exact ha1 ⟨hrt, (anyRootEnded_iff s).mpr ⟨.orchestrator, h2⟩⟩
    | stoppingRoots => exact absurd (Or.inl hrt) stopping_absurd
    | cStoppingRoots => exact absurd (Or.inr hrt) stopping_absurd
    | stoppingHung => exact absurd (Or.inl hrt) ha5
    | cStoppingHung => exact absurd (Or.inr hrt) ha5
    | exited => exact absurd hrt hne
    | hungWait dl =>
      have hlt : s.now < dl := by
        by_cases h : dl ≤ s.now
        · exact absurd ⟨dl, hrt, Or.inr h⟩ ha4
        · omega
      refine ⟨dl, hrt, hlt, ?_⟩
      rw [coopDelay_iff]
      refine ⟨hurg, ?_⟩
      have hall := hC.hungRoots (by simp [hrt]) (by simp [hrt]) (by simp [hrt])
      unfold deadlinesAllow
      have d1 : Root.all.all (fun r => dlAllows s.now (dl - s.now) (s.st (.root r))) = true := by
        rw [List.all_eq_true]; intro r _
        have := hall r
        cases h : s.st (.root r) <;> simp_all [dlAllows]
      have d2 : (List.range s.nSubs).all (fun i => dlAllows s.now (dl - s.now) (s.st (.sub i))) = true := by
        rw [List.all_eq_true]; intro i hi
        have := hS1 i (List.mem_range.mp hi)
        cases h : s.st (.sub i) <;> simp_all [dlAllows]
      have d4 : (match s.sc with | .cleanup since => decide (s.now + (dl - s.now) ≤ since + cfg.C) | _ => true) = true := by
        obtain ⟨p, hp, _⟩ := hC.scOver (hall .startupCleanup)
        simp [hp]
      have d3 : decide (s.now + (dl - s.now) ≤ dl) = true := by simp; omega
      rw [d1, d2]
      simp only [hrt, d3, Bool.and_self, Bool.true_and]
      exact d4

theorem stepC_eq_step {l : Label} (hnd : ∀ n, l ≠ .delay n) : stepC cfg s l = step cfg s l := by
  cases l <;> first | rfl | exact absurd rfl (hnd _)

/-- every label but the four at which a run leaves the model (`Label.leaves`: three of the historical variants, `orchCrash` of the
    current tree) leaves the flag
    `abandoned` as it is -/
theorem abandoned_step {l : Label} {s' : State} (h : step cfg s l = some s') (hl : l.leaves = false) :
    s'.abandoned = s.abandoned := by
  cases l <;> simp only [step] at h
  all_goals (repeat' (split at h))
  all_goals (first | (cases h; done) | skip)
  all_goals (cases h)
  all_goals (first | rfl | (simp [Label.leaves] at hl))

/-- `orchAbandon` does not decrease the measure: no step of the shutdown strategy (`Advance`) is an abandonment -/
theorem orchAbandon_mu {s' : State} (h : step cfg s .orchAbandon = some s') : mu cfg s' = mu cfg s := by
  simp only [step] at h
  split at h
  · cases h; rfl
  · cases h

theorem returns_aux : ∀ (n : Nat) (s : State), mu cfg s ≤ n → ReachC cfg s → Triggered s →
    ∃ ls s', runI cfg s ls = some s' ∧ s'.rt = .exited ∧ s'.abandoned = s.abandoned := by
  intro n
  induction n with
  | zero =>
    intro s hmu hr ht
    by_cases hex : s.rt = .exited
    · exact ⟨[], s, rfl, hex, rfl⟩
    · exfalso
      rcases advance_or_wait hr hex with ⟨l, s1, _, _, _, hlt⟩ | ⟨_, hw⟩
      · omega
      · obtain ⟨dl, hrt, hlt, _⟩ := hw ht
        have : 0 < mu cfg s := by simp only [mu, hrt, rtRank]; omega
        omega
  | succ n ih =>
    intro s hmu hr ht
    by_cases hex : s.rt = .exited
    · exact ⟨[], s, rfl, hex, rfl⟩
    · rcases advance_or_wait hr hex with ⟨l, s1, hint, hnd, hstep, hlt⟩ | ⟨_, hw⟩
      · have hsc : stepC cfg s l = some s1 := by rw [stepC_eq_step hnd]; exact hstep
        have hlab : l.leaves = false := by
          cases hlv : l.leaves with
          | false => rfl
          | true =>
            exfalso
            cases l <;> simp [Label.leaves] at hlv
            · have := orchAbandon_mu hstep
              omega
            · simp [internal] at hint
            · simp [internal] at hint
            · simp [internal] at hint
        have hna1 : s1.abandoned = s.abandoned := abandoned_step hstep hlab
        obtain ⟨ls, s', hrun, hex', hna'⟩ := ih s1 (by omega) (hr.step hsc) (triggered_step ht hstep)
        exact ⟨l :: ls, s', by simp [runI, hint, hsc, hrun], hex', by rw [hna', hna1]⟩
      · obtain ⟨dl, hrt, hlt, hco⟩ := hw ht
        have hstep : step cfg s (.delay (dl - s.now)) = some { s with now := s.now + (dl - s.now) } := by
          simp [step, hex]; omega
        have hsc : stepC cfg s (.delay (dl - s.now)) = some { s with now := s.now + (dl - s.now) } := by
          simp only [stepC, hco, if_true]; exact hstep
        have hlt' : mu cfg { s with now := s.now + (dl - s.now) } < mu cfg s := by
          simp only [mu, hrt, hungTime]; omega
        obtain ⟨ls, s', hrun, hex', hna'⟩ := ih _ (by omega) (hr.step hsc) (triggered_step ht hstep)
        exact ⟨.delay (dl - s.now) :: ls, s', by simp [runI, internal, hsc, hrun], hex', hna'⟩

end Kopf.C20
