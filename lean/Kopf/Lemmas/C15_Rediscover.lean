/-
  C15 helper lemmas -- the resource criterion over a history of discoveries (`Selector.route`) and the
  memoised variant (`Selector.routeMemo`, seed C15g): the variant agrees with the code exactly on the
  histories in which an endpoint never comes back with a different outcome.
-/
import Kopf.Model.C15_Selector
namespace Kopf.C15

/-- the cache only holds true outcomes of resources that agree with everything still to come -/
theorem routeMemoFrom_eq_route (s : Selector) :
    ∀ (hist : List Resource) (cache : List ((String × String × String) × Bool)),
      (∀ r ∈ hist, ∀ b, cache.lookup r.endpoint = some b → s.check r = b) →
      (∀ r ∈ hist, ∀ r' ∈ hist, r.endpoint = r'.endpoint → s.check r = s.check r') →
      s.routeMemoFrom cache hist = s.route hist := by
  intro hist
  induction hist with
  | nil => intro _ _ _; rfl
  | cons r rest ih =>
    intro cache hc hs
    have hrest : ∀ x ∈ rest, ∀ y ∈ rest, x.endpoint = y.endpoint → s.check x = s.check y :=
      fun x hx y hy => hs x (List.mem_cons_of_mem _ hx) y (List.mem_cons_of_mem _ hy)
    unfold Selector.routeMemoFrom
    cases hl : cache.lookup r.endpoint with
    | some b =>
      have hb : s.check r = b := hc r (List.mem_cons_self ..) b hl
      simp only [Selector.route, List.map_cons]
      rw [hb]
      congr 1
      exact ih cache (fun x hx => hc x (List.mem_cons_of_mem _ hx)) hrest
    | none =>
      simp only [Selector.route, List.map_cons]
      congr 1
      refine ih _ ?_ hrest
      intro x hx b hlx
      rw [List.lookup_cons] at hlx
      by_cases he : x.endpoint = r.endpoint
      · have : (x.endpoint == r.endpoint) = true := by simp [he]
        rw [this] at hlx
        have hb : s.check r = b := by simpa using hlx
        rw [← hb]
        exact hs x (List.mem_cons_of_mem _ hx) r (List.mem_cons_self ..) he
      · have : (x.endpoint == r.endpoint) = false := by simp [he]
        rw [this] at hlx
        exact hc x (List.mem_cons_of_mem _ hx) b hlx

end Kopf.C15
