import Kopf.Lemmas.C02_Cycle

/-! Helper lemmas for the sub-handler pass (`subPass`). Property statements are in `Props/C02.lean`. -/
namespace Kopf.C02

/-- the sub-state right before execution -/
def subSt0 (cfg : Cfg) (P : Store) (now : Tick) : St :=
  withHandlers (fromStorage P cfg.owned) cfg.selected cfg.reason now

theorem subPass_invoked_eq (cfg : Cfg) (P : Store) (now now1 : Tick) (exec : Id → Nat → Outcome) :
    (subPass cfg P now now1 exec).invoked = (execOnce cfg (subSt0 cfg P now) now now1 exec).invoked := rfl

theorem subPass_st_eq (cfg : Cfg) (P : Store) (now now1 : Tick) (exec : Id → Nat → Outcome) :
    (subPass cfg P now now1 exec).st = (execOnce cfg (subSt0 cfg P now) now now1 exec).st := rfl

theorem subPass_P'_eq (cfg : Cfg) (P : Store) (now now1 : Tick) (exec : Id → Nat → Outcome) :
    (subPass cfg P now now1 exec).P' = store P (subPass cfg P now now1 exec).st := rfl

theorem subPass_final_eq (cfg : Cfg) (P : Store) (now now1 : Tick) (exec : Id → Nat → Outcome) :
    (subPass cfg P now now1 exec).outcome.final = done (subPass cfg P now now1 exec).st (known cfg) := rfl

/-- a stored record of an owned sub-handler is loaded as it is -/
theorem subSt0_stored {cfg : Cfg} {P : Store} {now : Tick} {i : Id} {r : Rec}
    (ho : i ∈ cfg.owned) (hP : P i = some r) :
    ∃ a, subSt0 cfg P now i = some { r := r, active := a, dirty := false } := by
  unfold subSt0 withHandlers fromStorage
  by_cases hs : i ∈ cfg.selected <;> simp [hs, ho, hP]

/-- a selected sub-handler always has a state, it is active, and its record is the stored one or a fresh one -/
theorem subSt0_selected {cfg : Cfg} {P : Store} {now : Tick} {i : Id}
    (hs : i ∈ cfg.selected) (ho : i ∈ cfg.owned) :
    ∃ h, subSt0 cfg P now i = some h ∧ h.active = true ∧
      h.r = (match P i with | some r => r | none => fresh now cfg.reason) ∧
      (h.dirty = false → P i = some h.r) := by
  unfold subSt0 withHandlers fromStorage
  cases hP : P i <;> simp [hs, ho, hP]

theorem subSt0_active {cfg : Cfg} {P : Store} {now : Tick} {i : Id} {h : HS}
    (hst : subSt0 cfg P now i = some h) : h.active = true ↔ i ∈ cfg.selected := by
  unfold subSt0 withHandlers fromStorage at hst
  by_cases hs : i ∈ cfg.selected
  · simp only [hs, if_true, iff_true] at hst ⊢
    by_cases ho : i ∈ cfg.owned
    · cases hP : P i <;> simp [ho, hP] at hst <;> rw [← hst]
    · simp [ho] at hst; rw [← hst]
  · simp only [hs, if_false, iff_false] at hst ⊢
    by_cases ho : i ∈ cfg.owned
    · cases hP : P i <;> simp [ho, hP] at hst
      rw [← hst]; simp
    · simp [ho] at hst

theorem subSt0_known {cfg : Cfg} {P : Store} {now : Tick} {i : Id} {h : HS}
    (hst : subSt0 cfg P now i = some h) : i ∈ known cfg := by
  unfold subSt0 withHandlers fromStorage at hst
  by_cases hs : i ∈ cfg.selected
  · simp [known, hs]
  · by_cases ho : i ∈ cfg.owned
    · simp [known, ho]
    · simp [hs, ho] at hst

/-- a clean state is exactly what the object carries -/
theorem subSt0_clean {cfg : Cfg} {P : Store} {now : Tick} {i : Id} {h : HS}
    (hst : subSt0 cfg P now i = some h) (hd : h.dirty = false) : P i = some h.r := by
  unfold subSt0 withHandlers fromStorage at hst
  by_cases hs : i ∈ cfg.selected
  · by_cases ho : i ∈ cfg.owned
    · cases hP : P i <;> simp [hs, ho, hP] at hst <;> rw [← hst] at hd ⊢ <;> simp_all
    · simp [hs, ho] at hst; rw [← hst] at hd; simp at hd
  · by_cases ho : i ∈ cfg.owned
    · cases hP : P i <;> simp [hs, ho, hP] at hst
      rw [← hst]
    · simp [hs, ho] at hst

/-- execution keeps the domain and the `active` flags of the state, and a state it leaves clean is untouched -/
theorem execOnce_st_some {cfg : Cfg} {st : St} {now now1 : Tick} {exec : Id → Nat → Outcome} {i : Id} {h : HS}
    (hs : (execOnce cfg st now now1 exec).st i = some h) :
    ∃ h0, st i = some h0 ∧ h.active = h0.active ∧ (h.dirty = false → h = h0) := by
  simp only [execOnce] at hs
  split at hs
  · cases hst : st i with
    | none => simp [hst] at hs
    | some h0 =>
      simp only [hst, Option.some.injEq] at hs
      refine ⟨h0, rfl, by rw [← hs], ?_⟩
      intro hd; rw [← hs] at hd; simp at hd
  · exact ⟨h, hs, rfl, fun _ => rfl⟩

theorem execOnce_st_of {cfg : Cfg} {st : St} {now now1 : Tick} {exec : Id → Nat → Outcome} {i : Id} {h0 : HS}
    (hs : st i = some h0) :
    ∃ h, (execOnce cfg st now now1 exec).st i = some h ∧ h.active = h0.active := by
  simp only [execOnce]
  split
  · simp only [hs]; exact ⟨_, rfl, rfl⟩
  · exact ⟨h0, hs, rfl⟩

/-- what the object carries after the sub-pass, for every handler the sub-state knows -/
theorem subPass_P'_of_st {cfg : Cfg} {P : Store} {now now1 : Tick} {exec : Id → Nat → Outcome} {i : Id} {h : HS}
    (hst : (subPass cfg P now now1 exec).st i = some h) :
    (subPass cfg P now now1 exec).P' i = some h.r := by
  rw [subPass_P'_eq]
  unfold store
  rw [hst]
  by_cases hd : h.dirty = true
  · simp [hd]
  · have hd' : h.dirty = false := by simpa using hd
    simp only [hd', Bool.false_eq_true, if_false]
    rw [subPass_st_eq] at hst
    obtain ⟨h0, h0s, _, heq⟩ := execOnce_st_some hst
    have := heq hd'
    subst this
    exact subSt0_clean h0s hd'

/-- `state.done` of the sub-pass ⇔ every selected sub-handler is finished in it -/
theorem sub_done_iff {cfg : Cfg} {P : Store} {now now1 : Tick} {exec : Id → Nat → Outcome}
    (hsub : ∀ i ∈ cfg.selected, i ∈ cfg.owned) :
    done (subPass cfg P now now1 exec).st (known cfg) = true ↔
      ∀ i ∈ cfg.selected, ∃ h, (subPass cfg P now now1 exec).st i = some h ∧ h.r.finished = true := by
  unfold done
  rw [List.all_eq_true]
  constructor
  · intro hall i hsel
    have hk : i ∈ known cfg := by simp [known, hsel]
    obtain ⟨h0, hp0, ha0, _⟩ := subSt0_selected (P := P) (now := now) hsel (hsub i hsel)
    obtain ⟨h, hp, hact⟩ := execOnce_st_of (cfg := cfg) (now := now) (now1 := now1) (exec := exec) hp0
    refine ⟨h, hp, ?_⟩
    have := hall i hk
    rw [subPass_st_eq] at this
    simp only [hp] at this
    rw [hact, ha0] at this
    simpa using this
  · intro hall i _
    cases hp : (subPass cfg P now now1 exec).st i with
    | none => rfl
    | some h =>
      simp only
      by_cases hact : h.active = true
      · have hp' := hp
        rw [subPass_st_eq] at hp'
        obtain ⟨h0, hp0, hact0, _⟩ := execOnce_st_some hp'
        have hsel : i ∈ cfg.selected := (subSt0_active hp0).1 (by rw [← hact0]; exact hact)
        obtain ⟨h', hp'', hfin⟩ := hall i hsel
        rw [hp] at hp''
        cases hp''
        simp [hfin]
      · simp [hact]

/-- With the all-at-once lifecycle every selected handler that is awake and passes the pre-checks is invoked. -/
theorem execOnce_allAtOnce_invokes {cfg : Cfg} {st : St} {now now1 : Tick} {exec : Id → Nat → Outcome}
    (hlc : cfg.lifecycle = .allAtOnce) {i : Id} {h : HS}
    (hsel : i ∈ cfg.selected) (hst : st i = some h) (haw : h.r.awakened now = true)
    (hpre : precheckFails (cfg.limits i) h.r now = false) :
    (i, h.r.retries) ∈ (execOnce cfg st now now1 exec).invoked := by
  simp only [execOnce, hlc, plan, List.mem_map, List.mem_filter]
  exact ⟨i, ⟨⟨hsel, by simp [hst, haw]⟩, by simp [hst, hpre]⟩, by simp [retriesOf, hst]⟩

/-- (lemma form of `sub_records_covered`) -/
theorem sub_records_covered' (cfg : Cfg) (P : Store) (now now1 : Tick) (exec : Id → Nat → Outcome)
    (i : Id) (h : HS) (hst : (subPass cfg P now now1 exec).st i = some h) :
    i ∈ (subPass cfg P now now1 exec).outcome.subrefs := by
  have hst' := hst
  rw [subPass_st_eq] at hst'
  obtain ⟨h0, hp0, _, _⟩ := execOnce_st_some hst'
  have hk := subSt0_known hp0
  show i ∈ ((known cfg).eraseDups.filter (fun i => ((subPass cfg P now now1 exec).st i).isSome))
  simp only [List.mem_filter]
  exact ⟨List.mem_eraseDups.2 hk, by rw [hst]; rfl⟩

/-! ### the composed pass `cycle2` -/

theorem subWrites_other (cfg : Cfg) (sub : SubReg) (P : Store) (now : Tick) (execLeaf : Id → Nat → Outcome)
    (i : Id) : ∀ (parents : List Id) (base : Store), (∀ p ∈ parents, i ∉ sub.children p) →
    subWrites cfg sub P now execLeaf parents base i = base i := by
  intro parents
  induction parents with
  | nil => intro base _; rfl
  | cons p ps ih =>
    intro base h
    unfold subWrites
    simp only [List.foldl_cons]
    have hp : i ∉ sub.children p := h p (by simp)
    have := ih (if (sub.children p).isEmpty then base
                else fun i => if i ∈ sub.children p
                  then (store base (subPass (subCfgOf cfg sub p) P now now execLeaf).st) i else base i)
              (fun q hq => h q (by simp [hq]))
    unfold subWrites at this
    rw [this]
    by_cases he : (sub.children p).isEmpty = true
    · simp [he]
    · simp [he, hp]

/-- `cycle2`, unfolded over the names used for `cycle` -/
theorem cycle2_eq (cfg : Cfg) (sub : SubReg) (P : Store) (now : Tick) (execLeaf : Id → Nat → Outcome) :
    cycle2 cfg sub P now execLeaf =
      let ex := execTop cfg sub P now execLeaf
      let r := execOnce cfg (preState cfg P now) now now ex
      let P2 := store (subWrites cfg sub P now execLeaf (r.invoked.map (·.1)) (midStore cfg P now)) r.st
      { invoked := r.invoked,
        subInvoked := (r.invoked.map (·.1)).flatMap (fun p =>
          if (sub.children p).isEmpty then [] else (subPass (subCfgOf cfg sub p) P now now execLeaf).invoked),
        P' := if done r.st (known cfg) then purge P2 r.st cfg.owned (known cfg) else P2,
        closed := done r.st (known cfg) } := by
  unfold cycle2 midStore extrasLeft preState
  rfl

/-- every registered child has a state in its parent's sub-pass, hence is among the outcome's subrefs -/
theorem child_in_subrefs (cfg : Cfg) (sub : SubReg) (P : Store) (now : Tick) (execLeaf : Id → Nat → Outcome)
    (p i : Id) (hi : i ∈ sub.children p) :
    i ∈ (subPass (subCfgOf cfg sub p) P now now execLeaf).outcome.subrefs := by
  have hsel : i ∈ (subCfgOf cfg sub p).selected := hi
  have hown : i ∈ (subCfgOf cfg sub p).owned := hi
  obtain ⟨h0, hp0, _, _⟩ := subSt0_selected (P := P) (now := now) hsel hown
  obtain ⟨h1, hp1, _⟩ := execOnce_st_of (cfg := subCfgOf cfg sub p) (now := now) (now1 := now) (exec := execLeaf) hp0
  exact sub_records_covered' (subCfgOf cfg sub p) P now now execLeaf i h1 (by rw [subPass_st_eq]; exact hp1)

end Kopf.C02
