import Kopf.Model.C10_Sleep
namespace Kopf.C10

theorem sleep_unfold (now d : Int) (wake : Option Int) :
    sleep now d wake =
      if d ≤ 0 then ⟨now, none⟩ else
      match wake with
      | some w => if w < now + d then ⟨max now w, some (max 0 (d - (max now w - now)))⟩ else ⟨now + d, none⟩
      | none => ⟨now + d, none⟩ := by
  unfold sleep sleepCapped
  by_cases hd : d ≤ 0
  · simp [hd]
  · cases wake with
    | none => simp [hd]
    | some w => by_cases hw : w < now + d <;> simp [hd, hw]

end Kopf.C10
