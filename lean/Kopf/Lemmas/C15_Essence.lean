import Kopf.Model.C15_Essence

namespace Kopf.C15.Essence

theorem isPrefixOf_refl (p : Path) : p.isPrefixOf p = true := by
  induction p with
  | nil => rfl
  | cons a t ih => simp [List.isPrefixOf, ih]

theorem covered_of_mem {fields : List Path} {p : Path} (h : p ∈ fields) : covered fields p = true := by
  unfold covered
  exact List.any_eq_true.mpr ⟨p, h, isPrefixOf_refl p⟩

theorem isPrefixOf_trans {a b c : Path} (h1 : a.isPrefixOf b = true) (h2 : b.isPrefixOf c = true) :
    a.isPrefixOf c = true := by
  rw [List.isPrefixOf_iff_prefix] at *
  exact List.IsPrefix.trans h1 h2

/-- among the declared fields that are ancestors-or-self of `p` there is one without a strict ancestor: by
    strong induction on the length of the ancestor at hand -/
theorem exists_root (fields : List Path) (p : Path) :
    ∀ (n : Nat) (q : Path), q.length ≤ n → q ∈ fields → q.isPrefixOf p = true →
      ∃ r, r ∈ dropChildren fields ∧ r.isPrefixOf p = true := by
  intro n
  induction n with
  | zero =>
    intro q hl hq hp
    refine ⟨q, ?_, hp⟩
    unfold dropChildren
    refine List.mem_filter.mpr ⟨hq, ?_⟩
    simp only [Bool.not_eq_true', List.any_eq_false, Bool.and_eq_true, decide_eq_true_eq, not_and]
    intro x _ hx
    omega
  | succ n ih =>
    intro q hl hq hp
    by_cases hroot : fields.any (fun x => x.length < q.length && x.isPrefixOf q) = true
    · obtain ⟨x, hx, hxq⟩ := List.any_eq_true.mp hroot
      simp only [Bool.and_eq_true, decide_eq_true_eq] at hxq
      exact ih x (by omega) hx (isPrefixOf_trans hxq.2 hp)
    · refine ⟨q, ?_, hp⟩
      unfold dropChildren
      exact List.mem_filter.mpr ⟨hq, by simpa using hroot⟩

end Kopf.C15.Essence
