/-
  C20 helper lemmas, part 7: small invariants (`InvE`) — spawned ensemble tasks are never `absent`,
  the exit time, and the chain "failed ensemble task → orchestrator" of the `fixed` variant.
-/
import Kopf.Lemmas.C20_InvC
namespace Kopf.C20

structure InvE (cfg : Cfg) (s : State) : Prop where
  subPresent : ∀ i, i < s.nSubs → s.st (.sub i) ≠ .absent
  orchWaiting : s.st (.root .orchestrator) = .waitingFlag → s.nSubs = 0
  exitNow : ∀ x, s.exitAt = some x → s.rt = .exited ∧ x = s.now
  exitSome : s.rt = .exited → s.exitAt = some s.now
  orchErrJ : s.orchErr = true → cfg.fixed = true ∧
    ((s.st (.root .orchestrator) = .running ∧ s.creq (.root .orchestrator) = true)
      ∨ s.st (.root .orchestrator) = .stopping true none ∨ s.st (.root .orchestrator) = .failed)
  fixedEdge : cfg.fixed = true → ∀ i, i < s.nSubs → s.st (.sub i) = .failed →
    s.st (.root .orchestrator) = .running → s.creq (.root .orchestrator) = true
  dmPresent : ∀ d, d < s.nDaemons → s.dm d ≠ .absent

theorem InvE.init (cfg : Cfg) : InvE cfg init := by
  constructor <;> simp [Kopf.C20.init, initSt]

set_option maxHeartbeats 4000000 in
theorem InvE.preserved {cfg : Cfg} {s s' : State} {l : Label} (hI : InvE cfg s)
    (h : step cfg s l = some s') : InvE cfg s' := by
  by_cases hex : s.rt = .exited
  · rw [exited_terminal l hex] at h; cases h
  obtain ⟨h1, h2, h3, h4, h5, h6, h7⟩ := hI
  cases l <;> simp only [step] at h
  all_goals (repeat' (split at h))
  all_goals (first | (cases h; done) | skip)
  all_goals (cases h)
  all_goals (refine ⟨?_, ?_, ?_, ?_, ?_, ?_, ?_⟩)
  all_goals (first | exact h1 | exact h2 | exact h3 | exact h4 | exact h5 | exact h6 | exact h7 | skip)
  all_goals (try simp only [kind_orchestrator_iff, kind_killer_iff, kind_flagChecker_iff, kind_ultimate_iff,
    kind_startupCleanup_iff] at *)
  all_goals (try subst_vars)
  all_goals (try dsimp only)
  all_goals (grind [upd, Root.kind, TS.active, TS.live, TS.ended, TS.isStopping, failTS, cancelSubs,
    cancelRoots, Pend.ts])

theorem InvE.reach {cfg : Cfg} {s : State} (h : Reach cfg s) : InvE cfg s :=
  Reach.induction (P := InvE cfg) (InvE.init cfg) (fun _ _ _ _ hI hs => InvE.preserved hI hs) s h

end Kopf.C20
