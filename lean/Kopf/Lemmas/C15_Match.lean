/-
  C15 helper lemmas: the `_deduplicated` loop, one-criterion characterisations.
-/
import Kopf.Model.C15_Match
import Kopf.Model.C15_Selector
namespace Kopf.C15

-- ---------------------------------------------------------------------------------------------
-- dedupBy

section Dedup
variable {α : Type} (key : α → Nat × String)

theorem dedupByAux_cons_mem (h : α) (t : List α) (seen : List (Nat × String)) (hs : key h ∈ seen) :
    dedupByAux key seen (h :: t) = dedupByAux key seen t := by
  simp [dedupByAux, hs]

theorem dedupByAux_cons_not_mem (h : α) (t : List α) (seen : List (Nat × String)) (hs : key h ∉ seen) :
    dedupByAux key seen (h :: t) = h :: dedupByAux key (key h :: seen) t := by
  simp [dedupByAux, hs]

theorem dedupByAux_spec (l : List α) : ∀ seen : List (Nat × String),
    ((dedupByAux key seen l).map key).Nodup ∧
    (∀ k, k ∈ (dedupByAux key seen l).map key ↔ (k ∈ l.map key ∧ k ∉ seen)) ∧
    (dedupByAux key seen l).Sublist l := by
  induction l with
  | nil => intro seen; simp [dedupByAux]
  | cons h t ih =>
    intro seen
    by_cases hs : key h ∈ seen
    · rw [dedupByAux_cons_mem key h t seen hs]
      obtain ⟨i1, i2, i3⟩ := ih seen
      refine ⟨i1, ?_, i3.cons h⟩
      intro k
      rw [i2 k, List.map_cons, List.mem_cons]
      constructor
      · rintro ⟨a, b⟩; exact ⟨Or.inr a, b⟩
      · rintro ⟨a | a, b⟩
        · exact absurd (a ▸ hs) b
        · exact ⟨a, b⟩
    · rw [dedupByAux_cons_not_mem key h t seen hs]
      obtain ⟨i1, i2, i3⟩ := ih (key h :: seen)
      refine ⟨?_, ?_, i3.cons_cons h⟩
      · rw [List.map_cons, List.nodup_cons]
        refine ⟨?_, i1⟩
        intro hm
        exact ((i2 (key h)).1 hm).2 (List.mem_cons_self ..)
      · intro k
        simp only [List.map_cons, List.mem_cons, i2 k]
        constructor
        · rintro (a | ⟨a, b⟩)
          · exact ⟨Or.inl a, a ▸ hs⟩
          · exact ⟨Or.inr a, fun hk => b (Or.inr hk)⟩
        · rintro ⟨a | a, b⟩
          · exact Or.inl a
          · by_cases hk : k = key h
            · exact Or.inl hk
            · refine Or.inr ⟨a, ?_⟩
              rintro (x | x)
              · exact hk x
              · exact b x

theorem dedupByAux_first (l : List α) : ∀ (seen : List (Nat × String)) (pre post : List α) (h : α),
    l = pre ++ h :: post → key h ∉ seen → (∀ g ∈ pre, key g ≠ key h) →
    h ∈ dedupByAux key seen l := by
  induction l with
  | nil => intro seen pre post h e; cases pre <;> simp at e
  | cons x t ih =>
    intro seen pre post h e hs hp
    cases pre with
    | nil =>
      simp only [List.nil_append, List.cons.injEq] at e
      obtain ⟨rfl, rfl⟩ := e
      rw [dedupByAux_cons_not_mem key x t seen hs]
      exact List.mem_cons_self ..
    | cons y pre' =>
      simp only [List.cons_append, List.cons.injEq] at e
      obtain ⟨rfl, e⟩ := e
      have hne : key x ≠ key h := hp x (List.mem_cons_self ..)
      have hp' : ∀ g ∈ pre', key g ≠ key h := fun g hg => hp g (List.mem_cons_of_mem _ hg)
      by_cases hx : key x ∈ seen
      · rw [dedupByAux_cons_mem key x t seen hx]
        exact ih seen pre' post h e hs hp'
      · rw [dedupByAux_cons_not_mem key x t seen hx]
        have : key h ∉ key x :: seen := by
          intro hm
          rcases List.mem_cons.1 hm with a | a
          · exact hne a.symm
          · exact hs a
        exact List.mem_cons_of_mem _ (ih (key x :: seen) pre' post h e this hp')

end Dedup

/-- if `f`-images are pairwise distinct and `g a = g b → f a = f b` on the list, `g`-images are too -/
theorem nodup_map_of_nodup_map {α β γ : Type} (f : α → β) (g : α → γ) :
    ∀ (l : List α), (l.map f).Nodup → (∀ a ∈ l, ∀ b ∈ l, g a = g b → f a = f b) → (l.map g).Nodup
  | [], _, _ => by simp
  | x :: xs, hn, hfg => by
    rw [List.map_cons, List.nodup_cons] at hn ⊢
    refine ⟨?_, nodup_map_of_nodup_map f g xs hn.2
      (fun a ha b hb => hfg a (List.mem_cons_of_mem _ ha) b (List.mem_cons_of_mem _ hb))⟩
    intro hm
    obtain ⟨y, hy, hgy⟩ := List.mem_map.1 hm
    exact hn.1 (List.mem_map.2 ⟨y, hy, hfg y (List.mem_cons_of_mem _ hy) x (List.mem_cons_self ..) hgy⟩)

-- ---------------------------------------------------------------------------------------------
-- the changing registry's loop body and `application.apply`'s touch, against the cores the
-- translator re-extracts

theorem selChanging_bool (e rn re hi ci cm hd nc m : Bool) :
    (!e && (((rn || re) && !(hi && !ci) && !(hi && cm && !hd) && !(rn && !hi && nc && cm)) && m)) =
      selChangingCore { excluded := e, reasonNone := rn, reasonEq := re, hInitial := hi, cInitial := ci,
                        cDeleted := cm, hDeleted := hd, needsChange := nc, matched := m } := by
  cases e <;> cases rn <;> cases re <;> cases hi <;> cases ci <;> cases cm <;> cases hd <;> cases nc <;>
    cases m <;> rfl

theorem selChanging_eq_core {V : Type} [PyVal V] (c : Cause V) (ex : List String) (h : Handler V) :
    selChanging c ex h = selChangingCore (chgAtoms c ex h) :=
  selChanging_bool _ _ _ _ _ _ _ _ _

/-- with an uninterrupted sleep, `apply` touches iff there is a delay and no object-changing patch -/
theorem applyTouch_eq_touchCore (delay0 nonempty changed : Bool) (h : delay0 = true → nonempty = true) :
    applyTouchCore { delayTruthy := delay0, delayNotNone := nonempty, changed := changed, interrupted := false } =
      touchCore { delay := nonempty, patched := changed } := by
  cases delay0 <;> cases nonempty <;> cases changed <;> simp_all [applyTouchCore, touchCore]

-- ---------------------------------------------------------------------------------------------
-- Selector.check: the single conjuncts

theorem optEq_iff (x : Option String) (y : String) :
    optCore (optEq x y) = true ↔ ∀ n, x = some n → y = n := by
  cases x with
  | none => simp [optCore, optEq]
  | some s =>
    simp only [optCore, optEq, Option.isNone_some, Bool.false_or, beq_iff_eq, Option.some.injEq, forall_eq']
    exact eq_comm

theorem optEqOpt_iff (x y : Option String) :
    optCore (optEqOpt x y) = true ↔ ∀ n, x = some n → y = some n := by
  cases x with
  | none => simp [optCore, optEqOpt]
  | some s =>
    cases y with
    | none => simp [optCore, optEqOpt]
    | some t =>
      simp only [optCore, optEqOpt, Option.isNone_some, Bool.false_or, beq_iff_eq, Option.some.injEq, forall_eq']
      exact eq_comm

theorem optIn_iff (x : Option String) (ys : List String) :
    optCore (optIn x ys) = true ↔ ∀ n, x = some n → n ∈ ys := by
  cases x <;> simp [optCore, optIn]

theorem version_iff (v : Option String) (rv : String) (pr fnNone : Bool) :
    versionCore { versionNone := v.isNone, preferred := pr, fnNone := fnNone,
                  versionEq := match v with | some x => x == rv | none => false } = true ↔
      (∀ x, v = some x → rv = x) ∧ (v = none → fnNone = true → pr = true) := by
  cases v with
  | none => cases pr <;> cases fnNone <;> simp [versionCore]
  | some x =>
    simp only [versionCore, Option.isNone_some, Bool.false_and, Bool.not_false, Bool.true_and, Bool.false_or,
      beq_iff_eq, Option.some.injEq, forall_eq', reduceCtorEq, false_implies, and_true]
    exact eq_comm

theorem named_iff (n : String) (rk rsg : Option String) (rp : String) (rsh : List String) :
    ((optEqOpt (some n) rk).holds || (optEq (some n) rp).holds || (optEqOpt (some n) rsg).holds ||
      (optIn (some n) rsh).holds) = true ↔
      (rk = some n ∨ rp = n ∨ rsg = some n ∨ n ∈ rsh) := by
  have e : ∀ a b : String, (a = b) ↔ (b = a) := fun a b => eq_comm
  cases rk <;> cases rsg <;>
    simp only [optEqOpt, optEq, optIn, Bool.or_eq_true, beq_iff_eq, Bool.false_eq_true, false_or, or_false,
      List.contains_eq_mem, decide_eq_true_eq, reduceCtorEq, Option.some.injEq, or_assoc, e n]

-- ---------------------------------------------------------------------------------------------
-- one metadata criterion

theorem metaStep_true_iff (crit : MCrit) (x : Option String) :
    metaStep (metaAtoms crit x) = true ↔
      (match crit with
       | .value v => x = some v
       | .present => ∃ s, x = some s
       | .absent => x = none
       | .callback f => f x = true) := by
  cases crit with
  | value v => cases x with
    | none => simp [metaStep, metaAtoms]
    | some s => simp [metaStep, metaAtoms]; exact eq_comm
  | present => cases x <;> simp [metaStep, metaAtoms]
  | absent => cases x <;> simp [metaStep, metaAtoms]
  | callback f =>
    have e : ∀ b : Bool, (if b = true then true else false) = b := by intro b; cases b <;> rfl
    cases x <;> simp [metaStep, metaAtoms] <;> exact e _

-- ---------------------------------------------------------------------------------------------
-- one field criterion on one resolved value

variable {V : Type}

theorem hasField_true_iff (h : Handler V) :
    hasField h = true ↔ ∃ p, h.field = some p ∧ p ≠ [] := by
  unfold hasField
  cases hf : h.field with
  | none => simp
  | some p => cases p <;> simp

theorem path_of_field (h : Handler V) (p : List String) (hf : h.field = some p) : path h = p := by
  simp [path, hf]

variable [PyVal V]

/-- the disjunction of `_matches_field_values`, for a single entry of `values` -/
def holdsCode (crit : VCrit V) (x : Option V) : Bool :=
  (crit.isUnset && x.isSome) || (crit.isPresent && x.isSome) || (crit.isAbsent && x.isNone) ||
    (crit.isCallable && crit.call x) || crit.pyEq x

/-- on a changing cause: the current state, and -- unless the cause has no old state and the handler is
    not an update handler (/repo bd6cd41) -- the old state as well -/
theorem fvCore_changing (h : Handler V) (c : Cause V) (hc : c.changing = true) :
    matchesFieldValues h c =
      (!hasField h || (holdsCode h.value (c.new (path h)) ||
        (!currentOnlyCore (curAtoms h c) && holdsCode h.value (c.old (path h))))) := by
  cases hcur : currentOnlyCore (curAtoms h c) <;> cases hv : h.value <;> cases hf : hasField h <;>
    simp [matchesFieldValues, fvCore, fvAtoms, values, valuesChanging, Cause.get, holdsCode, hc, hv, hf, hcur,
      VCrit.isUnset, VCrit.isPresent, VCrit.isAbsent, VCrit.isCallable, VCrit.call, VCrit.pyEq,
      Bool.or_assoc, Bool.or_left_comm, Bool.or_comm]

/-- the repaired mechanism, spelled out: no old state and not an update handler ⇒ the current state only -/
theorem fvCore_creation (h : Handler V) (c : Cause V) (hc : c.changing = true) (hno : c.noOld = true)
    (hnu : needsChangeAttr h = false) :
    matchesFieldValues h c = (!hasField h || holdsCode h.value (c.new (path h))) := by
  rw [fvCore_changing h c hc]; simp [currentOnlyCore, curAtoms, hno, hnu]

theorem fvCore_other (h : Handler V) (c : Cause V) (hc : c.changing = false) :
    matchesFieldValues h c = (!hasField h || holdsCode h.value (c.body (path h))) := by
  cases hv : h.value <;> cases hf : hasField h <;>
    simp [matchesFieldValues, fvCore, fvAtoms, values, valuesOther, Cause.get, holdsCode, hc, hv, hf,
      VCrit.isUnset, VCrit.isPresent, VCrit.isAbsent, VCrit.isCallable, VCrit.call, VCrit.pyEq]


-- ---------------------------------------------------------------------------------------------
-- "the field actually changed" (/repo 8d1358b): JSON equality refines Python equality, so the code's
-- `bool(diffs.diff(old, new)) or old != new` IS "the two values differ as JSON values"

section Changed
open Kopf Kopf.J

/-! full induction over `J` (through arrays and objects) -/
mutual
  theorem jInd {P : J → Prop} (hleaf : ∀ a, (∀ xs, a ≠ .arr xs) → (∀ kvs, a ≠ .obj kvs) → P a)
      (harr : ∀ xs, (∀ x, x ∈ xs → P x) → P (.arr xs))
      (hobj : ∀ kvs, (∀ k x, (k, x) ∈ kvs → P x) → P (.obj kvs)) : ∀ a : J, P a
    | .null => hleaf _ (by intro _ h; cases h) (by intro _ h; cases h)
    | .bool _ => hleaf _ (by intro _ h; cases h) (by intro _ h; cases h)
    | .num _ => hleaf _ (by intro _ h; cases h) (by intro _ h; cases h)
    | .str _ => hleaf _ (by intro _ h; cases h) (by intro _ h; cases h)
    | .arr xs => harr xs (jIndList hleaf harr hobj xs)
    | .obj kvs => hobj kvs (jIndKvs hleaf harr hobj kvs)
  theorem jIndList {P : J → Prop} (hleaf : ∀ a, (∀ xs, a ≠ .arr xs) → (∀ kvs, a ≠ .obj kvs) → P a)
      (harr : ∀ xs, (∀ x, x ∈ xs → P x) → P (.arr xs))
      (hobj : ∀ kvs, (∀ k x, (k, x) ∈ kvs → P x) → P (.obj kvs)) : ∀ xs : List J, ∀ x, x ∈ xs → P x
    | [], _, h => by cases h
    | x' :: rest, x, h => by
        rcases List.mem_cons.1 h with h | h
        · cases h; exact jInd hleaf harr hobj x'
        · exact jIndList hleaf harr hobj rest x h
  theorem jIndKvs {P : J → Prop} (hleaf : ∀ a, (∀ xs, a ≠ .arr xs) → (∀ kvs, a ≠ .obj kvs) → P a)
      (harr : ∀ xs, (∀ x, x ∈ xs → P x) → P (.arr xs))
      (hobj : ∀ kvs, (∀ k x, (k, x) ∈ kvs → P x) → P (.obj kvs)) :
      ∀ kvs : List (String × J), ∀ k x, (k, x) ∈ kvs → P x
    | [], _, _, h => by cases h
    | (k', x') :: rest, k, x, h => by
        rcases List.mem_cons.1 h with h | h
        · cases h; exact jInd hleaf harr hobj x'
        · exact jIndKvs hleaf harr hobj rest k x h
end

/-- values that are equal as JSON values (`diffs._same`) are equal for Python's `==` (which is coarser:
    `True == 1`) -/
theorem pyEq_of_jsame (a : J) : ∀ b, jsame a b = true → J.pyEq a b = true := by
  refine jInd (P := fun a => ∀ b, jsame a b = true → J.pyEq a b = true) ?_ ?_ ?_ a
  · intro a h1 h2 b h
    cases a with
    | arr xs => exact absurd rfl (h1 xs)
    | obj kvs => exact absurd rfl (h2 kvs)
    | null => cases b <;> simp_all [J.pyEq, jsame]
    | bool x => cases b <;> simp_all [J.pyEq, jsame]
    | num n => cases b <;> simp_all [J.pyEq, jsame]
    | str s => cases b <;> simp_all [J.pyEq, jsame]
  · intro xs ih b h
    cases b with
    | arr ys =>
      simp only [jsame] at h
      simp only [J.pyEq]
      induction xs generalizing ys with
      | nil => cases ys <;> simp_all [J.pyEqList, jsameList]
      | cons x xs ihl =>
        cases ys with
        | nil => simp [jsameList] at h
        | cons y ys =>
          simp only [jsameList, Bool.and_eq_true] at h
          simp only [J.pyEqList, Bool.and_eq_true]
          exact ⟨ih x List.mem_cons_self y h.1, ihl (fun z hz => ih z (List.mem_cons_of_mem _ hz)) ys h.2⟩
    | _ => simp [jsame] at h
  · intro kvs ih b h
    cases b with
    | obj kb =>
      simp only [jsame, Bool.and_eq_true] at h
      simp only [J.pyEq, Bool.and_eq_true]
      refine ⟨h.1, ?_⟩
      have hs := h.2
      clear h
      induction kvs with
      | nil => simp [J.pyEqSub]
      | cons kv rest ihl =>
        obtain ⟨k, x⟩ := kv
        simp only [jsameSub, Bool.and_eq_true] at hs
        simp only [J.pyEqSub, Bool.and_eq_true]
        refine ⟨?_, ihl (fun k' x' hm => ih k' x' (List.mem_cons_of_mem _ hm)) hs.2⟩
        cases hl : J.lookup k kb with
        | none => simp [hl] at hs
        | some y =>
          have h1 := hs.1
          simp only [hl] at h1
          simpa using ih k x List.mem_cons_self y h1
    | _ => simp [jsame] at h

end Changed

/-- the law the two equalities of a value domain obey: equality as JSON values refines Python's `==`
    (for parsed JSON: `pyEq_of_jsame`) -/
class PyLaw (V : Type) [PyVal V] : Prop where
  same_eq : ∀ a b : V, PyVal.same a b = true → PyVal.eq a b = true

instance : PyLaw J := ⟨pyEq_of_jsame⟩

/-- with the private token on a side the code compares by identity, else by `diffs.diff` OR `!=`: under
    the law that is "the two resolved values are not the same JSON value (or not both absent)" -/
theorem fieldChanged_eq [PyLaw V] (o n : Option V) : fieldChanged o n = !ressame o n := by
  cases o with
  | none => cases n <;> simp [fieldChanged, changedCore, changedAtoms, ressame]
  | some a =>
    cases n with
    | none => simp [fieldChanged, changedCore, changedAtoms, ressame]
    | some b =>
      simp only [fieldChanged, changedCore, changedAtoms, ressame, reseq, Option.isNone_some, Bool.or_self,
        Bool.false_eq_true, if_false]
      cases hs : PyVal.same a b with
      | false => simp
      | true => simp [PyLaw.same_eq a b hs]

/-- what the repair changed: before it a change was what Python's `!=` sees; every such change still is one -/
theorem fieldChanged_of_before (o n : Option V) (h : fieldChangedBefore o n = true) : fieldChanged o n = true := by
  cases o with
  | none => cases n <;> simp_all [fieldChanged, fieldChangedBefore, changedCore, changedAtoms, reseq]
  | some a =>
    cases n with
    | none => simp [fieldChanged, changedCore, changedAtoms]
    | some b =>
      simp only [fieldChangedBefore] at h
      simp [fieldChanged, changedCore, changedAtoms, h]

end Kopf.C15
