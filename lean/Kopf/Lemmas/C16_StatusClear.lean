/-
  C16 helper lemmas, part 6: `StatusProgressStorage.clear` since kopf 571b1b2 — `dicts.remove` seen
  through `resolve?`, the fields hidden behind a non-mapping value (`hiddenAt`), the lenient removal
  (`try: dicts.remove(...) except TypeError: pass`) and `remove_empty_stanzas` on arbitrary paths.
-/
import Kopf.Lemmas.C16_Clear
namespace Kopf.C16
open Kopf Kopf.J

/-! ## hidden fields -/

/-- the path runs into a non-mapping value before it ends (`status.kopf.progress` with `status` a
    string, a list, a number or null, or with `status.kopf: 7`; the last key counts too:
    `del "a string"['progress']` is a TypeError as well). An absent key hides nothing. -/
def hiddenAt : J → Path → Bool
  | _, [] => false
  | obj kvs, k :: ks =>
    match ks with
    | [] => false
    | k2 :: ks' =>
      match lookup k kvs with
      | none => false
      | some c => hiddenAt c (k2 :: ks')
  | _, _ :: _ => true

theorem hiddenAt_nil (e : J) : hiddenAt e [] = false := by cases e <;> simp [hiddenAt]

theorem hiddenAt_nonobj (d : J) (h : d.isObj = false) (k : String) (ks : Path) :
    hiddenAt d (k :: ks) = true := by
  cases d <;> simp_all [hiddenAt, isObj]

theorem hiddenAt_last (kvs : List (String × J)) (k : String) : hiddenAt (obj kvs) [k] = false := by
  simp [hiddenAt]

theorem hiddenAt_down_none {kvs : List (String × J)} {k : String} (hl : lookup k kvs = none)
    (k2 : String) (ks : Path) : hiddenAt (obj kvs) (k :: k2 :: ks) = false := by
  simp [hiddenAt, hl]

theorem hiddenAt_down_some {kvs : List (String × J)} {k : String} {c : J} (hl : lookup k kvs = some c)
    (k2 : String) (ks : Path) : hiddenAt (obj kvs) (k :: k2 :: ks) = hiddenAt c (k2 :: ks) := by
  simp [hiddenAt, hl]

theorem remove_nil (e : J) : remove e [] = .error .valueError := by cases e <;> simp [remove]

/-- `dicts.remove` raises TypeError exactly on the hidden fields … -/
theorem remove_hidden (f : Path) : ∀ e : J, hiddenAt e f = true → remove e f = .error .typeError := by
  induction f with
  | nil => intro e h; rw [hiddenAt_nil] at h; cases h
  | cons k ks ih =>
    intro e h
    cases hobj : e.isObj with
    | false => exact remove_nonobj _ hobj k ks
    | true =>
      obtain ⟨kvs, rfl⟩ : ∃ kvs, e = obj kvs := by cases e <;> simp_all [isObj]
      cases ks with
      | nil => rw [hiddenAt_last] at h; cases h
      | cons k2 ks' =>
        cases hl : lookup k kvs with
        | none => rw [hiddenAt_down_none hl] at h; cases h
        | some c =>
          rw [hiddenAt_down_some hl] at h
          rw [remove_down_some hl, ih c h]

/-- … and succeeds on all the others (the empty path, a ValueError, is no field at all) -/
theorem remove_not_hidden (f : Path) : ∀ e : J, f ≠ [] → hiddenAt e f = false → ∃ e', remove e f = .ok e' := by
  induction f with
  | nil => intro e h; exact absurd rfl h
  | cons k ks ih =>
    intro e _ h
    cases hobj : e.isObj with
    | false => rw [hiddenAt_nonobj _ hobj] at h; cases h
    | true =>
      obtain ⟨kvs, rfl⟩ : ∃ kvs, e = obj kvs := by cases e <;> simp_all [isObj]
      cases ks with
      | nil => exact ⟨_, remove_last kvs k⟩
      | cons k2 ks' =>
        cases hl : lookup k kvs with
        | none => exact ⟨_, remove_down_none hl k2 ks'⟩
        | some c =>
          rw [hiddenAt_down_some hl] at h
          obtain ⟨c', hc⟩ := ih c (by simp) h
          rw [remove_down_some hl, hc]
          cases c' with
          | obj ck => cases ck <;> exact ⟨_, rfl⟩
          | _ => exact ⟨_, rfl⟩

theorem hidden_of_remove_typeError {e : J} {f : Path} (h : remove e f = .error .typeError) :
    hiddenAt e f = true := by
  cases f with
  | nil => rw [remove_nil] at h; cases h
  | cons k ks =>
    cases hh : hiddenAt e (k :: ks) with
    | true => rfl
    | false =>
      obtain ⟨e', he⟩ := remove_not_hidden (k :: ks) e (by simp) hh
      rw [he] at h; cases h

/-- a hidden field is not there -/
theorem resolve_none_of_hidden (f : Path) : ∀ e : J, hiddenAt e f = true → resolve? e f = none := by
  induction f with
  | nil => intro e h; rw [hiddenAt_nil] at h; cases h
  | cons k ks ih =>
    intro e h
    cases hobj : e.isObj with
    | false => exact resolve_cons_nonobj _ hobj k ks
    | true =>
      obtain ⟨kvs, rfl⟩ : ∃ kvs, e = obj kvs := by cases e <;> simp_all [isObj]
      cases ks with
      | nil => rw [hiddenAt_last] at h; cases h
      | cons k2 ks' =>
        rw [resolve_cons_obj]
        cases hl : lookup k kvs with
        | none => rfl
        | some c =>
          rw [hiddenAt_down_some hl] at h
          exact ih c h

/-- what lies under a hidden field is hidden -/
theorem hiddenAt_append (f : Path) : ∀ (e : J) (g : Path), hiddenAt e f = true → hiddenAt e (f ++ g) = true := by
  induction f with
  | nil => intro e g h; rw [hiddenAt_nil] at h; cases h
  | cons k ks ih =>
    intro e g h
    cases hobj : e.isObj with
    | false => exact hiddenAt_nonobj _ hobj k (ks ++ g)
    | true =>
      obtain ⟨kvs, rfl⟩ : ∃ kvs, e = obj kvs := by cases e <;> simp_all [isObj]
      cases ks with
      | nil => rw [hiddenAt_last] at h; cases h
      | cons k2 ks' =>
        cases hl : lookup k kvs with
        | none => rw [hiddenAt_down_none hl] at h; cases h
        | some c =>
          rw [hiddenAt_down_some hl] at h
          have := ih c g h
          rw [List.cons_append, List.cons_append, hiddenAt_down_some hl]
          exact this

theorem resolve_none_under_hidden {e : J} {f : Path} (h : hiddenAt e f = true) (g : Path) :
    resolve? e (f ++ g) = none :=
  resolve_none_of_hidden _ e (hiddenAt_append f e g h)

theorem resolve_nil_obj_cons (k : String) (ks : Path) : resolve? (obj []) (k :: ks) = none := by
  rw [resolve_cons_obj]; rfl

/-! ## the lenient removal of 571b1b2 -/

theorem removeLenient_hidden {e : J} {f : Path} (h : hiddenAt e f = true) : removeLenient e f = .ok e := by
  simp [removeLenient, remove_hidden f e h]

theorem removeLenient_of_remove {e e' : J} {f : Path} (h : remove e f = .ok e') : removeLenient e f = .ok e' := by
  simp [removeLenient, h]

/-- the two ways the lenient removal answers: the field was reachable and is removed, or it is hidden
    and the essence is as it was -/
theorem removeLenient_cases {e e' : J} {f : Path} (h : removeLenient e f = .ok e') :
    remove e f = .ok e' ∨ (hiddenAt e f = true ∧ e' = e) := by
  unfold removeLenient at h
  cases hr : remove e f with
  | ok x => rw [hr] at h; simp at h; exact Or.inl (by rw [h])
  | error er =>
    rw [hr] at h
    cases er with
    | typeError => simp at h; exact Or.inr ⟨hidden_of_remove_typeError hr, h.symm⟩
    | keyError => simp [liftD] at h
    | valueError => simp [liftD] at h

theorem removeLenient_total (e : J) {f : Path} (hf : f ≠ []) : ∃ e', removeLenient e f = .ok e' := by
  cases hh : hiddenAt e f with
  | true => exact ⟨e, removeLenient_hidden hh⟩
  | false =>
    obtain ⟨e', he⟩ := remove_not_hidden f e hf hh
    exact ⟨e', removeLenient_of_remove he⟩

/-! ## `dicts.remove` seen through `resolve?` -/

/-- after the removal the field is not there -/
theorem resolve_remove_self (f : Path) : ∀ e e' : J, remove e f = .ok e' → resolve? e' f = none := by
  induction f with
  | nil => intro e e' h; rw [remove_nil] at h; cases h
  | cons k ks ih =>
    intro e e' h
    cases hobj : e.isObj with
    | false => rw [remove_nonobj _ hobj] at h; cases h
    | true =>
      obtain ⟨kvs, rfl⟩ : ∃ kvs, e = obj kvs := by cases e <;> simp_all [isObj]
      cases ks with
      | nil =>
        rw [remove_last] at h; cases h
        rw [resolve_cons_obj, lookup_erase_self]; rfl
      | cons k2 ks' =>
        cases hl : lookup k kvs with
        | none =>
          rw [remove_down_none hl] at h; cases h
          rw [resolve_cons_obj, hl]; rfl
        | some child =>
          rw [remove_down_some hl] at h
          cases hr : remove child (k2 :: ks') with
          | error er => rw [hr] at h; cases h
          | ok c' =>
            rw [hr] at h
            have hih := ih _ _ hr
            have herase : resolve? (obj (erase k kvs)) (k :: k2 :: ks') = none := by
              rw [resolve_cons_obj, lookup_erase_self]; rfl
            have hins : resolve? (obj (insert k c' kvs)) (k :: k2 :: ks') = none := by
              rw [resolve_cons_obj, lookup_insert_self]; exact hih
            cases c' with
            | obj ck =>
              cases ck with
              | nil => simp at h; cases h; exact herase
              | cons a b => simp at h; cases h; exact hins
            | _ => simp at h; cases h; exact hins

/-- a removal brings nothing into being: what was absent stays absent -/
theorem resolve_none_remove (f : Path) : ∀ (e e' : J) (q : Path), remove e f = .ok e' →
    resolve? e q = none → resolve? e' q = none := by
  induction f with
  | nil => intro e e' q h; rw [remove_nil] at h; cases h
  | cons k ks ih =>
    intro e e' q h hq
    cases hobj : e.isObj with
    | false => rw [remove_nonobj _ hobj] at h; cases h
    | true =>
      obtain ⟨kvs, rfl⟩ : ∃ kvs, e = obj kvs := by cases e <;> simp_all [isObj]
      cases q with
      | nil => rw [resolve_nil] at hq; cases hq
      | cons k' qs =>
        rw [resolve_cons_obj] at hq
        have herase : resolve? (obj (erase k kvs)) (k' :: qs) = none := by
          rw [resolve_cons_obj]
          by_cases e : k' = k
          · subst e; rw [lookup_erase_self]; rfl
          · rw [lookup_erase_ne e]; exact hq
        cases ks with
        | nil => rw [remove_last] at h; cases h; exact herase
        | cons k2 ks' =>
          cases hl : lookup k kvs with
          | none => rw [remove_down_none hl] at h; cases h; rw [resolve_cons_obj]; exact hq
          | some child =>
            rw [remove_down_some hl] at h
            cases hr : remove child (k2 :: ks') with
            | error er => rw [hr] at h; cases h
            | ok c' =>
              rw [hr] at h
              have hins : resolve? (obj (insert k c' kvs)) (k' :: qs) = none := by
                rw [resolve_cons_obj]
                by_cases e : k' = k
                · subst e
                  rw [lookup_insert_self]
                  rw [hl] at hq
                  exact ih _ _ qs hr hq
                · rw [lookup_insert_ne e]; exact hq
              cases c' with
              | obj ck =>
                cases ck with
                | nil => simp at h; cases h; exact herase
                | cons a b => simp at h; cases h; exact hins
              | _ => simp at h; cases h; exact hins

/-- a removal turns no mapping into something else: where every value found at `q` was a mapping,
    it still is (`q = []`: the essence itself; `q = ["metadata"]`; `q = ["metadata","annotations"]`) -/
theorem objAt_remove (f : Path) : ∀ (e e' : J) (q : Path), remove e f = .ok e' →
    (∀ v, resolve? e q = some v → v.isObj = true) → ∀ v, resolve? e' q = some v → v.isObj = true := by
  induction f with
  | nil => intro e e' q h; rw [remove_nil] at h; cases h
  | cons k ks ih =>
    intro e e' q h hq v hv
    cases q with
    | nil =>
      rw [resolve_nil] at hv; cases hv
      exact remove_isObj _ _ _ h
    | cons k' qs =>
      cases hobj : e.isObj with
      | false => rw [remove_nonobj _ hobj] at h; cases h
      | true =>
        obtain ⟨kvs, rfl⟩ : ∃ kvs, e = obj kvs := by cases e <;> simp_all [isObj]
        have herase : ∀ v, resolve? (obj (erase k kvs)) (k' :: qs) = some v → v.isObj = true := by
          intro v hv
          rw [resolve_cons_obj] at hv
          by_cases e : k' = k
          · subst e; rw [lookup_erase_self] at hv; cases hv
          · rw [lookup_erase_ne e, ← resolve_cons_obj] at hv; exact hq v hv
        cases ks with
        | nil => rw [remove_last] at h; cases h; exact herase v hv
        | cons k2 ks' =>
          cases hl : lookup k kvs with
          | none => rw [remove_down_none hl] at h; cases h; exact hq v hv
          | some child =>
            rw [remove_down_some hl] at h
            cases hr : remove child (k2 :: ks') with
            | error er => rw [hr] at h; cases h
            | ok c' =>
              rw [hr] at h
              have hins : ∀ v, resolve? (obj (insert k c' kvs)) (k' :: qs) = some v → v.isObj = true := by
                intro v hv
                rw [resolve_cons_obj] at hv
                by_cases e : k' = k
                · subst e
                  rw [lookup_insert_self] at hv
                  refine ih _ _ qs hr (fun w hw => hq w ?_) v hv
                  rw [resolve_cons_obj, hl]; exact hw
                · rw [lookup_insert_ne e, ← resolve_cons_obj] at hv; exact hq v hv
              cases c' with
              | obj ck =>
                cases ck with
                | nil => simp at h; cases h; exact herase v hv
                | cons a b => simp at h; cases h; exact hins v hv
              | _ => simp at h; cases h; exact hins v hv

theorem resolve_none_removeLenient {e e' : J} {f : Path} (q : Path) (h : removeLenient e f = .ok e')
    (hq : resolve? e q = none) : resolve? e' q = none := by
  rcases removeLenient_cases h with hr | ⟨_, rfl⟩
  · exact resolve_none_remove f e e' q hr hq
  · exact hq

theorem resolve_removeLenient_self {e e' : J} {f : Path} (h : removeLenient e f = .ok e') :
    resolve? e' f = none := by
  rcases removeLenient_cases h with hr | ⟨hh, rfl⟩
  · exact resolve_remove_self f e e' hr
  · exact resolve_none_of_hidden f _ hh

theorem objAt_removeLenient {e e' : J} {f : Path} (q : Path) (h : removeLenient e f = .ok e')
    (hq : ∀ v, resolve? e q = some v → v.isObj = true) : ∀ v, resolve? e' q = some v → v.isObj = true := by
  rcases removeLenient_cases h with hr | ⟨_, rfl⟩
  · exact objAt_remove f e e' q hr hq
  · exact hq

/-! ## `remove_empty_stanzas` on arbitrary paths -/

theorem lookup_delIfFalsy_sub (k k' : String) (kvs : List (String × J)) :
    lookup k' (delIfFalsy k kvs) = none ∨ lookup k' (delIfFalsy k kvs) = lookup k' kvs := by
  by_cases e : k' = k
  · subst e
    rw [lookup_delIfFalsy_self]
    cases lookup k' kvs with
    | none => exact Or.inl rfl
    | some v =>
      simp only [Option.bind_some]
      cases v.truthy
      · exact Or.inl rfl
      · exact Or.inr rfl
  · exact Or.inr (lookup_delIfFalsy_ne e kvs)

/-- dropping the empty stanzas brings nothing into being either -/
theorem resolve_none_removeEmpty {e e' : J} (q : Path) (h : removeEmptyStanzas e = .ok e')
    (hq : resolve? e q = none) : resolve? e' q = none := by
  cases e with
  | obj kvs =>
    cases q with
    | nil => rw [resolve_nil] at hq; cases hq
    | cons k qs =>
      rw [resolve_cons_obj] at hq
      -- the outer step: two `delIfFalsy` over bindings `kvs1` whose lookups are those of `kvs`, or below them
      have outer : ∀ kvs1 : List (String × J),
          ((lookup k kvs1).bind (fun v => resolve? v qs) = none) →
          resolve? (obj (delIfFalsy "status" (delIfFalsy "metadata" kvs1))) (k :: qs) = none := by
        intro kvs1 h1
        rw [resolve_cons_obj]
        rcases lookup_delIfFalsy_sub "status" k (delIfFalsy "metadata" kvs1) with h2 | h2
        · rw [h2]; rfl
        · rw [h2]
          rcases lookup_delIfFalsy_sub "metadata" k kvs1 with h3 | h3
          · rw [h3]; rfl
          · rw [h3]; exact h1
      simp only [removeEmptyStanzas] at h
      cases hm : lookup "metadata" kvs with
      | none => simp only [hm] at h; cases h; exact outer kvs hq
      | some m =>
        simp only [hm] at h
        cases m with
        | obj mk =>
          simp only at h; cases h
          apply outer
          by_cases e : k = "metadata"
          · subst e
            rw [lookup_insert_self, Option.bind_some]
            rw [hm, Option.bind_some] at hq
            cases qs with
            | nil => rw [resolve_nil] at hq; cases hq
            | cons k2 qs' =>
              rw [resolve_cons_obj] at hq ⊢
              rcases lookup_delIfFalsy_sub "labels" k2 (delIfFalsy "annotations" mk) with h2 | h2
              · rw [h2]; rfl
              · rw [h2]
                rcases lookup_delIfFalsy_sub "annotations" k2 mk with h3 | h3
                · rw [h3]; rfl
                · rw [h3]; exact hq
          · rw [lookup_insert_ne e]; exact hq
        | _ => simp at h
  | _ => simp [removeEmptyStanzas] at h

/-- `remove_empty_stanzas` raises nothing on a mapping whose `metadata` (if any) is a mapping -/
theorem removeEmpty_total (kvs : List (String × J))
    (hm : ∀ v, resolve? (obj kvs) ["metadata"] = some v → v.isObj = true) :
    ∃ e', removeEmptyStanzas (obj kvs) = .ok e' := by
  simp only [removeEmptyStanzas]
  cases hl : lookup "metadata" kvs with
  | none => exact ⟨_, rfl⟩
  | some m =>
    have : m.isObj = true := hm m (by rw [resolve_cons_obj, hl]; simp [resolve_nil])
    cases m with
    | obj mk => exact ⟨_, rfl⟩
    | _ => simp [isObj] at this

/-! ## the cleaners raise nothing on a well-formed essence, and leave it well-formed

`EssOK`: the essence is a mapping, its `metadata` (if any) is a mapping, and so is
`metadata.annotations` (if any) — what the API guarantees of every object. Nothing is asked of `status`
or `spec`: they may hold anything. -/

def ObjAt (e : J) (q : Path) : Prop := ∀ v, resolve? e q = some v → v.isObj = true

structure EssOK (e : J) : Prop where
  root : ObjAt e []
  mta : ObjAt e ["metadata"]
  anns : ObjAt e ["metadata", "annotations"]

theorem EssOK.isObj {e : J} (h : EssOK e) : e.isObj = true := h.root e (resolve_nil e)

theorem EssOK.of_sub {e e' : J} (h : EssOK e)
    (hs : ∀ q v, resolve? e' q = some v → resolve? e q = some v ∨ (v.isObj = true ∧ (resolve? e q).isSome = true)) :
    EssOK e' :=
  ⟨fun v hv => (hs _ v hv).elim (h.root v) (·.1), fun v hv => (hs _ v hv).elim (h.mta v) (·.1),
   fun v hv => (hs _ v hv).elim (h.anns v) (·.1)⟩

theorem none_of_sub {e e' : J}
    (hs : ∀ q v, resolve? e' q = some v → resolve? e q = some v ∨ (v.isObj = true ∧ (resolve? e q).isSome = true))
    (q : Path) (hq : resolve? e q = none) : resolve? e' q = none := by
  cases hv : resolve? e' q with
  | none => rfl
  | some v =>
    rcases hs q v hv with h1 | ⟨_, h2⟩
    · rw [hq] at h1; cases h1
    · rw [hq] at h2; cases h2

/-- whatever `remove_empty_stanzas` leaves at a path was there before, or is a mapping it rebuilt where
    a mapping was -/
theorem resolve_removeEmpty_sub {e e' : J} (h : removeEmptyStanzas e = .ok e') (q : Path) (v : J)
    (hv : resolve? e' q = some v) : resolve? e q = some v ∨ (v.isObj = true ∧ (resolve? e q).isSome = true) := by
  cases e with
  | obj kvs =>
    have outer : ∀ kvs1 : List (String × J),
        e' = obj (delIfFalsy "status" (delIfFalsy "metadata" kvs1)) →
        ∀ k qs, q = k :: qs → (lookup k kvs1).bind (fun x => resolve? x qs) = some v := by
      intro kvs1 he k qs hq
      subst he; subst hq
      rw [resolve_cons_obj] at hv
      rcases lookup_delIfFalsy_sub "status" k (delIfFalsy "metadata" kvs1) with h2 | h2
      · rw [h2] at hv; cases hv
      · rw [h2] at hv
        rcases lookup_delIfFalsy_sub "metadata" k kvs1 with h3 | h3
        · rw [h3] at hv; cases hv
        · rw [h3] at hv; exact hv
    simp only [removeEmptyStanzas] at h
    cases q with
    | nil =>
      rw [resolve_nil] at hv; cases hv
      right
      refine ⟨?_, by rw [resolve_nil]; rfl⟩
      cases hm : lookup "metadata" kvs with
      | none => simp only [hm] at h; cases h; rfl
      | some m =>
        simp only [hm] at h
        cases m with
        | obj mk => simp only at h; cases h; rfl
        | _ => simp at h
    | cons k qs =>
      cases hm : lookup "metadata" kvs with
      | none =>
        simp only [hm] at h; cases h
        left; rw [resolve_cons_obj]; exact outer kvs rfl k qs rfl
      | some m =>
        simp only [hm] at h
        cases m with
        | obj mk =>
          simp only at h; cases h
          have h1 := outer _ rfl k qs rfl
          by_cases e : k = "metadata"
          · subst e
            rw [lookup_insert_self, Option.bind_some] at h1
            cases qs with
            | nil =>
              rw [resolve_nil] at h1; cases h1; right
              exact ⟨rfl, by rw [resolve_cons_obj, hm]; simp [resolve_nil]⟩
            | cons k2 qs' =>
              left
              rw [resolve_cons_obj] at h1
              rw [resolve_cons_obj, hm, Option.bind_some, resolve_cons_obj]
              rcases lookup_delIfFalsy_sub "labels" k2 (delIfFalsy "annotations" mk) with h2 | h2
              · rw [h2] at h1; cases h1
              · rw [h2] at h1
                rcases lookup_delIfFalsy_sub "annotations" k2 mk with h3 | h3
                · rw [h3] at h1; cases h1
                · rw [h3] at h1; exact h1
          · left
            rw [lookup_insert_ne e] at h1
            rw [resolve_cons_obj]; exact h1
        | _ => simp at h
  | _ => simp [removeEmptyStanzas] at h

/-- the same for `remove_annotations` with the own prefix -/
theorem resolve_removeOwn_sub {p : Str} {e e' : J} (h : removeOwnAnnotations p e = .ok e') (q : Path) (v : J)
    (hv : resolve? e' q = some v) : resolve? e q = some v ∨ (v.isObj = true ∧ (resolve? e q).isSome = true) := by
  cases e with
  | obj kvs =>
    simp only [removeOwnAnnotations] at h
    cases hm : lookup "metadata" kvs with
    | none => simp only [hm] at h; cases h; exact Or.inl hv
    | some m =>
      simp only [hm] at h
      cases m with
      | obj mk =>
        simp only at h
        cases ha : lookup "annotations" mk with
        | none => simp only [ha] at h; cases h; exact Or.inl hv
        | some a =>
          simp only [ha] at h
          cases a with
          | obj ak =>
            simp only at h
            split at h
            · cases h
              cases q with
              | nil => rw [resolve_nil] at hv; cases hv; exact Or.inr ⟨rfl, by rw [resolve_nil]; rfl⟩
              | cons k qs =>
                rw [resolve_cons_obj] at hv
                by_cases e : k = "metadata"
                · subst e
                  rw [lookup_insert_self, Option.bind_some] at hv
                  cases qs with
                  | nil =>
                    rw [resolve_nil] at hv; cases hv
                    exact Or.inr ⟨rfl, by rw [resolve_cons_obj, hm]; simp [resolve_nil]⟩
                  | cons k2 qs' =>
                    rw [resolve_cons_obj] at hv
                    by_cases e2 : k2 = "annotations"
                    · subst e2
                      rw [lookup_insert_self, Option.bind_some] at hv
                      cases qs' with
                      | nil =>
                        rw [resolve_nil] at hv; cases hv
                        exact Or.inr ⟨rfl, by
                          rw [resolve_cons_obj, hm, Option.bind_some, resolve_cons_obj, ha]; simp [resolve_nil]⟩
                      | cons name rest =>
                        left
                        rw [resolve_cons_obj, lookup_filter_key (fun n => !underPrefix p n)] at hv
                        rw [resolve_cons_obj, hm, Option.bind_some, resolve_cons_obj, ha, Option.bind_some,
                          resolve_cons_obj]
                        cases hu : underPrefix p name with
                        | true => rw [hu] at hv; simp at hv
                        | false => rw [hu] at hv; simpa using hv
                    · left
                      rw [lookup_insert_ne e2] at hv
                      rw [resolve_cons_obj, hm, Option.bind_some, resolve_cons_obj]; exact hv
                · left
                  rw [lookup_insert_ne e] at hv
                  rw [resolve_cons_obj]; exact hv
            · cases h; exact Or.inl hv
          | _ => simp at h
      | _ => simp at h
  | _ => simp [removeOwnAnnotations] at h

theorem removeOwn_total (p : Str) {e : J} (h : EssOK e) : ∃ e', removeOwnAnnotations p e = .ok e' := by
  obtain ⟨kvs, rfl⟩ : ∃ kvs, e = obj kvs := by have := h.isObj; cases e <;> simp_all [isObj]
  simp only [removeOwnAnnotations]
  cases hm : lookup "metadata" kvs with
  | none => exact ⟨_, rfl⟩
  | some m =>
    have hmo : m.isObj = true := h.mta m (by rw [resolve_cons_obj, hm]; simp [resolve_nil])
    obtain ⟨mk, rfl⟩ : ∃ mk, m = obj mk := by cases m <;> simp_all [isObj]
    simp only
    cases ha : lookup "annotations" mk with
    | none => exact ⟨_, rfl⟩
    | some a =>
      have hao : a.isObj = true :=
        h.anns a (by rw [resolve_cons_obj, hm, Option.bind_some, resolve_cons_obj, ha]; simp [resolve_nil])
      obtain ⟨ak, rfl⟩ : ∃ ak, a = obj ak := by cases a <;> simp_all [isObj]
      simp only
      split <;> exact ⟨_, rfl⟩

theorem removeEmpty_total' {e : J} (h : EssOK e) : ∃ e', removeEmptyStanzas e = .ok e' := by
  obtain ⟨kvs, rfl⟩ : ∃ kvs, e = obj kvs := by have := h.isObj; cases e <;> simp_all [isObj]
  exact removeEmpty_total kvs h.mta

theorem EssOK.removeLenient {e e' : J} {f : Path} (h : EssOK e) (hr : removeLenient e f = .ok e') : EssOK e' :=
  ⟨objAt_removeLenient _ hr h.root, objAt_removeLenient _ hr h.mta, objAt_removeLenient _ hr h.anns⟩

/-- `StatusProgressStorage.clear` (since 571b1b2) raises nothing on a well-formed essence, whatever its
    `status` holds, and leaves a well-formed essence -/
theorem statusClear_total (c : StatusCfg) (hf : c.field ≠ []) (ht : c.touchField ≠ []) {e : J} (h : EssOK e) :
    ∃ e', statusClear c e = .ok e' ∧ EssOK e' := by
  obtain ⟨e1, h1⟩ := removeLenient_total e hf
  obtain ⟨e2, h2⟩ := removeLenient_total e1 ht
  have ok2 : EssOK e2 := (h.removeLenient h1).removeLenient h2
  obtain ⟨e3, h3⟩ := removeEmpty_total' ok2
  refine ⟨e3, ?_, ok2.of_sub (fun q v => resolve_removeEmpty_sub h3 q v)⟩
  simp only [statusClear, h1, h2, h3]

theorem annClear_total (c : AnnCfg) {e : J} (h : EssOK e) : ∃ e', annClear c e = .ok e' ∧ EssOK e' := by
  obtain ⟨e1, h1⟩ := removeOwn_total c.pfx h
  have ok1 : EssOK e1 := h.of_sub (fun q v => resolve_removeOwn_sub h1 q v)
  obtain ⟨e2, h2⟩ := removeEmpty_total' ok1
  refine ⟨e2, ?_, ok1.of_sub (fun q v => resolve_removeEmpty_sub h2 q v)⟩
  simp only [annClear, h1, h2]

/-- what is absent from the essence is absent after any leaf's `clear` -/
theorem resolve_none_leafClear {l : Leaf} {e e' : J} (h : l.clear e = .ok e') (q : Path)
    (hq : resolve? e q = none) : resolve? e' q = none := by
  cases l with
  | ann c =>
    simp only [Leaf.clear, annClear] at h
    cases h1 : removeOwnAnnotations c.pfx e with
    | error er => rw [h1] at h; cases h
    | ok e1 =>
      rw [h1] at h
      exact none_of_sub (fun q v => resolve_removeEmpty_sub h q v) q
        (none_of_sub (fun q v => resolve_removeOwn_sub h1 q v) q hq)
  | status sc =>
    simp only [Leaf.clear, statusClear] at h
    cases h1 : removeLenient e sc.field with
    | error er => rw [h1] at h; cases h
    | ok e1 =>
      simp only [h1] at h
      cases h2 : removeLenient e1 sc.touchField with
      | error er => rw [h2] at h; cases h
      | ok e2 =>
        rw [h2] at h
        exact resolve_none_removeEmpty q h (resolve_none_removeLenient q h2 (resolve_none_removeLenient q h1 hq))

theorem resolve_none_clear : ∀ (ls : Storage) {e e' : J}, clear e ls = .ok e' → ∀ q, resolve? e q = none →
    resolve? e' q = none := by
  intro ls
  induction ls with
  | nil => intro e e' h q hq; simp [clear] at h; subst h; exact hq
  | cons l ls ih =>
    intro e e' h q hq
    simp only [clear] at h
    cases h1 : l.clear e with
    | error er => rw [h1] at h; cases h
    | ok e1 => rw [h1] at h; exact ih h q (resolve_none_leafClear h1 q hq)

/-- after `StatusProgressStorage.clear` neither of the storage's two fields is in the essence -/
theorem statusClear_removes {c : StatusCfg} {e e' : J} (h : statusClear c e = .ok e') :
    resolve? e' c.field = none ∧ resolve? e' c.touchField = none := by
  simp only [statusClear] at h
  cases h1 : removeLenient e c.field with
  | error er => rw [h1] at h; cases h
  | ok e1 =>
    simp only [h1] at h
    cases h2 : removeLenient e1 c.touchField with
    | error er => rw [h2] at h; cases h
    | ok e2 =>
      rw [h2] at h
      exact ⟨resolve_none_removeEmpty _ h (resolve_none_removeLenient _ h2 (resolve_removeLenient_self h1)),
        resolve_none_removeEmpty _ h (resolve_removeLenient_self h2)⟩

/-- the paths of the essence a leaf's `clear` is there to remove: every annotation under the prefix,
    the progress field and the touch field -/
def Leaf.ownsInEssence (q : Path) : Leaf → Prop
  | .ann c => ∃ name, underPrefix c.pfx name = true ∧ q = ["metadata", "annotations", name]
  | .status sc => q = sc.field ∨ q = sc.touchField

theorem leafClear_removes {l : Leaf} {e e' : J} (h : l.clear e = .ok e') (q : Path) (hq : l.ownsInEssence q) :
    resolve? e' q = none := by
  cases l with
  | ann c =>
    obtain ⟨name, hu, rfl⟩ := hq
    exact annClear_removes c e e' h name hu
  | status sc =>
    rcases hq with rfl | rfl
    · exact (statusClear_removes h).1
    · exact (statusClear_removes h).2

/-- after the `clear` of a list of leaves nothing that any of them owns is left in the essence -/
theorem clear_removes : ∀ (ls : Storage) {e e' : J}, clear e ls = .ok e' →
    ∀ l ∈ ls, ∀ q, l.ownsInEssence q → resolve? e' q = none := by
  intro ls
  induction ls with
  | nil => intro e e' _ l hl; cases hl
  | cons l0 ls ih =>
    intro e e' h l hl q hq
    simp only [clear] at h
    cases h1 : l0.clear e with
    | error er => rw [h1] at h; cases h
    | ok e1 =>
      rw [h1] at h
      rcases List.mem_cons.1 hl with rfl | hl'
      · exact resolve_none_clear ls h q (leafClear_removes h1 q hq)
      · exact ih h l hl' q hq

/-- the fields of a status leaf are fields: `parse_field` of a string (even of `''`) is never the empty path -/
def Leaf.fieldsNonEmpty : Leaf → Prop
  | .ann _ => True
  | .status sc => sc.field ≠ [] ∧ sc.touchField ≠ []

theorem clear_total : ∀ (ls : Storage), (∀ l ∈ ls, l.fieldsNonEmpty) → ∀ {e : J}, EssOK e →
    ∃ e', clear e ls = .ok e' ∧ EssOK e' := by
  intro ls
  induction ls with
  | nil => intro _ e h; exact ⟨e, rfl, h⟩
  | cons l ls ih =>
    intro hl e h
    have hl0 := hl l (List.mem_cons_self ..)
    obtain ⟨e1, h1, ok1⟩ : ∃ e1, l.clear e = .ok e1 ∧ EssOK e1 := by
      cases l with
      | ann c => exact annClear_total c h
      | status sc => exact statusClear_total sc hl0.1 hl0.2 h
    obtain ⟨e2, h2, ok2⟩ := ih (fun x hx => hl x (List.mem_cons_of_mem _ hx)) ok1
    exact ⟨e2, by simp only [clear, h1, h2], ok2⟩

end Kopf.C16
