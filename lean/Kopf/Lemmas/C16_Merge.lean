/-
  C16 helper lemmas, part 1: association lists, RFC 7386 merge along a path (`probe` /
  `resolve_merge`), and what `dicts.ensure` / `dicts.remove` do to a patch as seen by `probe`.
  Nothing here is specific to the storages.
-/
import Kopf.Model.C16_Names
namespace Kopf.C16
open Kopf Kopf.J

/-! ## association lists -/

theorem lookup_insert_self (k : String) (v : J) (kvs : List (String × J)) :
    lookup k (insert k v kvs) = some v := by
  induction kvs with
  | nil => simp [J.insert, lookup]
  | cons hd tl ih =>
    obtain ⟨k', v'⟩ := hd
    by_cases h : k' = k
    · simp [J.insert, lookup, h]
    · simp [J.insert, lookup, h, ih]

theorem lookup_insert_ne {k k' : String} (h : k' ≠ k) (v : J) (kvs : List (String × J)) :
    lookup k' (insert k v kvs) = lookup k' kvs := by
  induction kvs with
  | nil => simp [J.insert, lookup]; intro e; exact absurd e.symm h
  | cons hd tl ih =>
    obtain ⟨k2, v2⟩ := hd
    by_cases h2 : k2 = k
    · subst h2
      have : ¬ k2 = k' := fun e => h e.symm
      simp [J.insert, lookup, this]
    · by_cases h3 : k2 = k'
      · subst h3; simp [J.insert, lookup, h]
      · simp [J.insert, lookup, h2, h3, ih]

theorem lookup_erase_self (k : String) (kvs : List (String × J)) :
    lookup k (erase k kvs) = none := by
  induction kvs with
  | nil => simp [erase]
  | cons hd tl ih =>
    obtain ⟨k', v'⟩ := hd
    by_cases h : k' = k
    · simp [erase, h, ih]
    · simp [erase, lookup, h, ih]

theorem lookup_erase_ne {k k' : String} (h : k' ≠ k) (kvs : List (String × J)) :
    lookup k' (erase k kvs) = lookup k' kvs := by
  induction kvs with
  | nil => simp [erase]
  | cons hd tl ih =>
    obtain ⟨k2, v2⟩ := hd
    by_cases h2 : k2 = k
    · subst h2
      have : ¬ k2 = k' := fun e => h e.symm
      simp [erase, lookup, this, ih]
    · by_cases h3 : k2 = k'
      · subst h3; simp [erase, lookup, h]
      · simp [erase, lookup, h2, h3, ih]

theorem any_key_eq_lookup (k : String) (kvs : List (String × J)) :
    kvs.any (fun kv => kv.1 == k) = (lookup k kvs).isSome := by
  induction kvs with
  | nil => simp
  | cons hd tl ih =>
    obtain ⟨k', v'⟩ := hd
    by_cases h : k' = k
    · simp [lookup, h]
    · simp [lookup, h, ih]

theorem any_key_insert {k k' : String} (h : k' ≠ k) (v : J) (kvs : List (String × J)) :
    (insert k v kvs).any (fun kv => kv.1 == k') = kvs.any (fun kv => kv.1 == k') := by
  rw [any_key_eq_lookup, any_key_eq_lookup, lookup_insert_ne h]

theorem any_key_erase (k k' : String) (kvs : List (String × J)) :
    kvs.any (fun kv => kv.1 == k') = false → (erase k kvs).any (fun kv => kv.1 == k') = false := by
  intro h
  rw [any_key_eq_lookup] at *
  by_cases e : k' = k
  · subst e; simp [lookup_erase_self]
  · rw [lookup_erase_ne e]; exact h

/-! ## well-formedness (unique keys) is kept by insert / erase -/

theorem wfKvs_cons (k : String) (x : J) (xs : List (String × J)) :
    wfKvs ((k, x) :: xs) = (!(xs.any (fun kv => kv.1 == k)) && wf x && wfKvs xs) := by
  simp [wfKvs]

theorem wfKvs_insert {kvs : List (String × J)} (h : wfKvs kvs = true) {v : J} (hv : wf v = true) (k : String) :
    wfKvs (insert k v kvs) = true := by
  induction kvs with
  | nil => simp [J.insert, wfKvs, hv]
  | cons hd tl ih =>
    obtain ⟨k', v'⟩ := hd
    rw [wfKvs_cons] at h
    simp only [Bool.and_eq_true, Bool.not_eq_true'] at h
    obtain ⟨⟨h1, h2⟩, h3⟩ := h
    by_cases e : k' = k
    · subst e
      simp [J.insert, wfKvs_cons, h1, hv, h3]
    · have e' : k' ≠ k := e
      simp only [J.insert, e, if_false, wfKvs_cons, Bool.and_eq_true, Bool.not_eq_true']
      exact ⟨⟨by rw [any_key_insert e']; exact h1, h2⟩, ih h3⟩

theorem wfKvs_erase {kvs : List (String × J)} (h : wfKvs kvs = true) (k : String) :
    wfKvs (erase k kvs) = true := by
  induction kvs with
  | nil => simp [erase, wfKvs]
  | cons hd tl ih =>
    obtain ⟨k', v'⟩ := hd
    rw [wfKvs_cons] at h
    simp only [Bool.and_eq_true, Bool.not_eq_true'] at h
    obtain ⟨⟨h1, h2⟩, h3⟩ := h
    by_cases e : k' = k
    · simp [erase, e, ih h3]
    · simp only [erase, e, if_false, wfKvs_cons, Bool.and_eq_true, Bool.not_eq_true']
      exact ⟨⟨any_key_erase k k' tl h1, h2⟩, ih h3⟩

theorem wf_of_lookup {kvs : List (String × J)} (h : wfKvs kvs = true) {k : String} {v : J}
    (hl : lookup k kvs = some v) : wf v = true := by
  induction kvs with
  | nil => simp at hl
  | cons hd tl ih =>
    obtain ⟨k', v'⟩ := hd
    rw [wfKvs_cons] at h
    simp only [Bool.and_eq_true, Bool.not_eq_true'] at h
    obtain ⟨⟨_, h2⟩, h3⟩ := h
    by_cases e : k' = k
    · simp [lookup, e] at hl; subst hl; exact h2
    · simp [lookup, e] at hl; exact ih h3 hl

theorem wf_obj (kvs : List (String × J)) : wf (obj kvs) = wfKvs kvs := by simp [wf]

theorem wf_obj_nil : wf (obj []) = true := by simp [wf, wfKvs]

/-! ## RFC 7386 on one level -/

theorem mergeKvs_nil (t : List (String × J)) : mergeKvs t [] = t := by simp [mergeKvs]

theorem mergeKvs_cons_null (t : List (String × J)) (k : String) (rest : List (String × J)) :
    mergeKvs t ((k, null) :: rest) = mergeKvs (erase k t) rest := by simp [mergeKvs]

theorem mergeKvs_cons_nonnull (t : List (String × J)) (k : String) (v : J) (hv : v ≠ null)
    (rest : List (String × J)) :
    mergeKvs t ((k, v) :: rest) = mergeKvs (insert k (mergePatch ((lookup k t).getD null) v) t) rest := by
  cases v <;> simp_all [mergeKvs]

/-- what a patch entry does to a target entry -/
def mergeEntry (told : Option J) : Option J → Option J
  | none => told
  | some null => none
  | some v => some (mergePatch (told.getD null) v)

theorem lookup_mergeKvs (p : List (String × J)) (hp : wfKvs p = true) (t : List (String × J)) (k : String) :
    lookup k (mergeKvs t p) = mergeEntry (lookup k t) (lookup k p) := by
  induction p generalizing t with
  | nil => simp [mergeKvs_nil, mergeEntry]
  | cons hd tl ih =>
    obtain ⟨k', v'⟩ := hd
    rw [wfKvs_cons] at hp
    simp only [Bool.and_eq_true, Bool.not_eq_true'] at hp
    obtain ⟨⟨h1, _⟩, h3⟩ := hp
    by_cases e : k' = k
    · subst e
      have hn : lookup k' tl = none := by
        rw [any_key_eq_lookup] at h1
        cases hh : lookup k' tl <;> simp_all
      by_cases hv : v' = null
      · subst hv
        rw [mergeKvs_cons_null, ih h3, hn]
        simp [mergeEntry, lookup, lookup_erase_self]
      · rw [mergeKvs_cons_nonnull _ _ _ hv, ih h3, hn]
        simp only [mergeEntry, lookup_insert_self, lookup, if_true]
    · have e' : k ≠ k' := fun x => e x.symm
      by_cases hv : v' = null
      · subst hv
        rw [mergeKvs_cons_null, ih h3, lookup_erase_ne e']
        simp [lookup, e]
      · rw [mergeKvs_cons_nonnull _ _ _ hv, ih h3, lookup_insert_ne e']
        simp [lookup, e]

theorem mergePatch_obj (t : J) (pk : List (String × J)) :
    mergePatch t (obj pk) = obj (mergeKvs (kvsOf t) pk) := by
  cases t <;> simp [mergePatch, kvsOf]

theorem mergePatch_nonobj (t p : J) (h : p.isObj = false) : mergePatch t p = p := by
  cases p <;> simp_all [mergePatch, isObj]

theorem resolve_cons_obj (kvs : List (String × J)) (k : String) (ks : Path) :
    resolve? (obj kvs) (k :: ks) = (lookup k kvs).bind (fun v => resolve? v ks) := by
  simp only [resolve?]
  cases lookup k kvs <;> simp

theorem resolve_cons_nonobj (j : J) (h : j.isObj = false) (k : String) (ks : Path) :
    resolve? j (k :: ks) = none := by
  cases j <;> simp_all [resolve?, isObj]

theorem resolve_cons (j : J) (k : String) (ks : Path) :
    resolve? j (k :: ks) = (lookup k (kvsOf j)).bind (fun v => resolve? v ks) := by
  cases j <;> simp [resolve?, kvsOf]
  rename_i kvs
  cases lookup k kvs <;> simp

theorem resolve_nil (j : J) : resolve? j [] = some j := by cases j <;> simp [resolve?]

/-! ## what a merge-patch does along one path -/

/-- the probe of a path whose value the patch sets to `v` (`null` = deletion) -/
def Probe.ofValue : J → Probe
  | null => .gone
  | v => .set v

theorem probe_nil (p : J) : probe p [] = .set p := by simp [probe]

theorem probe_nonobj (p : J) (h : p.isObj = false) (k : String) (ks : Path) : probe p (k :: ks) = .gone := by
  cases p <;> simp_all [probe, isObj]

theorem probe_obj_none {pk : List (String × J)} {k : String} (h : lookup k pk = none) (ks : Path) :
    probe (obj pk) (k :: ks) = .untouched := by simp [probe, h]

theorem probe_obj_null {pk : List (String × J)} {k : String} (h : lookup k pk = some null) (ks : Path) :
    probe (obj pk) (k :: ks) = .gone := by simp [probe, h]

theorem probe_obj_last {pk : List (String × J)} {k : String} {c : J} (h : lookup k pk = some c) (hc : c ≠ null) :
    probe (obj pk) [k] = .set c := by
  cases c <;> simp_all [probe]

theorem probe_obj_down {pk : List (String × J)} {k : String} {ck : List (String × J)}
    (h : lookup k pk = some (obj ck)) (k2 : String) (ks : Path) :
    probe (obj pk) (k :: k2 :: ks) = probe (obj ck) (k2 :: ks) := by
  rw [probe]; simp [h, isObj]

theorem probe_obj_cut {pk : List (String × J)} {k : String} {c : J}
    (h : lookup k pk = some c) (hc : c.isObj = false) (k2 : String) (ks : Path) :
    probe (obj pk) (k :: k2 :: ks) = .gone := by
  rw [probe]; cases c <;> simp_all [isObj]

/-- the value of the merged object at a path, as a function of the old value and the probe -/
def mergedAt (told : Option J) : Probe → Option J
  | .untouched => told
  | .gone => none
  | .set v => some (mergePatch (told.getD null) v)

/-- **RFC 7386 along a path**: what `MergePatch(t, p)` holds at `q` is determined by what `t`
    holds at `q` and by the probe of `p` at `q`. -/
theorem resolve_merge (q : Path) : ∀ (p : J), wf p = true → ∀ t : J,
    resolve? (mergePatch t p) q = mergedAt (resolve? t q) (probe p q) := by
  induction q with
  | nil => intro p _ t; simp [resolve_nil, probe_nil, mergedAt]
  | cons k ks ih =>
    intro p hp t
    cases hobj : p.isObj with
    | false =>
      rw [mergePatch_nonobj _ _ hobj, resolve_cons_nonobj _ hobj, probe_nonobj _ hobj]; rfl
    | true =>
      obtain ⟨pk, rfl⟩ : ∃ pk, p = obj pk := by cases p <;> simp_all [isObj]
      rw [wf_obj] at hp
      rw [mergePatch_obj, resolve_cons_obj, lookup_mergeKvs pk hp, resolve_cons t]
      cases hl : lookup k pk with
      | none => simp [mergeEntry, probe_obj_none hl, mergedAt]
      | some c =>
        have hwc : wf c = true := wf_of_lookup hp hl
        by_cases hc : c = null
        · subst hc; simp [mergeEntry, probe_obj_null hl, mergedAt]
        · have hme : mergeEntry (lookup k (kvsOf t)) (some c)
              = some (mergePatch ((lookup k (kvsOf t)).getD null) c) := by
            cases c <;> simp_all [mergeEntry]
          rw [hme]
          simp only [Option.bind_some]
          cases ks with
          | nil =>
            rw [probe_obj_last hl hc, resolve_nil]
            simp only [mergedAt]
            cases lookup k (kvsOf t) <;> simp [resolve_nil]
          | cons k2 ks' =>
            cases hco : c.isObj with
            | false =>
              rw [mergePatch_nonobj _ _ hco, resolve_cons_nonobj _ hco, probe_obj_cut hl hco]; rfl
            | true =>
              obtain ⟨ck, rfl⟩ : ∃ ck, c = obj ck := by cases c <;> simp_all [isObj]
              rw [probe_obj_down hl, ih (obj ck) hwc]
              congr 1
              cases hlt : lookup k (kvsOf t) with
              | none => simp [resolve?]
              | some v => simp

theorem resolve_of_probe_set (q : Path) : ∀ (p v : J), q ≠ [] → probe p q = .set v → resolve? p q = some v := by
  induction q with
  | nil => intro p v h; exact absurd rfl h
  | cons k ks ih =>
    intro p v _ hpr
    cases hobj : p.isObj with
    | false => rw [probe_nonobj _ hobj] at hpr; cases hpr
    | true =>
      obtain ⟨pk, rfl⟩ : ∃ pk, p = obj pk := by cases p <;> simp_all [isObj]
      rw [resolve_cons_obj]
      cases hl : lookup k pk with
      | none => rw [probe_obj_none hl] at hpr; cases hpr
      | some c =>
        by_cases hc : c = null
        · subst hc; rw [probe_obj_null hl] at hpr; cases hpr
        · cases ks with
          | nil =>
            rw [probe_obj_last hl hc] at hpr
            cases hpr; simp [resolve_nil]
          | cons k2 ks' =>
            cases hco : c.isObj with
            | false => rw [probe_obj_cut hl hco] at hpr; cases hpr
            | true =>
              obtain ⟨ck, rfl⟩ : ∃ ck, c = obj ck := by cases c <;> simp_all [isObj]
              rw [probe_obj_down hl] at hpr
              simp only [Option.bind_some]
              exact ih _ _ (by simp) hpr

/-- a value set by the patch is never `null` (deletions are `gone`) -/
theorem probe_set_ne_null (q : Path) : ∀ (p v : J), q ≠ [] → probe p q = .set v → v ≠ null := by
  induction q with
  | nil => intro p v h; exact absurd rfl h
  | cons k ks ih =>
    intro p v _ hpr
    cases hobj : p.isObj with
    | false => rw [probe_nonobj _ hobj] at hpr; cases hpr
    | true =>
      obtain ⟨pk, rfl⟩ : ∃ pk, p = obj pk := by cases p <;> simp_all [isObj]
      cases hl : lookup k pk with
      | none => rw [probe_obj_none hl] at hpr; cases hpr
      | some c =>
        by_cases hc : c = null
        · subst hc; rw [probe_obj_null hl] at hpr; cases hpr
        · cases ks with
          | nil => rw [probe_obj_last hl hc] at hpr; cases hpr; exact hc
          | cons k2 ks' =>
            cases hco : c.isObj with
            | false => rw [probe_obj_cut hl hco] at hpr; cases hpr
            | true =>
              obtain ⟨ck, rfl⟩ : ∃ ck, c = obj ck := by cases c <;> simp_all [isObj]
              rw [probe_obj_down hl] at hpr
              exact ih _ _ (by simp) hpr

/-! ## paths that part ways -/

theorem diverge_cons_same (a : String) (as bs : Path) : diverge (a :: as) (a :: bs) = diverge as bs := by
  simp [diverge]

theorem diverge_cons_ne {a b : String} (h : a ≠ b) (as bs : Path) : diverge (a :: as) (b :: bs) = true := by
  simp [diverge, h]

theorem diverge_nil_left (p : Path) : diverge [] p = false := by cases p <;> simp [diverge]
theorem diverge_nil_right (p : Path) : diverge p [] = false := by cases p <;> simp [diverge]

theorem diverge_symm (a b : Path) : diverge a b = diverge b a := by
  induction a generalizing b with
  | nil => simp [diverge_nil_left, diverge_nil_right]
  | cons x xs ih =>
    cases b with
    | nil => simp [diverge]
    | cons y ys =>
      by_cases e : x = y
      · subst e; simp [diverge_cons_same, ih]
      · rw [diverge_cons_ne e, diverge_cons_ne (fun h => e h.symm)]

/-! ## `dicts.ensure` seen through `probe` -/

theorem ensure_last (kvs : List (String × J)) (k : String) (v : J) :
    ensure (obj kvs) [k] v = .ok (obj (insert k v kvs)) := by simp [ensure]

theorem ensure_nonobj (d : J) (h : d.isObj = false) (k : String) (ks : Path) (v : J) :
    ensure d (k :: ks) v = .error .typeError := by
  cases d <;> simp_all [ensure, isObj]

theorem ensure_down (kvs : List (String × J)) (k k2 : String) (ks : Path) (v : J) :
    ensure (obj kvs) (k :: k2 :: ks) v =
      match ensure ((lookup k kvs).getD (obj [])) (k2 :: ks) v with
      | .ok c' => .ok (obj (insert k c' kvs))
      | .error e => .error e := by
  rw [ensure]
  cases hl : lookup k kvs with
  | none =>
    simp only [Option.getD_none]
    cases ensure (obj []) (k2 :: ks) v <;> rfl
  | some child =>
    simp only [Option.getD_some]
    cases ensure child (k2 :: ks) v <;> rfl

theorem ensure_isObj (path : Path) : ∀ (d d' v : J), ensure d path v = .ok d' → d'.isObj = true := by
  cases path with
  | nil => intro d d' v h; simp [ensure] at h
  | cons k ks =>
    intro d d' v h
    cases hobj : d.isObj with
    | false => rw [ensure_nonobj _ hobj] at h; cases h
    | true =>
      obtain ⟨kvs, rfl⟩ : ∃ kvs, d = obj kvs := by cases d <;> simp_all [isObj]
      cases ks with
      | nil => rw [ensure_last] at h; cases h; rfl
      | cons k2 ks' =>
        rw [ensure_down] at h
        cases he : ensure ((lookup k kvs).getD (obj [])) (k2 :: ks') v with
        | error e => rw [he] at h; cases h
        | ok c' => rw [he] at h; cases h; rfl

theorem ensure_wf (path : Path) : ∀ (d d' v : J), wf d = true → wf v = true →
    ensure d path v = .ok d' → wf d' = true := by
  induction path with
  | nil => intro d d' v _ _ h; simp [ensure] at h
  | cons k ks ih =>
    intro d d' v hd hv h
    cases hobj : d.isObj with
    | false => rw [ensure_nonobj _ hobj] at h; cases h
    | true =>
      obtain ⟨kvs, rfl⟩ : ∃ kvs, d = obj kvs := by cases d <;> simp_all [isObj]
      rw [wf_obj] at hd
      cases ks with
      | nil => rw [ensure_last] at h; cases h; rw [wf_obj]; exact wfKvs_insert hd hv k
      | cons k2 ks' =>
        rw [ensure_down] at h
        cases he : ensure ((lookup k kvs).getD (obj [])) (k2 :: ks') v with
        | error e => rw [he] at h; cases h
        | ok c' =>
          rw [he] at h; cases h
          rw [wf_obj]
          refine wfKvs_insert hd ?_ k
          refine ih _ _ _ ?_ hv he
          cases hl : lookup k kvs with
          | none => simp [wf_obj_nil]
          | some child => simpa using wf_of_lookup hd hl

/-- the child the recursion of `ensure` descends into is an object when `ensure` succeeds -/
theorem ensure_child_obj {kvs : List (String × J)} {k k2 : String} {ks : Path} {v c' : J}
    (he : ensure ((lookup k kvs).getD (obj [])) (k2 :: ks) v = .ok c') :
    ∃ ck, (lookup k kvs).getD (obj []) = obj ck := by
  cases hobj : ((lookup k kvs).getD (obj [])).isObj with
  | false => rw [ensure_nonobj _ hobj] at he; cases he
  | true =>
    revert hobj
    cases (lookup k kvs).getD (obj []) <;> simp [isObj]

theorem probe_child (kvs : List (String × J)) (k k2 : String) (ks : Path) (ck : List (String × J))
    (h : (lookup k kvs).getD (obj []) = obj ck) :
    probe (obj kvs) (k :: k2 :: ks) = probe (obj ck) (k2 :: ks) := by
  cases hl : lookup k kvs with
  | none =>
    rw [hl] at h; simp at h; cases h
    rw [probe_obj_none hl]; simp [probe]
  | some c =>
    rw [hl] at h; simp at h; subst h
    exact probe_obj_down hl k2 ks

theorem probe_ensure_other (path : Path) : ∀ (p p' v : J), ensure p path v = .ok p' →
    ∀ q, diverge q path = true → probe p' q = probe p q := by
  induction path with
  | nil => intro p p' v h; simp [ensure] at h
  | cons k ks ih =>
    intro p p' v h q hq
    cases hobj : p.isObj with
    | false => rw [ensure_nonobj _ hobj] at h; cases h
    | true =>
      obtain ⟨kvs, rfl⟩ : ∃ kvs, p = obj kvs := by cases p <;> simp_all [isObj]
      cases q with
      | nil => simp [diverge] at hq
      | cons k' qs =>
        by_cases e : k' = k
        · subst e
          rw [diverge_cons_same] at hq
          cases ks with
          | nil => rw [diverge_nil_right] at hq; cases hq
          | cons k2 ks' =>
            cases qs with
            | nil => simp [diverge] at hq
            | cons q2 qs' =>
              rw [ensure_down] at h
              cases he : ensure ((lookup k' kvs).getD (obj [])) (k2 :: ks') v with
              | error e => rw [he] at h; cases h
              | ok c' =>
                rw [he] at h; cases h
                obtain ⟨ck, hck⟩ := ensure_child_obj he
                obtain ⟨ck', rfl⟩ : ∃ ck', c' = obj ck' := by
                  have := ensure_isObj _ _ _ _ he
                  cases c' <;> simp_all [isObj]
                rw [probe_obj_down (lookup_insert_self k' (obj ck') kvs), probe_child kvs k' q2 qs' ck hck]
                rw [hck] at he
                exact ih _ _ _ he _ hq
        · cases ks with
          | nil =>
            rw [ensure_last] at h; cases h
            simp only [probe, lookup_insert_ne e]
          | cons k2 ks' =>
            rw [ensure_down] at h
            cases he : ensure ((lookup k kvs).getD (obj [])) (k2 :: ks') v with
            | error e => rw [he] at h; cases h
            | ok c' =>
              rw [he] at h; cases h
              simp only [probe, lookup_insert_ne e]

theorem probe_ensure_same (path : Path) : ∀ (p p' v : J), ensure p path v = .ok p' →
    probe p' path = Probe.ofValue v := by
  induction path with
  | nil => intro p p' v h; simp [ensure] at h
  | cons k ks ih =>
    intro p p' v h
    cases hobj : p.isObj with
    | false => rw [ensure_nonobj _ hobj] at h; cases h
    | true =>
      obtain ⟨kvs, rfl⟩ : ∃ kvs, p = obj kvs := by cases p <;> simp_all [isObj]
      cases ks with
      | nil =>
        rw [ensure_last] at h; cases h
        by_cases hv : v = null
        · subst hv; simp [probe_obj_null (lookup_insert_self k null kvs), Probe.ofValue]
        · rw [probe_obj_last (lookup_insert_self k v kvs) hv]
          cases v <;> simp_all [Probe.ofValue]
      | cons k2 ks' =>
        rw [ensure_down] at h
        cases he : ensure ((lookup k kvs).getD (obj [])) (k2 :: ks') v with
        | error e => rw [he] at h; cases h
        | ok c' =>
          rw [he] at h; cases h
          obtain ⟨ck', rfl⟩ : ∃ ck', c' = obj ck' := by
            have := ensure_isObj _ _ _ _ he
            cases c' <;> simp_all [isObj]
          rw [probe_obj_down (lookup_insert_self k (obj ck') kvs)]
          exact ih _ _ _ he

/-! ## `dicts.remove` seen through `probe` -/

theorem remove_last (kvs : List (String × J)) (k : String) :
    remove (obj kvs) [k] = .ok (obj (erase k kvs)) := by simp [remove]

theorem remove_nonobj (d : J) (h : d.isObj = false) (k : String) (ks : Path) :
    remove d (k :: ks) = .error .typeError := by
  cases d <;> simp_all [remove, isObj]

theorem remove_down_none {kvs : List (String × J)} {k : String} (hl : lookup k kvs = none) (k2 : String) (ks : Path) :
    remove (obj kvs) (k :: k2 :: ks) = .ok (obj kvs) := by
  rw [remove]; simp [hl]

theorem remove_down_some {kvs : List (String × J)} {k : String} {child : J} (hl : lookup k kvs = some child)
    (k2 : String) (ks : Path) :
    remove (obj kvs) (k :: k2 :: ks) =
      match remove child (k2 :: ks) with
      | .ok c' => (match c' with
          | obj [] => .ok (obj (erase k kvs))
          | _ => .ok (obj (insert k c' kvs)))
      | .error e => .error e := by
  rw [remove]; simp only [hl]
  cases remove child (k2 :: ks) with
  | error e => rfl
  | ok c' =>
    cases c' with
    | obj ck => cases ck <;> rfl
    | _ => rfl

theorem remove_isObj (path : Path) : ∀ (d d' : J), remove d path = .ok d' → d'.isObj = true := by
  cases path with
  | nil => intro d d' h; simp [remove] at h
  | cons k ks =>
    intro d d' h
    cases hobj : d.isObj with
    | false => rw [remove_nonobj _ hobj] at h; cases h
    | true =>
      obtain ⟨kvs, rfl⟩ : ∃ kvs, d = obj kvs := by cases d <;> simp_all [isObj]
      cases ks with
      | nil => rw [remove_last] at h; cases h; rfl
      | cons k2 ks' =>
        cases hl : lookup k kvs with
        | none => rw [remove_down_none hl] at h; cases h; rfl
        | some child =>
          rw [remove_down_some hl] at h
          cases hr : remove child (k2 :: ks') with
          | error e => rw [hr] at h; cases h
          | ok c' =>
            rw [hr] at h
            cases c' with
            | obj ck => cases ck <;> (simp at h; cases h; rfl)
            | _ => simp at h; cases h; rfl

theorem remove_wf (path : Path) : ∀ (d d' : J), wf d = true → remove d path = .ok d' → wf d' = true := by
  induction path with
  | nil => intro d d' _ h; simp [remove] at h
  | cons k ks ih =>
    intro d d' hd h
    cases hobj : d.isObj with
    | false => rw [remove_nonobj _ hobj] at h; cases h
    | true =>
      obtain ⟨kvs, rfl⟩ : ∃ kvs, d = obj kvs := by cases d <;> simp_all [isObj]
      rw [wf_obj] at hd
      cases ks with
      | nil => rw [remove_last] at h; cases h; rw [wf_obj]; exact wfKvs_erase hd k
      | cons k2 ks' =>
        cases hl : lookup k kvs with
        | none => rw [remove_down_none hl] at h; cases h; rw [wf_obj]; exact hd
        | some child =>
          rw [remove_down_some hl] at h
          cases hr : remove child (k2 :: ks') with
          | error e => rw [hr] at h; cases h
          | ok c' =>
            rw [hr] at h
            have hwc : wf c' = true := ih _ _ (wf_of_lookup hd hl) hr
            cases c' with
            | obj ck =>
              cases ck with
              | nil => simp at h; cases h; rw [wf_obj]; exact wfKvs_erase hd k
              | cons a b => simp at h; cases h; rw [wf_obj]; exact wfKvs_insert hd hwc k
            | _ => simp at h; cases h; rw [wf_obj]; exact wfKvs_insert hd hwc k

theorem probe_remove_other (path : Path) : ∀ (p p' : J), remove p path = .ok p' →
    ∀ q, diverge q path = true → probe p' q = probe p q := by
  induction path with
  | nil => intro p p' h; simp [remove] at h
  | cons k ks ih =>
    intro p p' h q hq
    cases hobj : p.isObj with
    | false => rw [remove_nonobj _ hobj] at h; cases h
    | true =>
      obtain ⟨kvs, rfl⟩ : ∃ kvs, p = obj kvs := by cases p <;> simp_all [isObj]
      cases q with
      | nil => simp [diverge] at hq
      | cons k' qs =>
        by_cases e : k' = k
        · subst e
          rw [diverge_cons_same] at hq
          cases ks with
          | nil => rw [diverge_nil_right] at hq; cases hq
          | cons k2 ks' =>
            cases qs with
            | nil => simp [diverge] at hq
            | cons q2 qs' =>
              cases hl : lookup k' kvs with
              | none => rw [remove_down_none hl] at h; cases h; rfl
              | some child =>
                rw [remove_down_some hl] at h
                cases hr : remove child (k2 :: ks') with
                | error e => rw [hr] at h; cases h
                | ok c' =>
                  rw [hr] at h
                  obtain ⟨ck, rfl⟩ : ∃ ck, child = obj ck := by
                    cases hco : child.isObj with
                    | false => rw [remove_nonobj _ hco] at hr; cases hr
                    | true => cases child <;> simp_all [isObj]
                  have hih := ih _ _ hr _ hq
                  obtain ⟨ck', rfl⟩ : ∃ ck', c' = obj ck' := by
                    have := remove_isObj _ _ _ hr
                    cases c' <;> simp_all [isObj]
                  rw [probe_obj_down hl, ← hih]
                  cases ck' with
                  | nil =>
                    simp at h; cases h
                    rw [probe_obj_none (lookup_erase_self k' kvs)]
                    simp [probe]
                  | cons a b =>
                    simp at h; cases h
                    rw [probe_obj_down (lookup_insert_self k' _ kvs)]
        · cases ks with
          | nil =>
            rw [remove_last] at h; cases h
            simp only [probe, lookup_erase_ne e]
          | cons k2 ks' =>
            cases hl : lookup k kvs with
            | none => rw [remove_down_none hl] at h; cases h; rfl
            | some child =>
              rw [remove_down_some hl] at h
              cases hr : remove child (k2 :: ks') with
              | error e => rw [hr] at h; cases h
              | ok c' =>
                rw [hr] at h
                cases c' with
                | obj ck' =>
                  cases ck' with
                  | nil => simp at h; cases h; simp only [probe, lookup_erase_ne e]
                  | cons a b => simp at h; cases h; simp only [probe, lookup_insert_ne e]
                | _ => simp at h; cases h; simp only [probe, lookup_insert_ne e]

theorem probe_remove_same (path : Path) : ∀ (p p' : J), remove p path = .ok p' →
    probe p' path = .untouched := by
  induction path with
  | nil => intro p p' h; simp [remove] at h
  | cons k ks ih =>
    intro p p' h
    cases hobj : p.isObj with
    | false => rw [remove_nonobj _ hobj] at h; cases h
    | true =>
      obtain ⟨kvs, rfl⟩ : ∃ kvs, p = obj kvs := by cases p <;> simp_all [isObj]
      cases ks with
      | nil => rw [remove_last] at h; cases h; exact probe_obj_none (lookup_erase_self k kvs) []
      | cons k2 ks' =>
        cases hl : lookup k kvs with
        | none => rw [remove_down_none hl] at h; cases h; exact probe_obj_none hl _
        | some child =>
          rw [remove_down_some hl] at h
          cases hr : remove child (k2 :: ks') with
          | error e => rw [hr] at h; cases h
          | ok c' =>
            rw [hr] at h
            have hih := ih _ _ hr
            obtain ⟨ck', rfl⟩ : ∃ ck', c' = obj ck' := by
              have := remove_isObj _ _ _ hr
              cases c' <;> simp_all [isObj]
            cases ck' with
            | nil => simp at h; cases h; exact probe_obj_none (lookup_erase_self k kvs) _
            | cons a b =>
              simp at h; cases h
              rw [probe_obj_down (lookup_insert_self k _ kvs)]; exact hih

end Kopf.C16
