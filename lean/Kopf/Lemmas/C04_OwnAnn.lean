/-
  C04 — essence-level invariance for annotation writes under a marked prefix.
-/
import Kopf.Lemmas.C04_Marked
set_option linter.unusedSimpArgs false
namespace Kopf.C04
open Kopf Kopf.J

def ML : List String := ["metadata", "labels"]
def MA : List String := ["metadata", "annotations"]

/-- `build` after the two implicit cherry-picks. -/
def annPrefixes (e1 : J) : List (List Char) :=
  match metaGet e1 "annotations" with
  | some (.obj anns) => markedPrefixes (keys anns)
  | _ => []

def stage2 (e1 : J) : J := filterAnnotations (keepAnnotation (annPrefixes e1)) e1

def tailBuild (ig extra : List (List String)) (src e1 : J) : Except Err J :=
  if !metaOK e1 then .error .unmodelled else
  match cherrypickSkip src (stage2 e1) extra with
  | .error e => .error e
  | .ok e3 => if !metaOK e3 then .error .unmodelled else ignoreFields (removeEmptyStanzas e3) ig

theorem baseBuild_eq (ig extra : List (List String)) (kvs : Kvs) :
    baseBuild ig extra (.obj kvs) =
      match cherrypick (.obj kvs) (.obj (erase4 kvs)) [ML, MA] with
      | .error e => .error e
      | .ok e1 => tailBuild ig extra (.obj kvs) e1 := by
  simp only [baseBuild, erase4, ML, MA, tailBuild, stage2, annPrefixes]
  cases cherrypick (.obj kvs) (.obj (erase "status" (erase "metadata" (erase "kind" (erase "apiVersion" kvs)))))
      [["metadata", "labels"], ["metadata", "annotations"]] with
  | error e => rfl
  | ok e1 =>
    simp only [bind, Except.bind]
    cases h1 : metaOK e1 with
    | false => simp [throw, throwThe, MonadExceptOf.throw, pure, Except.pure, Except.bind]
    | true =>
      simp only [Bool.not_true, Bool.false_eq_true, if_false, pure, Except.pure, Except.bind]
      cases cherrypickSkip (.obj kvs) _ extra with
      | error e => rfl
      | ok e3 =>
        simp only []
        cases h3 : metaOK e3 <;> simp [throw, throwThe, MonadExceptOf.throw, pure, Except.pure, Except.bind]

def pickStep (src : J) (f : List String) (d : J) : Except Err J :=
  match resolveE src f with
  | .ok v => liftD (ensure d f v)
  | .error .keyError => .ok d
  | .error e => .error e

theorem cherrypick_two (src e0 : J) (f g : List String) :
    cherrypick src e0 [f, g] = match pickStep src f e0 with
      | .error e => .error e
      | .ok d => pickStep src g d := by
  simp only [cherrypick, pickStep]
  cases resolveE src f with
  | error e =>
    cases e <;> simp only [] <;> (cases resolveE src g with
      | error e2 => cases e2 <;> rfl
      | ok w => simp only []; cases liftD (ensure e0 g w) <;> rfl)
  | ok v =>
    simp only []
    cases liftD (ensure e0 f v) with
    | error e => rfl
    | ok d =>
      simp only [bind, Except.bind]
      cases resolveE src g with
      | error e2 => cases e2 <;> rfl
      | ok w => simp only []; cases liftD (ensure d g w) <;> rfl

/-- writing `metadata.annotations` into a destination: the result has a fixed shape, whatever the value. -/
theorem ensure_meta_ann_shape (d : J) :
    (∃ e, ∀ v, liftD (ensure d MA v) = .error e) ∨
    (∃ dk cm, ∀ v, liftD (ensure d MA v) =
      .ok (.obj (J.insert "metadata" (.obj (J.insert "annotations" v cm)) dk))) := by
  cases d with
  | obj dk =>
    cases hl : lookup "metadata" dk with
    | none =>
      right; refine ⟨dk, [], fun v => ?_⟩
      simp [MA, ensure, hl, liftD, bind, Except.bind, pure, Except.pure]
    | some child =>
      cases child with
      | obj cm =>
        right; refine ⟨dk, cm, fun v => ?_⟩
        simp [MA, ensure, hl, liftD, bind, Except.bind, pure, Except.pure]
      | _ =>
        left; refine ⟨.typeError, fun v => ?_⟩
        simp [MA, ensure, hl, liftD, bind, Except.bind, ofDictErr]
  | _ => left; exact ⟨.typeError, fun v => by simp [MA, ensure, liftD, ofDictErr]⟩

def annShape (dk cm : Kvs) (v : J) : J := .obj (J.insert "metadata" (.obj (J.insert "annotations" v cm)) dk)

theorem metaOK_annShape (dk cm A : Kvs) : metaOK (annShape dk cm (.obj A)) = true := by
  simp [annShape, metaOK, lookup_insert_same]

theorem metaGet_annShape (dk cm : Kvs) (v : J) : metaGet (annShape dk cm v) "annotations" = some v := by
  simp [annShape, metaGet, get?, lookup_insert_same]

theorem filterAnnotations_annShape (keep : String → Bool) (dk cm A : Kvs) :
    filterAnnotations keep (annShape dk cm (.obj A)) = annShape dk cm (.obj (A.filter (fun kv => keep kv.1))) := by
  unfold filterAnnotations
  rw [metaGet_annShape]
  simp [annShape, metaSet, lookup_insert_same, insert_insert]

section
variable {kvs m A A' : Kvs} {k0 : String} {p0 : List Char}

theorem resolveE_withAnn_other (hm : lookup "metadata" kvs = some (.obj m)) (f : List String)
    (hf : (∃ k ks, f = k :: ks ∧ k ≠ "metadata") ∨ (∃ k2 ks, f = "metadata" :: k2 :: ks ∧ k2 ≠ "annotations")) :
    resolveE (.obj (withAnn kvs m A')) f = resolveE (.obj kvs) f := by
  rcases hf with ⟨k, ks, rfl, hk⟩ | ⟨k2, ks, rfl, hk2⟩
  · rw [resolveE_obj_cons, resolveE_obj_cons, withAnn, lookup_insert_other _ kvs hk]
  · rw [resolveE_obj_cons, resolveE_obj_cons, withAnn, lookup_insert_same, hm]
    simp only [resolveE_obj_cons, lookup_insert_other _ m hk2]

theorem resolveE_withAnn_MA : resolveE (.obj (withAnn kvs m A')) MA = .ok (.obj A') := by
  simp [MA, withAnn, resolveE, lookup_insert_same]

theorem resolveE_MA (hm : lookup "metadata" kvs = some (.obj m)) (ha : lookup "annotations" m = some (.obj A)) :
    resolveE (.obj kvs) MA = .ok (.obj A) := by
  simp [MA, resolveE, hm, ha]

theorem baseBuild_withAnn_of_filter (ig extra : List (List String))
    (hm : lookup "metadata" kvs = some (.obj m)) (ha : lookup "annotations" m = some (.obj A))
    (hfilt : A'.filter (fun kv => keepAnnotation (markedPrefixes (keys A')) kv.1) =
      A.filter (fun kv => keepAnnotation (markedPrefixes (keys A)) kv.1))
    (hx : ExtraAnnOK extra) :
    baseBuild ig extra (.obj (withAnn kvs m A')) = baseBuild ig extra (.obj kvs) := by
  rw [baseBuild_eq, baseBuild_eq, cherrypick_two, cherrypick_two]
  have he4 : erase4 (withAnn kvs m A') = erase4 kvs := erase4_insert_metadata _ kvs
  have hml : pickStep (.obj (withAnn kvs m A')) ML (.obj (erase4 kvs)) = pickStep (.obj kvs) ML (.obj (erase4 kvs)) := by
    simp only [pickStep]
    rw [resolveE_withAnn_other hm ML (Or.inr ⟨"labels", [], rfl, by decide⟩)]
  rw [he4, hml]
  cases pickStep (.obj kvs) ML (.obj (erase4 kvs)) with
  | error e => rfl
  | ok d =>
    simp only [pickStep, resolveE_withAnn_MA, resolveE_MA hm ha]
    rcases ensure_meta_ann_shape d with ⟨e, he⟩ | ⟨dk, cm, hs⟩
    · rw [he, he]
    · rw [hs, hs]
      simp only []
      change tailBuild ig extra (.obj (withAnn kvs m A')) (annShape dk cm (.obj A')) =
        tailBuild ig extra (.obj kvs) (annShape dk cm (.obj A))
      simp only [tailBuild, stage2, annPrefixes, metaOK_annShape, metaGet_annShape, filterAnnotations_annShape,
        hfilt]
      rw [cherrypickSkip_congr (.obj (withAnn kvs m A')) (.obj kvs) extra _
        (fun f hf => resolveE_withAnn_other hm f (hx f hf))]

theorem baseBuild_withAnn (ig extra : List (List String))
    (hm : lookup "metadata" kvs = some (.obj m)) (ha : lookup "annotations" m = some (.obj A))
    (hd : A'.filter (fun kv => kv.1 != k0) = A.filter (fun kv => kv.1 != k0))
    (hp0 : pfx k0 = some p0) (hr : Robust A k0 p0) (hx : ExtraAnnOK extra) :
    baseBuild ig extra (.obj (withAnn kvs m A')) = baseBuild ig extra (.obj kvs) :=
  baseBuild_withAnn_of_filter ig extra hm ha (filter_marked_eq hd hp0 hr) hx

theorem multiBuild_withAnn (hs : Hashes) (extra : List (List String))
    (hm : lookup "metadata" kvs = some (.obj m)) (ls : List DiffBaseLeaf) (e : J) :
    multiBuild hs extra (.obj (withAnn kvs m A')) e ls = multiBuild hs extra (.obj kvs) e ls :=
  multiBuild_congr hs extra (by simp only [withAnn]; exact lookup_insert_other _ kvs (by decide))
    (by simp only [ownerRefs, get?, withAnn, lookup_insert_same, hm,
          lookup_insert_other _ m (by decide : "ownerReferences" ≠ "annotations")]) ls e

theorem essence_withAnn_of_filter (cfg : Cfg) (extra : List (List String))
    (hm : lookup "metadata" kvs = some (.obj m)) (ha : lookup "annotations" m = some (.obj A))
    (hfilt : A'.filter (fun kv => keepAnnotation (markedPrefixes (keys A')) kv.1) =
      A.filter (fun kv => keepAnnotation (markedPrefixes (keys A)) kv.1))
    (hx : ExtraAnnOK extra) :
    essence cfg extra (.obj (withAnn kvs m A')) = essence cfg extra (.obj kvs) := by
  have hb := fun ig => baseBuild_withAnn_of_filter (A' := A') ig extra hm ha hfilt hx
  have hdrs : isDRS (.obj (withAnn kvs m A')) = isDRS (.obj kvs) := by
    simp only [isDRS, get?, withAnn, lookup_insert_other _ kvs (by decide : "kind" ≠ "metadata"), lookup_insert_same, hm,
      lookup_insert_other _ m (by decide : "ownerReferences" ≠ "annotations")]
  simp only [essence]
  cases hdb : cfg.diffbase with
  | leaf l =>
    cases l with
    | annotations p k v1 ig => simp only [diffbaseBuild, leafBuild, hb, markKey, hdrs]
    | status f ig => simp only [diffbaseBuild, leafBuild, hb]
  | multi ls => simp only [diffbaseBuild, hb, multiBuild_withAnn _ _ hm]

theorem isDRS_withAnn (hm : lookup "metadata" kvs = some (.obj m)) :
    isDRS (.obj (withAnn kvs m A')) = isDRS (.obj kvs) := by
  simp only [isDRS, get?, withAnn, lookup_insert_other _ kvs (by decide : "kind" ≠ "metadata"), lookup_insert_same, hm,
    lookup_insert_other _ m (by decide : "ownerReferences" ≠ "annotations")]

/-- **an annotation under a marked prefix may be set, changed or removed: the essence stays.** -/
theorem essence_withAnn (cfg : Cfg) (extra : List (List String))
    (hm : lookup "metadata" kvs = some (.obj m)) (ha : lookup "annotations" m = some (.obj A))
    (hd : A'.filter (fun kv => kv.1 != k0) = A.filter (fun kv => kv.1 != k0))
    (hp0 : pfx k0 = some p0) (hr : Robust A k0 p0) (hx : ExtraAnnOK extra) :
    essence cfg extra (.obj (withAnn kvs m A')) = essence cfg extra (.obj kvs) := by
  have hb := fun ig => baseBuild_withAnn (A' := A') ig extra hm ha hd hp0 hr hx
  simp only [essence]
  cases hdb : cfg.diffbase with
  | leaf l =>
    cases l with
    | annotations p k v1 ig => simp only [diffbaseBuild, leafBuild, hb, markKey, isDRS_withAnn hm]
    | status f ig => simp only [diffbaseBuild, leafBuild, hb]
  | multi ls => simp only [diffbaseBuild, hb, multiBuild_withAnn _ _ hm]
end

end Kopf.C04
